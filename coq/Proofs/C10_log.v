(** C10 — the change log at byte level (framing, torn tails) and the crash points of
    appendToChangesFile / WriteToFile.  The protobuf codec is a Section variable. *)
From Verif Require Import Base.Prelude Model.C10 Proofs.C10.

Lemma le_enc_length n v : length (le_enc n v) = n.
Proof. revert v; induction n as [|n IH]; intro v; cbn; [reflexivity | rewrite IH; reflexivity]. Qed.

Lemma le_dec_enc n : forall v tl, (v < 256 ^ N.of_nat n)%N -> le_dec n (le_enc n v ++ tl) = v.
Proof.
  induction n as [|n IH]; intros v tl Hv.
  - cbn in *. lia.
  - cbn [le_enc le_dec app].
    rewrite IH.
    + pose proof (N.div_mod v 256). lia.
    + rewrite Nat2N.inj_succ, N.pow_succ_r' in Hv. apply N.div_lt_upper_bound; lia.
Qed.

Lemma skipn_app_exact {A} (a b : list A) n : length a = n -> skipn n (a ++ b) = b.
Proof. intros <-. induction a as [|x a IH]; cbn; [reflexivity | exact IH]. Qed.
Lemma firstn_app_exact {A} (a b : list A) n : length a = n -> firstn n (a ++ b) = a.
Proof. intros <-. induction a as [|x a IH]; cbn; [reflexivity | rewrite IH; reflexivity]. Qed.

Section Codec.
  Variable enc : list pchange -> list N.
  Variable dec : list N -> option (list pchange).
  Hypothesis dec_enc : forall r, dec (enc r) = Some r.
  Hypothesis dec_nil : dec [] = Some [].

  Definition small (r : list pchange) : Prop := (N.of_nat (length (enc r)) < 256 ^ 8)%N.
  Definition frames (rs : list (list pchange)) : list N := concat (map (fun r => frame (enc r)) rs).

  Lemma frame_length p : length (frame p) = 8 + length p.
  Proof. unfold frame. rewrite app_length, le_enc_length. reflexivity. Qed.

  Lemma frames_length rs : length rs <= length (frames rs).
  Proof.
    induction rs as [|r rs IH]; [cbn; lia|]. unfold frames in *. cbn [map concat length]. rewrite app_length, frame_length. lia.
  Qed.

  Lemma recover_fuel_frame fuel r tl :
    small r ->
    recover_fuel dec (S fuel) (frame (enc r) ++ tl) =
    match recover_fuel dec fuel tl with RecOK rs => RecOK (r :: rs) | RecErr => RecErr end.
  Proof.
    intro Hs. unfold frame. rewrite <- app_assoc.
    set (len := N.of_nat (length (enc r))) in *.
    assert (Hd : le_dec 8 (le_enc 8 len ++ enc r ++ tl) = len) by (apply le_dec_enc; exact Hs).
    assert (Hk : skipn 8 (le_enc 8 len ++ enc r ++ tl) = enc r ++ tl).
    { apply skipn_app_exact, le_enc_length. }
    cbn [recover_fuel]. rewrite Hd, Hk.
    destruct (le_enc 8 len ++ enc r ++ tl) eqn:Eb.
    { exfalso. apply (f_equal (@length N)) in Eb. rewrite app_length, le_enc_length in Eb. cbn in Eb. lia. }
    unfold len. rewrite Nat2N.id.
    assert (Hlt : (length (enc r ++ tl) <? length (enc r))%nat = false).
    { apply Nat.ltb_ge. rewrite app_length. lia. }
    rewrite Hlt.
    rewrite (firstn_app_exact (enc r) tl) by reflexivity. rewrite dec_enc.
    rewrite (skipn_app_exact (enc r) tl) by reflexivity. reflexivity.
  Qed.

  Lemma recover_frames_app rs : forall fuel tl,
    Forall small rs ->
    recover_fuel dec (length rs + fuel) (frames rs ++ tl) =
    match recover_fuel dec fuel tl with RecOK x => RecOK (rs ++ x) | RecErr => RecErr end.
  Proof.
    induction rs as [|r rs IH]; intros fuel tl Hs.
    - cbn. destruct (recover_fuel dec fuel tl); reflexivity.
    - inversion Hs; subst. unfold frames. cbn [map concat length plus]. rewrite <- app_assoc.
      rewrite recover_fuel_frame by assumption. fold (frames rs). rewrite IH by assumption.
      destruct (recover_fuel dec fuel tl); reflexivity.
  Qed.

  (** A torn tail (any strict prefix of a frame) yields no change. *)
  Lemma recover_torn_tail r k fuel :
    small r -> k < length (frame (enc r)) -> 2 <= fuel ->
    exists x, recover_fuel dec fuel (firstn k (frame (enc r))) = RecOK x /\ concat x = [].
  Proof.
    intros Hs Hk Hf. destruct fuel as [|[|fuel]]; try lia.
    destruct (Nat.eq_dec k 0) as [->|Hk0].
    { exists []. split; reflexivity. }
    rewrite frame_length in Hk. unfold frame.
    set (len := N.of_nat (length (enc r))) in *.
    destruct (Nat.lt_ge_cases k 8) as [Hlt | Hge].
    - (* inside the length prefix *)
      rewrite firstn_app, le_enc_length. replace (k - 8) with 0 by lia. cbn [firstn]. rewrite app_nil_r.
      set (bs := firstn k (le_enc 8 len)).
      assert (Hl : length bs = k) by (unfold bs; rewrite firstn_length, le_enc_length; lia).
      assert (Hr : skipn 8 bs = []) by (apply skipn_all2; lia).
      cbn [recover_fuel]. rewrite Hr.
      destruct bs as [|b bs'] eqn:Eb; [cbn in Hl; lia|].
      destruct (N.to_nat (le_dec 8 (b :: bs'))) as [|sz] eqn:Esz.
      + cbn. rewrite dec_nil. exists [[]]. split; reflexivity.
      + cbn. exists []. split; reflexivity.
    - (* inside the payload *)
      rewrite firstn_app, le_enc_length, firstn_all2 by (rewrite le_enc_length; lia).
      assert (Hd : le_dec 8 (le_enc 8 len ++ firstn (k - 8) (enc r)) = len) by (apply le_dec_enc; exact Hs).
      assert (Hsk : skipn 8 (le_enc 8 len ++ firstn (k - 8) (enc r)) = firstn (k - 8) (enc r)).
      { apply skipn_app_exact, le_enc_length. }
      cbn [recover_fuel]. rewrite Hd, Hsk.
      destruct (le_enc 8 len ++ firstn (k - 8) (enc r)) eqn:Eb.
      { exfalso. apply (f_equal (@length N)) in Eb. rewrite app_length, le_enc_length in Eb. cbn in Eb. lia. }
      unfold len. rewrite Nat2N.id.
      assert (Hlt : (length (firstn (k - 8) (enc r)) <? length (enc r))%nat = true).
      { apply Nat.ltb_lt. rewrite firstn_length. lia. }
      rewrite Hlt. exists []. split; reflexivity.
  Qed.

  Lemma recover_frames rs : Forall small rs -> recover dec (frames rs) = RecOK rs.
  Proof.
    intro Hs. unfold recover. pose proof (frames_length rs) as Hl.
    replace (S (length (frames rs))) with (length rs + (S (length (frames rs)) - length rs)) by lia.
    rewrite <- (app_nil_r (frames rs)) at 2. rewrite recover_frames_app by exact Hs.
    replace (S (length (frames rs)) - length rs) with (S (length (frames rs) - length rs)) by lia.
    cbn. rewrite app_nil_r. reflexivity.
  Qed.

  Lemma recover_torn rs r k :
    Forall small rs -> small r -> k < length (frame (enc r)) ->
    exists x, recover dec (frames rs ++ firstn k (frame (enc r))) = RecOK x /\ concat x = concat rs.
  Proof.
    intros Hs Hr Hk. unfold recover.
    destruct (Nat.eq_dec k 0) as [->|Hk0].
    { cbn [firstn]. rewrite app_nil_r. fold (recover dec (frames rs)). rewrite recover_frames by exact Hs.
      exists rs. split; reflexivity. }
    pose proof (frames_length rs) as Hl.
    set (tl := firstn k (frame (enc r))).
    assert (Htl : length tl = k) by (unfold tl; rewrite firstn_length; lia).
    rewrite app_length, Htl.
    replace (S (length (frames rs) + k)) with (length rs + (S (length (frames rs) + k) - length rs)) by lia.
    rewrite recover_frames_app by exact Hs.
    destruct (recover_torn_tail r k (S (length (frames rs) + k) - length rs) Hr Hk ltac:(lia)) as [x [Hx Hc]].
    fold tl in Hx. rewrite Hx. exists (rs ++ x). split; [reflexivity|].
    rewrite concat_app, Hc, app_nil_r. reflexivity.
  Qed.

  (** * Loading *)
  Definition base_of (d : disk) : schema := match d_snap d with Some s => s | None => [] end.

  Lemma load_frames d rs :
    log_bytes d = frames rs -> Forall small rs ->
    load_mem dec d = match apply_log (base_of d) (concat rs) with inl s => (s, true) | inr e => (e, false) end.
  Proof. intros Hl Hs. unfold load_mem. rewrite Hl, recover_frames by exact Hs. reflexivity. Qed.

  (** Crash while a record is being appended (the write may be torn at ANY byte):
      the image loads to the state without the record; once the write is complete, with it. *)
  Lemma append_crash d rs r k :
    log_bytes d = frames rs -> Forall small rs -> small r -> k <= length (frame (enc r)) ->
    let d' := with_log d (log_bytes d ++ firstn k (frame (enc r))) in
    (k < length (frame (enc r)) -> load_mem dec d' = load_mem dec d) /\
    (k = length (frame (enc r)) ->
       load_mem dec d' = match apply_log (base_of d) (concat rs ++ r) with inl s => (s, true) | inr e => (e, false) end).
  Proof.
    intros Hl Hs Hr Hk d'.
    assert (Hlb : log_bytes d' = frames rs ++ firstn k (frame (enc r))).
    { unfold d', with_log, log_bytes at 1. cbn [d_log]. rewrite Hl. reflexivity. }
    assert (Hsn : d_snap d' = d_snap d) by reflexivity.
    split.
    - intro Hlt. rewrite (load_frames d rs Hl Hs).
      unfold load_mem. rewrite Hlb, Hsn.
      destruct (recover_torn rs r k Hs Hr Hlt) as [x [Hx Hc]]. rewrite Hx, Hc. reflexivity.
    - intro He. subst k. rewrite firstn_all in Hlb.
      assert (Hl' : log_bytes d' = frames (rs ++ [r])).
      { rewrite Hlb. unfold frames. rewrite map_app, concat_app. cbn. rewrite app_nil_r. reflexivity. }
      rewrite (load_frames d' (rs ++ [r]) Hl') by (apply Forall_app; split; [exact Hs | constructor; [exact Hr | constructor]]).
      rewrite concat_app. cbn. rewrite app_nil_r. unfold base_of. rewrite Hsn. reflexivity.
  Qed.

  (** * Replaying adds over a schema that already contains them *)
  Definition adds_only (cs : list pchange) : Prop :=
    forall c, In c cs -> N.eqb (pc_ct c) CT_DEL = false /\ pc_field c = true.

  Lemma has_del_adds_only m cs : adds_only cs -> has_del m cs = false.
  Proof.
    intro Ha. unfold has_del. destruct (existsb _ cs) eqn:E; [|reflexivity].
    apply existsb_exists in E as [c [Hin Hc]]. rewrite (proj1 (Ha c Hin)) in Hc. discriminate.
  Qed.

  Lemma live_adds_only cs : adds_only cs -> live cs = cs.
  Proof.
    induction cs as [|c cs IH]; intro Ha; [reflexivity|]. cbn.
    assert (Ha' : adds_only cs) by (intros c' Hin; apply Ha; right; exact Hin).
    rewrite (has_del_adds_only _ _ Ha'), IH by exact Ha'. reflexivity.
  Qed.
  Definition agrees (mem : schema) (cs : list pchange) : Prop :=
    forall c, In c cs -> ftype mem (pc_meas c) (pc_fname c) = Some (pc_ftype c).
  Definition same_types (a b : schema) : Prop := forall m f, ftype a m f = ftype b m f.

  Lemma apply_agree cs : forall s mem,
    adds_only cs -> agrees mem cs -> same_types s mem ->
    exists s', apply_changes s cs = inl s' /\ same_types s' mem.
  Proof.
    induction cs as [|c cs IH]; intros s mem Ha Hg Hs; cbn.
    - exists s; split; [reflexivity | exact Hs].
    - unfold apply_change. destruct (Ha c (or_introl eq_refl)) as [Hct Hfd]. rewrite Hct, Hfd. cbn [negb].
      assert (Hc : ftype (ensure_meas s (pc_meas c)) (pc_meas c) (pc_fname c) = Some (pc_ftype c)).
      { rewrite ftype_ensure, Hs. apply Hg. left; reflexivity. }
      destruct (create_existed _ _ _ _ Hc) as [H1 H2].
      destruct (create_field (ensure_meas s (pc_meas c)) (pc_meas c) (pc_fname c) (pc_ftype c)) as [s' r] eqn:Ec.
      cbn in H1, H2. subst r.
      apply IH.
      + intros c' Hin. apply Ha. right; exact Hin.
      + intros c' Hin. apply Hg. right; exact Hin.
      + intros m f. rewrite H2, ftype_ensure. apply Hs.
  Qed.

  Lemma apply_ext cs : forall s s', adds_only cs -> apply_changes s cs = inl s' -> ext s s'.
  Proof.
    induction cs as [|c cs IH]; intros s s' Ha H; cbn in H.
    - inversion H; subst. apply ext_refl.
    - unfold apply_change in H. destruct (Ha c (or_introl eq_refl)) as [Hct Hfd]. rewrite Hct, Hfd in H. cbn [negb] in H.
      destruct (create_field (ensure_meas s (pc_meas c)) (pc_meas c) (pc_fname c) (pc_ftype c)) as [s1 r] eqn:Ec.
      assert (He : ext s s1).
      { intros m f t Hx. replace s1 with (fst (create_field (ensure_meas s (pc_meas c)) (pc_meas c) (pc_fname c) (pc_ftype c)))
          by (rewrite Ec; reflexivity).
        apply create_keeps. rewrite ftype_ensure. exact Hx. }
      destruct r; try discriminate; (eapply ext_trans; [exact He|]; eapply IH; [|exact H]; intros c' Hin; apply Ha; right; exact Hin).
  Qed.

  Lemma apply_self cs : forall s mem, adds_only cs -> apply_changes s cs = inl mem -> agrees mem cs.
  Proof.
    induction cs as [|c cs IH]; intros s mem Ha H; [intros c []|].
    cbn in H. unfold apply_change in H. destruct (Ha c (or_introl eq_refl)) as [Hct Hfd]. rewrite Hct, Hfd in H. cbn [negb] in H.
    pose proof (create_cases (ensure_meas s (pc_meas c)) (pc_meas c) (pc_fname c) (pc_ftype c)) as Hc.
    destruct (create_field (ensure_meas s (pc_meas c)) (pc_meas c) (pc_fname c) (pc_ftype c)) as [s1 r] eqn:Ec.
    cbn in Hc.
    assert (Ha' : adds_only cs) by (intros c' Hin; apply Ha; right; exact Hin).
    assert (Hs1 : s1 = fst (create_field (ensure_meas s (pc_meas c)) (pc_meas c) (pc_fname c) (pc_ftype c))) by (rewrite Ec; reflexivity).
    assert (Hnew : r <> Conflict (match r with Conflict t => t | _ => 0%N end) -> ftype s1 (pc_meas c) (pc_fname c) = Some (pc_ftype c)).
    { intro Hr. destruct (ftype (ensure_meas s (pc_meas c)) (pc_meas c) (pc_fname c)) as [t0|] eqn:Ef.
      - destruct (N.eqb t0 (pc_ftype c)) eqn:Et.
        + apply N.eqb_eq in Et; subst t0. rewrite Hs1. apply create_keeps. exact Ef.
        + subst r. cbn in Hr. congruence.
      - rewrite Hs1. apply create_created. exact Ef. }
    destruct r as [| |t0]; try discriminate.
    - intros c' [<-|Hin]; [|eapply IH; eassumption].
      eapply apply_ext; [exact Ha' | exact H |]. apply Hnew. discriminate.
    - intros c' [<-|Hin]; [|eapply IH; eassumption].
      eapply apply_ext; [exact Ha' | exact H |]. apply Hnew. discriminate.
  Qed.

  (** * A logged deletion wins over everything logged before it, over ANY fields.idx *)
  Definition concerns (m : name) (c : pchange) : bool := name_eqb (pc_meas c) m.
  Definition is_del (c : pchange) : bool := N.eqb (pc_ct c) CT_DEL.

  Lemma apply_change_other s c m f s' :
    concerns m c = false -> apply_change s c = inl s' -> ftype s' m f = ftype s m f.
  Proof.
    unfold concerns, apply_change. intros Hc H. apply name_eqb_neq in Hc.
    destruct (N.eqb (pc_ct c) CT_DEL).
    - inversion H; subst. apply ftype_drop_other. exact Hc.
    - destruct (negb (pc_field c)); [inversion H; reflexivity|].
      destruct (create_field (ensure_meas s (pc_meas c)) (pc_meas c) (pc_fname c) (pc_ftype c)) as [s1 r] eqn:Ec.
      assert (Hs1 : s1 = fst (create_field (ensure_meas s (pc_meas c)) (pc_meas c) (pc_fname c) (pc_ftype c))) by (rewrite Ec; reflexivity).
      destruct r; inversion H; subst s'; rewrite Hs1, ftype_create_other by congruence; apply ftype_ensure.
  Qed.

  Lemma apply_changes_other cs : forall s s' m f,
    forallb (fun c => negb (concerns m c)) cs = true -> apply_changes s cs = inl s' -> ftype s' m f = ftype s m f.
  Proof.
    induction cs as [|c cs IH]; intros s s' m f Hn H; cbn in *.
    - inversion H; reflexivity.
    - apply andb_true_iff in Hn as [Hc Hn]. apply negb_true_iff in Hc.
      destruct (apply_change s c) as [s1|e] eqn:E; [|discriminate].
      rewrite (IH _ _ _ _ Hn H). eapply apply_change_other; eassumption.
  Qed.

  (** [ends_dropped m cs]: the last change of the log that concerns m is a deletion. *)
  Fixpoint ends_dropped (m : name) (cs : list pchange) : bool :=
    match cs with
    | [] => false
    | c :: r => if concerns m c
                then (if forallb (fun c' => negb (concerns m c')) r then is_del c else ends_dropped m r)
                else ends_dropped m r
    end.

  Lemma live_no_concern m cs :
    forallb (fun c => negb (concerns m c)) cs = true -> forallb (fun c => negb (concerns m c)) (live cs) = true.
  Proof.
    induction cs as [|c cs IH]; intro H; [reflexivity|]. cbn in *. apply andb_true_iff in H as [H1 H2].
    destruct (has_del (pc_meas c) cs); [apply IH; exact H2|]. cbn. rewrite H1. apply IH; exact H2.
  Qed.

  Lemma has_del_no_concern m cs : forallb (fun c => negb (concerns m c)) cs = true -> has_del m cs = false.
  Proof.
    intro H. unfold has_del. destruct (existsb _ cs) eqn:E; [|reflexivity].
    apply existsb_exists in E as [c [Hin Hc]]. rewrite forallb_forall in H. specialize (H c Hin).
    apply andb_true_iff in Hc as [_ Hc]. unfold concerns in H. rewrite Hc in H. discriminate.
  Qed.

  Lemma drop_wins cs : forall s s' m f,
    ends_dropped m cs = true -> apply_log s cs = inl s' -> ftype s' m f = None.
  Proof.
    unfold apply_log.
    induction cs as [|c cs IH]; intros s s' m f He H; [discriminate|]. cbn in He, H.
    destruct (concerns m c) eqn:Ec.
    - unfold concerns in Ec. apply name_eqb_eq in Ec.
      destruct (forallb (fun c' => negb (concerns m c')) cs) eqn:En.
      + (* c is the last change of m: a deletion, kept by [live] *)
        rewrite Ec, (has_del_no_concern m cs En) in H. cbn in H.
        unfold is_del in He. unfold apply_change in H. rewrite He in H.
        rewrite (apply_changes_other (live cs) _ _ m f (live_no_concern _ _ En) H).
        rewrite Ec. apply ftype_drop_same.
      + destruct (has_del (pc_meas c) cs); [eapply IH; eassumption|].
        cbn in H. destruct (apply_change s c) as [s1|e]; [|discriminate]. eapply IH; eassumption.
    - destruct (has_del (pc_meas c) cs); [eapply IH; eassumption|].
      cbn in H. destruct (apply_change s c) as [s1|e]; [|discriminate]. eapply IH; eassumption.
  Qed.

  (** Disk level: whatever fields.idx holds (older or newer than the log — i.e. at every
      crash point between the snapshot rewrite and the removal of the log), if the log's
      last word on m is a deletion, a successful load has no field of m. *)
  Lemma drop_stays_dropped_any_snapshot d rs m f s :
    log_bytes d = frames rs -> Forall small rs -> ends_dropped m (concat rs) = true ->
    load_mem dec d = (s, true) -> ftype s m f = None.
  Proof.
    intros Hl Hs He H. rewrite (load_frames d rs Hl Hs) in H.
    destruct (apply_log (base_of d) (concat rs)) as [s0|e] eqn:E; inversion H; subst.
    eapply drop_wins; eassumption.
  Qed.

  (** * Crash points of WriteToFile (snapshot rewrite, then removal of the change log) *)
  Lemma compact_crash mem d rs j :
    log_bytes d = frames rs -> Forall small rs ->
    adds_only (concat rs) -> agrees mem (concat rs) ->
    let d' := run (firstn j (prog_write_to_file mem)) d in
    (j < 2 -> load_mem dec d' = load_mem dec d) /\
    (2 <= j -> exists s, load_mem dec d' = (s, true) /\ same_types s mem).
  Proof.
    intros Hl Hs Ha Hg d'. split.
    - intro Hj. unfold d'. destruct j as [|[|j]]; try lia; destruct mem; reflexivity.
    - intro Hj. unfold d'.
      assert (Hbase : forall dd, base_of dd = mem \/ (mem = [] /\ base_of dd = []) -> log_bytes dd = frames rs ->
                exists s, load_mem dec dd = (s, true) /\ same_types s mem).
      { intros dd Hb Hll. rewrite (load_frames dd rs Hll Hs).
        assert (Hst : same_types (base_of dd) mem) by (destruct Hb as [-> | [-> ->]]; intros m f; reflexivity).
        destruct (apply_agree (concat rs) (base_of dd) mem Ha Hg Hst) as [s' [H1 H2]].
        unfold apply_log. rewrite (live_adds_only _ Ha), H1. exists s'. split; [reflexivity | exact H2]. }
      assert (Hnolog : forall dd, base_of dd = mem \/ (mem = [] /\ base_of dd = []) -> d_log dd = None ->
                exists s, load_mem dec dd = (s, true) /\ same_types s mem).
      { intros dd Hb Hn. unfold load_mem, log_bytes. rewrite Hn. cbn. fold (base_of dd).
        exists (base_of dd). split; [reflexivity|]. destruct Hb as [-> | [-> ->]]; intros m f; reflexivity. }
      destruct j as [|[|[|[|j]]]]; try lia; destruct mem as [|e mem'];
        cbn [prog_write_to_file firstn]; rewrite ?firstn_nil.
      + apply Hbase; [right; split; reflexivity | exact Hl].
      + apply Hbase; [left; reflexivity | exact Hl].
      + apply Hbase; [right; split; reflexivity | exact Hl].
      + apply Hbase; [left; reflexivity | exact Hl].
      + apply Hnolog; [right; split; reflexivity | reflexivity].
      + apply Hnolog; [left; reflexivity | reflexivity].
  Qed.

  (** Once WriteToFile has completed, the files hold exactly the in-memory schema (whatever the
      log contained before): this is why a drop survives a CLEAN restart. *)
  Lemma write_to_file_complete mem d :
    exists s, load_mem dec (run (prog_write_to_file mem) d) = (s, true) /\ same_types s mem.
  Proof.
    destruct mem as [|e mem']; cbn; unfold load_mem, log_bytes; cbn.
    - exists []. split; [reflexivity | intros m f; reflexivity].
    - exists (e :: mem'). split; [reflexivity | intros m f; reflexivity].
  Qed.
End Codec.
