(** C04 — Compaction preserves the logical content of TSM files.  Property theorems only. *)
From Verif Require Import Base.Prelude Model.C37 Model.C04 Proofs.C04.

Theorem C04_chunk_size : forall (V : Type) (size : nat) (dst : list (blk V)) mv,
  (0 < size)%nat ->
  forall b, In b (fst (chunk size dst mv)) -> In b dst \/ (length (b_vals b) <= size)%nat.
Proof. intros V. exact chunk_size_bound. Qed.
Print Assumptions C04_chunk_size.
