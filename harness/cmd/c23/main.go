// C23 driver: drives the REAL InfluxQL integer reducers of influxql/query (functions.go,
// functions.gen.go, call_iterator.go) point by point on generated series and records what
// they emit. Stream reducers (derivative, difference, moving_average, cumulative_sum,
// elapsed, integral) are driven as the stream iterators do: Aggregate(p); Emit() after every
// point (integral: plus Close(); Emit() at the end). Aggregate reducers (spread, percentile,
// median, mean, stddev, mode, distinct, top, bottom) as the call iterator does: Aggregate all
// points of the window, then one Emit().
package main

import (
	"fmt"
	"math"
	"sort"
	"time"

	"github.com/influxdata/influxdb/v2/influxql/query"
	"github.com/influxdata/influxql"
	"verifh/vh"
)

type jpt struct {
	T int64 `json:"t"`
	V int64 `json:"v"`
}
type jout struct {
	T    int64  `json:"t"`
	V    int64  `json:"v,omitempty"`    // integer-valued outputs
	Bits uint64 `json:"bits,omitempty"` // float-valued outputs: IEEE-754 bit pattern (NaN canonicalised)
	F    string `json:"f,omitempty"`    // informational only (never compared)
}
type jcase struct {
	Kind     string  `json:"kind"`
	Unit     int64   `json:"unit,omitempty"`
	NonNeg   bool    `json:"nonneg,omitempty"`
	Asc      bool    `json:"asc,omitempty"`
	N        int     `json:"n,omitempty"`
	Pctl     float64 `json:"percentile,omitempty"`
	Interval int64   `json:"interval,omitempty"` // GROUP BY time(interval) of the integral; 0 = none
	Start    int64   `json:"start,omitempty"`
	End      int64   `json:"end,omitempty"`
	Top      bool    `json:"top,omitempty"`
	In       []jpt   `json:"in"`
	Float    bool    `json:"float_out"`
	Out      []jout  `json:"impl_out"`
}

const sigIntegral = "integer-integral-window-boundary-uses-prev-value"

func sfTerm(f float64) string {
	b := math.Float64bits(f)
	s := vh.Bool(b>>63 != 0)
	e := int64((b >> 52) & 0x7ff)
	fr := b & (1<<52 - 1)
	switch {
	case e == 0x7ff && fr != 0:
		return "S754_nan"
	case e == 0x7ff:
		return "(S754_infinity " + s + ")"
	case e == 0 && fr == 0:
		return "(S754_zero " + s + ")"
	case e == 0:
		return fmt.Sprintf("(S754_finite %s %d%%positive (-1074))", s, fr)
	}
	return fmt.Sprintf("(S754_finite %s %d%%positive (%d))", s, fr|1<<52, e-1075)
}

func ptsTerm(in []jpt) string {
	xs := make([]string, len(in))
	for i, p := range in {
		xs[i] = fmt.Sprintf("(P %s %s)", vh.Z(p.T), vh.Z(p.V))
	}
	return vh.List(xs)
}

func fout(ps []query.FloatPoint) []jout {
	o := make([]jout, 0, len(ps))
	for _, p := range ps {
		v := p.Value
		if v != v {
			v = math.NaN()
		}
		o = append(o, jout{T: p.Time, Bits: math.Float64bits(v), F: fmt.Sprint(v)})
	}
	return o
}
func iout(ps []query.IntegerPoint) []jout {
	o := make([]jout, 0, len(ps))
	for _, p := range ps {
		o = append(o, jout{T: p.Time, V: p.Value})
	}
	return o
}

func ipt(p jpt) *query.IntegerPoint { return &query.IntegerPoint{Time: p.T, Value: p.V} }

// exec runs the real reducer of c.Kind on c.In and fills c.Out / c.Float.
func exec(c *jcase) {
	c.Out = []jout{}
	iv := query.Interval{Duration: time.Duration(c.Unit)}
	switch c.Kind {
	case "derivative":
		c.Float = true
		r := query.NewIntegerDerivativeReducer(iv, c.NonNeg, c.Asc)
		for _, p := range c.In {
			r.AggregateInteger(ipt(p))
			c.Out = append(c.Out, fout(r.Emit())...)
		}
	case "difference":
		r := query.NewIntegerDifferenceReducer(c.NonNeg)
		for _, p := range c.In {
			r.AggregateInteger(ipt(p))
			c.Out = append(c.Out, iout(r.Emit())...)
		}
	case "moving_average":
		c.Float = true
		r := query.NewIntegerMovingAverageReducer(c.N)
		for _, p := range c.In {
			r.AggregateInteger(ipt(p))
			c.Out = append(c.Out, fout(r.Emit())...)
		}
	case "cumulative_sum":
		r := query.NewIntegerCumulativeSumReducer()
		for _, p := range c.In {
			r.AggregateInteger(ipt(p))
			c.Out = append(c.Out, iout(r.Emit())...)
		}
	case "elapsed":
		r := query.NewIntegerElapsedReducer(iv)
		for _, p := range c.In {
			r.AggregateInteger(ipt(p))
			c.Out = append(c.Out, iout(r.Emit())...)
		}
	case "integral":
		c.Float = true
		opt := query.IteratorOptions{Ascending: c.Asc, StartTime: c.Start, EndTime: c.End,
			Interval: query.Interval{Duration: time.Duration(c.Interval)}}
		r := query.NewIntegerIntegralReducer(iv, opt)
		for _, p := range c.In {
			r.AggregateInteger(ipt(p))
			c.Out = append(c.Out, fout(r.Emit())...)
		}
		r.Close()
		c.Out = append(c.Out, fout(r.Emit())...)
	case "percentile":
		r := query.NewIntegerSliceFuncReducer(query.NewIntegerPercentileReduceSliceFunc(c.Pctl))
		for _, p := range c.In {
			r.AggregateInteger(ipt(p))
		}
		c.Out = iout(r.Emit())
	case "median":
		c.Float = true
		r := query.NewIntegerSliceFuncFloatReducer(query.IntegerMedianReduceSlice)
		for _, p := range c.In {
			r.AggregateInteger(ipt(p))
		}
		c.Out = fout(r.Emit())
	case "mean":
		c.Float = true
		r := query.NewIntegerMeanReducer()
		for _, p := range c.In {
			r.AggregateInteger(ipt(p))
		}
		c.Out = fout(r.Emit())
	case "stddev":
		c.Float = true
		r := query.NewIntegerSliceFuncFloatReducer(query.IntegerStddevReduceSlice)
		for _, p := range c.In {
			r.AggregateInteger(ipt(p))
		}
		c.Out = fout(r.Emit())
	case "mode":
		r := query.NewIntegerSliceFuncReducer(query.IntegerModeReduceSlice)
		for _, p := range c.In {
			r.AggregateInteger(ipt(p))
		}
		c.Out = iout(r.Emit())
	case "spread":
		r := query.NewIntegerSpreadReducer()
		for _, p := range c.In {
			r.AggregateInteger(ipt(p))
		}
		c.Out = iout(r.Emit())
	case "distinct":
		r := query.NewIntegerDistinctReducer()
		for _, p := range c.In {
			r.AggregateInteger(ipt(p))
		}
		c.Out = iout(r.Emit())
	case "topbottom":
		if c.Top {
			r := query.NewIntegerTopReducer(c.N)
			for _, p := range c.In {
				r.AggregateInteger(ipt(p))
			}
			c.Out = iout(r.Emit())
		} else {
			r := query.NewIntegerBottomReducer(c.N)
			for _, p := range c.In {
				r.AggregateInteger(ipt(p))
			}
			c.Out = iout(r.Emit())
		}
	default:
		panic("unknown kind " + c.Kind)
	}
}

func kindTerm(c *jcase) string {
	switch c.Kind {
	case "derivative":
		return fmt.Sprintf("(KDerivative %s %s %s)", vh.Z(c.Unit), vh.Bool(c.NonNeg), vh.Bool(c.Asc))
	case "difference":
		return fmt.Sprintf("(KDifference %s)", vh.Bool(c.NonNeg))
	case "moving_average":
		return fmt.Sprintf("(KMovAvg %s)", vh.Nat(c.N))
	case "cumulative_sum":
		return "KCumSum"
	case "elapsed":
		return fmt.Sprintf("(KElapsed %s)", vh.Z(c.Unit))
	case "integral":
		return fmt.Sprintf("(KIntegral {| io_unit := %s; io_asc := %s; io_interval := %s; io_start := %s; io_end := %s |})",
			vh.Z(c.Unit), vh.Bool(c.Asc), vh.Z(c.Interval), vh.Z(c.Start), vh.Z(c.End))
	case "percentile":
		return "(KPercentile " + sfTerm(c.Pctl) + ")"
	case "median":
		return "KMedian"
	case "mean":
		return "KMean"
	case "stddev":
		return "KStddev"
	case "mode":
		return "KMode"
	case "spread":
		return "KSpread"
	case "distinct":
		return "KDistinct"
	case "topbottom":
		return fmt.Sprintf("(KTopBottom %s %s)", vh.Bool(c.Top), vh.Nat(c.N))
	}
	panic("kind")
}

// integralSig decides, from the INPUT only, whether a windowed integral case has the shape of
// the known finding: two consecutive points (after removing repeated timestamps) lie in
// different GROUP BY time windows and the earlier one is not exactly on its window's end.
func integralSig(c *jcase) string {
	if c.Kind != "integral" || c.Interval == 0 || len(c.In) < 2 {
		return ""
	}
	win := func(t int64) int64 {
		d := t % c.Interval
		if d < 0 {
			d += c.Interval
		}
		return t - d
	}
	for i := 1; i < len(c.In); i++ {
		a, b := c.In[i-1], c.In[i]
		if a.T != b.T && win(a.T) != win(b.T) {
			return sigIntegral
		}
	}
	return ""
}

func run(w *vh.W, c *jcase) {
	if msg := vh.Guard(func() { exec(c) }); msg != "" {
		idx := w.Add(fmt.Sprintf("{| c_kind := %s; c_in := %s; c_out := OInt [] |}", kindTerm(c), ptsTerm(c.In)), c, true, "")
		w.Fail(idx, "reducer panicked: "+msg, "")
		return
	}
	xs := make([]string, len(c.Out))
	for i, o := range c.Out {
		if c.Float {
			xs[i] = vh.Pair(vh.Z(o.T), sfTerm(math.Float64frombits(o.Bits)))
		} else {
			xs[i] = vh.Pair(vh.Z(o.T), vh.Z(o.V))
		}
	}
	out := "OInt "
	if c.Float {
		out = "OFlt "
	}
	t := fmt.Sprintf("{| c_kind := %s; c_in := %s; c_out := %s%s |}", kindTerm(c), ptsTerm(c.In), out, vh.List(xs))
	// non-trivial: at least two input points and a non-empty output
	w.Add(t, c, len(c.In) >= 2 && len(c.Out) > 0, integralSig(c))
	w.Count("kind", c.Kind)
	w.Count("len", fmt.Sprint(len(c.In)))
	w.Count("nout", fmt.Sprint(len(c.Out)))
}

var kinds = []string{"derivative", "difference", "moving_average", "cumulative_sum", "elapsed", "integral",
	"percentile", "median", "mean", "stddev", "mode", "spread", "distinct", "topbottom"}
var units = []int64{1, 2, 7, 1000, 1000000000, 60000000000}
var pctls = []float64{0, 1, 5, 10, 12.5, 25, 33.3, 50, 66.6, 75, 90, 95, 99, 99.9, 100, 100.5, 101, 105, 110, 150, -1, -50}
var extremes = []int64{math.MaxInt64, math.MinInt64, math.MaxInt64 - 1, math.MinInt64 + 1, 1 << 53, -(1 << 53) - 1, 1<<62 + 12345, -(1 << 62)}

func pick[T any](w *vh.W, xs []T) T { return xs[w.Rng.IntN(len(xs))] }

// genSeries: times over a small domain with duplicates and gaps (mostly non-decreasing, sometimes
// non-increasing, sometimes unordered), values small signed integers, optionally extremes / medium.
func genSeries(w *vh.W, n int, scale int64, order int, valmode int) []jpt {
	r := w.Rng
	ts := make([]int64, n)
	base := int64(r.IntN(7)-3) * scale
	for i := range ts {
		ts[i] = base + int64(r.IntN(16))*scale
	}
	switch order {
	case 0:
		sort.Slice(ts, func(i, j int) bool { return ts[i] < ts[j] })
	case 1:
		sort.Slice(ts, func(i, j int) bool { return ts[i] > ts[j] })
	}
	ps := make([]jpt, n)
	for i := range ps {
		v := int64(r.IntN(11) - 5)
		switch valmode {
		case 1: // extremes
			if r.IntN(4) == 0 {
				v = pick(w, extremes)
			}
		case 2: // medium
			if r.IntN(4) == 0 {
				v = int64(r.IntN(2001) - 1000)
			}
		case 3: // few distinct values (ties)
			v = int64(r.IntN(3))
		}
		ps[i] = jpt{T: ts[i], V: v}
	}
	return ps
}

func gen(w *vh.W, kind string) *jcase {
	r := w.Rng
	c := &jcase{Kind: kind}
	n := r.IntN(13)
	scale := pick(w, []int64{1, 1, 10, 1000000000})
	order := pick(w, []int{0, 0, 0, 0, 1, 2})
	valmode := pick(w, []int{0, 0, 1, 2, 3})
	switch kind {
	case "derivative":
		c.Unit = pick(w, units)
		c.NonNeg = r.IntN(2) == 0
		c.Asc = order != 1
		if r.IntN(8) == 0 {
			c.Asc = !c.Asc
		}
	case "difference":
		c.NonNeg = r.IntN(2) == 0
	case "moving_average":
		c.N = pick(w, []int{1, 2, 3, 4, 7})
	case "elapsed":
		c.Unit = pick(w, units)
	case "integral":
		c.Unit = pick(w, units)
		if valmode == 1 {
			valmode = 2
		}
		c.Asc = order != 1
		if order == 2 {
			order = 0
		}
		c.Start, c.End = influxql.MinTime, influxql.MaxTime
		if c.Asc && r.IntN(2) == 0 {
			c.Interval = pick(w, []int64{2, 5, 10}) * scale
		} else if r.IntN(4) == 0 {
			c.Start, c.End = -100*scale, 100*scale
		}
	case "percentile":
		c.Pctl = pick(w, pctls)
	case "stddev":
		if valmode == 1 {
			valmode = 2
		}
		if n == 0 {
			n = 1
		}
	case "median":
		if valmode == 1 {
			valmode = 2
		}
		if n == 0 {
			n = 2
		}
	case "topbottom":
		c.Top = r.IntN(2) == 0
		c.N = pick(w, []int{1, 2, 3, 5, 12})
	}
	if n == 0 && (kind == "mode" || kind == "mean") {
		n = 1 // these reducers are only ever created on the first point of a window
	}
	c.In = genSeries(w, n, scale, order, valmode)
	if kind == "elapsed" && r.IntN(10) == 0 && n > 0 {
		c.In[r.IntN(n)].T = pick(w, extremes)
	}
	return c
}

func P(t, v int64) jpt { return jpt{T: t, V: v} }

func handPicked() []*jcase {
	mn, mx := int64(influxql.MinTime), int64(influxql.MaxTime)
	return []*jcase{
		{Kind: "derivative", Unit: 1, Asc: true, In: []jpt{P(0, 1), P(0, 9), P(2, 5), P(2, 7), P(3, 5)}},
		{Kind: "derivative", Unit: 1000000000, NonNeg: true, Asc: true, In: []jpt{P(0, 5), P(1000000000, 3), P(3000000000, 10)}},
		{Kind: "derivative", Unit: 7, Asc: false, In: []jpt{P(9, 5), P(6, 5), P(3, -2)}},
		{Kind: "difference", NonNeg: true, In: []jpt{P(0, 5), P(1, 3), P(1, 9), P(2, 4), P(3, 4)}},
		{Kind: "difference", In: []jpt{P(0, math.MaxInt64), P(1, math.MinInt64), P(2, 0)}},
		{Kind: "moving_average", N: 3, In: []jpt{P(0, 1), P(1, 2), P(2, 3), P(3, 4), P(4, 5), P(5, -6), P(6, 7)}},
		{Kind: "moving_average", N: 2, In: []jpt{P(0, math.MaxInt64), P(1, 1), P(2, 1)}},
		{Kind: "cumulative_sum", In: []jpt{P(0, math.MaxInt64), P(1, 1), P(1, -3)}},
		{Kind: "elapsed", Unit: 7, In: []jpt{P(0, 1), P(20, 1), P(20, 1), P(5, 1)}},
		{Kind: "integral", Unit: 1, Asc: true, Start: mn, End: mx, In: []jpt{P(0, 0), P(5, 10), P(5, 20), P(10, 0)}},
		{Kind: "integral", Unit: 1, Asc: true, Start: mn, End: mx, In: []jpt{P(-10, 4), P(-5, 4), P(0, 4)}},
		{Kind: "integral", Unit: 1, Asc: true, Start: mn, End: mx, Interval: 10, In: []jpt{P(0, 2), P(5, 2), P(10, 2), P(15, 2)}},
		{Kind: "integral", Unit: 1, Asc: true, Start: mn, End: mx, Interval: 10, In: []jpt{P(5, 0), P(15, 10)}},
		{Kind: "integral", Unit: 1, Asc: false, Start: mn, End: mx, In: []jpt{P(10, 1), P(5, 3), P(0, 1)}},
		{Kind: "percentile", Pctl: 50, In: []jpt{P(3, 5), P(1, 5), P(2, 1), P(0, 9)}},
		{Kind: "percentile", Pctl: 0, In: []jpt{P(0, 1)}},
		{Kind: "median", In: []jpt{P(0, 1), P(1, 4)}},
		{Kind: "median", In: []jpt{P(7, 3)}},
		{Kind: "mode", In: []jpt{P(5, 1), P(1, 2)}},
		{Kind: "mode", In: []jpt{P(5, 1), P(6, 1), P(1, 2), P(2, 2)}},
		{Kind: "mode", In: []jpt{P(9, 4)}},
		{Kind: "stddev", In: []jpt{P(0, 1)}},
		{Kind: "stddev", In: []jpt{P(0, 1), P(1, 2), P(2, 4)}},
		{Kind: "spread", In: []jpt{P(0, math.MinInt64), P(1, math.MaxInt64)}},
		{Kind: "spread", In: []jpt{}},
		{Kind: "distinct", In: []jpt{P(3, 1), P(1, 2), P(0, 1), P(1, 0)}},
		{Kind: "topbottom", Top: true, N: 2, In: []jpt{P(3, 5), P(1, 5), P(2, 5), P(0, 1)}},
		{Kind: "topbottom", Top: false, N: 3, In: []jpt{P(3, 5), P(1, 5), P(2, 1), P(0, 1), P(0, 1)}},
		{Kind: "mean", In: []jpt{P(0, math.MaxInt64), P(1, 1)}},
	}
}

func main() {
	w := vh.New("C23", "From Coq Require Import Floats.SpecFloat.\nFrom Verif Require Import Base.Prelude Model.C23.\nOpen Scope Z_scope.", "case", "check")
	w.Rule = "hand-picked edge cases first; then per case a reducer kind (uniform over 14), parameters from bounded sets (unit in {1,2,7,1e3,1e9,6e10}, N in {1,2,3,4,7} / {1,2,3,5,12}, percentile from 22 values incl. <0 and >100, integral with/without GROUP BY time windows), a series of 0-12 points with times from a 16-value grid (scale 1/10/1e9, random base, duplicates and gaps; non-decreasing 4/6, non-increasing 1/6, unordered 1/6) and values in -5..5, optionally with int64 extremes (integer-exact kinds, derivative, moving_average, mean), medium values or only 3 distinct values. Non-trivial: >= 2 input points and a non-empty output. Distinct: distinct Gallina terms."
	var rc jcase
	if w.ReplayCase(&rc) {
		run(w, &rc)
		w.Finish()
		return
	}
	for _, c := range handPicked() {
		run(w, c)
	}
	for w.Len() < w.N {
		run(w, gen(w, kinds[w.Rng.IntN(len(kinds))]))
	}
	w.Finish()
}
