module go2v

go 1.22
