#!/bin/bash
# Run the repository's baseline test command (verif guard OFF) and compare with BASELINE.json.
cd /repo && go test -mod=mod -json -vet=off -count=1 -timeout 25m ./... > /tmp/baseline.json 2>/dev/null
python3 - <<'PY'
import json
passed=set()
for l in open('/tmp/baseline.json'):
    try: e=json.loads(l)
    except Exception: continue
    if e.get('Action')=='pass' and e.get('Test'): passed.add(e['Package']+'::'+e['Test'])
b=json.load(open('/root/.vp/BASELINE.json'))
missing=[t for t in b['stable_pass'] if t not in passed]
print('baseline stable tests:',len(b['stable_pass']),'passing now:',len(b['stable_pass'])-len(missing))
for t in missing[:20]: print('  MISSING',t)
PY
