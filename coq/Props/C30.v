(** C30 — Tenant metadata stays unique and internally consistent.  Property theorems only.

    [run fx ops] is the state of the mirror model (Model/C30.v) after the history [ops]
    from the empty store; [fx = true] is the code as it is (since /repo commit 80e129d9b5),
    [fx = false] the code before that repair of [Store.DeleteOrg]; the theorems quantified
    over [fx] hold for both.  All statements are for histories of ANY length over
    ANY names and ids (including operations on ids that do not exist yet, never existed
    or were deleted). *)
From Verif Require Import Base.Prelude Model.C30 Proofs.C30_al Proofs.C30_inv Proofs.C30_step
  Proofs.C30 Proofs.C30_osound Proofs.C30_wf Proofs.C30_cascade Proofs.C30_live.

(** Organization names (compared after TrimSpace, as the code does) are unique. *)
Theorem C30_org_names_unique : forall fx ops id1 id2 n1 n2,
  getN id1 (s_orgs (run fx ops)) = Some n1 -> getN id2 (s_orgs (run fx ops)) = Some n2 ->
  trim n1 = trim n2 -> id1 = id2.
Proof. exact org_names_unique. Qed.
Print Assumptions C30_org_names_unique.

Theorem C30_user_names_unique : forall fx ops id1 id2 n,
  getN id1 (s_users (run fx ops)) = Some n -> getN id2 (s_users (run fx ops)) = Some n -> id1 = id2.
Proof. exact user_names_unique. Qed.
Print Assumptions C30_user_names_unique.

Theorem C30_bucket_names_unique_per_org : forall fx ops id1 id2 b1 b2,
  getN id1 (s_bkts (run fx ops)) = Some b1 -> getN id2 (s_bkts (run fx ops)) = Some b2 ->
  b_org b1 = b_org b2 -> b_name b1 = b_name b2 -> id1 = id2.
Proof. exact bucket_names_unique. Qed.
Print Assumptions C30_bucket_names_unique_per_org.

(** Every name lookup of the service API agrees with the records: FindOrganization(name),
    FindBucketByName(org, name), FindUser(name) return id iff the record id exists and
    carries that name. *)
Theorem C30_name_lookup_agrees_with_record : forall fx ops,
  let st := run fx ops in
  (forall p id, find_org st p = Some id <-> exists n, getN id (s_orgs st) = Some n /\ trim n = trim p) /\
  (forall o n id, find_bucket st o n = Some id <->
     exists b, getN id (s_bkts st) = Some b /\ b_org b = o /\ b_name b = n) /\
  (forall n id, find_user st n = Some id <-> getN id (s_users st) = Some n).
Proof.
  intros fx ops st. split; [|split].
  - apply find_org_spec. - apply find_bucket_spec. - apply find_user_spec.
Qed.
Print Assumptions C30_name_lookup_agrees_with_record.

(** Every index entry points to a live record carrying that name, and every record has its
    index entry — all four indexes, both directions, all histories (code as of /repo commit
    80e129d9b5, [fx = true]). *)
Theorem C30_index_agrees_with_record : forall ops,
  let st := run true ops in
  (* organizations *)
  (forall k id, getP k (s_oidx st) = Some id -> exists n, getN id (s_orgs st) = Some n /\ trim n = k) /\
  (forall id n, getN id (s_orgs st) = Some n -> getP (trim n) (s_oidx st) = Some id) /\
  (* buckets *)
  (forall o n id, getP (o, n) (s_bidx st) = Some id ->
     exists b, getN id (s_bkts st) = Some b /\ b_org b = o /\ b_name b = n) /\
  (forall id b, getN id (s_bkts st) = Some b -> getP (b_org b, b_name b) (s_bidx st) = Some id) /\
  (* users *)
  (forall n id, getN n (s_uidx st) = Some id -> getN id (s_users st) = Some n) /\
  (forall id n, getN id (s_users st) = Some n -> getN n (s_uidx st) = Some id) /\
  (* mappings and their by-user index *)
  (forall u r pk, getP (u, r) (s_uix st) = Some pk ->
     pk = (r, u) /\ exists v, getP (r, u) (s_urms st) = Some v) /\
  (forall r u v, getP (r, u) (s_urms st) = Some v -> getP (u, r) (s_uix st) = Some (r, u)).
Proof.
  intros ops st. repeat split.
  - apply run_osound_fixed. - apply org_index_complete.
  - apply bucket_index_sound. - apply bucket_index_complete.
  - apply user_index_sound. - apply user_index_complete.
  - eapply urm_index_sound; eauto. - eapply urm_index_sound; eauto. - apply urm_index_complete.
Qed.
Print Assumptions C30_index_agrees_with_record.

(** The code BEFORE commit 80e129d9b5 ([fx = false]): create an organization named " x",
    delete it.  The name index entry "x" survived and pointed to the dead id; no organization
    was left, yet creating "x" was refused as a name conflict forever, while
    FindOrganization("x") answered "not found" (findings.d/C30.json, fixed).  With the
    repaired delete the same history leaves an empty index. *)
Example C30_prefix_counterexample :
  (let st := run false witness_ops in
   getP (1, 0)%N (s_oidx st) = Some 1%N /\ s_orgs st = [] /\
   step_e false st (CreateOrg (1, 0)%N None) = (st, E_CONFLICT) /\ find_org st (1, 0)%N = None) /\
  s_oidx (run true witness_ops) = [].
Proof. split; [exact osound_refuted | vm_compute; reflexivity]. Qed.

(** No orphans: the organization of a bucket, the user of a mapping and the user of a
    password exist. *)
Theorem C30_no_orphans : forall fx ops,
  let st := run fx ops in
  (forall id b, getN id (s_bkts st) = Some b -> exists n, getN (b_org b) (s_orgs st) = Some n) /\
  (forall r u v, getP (r, u) (s_urms st) = Some v -> exists n, getN u (s_users st) = Some n) /\
  (forall id, hasN id (s_pwds st) = true -> exists n, getN id (s_users st) = Some n).
Proof.
  intros fx ops st. split; [|split].
  - apply bucket_org_live. - apply urm_user_live. - apply password_user_live.
Qed.
Print Assumptions C30_no_orphans.

(** Deleting an organization (successfully) leaves neither the organization, nor a bucket
    or bucket-index entry of it, nor a membership (record or by-user index entry) on the
    organization or on one of the buckets it had. *)
Theorem C30_org_delete_cascades : forall fx ops id st',
  let st := run fx ops in
  step_e fx st (DeleteOrg id) = (st', E_OK) ->
  getN id (s_orgs st') = None /\
  (forall j b, getN j (s_bkts st') = Some b -> b_org b <> id) /\
  (forall k j, getP k (s_bidx st') = Some j -> fst k <> id) /\
  (forall k v, getP k (s_urms st') = Some v ->
     fst k <> id /\ forall b, getN (fst k) (s_bkts st) = Some b -> b_org b <> id) /\
  (forall k pk, getP k (s_uix st') = Some pk ->
     snd k <> id /\ forall b, getN (snd k) (s_bkts st) = Some b -> b_org b <> id).
Proof. intros fx ops id st' st H. apply (delete_org_cascade fx); [apply run_inv | exact H]. Qed.
Print Assumptions C30_org_delete_cascades.

(** ... and deleting an organization that exists never fails (its bucket listing is
    consistent, every listed bucket can be deleted exactly once). *)
Theorem C30_org_delete_succeeds : forall fx ops id n,
  getN id (s_orgs (run fx ops)) = Some n -> snd (step_e fx (run fx ops) (DeleteOrg id)) = E_OK.
Proof. intros fx ops id n H. apply (delete_org_ok fx _ id n); [apply run_inv | apply run_wf | exact H]. Qed.
Print Assumptions C30_org_delete_succeeds.

(** Deleting a user removes the record, the password and every membership of the user. *)
Theorem C30_user_delete_cascades : forall fx ops id st',
  step_e fx (run fx ops) (DeleteUser id) = (st', E_OK) ->
  getN id (s_users st') = None /\ hasN id (s_pwds st') = false /\
  (forall k v, getP k (s_urms st') = Some v -> snd k <> id) /\
  (forall k pk, getP k (s_uix st') = Some pk -> fst k <> id).
Proof. intros fx ops id st' H. apply (delete_user_cascade (run fx ops) id st'); [apply run_inv | exact H]. Qed.
Print Assumptions C30_user_delete_cascades.

(** System buckets: once a system bucket exists it stays exactly as it is along every
    continuation that does not delete its organization; the API refuses to delete it and
    to rename it. *)
Theorem C30_system_buckets_immutable : forall fx ops1 ops2 bid b,
  getN bid (s_bkts (run fx ops1)) = Some b -> b_sys b = true ->
  (forallb (fun o => negb (is_delete_org_of o (b_org b))) ops2 = true ->
   getN bid (s_bkts (run fx (ops1 ++ ops2))) = Some b) /\
  step_e fx (run fx ops1) (DeleteBucket bid) = (run fx ops1, E_INVALID) /\
  (forall n, n <> b_name b -> step_e fx (run fx ops1) (UpdateBucket bid (Some n)) = (run fx ops1, E_INVALID)).
Proof.
  intros fx ops1 ops2 bid b Hb Hs. split.
  - intro Hops. unfold run at 1. rewrite fold_left_app. fold (run fx ops1).
    apply sys_persist; [apply run_inv | apply run_wf | exact Hb | exact Hs | exact Hops].
  - apply sys_refused; assumption.
Qed.
Print Assumptions C30_system_buckets_immutable.

(** Every KV bucket of the model has unique keys in every reachable state: the association
    lists are finite maps, as the real KV buckets are. *)
Theorem C30_kv_keys_unique : forall fx ops, WF (run fx ops).
Proof. exact run_wf. Qed.
Print Assumptions C30_kv_keys_unique.

(** Non-vacuity: a history with two organizations, colliding names, a renamed bucket, a
    user with a password and memberships; the organization delete succeeds and the
    hypotheses of the theorems above are met by concrete ids. *)
Local Open Scope N_scope.
Example C30_nonvacuous :
  let ops := [CreateUser 1; SetPassword 1; CreateOrg (1, 0)%N (Some 1%N); CreateOrg (2, 0)%N None;
              CreateBucket 2 5 false; UpdateBucket 8 (Some 6%N); AddURM 8 1 (1, 1)%N;
              UpdateOrg 5 (Some (1, 0)%N); CreateBucket 5 6 false]%N in
  let st := run true ops in
  getN 2 (s_orgs st) = Some (1, 0)%N /\ getN 5 (s_orgs st) = Some (2, 0)%N /\
  getN 8 (s_bkts st) = Some {| b_org := 2; b_name := 6; b_sys := false |} /\
  getN 3 (s_bkts st) = Some {| b_org := 2; b_name := 0; b_sys := true |} /\
  find_bucket st 2 6 = Some 8%N /\ find_bucket st 5 6 = Some 9%N /\
  getP (8, 1)%N (s_urms st) = Some (1, 1)%N /\ hasN 1 (s_pwds st) = true /\
  snd (step_e true st (UpdateOrg 5 (Some (1, 1)%N))) = E_CONFLICT /\
  snd (step_e true st (DeleteOrg 2)) = E_OK /\
  s_urms (fst (step_e true st (DeleteOrg 2))) = [] /\
  snd (step_e true st (DeleteUser 1)) = E_OK.
Proof. vm_compute. repeat split; reflexivity. Qed.
