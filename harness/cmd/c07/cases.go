package main

import "math/rand/v2"

func fixedCases() []jcase {
	cs := fixedS8b()
	cs = append(cs, fixedInt()...)
	cs = append(cs, fixedBool()...)
	cs = append(cs, fixedFloat()...)
	cs = append(cs, fixedStr()...)
	cs = append(cs, fixedBlock()...)
	cs = append(cs, fixedLongStr()...)
	return cs
}

func genCase(r *rand.Rand, big bool) jcase {
	switch x := r.IntN(100); {
	case x < 17:
		return genS8b(r, big)
	case x < 37:
		return genInt(r, big)
	case x < 57:
		return genTime(r, big)
	case x < 63:
		return genBool(r, big)
	case x < 82:
		return genFloat(r, big)
	case x < 86:
		return genStr(r)
	case x < 88:
		return genLongStr(r)
	default:
		return genBlock(r, big)
	}
}
