(** C01 / C03 — the shard engine as a layered last-write-wins store.

    Mirror of the *state machine* of tsdb/engine/tsm1/engine.go:
      WritePoints            -> [Write]      (append to the hot cache store, batch order)
      Cache.Snapshot()       -> [SnapBegin]  (swap hot into the snapshot store; a pending
                                              failed snapshot is returned as-is for retry)
      writeSnapshotAndCommit -> [SnapCommit] (snapshot becomes the newest TSM file)
      ClearSnapshot(false)   -> [SnapFail]   (snapshot write failed; snapshot store kept)
      compactGroup + Replace -> [Compact i n] (files i..i+n-1, contiguous in generation
                                              order, replaced by their newest-wins merge)
      deleteSeriesRange      -> [Delete ks lo hi] (tombstone every TSM file present now,
                                              filter the HOT store only — the snapshot store
                                              is "read only and should never be modified")
    and of the read path (cache over TSM files, newer file over older file, tombstoned
    points invisible).  How one key's blocks are merged across files is C06's business;
    here a file is its logical content. *)
From Verif Require Import Base.Prelude.
From Coq Require Import Sorting.Sorted.

Definition key := N.
(** A log: (key, time, value) entries, oldest first; the LAST entry for (k,t) wins. *)
Definition log := list (key * Z * Z).

Fixpoint log_get (l : log) (k : key) (t : Z) : option Z :=
  match l with
  | [] => None
  | (k', t', v) :: r =>
      match log_get r k t with
      | Some x => Some x
      | None => if (N.eqb k k' && Z.eqb t t')%bool then Some v else None
      end
  end.

Record tomb := { tk : key; tlo : Z; thi : Z }.
Record file := { fpts : log; ftomb : list tomb }.

Definition tombed (ts : list tomb) (k : key) (t : Z) : bool :=
  existsb (fun x => (N.eqb (tk x) k && Z.leb (tlo x) t && Z.leb t (thi x))%bool) ts.

Definition file_get (f : file) (k : key) (t : Z) : option Z :=
  if tombed (ftomb f) k t then None else log_get (fpts f) k t.

(** files: oldest first.  The newest file with a LIVE point wins. *)
Fixpoint files_get (fs : list file) (k : key) (t : Z) : option Z :=
  match fs with
  | [] => None
  | f :: r => match files_get r k t with Some v => Some v | None => file_get f k t end
  end.

Record state := {
  hot : log; snap : log; snapshotting : bool; files : list file
}.

Definition init : state := {| hot := []; snap := []; snapshotting := false; files := [] |}.

(** The abstraction: what a read of (k,t) sees. *)
Definition abs (s : state) (k : key) (t : Z) : option Z :=
  match log_get (hot s) k t with
  | Some v => Some v
  | None => match log_get (snap s) k t with
            | Some v => Some v
            | None => files_get (files s) k t
            end
  end.

Inductive op :=
| Write (b : log)
| SnapBegin | SnapCommit | SnapFail
| Compact (i n : nat)
| Delete (ks : list key) (lo hi : Z).

(** Candidate (key,time) pairs of a list of files, and the merge a compaction produces:
    one entry per live (k,t), carrying the newest live value; no tombstones. *)
Definition file_cands (f : file) : list (key * Z) := map (fun e => (fst (fst e), snd (fst e))) (fpts f).
Definition files_cands (fs : list file) : list (key * Z) := flat_map file_cands fs.

Definition merge_files (g : list file) : file :=
  {| fpts := flat_map (fun kt => match files_get g (fst kt) (snd kt) with
                                 | Some v => [(fst kt, snd kt, v)]
                                 | None => [] end) (files_cands g);
     ftomb := [] |}.

Definition in_keys (ks : list key) (k : key) : bool := existsb (N.eqb k) ks.
Definition in_range (lo hi t : Z) : bool := (Z.leb lo t && Z.leb t hi)%bool.

Definition log_delete (l : log) (ks : list key) (lo hi : Z) : log :=
  filter (fun e => negb (in_keys ks (fst (fst e)) && in_range lo hi (snd (fst e)))%bool) l.

Definition file_delete (ks : list key) (lo hi : Z) (f : file) : file :=
  {| fpts := fpts f;
     ftomb := map (fun k => {| tk := k; tlo := lo; thi := hi |}) ks ++ ftomb f |}.

(** [step] returns the new state and whether the call succeeded. *)
Definition step (s : state) (o : op) : state * bool :=
  match o with
  | Write b =>
      ({| hot := hot s ++ b; snap := snap s; snapshotting := snapshotting s; files := files s |}, true)
  | SnapBegin =>
      if snapshotting s then (s, false)
      else match snap s with
           | [] => ({| hot := []; snap := hot s; snapshotting := true; files := files s |}, true)
           | _ :: _ => ({| hot := hot s; snap := snap s; snapshotting := true; files := files s |}, true)
           end
  | SnapCommit =>
      if snapshotting s then
        ({| hot := hot s; snap := []; snapshotting := false;
            files := match snap s with
                     | [] => files s
                     | _ :: _ => files s ++ [ {| fpts := snap s; ftomb := [] |} ]
                     end |}, true)
      else (s, false)
  | SnapFail =>
      if snapshotting s then
        ({| hot := hot s; snap := snap s; snapshotting := false; files := files s |}, true)
      else (s, false)
  | Compact i n =>
      if (Nat.leb 1 n && Nat.leb (i + n) (length (files s)))%bool then
        ({| hot := hot s; snap := snap s; snapshotting := snapshotting s;
            files := firstn i (files s) ++ [merge_files (firstn n (skipn i (files s)))]
                     ++ skipn (i + n) (files s) |}, true)
      else (s, false)
  | Delete ks lo hi =>
      ({| hot := log_delete (hot s) ks lo hi; snap := snap s; snapshotting := snapshotting s;
          files := map (file_delete ks lo hi) (files s) |}, true)
  end.

Definition run (h : list op) (s : state) : state := fold_left (fun s o => fst (step s o)) h s.

(** ** Reads.  All candidate times of key [k], sorted strictly, restricted to [lo,hi]. *)
Definition key_times (l : log) (k : key) : list Z :=
  flat_map (fun e => if N.eqb (fst (fst e)) k then [snd (fst e)] else []) l.

Definition cand_times (s : state) (k : key) : list Z :=
  key_times (hot s) k ++ key_times (snap s) k ++ flat_map (fun f => key_times (fpts f) k) (files s).

Fixpoint insert_uniq (t : Z) (l : list Z) : list Z :=
  match l with
  | [] => [t]
  | x :: r => if Z.ltb t x then t :: l else if Z.eqb t x then l else x :: insert_uniq t r
  end.
Definition sort_uniq (l : list Z) : list Z := fold_right insert_uniq [] l.

Definition read_asc (s : state) (k : key) (lo hi : Z) : list (Z * Z) :=
  flat_map (fun t => if in_range lo hi t
                     then match abs s k t with Some v => [(t, v)] | None => [] end
                     else []) (sort_uniq (cand_times s k)).

Definition read (s : state) (k : key) (lo hi : Z) (asc : bool) : list (Z * Z) :=
  if asc then read_asc s k lo hi else rev (read_asc s k lo hi).

(** ** The independent specification (oracle): last-write-wins over the raw history.
    [spec_log h]: replay writes and deletes only, ignoring every snapshot/compaction. *)
Fixpoint spec_log (h : list op) (acc : log) : log :=
  match h with
  | [] => acc
  | Write b :: r => spec_log r (acc ++ b)
  | Delete ks lo hi :: r => spec_log r (log_delete acc ks lo hi)
  | _ :: r => spec_log r acc
  end.

Definition spec_read_asc (l : log) (k : key) (lo hi : Z) : list (Z * Z) :=
  flat_map (fun t => if in_range lo hi t
                     then match log_get l k t with Some v => [(t, v)] | None => [] end
                     else []) (sort_uniq (key_times l k)).
Definition spec_read (l : log) (k : key) (lo hi : Z) (asc : bool) : list (Z * Z) :=
  if asc then spec_read_asc l k lo hi else rev (spec_read_asc l k lo hi).

(** ** Correspondence cases: a history of steps; each step is an operation with the
    success flag the real engine returned, or a read with the points it returned. *)
Inductive cstep :=
| COp (o : op) (ok : bool)
| CRead (k : key) (lo hi : Z) (asc : bool) (res : list (Z * Z)).

Definition case := list cstep.

Definition zz_eqb := list_eqb (pair_eqb Z.eqb Z.eqb).

(** same: every observation equals the model's; ok: every read equals the oracle's
    answer on the raw history prefix (writes and deletes only). *)
Fixpoint check_steps (c : list cstep) (s : state) (h : list op) (same ok : bool) : bool * bool :=
  match c with
  | [] => (same, ok)
  | COp o b :: r =>
      let (s', b') := step s o in
      check_steps r s' (h ++ [o]) (same && Bool.eqb b b') ok
  | CRead k lo hi asc res :: r =>
      check_steps r s h (same && zz_eqb res (read s k lo hi asc))
                        (ok && zz_eqb res (spec_read (spec_log h []) k lo hi asc))
  end.

Definition check (c : case) : verdict :=
  let (same, ok) := check_steps c init [] true true in judge same ok.
