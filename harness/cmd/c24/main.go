// C24 driver: the REAL scheduler.TreeScheduler driven by event scripts
// (Schedule / Release / clock advance / a parked run returns).
//
// Two modes:
//   - mock: benbjohnson/clock's Mock (the clock the scheduler's own tests use), wrapped
//     only to count Now() calls and to keep a handle on the timer.  The clock is moved
//     deadline by deadline; after every event the driver waits until the scheduler is
//     quiescent, decided from the goroutine states (runtime.Stack), never from sleeps:
//     loop goroutine parked in its select and every worker either in its channel
//     receive or parked inside the script's executor; or the loop goroutine busy-waiting
//     (Now() counter advancing) with unchanged workers/log.
//     Stale timers (Release / re-Schedule of the earliest task) fire on the way and
//     exercise the "minimum not due yet" branch of the main loop.  (Before that branch
//     was repaired it re-armed with a NEGATIVE duration, which the Mock cannot
//     represent: it moves its clock backwards and Set() live-locks; a regression shows
//     up as "mock clock Set did not return" / watchdog failures.)
//   - real: the real clock, schedules of 2s granularity, actions on odd seconds: the
//     same stale-timer shapes; the driver counts Now() calls to see whether the loop
//     spins while nothing is due (the behaviour before the repair).
package main

import (
	"context"
	"encoding/binary"
	"fmt"
	"math/rand/v2"
	"runtime"
	"sort"
	"strings"
	"sync"
	"sync/atomic"
	"time"

	"github.com/benbjohnson/clock"
	"github.com/cespare/xxhash/v2"
	"github.com/influxdata/influxdb/v2/task/backend/scheduler"
	"verifh/vh"
)

// open (narrowed) finding: When() is stale between a Release/re-Schedule of the earliest
// task and the next timer fire.  The spin (C24-stale-when-negative-rearm-spin) is repaired:
// a spin or a non-positive re-arm is never tolerated by the judge.
const knownSig = "C24-when-stale-until-timer-fires"

// ---- case format ----

type jev struct {
	E     string `json:"e"` // schedule | release | advance | done
	ID    uint64 `json:"id,omitempty"`
	Every int64  `json:"every,omitempty"`
	Off   int64  `json:"off,omitempty"`
	Last  int64  `json:"last,omitempty"`
	T     int64  `json:"t,omitempty"`
}
type jexec struct {
	ID uint64 `json:"id"`
	SF int64  `json:"scheduled_for"`
}
type jobs struct {
	Ex   []jexec `json:"executed"`
	When *int64  `json:"when"`
	Spin bool    `json:"spin"`
	Neg  bool    `json:"spins_while_nothing_due"`
}
type jcase struct {
	Mode    string   `json:"mode"` // mock | real
	Workers int      `json:"workers"`
	Parked  []uint64 `json:"parked"`
	Evs     []jev    `json:"events"`
	Obs     []jobs   `json:"impl_obs"`
	Seed    uint64   `json:"gen_seed,omitempty"`
	MaxLen  int      `json:"gen_len,omitempty"`
	Fail    string   `json:"impl_failure,omitempty"`
	Cut     string   `json:"cut,omitempty"`
	pickIDs []uint64
}

// ---- counting clock ----

type cclock struct {
	clock.Clock
	now   atomic.Int64
	timer *clock.Timer
}

func (c *cclock) Now() time.Time { c.now.Add(1); return c.Clock.Now() }
func (c *cclock) Timer(d time.Duration) *clock.Timer {
	t := c.Clock.Timer(d)
	c.timer = t
	return t
}

// ---- schedulable / executor / checkpointer ----

type sched struct {
	id   scheduler.ID
	s    scheduler.Schedule
	off  time.Duration
	last time.Time
}

func (s sched) ID() scheduler.ID             { return s.id }
func (s sched) Schedule() scheduler.Schedule { return s.s }
func (s sched) Offset() time.Duration        { return s.off }
func (s sched) LastScheduled() time.Time     { return s.last }

type rec struct {
	id uint64
	sf time.Time
}
type exec struct {
	mu       sync.Mutex
	log      []rec
	inflight map[uint64]int
	overlap  string
	gates    map[uint64]chan struct{}
	parked   map[uint64]bool
}

func (e *exec) Execute(ctx context.Context, id scheduler.ID, sf time.Time, runAt time.Time) error {
	e.mu.Lock()
	e.log = append(e.log, rec{uint64(id), sf})
	e.inflight[uint64(id)]++
	if e.inflight[uint64(id)] > 1 && e.overlap == "" {
		e.overlap = fmt.Sprintf("task %d: Execute called while a run of the same task is still executing", id)
	}
	p := e.parked[uint64(id)]
	g := e.gates[uint64(id)]
	e.mu.Unlock()
	if p {
		<-g
	}
	e.mu.Lock()
	e.inflight[uint64(id)]--
	e.mu.Unlock()
	return nil
}

type cpt struct{}

func (cpt) UpdateLastScheduled(ctx context.Context, id scheduler.ID, t time.Time) error { return nil }

// ---- one scheduler under test ----

type task struct{ every, off, next int64 }

type runner struct {
	gid      int
	real     bool
	mock     *clock.Mock
	cc       *cclock
	s        *scheduler.TreeScheduler
	ex       *exec
	base     time.Time
	nw       int
	tasks    map[uint64]*task
	consumed int
	idle     bool // loop goroutine parked in select at the last quiescent point
	fail     string
}

func curGID() int {
	buf := make([]byte, 64)
	n := runtime.Stack(buf, false)
	var id int
	fmt.Sscanf(string(buf[:n]), "goroutine %d ", &id)
	return id
}

func workerOf(id uint64, n int) uint64 {
	buf := [8]byte{}
	binary.LittleEndian.PutUint64(buf[:], id)
	return xxhash.Sum64(buf[:]) % uint64(n)
}

func newRunner(c *jcase) *runner {
	r := &runner{gid: curGID(), real: c.Mode == "real", nw: c.Workers, tasks: map[uint64]*task{}, idle: true}
	r.ex = &exec{inflight: map[uint64]int{}, gates: map[uint64]chan struct{}{}, parked: map[uint64]bool{}}
	for _, id := range c.Parked {
		r.ex.parked[id] = true
	}
	for id := uint64(0); id < 16; id++ {
		r.ex.gates[id] = make(chan struct{})
	}
	if r.real {
		r.cc = &cclock{Clock: clock.New()}
	} else {
		r.mock = clock.NewMock()
		r.cc = &cclock{Clock: r.mock}
		r.base = time.Unix(0, 0)
	}
	s, _, err := scheduler.NewScheduler(r.ex, cpt{}, scheduler.WithTime(r.cc), scheduler.WithMaxConcurrentWorkers(c.Workers))
	if err != nil {
		panic(err)
	}
	r.s = s
	return r
}

func (r *runner) secs(t time.Time) int64 {
	d := t.Sub(r.base)
	if r.real { // s.when = Now()+until carries a few hundred ns of drift under the real clock
		return int64((d + 500*time.Millisecond) / time.Second)
	}
	return int64(d / time.Second)
}
func (r *runner) at(s int64) time.Time { return r.base.Add(time.Duration(s) * time.Second) }

func (r *runner) nowS() int64 { return r.secs(r.cc.Clock.Now()) }

type snap struct {
	loopIdle, workersOK bool
	parked              int
	logLen              int
	nowCalls            int64
	tick                bool
	found               int
}

var stackMu sync.Mutex
var failCount atomic.Int64 // after a few implementation failures the remaining cases are skipped

func (r *runner) snapshot() snap {
	stackMu.Lock()
	buf := make([]byte, 1<<20)
	n := runtime.Stack(buf, true)
	stackMu.Unlock()
	var sn snap
	sn.workersOK = true
	marker := fmt.Sprintf("scheduler.NewScheduler in goroutine %d\n", r.gid)
	for _, blk := range strings.Split(string(buf[:n]), "\n\n") {
		if !strings.Contains(blk+"\n", marker) {
			continue
		}
		lines := strings.Split(blk, "\n")
		if len(lines) < 2 {
			continue
		}
		st := lines[0]
		if i := strings.Index(st, "["); i >= 0 {
			st = st[i+1:]
		}
		if i := strings.IndexAny(st, ",]"); i >= 0 {
			st = st[:i]
		}
		top := lines[1]
		sn.found++
		switch {
		case strings.Contains(blk, "scheduler.NewScheduler.func"):
			sn.loopIdle = st == "select" && strings.Contains(top, "scheduler.NewScheduler.func")
		case strings.Contains(blk, "(*TreeScheduler).work("):
			if st == "chan receive" && strings.Contains(top, "(*TreeScheduler).work(") {
				// free
			} else if st == "chan receive" && strings.Contains(blk, "main.(*exec).Execute(") {
				sn.parked++
			} else {
				sn.workersOK = false
			}
		}
	}
	r.ex.mu.Lock()
	sn.logLen = len(r.ex.log)
	r.ex.mu.Unlock()
	sn.nowCalls = r.cc.now.Load()
	sn.tick = r.cc.timer != nil && len(r.cc.timer.C) > 0
	if sn.found != r.nw+1 {
		sn.workersOK = false
	}
	return sn
}

// waitQuiescent (mock mode): returns (idle, ok).
func (r *runner) waitQuiescent() bool {
	deadline := time.Now().Add(15 * time.Second)
	pause := 20 * time.Microsecond
	for time.Now().Before(deadline) {
		a := r.snapshot()
		if a.workersOK && !a.tick {
			if a.loopIdle {
				b := r.snapshot()
				if b.loopIdle && b.workersOK && !b.tick && b.logLen == a.logLen && b.nowCalls == a.nowCalls && b.parked == a.parked {
					r.idle = true
					return true
				}
			} else {
				// busy-waiting candidate: let the loop make several full iterations
				t1 := time.Now().Add(2 * time.Second)
				for r.cc.now.Load() < a.nowCalls+24 && time.Now().Before(t1) {
					runtime.Gosched()
				}
				b := r.snapshot()
				if r.cc.now.Load() >= a.nowCalls+24 && !b.loopIdle && b.workersOK && !b.tick && b.logLen == a.logLen && b.parked == a.parked && b.parked > 0 {
					r.idle = false
					return true
				}
			}
		}
		time.Sleep(pause)
		if pause < 2*time.Millisecond {
			pause *= 2
		}
	}
	return false
}

func (r *runner) setClock(t time.Time) bool {
	done := make(chan struct{})
	go func() { r.mock.Set(t); close(done) }()
	select {
	case <-done:
		return true
	case <-time.After(20 * time.Second):
		return false
	}
}

// observe drains the new log entries and builds the observation.
func (r *runner) observe(spin, neg bool) jobs {
	o := jobs{Ex: []jexec{}, Spin: spin, Neg: neg}
	r.ex.mu.Lock()
	for _, x := range r.ex.log[r.consumed:] {
		sf := r.secs(x.sf)
		o.Ex = append(o.Ex, jexec{x.id, sf})
		if t, ok := r.tasks[x.id]; ok {
			t.next = sf + t.every
		}
	}
	r.consumed = len(r.ex.log)
	if r.ex.overlap != "" && r.fail == "" {
		r.fail = r.ex.overlap
	}
	r.ex.mu.Unlock()
	if w := r.s.When(); !w.IsZero() {
		v := r.secs(w)
		o.When = &v
	}
	return o
}

func (r *runner) minWhen(skip uint64, useSkip bool) (int64, bool) {
	var m int64
	ok := false
	for id, t := range r.tasks {
		if useSkip && id == skip {
			continue
		}
		if w := t.next + t.off; !ok || w < m {
			m, ok = w, true
		}
	}
	return m, ok
}

func (r *runner) inflight(id uint64) bool {
	r.ex.mu.Lock()
	defer r.ex.mu.Unlock()
	return r.ex.inflight[id] > 0
}

// safe (mock mode): may this event be issued?  Since the repair of the main loop (the
// "minimum not due yet" branch re-arms with a positive delay) stale timers are harmless
// under the Mock and are exercised freely.  Only one shape is still avoided: a Schedule
// that arms the timer while the loop goroutine is busy-waiting (the Mock's Tick blocks
// on a full timer channel while holding the clock mutex: a mock-only dead-lock).
func (r *runner) safe(e jev) bool {
	now := r.nowS()
	switch e.E {
	case "advance":
		return e.T >= now
	case "schedule":
		if r.idle {
			return true
		}
		nw := e.Last + e.Every + e.Off
		if w := r.s.When(); w.IsZero() || nw < r.secs(w) {
			return false
		}
	}
	return true
}

func mkSchedule(every int64) scheduler.Schedule {
	s, _, err := scheduler.NewSchedule(fmt.Sprintf("@every %ds", every), time.Unix(0, 0))
	if err != nil {
		panic(err)
	}
	return s
}

// apply one event in mock mode; returns the observation.
func (r *runner) applyMock(e jev) (jobs, bool) {
	switch e.E {
	case "schedule":
		if err := r.s.Schedule(sched{scheduler.ID(e.ID), mkSchedule(e.Every), time.Duration(e.Off) * time.Second, r.at(e.Last)}); err != nil {
			r.fail = "Schedule returned " + err.Error()
		}
		r.tasks[e.ID] = &task{every: e.Every, off: e.Off, next: e.Last + e.Every}
		if r.idle { // a timer armed with Reset(0) fires at once under a real clock; the Mock needs a nudge
			if !r.setClock(r.cc.Clock.Now()) {
				r.fail = "mock clock Set did not return (timer keeps being re-armed in the past)"
				return jobs{}, false
			}
		}
	case "release":
		if err := r.s.Release(scheduler.ID(e.ID)); err != nil {
			r.fail = "Release returned " + err.Error()
		}
		delete(r.tasks, e.ID)
	case "done":
		if r.inflight(e.ID) {
			r.ex.gates[e.ID] <- struct{}{}
		}
	case "advance":
		for i := 0; i < 10000 && r.idle; i++ {
			w := r.s.When()
			if w.IsZero() || r.secs(w) > e.T {
				break
			}
			stop := w
			if n := r.cc.Clock.Now(); stop.Before(n) {
				stop = n
			}
			before := r.cc.now.Load()
			if !r.setClock(stop) {
				r.fail = "mock clock Set did not return (timer keeps being re-armed in the past)"
				return jobs{}, false
			}
			if !r.waitQuiescent() {
				r.fail = "scheduler did not reach a quiescent state"
				return jobs{}, false
			}
			r.drainBook()
			if r.idle && r.s.When().Equal(w) && r.cc.now.Load() == before {
				break // nothing armed at that deadline
			}
		}
		if !r.setClock(r.at(e.T)) {
			r.fail = "mock clock Set did not return"
			return jobs{}, false
		}
	}
	if !r.waitQuiescent() {
		r.fail = "scheduler did not reach a quiescent state"
		return jobs{}, false
	}
	return r.observe(!r.idle, false), true
}

// drainBook updates the per-task book-keeping from the log without consuming it.
func (r *runner) drainBook() {
	r.ex.mu.Lock()
	for _, x := range r.ex.log[r.consumed:] {
		if t, ok := r.tasks[x.id]; ok {
			if sf := r.secs(x.sf); sf+t.every > t.next {
				t.next = sf + t.every
			}
		}
	}
	r.ex.mu.Unlock()
}

func (r *runner) shutdown() {
	// let every parked run return, then stop
	stop := make(chan struct{})
	go func() {
		for {
			select {
			case <-stop:
				return
			default:
			}
			for id, g := range r.ex.gates {
				_ = id
				select {
				case g <- struct{}{}:
				default:
				}
			}
			time.Sleep(200 * time.Microsecond)
		}
	}()
	done := make(chan struct{})
	go func() { r.s.Stop(); close(done) }()
	select {
	case <-done:
	case <-time.After(10 * time.Second):
	}
	close(stop)
}

// ---- generation (mock mode, on the fly so that unsafe events are never issued) ----

var everyMenu = []int64{1, 2, 3, 5, 7, 10}
var offMenu = []int64{0, 0, 0, 1, 2, -1, 3}

func (r *runner) gen(rng *rand.Rand, ids []uint64) (jev, bool) {
	for try := 0; try < 30; try++ {
		now := r.nowS()
		var e jev
		k := rng.IntN(16)
		anyFly := false
		for _, id := range ids {
			if r.inflight(id) {
				anyFly = true
			}
		}
		switch {
		case k < 4 || len(r.tasks) == 0 && k < 9:
			id := ids[rng.IntN(len(ids))]
			e = jev{E: "schedule", ID: id, Every: everyMenu[rng.IntN(len(everyMenu))], Off: offMenu[rng.IntN(len(offMenu))]}
			switch rng.IntN(4) {
			case 0:
				e.Last = now
			case 1:
				e.Last = now - int64(rng.IntN(4))
			case 2:
				e.Last = now - int64(rng.IntN(16)) // catch-up
			default:
				e.Last = now - now%e.Every
			}
		case k < 6:
			e = jev{E: "release", ID: ids[rng.IntN(len(ids))]}
			if len(r.tasks) > 0 && rng.IntN(4) != 0 { // mostly a task that is scheduled
				var live []uint64
				for _, id := range ids {
					if _, ok := r.tasks[id]; ok {
						live = append(live, id)
					}
				}
				e.ID = live[rng.IntN(len(live))]
			}
		case k < 9 && anyFly:
			id := ids[rng.IntN(len(ids))]
			if !r.inflight(id) {
				continue
			}
			e = jev{E: "done", ID: id}
		default:
			d := int64(rng.IntN(4))
			if rng.IntN(3) == 0 {
				d = int64(rng.IntN(13))
			}
			e = jev{E: "advance", T: now + d}
		}
		if r.safe(e) {
			return e, true
		}
	}
	return jev{}, false
}

// runMock runs one mock-clock case under a watchdog: a scheduler that dead-locks (for
// instance holding s.mu while the mock clock blocks in Tick) must not hang the driver.
func runMock(c *jcase, replay bool) {
	if failCount.Load() >= 3 {
		c.Evs, c.Obs, c.Cut = nil, nil, "skipped: three earlier cases already failed on the implementation"
		return
	}
	var mu sync.Mutex
	pub := *c
	publish := func(x *jcase) {
		mu.Lock()
		pub = *x
		pub.Evs = append([]jev(nil), x.Evs...)
		pub.Obs = append([]jobs(nil), x.Obs...)
		mu.Unlock()
	}
	done := make(chan struct{})
	lc := *c
	go func() {
		defer close(done)
		runMockInner(&lc, replay, publish)
		publish(&lc)
	}()
	select {
	case <-done:
	case <-time.After(120 * time.Second):
		mu.Lock()
		pub.Fail = "case did not finish within 120s: the scheduler is dead-locked or live-locked (last event not observed)"
		if len(pub.Evs) > len(pub.Obs) {
			pub.Evs = pub.Evs[:len(pub.Obs)]
		}
		mu.Unlock()
	}
	mu.Lock()
	*c = pub
	mu.Unlock()
	if c.Fail != "" {
		failCount.Add(1)
	}
}

func runMockInner(c *jcase, replay bool, publish func(*jcase)) {
	{
		r := newRunner(c)
		defer r.shutdown()
		if !r.waitQuiescent() {
			c.Fail = "scheduler not quiescent after start"
			return
		}
		var ids []uint64
		if !replay {
			ids = c.pickIDs
		}
		rng := rand.New(rand.NewPCG(c.Seed, 24))
		evs := c.Evs
		c.Obs = nil
		if !replay {
			c.Evs = nil
		}
		for i := 0; ; i++ {
			publish(c)
			var e jev
			if replay || i < len(evs) { // scripted (hand-picked cases) or replay
				if i >= len(evs) {
					break
				}
				e = evs[i]
				if !r.safe(e) {
					c.Cut = fmt.Sprintf("event %d (%s) not issued: it would arm the timer while the loop goroutine busy-waits (mock-only dead-lock shape)", i, e.E)
					if replay {
						c.Evs = c.Evs[:i]
					}
					break
				}
			} else {
				if i >= c.MaxLen {
					break
				}
				var ok bool
				e, ok = r.gen(rng, ids)
				if !ok {
					c.Cut = "no safe event found"
					break
				}
			}
			if !replay {
				c.Evs = append(c.Evs, e)
				publish(c)
			}
			o, ok := r.applyMock(e)
			if !ok {
				c.Fail = r.fail
				if !replay {
					c.Evs = c.Evs[:len(c.Evs)-1]
				} else {
					c.Evs = c.Evs[:i]
				}
				break
			}
			c.Obs = append(c.Obs, o)
			if r.fail != "" {
				c.Fail = r.fail
				if replay {
					c.Evs = c.Evs[:i+1]
				}
				break
			}
		}
	}
}

// ---- real mode ----

func runReal(c *jcase) {
	done := make(chan struct{})
	go func() {
		defer close(done)
		r := newRunner(c)
		defer r.shutdown()
		// start shortly after a whole second
		for {
			n := time.Now()
			if n.Sub(n.Truncate(time.Second)) < 100*time.Millisecond {
				r.base = n.Truncate(time.Second)
				break
			}
			time.Sleep(20 * time.Millisecond)
		}
		c.Obs = nil
		for _, e := range c.Evs {
			switch e.E {
			case "schedule":
				if err := r.s.Schedule(sched{scheduler.ID(e.ID), mkSchedule(e.Every), time.Duration(e.Off) * time.Second, r.at(e.Last)}); err != nil {
					r.fail = "Schedule returned " + err.Error()
				}
				r.tasks[e.ID] = &task{every: e.Every, off: e.Off, next: e.Last + e.Every}
			case "release":
				_ = r.s.Release(scheduler.ID(e.ID))
				delete(r.tasks, e.ID)
			case "advance": // odd second: half way between two schedule instants (all even)
				time.Sleep(time.Until(r.at(e.T)))
			}
			time.Sleep(250 * time.Millisecond)
			// log and When() first (750ms before the next schedule instant), then:
			// does the loop goroutine spin?  count Now() calls over 150ms
			o := r.observe(false, false)
			n0 := r.cc.now.Load()
			time.Sleep(150 * time.Millisecond)
			spins := r.cc.now.Load()-n0 > 2000
			o.Spin, o.Neg = spins, spins
			c.Obs = append(c.Obs, o)
		}
		c.Fail = r.fail
	}()
	<-done
}

// ---- Gallina rendering ----

func evTerm(e jev) string {
	switch e.E {
	case "schedule":
		return fmt.Sprintf("Schedule %s %s %s %s", vh.N(e.ID), vh.Z(e.Every), vh.Z(e.Off), vh.Z(e.Last))
	case "release":
		return "Release " + vh.N(e.ID)
	case "done":
		return "Done " + vh.N(e.ID)
	}
	return "Advance " + vh.Z(e.T)
}
func obsTerm(o jobs) string {
	xs := make([]string, len(o.Ex))
	for i, x := range o.Ex {
		xs[i] = vh.Pair(vh.N(x.ID), vh.Z(x.SF))
	}
	w := "None"
	if o.When != nil {
		w = vh.Some(vh.Z(*o.When))
	}
	// constructor form: Coq elaborates it several times faster than {| ... |}
	return fmt.Sprintf("(Build_obs %s %s %s %s)", vh.List(xs), w, vh.Bool(o.Spin), vh.Bool(o.Neg))
}

func (c *jcase) ids() []uint64 {
	m := map[uint64]bool{}
	for _, e := range c.Evs {
		if e.E != "advance" {
			m[e.ID] = true
		}
	}
	for _, id := range c.pickIDs {
		m[id] = true
	}
	var ids []uint64
	for id := range m {
		ids = append(ids, id)
	}
	sort.Slice(ids, func(i, j int) bool { return ids[i] < ids[j] })
	return ids
}

func add(w *vh.W, c *jcase) {
	idx := w.Len()
	evs := make([]string, len(c.Evs))
	sig := ""
	live := map[uint64]bool{}
	nrel, nexec, spins := 0, 0, 0
	for i, e := range c.Evs {
		evs[i] = "(" + evTerm(e) + ")"
		// shape: the script releases a scheduled task or re-schedules one (from the events only)
		switch e.E {
		case "schedule":
			if live[e.ID] {
				sig = knownSig
			}
			live[e.ID] = true
		case "release":
			if live[e.ID] {
				sig = knownSig
				nrel++
			}
			delete(live, e.ID)
		}
		w.Count("event", e.E)
	}
	obs := make([]string, len(c.Obs))
	for i, o := range c.Obs {
		obs[i] = obsTerm(o)
		nexec += len(o.Ex)
		if o.Spin {
			spins++
		}
	}
	wk := []string{}
	for _, id := range c.ids() {
		wk = append(wk, vh.Pair(vh.N(id), vh.N(workerOf(id, c.Workers))))
	}
	t := fmt.Sprintf("(Build_case %s %s %s %s)", vh.List(wk), vh.Ns(c.Parked), vh.List(evs), vh.List(obs))
	w.Add(t, c, nexec >= 3 || spins > 0 || nrel > 0, sig)
	if c.Fail != "" {
		w.Fail(idx, c.Fail, "")
	}
	w.Count("mode", c.Mode)
	w.Count("workers", fmt.Sprint(c.Workers))
	w.Count("parked_tasks", fmt.Sprint(len(c.Parked)))
	w.Count("cut", fmt.Sprint(c.Cut != ""))
	w.Count("executions", fmt.Sprint(min(nexec/5*5, 40)))
	w.Count("busy_wait_observed", fmt.Sprint(spins > 0))
}

func main() {
	w := vh.New("C24", "From Verif Require Import Base.Prelude Model.C24.", "case", "check")
	w.Rule = "event scripts (Schedule @every d with offset and lastScheduled / Release / clock advance / parked run returns) over <=3 tasks on the real TreeScheduler with 1-4 workers; hand-picked scripts first (3 of them on the REAL clock: the stale-timer shapes, with a Now()-call counter as spin detector), then random scripts of 4-14 events generated on the fly under the mock clock, stale timers included. Tasks whose runs are parked are only used when all tasks of the script hash to distinct workers. Non-trivial: >=3 executions, or a busy-wait state, or a release of a scheduled task. Distinct: distinct Gallina terms."
	var rc jcase
	if w.ReplayCase(&rc) {
		if rc.Mode == "real" {
			runReal(&rc)
		} else {
			runMock(&rc, true)
		}
		add(w, &rc)
		w.Finish()
		return
	}
	// real-clock cases run in the background while the mock cases are produced
	reals := []*jcase{
		{Mode: "real", Workers: 2, Evs: []jev{{E: "schedule", ID: 1, Every: 2}, {E: "schedule", ID: 2, Every: 6}, {E: "release", ID: 1}, {E: "advance", T: 3}, {E: "advance", T: 5}, {E: "advance", T: 7}}},
		{Mode: "real", Workers: 2, Evs: []jev{{E: "schedule", ID: 1, Every: 2}, {E: "schedule", ID: 1, Every: 4, Last: 2}, {E: "advance", T: 3}, {E: "advance", T: 7}}},
		{Mode: "real", Workers: 1, Evs: []jev{{E: "schedule", ID: 3, Every: 2}, {E: "schedule", ID: 2, Every: 4}, {E: "advance", T: 3}, {E: "release", ID: 3}, {E: "advance", T: 5}, {E: "advance", T: 9}}},
	}
	var wg sync.WaitGroup
	for _, c := range reals {
		wg.Add(1)
		go func(c *jcase) { defer wg.Done(); runReal(c) }(c)
	}
	hand := []*jcase{
		{Mode: "mock", Workers: 2, Evs: []jev{{E: "schedule", ID: 1, Every: 10}, {E: "advance", T: 45}, {E: "release", ID: 1}, {E: "advance", T: 80}}},
		{Mode: "mock", Workers: 4, Parked: []uint64{1}, Evs: []jev{{E: "schedule", ID: 1, Every: 10}, {E: "advance", T: 10}, {E: "advance", T: 45}, {E: "done", ID: 1}, {E: "advance", T: 50}, {E: "release", ID: 1}, {E: "done", ID: 1}, {E: "advance", T: 90}}},
		{Mode: "mock", Workers: 2, Evs: []jev{{E: "advance", T: 47}, {E: "schedule", ID: 1, Every: 10, Last: 0}, {E: "schedule", ID: 2, Every: 7, Off: 2, Last: 40}, {E: "advance", T: 60}}},
		{Mode: "mock", Workers: 2, Evs: []jev{{E: "schedule", ID: 1, Every: 10}, {E: "schedule", ID: 2, Every: 100}, {E: "release", ID: 1}, {E: "advance", T: 9}, {E: "advance", T: 10}, {E: "advance", T: 120}}},
		{Mode: "mock", Workers: 1, Evs: []jev{{E: "schedule", ID: 1, Every: 1}, {E: "schedule", ID: 2, Every: 1, Off: -1}, {E: "schedule", ID: 3, Every: 2, Off: 3}, {E: "advance", T: 6}}},
	}
	var cases []*jcase
	cases = append(cases, hand...)
	nRandom := w.N - len(reals) - len(hand)
	for i := 0; i < nRandom; i++ {
		r := w.Rng
		c := &jcase{Mode: "mock", Workers: 1 + r.IntN(4), Seed: r.Uint64(), MaxLen: 4 + r.IntN(11)}
		nt := 1 + r.IntN(3)
		perm := r.Perm(6)
		distinct := true
		seen := map[uint64]bool{}
		for _, p := range perm[:nt] {
			id := uint64(p + 1)
			c.pickIDs = append(c.pickIDs, id)
			wk := workerOf(id, c.Workers)
			if seen[wk] {
				distinct = false
			}
			seen[wk] = true
		}
		sort.Slice(c.pickIDs, func(i, j int) bool { return c.pickIDs[i] < c.pickIDs[j] })
		if distinct {
			for _, id := range c.pickIDs {
				if r.IntN(2) == 0 {
					c.Parked = append(c.Parked, id)
				}
			}
		}
		cases = append(cases, c)
	}
	// mock cases run on a small pool
	sem := make(chan struct{}, 6)
	var wg2 sync.WaitGroup
	for i, c := range cases {
		wg2.Add(1)
		sem <- struct{}{}
		go func(i int, c *jcase) {
			defer wg2.Done()
			defer func() { <-sem }()
			runMock(c, i < len(hand))
		}(i, c)
	}
	wg2.Wait()
	wg.Wait()
	for _, c := range reals {
		add(w, c)
	}
	for _, c := range cases {
		add(w, c)
	}
	w.Finish()
}
