(** C28 — Permissions grant exactly what they name.
    Mirror of [Permission.matchesV1], [Permission.Matches], [PermissionAllowed]
    in /repo/authz.go.  Actions and resource types are Go strings compared only
    for equality; the driver maps each distinct string to a number, with
    ["instance"] (InstanceResourceType) mapped to [0].  IDs are uint64 behind
    pointers: [option N]. *)
From Verif Require Import Base.Prelude.

Record resource := { rtype : N; rid : option N; rorg : option N }.
Record perm := { act : N; res : resource }.

Definition Instance : N := 0%N.

Definition optN_eqb := option_eqb N.eqb.

(** Line-by-line mirror of the if-chain of [matchesV1] (the diagnostic
    [fmt.Printf] branch has no effect on the result and is omitted). *)
Definition matchesV1 (p q : perm) : bool :=
  if negb (N.eqb (act p) (act q)) then false
  else if N.eqb (rtype (res p)) Instance then true
  else if negb (N.eqb (rtype (res p)) (rtype (res q))) then false
  else match rorg (res p), rid (res p) with
       | None, None => true
       | porg, pid =>
           let org_hit :=
             match porg, pid with
             | Some po, None =>
                 match rorg (res q) with Some qo => N.eqb po qo | None => false end
             | _, _ => false
             end in
           if org_hit then true
           else match pid with
                | Some pi =>
                    match rid (res q) with Some qi => N.eqb pi qi | None => false end
                | None => false
                end
       end.

Definition allowed (ps : list perm) (q : perm) : bool :=
  existsb (fun p => matchesV1 p q) ps.

(** The property's right-hand side, as a proposition and as an independent
    boolean oracle. *)
Definition grants (p q : perm) : Prop :=
  act p = act q /\
  (rtype (res p) = Instance \/
   (rtype (res p) = rtype (res q) /\
    ((rorg (res p) = None /\ rid (res p) = None) \/
     (rid (res p) = None /\ exists o, rorg (res p) = Some o /\ rorg (res q) = Some o) \/
     (exists i, rid (res p) = Some i /\ rid (res q) = Some i)))).

Definition grants_b (p q : perm) : bool :=
  N.eqb (act p) (act q) &&
  (N.eqb (rtype (res p)) Instance ||
   (N.eqb (rtype (res p)) (rtype (res q)) &&
    ((match rorg (res p), rid (res p) with None, None => true | _, _ => false end) ||
     (match rid (res p), rorg (res p), rorg (res q) with
      | None, Some o, Some o' => N.eqb o o' | _, _, _ => false end) ||
     (match rid (res p), rid (res q) with
      | Some i, Some i' => N.eqb i i' | _, _ => false end)))).

(** Correspondence case: a permission set, a request, and what the real
    [PermissionSet.Allowed] and each [Permission.Matches] returned. *)
Record case := { c_ps : list perm; c_q : perm; c_allowed : bool; c_matches : list bool }.

Definition check (c : case) : verdict :=
  let m_matches := map (fun p => matchesV1 p (c_q c)) (c_ps c) in
  let o_matches := map (fun p => grants_b p (c_q c)) (c_ps c) in
  let same := list_eqb Bool.eqb (c_matches c) m_matches
              && Bool.eqb (c_allowed c) (allowed (c_ps c) (c_q c)) in
  let ok := list_eqb Bool.eqb (c_matches c) o_matches
            && Bool.eqb (c_allowed c) (existsb (fun b => b) o_matches) in
  judge same ok.
