package main

import (
	"context"
	"fmt"
	"runtime"
	"sync"
	"sync/atomic"
	"time"

	"github.com/benbjohnson/clock"
	"github.com/influxdata/influxdb/v2/task/backend/scheduler"
)

type cclock struct {
	clock.Clock
	now   atomic.Int64
	timer *clock.Timer
}

func (c *cclock) Now() time.Time { c.now.Add(1); return c.Clock.Now() }
func (c *cclock) Timer(d time.Duration) *clock.Timer {
	t := c.Clock.Timer(d)
	c.timer = t
	return t
}

type sched struct {
	id   scheduler.ID
	s    scheduler.Schedule
	off  time.Duration
	last time.Time
}

func (s sched) ID() scheduler.ID             { return s.id }
func (s sched) Schedule() scheduler.Schedule { return s.s }
func (s sched) Offset() time.Duration        { return s.off }
func (s sched) LastScheduled() time.Time     { return s.last }

type exec struct {
	mu  sync.Mutex
	log []string
}

func (e *exec) Execute(ctx context.Context, id scheduler.ID, sf time.Time, runAt time.Time) error {
	e.mu.Lock()
	e.log = append(e.log, fmt.Sprintf("%d@%s", id, sf.Format("05.000")))
	e.mu.Unlock()
	return nil
}

type cp struct{}

func (cp) UpdateLastScheduled(ctx context.Context, id scheduler.ID, t time.Time) error { return nil }

func main() {
	cc := &cclock{Clock: clock.New()}
	ex := &exec{}
	s, _, err := scheduler.NewScheduler(ex, cp{}, scheduler.WithTime(cc), scheduler.WithMaxConcurrentWorkers(2))
	if err != nil {
		panic(err)
	}
	base := time.Now().Truncate(time.Second)
	e1, _, _ := scheduler.NewSchedule("@every 1s", base)
	e5, _, _ := scheduler.NewSchedule("@every 5s", base)
	s.Schedule(sched{1, e1, 0, base})
	s.Schedule(sched{2, e5, 0, base})
	fmt.Println("when", s.When().Sub(base), "now calls", cc.now.Load())
	s.Release(1)
	for i := 0; i < 12; i++ {
		time.Sleep(500 * time.Millisecond)
		ex.mu.Lock()
		fmt.Printf("t=%.1f nowcalls=%d when=%v log=%v\n", time.Since(base).Seconds(), cc.now.Load(), s.When().Sub(base), ex.log)
		ex.mu.Unlock()
	}
	buf := make([]byte, 1<<16)
	n := runtime.Stack(buf, true)
	fmt.Println(string(buf[:n]))
	s.Stop()
}
