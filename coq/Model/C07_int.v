(** C07 (part 2) — integer/unsigned, timestamp and boolean codecs of tsm1.

    Mirrors int.go + batch_integer.go, timestamp.go + batch_timestamp.go, bool.go +
    batch_boolean.go, and ZigZagEncode/ZigZagDecode of encoding.go.

    int64/uint64 values are their 64-bit patterns (N < 2^64): UnsignedArrayEncodeAll is a
    reinterpret cast of IntegerArrayEncodeAll, and the unsigned scalar block encoder feeds
    int64(v) to the IntegerEncoder, so one model serves both types.  Bytes are [list N].
    Encoders return [None] for an error; decoders return [None] for an error.  The
    iterator-style scalar decoders (Next/Read) are modelled by the list they yield. *)
From Verif Require Import Base.Prelude Model.C07_s8b.
Local Open Scope N_scope.

Definition W64 : N := 18446744073709551616.   (* 2^64 *)
Definition add64 (a b : N) : N := (a + b) mod W64.
Definition sub64 (a b : N) : N := (a + W64 - b) mod W64.
Definition mul64 (a b : N) : N := (a * b) mod W64.

(** ZigZagEncode(x) = uint64(x<<1) ^ uint64(x>>63)   (arithmetic shift) *)
Definition zigzag (x : N) : N :=
  N.lxor ((2 * x) mod W64) (if x <? 2 ^ 63 then 0 else W64 - 1).
(** ZigZagDecode(v) = (v>>1) ^ uint64((int64(v&1)<<63)>>63) *)
Definition unzigzag (v : N) : N :=
  N.lxor (v / 2) (if N.even v then 0 else W64 - 1).

(** ** encoding/binary uvarint.  Written arithmetically: byte(x)|0x80 = x mod 128 + 128,
    x | b<<s = x + b*2^s (the fields never overlap). *)
Fixpoint put_uvarint_f (fuel : nat) (x : N) : list N :=
  match fuel with
  | O => [x]
  | S f => if x <? 128 then [x] else (x mod 128 + 128) :: put_uvarint_f f (x / 128)
  end.
Definition put_uvarint (x : N) : list N := put_uvarint_f 9 x.

(** binary.Uvarint: Some (value, rest) if n > 0; None if n <= 0 (short buffer / overflow) *)
Fixpoint get_uvarint_f (b : list N) (i : nat) (x s : N) : option (N * list N) :=
  match b with
  | [] => None
  | c :: r =>
      if (10 <=? i)%nat then None
      else if c <? 128 then
             if (i =? 9)%nat && (1 <? c) then None else Some (x + c * 2 ^ s, r)
           else get_uvarint_f r (S i) (x + (c mod 128) * 2 ^ s) (s + 7)
  end.
Definition get_uvarint (b : list N) : option (N * list N) := get_uvarint_f b 0 0 0.

Definition all_same (l : list N) : bool :=
  match l with [] => true | x :: r => forallb (N.eqb x) r end.

(** ** Integer / unsigned *)

(** Write: delta := v - prev (wrapping); enc := ZigZagEncode(delta) *)
Fixpoint zz_deltas (prev : N) (vs : list N) : list N :=
  match vs with
  | [] => []
  | v :: r => zigzag (sub64 v prev) :: zz_deltas v r
  end.

Definition intUncompressed : N := 0.
Definition intCompressedSimple : N := 1.
Definition intCompressedRLE : N := 2.

Definition int_rle_bytes (ds : list N) : list N :=
  match ds with
  | d0 :: d1 :: _ =>
      (intCompressedRLE * 16) :: be64 d0 ++ put_uvarint d1
        ++ put_uvarint (N.of_nat (length ds - 1))
  | _ => []
  end.

Definition int_packed_bytes (ds : list N) (enc : list N -> option (list N)) : option (list N) :=
  match ds with
  | [] => Some []
  | d0 :: r =>
      match enc r with
      | Some ws => Some ((intCompressedSimple * 16) :: be64 d0 ++ words_bytes ws)
      | None => None
      end
  end.

Definition int_raw_bytes (ds : list N) : list N :=
  match ds with [] => [] | _ => (intUncompressed * 16) :: words_bytes ds end.

(** IntegerEncoder.Write* ; Bytes()  — RLE needs > 2 values and all deltas after the first
    equal; "too large" looks at ALL zig-zag values including the first; packs with the
    jwilder EncodeAll. *)
Definition int_encode_scalar (vs : list N) : option (list N) :=
  let ds := zz_deltas 0 vs in
  if (2 <? length ds)%nat && all_same (tl ds) then Some (int_rle_bytes ds)
  else if existsb (fun v => MaxValue <? v) ds then Some (int_raw_bytes ds)
  else int_packed_bytes ds jw_encode_all.

(** IntegerArrayEncodeAll — [max] ranges over deltas[1:] only; packs with the in-repo
    EncodeAll. *)
Definition int_encode_batch (vs : list N) : option (list N) :=
  match vs with
  | [] => Some []
  | _ =>
      let ds := zz_deltas 0 vs in
      let mx := fold_left N.max (tl ds) 0 in
      if (2 <? length ds)%nat && all_same (tl ds) then Some (int_rle_bytes ds)
      else if MaxValue <? mx then Some (int_raw_bytes ds)
      else int_packed_bytes ds encode_all
  end.

(** prefix sums of zig-zag decoded deltas *)
Fixpoint unzz_sums (prev : N) (ds : list N) : list N :=
  match ds with
  | [] => []
  | d :: r => let v := add64 prev (unzigzag d) in v :: unzz_sums v r
  end.

(** IntegerDecoder (SetBytes; Next/Read until false; Error) *)
Definition int_decode_scalar (b : list N) : option (list N) :=
  match b with
  | [] => Some []
  | h :: body =>
      let enc := h / 16 in
      if enc =? intUncompressed then
        let (ws, tl) := bytes_words (length body) body in
        match tl with [] => Some (unzz_sums 0 ws) | _ => None end
      else if enc =? intCompressedSimple then
        let (ws, tl) := bytes_words (length body) body in
        match tl with
        | [] => match ws with
                | [] => Some []
                | first :: packed => Some (unzz_sums 0 (first :: decode_all packed))
                end
        | _ => None
        end
      else if enc =? intCompressedRLE then
        match body with
        | [] => Some []
        | _ =>
            let (ws, rest) := bytes_words 1 body in
            match ws with
            | [first] =>
                match get_uvarint rest with
                | None => None
                | Some (value, rest2) =>
                    match get_uvarint rest2 with
                    | None => None
                    | Some (count, _) =>
                        (* Read: ZigZagDecode(first) + int64(i) * ZigZagDecode(delta), i = 0..count *)
                        Some (map (fun i => add64 (unzigzag first) (mul64 (N.of_nat i) (unzigzag value)))
                                  (seq 0 (S (N.to_nat count))))
                    end
                end
            | _ => None
            end
        end
      else None
  end.

Fixpoint rle_acc (n : nat) (acc delta : N) : list N :=
  match n with O => [] | S m => acc :: rle_acc m (add64 acc delta) delta end.

(** IntegerArrayDecodeAll / UnsignedArrayDecodeAll *)
Definition int_decode_batch (b : list N) : option (list N) :=
  match b with
  | [] => Some []
  | h :: body =>
      let enc := h / 16 in
      if enc =? intUncompressed then
        let (ws, tl) := bytes_words (length body) body in
        match tl with [] => Some (unzz_sums 0 ws) | _ => None end
      else if enc =? intCompressedSimple then
        let (ws, tl) := bytes_words (length body) body in
        match ws, tl with
        | first :: packed, [] =>
            (* CountBytes(b[8:]) + 1 values; DecodeBytesBigEndian; n == count-1 *)
            let vals := decode_all packed in
            if (length vals =? count_words packed)%nat
            then Some (unzz_sums 0 (first :: vals)) else None
        | _, _ => None
        end
      else if enc =? intCompressedRLE then
        let (ws, rest) := bytes_words 1 body in
        match ws with
        | [first] =>
            match get_uvarint rest with
            | None => None
            | Some (value, rest2) =>
                match get_uvarint rest2 with
                | None => None
                | Some (count, _) =>
                    Some (rle_acc (S (N.to_nat count)) (unzigzag first) (unzigzag value))
                end
            end
        | _ => None
        end
      else None
  end.

(** ** Timestamps *)

Definition timeUncompressed : N := 0.
Definition timeCompressedPackedSimple : N := 1.
Definition timeCompressedRLE : N := 2.

Fixpoint deltas64 (prev : N) (ts : list N) : list N :=
  match ts with
  | [] => []
  | t :: r => sub64 t prev :: deltas64 t r
  end.

(** for divisor > 1 && v%divisor != 0 { divisor /= 10 }   — state (divisor, log10 divisor) *)
Fixpoint reduce_div (fuel : nat) (d e v : N) : N * N :=
  match fuel with
  | O => (d, e)
  | S f => if (1 <? d) && negb (v mod d =? 0) then reduce_div f (d / 10) (e - 1) v else (d, e)
  end.
Definition div_step (acc : N * N) (v : N) : N * N := reduce_div 12 (fst acc) (snd acc) v.
Definition div0 : N * N := (10 ^ 12, 12).

Definition time_rle_bytes (e d0 d1 dv n : N) : list N :=
  (timeCompressedRLE * 16 + e) :: be64 d0 ++ put_uvarint (d1 / dv) ++ put_uvarint n.

(** encoder.Write* ; Bytes()  (timestamp.go): reduce() walks the deltas from the last to the
    second; packs with the jwilder streaming Encoder *)
Definition time_encode_scalar (ts : list N) : option (list N) :=
  match ts with
  | [] => Some []
  | _ =>
      let ds := deltas64 0 ts in
      let rest := tl ds in
      let mx := fold_left N.max rest 0 in
      let '(dv, e) := fold_right (fun v acc => div_step acc v) div0 rest in
      if all_same rest && (1 <? length ts)%nat then
        Some (time_rle_bytes e (hd 0 ds) (hd 0 rest) dv (N.of_nat (length ts)))
      else if MaxValue <? mx then Some ((timeUncompressed * 16) :: words_bytes ds)
      else match stream_encode (map (fun v => v / dv) rest) with
           | Some ws => Some ((timeCompressedPackedSimple * 16 + e) :: be64 (hd 0 ds) ++ words_bytes ws)
           | None => None
           end
  end.

(** TimeArrayEncodeAll *)
Definition time_encode_batch (ts : list N) : option (list N) :=
  match ts with
  | [] => Some []
  | _ =>
      let ds := deltas64 0 ts in
      let rest := tl ds in
      let mx := fold_left N.max rest 0 in
      if (1 <? length ts)%nat && all_same rest then
        let '(dv, e) := div_step div0 (hd 0 rest) in
        Some (time_rle_bytes (if 1 <? dv then e else 0) (hd 0 ds) (hd 0 rest) dv (N.of_nat (length ts)))
      else if MaxValue <? mx then Some ((timeUncompressed * 16) :: words_bytes ds)
      else
        let '(dv, e) := fold_left div_step rest div0 in
        match encode_all (map (fun v => v / dv) rest) with
        | Some ws => Some ((timeCompressedPackedSimple * 16 + e) :: be64 (hd 0 ds) ++ words_bytes ws)
        | None => None
        end
  end.

Fixpoint sums64 (prev : N) (ds : list N) : list N :=
  match ds with
  | [] => []
  | d :: r => let v := add64 prev d in v :: sums64 v r
  end.

(** TimeDecoder (strict = false) and TimeArrayDecodeAll (strict = true: lengths that are
    not a multiple of 8 are errors) *)
Definition time_decode (strict : bool) (b : list N) : option (list N) :=
  match b with
  | [] => Some []
  | h :: body =>
      let enc := h / 16 in
      let div := 10 ^ (h mod 16) in
      if enc =? timeUncompressed then
        let (ws, tl) := bytes_words (length body) body in
        match tl with
        | [] => Some (sums64 0 ws)
        | _ => if strict then None else Some (sums64 0 ws)
        end
      else if enc =? timeCompressedPackedSimple then
        let (ws, tl) := bytes_words (length body) body in
        match ws with
        | first :: packed =>
            match tl with
            | _ :: _ => if strict then None
                        else Some (first :: sums64 first (map (fun d => mul64 d div) (decode_all packed)))
            | [] => Some (first :: sums64 first (map (fun d => mul64 d div) (decode_all packed)))
            end
        | [] => None
        end
      else if enc =? timeCompressedRLE then
        let (ws, rest) := bytes_words 1 body in
        match ws with
        | [first] =>
            match get_uvarint rest with
            | None => None
            | Some (value, rest2) =>
                match get_uvarint rest2 with
                | None => None
                | Some (count, _) => Some (rle_acc (N.to_nat count) first (mul64 value div))
                end
            end
        | _ => None
        end
      else None
  end.
Definition time_decode_scalar := time_decode false.
Definition time_decode_batch := time_decode true.

(** ** Booleans: 1 bit per value, MSB first, zero padded *)
Definition byte_of_bits (l : list bool) : N :=
  fold_left (fun a k => 2 * a + (if nth k l false then 1 else 0)) (seq 0 8) 0.

Fixpoint bits_bytes (fuel : nat) (bs : list bool) : list N :=
  match bs with
  | [] => []
  | _ => match fuel with
         | O => []
         | S f => byte_of_bits (firstn 8 bs) :: bits_bytes f (skipn 8 bs)
         end
  end.
Definition pack_bits (bs : list bool) : list N := bits_bytes (length bs) bs.

Definition byte_bits (c : N) : list bool :=
  map (fun k => N.testbit c (N.of_nat k)) [7; 6; 5; 4; 3; 2; 1; 0]%nat.

Definition booleanCompressedBitPacked : N := 1.

(** BooleanArrayEncodeAll(src, nil) *)
Definition bool_encode (bs : list bool) : list N :=
  (booleanCompressedBitPacked * 16) :: put_uvarint (N.of_nat (length bs)) ++ pack_bits bs.

(** BooleanEncoder.Write*; Bytes(): same bytes, except that flush() pads the (empty)
    current byte to 8 bits and appends it even when nothing was written, so the encoding
    of zero values carries one extra zero byte. *)
Definition bool_encode_scalar (bs : list bool) : list N :=
  match bs with
  | [] => bool_encode [] ++ [0]
  | _ => bool_encode bs
  end.

(** BooleanDecoder / BooleanArrayDecodeAll *)
Definition bool_decode (b : list N) : option (list bool) :=
  match b with
  | [] => Some []
  | _ :: r =>
      match get_uvarint r with
      | None => None
      | Some (cnt, data) =>
          let n := N.min cnt (8 * N.of_nat (length data)) in
          Some (firstn (N.to_nat n) (flat_map byte_bits data))
      end
  end.
