(** C06 — part 4: the consumer loop terminates within its fuel.
    Measure: the number of live unread points summed over all locations.  Every non-empty block
    returned by [read_block] marks at least the first point of its first location as read, and
    [markRead] only ever widens read ranges, so the measure strictly decreases
    ([read_block_progress]); hence [run_cursor] never runs out of fuel ([run_cursor_total]). *)
From Coq Require Import ZifyBool Permutation.
From Verif Require Import Base.Prelude Model.C37 Proofs.C37 Model.C06 Proofs.C06 Proofs.C06_sort.
Local Open Scope Z_scope.

Section Filter.
  Context {A : Type}.
  Lemma filter_length_le (f g : A -> bool) l :
    (forall x, In x l -> f x = true -> g x = true) -> (length (filter f l) <= length (filter g l))%nat.
  Proof.
    induction l as [|x l IH]; intro H; cbn; [lia|].
    assert (IH' := IH (fun y Hy => H y (or_intror Hy))).
    destruct (f x) eqn:Ef.
    - rewrite (H x (or_introl eq_refl) Ef). cbn. lia.
    - destruct (g x); cbn; lia.
  Qed.
  Lemma filter_length_lt (f g : A -> bool) l x0 :
    (forall x, In x l -> f x = true -> g x = true) -> In x0 l -> g x0 = true -> f x0 = false ->
    (length (filter f l) < length (filter g l))%nat.
  Proof.
    induction l as [|x l IH]; intros H Hin Hg Hf; [contradiction|]. cbn.
    assert (Hle := filter_length_le f g l (fun y Hy => H y (or_intror Hy))).
    destruct Hin as [->|Hin].
    - rewrite Hf, Hg. cbn. lia.
    - assert (IH' := IH (fun y Hy => H y (or_intror Hy)) Hin Hg Hf).
      destruct (f x) eqn:Ef.
      + rewrite (H x (or_introl eq_refl) Ef). cbn. lia.
      + destruct (g x); cbn; lia.
  Qed.
End Filter.

Section Fuel.
  Context {V : Type}.
  Notation arr := (arr V).
  Notation loc := (loc V).
  Implicit Types (c : loc) (s : list loc) (p : Z * V).

  Definition unread_b c p : bool :=
    negb (dead (l_tombs c) p) && negb ((l_rmin c <=? tm p) && (tm p <=? l_rmax c)).
  Definition remf c : arr := filter (unread_b c) (l_data c).
  Definition mu s : nat := fold_right (fun c n => (length (remf c) + n)%nat) 0%nat s.

  Lemma unread_b_true c p :
    unread_b c p = true <-> dead (l_tombs c) p = false /\ ~ (l_rmin c <= tm p <= l_rmax c).
  Proof. unfold unread_b. rewrite andb_true_iff, !negb_true_iff, andb_false_iff. intuition lia. Qed.

  Lemma widens_remf_le (c c' : loc) : widens c c' -> (length (remf c') <= length (remf c))%nat.
  Proof.
    intros (_ & _ & _ & Hd & Ht & H1 & H2). unfold remf. rewrite <- Hd. apply filter_length_le.
    intros x _ Hx. apply unread_b_true in Hx as [Hx1 Hx2]. apply unread_b_true. rewrite Ht. split; [auto|lia].
  Qed.

  Lemma mu_cons c s : mu (c :: s) = (length (remf c) + mu s)%nat.
  Proof. reflexivity. Qed.

  Lemma swidens_mu_le s s' : swidens s s' -> (mu s' <= mu s)%nat.
  Proof.
    induction 1 as [|c c' s s' Hc _ IH]; [cbn; lia|]. rewrite !mu_cons.
    pose proof (widens_remf_le _ _ Hc). lia.
  Qed.

  (** one location loses a point, the others only widen: the measure drops *)
  Lemma swidens_mu_lt s : forall s' i (F : loc -> loc), swidens s s' ->
    (i < length s)%nat -> widens (getl s' i) (F (getl s' i)) ->
    (length (remf (F (getl s' i))) < length (remf (getl s i)))%nat ->
    (mu (upd s' i F) < mu s)%nat.
  Proof.
    unfold getl. induction s as [|c s IH]; intros s' i F Hw Hi HwF Hlt; [cbn in Hi; lia|].
    inversion Hw as [|? c' ? s2 Hc Hs]; subst. destruct i as [|i]; cbn [upd nth length] in *; rewrite !mu_cons.
    - pose proof (swidens_mu_le _ _ Hs). lia.
    - pose proof (widens_remf_le _ _ Hc). assert (Hi' : (i < length s)%nat) by lia.
      specialize (IH s2 i F Hs Hi' HwF Hlt). lia.
  Qed.

  Lemma getl_in_range s i p : In p (l_data (getl s i)) -> (i < length s)%nat.
  Proof.
    intro H. destruct (Nat.lt_ge_cases i (length s)) as [Hi|Hi]; [auto|].
    unfold getl in H. rewrite nth_overflow in H by lia. contradiction.
  Qed.

  (** marking a window that contains an unread live point of the ORIGINAL location at [i] *)
  Lemma mark_drops s s2 i mn mx p : swidens s s2 ->
    In p (l_data (getl s i)) -> dead (l_tombs (getl s i)) p = false ->
    ~ (l_rmin (getl s i) <= tm p <= l_rmax (getl s i)) -> mn <= tm p <= mx ->
    (mu (upd s2 i (mark_read mn mx)) < mu s)%nat.
  Proof.
    intros Hw Hin Hd Hr Hwin. apply swidens_mu_lt; [auto|eapply getl_in_range; eauto|apply widens_mark|].
    pose proof (swidens_getl _ _ i Hw) as (_ & _ & _ & Hdat & Htb & H1 & H2).
    unfold remf. cbn [mark_read l_data]. rewrite <- Hdat.
    apply filter_length_lt with (x0 := p); auto.
    - intros x _ Hx. apply unread_b_true in Hx as [Hx1 Hx2]. apply unread_b_true.
      cbn [mark_read l_tombs l_rmin l_rmax] in *. rewrite Htb. split; [auto|].
      destruct (mn <? l_rmin (getl s2 i)) eqn:E1, (mx >? l_rmax (getl s2 i)) eqn:E2; lia.
    - apply unread_b_true. auto.
    - unfold unread_b. cbn [mark_read l_tombs l_rmin l_rmax].
      destruct (mn <? l_rmin (getl s2 i)) eqn:E1, (mx >? l_rmax (getl s2 i)) eqn:E2;
        apply andb_false_iff; right; apply negb_false_iff; lia.
  Qed.

  Lemma fold_min_le s (rest : list nat) : forall m0,
    fold_left (fun m i => let c := getl s i in
                 if (l_min c <? m) && negb (is_read c) then l_min c else m) rest m0 <= m0.
  Proof.
    induction rest as [|i rest IH]; intro m0; cbn [fold_left]; [lia|]. cbv zeta in IH |- *.
    destruct ((l_min (getl s i) <? m0) && negb (is_read (getl s i))) eqn:E.
    - apply andb_true_iff in E as [E _]. specialize (IH (l_min (getl s i))). lia.
    - apply IH.
  Qed.
  Lemma fold_max_ge s (rest : list nat) : forall m0,
    m0 <= fold_left (fun m i => let c := getl s i in
                 if (l_max c >? m) && negb (is_read c) then l_max c else m) rest m0.
  Proof.
    induction rest as [|i rest IH]; intro m0; cbn [fold_left]; [lia|]. cbv zeta in IH |- *.
    destruct ((l_max (getl s i) >? m0) && negb (is_read (getl s i))) eqn:E.
    - apply andb_true_iff in E as [E _]. specialize (IH (l_max (getl s i))). lia.
    - apply IH.
  Qed.

  Lemma merge_fold_widens mrg asc mn mx (rest : list nat) : forall s (v : arr),
    swidens s (fst (fold_left (merge_step mrg asc mn mx) rest (s, v))).
  Proof.
    induction rest as [|i rest IH]; intros s v; cbn [fold_left]; [apply swidens_refl|].
    unfold merge_step at 2.
    destruct (negb (overlaps (getl s i) mn mx) || is_read (getl s i)).
    - eapply swidens_trans; [apply swidens_upd|apply IH].
    - match goal with |- context [fold_left _ rest (?s', ?v')] =>
        eapply swidens_trans; [apply (swidens_upd s i mn mx)|apply (IH s' v')] end.
  Qed.

  Section WithMerge.
    Variable mrg : arr -> arr -> arr.

    Lemma read_block_progress asc cur : forall s, data_sorted s ->
      let '(v, s', cur') := read_block mrg asc s cur in
      v <> [] -> (mu s' < mu s)%nat.
    Proof.
      induction cur as [|fi rest IH]; intros s Hds.
      - cbn. congruence.
      - cbn [read_block].
        set (first := getl s fi).
        assert (Hfs : ssorted (l_data first)) by (apply getl_sorted; auto).
        set (values := excl_tombs (l_tombs first) (arr_exclude (l_data first) (l_rmin first) (l_rmax first))).
        assert (Hvs : ssorted values) by (apply excl_tombs_sorted, exclude_sorted; auto).
        destruct (Nat.eqb (length values) 0) eqn:El; [apply IH; auto|].
        assert (Hne : values <> []) by (intro H; rewrite H in El; discriminate).
        destruct (min_time_in values Hne) as (p0 & Hp0 & Hp0t).
        pose proof (max_time_ge values (ssorted_wsorted _ Hvs)) as Hmax. rewrite Forall_forall in Hmax.
        specialize (Hmax p0 Hp0).
        apply rem_first_spec in Hp0 as (Hin & Hd & Hr); [|auto].
        destruct rest as [|r1 rest'].
        { intros _. apply (mark_drops s s fi _ _ p0); auto using swidens_refl. lia. }
        set (rest := r1 :: rest') in *.
        destruct asc.
        + pose proof (fold_min_le s rest (min_time values)) as Hm.
          set (minT := fold_left _ rest (min_time values)) in *.
          destruct (find _ rest) as [i|].
          * set (maxT := if l_max (getl s i) >? max_time values then l_max (getl s i) else max_time values).
            assert (HM : max_time values <= maxT) by (unfold maxT; destruct (_ >? _) eqn:E; lia).
            pose proof (merge_fold_widens mrg true minT maxT rest s (arr_include values minT maxT)) as Hw.
            destruct (fold_left _ rest (s, arr_include values minT maxT)) as [s2 v2]. cbn [fst] in Hw.
            intros _. apply (mark_drops s s2 fi _ _ p0); auto. lia.
          * pose proof (merge_fold_widens mrg true minT (max_time values) rest s values) as Hw.
            destruct (fold_left _ rest (s, values)) as [s2 v2]. cbn [fst] in Hw.
            intros _. apply (mark_drops s s2 fi _ _ p0); auto. lia.
        + pose proof (fold_max_ge s rest (max_time values)) as HM.
          set (maxT := fold_left _ rest (max_time values)) in *.
          destruct (find _ rest) as [i|].
          * set (minT := if l_min (getl s i) <? min_time values then l_min (getl s i) else min_time values).
            assert (Hm : minT <= min_time values) by (unfold minT; destruct (_ <? _) eqn:E; lia).
            pose proof (merge_fold_widens mrg false minT maxT rest s (arr_include values minT maxT)) as Hw.
            destruct (fold_left _ rest (s, arr_include values minT maxT)) as [s2 v2]. cbn [fst] in Hw.
            intros _. apply (mark_drops s s2 fi _ _ p0); auto. lia.
          * pose proof (merge_fold_widens mrg false (min_time values) maxT rest s values) as Hw.
            destruct (fold_left _ rest (s, values)) as [s2 v2]. cbn [fst] in Hw.
            intros _. apply (mark_drops s s2 fi _ _ p0); auto. lia.
    Qed.

    Lemma read_block_widens asc cur : forall s,
      let '(v, s', cur') := read_block mrg asc s cur in swidens s s'.
    Proof.
      induction cur as [|fi rest IH]; intro s; [cbn; apply swidens_refl|].
      cbn [read_block]. destruct (Nat.eqb _ 0); [apply IH|].
      destruct rest as [|r1 rest']; [apply swidens_upd|]. set (rest := r1 :: rest').
      destruct asc.
      - set (minT := fold_left _ rest _). destruct (find _ rest) as [i|].
        + match goal with |- context [fold_left (merge_step mrg true ?a ?b) rest (s, ?v)] =>
            pose proof (merge_fold_widens mrg true a b rest s v) as Hw;
            destruct (fold_left (merge_step mrg true a b) rest (s, v)) as [s2 v2] end.
          cbn [fst] in Hw. eapply swidens_trans; [exact Hw|apply swidens_upd].
        + match goal with |- context [fold_left (merge_step mrg true ?a ?b) rest (s, ?v)] =>
            pose proof (merge_fold_widens mrg true a b rest s v) as Hw;
            destruct (fold_left (merge_step mrg true a b) rest (s, v)) as [s2 v2] end.
          cbn [fst] in Hw. eapply swidens_trans; [exact Hw|apply swidens_upd].
      - set (maxT := fold_left _ rest _). destruct (find _ rest) as [i|].
        + match goal with |- context [fold_left (merge_step mrg false ?a ?b) rest (s, ?v)] =>
            pose proof (merge_fold_widens mrg false a b rest s v) as Hw;
            destruct (fold_left (merge_step mrg false a b) rest (s, v)) as [s2 v2] end.
          cbn [fst] in Hw. eapply swidens_trans; [exact Hw|apply swidens_upd].
        + match goal with |- context [fold_left (merge_step mrg false ?a ?b) rest (s, ?v)] =>
            pose proof (merge_fold_widens mrg false a b rest s v) as Hw;
            destruct (fold_left (merge_step mrg false a b) rest (s, v)) as [s2 v2] end.
          cbn [fst] in Hw. eapply swidens_trans; [exact Hw|apply swidens_upd].
    Qed.

    Lemma run_loop_total asc : forall fuel (k : cursor V), data_sorted (k_seeks k) ->
      (mu (k_seeks k) < fuel)%nat -> run_loop mrg fuel asc k <> None.
    Proof.
      induction fuel as [|fuel IH]; intros k Hds Hmu; [lia|]. cbn [run_loop].
      pose proof (read_block_progress asc (k_cur k) (k_seeks k) Hds) as Hp.
      pose proof (read_block_widens asc (k_cur k) (k_seeks k)) as Hw.
      destruct (read_block mrg asc (k_seeks k) (k_cur k)) as [[v s'] cur'].
      destruct (Nat.eqb (length v) 0) eqn:El; [discriminate|].
      assert (Hne : v <> []) by (intro H; rewrite H in El; discriminate).
      specialize (Hp Hne).
      match goal with |- context [run_loop mrg fuel asc ?k'] =>
        specialize (IH k'); destruct (run_loop mrg fuel asc k') end; [discriminate|].
      exfalso. apply IH; [|  |reflexivity].
      - rewrite next_seeks. cbn [k_seeks]. eapply data_sorted_widens; eauto.
      - rewrite next_seeks. cbn [k_seeks]. lia.
    Qed.
  End WithMerge.

  (** ** the initial measure is at most the number of points in the files *)
  Lemma mu_app s1 s2 : mu (s1 ++ s2) = (mu s1 + mu s2)%nat.
  Proof. induction s1 as [|c s1 IH]; [reflexivity|]. cbn [app]. rewrite !mu_cons, IH. lia. Qed.

  Lemma mu_perm s s' : Permutation s s' -> mu s = mu s'.
  Proof. induction 1; rewrite ?mu_cons; lia. Qed.

  Lemma remf_le c : (length (remf c) <= length (l_data c))%nat.
  Proof. unfold remf. induction (l_data c) as [|x l IH]; cbn; [lia|]. destruct (unread_b c x); cbn; lia. Qed.

  Definition file_pts (f : tfile V) : nat := fold_right (fun b m => (length (b_data b) + m)%nat) 0%nat (f_blocks f).

  Lemma mu_file_locs asc t fi (f : tfile V) : (mu (file_locs asc t fi f) <= file_pts f)%nat.
  Proof.
    unfold file_locs, file_pts. destruct (asc && _); [cbn; lia|]. destruct (negb asc && _); [cbn; lia|].
    induction (f_blocks f) as [|b bs IH]; cbn [flat_map fold_right]; [cbn; lia|].
    rewrite mu_app. unfold block_locs at 1.
    destruct (fully_tombstoned _ b); [cbn; lia|]. destruct (asc && _); [cbn; lia|].
    destruct (negb asc && _); [cbn; lia|]. cbn [mu fold_right].
    match goal with |- context [remf ?c] => pose proof (remf_le c) as Hle; cbn [l_data] in Hle end. lia.
  Qed.

  Lemma mu_locations (fs : list (tfile V)) t asc : (mu (locations fs t asc) <= total_points fs)%nat.
  Proof.
    unfold locations. generalize 0%nat as k. induction fs as [|f fs IH]; intro k; cbn [locations_from total_points fold_right]; [cbn; lia|].
    rewrite mu_app. pose proof (mu_file_locs asc t k f) as H1. specialize (IH (S k)).
    unfold file_pts in H1. unfold total_points in IH. lia.
  Qed.

  Lemma run_cursor_total mrg (fs : list (tfile V)) t asc :
    files_sorted fs -> run_cursor mrg fs t asc <> None.
  Proof.
    intro Hfs. unfold run_cursor. apply run_loop_total.
    - apply new_cursor_data_sorted; auto.
    - unfold new_cursor, run_fuel. cbn [k_seeks]. rewrite (mu_perm _ _ (sort_locs_perm asc _)).
      pose proof (mu_locations fs t asc). lia.
  Qed.
End Fuel.
