(** C08 — TSM files and tombstones read back what was written.  Property theorems only.
    Models: Model/C08_File.v (bytes), Model/C08_Index.v (parsed index + deletes), Model/C08.v (specs, judge). *)
From Verif Require Import Base.Prelude Base.C08_BE Model.C08_File Model.C08_Index Model.C08.
From Verif Require Import Proofs.C08_Tomb Proofs.C08_Search Proofs.C08_Delete Proofs.C08_Reader Proofs.C08_Tsm Proofs.C08_Writer.

(** ** Framing integers *)
Theorem C08_be_roundtrip : forall n v, (v < 256 ^ N.of_nat n)%N -> unbe (be n v) = v /\ length (be n v) = n.
Proof. intros n v H; split; [apply unbe_be; exact H | apply be_length]. Qed.
Print Assumptions C08_be_roundtrip.

Theorem C08_i64_roundtrip : forall z, in_i64 z -> uni64 (i64 z) = z.
Proof. exact i64_rt. Qed.
Print Assumptions C08_i64_roundtrip.

(** ** TSM file round trip (byte level; the block checksum function is a parameter)
    [gs]: per key the list of (min, max, block bytes).  [group_ok]: key non-empty and <= 65535 bytes,
    at least one and at most 65535 blocks, each block starts with a valid block-type byte, block
    min times non-decreasing.  [gsorted [] gs]: keys strictly increasing.  [fits]: every index entry
    fits its field widths (int64 times, offset < 2^64, size < 2^32).
    Then WriteBlock* + WriteIndex produce exactly header ++ (crc|block)* ++ index ++ footer, and
    the reader (footer -> index slice -> parse -> readBytes at every entry) returns exactly the
    keys, the type of each key's first block, the entries (min, max, offset, size), the checksums
    and the block bytes that were written — for any number of keys and blocks. *)
Section TsmRoundTrip.
  Variable crc : bytes -> N.
  Hypothesis crc_u32 : forall b, (crc b < 4294967296)%N.

  Theorem C08_tsm_roundtrip : forall gs, gs <> [] -> gsorted [] gs -> Forall (group_ok) gs ->
    Forall wf_ikey (ikeys_of crc 5 gs) ->
    (N.of_nat (length (tsm_header ++ all_frames crc gs)) < 18446744073709551616)%N ->
    tsm_write crc (calls_of gs) = Some (layout crc gs) /\
    tsm_read (layout crc gs) = Some (expect crc 5 gs).
  Proof.
    intros gs Hne Hs Hok Hfit Hlen. split.
    - apply tsm_write_layout; assumption.
    - apply tsm_read_layout; assumption.
  Qed.
End TsmRoundTrip.
Print Assumptions C08_tsm_roundtrip.

(** the writer's limits.  Full statement wanted: [tsm_write] fails EXACTLY when some key is longer
    than 65535 bytes, some key has more than 65535 blocks, or nothing was written.  Proved: success
    inside the limits (above), and failure for an over-long key, for nothing written, and of the
    flush of an over-full key; that an over-full key makes the whole [tsm_write] fail is tied only
    by the driver's limit cases (65534..65537 blocks on the real writer). *)
Theorem C08_writer_limits_partial : forall crc,
  (forall cs, (exists c, In c cs /\ (65535 < N.of_nat (length (fst (fst (fst c)))))%N) -> tsm_write crc cs = None) /\
  (forall s k mn mx b, (65535 < N.of_nat (length k))%N -> write_block crc s k mn mx b = (s, 1%N)) /\
  (forall s, w_cnt s = 0%N -> write_index s = None) /\
  (forall s, w_key s <> [] ->
     (w_fail (flush s) = true <-> w_fail s = true \/ (65535 < N.of_nat (length (w_ents s)))%N)).
Proof.
  intro crc. split; [apply tsm_write_long_key|]. split; [intros; apply write_block_key_too_long; assumption|].
  split; [apply write_index_no_values|apply flush_limit].
Qed.
Print Assumptions C08_writer_limits_partial.

(** ** Index lookups agree with the written content (any number of keys) *)

(** Seek = the binary search of bytesutil.SearchBytesFixed = a linear scan that never looks at the
    last slot. *)
Theorem C08_seek_is_linear_scan : forall l k, ksorted l -> search_offset l k = seek_spec l k.
Proof. exact search_offset_spec. Qed.
Print Assumptions C08_seek_is_linear_scan.

(** Full statement wanted by the property: [search_offset l k = count_lt l k] for every key.
    It holds exactly up to the last key ... *)
Theorem C08_seek_counts_smaller_keys_partial : forall l k, ksorted l -> l <> [] ->
  kleb k (ik_key (last l dk)) = true -> search_offset l k = count_lt l k.
Proof. exact search_offset_count_le. Qed.
Print Assumptions C08_seek_counts_smaller_keys_partial.

(** ... and is refuted beyond it: Seek returns the LAST position, not the key count
    (known finding seek-past-last-key; reproduced on the real reader by the driver). *)
Theorem C08_seek_past_end_refuted : forall l k, ksorted l -> l <> [] ->
  kltb (ik_key (last l dk)) k = true ->
  search_offset l k = (length l - 1)%nat /\ count_lt l k = length l /\ search_offset l k <> count_lt l k.
Proof.
  intros l k Hs Hne Hk. destruct (search_offset_past_end l k Hs Hne Hk) as [A B].
  repeat split; auto. rewrite A, B. destruct l; [congruence|cbn; lia].
Qed.
Print Assumptions C08_seek_past_end_refuted.

(** search / Entries / Contains / Type / Entry / ContainsValue / KeyAt *)
Theorem C08_search_finds_exactly : forall ix k, wf_index ix -> search ix k = sp_find (ix_keys ix) k.
Proof. exact search_spec. Qed.
Print Assumptions C08_search_finds_exactly.

Theorem C08_entries_contains_type : forall ix k, wf_index ix ->
  entries ix k = sp_entries (ix_keys ix) k /\
  contains ix k = (match sp_entries (ix_keys ix) k with [] => false | _ => true end) /\
  type_of ix k = (match sp_find (ix_keys ix) k with Some ik => Some (ik_typ ik) | None => None end).
Proof. intros ix k H. repeat split; [apply entries_spec|apply contains_spec|apply type_of_spec]; exact H. Qed.
Print Assumptions C08_entries_contains_type.

Theorem C08_entry_at : forall ix k t, wf_index ix ->
  match entry_at ix k t with
  | Some e => In e (sp_entries (ix_keys ix) k) /\ e_contains e t = true
  | None => forall e, In e (sp_entries (ix_keys ix) k) -> e_contains e t = false
  end.
Proof. exact entry_at_spec. Qed.
Print Assumptions C08_entry_at.

Theorem C08_contains_value : forall ix k t, wf_index ix ->
  contains_value ix k t =
    existsb (fun e => e_contains e t) (sp_entries (ix_keys ix) k)
    && negb (existsb (in_range t) (tomb_get k (ix_tombs ix))).
Proof. exact contains_value_spec. Qed.
Print Assumptions C08_contains_value.

Theorem C08_key_at : forall ix i,
  key_at ix i = if (i <? 0)%Z then None else
                match nth_error (ix_keys ix) (Z.to_nat i) with Some ik => Some (ik_key ik, ik_typ ik) | None => None end.
Proof. exact key_at_spec. Qed.
Print Assumptions C08_key_at.

(** a freshly opened file's index satisfies the well-formedness the lookups need *)
Theorem C08_open_index_wf : forall all, ksorted all -> wf_index (index_of all).
Proof. exact index_of_wf. Qed.
Print Assumptions C08_open_index_wf.

(** TimeRange: min and max over all blocks of all keys, exactly, for every index whose keys have
    time-ordered entries (it was refuted for all-pre-epoch files before the repair of finding
    timerange-max-negative, /repo commit 5ed1659de6; a file without keys cannot be written). *)
Theorem C08_time_range : forall all, Forall wf_ents all ->
  ix_mintime (index_of all) = sp_min_time all /\ ix_maxtime (index_of all) = sp_max_time all.
Proof. intros all H; split; [apply min_time_spec|apply max_time_spec]; exact H. Qed.
Print Assumptions C08_time_range.

(** ** Deletes hide exactly the given keys / ranges
    [wf_dr]: keys strictly sorted and inside [minKey,maxKey]; per key the first entry has the least
    min time and the last the greatest max time; all entries inside the file's [minTime,maxTime].
    A "visible point" (k,t) is [contains_value ix k t = true]: some block of k spans t and no
    tombstone range of k covers t — whether the key was dropped from the index (fully-deleted
    shortcut, coalescing window) or merely tombstoned is not observable through it. *)
Theorem C08_open_index_wf_dr : forall all, ksorted all -> Forall wf_ents all -> wf_dr (index_of all).
Proof. exact index_of_wf_dr. Qed.
Print Assumptions C08_open_index_wf_dr.

Theorem C08_delete_removes_exactly : forall ix ks, wf_index ix ->
  ix_keys (index_delete ix ks) = filter (fun ik => negb (kmem (ik_key ik) ks)) (ix_keys ix) /\
  wf_index (index_delete ix ks) /\
  forall k t, contains_value (index_delete ix ks) k t = contains_value ix k t && negb (kmem k ks).
Proof.
  intros ix ks H. split; [apply (index_delete_keys ix ks H)|]. split; [apply index_delete_wf; exact H|].
  intros k t. apply index_delete_cv; exact H.
Qed.
Print Assumptions C08_delete_removes_exactly.

Theorem C08_delete_range_hides_exactly : forall ix ks lo hi k t, wf_dr ix -> in_i64 t ->
  contains_value (index_delete_range ix ks lo hi) k t
  = contains_value ix k t && negb (kmem k ks && in_range t (lo, hi)).
Proof. exact delete_range_hides. Qed.
Print Assumptions C08_delete_range_hides_exactly.

Theorem C08_delete_range_preserves_wf : forall ix ks lo hi, wf_dr ix -> wf_dr (index_delete_range ix ks lo hi).
Proof. exact index_delete_range_wf. Qed.
Print Assumptions C08_delete_range_preserves_wf.

(** any history of deletes on an open index (unbounded): visible iff it was and no delete covers it *)
Theorem C08_delete_history_hides_exactly : forall ds ix k t, wf_dr ix -> in_i64 t ->
  contains_value (apply_dels ix ds) k t = contains_value ix k t && negb (deleted ds k t).
Proof. exact dels_hide. Qed.
Print Assumptions C08_delete_history_hides_exactly.

(** persisted tombstones: reopening a file (applyTombstones over every record of the tombstone
    file, batched by equal consecutive ranges in chunks of 4096) hides exactly the recorded ranges *)
Theorem C08_reopen_hides_exactly_recorded : forall all file k t, ksorted all -> Forall wf_ents all -> in_i64 t ->
  contains_value (r_ix (reader_open all file)) k t
  = contains_value (index_of all) k t && negb (rcov (concat file) k t).
Proof. exact reopen_hides. Qed.
Print Assumptions C08_reopen_hides_exactly_recorded.

(** ** Tombstone file v4 *)
Section Gzip.
  Variable gz : bytes -> bytes.
  Variable gunz : bytes -> option (bytes * bytes).
  Hypothesis gunz_gz : forall p rest, gunz (gz p ++ rest) = Some (p, rest).
  Hypothesis gz_nonempty : forall p, gz p <> [].

  (** reader after writer = identity on the accumulated tombstone set (any number of commits) *)
  Theorem C08_tombstone_file_roundtrip : forall members, Forall (Forall wf_trec) members ->
    tomb_read gunz (tomb_file gz members) = Some (concat members).
  Proof. exact (tomb_roundtrip gz gunz gunz_gz gz_nonempty). Qed.

  (** crash-atomicity of the commit: every disk a crash can leave after any prefix of
      [write tmp; fsync tmp; rename; fsync dir] reads, after the start-up removal of *.tmp, as the
      old set or as old + new. *)
  Theorem C08_tombstone_commit_atomic : forall old new, Forall (Forall wf_trec) old -> Forall wf_trec new ->
    forall k d,
      In d (crash_disks (fexec (fs_init (D (tomb_file gz old) None)) (firstn k (commit_prog gz old new)))) ->
      tomb_read gunz (d_tomb (recover d)) = Some (concat old) \/
      tomb_read gunz (d_tomb (recover d)) = Some (concat old ++ new).
  Proof. exact (commit_atomic gz gunz gunz_gz gz_nonempty). Qed.
End Gzip.
Print Assumptions C08_tombstone_file_roundtrip.
Print Assumptions C08_tombstone_commit_atomic.

(** Non-vacuity of the round trip: two keys, three blocks, with the real CRC-32. *)
Example C08_roundtrip_nonvacuous :
  let gs := [([97%N], [(1%Z, 2%Z, [0;7;7]%N); (3%Z, 4%Z, [0;9]%N)]); ([98%N; 1%N], [((-5)%Z, 9%Z, [1;1;1;1]%N)])] in
  gsorted [] gs /\ Forall group_ok gs /\ Forall wf_ikey (ikeys_of crc32_ieee 5 gs) /\
  tsm_write crc32_ieee (calls_of gs) = Some (layout crc32_ieee gs) /\
  tsm_read (layout crc32_ieee gs) = Some (expect crc32_ieee 5 gs) /\ length (layout crc32_ieee gs) = 131%nat.
Proof.
  cbv zeta. split; [cbn; auto|]. split.
  - repeat constructor; cbn; try discriminate; try lia; eexists; reflexivity.
  - split; [|vm_compute; repeat split; reflexivity].
    repeat constructor; cbn; unfold in_i64, MinInt64, MaxInt64; lia.
Qed.

(** Non-vacuity: a two-key index; lookups; a delete that coalesces into a full-key delete. *)
Example C08_nonvacuous :
  let all := [IK [97%N] 0 [E 1 2 5 7; E 3 4 12 6]; IK [98%N] 1 [E 0 20 18 8]] in
  ksorted all /\ Forall wf_ents all /\
  search_offset all [98%N] = 1%nat /\ search_offset all [99%N] = 1%nat /\
  contains_value (index_of all) [97%N] 3 = true /\
  contains_value (index_delete_range (index_of all) [[97%N]] 3 3) [97%N] 3 = false /\
  contains_value (index_delete_range (index_of all) [[97%N]] 3 3) [97%N] 4 = true /\
  key_count (index_delete_range (index_delete_range (index_of all) [[98%N]] 0 9) [[98%N]] 10 20) = 1%N.
Proof.
  cbv zeta. split; [|split].
  - cbn. repeat split; auto; intros ? [<-|[]]; reflexivity.
  - constructor; [|constructor; [|constructor]].
    + split; [discriminate|]. intros e [<-|[<-|[]]]; cbn; lia.
    + split; [discriminate|]. intros e [<-|[]]; cbn; lia.
  - vm_compute. repeat split; reflexivity.
Qed.
