(** C25 — Only active tasks are scheduled.  Property theorems only.

    FULL STATEMENT (refuted by the faithful model, see [C25_scheduled_iff_active_refuted]):
      forall ops, valid_ops ops -> scheduled_iff_active (run false ops)
    i.e. after ANY history of create / update / delete / restart through the
    coordinating task service, the scheduler's set is exactly the existing tasks whose
    status is active, each with its latest schedule.  It fails because
    [Coordinator.TaskCreated] schedules unconditionally: a task created with status
    "inactive" is scheduled.  What is proved instead, for ALL histories (unbounded):
      - [_partial]: the full statement for histories without an inactive create;
      - the two halves that survive: every active task is scheduled with its latest
        schedule; every scheduled id is an existing task;
      - the one-line repair (schedule in TaskCreated only if active) gives the full
        statement for all histories. *)
From Verif Require Import Base.Prelude Model.C25 Proofs.C25.

(** every schedule handed to create/update is a parsable cron/every (not "") *)
Definition valid_op (o : op) : Prop :=
  match o with
  | Create _ s => valid s = true
  | Update _ _ spec _ => spec <> Some 0%N
  | _ => True
  end.

Definition not_inactive_create (o : op) : Prop :=
  match o with Create (Some false) _ => False | _ => True end.

Lemma ok_of strict fx ops :
  Forall valid_op ops -> (strict = true -> fx = false -> Forall not_inactive_create ops) ->
  ops_ok strict fx ops.
Proof.
  intros Hv Hn. unfold ops_ok. apply Forall_forall. intros o Ho.
  pose proof (proj1 (Forall_forall _ _) Hv o Ho) as V.
  destruct o as [status s|id status spec off|id|]; cbn in *; try exact V; try exact I.
  split; [exact V|].
  intros Hs Hf E. subst status.
  exact (proj1 (Forall_forall _ _) (Hn Hs Hf) _ Ho).
Qed.

Theorem C25_scheduled_iff_active_refuted :
  exists ops, Forall valid_op ops /\ ~ scheduled_iff_active (run false ops).
Proof.
  exists [Create (Some false) {| sc_spec := 1; sc_off := 0 |}]. split.
  - repeat constructor.
  - intro H. specialize (H 1%N). vm_compute in H. discriminate.
Qed.
Print Assumptions C25_scheduled_iff_active_refuted.

Theorem C25_scheduled_iff_active_partial :
  forall ops, Forall valid_op ops -> Forall not_inactive_create ops ->
    scheduled_iff_active (run false ops).
Proof.
  intros ops Hv Hn. apply inv_strict_iff. apply run_inv. apply ok_of; auto.
Qed.
Print Assumptions C25_scheduled_iff_active_partial.

Theorem C25_active_tasks_always_scheduled :
  forall ops, Forall valid_op ops ->
  forall id t, lookup id (st_tasks (run false ops)) = Some t -> t_active t = true ->
    lookup id (st_sch (run false ops)) = Some (t_sched t).
Proof.
  intros ops Hv id t Hl Ha.
  assert (I : inv false (run false ops)) by (apply run_inv; apply ok_of; auto; discriminate).
  specialize (I id). rewrite Hl, Ha in I. exact I.
Qed.
Print Assumptions C25_active_tasks_always_scheduled.

Theorem C25_scheduled_tasks_exist :
  forall ops, Forall valid_op ops ->
  forall id s, lookup id (st_sch (run false ops)) = Some s ->
    exists t, lookup id (st_tasks (run false ops)) = Some t.
Proof.
  intros ops Hv id s Hl.
  assert (I : inv false (run false ops)) by (apply run_inv; apply ok_of; auto; discriminate).
  specialize (I id). destruct (lookup id (st_tasks (run false ops))) as [t|]; [eauto|congruence].
Qed.
Print Assumptions C25_scheduled_tasks_exist.

Theorem C25_fix_restores_scheduled_iff_active :
  forall ops, Forall valid_op ops -> scheduled_iff_active (run true ops).
Proof.
  intros ops Hv. apply inv_strict_iff. apply run_inv. apply ok_of; auto. discriminate.
Qed.
Print Assumptions C25_fix_restores_scheduled_iff_active.

(** Non-vacuity: a history with creates (active by default and explicitly), a schedule
    update, a deactivation, a re-activation, a delete and a restart satisfies the
    hypotheses of [_partial]; the scheduler then holds exactly tasks 1 and 3. *)
Example C25_nonvacuous :
  let s1 := {| sc_spec := 1; sc_off := 0 |} in
  let s2 := {| sc_spec := 2; sc_off := 5 |} in
  let ops := [Create None s1; Create (Some true) s2; Create None s1;
              Update 1 None (Some 2%N) (Some 7%Z); Update 2 (Some false) None None;
              Update 3 (Some false) None None; Update 3 (Some true) None None;
              Delete 2; Restart] in
  Forall valid_op ops /\ Forall not_inactive_create ops /\
  st_sch (run false ops) = [(1%N, {| sc_spec := 2; sc_off := 7 |}); (3%N, s1)].
Proof.
  cbn zeta. split; [|split].
  - repeat constructor; cbn; congruence.
  - repeat constructor.
  - vm_compute. reflexivity.
Qed.
