// Package vh is the shared scaffolding of the correspondence drivers.
//
// A driver generates cases from one PRNG (seeded by -seed), runs the REAL influxdb
// code on each, and records (a) the case as a Gallina term — inputs plus the outputs
// the implementation produced — for evaluation by the Coq judge `check` of
// coq/Model/<id>.v under vm_compute, and (b) a JSON rendering for replay files and
// evidence samples.
package vh

import (
	"encoding/json"
	"flag"
	"fmt"
	"math/rand/v2"
	"os"
	"path/filepath"
	"sort"
	"strings"
	"time"
)

type Case struct {
	Idx  int         `json:"idx"`
	Sig  string      `json:"sig,omitempty"` // known-finding signature of the case SHAPE, if any
	Data interface{} `json:"case"`
}

type ImplFailure struct {
	Idx  int    `json:"idx"`
	What string `json:"what"`
	Sig  string `json:"sig,omitempty"`
}

type W struct {
	ID       string
	Header   string // Coq header of each shard (Require lines, scopes)
	CaseType string // Gallina type of a case, e.g. "case"
	Check    string // Gallina judge, e.g. "check"
	Seed     uint64
	N        int
	Out      string
	Shard    int
	Replay   string
	Rng      *rand.Rand

	terms    []string
	cases    []Case
	distinct map[string]bool
	nontriv  map[string]bool
	dist     map[string]map[string]int
	failures []ImplFailure
	Rule     string
	Extra    map[string]interface{}
	start    time.Time
}

// New parses the common flags: -seed -n -out -shard -replay.
func New(id, header, caseType, check string) *W {
	w := &W{ID: id, Header: header, CaseType: caseType, Check: check}
	flag.Uint64Var(&w.Seed, "seed", 1, "PRNG seed")
	flag.IntVar(&w.N, "n", 500, "number of generated cases")
	flag.StringVar(&w.Out, "out", "", "output directory")
	flag.IntVar(&w.Shard, "shard", 250, "cases per Coq shard file")
	flag.StringVar(&w.Replay, "replay", "", "replay file (JSON with a `case` object) to re-run")
	flag.Parse()
	if w.Out == "" {
		fmt.Fprintln(os.Stderr, "missing -out")
		os.Exit(2)
	}
	w.Rng = rand.New(rand.NewPCG(w.Seed, 0x9E3779B97F4A7C15))
	w.distinct = map[string]bool{}
	w.nontriv = map[string]bool{}
	w.dist = map[string]map[string]int{}
	w.Extra = map[string]interface{}{}
	w.start = time.Now()
	return w
}

// Add records one case. term: Gallina term of type CaseType. data: JSON-able rendering.
// key: canonical string identifying the case for distinctness (usually the term itself);
// nontrivial: whether the case is non-trivial by the driver's stated Rule.
func (w *W) Add(term string, data interface{}, nontrivial bool, sig string) int {
	idx := len(w.terms)
	w.terms = append(w.terms, term)
	w.cases = append(w.cases, Case{Idx: idx, Sig: sig, Data: data})
	if !w.distinct[term] {
		w.distinct[term] = true
		if nontrivial {
			w.nontriv[term] = true
		}
	}
	return idx
}

// Count increments the input-distribution histogram.
func (w *W) Count(dim, val string) {
	m := w.dist[dim]
	if m == nil {
		m = map[string]int{}
		w.dist[dim] = m
	}
	m[val]++
}

// Fail records a failure observed directly on the implementation (panic, timeout, a
// violated runtime assertion) that no model output can equal.
func (w *W) Fail(idx int, what, sig string) {
	w.failures = append(w.failures, ImplFailure{Idx: idx, What: what, Sig: sig})
}

func (w *W) Len() int { return len(w.terms) }

// Finish writes shard_XXX.v, cases.jsonl and meta.json.
func (w *W) Finish() {
	must(os.MkdirAll(w.Out, 0o755))
	old, _ := filepath.Glob(filepath.Join(w.Out, "shard_*"))
	for _, f := range old {
		os.Remove(f)
	}
	nsh := 0
	for lo := 0; lo < len(w.terms); lo += w.Shard {
		hi := lo + w.Shard
		if hi > len(w.terms) {
			hi = len(w.terms)
		}
		var b strings.Builder
		b.WriteString(w.Header)
		b.WriteString("\nDefinition cases : list (N * " + w.CaseType + ") := [\n")
		for i := lo; i < hi; i++ {
			if i > lo {
				b.WriteString(";\n")
			}
			fmt.Fprintf(&b, "(%d%%N, %s)", i, w.terms[i])
		}
		b.WriteString("\n].\nDefinition R := Eval vm_compute in run_cases " + w.Check + " cases.\nPrint R.\n")
		must(os.WriteFile(filepath.Join(w.Out, fmt.Sprintf("shard_%03d.v", nsh)), []byte(b.String()), 0o644))
		nsh++
	}
	f, err := os.Create(filepath.Join(w.Out, "cases.jsonl"))
	must(err)
	enc := json.NewEncoder(f)
	for _, c := range w.cases {
		must(enc.Encode(c))
	}
	f.Close()
	samples := []interface{}{}
	step := len(w.cases)/3 + 1
	for i := 0; i < len(w.cases); i += step {
		samples = append(samples, w.cases[i].Data)
	}
	meta := map[string]interface{}{
		"property_id":         w.ID,
		"seed":                w.Seed,
		"evaluations":         len(w.terms),
		"distinct":            len(w.distinct),
		"distinct_nontrivial": len(w.nontriv),
		"rule":                w.Rule,
		"distribution":        w.dist,
		"samples":             samples,
		"impl_failures":       w.failures,
		"shards":              nsh,
		"driver_wall_s":       time.Since(w.start).Seconds(),
		"extra":               w.Extra,
	}
	mb, err := json.MarshalIndent(meta, "", " ")
	must(err)
	must(os.WriteFile(filepath.Join(w.Out, "meta.json"), mb, 0o644))
}

// ReplayCase loads the `case` object of a replay file into v (if -replay was given).
func (w *W) ReplayCase(v interface{}) bool {
	if w.Replay == "" {
		return false
	}
	b, err := os.ReadFile(w.Replay)
	must(err)
	var r struct {
		Case json.RawMessage `json:"case"`
	}
	must(json.Unmarshal(b, &r))
	must(json.Unmarshal(r.Case, v))
	return true
}

func must(err error) {
	if err != nil {
		fmt.Fprintln(os.Stderr, "driver error:", err)
		os.Exit(3)
	}
}

// ---- Gallina term rendering ----

// Z renders an int64 as a Gallina Z term. Coq elaborates long decimal literals slowly
// (several ms each), so values beyond 32 bits are written with the binary constructors.
func Z(v int64) string {
	if v > -(1<<31) && v < (1<<31) {
		if v < 0 {
			return fmt.Sprintf("(%d)%%Z", v)
		}
		return fmt.Sprintf("%d%%Z", v)
	}
	if v < 0 {
		return "(Zneg " + pos(uint64(-(v+1))+1) + ")"
	}
	return "(Zpos " + pos(uint64(v)) + ")"
}

// N renders a uint64 as a Gallina N term (binary constructors beyond 32 bits).
func N(v uint64) string {
	if v < (1 << 32) {
		return fmt.Sprintf("%d%%N", v)
	}
	return "(Npos " + pos(v) + ")"
}

// pos renders a positive number with xH/xO/xI.
func pos(v uint64) string {
	if v == 0 {
		panic("pos(0)")
	}
	var b strings.Builder
	n := 0
	top := 63
	for v>>uint(top)&1 == 0 {
		top--
	}
	for i := 0; i < top; i++ {
		if v>>uint(i)&1 == 1 {
			b.WriteString("(xI ")
		} else {
			b.WriteString("(xO ")
		}
		n++
	}
	b.WriteString("xH")
	b.WriteString(strings.Repeat(")", n))
	return b.String()
}
func Nat(v int) string { return fmt.Sprintf("%d%%nat", v) }
func Bool(b bool) string {
	if b {
		return "true"
	}
	return "false"
}
func List(xs []string) string { return "[" + strings.Join(xs, "; ") + "]" }
func Some(x string) string    { return "(Some " + x + ")" }
func None() string            { return "None" }
func Pair(a, b string) string { return "(" + a + ", " + b + ")" }
func OptN(p *uint64) string {
	if p == nil {
		return "None"
	}
	return Some(N(*p))
}
func Bytes(b []byte) string {
	xs := make([]string, len(b))
	for i, c := range b {
		xs[i] = fmt.Sprintf("%d%%N", c)
	}
	return List(xs)
}
func Zs(v []int64) string {
	xs := make([]string, len(v))
	for i, c := range v {
		xs[i] = Z(c)
	}
	return List(xs)
}
func Ns(v []uint64) string {
	xs := make([]string, len(v))
	for i, c := range v {
		xs[i] = N(c)
	}
	return List(xs)
}
func Bools(v []bool) string {
	xs := make([]string, len(v))
	for i, c := range v {
		xs[i] = Bool(c)
	}
	return List(xs)
}

// Interner maps distinct strings to small numbers (for values compared only by equality).
type Interner struct {
	m    map[string]uint64
	next uint64
}

func NewInterner(reserved ...string) *Interner {
	in := &Interner{m: map[string]uint64{}}
	for _, s := range reserved {
		in.ID(s)
	}
	return in
}
func (in *Interner) ID(s string) uint64 {
	if v, ok := in.m[s]; ok {
		return v
	}
	v := in.next
	in.next++
	in.m[s] = v
	return v
}
func (in *Interner) Table() map[string]uint64 { return in.m }

// SortedKeys returns the sorted keys of a string-keyed map.
func SortedKeys[T any](m map[string]T) []string {
	ks := make([]string, 0, len(m))
	for k := range m {
		ks = append(ks, k)
	}
	sort.Strings(ks)
	return ks
}

// Guard runs f, converting a panic into an error string ("" if none).
func Guard(f func()) (panicked string) {
	defer func() {
		if r := recover(); r != nil {
			panicked = fmt.Sprint(r)
		}
	}()
	f()
	return ""
}
