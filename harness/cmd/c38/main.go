// C38 driver: shard backup / restore / export / import on a real tsm1.Engine.
//
// A history (writes, snapshots, CompactFull with 3 points per block + FileStore.Replace,
// series range deletes that leave tombstone files) runs on engine A.  Then the mtimes of
// A's TSM and tombstone files are set explicitly (os.Chtimes, logical ranks) and one
// action is taken:
//
//	backup  A.Backup(&buf, "", since)  — tar member list; B := fresh empty engine (own
//	        directory, no schema); B.Restore(buf, ""); full read-back of every key from A
//	        and from B; number of series B's index knows (when B has an index of its own)
//	export  A.Export(&buf, "", lo, hi) — error class, tar member list, the blocks of every
//	        .tsm member (read with a TSMReader BlockIterator); B.Import(buf, ""); read-back
//
// The physical block layout of every source TSM file (BlockIterator over a tombstone-free
// copy of the file) is reported too: the Coq judge (coq/Model/C38.v) checks it against
// Model/C01.v's state after the history and computes the expected archive from it.
package main

import (
	"archive/tar"
	"bytes"
	"context"
	"fmt"
	"io"
	"math"
	"os"
	"path/filepath"
	"sort"
	"strings"
	"time"

	"github.com/influxdata/influxdb/v2/models"
	"github.com/influxdata/influxdb/v2/tsdb"
	"github.com/influxdata/influxdb/v2/tsdb/cursors"
	"github.com/influxdata/influxdb/v2/tsdb/engine/tsm1"
	_ "github.com/influxdata/influxdb/v2/tsdb/index"
	"github.com/influxdata/influxql"
	"go.uber.org/zap"
	"verifh/vh"
)

const nSeries, nFields = 2, 2  // model key = series*nFields + field; field 0 integer, field 1 float
const nowRank = int64(1) << 60 // mtime rank of a file created by the action's own snapshot (its real mtime is the wall clock, years after baseTime)

// mtime ranks are NANOSECONDS after baseTime: the since filter compares time.Time values,
// so the boundary cases live at sub-second distances from `since`.
const (
	rankMs  = int64(time.Millisecond)
	rankSec = int64(time.Second)
)

var baseTime = time.Date(2001, 1, 1, 0, 0, 0, 0, time.UTC)

func rankTime(r int64) time.Time { return baseTime.Add(time.Duration(r)) }

// setMtime sets and verifies a file's mtime (the file system must keep nanoseconds).
func setMtime(p string, r int64) {
	if err := os.Chtimes(p, rankTime(r), rankTime(r)); err != nil {
		panic(err)
	}
	st, err := os.Stat(p)
	if err != nil || !st.ModTime().Equal(rankTime(r)) {
		fmt.Fprintln(os.Stderr, "file system does not keep the nanosecond mtime set with os.Chtimes:", p, err)
		os.Exit(3)
	}
}

type jpoint struct {
	Series int   `json:"s"`
	Field  int   `json:"f"`
	T      int64 `json:"t"`
	V      int64 `json:"v"`
}
type jstep struct {
	Op     string   `json:"op"` // write | snap | compact | delete
	Points []jpoint `json:"points,omitempty"`
	I      int      `json:"i,omitempty"`
	N      int      `json:"n,omitempty"`
	Series []int    `json:"series,omitempty"`
	Lo     int64    `json:"lo,omitempty"`
	Hi     int64    `json:"hi,omitempty"`
	OK     bool     `json:"impl_ok"`
	Err    string   `json:"impl_err,omitempty"`
}
type jblock struct {
	Key int        `json:"key"`
	Pts [][2]int64 `json:"pts"`
}
type jfile struct {
	Name   string   `json:"name"`
	Mt     int64    `json:"mtime_rank"`
	Tomb   *int64   `json:"tombstone_mtime_rank,omitempty"` // nil: no tombstone file
	Blocks []jblock `json:"blocks"`
	View   []jblock `json:"reader_view"` // blocks a reader that loaded the tombstone file iterates
}
type jmember struct {
	Name   string   `json:"name"`
	File   int      `json:"file"` // index of the source file, -1 if none
	Kind   int      `json:"kind"` // 0 tsm, 1 tombstone, 2 other
	Blocks []jblock `json:"blocks,omitempty"`
}
type jcase struct {
	Steps    []jstep `json:"steps"`
	Mts      []int64 `json:"mtime_ranks"`      // rank given to the i-th TSM file before the action
	TombMts  []int64 `json:"tomb_mtime_ranks"` // rank given to the i-th file's tombstone file (if it exists)
	Action   string  `json:"action"`           // backup | export
	Since    int64   `json:"since_rank"`
	Lo       int64   `json:"lo"`
	Hi       int64   `json:"hi"`
	OwnIndex bool    `json:"own_index"`     // the restore target gets a series file + index of its own
	SnapOff  bool    `json:"snapshots_off"` // the action is first attempted with cache snapshots disabled (Compactor.DisableSnapshots, what Shard.Free / SetCompactionsEnabled(false) do), then retried after re-enabling if it failed
	ViaShard bool    `json:"via_shard"`     // the restore target is a tsdb.Shard: Shard.Restore (restore, close, reopen) / Shard.Import
	// observations
	Files      []jfile      `json:"impl_files"`
	FirstErr   string       `json:"impl_first_err,omitempty"` // error class of the attempt with snapshots disabled
	Err        string       `json:"impl_err,omitempty"`
	Members    []jmember    `json:"impl_members"`
	RestoreErr string       `json:"impl_restore_err,omitempty"`
	ReadA      [][][2]int64 `json:"impl_read_src"`
	ReadB      [][][2]int64 `json:"impl_read_dst"`
	SeriesB    *int64       `json:"impl_series_dst,omitempty"`
}

type seriesIterator struct{ keys [][]byte }
type series struct {
	name []byte
	tags models.Tags
}

func (s series) Name() []byte            { return s.name }
func (s series) Tags() models.Tags       { return s.tags }
func (s series) Deleted() bool           { return false }
func (s series) Expr() influxql.Expr     { return nil }
func (itr *seriesIterator) Close() error { return nil }
func (itr *seriesIterator) Next() (tsdb.SeriesElem, error) {
	if len(itr.keys) == 0 {
		return nil, nil
	}
	name, tags := models.ParseKeyBytes(itr.keys[0])
	itr.keys = itr.keys[1:]
	return series{name: name, tags: tags}, nil
}

type seriesIDSets []*tsdb.SeriesIDSet

func (a seriesIDSets) ForEach(f func(ids *tsdb.SeriesIDSet)) error {
	for _, v := range a {
		f(v)
	}
	return nil
}

type eng struct {
	*tsm1.Engine
	root  string
	sfile *tsdb.SeriesFile // non-nil only if owned
	idx   tsdb.Index
}

// One series file + tsi1 index per process shared by the SOURCE engines (opening them
// dominates the cost of Engine.Open); a restore target with OwnIndex gets fresh ones.
var (
	gsfile *tsdb.SeriesFile
	gidx   tsdb.Index
	gopt   tsdb.EngineOptions
	groot  string
)

func openIndex(root string) (*tsdb.SeriesFile, tsdb.Index, tsdb.EngineOptions) {
	sfile := tsdb.NewSeriesFile(filepath.Join(root, tsdb.SeriesFileDirectory))
	sfile.Logger = zap.NewNop()
	if err := sfile.Open(); err != nil {
		panic(err)
	}
	opt := tsdb.NewEngineOptions()
	opt.IndexVersion = tsdb.TSI1IndexName
	ids := tsdb.NewSeriesIDSet()
	opt.SeriesIDSets = seriesIDSets([]*tsdb.SeriesIDSet{ids})
	idx := tsdb.MustOpenIndex(1, "db0", filepath.Join(root, "index"), ids, sfile, opt)
	return sfile, idx, opt
}

func openShared() {
	var err error
	groot, err = os.MkdirTemp("", "verif-c38-shared-")
	if err != nil {
		panic(err)
	}
	gsfile, gidx, gopt = openIndex(groot)
}
func closeShared() {
	gidx.Close()
	gsfile.Close()
	os.RemoveAll(groot)
}

// openEngine opens an engine in its own directory.  schema: pre-create the measurement
// fields (what tsdb.Shard.WritePoints does before handing points to the engine).
func openEngine(ownIndex, schema bool) (*eng, error) {
	root, err := os.MkdirTemp("", "verif-c38-")
	if err != nil {
		return nil, err
	}
	if err := os.MkdirAll(filepath.Join(root, "data"), 0o777); err != nil {
		return nil, err
	}
	x := &eng{root: root}
	sfile, idx, opt := gsfile, gidx, gopt
	if ownIndex {
		sfile, idx, opt = openIndex(root)
		x.sfile = sfile
	}
	x.idx = idx
	e := tsm1.NewEngine(1, idx, filepath.Join(root, "data"), filepath.Join(root, "wal"), sfile, opt).(*tsm1.Engine)
	e.SetEnabled(false) // no background snapshot/compaction goroutines; the driver places them
	if err := e.Open(context.Background()); err != nil {
		return nil, err
	}
	x.Engine = e
	if schema {
		x.ensureSchema(nil)
	}
	return x, nil
}

// openShardTarget opens an empty tsdb.Shard (its own tsi1 index, the shared series file)
// as the restore target: Store.RestoreShard/ImportShard are Shard.Restore/Import plus a
// path computation.
func openShardTarget() (*tsdb.Shard, string, error) {
	root, err := os.MkdirTemp("", "verif-c38-s-")
	if err != nil {
		return nil, "", err
	}
	opt := tsdb.NewEngineOptions()
	opt.IndexVersion = tsdb.TSI1IndexName
	opt.Config.WALDir = filepath.Join(root, "wal")
	opt.CompactionDisabled = true
	opt.MetricsDisabled = true
	opt.SeriesIDSets = seriesIDSets([]*tsdb.SeriesIDSet{tsdb.NewSeriesIDSet()})
	sh := tsdb.NewShard(1, filepath.Join(root, "data", "db0", "rp0", "1"), filepath.Join(root, "wal", "db0", "rp0", "1"), gsfile, opt)
	if err := sh.Open(context.Background()); err != nil {
		return nil, root, err
	}
	return sh, root, nil
}

func (e *eng) ensureSchema(ss []int) error {
	mf := e.MeasurementFields([]byte("m"))
	mf.CreateFieldIfNotExists("f0", influxql.Integer)
	mf.CreateFieldIfNotExists("f1", influxql.Float)
	for _, s := range ss {
		if err := e.CreateSeriesIfNotExists(seriesKey(s), []byte("m"), seriesTags(s)); err != nil {
			return err
		}
	}
	return nil
}

func (e *eng) close() {
	e.Engine.Close(false)
	if e.sfile != nil {
		e.idx.Close()
		e.sfile.Close()
	}
	os.RemoveAll(e.root)
}

func seriesTags(s int) models.Tags { return models.NewTags(map[string]string{"s": fmt.Sprint(s)}) }
func seriesKey(s int) []byte       { return models.MakeKey([]byte("m"), seriesTags(s)) }

// modelKey maps a TSM composite key back to the model key (-1 if foreign).
func modelKey(ck []byte) int {
	sk, field := tsm1.SeriesAndFieldFromCompositeKey(ck)
	for s := 0; s < nSeries; s++ {
		if bytes.Equal(sk, seriesKey(s)) {
			for f := 0; f < nFields; f++ {
				if string(field) == fmt.Sprintf("f%d", f) {
					return s*nFields + f
				}
			}
		}
	}
	return -1
}

func (e *eng) readKey(key int) ([][2]int64, error) {
	s, f := key/nFields, key%nFields
	itr, err := e.CreateCursorIterator(context.Background())
	if err != nil {
		return nil, err
	}
	cur, err := itr.Next(context.Background(), &cursors.CursorRequest{
		Name: []byte("m"), Tags: seriesTags(s), Field: fmt.Sprintf("f%d", f),
		Ascending: true, StartTime: models.MinNanoTime, EndTime: models.MaxNanoTime,
	})
	if err != nil {
		return nil, err
	}
	res := [][2]int64{}
	if cur == nil {
		return res, nil
	}
	defer cur.Close()
	switch c := cur.(type) {
	case cursors.IntegerArrayCursor:
		for {
			a := c.Next()
			if a.Len() == 0 {
				break
			}
			for i := range a.Timestamps {
				res = append(res, [2]int64{a.Timestamps[i], a.Values[i]})
			}
		}
	case cursors.FloatArrayCursor:
		for {
			a := c.Next()
			if a.Len() == 0 {
				break
			}
			for i := range a.Timestamps {
				if a.Values[i] != math.Trunc(a.Values[i]) {
					return nil, fmt.Errorf("non-integral float read back")
				}
				res = append(res, [2]int64{a.Timestamps[i], int64(a.Values[i])})
			}
		}
	default:
		return nil, fmt.Errorf("unexpected cursor type %T", cur)
	}
	return res, cur.Err()
}

func (e *eng) readAll() ([][][2]int64, error) {
	out := make([][][2]int64, nSeries*nFields)
	for k := range out {
		r, err := e.readKey(k)
		if err != nil {
			return nil, err
		}
		out[k] = r
	}
	return out, nil
}

func (e *eng) tsmPaths() []string {
	var paths []string
	for _, f := range e.FileStore.Files() {
		paths = append(paths, f.Path())
	}
	sort.Strings(paths)
	return paths
}

func tombPath(tsm string) string { return strings.TrimSuffix(tsm, ".tsm") + ".tombstone" }

// blocksOf reads the physical block layout of TSM bytes at path (opened WITHOUT any
// tombstone file: path must be alone in its directory).
func blocksOf(path string) ([]jblock, error) {
	f, err := os.Open(path)
	if err != nil {
		return nil, err
	}
	r, err := tsm1.NewTSMReader(f)
	if err != nil {
		f.Close()
		return nil, err
	}
	defer r.Close()
	var out []jblock
	bi := r.BlockIterator()
	for bi.Next() {
		key, _, _, _, _, buf, err := bi.Read()
		if err != nil {
			return nil, err
		}
		vals, err := tsm1.DecodeBlock(buf, nil)
		if err != nil {
			return nil, err
		}
		b := jblock{Key: modelKey(key), Pts: [][2]int64{}}
		for _, v := range vals {
			switch x := v.Value().(type) {
			case int64:
				b.Pts = append(b.Pts, [2]int64{v.UnixNano(), x})
			case float64:
				b.Pts = append(b.Pts, [2]int64{v.UnixNano(), int64(x)})
			default:
				return nil, fmt.Errorf("unexpected value type %T", x)
			}
		}
		out = append(out, b)
	}
	return out, bi.Err()
}

func blocksOfBytes(data []byte) ([]jblock, error) {
	dir, err := os.MkdirTemp("", "verif-c38-m-")
	if err != nil {
		return nil, err
	}
	defer os.RemoveAll(dir)
	p := filepath.Join(dir, "000000001-000000001.tsm")
	if err := os.WriteFile(p, data, 0o666); err != nil {
		return nil, err
	}
	return blocksOf(p)
}

func (e *eng) exec(st *jstep) {
	st.OK, st.Err = true, ""
	fail := func(err error) {
		if err != nil {
			st.OK = false
			st.Err = err.Error()
		}
	}
	switch st.Op {
	case "write":
		var pts []models.Point
		var ss []int
		for _, p := range st.Points {
			var fields models.Fields
			if p.Field == 0 {
				fields = models.Fields{"f0": p.V}
			} else {
				fields = models.Fields{"f1": float64(p.V)}
			}
			pt, err := models.NewPoint("m", seriesTags(p.Series), fields, time.Unix(0, p.T))
			if err != nil {
				fail(err)
				return
			}
			pts = append(pts, pt)
			ss = append(ss, p.Series)
		}
		if err := e.ensureSchema(ss); err != nil {
			fail(err)
			return
		}
		fail(e.WritePoints(context.Background(), pts))
	case "snap":
		fail(e.WriteSnapshot())
	case "compact":
		paths := e.tsmPaths()
		if st.N < 1 || st.I+st.N > len(paths) {
			st.OK = false
			return
		}
		group := paths[st.I : st.I+st.N]
		out, err := e.Compactor.CompactFull(group, zap.NewNop(), 3) // tiny blocks: several blocks per key
		if err != nil {
			fail(err)
			return
		}
		fail(e.FileStore.Replace(group, out))
	case "delete":
		var keys [][]byte
		for _, s := range st.Series {
			keys = append(keys, seriesKey(s))
		}
		fail(e.DeleteSeriesRange(context.Background(), &seriesIterator{keys: keys}, st.Lo, st.Hi))
	}
}

// untar returns the members of a (possibly truncated) tar stream.
func untar(data []byte) (names []string, bodies [][]byte) {
	tr := tar.NewReader(bytes.NewReader(data))
	for {
		h, err := tr.Next()
		if err != nil {
			return
		}
		b, _ := io.ReadAll(tr)
		names = append(names, h.Name)
		bodies = append(bodies, b)
	}
}

func errClass(err error) string {
	if err == nil {
		return ""
	}
	s := err.Error()
	switch {
	case strings.Contains(s, "no such file"):
		return "no-such-file"
	case strings.Contains(s, "no values written"):
		return "no-values"
	case strings.Contains(s, "snapshots disabled"):
		return "snapshots-disabled"
	}
	return "other: " + s
}

func runCase(w *vh.W, c *jcase) {
	var failure string
	a, err := openEngine(false, true)
	if err != nil {
		fmt.Fprintln(os.Stderr, "open engine:", err)
		os.Exit(3)
	}
	defer a.close()
	for i := range c.Steps {
		st := &c.Steps[i]
		if p := vh.Guard(func() { a.exec(st) }); p != "" {
			failure = fmt.Sprintf("panic at step %d (%s): %s", i, st.Op, p)
			break
		}
		if st.Err != "" {
			failure = fmt.Sprintf("step %d (%s) returned error: %s", i, st.Op, st.Err)
		}
	}
	// explicit mtimes (logical ranks) on every TSM / tombstone file present before the action
	before := a.tsmPaths()
	rank := map[string]int64{}
	trank := map[string]int64{}
	for i, p := range before {
		r, tr := int64(1), int64(1)
		if i < len(c.Mts) {
			r = c.Mts[i]
		}
		if i < len(c.TombMts) {
			tr = c.TombMts[i]
		}
		setMtime(p, r)
		rank[p] = r
		if _, err := os.Stat(tombPath(p)); err == nil {
			setMtime(tombPath(p), tr)
			trank[p] = tr
		}
	}
	hadTomb := len(trank) > 0

	var buf bytes.Buffer
	var aerr error
	c.Err, c.RestoreErr, c.Members, c.Files, c.SeriesB = "", "", []jmember{}, []jfile{}, nil
	attempt := func() error {
		var err error
		if p := vh.Guard(func() {
			if c.Action == "backup" {
				err = a.Backup(&buf, "", rankTime(c.Since))
			} else {
				err = a.Export(&buf, "", time.Unix(0, c.Lo), time.Unix(0, c.Hi))
			}
		}); p != "" {
			failure = "panic in " + c.Action + ": " + p
		}
		return err
	}
	c.FirstErr = ""
	if c.SnapOff {
		// cache snapshots disabled: the forced snapshot of a non-empty cache must fail and the
		// action must report it (the caller retries); an archive returned with err == nil is
		// taken at face value below
		a.Compactor.DisableSnapshots()
		aerr = attempt()
		a.Compactor.EnableSnapshots()
		if aerr != nil {
			c.FirstErr = errClass(aerr)
			buf.Reset()
			aerr = attempt()
		}
	} else {
		aerr = attempt()
	}
	c.Err = errClass(aerr)

	// source files after the action (its snapshot may have added one) and their block layout
	after := a.tsmPaths()
	index := map[string]int{}
	ldir, _ := os.MkdirTemp("", "verif-c38-l-")
	for i, p := range after {
		index[filepath.Base(p)] = i
		jf := jfile{Name: filepath.Base(p), Mt: nowRank}
		if r, ok := rank[p]; ok {
			jf.Mt = r
		}
		if _, err := os.Stat(tombPath(p)); err == nil {
			tr := int64(nowRank)
			if r, ok := trank[p]; ok {
				tr = r
			}
			jf.Tomb = &tr
		}
		data, err := os.ReadFile(p)
		if err != nil {
			panic(err)
		}
		cp := filepath.Join(ldir, fmt.Sprintf("%09d-000000001.tsm", i+1))
		os.WriteFile(cp, data, 0o666)
		jf.Blocks, err = blocksOf(cp)
		if err != nil {
			failure = "cannot read layout of " + p + ": " + err.Error()
		}
		jf.View = jf.Blocks
		if jf.Tomb != nil { // the same file as a reader with its tombstones sees it
			vdir := filepath.Join(ldir, fmt.Sprintf("v%d", i))
			os.MkdirAll(vdir, 0o777)
			vp := filepath.Join(vdir, filepath.Base(cp))
			os.WriteFile(vp, data, 0o666)
			if td, err := os.ReadFile(tombPath(p)); err == nil {
				os.WriteFile(tombPath(vp), td, 0o666)
			}
			jf.View, err = blocksOf(vp)
			if err != nil {
				failure = "cannot read tombstoned layout of " + p + ": " + err.Error()
			}
		}
		c.Files = append(c.Files, jf)
	}
	os.RemoveAll(ldir)

	names, bodies := untar(buf.Bytes())
	if aerr == nil {
		for i, n := range names {
			m := jmember{Name: n, File: -1, Kind: 2}
			switch {
			case strings.HasSuffix(n, ".tsm"):
				m.Kind = 0
				if j, ok := index[n]; ok {
					m.File = j
				}
				if c.Action == "export" {
					bl, err := blocksOfBytes(bodies[i])
					if err != nil {
						failure = "archive member " + n + " is not a readable TSM file: " + err.Error()
					}
					m.Blocks = bl
				}
			case strings.HasSuffix(n, ".tombstone"):
				m.Kind = 1
				if j, ok := index[strings.TrimSuffix(n, ".tombstone")+".tsm"]; ok {
					m.File = j
				}
			}
			c.Members = append(c.Members, m)
		}
		sort.SliceStable(c.Members, func(i, j int) bool {
			x, y := c.Members[i], c.Members[j]
			if x.File != y.File {
				return x.File < y.File
			}
			return x.Kind < y.Kind
		})
	}

	if ra, err := a.readAll(); err != nil {
		failure = "read source: " + err.Error()
	} else {
		c.ReadA = ra
	}

	// restore / import into a fresh empty engine (own directory, no schema)
	c.ReadB = [][][2]int64{}
	if aerr == nil {
		if c.ViaShard {
			sh, root, err := openShardTarget()
			if err != nil {
				fmt.Fprintln(os.Stderr, "open shard:", err)
				os.Exit(3)
			}
			var rerr error
			if p := vh.Guard(func() {
				if c.Action == "backup" {
					rerr = sh.Restore(context.Background(), bytes.NewReader(buf.Bytes()), "")
				} else {
					rerr = sh.Import(bytes.NewReader(buf.Bytes()), "")
				}
			}); p != "" {
				failure = "panic in Shard.Restore/Import: " + p
			}
			c.RestoreErr = errClass(rerr)
			if te, err := sh.Engine(); err != nil {
				failure = "restored shard has no engine: " + err.Error()
			} else {
				b := &eng{Engine: te.(*tsm1.Engine)}
				if rb, err := b.readAll(); err != nil {
					failure = "read restored: " + err.Error()
				} else {
					c.ReadB = rb
				}
				n := sh.SeriesN()
				c.SeriesB = &n
			}
			sh.Close()
			os.RemoveAll(root)
		} else {
			b, err := openEngine(c.OwnIndex, false)
			if err != nil {
				fmt.Fprintln(os.Stderr, "open engine:", err)
				os.Exit(3)
			}
			var rerr error
			if p := vh.Guard(func() {
				if c.Action == "backup" {
					rerr = b.Restore(bytes.NewReader(buf.Bytes()), "")
				} else {
					rerr = b.Import(bytes.NewReader(buf.Bytes()), "")
				}
			}); p != "" {
				failure = "panic in restore/import: " + p
			}
			c.RestoreErr = errClass(rerr)
			if rb, err := b.readAll(); err != nil {
				failure = "read restored: " + err.Error()
			} else {
				c.ReadB = rb
			}
			if c.OwnIndex {
				n := b.SeriesN()
				c.SeriesB = &n
			}
			b.close()
		}
	}

	// ---- known-finding shapes, decided from the state before the action and the request.
	// Repaired (no signature any more, a regression is a VIOLATION): restore of a
	// tombstoned shard, export of a tombstoned shard, export of a file overlapping the
	// range with no block in it.
	sig := ""
	if c.Action == "export" {
		partial := false
		for _, f := range c.Files {
			for _, b := range f.Blocks {
				if len(b.Pts) == 0 {
					continue
				}
				bmin, bmax := b.Pts[0][0], b.Pts[len(b.Pts)-1][0]
				if bmin <= c.Hi && bmax >= c.Lo && (bmin < c.Lo || bmax > c.Hi) {
					partial = true
				}
			}
		}
		switch {
		case hadTomb || anyTomb(c.Files):
			sig = "import-drops-tombstones" // Import (asNew) does not install tombstone members
		case partial:
			sig = "export-block-granularity"
		}
	}
	if probeFailure != "" && w.Len() == 0 {
		failure = probeFailure
	}

	writes, deletes, compacts := 0, 0, 0
	for _, st := range c.Steps {
		w.Count("op", st.Op)
		switch st.Op {
		case "write":
			writes++
		case "delete":
			deletes++
		case "compact":
			compacts++
		}
	}
	npts := 0
	for _, r := range c.ReadA {
		npts += len(r)
	}
	nontrivial := writes >= 2 && len(c.Files) >= 1 && npts >= 1
	idx := w.Add(caseTerm(c), c, nontrivial, sig)
	if failure != "" {
		w.Fail(idx, failure, "")
	}
	w.Count("snapshots_off", fmt.Sprintf("%v first_err=%q", c.SnapOff, c.FirstErr))
	w.Count("action", c.Action)
	w.Count("target", map[bool]string{false: "engine", true: "shard"}[c.ViaShard])
	w.Count("nfiles", fmt.Sprint(len(c.Files)))
	w.Count("members", fmt.Sprint(len(c.Members)))
	if c.Action == "export" && c.Err == "" && noBlockShape(c) {
		w.Count("repaired_shape", "export-no-block-in-range")
	}
	if hadTomb {
		w.Count("repaired_shape", c.Action+"-of-tombstoned-shard")
	}
	w.Count("err", c.Err)
	w.Count("restore_err", c.RestoreErr)
	w.Count("shape", sig)
	w.Count("tombstone_files", fmt.Sprint(hadTomb))
}

// probeTruncated checks that both restore entry points reject a backup archive cut in the
// middle of a TSM member (Shard.Restore used to swallow the engine's error).
func probeTruncated(w *vh.W) {
	a, err := openEngine(false, true)
	if err != nil {
		return
	}
	defer a.close()
	st := jstep{Op: "write", Points: []jpoint{{0, 0, 1, 1}, {1, 1, 2, 2}}}
	a.exec(&st)
	var buf bytes.Buffer
	if err := a.Backup(&buf, "", time.Time{}); err != nil {
		return
	}
	cut := buf.Bytes()[:512+20] // the tar header and 20 bytes of the TSM body
	b, err := openEngine(false, false)
	if err != nil {
		return
	}
	eerr := b.Restore(bytes.NewReader(cut), "")
	b.close()
	sh, root, err := openShardTarget()
	if err != nil {
		return
	}
	serr := sh.Restore(context.Background(), bytes.NewReader(cut), "")
	sh.Close()
	os.RemoveAll(root)
	w.Extra["truncated_archive_engine_restore_err"] = fmt.Sprint(eerr)
	w.Extra["truncated_archive_shard_restore_err"] = fmt.Sprint(serr)
	if eerr == nil {
		probeFailure = "Engine.Restore accepted a backup archive truncated inside a TSM member"
	} else if serr == nil {
		probeFailure = "Shard.Restore returned nil for a truncated backup archive that Engine.Restore rejects (" + eerr.Error() + "): a failed restore is reported as a success"
	}
}

// set by probeTruncated, reported as an implementation failure on the first case
var probeFailure string

// noBlockShape: some file's [min,max] meets the range but none of its blocks does.
func noBlockShape(c *jcase) bool {
	for _, f := range c.Files {
		fmin, fmax, any, overl := int64(math.MaxInt64), int64(math.MinInt64), false, false
		for _, b := range f.Blocks {
			if len(b.Pts) == 0 {
				continue
			}
			any = true
			bmin, bmax := b.Pts[0][0], b.Pts[len(b.Pts)-1][0]
			if bmin < fmin {
				fmin = bmin
			}
			if bmax > fmax {
				fmax = bmax
			}
			if bmin <= c.Hi && bmax >= c.Lo {
				overl = true
			}
		}
		if any && fmin <= c.Hi && fmax >= c.Lo && !overl {
			return true
		}
	}
	return false
}

func anyTomb(fs []jfile) bool {
	for _, f := range fs {
		if f.Tomb != nil {
			return true
		}
	}
	return false
}

// ---- Gallina rendering ----
func zz(r [][2]int64) string {
	xs := make([]string, len(r))
	for i, p := range r {
		xs[i] = vh.Pair(vh.Z(p[0]), vh.Z(p[1]))
	}
	return vh.List(xs)
}
func zzs(rs [][][2]int64) string {
	xs := make([]string, len(rs))
	for i, r := range rs {
		xs[i] = zz(r)
	}
	return vh.List(xs)
}
func blocksTerm(bs []jblock) string {
	xs := make([]string, len(bs))
	for i, b := range bs {
		k := uint64(99)
		if b.Key >= 0 {
			k = uint64(b.Key)
		}
		xs[i] = vh.Pair(vh.N(k), zz(b.Pts))
	}
	return vh.List(xs)
}
func optZ(p *int64) string {
	if p == nil {
		return "None"
	}
	return vh.Some(vh.Z(*p))
}
func errCode(s string) string {
	switch s {
	case "":
		return "0%N"
	case "no-such-file":
		return "1%N"
	case "no-values":
		return "2%N"
	case "snapshots-disabled":
		return "3%N"
	}
	return "9%N"
}

func caseTerm(c *jcase) string {
	var ops []string
	for i := range c.Steps {
		st := &c.Steps[i]
		switch st.Op {
		case "write":
			xs := make([]string, len(st.Points))
			for i, p := range st.Points {
				xs[i] = fmt.Sprintf("(%s, %s, %s)", vh.N(uint64(p.Series*nFields+p.Field)), vh.Z(p.T), vh.Z(p.V))
			}
			ops = append(ops, fmt.Sprintf("(Write %s, %s)", vh.List(xs), vh.Bool(st.OK)))
		case "snap":
			ops = append(ops, fmt.Sprintf("(SnapBegin, %s)", vh.Bool(st.OK)), fmt.Sprintf("(SnapCommit, %s)", vh.Bool(st.OK)))
		case "compact":
			ops = append(ops, fmt.Sprintf("(Compact %s %s, %s)", vh.Nat(st.I), vh.Nat(st.N), vh.Bool(st.OK)))
		case "delete":
			var ks []string
			for _, s := range st.Series {
				for f := 0; f < nFields; f++ {
					ks = append(ks, vh.N(uint64(s*nFields+f)))
				}
			}
			ops = append(ops, fmt.Sprintf("(Delete %s %s %s, %s)", vh.List(ks), vh.Z(st.Lo), vh.Z(st.Hi), vh.Bool(st.OK)))
		}
	}
	files := make([]string, len(c.Files))
	for i, f := range c.Files {
		files[i] = fmt.Sprintf("{| o_mt := %s; o_tomb := %s; o_blocks := %s; o_view := %s |}", vh.Z(f.Mt), optZ(f.Tomb), blocksTerm(f.Blocks), blocksTerm(f.View))
	}
	mem := make([]string, len(c.Members))
	for i, m := range c.Members {
		fi := "None"
		if m.File >= 0 {
			fi = vh.Some(vh.Nat(m.File))
		}
		mem[i] = fmt.Sprintf("{| m_file := %s; m_kind := %d%%N; m_blocks := %s |}", fi, m.Kind, blocksTerm(m.Blocks))
	}
	act := fmt.Sprintf("ABackup %s", vh.Z(c.Since))
	if c.Action == "export" {
		act = fmt.Sprintf("AExport %s %s", vh.Z(c.Lo), vh.Z(c.Hi))
	}
	ser := "None"
	if c.SeriesB != nil {
		ser = vh.Some(vh.N(uint64(*c.SeriesB)))
	}
	return fmt.Sprintf("{| c_hist := %s; c_act := %s; c_snapoff := %s; c_err1 := %s; c_files := %s; c_err := %s; c_members := %s; c_rerr := %s; c_readA := %s; c_readB := %s; c_seriesB := %s |}",
		vh.List(ops), act, vh.Bool(c.SnapOff), errCode(c.FirstErr), vh.List(files), errCode(c.Err), vh.List(mem), errCode(c.RestoreErr), zzs(c.ReadA), zzs(c.ReadB), ser)
}

// ---- generation ----
func gen(w *vh.W) jcase {
	r := w.Rng
	var c jcase
	tdom := 12
	n := 4 + r.IntN(12)
	nfiles := 0
	for len(c.Steps) < n {
		x := r.IntN(100)
		switch {
		case x < 45:
			k := 1 + r.IntN(6)
			st := jstep{Op: "write"}
			for i := 0; i < k; i++ {
				st.Points = append(st.Points, jpoint{Series: r.IntN(nSeries), Field: r.IntN(nFields), T: int64(r.IntN(tdom)), V: int64(r.IntN(1000))})
			}
			if r.IntN(4) == 0 { // a long run of one key: several blocks after CompactFull(ppb=3)
				s, f := r.IntN(nSeries), r.IntN(nFields)
				for t := 0; t < tdom; t++ {
					if r.IntN(4) != 0 {
						st.Points = append(st.Points, jpoint{Series: s, Field: f, T: int64(t), V: int64(r.IntN(1000))})
					}
				}
			}
			c.Steps = append(c.Steps, st)
		case x < 65:
			c.Steps = append(c.Steps, jstep{Op: "snap"})
			nfiles++
		case x < 80:
			i, k := r.IntN(3), 1+r.IntN(3)
			if nfiles > 0 && r.IntN(2) == 0 {
				i, k = 0, nfiles
			}
			c.Steps = append(c.Steps, jstep{Op: "compact", I: i, N: k})
		case x < 90:
			lo, hi := int64(r.IntN(tdom)), int64(r.IntN(tdom))
			if lo > hi && r.IntN(4) != 0 {
				lo, hi = hi, lo
			}
			var ss []int
			for s := 0; s < nSeries; s++ {
				if r.IntN(2) == 0 {
					ss = append(ss, s)
				}
			}
			if len(ss) == 0 {
				ss = []int{r.IntN(nSeries)}
			}
			c.Steps = append(c.Steps, jstep{Op: "delete", Series: ss, Lo: lo, Hi: hi})
		default:
			c.Steps = append(c.Steps, jstep{Op: "snap"}, jstep{Op: "compact", I: 0, N: 1 + nfiles})
			nfiles = 1
		}
	}
	// `since` and the mtimes around it: the same instant, 1ns before/after, earlier/later in
	// the same wall-clock second, the first/last nanosecond of that second, the previous and
	// the next second, far away.  Since == 0: full backup (every mtime is positive).
	S := int64(10+r.IntN(3)) * rankSec
	since := S + 100*rankMs
	switch r.IntN(6) {
	case 0:
		since = S // exactly on a second boundary
	case 1:
		since = S + 999*rankMs
	}
	if r.IntN(2) == 0 {
		since = 0
	}
	near := func() int64 {
		if since == 0 {
			return 1 + int64(r.IntN(5))*300*rankMs
		}
		offs := []int64{0, 1, -1, 500 * rankMs, -50 * rankMs, S - since, S - since - 1, rankSec, S + rankSec - since,
			S + rankSec - 1 - since, 5 * rankSec, -5 * rankSec, 40 * rankMs, 2}
		return since + offs[r.IntN(len(offs))]
	}
	for i := 0; i < 12; i++ {
		c.Mts = append(c.Mts, near())
		c.TombMts = append(c.TombMts, near())
	}
	c.OwnIndex = r.IntN(3) == 0
	c.ViaShard = r.IntN(3) == 0
	if r.IntN(4) == 0 { // action with cache snapshots disabled, mostly with data in the cache
		c.SnapOff = true
		if r.IntN(4) != 0 {
			c.Steps = append(c.Steps, jstep{Op: "write", Points: []jpoint{{Series: r.IntN(nSeries), Field: r.IntN(nFields), T: int64(r.IntN(tdom)), V: int64(r.IntN(1000))}}})
		}
	}
	if r.IntN(2) == 0 {
		c.Action = "backup"
		c.Since = since
	} else {
		c.Action = "export"
		c.Lo, c.Hi = int64(r.IntN(tdom+2))-1, int64(r.IntN(tdom+2))-1
		if c.Lo > c.Hi { // a time range: lo <= hi (inverted ranges are outside the property)
			c.Lo, c.Hi = c.Hi, c.Lo
		}
		switch r.IntN(8) {
		case 0:
			c.Lo, c.Hi = models.MinNanoTime, models.MaxNanoTime
		case 1:
			c.Lo, c.Hi = 0, int64(tdom-1)
		}
	}
	return c
}

func corpus() []jcase {
	wr := func(ps ...jpoint) jstep { return jstep{Op: "write", Points: ps} }
	run := func(s, f int, ts ...int64) jstep {
		st := jstep{Op: "write"}
		for _, t := range ts {
			st.Points = append(st.Points, jpoint{s, f, t, 100 + t})
		}
		return st
	}
	snap := jstep{Op: "snap"}
	mts := []int64{2, 4, 3, 1, 5, 2, 2, 2, 2, 2, 2, 2} // nanoseconds: all within one wall-clock second
	base := func(steps ...jstep) jcase { return jcase{Steps: steps, Mts: mts, TombMts: mts, OwnIndex: true} }
	bk := func(since int64, steps ...jstep) jcase {
		c := base(steps...)
		c.Action, c.Since = "backup", since
		return c
	}
	// sameSecond: file i gets mtime ms[i]; a tombstone file gets the LAST entry of ms
	sameSecond := func(since int64, ms []int64, steps ...jstep) jcase {
		c := bk(since, steps...)
		c.Mts = append(append([]int64{}, ms...), ms[len(ms)-1], ms[len(ms)-1])
		c.TombMts = []int64{ms[len(ms)-1], ms[len(ms)-1], ms[len(ms)-1]}
		return c
	}
	ex := func(lo, hi int64, steps ...jstep) jcase {
		c := base(steps...)
		c.Action, c.Lo, c.Hi = "export", lo, hi
		return c
	}
	viaShard := func(c jcase) jcase { c.ViaShard = true; return c }
	snapOff := func(c jcase) jcase { c.SnapOff = true; return c }
	two := []jstep{wr(jpoint{0, 0, 5, 10}, jpoint{1, 1, 3, 30}), snap, wr(jpoint{0, 0, 5, 11}, jpoint{0, 1, 7, 1}), snap, wr(jpoint{1, 0, 2, 12})}
	// two interleaved files merged by CompactFull(ppb=3): blocks [0..2][3..5][6..8]
	long := []jstep{run(0, 0, 0, 2, 4, 6, 8), snap, run(0, 0, 1, 3, 5, 7), snap, {Op: "compact", I: 0, N: 2}}
	return []jcase{
		bk(0, two...), // full backup: two files + the cache
		viaShard(bk(0, two...)),
		viaShard(bk(0, wr(jpoint{0, 0, 5, 7}, jpoint{1, 0, 5, 8}), snap, jstep{Op: "delete", Series: []int{0}, Lo: 0, Hi: 9})),
		viaShard(ex(3, 5, long...)),
		// snapshots disabled (Shard.Free / SetCompactionsEnabled(false)) with data only in the
		// cache: the backup must fail, the retry after re-enabling must be complete
		snapOff(bk(0, two...)),
		snapOff(viaShard(bk(0, wr(jpoint{1, 1, 4, 44})))),
		snapOff(bk(0, wr(jpoint{0, 0, 5, 10}), snap)), // empty cache: nothing to snapshot, no error
		snapOff(ex(0, 9, two...)),
		// incremental, since = S+100ms: file 0 changed 500ms later in the SAME second, file 1 in
		// the next second; then file 0 exactly at since / 1ns after / in the previous second
		sameSecond(10*rankSec+100*rankMs, []int64{10*rankSec + 600*rankMs, 11*rankSec + 1}, two...),
		sameSecond(10*rankSec+100*rankMs, []int64{10*rankSec + 100*rankMs, 10*rankSec + 100*rankMs + 1}, two...),
		sameSecond(10*rankSec+100*rankMs, []int64{10*rankSec - 1, 10 * rankSec}, two...),
		sameSecond(10*rankSec, []int64{10*rankSec + 999*rankMs, 10 * rankSec}, two...),
		// a tombstone written later in the same second as since
		sameSecond(10*rankSec+100*rankMs, []int64{9 * rankSec, 10*rankSec + 600*rankMs}, wr(jpoint{0, 0, 5, 7}, jpoint{1, 0, 5, 8}), snap, jstep{Op: "delete", Series: []int{0}, Lo: 0, Hi: 9}),
		bk(2, two...), // incremental: since == mtime of file 0 (strict >)
		bk(3, two...), // incremental
		bk(4, two...), // since == newest explicit mtime: only the fresh snapshot file
		// (a) tombstone not restored: deleted point comes back
		bk(0, wr(jpoint{0, 0, 5, 7}, jpoint{1, 0, 5, 8}), snap, jstep{Op: "delete", Series: []int{0}, Lo: 0, Hi: 9}),
		// tombstone present but compacted away before the backup: fine
		bk(0, wr(jpoint{0, 0, 5, 7}, jpoint{1, 0, 5, 8}), snap, jstep{Op: "delete", Series: []int{0}, Lo: 0, Hi: 9}, jstep{Op: "compact", I: 0, N: 1}),
		// (b) export of a shard with a tombstoned file
		ex(0, 9, wr(jpoint{0, 0, 5, 7}, jpoint{1, 0, 5, 8}, jpoint{0, 0, 6, 1}), snap, jstep{Op: "delete", Series: []int{0}, Lo: 5, Hi: 5}),
		// (c) block granularity: blocks [0..2][3..5][6..8], range 4..4
		ex(4, 4, long...),
		ex(3, 5, long...),  // aligned with a block
		ex(0, 8, long...),  // min == lo && max == hi: both branches
		ex(0, 20, long...), // whole file inside
		ex(-5, 3, long...), // overlap left
		ex(8, 20, long...), // overlap right, one point
		ex(9, 20, long...), // disjoint
		// file overlaps the range but no block does: keys with gaps
		ex(4, 5, wr(jpoint{0, 0, 0, 1}, jpoint{0, 0, 1, 2}, jpoint{1, 0, 10, 3}), snap),
		ex(4, 5, two...),
		// a compaction whose input is entirely deleted leaves no file
		bk(0, wr(jpoint{0, 0, 5, 7}), snap, jstep{Op: "delete", Series: []int{0}, Lo: 0, Hi: 9}, jstep{Op: "compact", I: 0, N: 1}, wr(jpoint{1, 0, 1, 1}), snap, wr(jpoint{1, 1, 2, 2}), snap, jstep{Op: "compact", I: 0, N: 2}),
		// export over a multi-key multi-block file
		ex(2, 6, run(0, 0, 0, 2, 4, 6, 8), run(1, 1, 1, 5, 9), snap, run(0, 0, 1, 3, 5, 7), run(1, 1, 2, 6, 10), snap, jstep{Op: "compact", I: 0, N: 2}),
	}
}

func main() {
	w := vh.New("C38", "From Verif Require Import Base.Prelude Model.C01 Model.C38.", "C38.case", "C38.check")
	w.Rule = "random histories (4-16 ops) over 2 series x 2 fields x timestamps 0..11: writes (1-6 points, sometimes a long run of one key), snapshots, CompactFull(ppb=3) of contiguous file runs + Replace, series range deletes (tombstone files); then file and tombstone mtimes are set (os.Chtimes, nanosecond ranks after a fixed base) around the chosen `since` = S+100ms / S / S+999ms — equal to since, 1ns before/after, earlier/later in the same wall-clock second, first/last nanosecond of that second, previous/next second, 5s away — and either Backup(since; 0 = full) + Restore into a fresh empty engine, or Export(lo<=hi in -1..12, or the full domain) + Import into a fresh empty engine; 1/4 of the actions are first attempted with cache snapshots disabled (Compactor.DisableSnapshots, mostly with points only in the cache) and retried after re-enabling if they fail; the target is a bare tsm1.Engine (Engine.Restore/Import; 1/3 with a series file + index of its own) or, 1/3 of the cases, a tsdb.Shard (Shard.Restore = restore + close + reopen, Shard.Import — what Store.RestoreShard/ImportShard call); every key is read back from both sides. 20 hand-picked cases first (since == mtime boundaries, tombstones, block-aligned / straddling / disjoint / min=lo&max=hi export ranges, a file overlapping the range with no block in it, an entirely deleted compaction). Non-trivial: >=2 writes, >=1 TSM file and >=1 readable point. Distinct: distinct Gallina terms."
	openShared()
	defer closeShared()
	var rc jcase
	if w.ReplayCase(&rc) {
		runCase(w, &rc)
		w.Finish()
		return
	}
	probeTruncated(w)
	for _, c := range corpus() {
		c := c
		if w.Len() < w.N {
			runCase(w, &c)
		}
	}
	for w.Len() < w.N {
		c := gen(w)
		runCase(w, &c)
	}
	w.Finish()
}
