// C08 driver: real tsm1.NewTSMWriter / NewTSMReader / Tombstoner on generated files.
//
// Case kinds (Gallina type `case` of coq/Model/C08.v):
//
//	file  : a sequence of WriteBlock/Write calls -> statuses, the file bytes, and what the real
//	        reader reads back (keys, types, index entries, checksums, block bytes)
//	idx   : a file is written and opened; every lookup of the reader is called on present / absent /
//	        neighbouring keys and times, then DeleteRange / Delete batches and reopen, with lookups
//	        (ContainsValue, ReadAll, TombstoneRange, HasTombstones, ...) after each
//	tomb  : raw Tombstoner AddRange*/Flush batches -> header, decompressed gzip members, Walk
//	crash : crash points of the tombstone commit simulated on directory copies (+ truncated .tmp),
//	        recovery (remove *.tmp) and reopen with the real reader
//	limit : key-length / block-count limits of the writer (65535)
package main

import (
	"bytes"
	"compress/gzip"
	"encoding/hex"
	"errors"
	"fmt"
	"hash/crc32"
	"io"
	"math"
	"os"
	"path/filepath"
	"sort"
	"strings"

	"github.com/influxdata/influxdb/v2/tsdb/engine/tsm1"
	"verifh/vh"
)

const (
	sigSeek = "seek-past-last-key"
)

type jcall struct {
	Key    string  `json:"key"`
	Typ    int     `json:"typ"` // 0 float 1 int 2 bool 3 string 4 unsigned; 9 = invalid block type; -1 = empty block
	Times  []int64 `json:"times"`
	UseW   bool    `json:"use_write,omitempty"` // Write(key, values) instead of WriteBlock
	Status int     `json:"impl_status"`
}
type fkey struct {
	Key    string    `json:"key"`
	Typ    int       `json:"typ"`
	Blocks [][]int64 `json:"blocks"`
}
type jop struct {
	Op   string      `json:"op"`
	Keys []string    `json:"keys,omitempty"`
	Key  string      `json:"key,omitempty"`
	B    string      `json:"b,omitempty"`
	Lo   int64       `json:"lo,omitempty"`
	Hi   int64       `json:"hi,omitempty"`
	T    int64       `json:"t,omitempty"`
	I    int64       `json:"i,omitempty"`
	Res  interface{} `json:"impl,omitempty"`
}
type jtrec struct {
	Key string `json:"key"`
	Min int64  `json:"min"`
	Max int64  `json:"max"`
}
type jcase struct {
	Kind string `json:"kind"`
	// file
	Calls []jcall `json:"calls,omitempty"`
	File  string  `json:"impl_file_hex,omitempty"`
	Read  string  `json:"impl_read,omitempty"`
	// idx
	Keys []fkey `json:"file_keys,omitempty"`
	Ops  []jop  `json:"ops,omitempty"`
	// tomb / crash
	Batches [][]jtrec `json:"batches,omitempty"`
	Old     [][]jtrec `json:"old,omitempty"`
	New     []jtrec   `json:"new,omitempty"`
	Step    int       `json:"step,omitempty"`
	Variant int       `json:"variant,omitempty"`
	Cut     int       `json:"cut_permille,omitempty"`
	NoRecov bool      `json:"no_recovery,omitempty"`
	Walk    string    `json:"impl_walk,omitempty"`
	Note    string    `json:"note,omitempty"`
	// limit
	Klen int `json:"klen,omitempty"`
	Blen int `json:"blen,omitempty"`
	Cnt  int `json:"cnt,omitempty"`
}

var tmpRoot string
var dirSeq int

func newDir() string {
	dirSeq++
	d := filepath.Join(tmpRoot, fmt.Sprintf("d%06d", dirSeq))
	must(os.MkdirAll(d, 0o755))
	return d
}
func must(err error) {
	if err != nil {
		fmt.Fprintln(os.Stderr, "driver error:", err)
		os.Exit(3)
	}
}

// ---------- Gallina rendering ----------
// bytes as 8-byte hexadecimal words decoded in Coq by Model.C08.hb (far cheaper to parse than a list of bytes)
func bB(b []byte) string {
	if len(b) == 0 {
		return "[]"
	}
	var ws []string
	last := 8
	for i := 0; i < len(b); i += 8 {
		j := i + 8
		if j > len(b) {
			j = len(b)
			last = j - i
		}
		ws = append(ws, fmt.Sprintf("0x%x%%N", b[i:j]))
	}
	return fmt.Sprintf("(hb [%s] %d)", strings.Join(ws, ";"), last)
}
func kB(s string) string { return bB([]byte(s)) }
func entryT(e tsm1.IndexEntry) string {
	return fmt.Sprintf("(E %s %s %s %s)", vh.Z(e.MinTime), vh.Z(e.MaxTime), vh.N(uint64(e.Offset)), vh.N(uint64(e.Size)))
}
func trecT(t jtrec) string { return fmt.Sprintf("(T %s %s %s)", kB(t.Key), vh.Z(t.Min), vh.Z(t.Max)) }
func trecsT(ts []jtrec) string {
	xs := make([]string, len(ts))
	for i, t := range ts {
		xs[i] = trecT(t)
	}
	return vh.List(xs)
}
func membersT(ms [][]jtrec) string {
	xs := make([]string, len(ms))
	for i, m := range ms {
		xs[i] = trecsT(m)
	}
	return vh.List(xs)
}
func keysT(ks []string) string {
	xs := make([]string, len(ks))
	for i, k := range ks {
		xs[i] = kB(k)
	}
	return vh.List(xs)
}
func optT(ok bool, x string) string {
	if ok {
		return vh.Some(x)
	}
	return "None"
}

// ---------- values ----------
func mkValues(typ int, times []int64) tsm1.Values {
	vs := make(tsm1.Values, 0, len(times))
	for _, t := range times {
		switch typ {
		case 0:
			vs = append(vs, tsm1.NewFloatValue(t, float64(t%7)+0.5))
		case 1:
			vs = append(vs, tsm1.NewIntegerValue(t, t%5))
		case 2:
			vs = append(vs, tsm1.NewBooleanValue(t, t%2 == 0))
		case 3:
			vs = append(vs, tsm1.NewStringValue(t, "s"))
		default:
			vs = append(vs, tsm1.NewUnsignedValue(t, uint64(t&3)))
		}
	}
	return vs
}
func encodeBlock(typ int, times []int64) []byte {
	if typ == -1 || len(times) == 0 {
		return nil
	}
	if typ == 9 {
		return []byte{9, 1, 2}
	}
	b, err := mkValues(typ, times).Encode(nil)
	must(err)
	return b
}

func statusOf(err error) int {
	switch {
	case err == nil:
		return 0
	case errors.Is(err, tsm1.ErrMaxKeyLengthExceeded):
		return 1
	case errors.Is(err, tsm1.ErrMaxBlocksExceeded):
		return 2
	case strings.Contains(err.Error(), "unknown block type"):
		return 3
	}
	return 9
}

// ---------- kind: file ----------
func runFile(w *vh.W, c *jcase) {
	dir := newDir()
	path := filepath.Join(dir, "000000001-000000001.tsm")
	f, err := os.OpenFile(path, os.O_CREATE|os.O_RDWR, 0o666)
	must(err)
	tw, err := tsm1.NewTSMWriter(f)
	must(err)
	callTerms := []string{}
	statuses := []uint64{}
	hard := false
	for i := range c.Calls {
		cl := &c.Calls[i]
		blk := encodeBlock(cl.Typ, cl.Times)
		var mn, mx int64
		if len(cl.Times) > 0 {
			mn, mx = cl.Times[0], cl.Times[len(cl.Times)-1]
		}
		var werr error
		p := vh.Guard(func() {
			if cl.UseW && cl.Typ >= 0 && cl.Typ <= 4 {
				werr = tw.Write([]byte(cl.Key), mkValues(cl.Typ, cl.Times))
			} else {
				werr = tw.WriteBlock([]byte(cl.Key), mn, mx, blk)
			}
		})
		if p != "" {
			cl.Status = 4
		} else {
			cl.Status = statusOf(werr)
		}
		statuses = append(statuses, uint64(cl.Status))
		callTerms = append(callTerms, fmt.Sprintf("(%s, %s, %s, %s)", kB(cl.Key), vh.Z(mn), vh.Z(mx), bB(blk)))
		if cl.Status != 0 && cl.Status != 2 {
			hard = true
			c.Calls = c.Calls[:i+1]
			break
		}
	}
	fileT, readT := "None", "None"
	var werr error
	if !hard {
		werr = tw.WriteIndex()
	}
	if !hard && werr == nil {
		must(tw.Close())
		data, err := os.ReadFile(path)
		must(err)
		c.File = hex.EncodeToString(data)
		fileT = vh.Some(bB(data))
		rf, err := os.Open(path)
		must(err)
		var r *tsm1.TSMReader
		p := vh.Guard(func() { r, err = tsm1.NewTSMReader(rf) })
		if p != "" || err != nil {
			w.Fail(w.Len(), fmt.Sprintf("NewTSMReader failed on a file the writer produced: %v %v", p, err), "")
		} else {
			ks := []string{}
			var sb strings.Builder
			for i := 0; i < r.KeyCount(); i++ {
				key, typ, ents := r.Key(i, nil)
				bs := []string{}
				for _, e := range ents {
					e := e
					crc, blk, err := r.ReadBytes(&e, nil)
					if err != nil {
						w.Fail(w.Len(), fmt.Sprintf("ReadBytes: %v", err), "")
					}
					bs = append(bs, fmt.Sprintf("(%s, %s, %s)", entryT(e), vh.N(uint64(crc)), bB(blk)))
					fmt.Fprintf(&sb, "%q typ=%d [%d,%d] off=%d size=%d crc=%08x; ", key, typ, e.MinTime, e.MaxTime, e.Offset, e.Size, crc)
				}
				ks = append(ks, fmt.Sprintf("(%s, %s, %s)", bB(key), vh.N(uint64(typ)), vh.List(bs)))
			}
			readT = vh.Some(vh.List(ks))
			c.Read = sb.String()
			r.Close()
		}
	} else {
		vh.Guard(func() { tw.Close() })
	}
	os.RemoveAll(dir)
	t := fmt.Sprintf("CFile %s %s %s %s", vh.List(callTerms), vh.Ns(statuses), fileT, readT)
	w.Add(t, c, len(c.Calls) >= 2 && !hard, "")
	w.Count("kind", "file")
	w.Count("file_ok", fmt.Sprint(!hard && werr == nil))
}

// ---------- kind: idx ----------
func writeKeys(path string, keys []fkey) {
	f, err := os.OpenFile(path, os.O_CREATE|os.O_RDWR, 0o666)
	must(err)
	tw, err := tsm1.NewTSMWriter(f)
	must(err)
	for _, k := range keys {
		for bi, b := range k.Blocks {
			if bi%2 == 0 {
				must(tw.Write([]byte(k.Key), mkValues(k.Typ, b)))
			} else {
				must(tw.WriteBlock([]byte(k.Key), b[0], b[len(b)-1], encodeBlock(k.Typ, b)))
			}
		}
	}
	must(tw.WriteIndex())
	must(tw.Close())
}
func openReader(path string) (*tsm1.TSMReader, error) {
	f, err := os.Open(path)
	if err != nil {
		return nil, err
	}
	var r *tsm1.TSMReader
	p := vh.Guard(func() { r, err = tsm1.NewTSMReader(f) })
	if p != "" {
		return nil, fmt.Errorf("panic: %s", p)
	}
	return r, err
}
func bkeys(ks []string) [][]byte {
	out := make([][]byte, len(ks))
	for i, k := range ks {
		out[i] = []byte(k)
	}
	return out
}
func walkTomb(tsmPath string) ([]jtrec, error) {
	var out []jtrec
	err := tsm1.NewTombstoner(tsmPath, nil).Walk(func(t tsm1.Tombstone) error {
		out = append(out, jtrec{string(t.Key), t.Min, t.Max})
		return nil
	})
	return out, err
}

func runIdx(w *vh.W, c *jcase) {
	dir := newDir()
	defer os.RemoveAll(dir)
	path := filepath.Join(dir, "000000001-000000001.tsm")
	writeKeys(path, c.Keys)
	r, err := openReader(path)
	if err != nil {
		w.Fail(w.Len(), fmt.Sprintf("NewTSMReader failed on a freshly written file: %v", err), "")
		w.Add("CIdx [] [] []", c, false, "")
		return
	}
	// the parsed index as the reader sees it + Go-side read-back assertion against what was written
	allT := []string{}
	ptsT := []string{}
	ptsByOff := map[int64][]int64{}
	if r.KeyCount() != len(c.Keys) {
		w.Fail(w.Len(), fmt.Sprintf("KeyCount %d != %d keys written", r.KeyCount(), len(c.Keys)), "")
	}
	allNeg := true
	for i := 0; i < r.KeyCount(); i++ {
		key, typ, ents := r.Key(i, nil)
		es := []string{}
		if i < len(c.Keys) {
			if string(key) != c.Keys[i].Key || len(ents) != len(c.Keys[i].Blocks) {
				w.Fail(w.Len(), fmt.Sprintf("key %d read back as %q with %d entries, wrote %q with %d blocks", i, key, len(ents), c.Keys[i].Key, len(c.Keys[i].Blocks)), "")
			}
		}
		for bi, e := range ents {
			e := e
			es = append(es, entryT(e))
			vals, err := r.ReadAt(&e, nil)
			if err != nil {
				w.Fail(w.Len(), fmt.Sprintf("ReadAt: %v", err), "")
			}
			ts := make([]int64, len(vals))
			for j, v := range vals {
				ts[j] = v.UnixNano()
			}
			if i < len(c.Keys) && bi < len(c.Keys[i].Blocks) && fmt.Sprint(ts) != fmt.Sprint(c.Keys[i].Blocks[bi]) {
				w.Fail(w.Len(), fmt.Sprintf("block %d of key %q read back with times %v, wrote %v", bi, key, ts, c.Keys[i].Blocks[bi]), "")
			}
			ptsByOff[e.Offset] = ts
			ptsT = append(ptsT, fmt.Sprintf("(%s, %s)", vh.N(uint64(e.Offset)), vh.Zs(ts)))
			if e.MaxTime >= 0 {
				allNeg = false
			}
		}
		allT = append(allT, fmt.Sprintf("(IK %s %s %s)", bB(key), vh.N(uint64(typ)), vh.List(es)))
	}
	lastKey := c.Keys[len(c.Keys)-1].Key
	sig := ""
	if allNeg { // formerly the shape of finding timerange-max-negative (fixed): still generated, no longer tolerated
		w.Count("all_pre_epoch_file", "true")
	}
	fresh := true
	opsT := []string{}
	nmut := 0
	for i := range c.Ops {
		o := &c.Ops[i]
		var t string
		p := vh.Guard(func() {
			switch o.Op {
			case "DeleteRange":
				if err := r.DeleteRange(bkeys(o.Keys), o.Lo, o.Hi); err != nil {
					w.Fail(w.Len(), fmt.Sprintf("DeleteRange error: %v", err), "")
				}
				fresh = false
				nmut++
				t = fmt.Sprintf("ODeleteRange %s %s %s", keysT(o.Keys), vh.Z(o.Lo), vh.Z(o.Hi))
			case "Delete":
				if err := r.Delete(bkeys(o.Keys)); err != nil {
					w.Fail(w.Len(), fmt.Sprintf("Delete error: %v", err), "")
				}
				fresh = false
				nmut++
				t = fmt.Sprintf("ODelete %s", keysT(o.Keys))
			case "Reopen":
				r.Close()
				r, err = openReader(path)
				if err != nil {
					w.Fail(w.Len(), fmt.Sprintf("reopen failed: %v", err), "")
					panic("reopen failed")
				}
				t = "OReopen"
			case "Contains":
				v := r.Contains([]byte(o.Key))
				o.Res = v
				t = fmt.Sprintf("QContains %s %s", kB(o.Key), vh.Bool(v))
			case "ContainsValue":
				v := r.ContainsValue([]byte(o.Key), o.T)
				o.Res = v
				t = fmt.Sprintf("QContainsValue %s %s %s", kB(o.Key), vh.Z(o.T), vh.Bool(v))
			case "Seek":
				v := r.Seek([]byte(o.Key))
				o.Res = v
				if fresh && o.Key > lastKey && sig == "" {
					sig = sigSeek
				}
				t = fmt.Sprintf("QSeek %s %s", kB(o.Key), vh.N(uint64(v)))
			case "KeyAt":
				k, typ := r.KeyAt(int(o.I))
				o.Res = fmt.Sprintf("%q/%d", k, typ)
				t = fmt.Sprintf("QKeyAt %s %s", vh.Z(o.I), optT(k != nil, fmt.Sprintf("(%s, %s)", bB(k), vh.N(uint64(typ)))))
			case "Entries":
				var es []tsm1.IndexEntry
				if o.I == 1 {
					var buf []tsm1.IndexEntry
					es = r.ReadEntries([]byte(o.Key), &buf)
				} else {
					es = r.Entries([]byte(o.Key))
				}
				xs := make([]string, len(es))
				for j, e := range es {
					xs[j] = entryT(e)
				}
				o.Res = fmt.Sprint(es)
				t = fmt.Sprintf("QEntries %s %s", kB(o.Key), vh.List(xs))
			case "Entry": // via Read(key, t): the block of the entry that Entry(key,t) selects
				vals, err := r.Read([]byte(o.Key), o.T)
				if err != nil {
					w.Fail(w.Len(), fmt.Sprintf("Read error: %v", err), "")
				}
				found := false
				var fe tsm1.IndexEntry
				if len(vals) > 0 {
					for _, e := range r.Entries([]byte(o.Key)) {
						if p := ptsByOff[e.Offset]; len(p) > 0 && p[0] == vals[0].UnixNano() {
							found, fe = true, e
						}
					}
					if !found {
						w.Fail(w.Len(), "Read returned a block that is not a block of the key", "")
					}
				}
				o.Res = fmt.Sprint(found, fe)
				t = fmt.Sprintf("QEntry %s %s %s", kB(o.Key), vh.Z(o.T), optT(found, entryT(fe)))
			case "Type":
				ty, err := r.Type([]byte(o.Key))
				o.Res = fmt.Sprint(ty, err == nil)
				t = fmt.Sprintf("QType %s %s", kB(o.Key), optT(err == nil, vh.N(uint64(ty))))
			case "KeyCount":
				v := r.KeyCount()
				o.Res = v
				t = fmt.Sprintf("QKeyCount %s", vh.N(uint64(v)))
			case "TimeRange":
				a, b := r.TimeRange()
				o.Res = []int64{a, b}
				t = fmt.Sprintf("QTimeRange %s %s", vh.Z(a), vh.Z(b))
			case "KeyRange":
				a, b := r.KeyRange()
				o.Res = []string{string(a), string(b)}
				t = fmt.Sprintf("QKeyRange %s %s", bB(a), bB(b))
			case "OverlapsTime":
				v := r.OverlapsTimeRange(o.Lo, o.Hi)
				o.Res = v
				t = fmt.Sprintf("QOverlapsTime %s %s %s", vh.Z(o.Lo), vh.Z(o.Hi), vh.Bool(v))
			case "OverlapsKey":
				v := r.OverlapsKeyRange([]byte(o.Key), []byte(o.B))
				o.Res = v
				t = fmt.Sprintf("QOverlapsKey %s %s %s", kB(o.Key), kB(o.B), vh.Bool(v))
			case "TombRange":
				trs := r.TombstoneRange([]byte(o.Key))
				xs := make([]string, len(trs))
				for j, tr := range trs {
					xs[j] = fmt.Sprintf("(%s, %s)", vh.Z(tr.Min), vh.Z(tr.Max))
				}
				o.Res = fmt.Sprint(trs)
				t = fmt.Sprintf("QTombRange %s %s", kB(o.Key), vh.List(xs))
			case "HasTomb":
				v := r.HasTombstones()
				o.Res = v
				t = fmt.Sprintf("QHasTomb %s", vh.Bool(v))
			case "ReadAll":
				vals, err := r.ReadAll([]byte(o.Key))
				if err != nil {
					w.Fail(w.Len(), fmt.Sprintf("ReadAll error: %v", err), "")
				}
				ts := make([]int64, len(vals))
				for j, v := range vals {
					ts[j] = v.UnixNano()
				}
				o.Res = ts
				t = fmt.Sprintf("QReadAll %s %s", kB(o.Key), vh.Zs(ts))
			case "TombFile":
				recs, err := walkTomb(path)
				if err != nil {
					w.Fail(w.Len(), fmt.Sprintf("Walk error: %v", err), "")
				}
				o.Res = fmt.Sprint(recs)
				t = fmt.Sprintf("QTombFile %s", trecsT(recs))
			default:
				panic("unknown op " + o.Op)
			}
		})
		if p != "" {
			w.Fail(w.Len(), fmt.Sprintf("panic in %s(%q): %s", o.Op, o.Key, p), "")
			break
		}
		opsT = append(opsT, "("+t+")")
		w.Count("op", o.Op)
	}
	if r != nil {
		vh.Guard(func() { r.Close() })
	}
	term := fmt.Sprintf("CIdx %s %s %s", vh.List(allT), vh.List(ptsT), vh.List(opsT))
	w.Add(term, c, nmut > 0, sig)
	w.Count("kind", "idx")
	w.Count("idx_mutations", fmt.Sprint(nmut))
	w.Count("idx_keys", fmt.Sprint(len(c.Keys)))
	if sig != "" {
		w.Count("finding_shape", sig)
	}
}

// ---------- kind: tomb ----------
func readTombRaw(tpath string) (header []byte, payloads [][]byte, err error) {
	data, err := os.ReadFile(tpath)
	if err != nil {
		return nil, nil, err
	}
	if len(data) < 4 {
		return data, nil, nil
	}
	header = data[:4]
	br := bytes.NewReader(data[4:])
	if br.Len() == 0 {
		return header, nil, nil
	}
	gr, err := gzip.NewReader(br)
	if err != nil {
		return header, nil, err
	}
	for {
		gr.Multistream(false)
		p, err := io.ReadAll(gr)
		if err != nil {
			return header, payloads, err
		}
		payloads = append(payloads, p)
		if err = gr.Reset(br); err == io.EOF {
			break
		} else if err != nil {
			return header, payloads, err
		}
	}
	return header, payloads, nil
}

func runTomb(w *vh.W, c *jcase) {
	dir := newDir()
	defer os.RemoveAll(dir)
	tsmPath := filepath.Join(dir, "000000001-000000001.tsm")
	ts := tsm1.NewTombstoner(tsmPath, nil)
	for _, b := range c.Batches {
		// consecutive records with equal range go into one AddRange call
		for i := 0; i < len(b); {
			j := i
			var ks [][]byte
			for j < len(b) && b[j].Min == b[i].Min && b[j].Max == b[i].Max {
				ks = append(ks, []byte(b[j].Key))
				j++
			}
			must(ts.AddRange(ks, b[i].Min, b[i].Max))
			i = j
		}
		must(ts.Flush())
	}
	hdr, payloads, err := readTombRaw(filepath.Join(dir, "000000001-000000001.tombstone"))
	if err != nil {
		w.Fail(w.Len(), fmt.Sprintf("tombstone file not readable as header + gzip members: %v", err), "")
	}
	recs, werr := walkTomb(tsmPath)
	c.Walk = fmt.Sprint(recs, werr)
	ps := make([]string, len(payloads))
	for i, p := range payloads {
		ps[i] = bB(p)
	}
	t := fmt.Sprintf("CTomb %s %s %s %s", membersT(c.Batches), bB(hdr), vh.List(ps), optT(werr == nil, trecsT(recs)))
	w.Add(t, c, len(c.Batches) > 1, "")
	w.Count("kind", "tomb")
}

// ---------- kind: crash ----------
type hookObs struct{ fn func(path string) }

func (h *hookObs) FileFinishing(path string) error { h.fn(path); return nil }
func (h *hookObs) FileUnlinking(path string) error { return nil }

func copyDir(src, dst string) {
	must(os.MkdirAll(dst, 0o755))
	es, err := os.ReadDir(src)
	must(err)
	for _, e := range es {
		b, err := os.ReadFile(filepath.Join(src, e.Name()))
		must(err)
		must(os.WriteFile(filepath.Join(dst, e.Name()), b, 0o644))
	}
}

// groups records of one member into (keys, lo, hi) DeleteRange calls; all records of a member
// share the range in crash cases
func runCrash(w *vh.W, c *jcase) {
	dir := newDir()
	defer os.RemoveAll(dir)
	name := "000000001-000000001.tsm"
	path := filepath.Join(dir, name)
	// a file whose key range contains every tombstoned key and whose time range is [0,100]
	keys := []fkey{{Key: "a", Typ: 1, Blocks: [][]int64{{0, 5}}}, {Key: "m", Typ: 1, Blocks: [][]int64{{10, 20}, {30, 40}}}, {Key: "z", Typ: 0, Blocks: [][]int64{{50, 100}}}}
	writeKeys(path, keys)
	r, err := openReader(path)
	must(err)
	del := func(m []jtrec) {
		ks := []string{}
		for _, t := range m {
			ks = append(ks, t.Key)
		}
		if err := r.DeleteRange(bkeys(ks), m[0].Min, m[0].Max); err != nil {
			w.Fail(w.Len(), fmt.Sprintf("DeleteRange error: %v", err), "")
		}
	}
	for _, m := range c.Old {
		del(m)
	}
	s0 := newDir()
	s2 := newDir()
	s4 := newDir()
	defer os.RemoveAll(s0)
	defer os.RemoveAll(s2)
	defer os.RemoveAll(s4)
	copyDir(dir, s0)
	fired := 0
	r.WithObserver(&hookObs{fn: func(p string) {
		fired++
		copyDir(dir, s2) // .tmp complete and fsynced, not yet renamed
	}})
	// while the commit runs, a second goroutine polls the tombstone file: whenever one existed before
	// the commit, at every instant the path must resolve to a complete file holding the old or the new set
	tpath := filepath.Join(dir, "000000001-000000001.tombstone")
	stop, pollDone := make(chan struct{}), make(chan struct{})
	missing := 0
	seen := map[string][]byte{}
	if len(c.Old) > 0 {
		go func() {
			defer close(pollDone)
			for {
				select {
				case <-stop:
					return
				default:
				}
				b, err := os.ReadFile(tpath)
				if err != nil {
					if os.IsNotExist(err) {
						missing++
					}
					continue
				}
				k := fmt.Sprintf("%d/%x", len(b), crc32.ChecksumIEEE(b))
				if _, ok := seen[k]; !ok {
					seen[k] = b
				}
			}
		}()
	} else {
		close(pollDone)
	}
	del(c.New)
	close(stop)
	<-pollDone
	if missing > 0 {
		w.Fail(w.Len(), fmt.Sprintf("tombstone commit: during the commit the existing .tombstone file was absent at %d polled instant(s): a crash there loses every committed tombstone (neither the old nor the new set)", missing), "")
	}
	if len(seen) > 0 {
		flatS := func(ms [][]jtrec, extra []jtrec) string {
			var o []jtrec
			for _, m := range ms {
				o = append(o, m...)
			}
			return fmt.Sprint(append(o, extra...))
		}
		pd := newDir()
		defer os.RemoveAll(pd)
		for _, b := range seen {
			must(os.WriteFile(filepath.Join(pd, "000000001-000000001.tombstone"), b, 0o644))
			recs, err := walkTomb(filepath.Join(pd, name))
			if got := fmt.Sprint(recs); err != nil || (got != flatS(c.Old, nil) && got != flatS(c.Old, c.New)) {
				w.Fail(w.Len(), fmt.Sprintf("tombstone commit: a polled image of the .tombstone file during the commit holds neither the old nor the new set: %v %v", recs, err), "")
			}
		}
	}
	copyDir(dir, s4)
	r.Close()
	if fired != 1 {
		w.Fail(w.Len(), fmt.Sprintf("tombstone commit hook fired %d times", fired), "")
		return
	}
	tmpName := "000000001-000000001.tombstone.tmp"
	if _, err := os.Stat(filepath.Join(s2, tmpName)); err != nil {
		w.Fail(w.Len(), "tombstone commit: at the FileFinishing point (before the rename) there is no complete .tombstone.tmp next to the old tombstone file", "")
		w.Add("CCrash [] [] 0 0 0 (Some [])", c, false, "")
		return
	}
	var crashDir string
	cut := uint64(0)
	switch {
	case c.Step == 0:
		crashDir = s0
	case c.Step == 1:
		crashDir = s2
		full, err := os.ReadFile(filepath.Join(s2, tmpName))
		must(err)
		n := len(full) * c.Cut / 1000
		must(os.WriteFile(filepath.Join(s2, tmpName), full[:n], 0o644))
		// the model's toy gzip has other lengths: pass the same fraction
		cut = uint64(c.Cut)
	case c.Step == 2 || (c.Step == 3 && c.Variant == 0):
		crashDir = s2
	default:
		crashDir = s4
	}
	if !c.NoRecov { // Engine.cleanup: remove every *.tmp
		tmps, _ := filepath.Glob(filepath.Join(crashDir, "*."+tsm1.CompactionTempExtension))
		for _, f := range tmps {
			os.Remove(f)
		}
	}
	cpath := filepath.Join(crashDir, name)
	recs, werr := walkTomb(cpath)
	r2, oerr := openReader(cpath)
	if oerr != nil {
		w.Fail(w.Len(), fmt.Sprintf("reader does not open after crash at step %d: %v", c.Step, oerr), "")
	} else {
		// Go-side: visibility after the crash must be old or old+new, consistently with the tombstone file
		flat := func(ms [][]jtrec, extra []jtrec) []jtrec {
			var o []jtrec
			for _, m := range ms {
				o = append(o, m...)
			}
			return append(o, extra...)
		}
		oldF, newF := flat(c.Old, nil), flat(c.Old, c.New)
		okOld, okNew := true, true
		for _, k := range keys {
			for _, b := range k.Blocks {
				for _, t := range b {
					v := r2.ContainsValue([]byte(k.Key), t)
					vis := func(rs []jtrec) bool {
						for _, x := range rs {
							if x.Key == k.Key && x.Min <= t && t <= x.Max {
								return false
							}
						}
						return true
					}
					okOld = okOld && v == vis(oldF)
					okNew = okNew && v == vis(newF)
				}
			}
		}
		if !okOld && !okNew {
			w.Fail(w.Len(), fmt.Sprintf("after a crash at step %d (variant %d, cut %d) the reopened reader shows neither the old nor the new tombstone set", c.Step, c.Variant, c.Cut), "")
		}
		if !c.NoRecov { // deletes must work again after recovery
			if err := r2.DeleteRange([][]byte{[]byte("m")}, 11, 12); err != nil {
				w.Fail(w.Len(), fmt.Sprintf("DeleteRange after crash recovery fails: %v", err), "")
			}
		}
		r2.Close()
	}
	c.Walk = fmt.Sprint(recs, werr)
	// the model cuts its own tmp image by the same fraction: cut is passed in bytes of a 1000-byte scale;
	// it takes firstn cut, which for the toy image only matters through the prediction (tomb unaffected)
	t := fmt.Sprintf("CCrash %s %s %s %s %s %s", membersT(c.Old), trecsT(c.New), vh.N(uint64(c.Step)), vh.N(uint64(c.Variant)), vh.N(cut%40), optT(werr == nil, trecsT(recs)))
	w.Add(t, c, true, "")
	w.Count("kind", "crash")
	w.Count("crash_step", fmt.Sprintf("%d/%d", c.Step, c.Variant))
}

// ---------- kind: renamefail ----------
// The rename of the .tombstone.tmp into place is made to fail (the FileFinishing callback, which runs
// after the tmp is complete and fsynced and before the rename, moves the tmp out of the directory).
// DeleteRange must return the error and the tombstone set on disk must still be exactly the OLD set:
// in the crash model this is the state after [write tmp; fsync tmp] with the rename not done.
func runRenameFail(w *vh.W, c *jcase) {
	c.Note = "fault injection: the .tombstone.tmp is moved away in the FileFinishing callback so that the commit's rename fails; the tombstone set read back afterwards (variant 0: image of the directory right after the failure, 1: that image after *.tmp cleanup, 2: the original directory after *.tmp cleanup) must be exactly the old set"
	dir := newDir()
	defer os.RemoveAll(dir)
	name := "000000001-000000001.tsm"
	path := filepath.Join(dir, name)
	keys := []fkey{{Key: "a", Typ: 1, Blocks: [][]int64{{0, 5}}}, {Key: "m", Typ: 1, Blocks: [][]int64{{10, 20}, {30, 40}}}, {Key: "z", Typ: 0, Blocks: [][]int64{{50, 100}}}}
	writeKeys(path, keys)
	r, err := openReader(path)
	must(err)
	del := func(m []jtrec) error {
		ks := []string{}
		for _, t := range m {
			ks = append(ks, t.Key)
		}
		return r.DeleteRange(bkeys(ks), m[0].Min, m[0].Max)
	}
	for _, m := range c.Old {
		if err := del(m); err != nil {
			w.Fail(w.Len(), fmt.Sprintf("DeleteRange error: %v", err), "")
		}
	}
	away := newDir()
	defer os.RemoveAll(away)
	fired := 0
	r.WithObserver(&hookObs{fn: func(p string) {
		fired++
		os.Rename(p, filepath.Join(away, "stolen.tmp"))
	}})
	derr := del(c.New)
	if fired != 1 {
		w.Fail(w.Len(), fmt.Sprintf("tombstone commit hook fired %d times", fired), "")
	}
	if derr == nil {
		w.Fail(w.Len(), "DeleteRange reported success although the rename of the .tombstone.tmp into place failed", "")
	}
	img := newDir()
	img2 := newDir()
	defer os.RemoveAll(img)
	defer os.RemoveAll(img2)
	copyDir(dir, img)
	copyDir(dir, img2)
	vh.Guard(func() { r.Close() })
	cleanup := func(d string) {
		tmps, _ := filepath.Glob(filepath.Join(d, "*."+tsm1.CompactionTempExtension))
		for _, f := range tmps {
			os.Remove(f)
		}
	}
	cleanup(img2)
	cleanup(dir)
	var oldF []jtrec
	for _, m := range c.Old {
		oldF = append(oldF, m...)
	}
	var chosen []jtrec
	var chosenErr error
	for v, d := range []string{img, img2, dir} {
		what := []string{"the image of the directory taken right after the failed commit", "that image after *.tmp cleanup", "the original directory after *.tmp cleanup"}[v]
		recs, werr := walkTomb(filepath.Join(d, name))
		if v == c.Variant {
			chosen, chosenErr = recs, werr
		}
		if werr != nil || fmt.Sprint(recs) != fmt.Sprint(oldF) {
			w.Fail(w.Len(), fmt.Sprintf("after a FAILED rename in the tombstone commit, %s holds the tombstone set %v (err %v) instead of the old set %v: previously committed tombstones are lost", what, recs, werr, oldF), "")
		}
		r2, oerr := openReader(filepath.Join(d, name))
		if oerr != nil {
			w.Fail(w.Len(), fmt.Sprintf("reader does not open %s: %v", what, oerr), "")
			continue
		}
		for _, k := range keys {
			for _, b := range k.Blocks {
				for _, t := range b {
					vis := true
					for _, x := range oldF {
						if x.Key == k.Key && x.Min <= t && t <= x.Max {
							vis = false
						}
					}
					if r2.ContainsValue([]byte(k.Key), t) != vis {
						w.Fail(w.Len(), fmt.Sprintf("after a failed tombstone commit, reopening %s: point (%q,%d) visible=%v, but by the old tombstone set it must be %v", what, k.Key, t, !vis, vis), "")
					}
				}
			}
		}
		r2.Close()
	}
	c.Walk = fmt.Sprint(chosen, chosenErr)
	c.Step = 2
	// judge: the crash model after [write tmp; fsync tmp] (rename not done) predicts the old set
	t := fmt.Sprintf("CCrash %s %s %s %s %s %s", membersT(c.Old), trecsT(c.New), vh.N(2), vh.N(0), vh.N(0), optT(chosenErr == nil, trecsT(chosen)))
	w.Add(t, c, len(c.Old) > 0, "")
	w.Count("kind", "renamefail")
	w.Count("renamefail_old_members", fmt.Sprint(len(c.Old)))
}

// ---------- kind: limit ----------
func runLimit(w *vh.W, c *jcase) {
	dir := newDir()
	defer os.RemoveAll(dir)
	path := filepath.Join(dir, "000000001-000000001.tsm")
	f, err := os.OpenFile(path, os.O_CREATE|os.O_RDWR, 0o666)
	must(err)
	tw, err := tsm1.NewTSMWriter(f)
	must(err)
	key := bytes.Repeat([]byte("k"), c.Klen)
	blk := []byte{}
	if c.Blen > 0 {
		blk = append([]byte{1}, bytes.Repeat([]byte{7}, c.Blen-1)...)
	}
	status := 0
	written := 0
	// cnt = number of entries of the key after the observed call (when it is accepted)
	n := c.Cnt
	if n < 1 {
		n = 1
	}
	for i := 0; i < n; i++ {
		err := tw.WriteBlock(key, int64(i), int64(i), blk)
		status = statusOf(err)
		if status == 0 || status == 2 {
			if c.Blen > 0 {
				written++
			}
		}
	}
	ierr := tw.WriteIndex()
	indexOK := ierr == nil
	if indexOK {
		must(tw.Close())
		r, err := openReader(path)
		if err != nil {
			w.Fail(w.Len(), fmt.Sprintf("limit file does not open: %v", err), "")
		} else {
			es := r.Entries(key)
			k0, _ := r.KeyAt(0)
			if len(es) != written || !bytes.Equal(k0, key) || es[0].MinTime != 0 || es[len(es)-1].MaxTime != int64(written-1) {
				w.Fail(w.Len(), fmt.Sprintf("limit file (key length %d, %d blocks) reads back %d entries / key length %d", c.Klen, written, len(es), len(k0)), "")
			}
			r.Close()
		}
	} else {
		vh.Guard(func() { tw.Close() })
	}
	if ierr != nil && written == 0 && !errors.Is(ierr, tsm1.ErrNoValues) {
		w.Fail(w.Len(), fmt.Sprintf("WriteIndex with nothing written: %v", ierr), "")
	}
	t := fmt.Sprintf("CLimit %s %s %s %s %s", vh.N(uint64(c.Klen)), vh.N(uint64(c.Blen)), vh.N(uint64(written)), vh.N(uint64(status)), vh.Bool(indexOK))
	w.Add(t, c, true, "")
	w.Count("kind", "limit")
}

func run(w *vh.W, c *jcase) {
	switch c.Kind {
	case "file":
		runFile(w, c)
	case "idx":
		runIdx(w, c)
	case "tomb":
		runTomb(w, c)
	case "crash":
		runCrash(w, c)
	case "renamefail":
		runRenameFail(w, c)
	case "limit":
		runLimit(w, c)
	default:
		must(fmt.Errorf("unknown case kind %q", c.Kind))
	}
}

// ---------- generators ----------
var keyPool = []string{
	"cpu,host=a#!~#v", "cpu,host=a#!~#w", "cpu,host=b#!~#v", "cpu", "cpu,", "cpu ", "a b", "a=b", "a\\,b,t=1#!~#f",
	"k\\ 1", "k\\=x", "m,t=\\,#!~#f", "m", "m\x01", "n", "z", "zz", "~", "!", "A",
	"long," + strings.Repeat("tag=value,", 28) + "x#!~#field", // ~300 bytes
}

type gen struct {
	w *vh.W
}

func (g gen) n(k int) int { return g.w.Rng.IntN(k) }
func (g gen) pick(xs []string) string {
	return xs[g.n(len(xs))]
}
func (g gen) keySet(max int) []string {
	n := 1 + g.n(max)
	m := map[string]bool{}
	for len(m) < n {
		k := g.pick(keyPool)
		if g.n(12) == 0 {
			k = k + string(rune('0'+g.n(3)))
		}
		m[k] = true
	}
	ks := vh.SortedKeys(m)
	return ks
}

// neighbour of a key: the key itself, prefix, extension, absent pool key
func (g gen) nearKey(ks []string) string {
	k := g.pick(ks)
	switch g.n(7) {
	case 0:
		return k[:len(k)-1]
	case 1:
		return k + "\x00"
	case 2:
		return k + "0"
	case 3:
		return g.pick(keyPool)
	case 4:
		b := []byte(k)
		b[len(b)-1]--
		return string(b)
	}
	return k
}

func (g gen) fileKeys() []fkey {
	ks := g.keySet(6)
	mode := g.n(25) // 0: all negative (finding shape), 1: extremes
	var out []fkey
	for _, k := range ks {
		fk := fkey{Key: k, Typ: g.n(5)}
		nb := 1 + g.n(5)
		if g.n(3) == 0 {
			nb = 1
		}
		t := int64(g.n(12)) - 3
		if mode == 0 {
			t -= 200
		}
		for b := 0; b < nb; b++ {
			np := 1 + g.n(3)
			var blk []int64
			for p := 0; p < np; p++ {
				blk = append(blk, t)
				t += 1 + int64(g.n(3))
			}
			t += int64(g.n(4))
			fk.Blocks = append(fk.Blocks, blk)
		}
		if mode == 1 && g.n(2) == 0 {
			fk.Blocks[0][0] = math.MinInt64
		}
		if mode == 1 && g.n(2) == 0 {
			lb := fk.Blocks[len(fk.Blocks)-1]
			lb = append(lb, math.MaxInt64)
			fk.Blocks[len(fk.Blocks)-1] = lb
		}
		out = append(out, fk)
	}
	return out
}

func (g gen) timeNear(keys []fkey) int64 {
	k := keys[g.n(len(keys))]
	b := k.Blocks[g.n(len(k.Blocks))]
	t := b[g.n(len(b))]
	switch g.n(8) {
	case 0:
		return t - 1
	case 1:
		return t + 1
	case 2:
		return math.MinInt64
	case 3:
		return math.MaxInt64
	case 4:
		return int64(g.n(40)) - 10
	}
	return t
}

func (g gen) queries(keys []fkey, fresh bool, n int, seekPast bool) []jop {
	names := make([]string, len(keys))
	for i, k := range keys {
		names[i] = k.Key
	}
	last := names[len(names)-1]
	var ops []jop
	for i := 0; i < n; i++ {
		k := g.nearKey(names)
		switch g.n(17) {
		case 0:
			ops = append(ops, jop{Op: "Contains", Key: k})
		case 1, 2, 3:
			ops = append(ops, jop{Op: "ContainsValue", Key: k, T: g.timeNear(keys)})
		case 4:
			if fresh && k > last && !seekPast {
				k = last
			}
			ops = append(ops, jop{Op: "Seek", Key: k})
		case 5:
			ops = append(ops, jop{Op: "KeyAt", I: int64(g.n(len(keys)+2)) - 1})
		case 6:
			ops = append(ops, jop{Op: "Entries", Key: k, I: int64(g.n(2))})
		case 7:
			ops = append(ops, jop{Op: "Entry", Key: k, T: g.timeNear(keys)})
		case 8:
			ops = append(ops, jop{Op: "Type", Key: k})
		case 9:
			ops = append(ops, jop{Op: "KeyCount"})
		case 10:
			if g.n(2) == 0 {
				ops = append(ops, jop{Op: "TimeRange"})
			} else {
				ops = append(ops, jop{Op: "KeyRange"})
			}
		case 11:
			a, b := g.timeNear(keys), g.timeNear(keys)
			if a > b && g.n(4) != 0 {
				a, b = b, a
			}
			ops = append(ops, jop{Op: "OverlapsTime", Lo: a, Hi: b})
		case 12:
			a, b := g.nearKey(names), g.nearKey(names)
			if a > b {
				a, b = b, a
			}
			ops = append(ops, jop{Op: "OverlapsKey", Key: a, B: b})
		case 13:
			ops = append(ops, jop{Op: "TombRange", Key: k})
		case 14:
			ops = append(ops, jop{Op: "HasTomb"})
		default:
			ops = append(ops, jop{Op: "ReadAll", Key: k})
		}
	}
	return ops
}

func (g gen) delRange(keys []fkey) (int64, int64) {
	k := keys[g.n(len(keys))]
	first, lastB := k.Blocks[0], k.Blocks[len(k.Blocks)-1]
	switch g.n(10) {
	case 0:
		return math.MinInt64, math.MaxInt64
	case 1: // whole key
		return first[0], lastB[len(lastB)-1]
	case 2:
		return math.MinInt64, g.timeNear(keys)
	case 3:
		return g.timeNear(keys), math.MaxInt64
	case 4: // inverted
		a := g.timeNear(keys)
		return a, a - 1 - int64(g.n(3))
	}
	a, b := g.timeNear(keys), g.timeNear(keys)
	if a > b {
		a, b = b, a
	}
	return a, b
}

// denseDeletes: 1-3 full-key deletes (Delete, or DeleteRange over MinInt64..MaxInt64: the
// indirectIndex.Delete merge walk) whose sorted key list has runs of 0-4 absent keys before each
// stored key, before the first and after the last key of the file; after each, every stored key is
// looked up on the open reader and again after reopen (the tombstone replay takes the same walk).
func (g gen) denseDeletes(names []string) []jop {
	stored := map[string]bool{}
	for _, n := range names {
		stored[n] = true
	}
	absentNear := func(k string) []string { // absent keys just before / after k
		b := []byte(k)
		var d string
		if b[len(b)-1] > 0 {
			b[len(b)-1]--
			d = string(b)
		} else {
			d = k[:len(k)-1]
		}
		cands := []string{d, d + "0", d + "5", d + "~", k[:len(k)-1], k + "\x00", k + "0", k + "~"}
		var out []string
		for _, x := range cands {
			if x != "" && !stored[x] {
				out = append(out, x)
			}
		}
		return out
	}
	probe := func() []jop {
		var ops []jop
		for _, n := range names {
			ops = append(ops, jop{Op: "Contains", Key: n}, jop{Op: "ReadAll", Key: n})
			if g.n(3) == 0 {
				ops = append(ops, jop{Op: "Entries", Key: n}, jop{Op: "Type", Key: n})
			}
		}
		ops = append(ops, jop{Op: "KeyCount"})
		for i := range names {
			ops = append(ops, jop{Op: "KeyAt", I: int64(i)})
		}
		return ops
	}
	var ops []jop
	for m, nm := 0, 1+g.n(3); m < nm; m++ {
		set := map[string]bool{}
		for _, n := range names {
			abs := absentNear(n)
			g.w.Rng.Shuffle(len(abs), func(i, j int) { abs[i], abs[j] = abs[j], abs[i] })
			for i, cnt := 0, g.n(5); i < cnt && i < len(abs); i++ {
				set[abs[i]] = true
			}
			if g.n(3) != 0 {
				set[n] = true
			}
		}
		if len(set) == 0 {
			set[names[0]] = true
		}
		ks := vh.SortedKeys(set)
		if g.n(2) == 0 {
			if g.n(3) == 0 { // Delete sorts its argument itself
				g.w.Rng.Shuffle(len(ks), func(i, j int) { ks[i], ks[j] = ks[j], ks[i] })
			}
			ops = append(ops, jop{Op: "Delete", Keys: ks})
		} else {
			ops = append(ops, jop{Op: "DeleteRange", Keys: ks, Lo: math.MinInt64, Hi: math.MaxInt64})
		}
		ops = append(ops, probe()...)
		if g.n(2) == 0 || m == nm-1 {
			ops = append(ops, jop{Op: "Reopen"})
			ops = append(ops, probe()...)
		}
	}
	ops = append(ops, jop{Op: "TombFile"}, jop{Op: "HasTomb"})
	return ops
}

func (g gen) idxCase(seekPast bool) jcase {
	keys := g.fileKeys()
	for seekPast { // keep the two finding shapes apart: no all-negative file in a seek-past-end case
		neg := true
		for _, k := range keys {
			lb := k.Blocks[len(k.Blocks)-1]
			if lb[len(lb)-1] >= 0 {
				neg = false
			}
		}
		if !neg {
			break
		}
		keys = g.fileKeys()
	}
	names := make([]string, len(keys))
	for i, k := range keys {
		names[i] = k.Key
	}
	c := jcase{Kind: "idx", Keys: keys}
	c.Ops = append(c.Ops, g.queries(keys, true, 6+g.n(8), seekPast)...)
	if seekPast {
		c.Ops = append(c.Ops, jop{Op: "Seek", Key: names[len(names)-1] + "0"}, jop{Op: "Seek", Key: "~~~"})
		return c
	}
	if g.n(5) == 0 { // full-key deletes whose key lists mix stored keys with dense runs of absent keys
		c.Ops = append(c.Ops, g.denseDeletes(names)...)
		return c
	}
	if g.n(4) == 0 { // cover one key piecewise: the coalescing window and its gaps
		k := keys[g.n(len(keys))]
		first, lastB := k.Blocks[0][0], k.Blocks[len(k.Blocks)-1]
		last := lastB[len(lastB)-1]
		if first > math.MinInt64 && last < math.MaxInt64 && last-first < 1000 {
			type piece struct{ lo, hi int64 }
			var ps []piece
			lo := first - int64(g.n(2))
			var gaps []int64
			for lo <= last {
				hi := lo + int64(g.n(5))
				if hi >= last || g.n(4) == 0 {
					hi = last + int64(g.n(2))
				}
				ps = append(ps, piece{lo, hi})
				lo = hi + 1
				if g.n(3) == 0 && lo <= last { // leave a one-point gap
					gaps = append(gaps, lo)
					lo++
				}
			}
			g.w.Rng.Shuffle(len(ps), func(i, j int) { ps[i], ps[j] = ps[j], ps[i] })
			for i, pc := range ps {
				c.Ops = append(c.Ops, jop{Op: "DeleteRange", Keys: []string{k.Key}, Lo: pc.lo, Hi: pc.hi})
				if i == len(ps)-1 || g.n(3) == 0 {
					c.Ops = append(c.Ops, jop{Op: "Contains", Key: k.Key}, jop{Op: "ReadAll", Key: k.Key}, jop{Op: "TombRange", Key: k.Key})
					for _, gp := range gaps {
						c.Ops = append(c.Ops, jop{Op: "ContainsValue", Key: k.Key, T: gp})
					}
				}
			}
			c.Ops = append(c.Ops, jop{Op: "KeyCount"}, jop{Op: "Reopen"}, jop{Op: "Contains", Key: k.Key}, jop{Op: "ReadAll", Key: k.Key}, jop{Op: "KeyCount"}, jop{Op: "TombFile"})
			return c
		}
	}
	nm := g.n(5)
	var lastHi int64
	var lastKeys []string
	for m := 0; m < nm; m++ {
		// sorted key batch (DeleteRange requires sorted keys), duplicates and absent keys allowed
		var ks []string
		for i, cnt := 0, 1+g.n(3); i < cnt; i++ {
			ks = append(ks, g.nearKey(names))
		}
		lo, hi := g.delRange(keys)
		if lastKeys != nil && g.n(3) == 0 && lastHi < math.MaxInt64 { // adjacent to the previous delete: coalescing
			ks, lo = lastKeys, lastHi+1
			hi = lo + int64(g.n(6))
			if g.n(3) == 0 {
				hi = math.MaxInt64
			}
		}
		if g.n(6) == 0 {
			c.Ops = append(c.Ops, jop{Op: "Delete", Keys: ks}) // unsorted allowed
			lastKeys = nil
		} else {
			sort.Strings(ks)
			c.Ops = append(c.Ops, jop{Op: "DeleteRange", Keys: ks, Lo: lo, Hi: hi})
			lastKeys, lastHi = ks, hi
		}
		// boundary probes of the delete just made
		for _, k := range ks {
			for _, t := range []int64{lo - 1, lo, hi, hi + 1} {
				if g.n(3) == 0 && !(lo == math.MinInt64 && t == lo-1) && !(hi == math.MaxInt64 && t == hi+1) {
					c.Ops = append(c.Ops, jop{Op: "ContainsValue", Key: k, T: t})
				}
			}
			if g.n(2) == 0 {
				c.Ops = append(c.Ops, jop{Op: "ReadAll", Key: k}, jop{Op: "TombRange", Key: k}, jop{Op: "Contains", Key: k})
			}
		}
		if g.n(3) == 0 {
			c.Ops = append(c.Ops, jop{Op: "Reopen"})
		}
		c.Ops = append(c.Ops, g.queries(keys, false, 3+g.n(6), false)...)
	}
	if nm > 0 {
		if g.n(2) == 0 {
			c.Ops = append(c.Ops, jop{Op: "Reopen"})
			for _, k := range names {
				c.Ops = append(c.Ops, jop{Op: "ReadAll", Key: k})
			}
			c.Ops = append(c.Ops, g.queries(keys, false, 4, false)...)
		}
		c.Ops = append(c.Ops, jop{Op: "TombFile"}, jop{Op: "HasTomb"}, jop{Op: "KeyCount"})
	}
	return c
}

func (g gen) fileCase() jcase {
	ks := g.keySet(4)
	c := jcase{Kind: "file"}
	bad := g.n(8)
	for _, k := range ks {
		typ := g.n(5)
		nb := 1 + g.n(3)
		t := int64(g.n(20)) - 8
		var blocks [][]int64
		for b := 0; b < nb; b++ {
			var blk []int64
			for p, np := 0, 1+g.n(3); p < np; p++ {
				blk = append(blk, t)
				t += 1 + int64(g.n(3))
			}
			blocks = append(blocks, blk)
		}
		if g.n(10) == 0 && len(blocks) > 1 { // blocks given out of time order: the writer sorts the entries
			blocks[0], blocks[len(blocks)-1] = blocks[len(blocks)-1], blocks[0]
		}
		for _, blk := range blocks {
			cl := jcall{Key: k, Typ: typ, Times: blk, UseW: g.n(3) == 0}
			if g.n(15) == 0 {
				cl.Typ = -1 // empty block: silently skipped
			}
			c.Calls = append(c.Calls, cl)
		}
	}
	switch bad {
	case 0: // unknown block type, last
		c.Calls = append(c.Calls, jcall{Key: "~~", Typ: 9, Times: []int64{1}})
	case 1: // out-of-order key (panic), last
		if len(c.Calls) > 0 && c.Calls[len(c.Calls)-1].Typ != -1 {
			c.Calls = append(c.Calls, jcall{Key: "!", Typ: 1, Times: []int64{1}})
		}
	case 2: // nothing written at all
		if g.n(2) == 0 {
			for i := range c.Calls {
				c.Calls[i].Typ = -1
			}
		}
	}
	return c
}

func (g gen) trecs(n int, sameRange bool) []jtrec {
	inRange := []string{"a", "b", "cpu,host=a#!~#v", "m", "m\x01", "k\\ 1", "z", "a b", "a=b"}
	var out []jtrec
	lo, hi := int64(g.n(60))-5, int64(0)
	hi = lo + int64(g.n(30))
	for i := 0; i < n; i++ {
		if !sameRange && g.n(2) == 0 {
			lo = int64(g.n(60)) - 5
			hi = lo + int64(g.n(30))
			if g.n(6) == 0 {
				lo, hi = math.MinInt64, math.MaxInt64
			}
		}
		out = append(out, jtrec{g.pick(inRange), lo, hi})
	}
	return out
}

func (g gen) tombCase() jcase {
	c := jcase{Kind: "tomb"}
	for b, nb := 0, 1+g.n(3); b < nb; b++ {
		c.Batches = append(c.Batches, g.trecs(1+g.n(3), false))
	}
	return c
}

func (g gen) crashCase() jcase {
	c := jcase{Kind: "crash"}
	mk := func() []jtrec {
		rs := g.trecs(1+g.n(3), true)
		// keep the range inside the file's [0,100] so that the reader does not skip the delete,
		// keys sorted and distinct as DeleteRange requires
		m := map[string]bool{}
		var out []jtrec
		for _, r := range rs {
			if !m[r.Key] {
				m[r.Key] = true
				if r.Min < 0 {
					r.Min = 0
				}
				if r.Max < r.Min {
					r.Max = r.Min
				}
				out = append(out, r)
			}
		}
		for i := range out {
			out[i].Min, out[i].Max = out[0].Min, out[0].Max
		}
		sort.Slice(out, func(i, j int) bool { return out[i].Key < out[j].Key })
		return out
	}
	for b, nb := 0, g.n(3); b < nb; b++ {
		c.Old = append(c.Old, mk())
	}
	c.New = mk()
	c.Step = g.n(5)
	c.Variant = g.n(2)
	c.Cut = []int{0, 1, 3, 4, 5, 30, 200, 400, 500, 700, 900, 990, 999, 1000}[g.n(14)]
	if g.n(3) == 0 {
		c.Cut = g.n(1001)
	}
	c.NoRecov = g.n(5) == 0
	return c
}

func main() {
	w := vh.New("C08", "From Verif Require Import Base.Prelude Base.C08_BE Model.C08_File Model.C08_Index Model.C08.", "case", "check")
	w.Rule = "kinds: file (1-4 keys x 1-3 real encoded blocks through WriteBlock/Write; some with unknown block type, out-of-order key, empty blocks, nothing written, blocks out of time order), idx (1-6 keys x 1-5 blocks x 1-3 points from a pool of keys with ',', '=', ' ', backslash escapes, control bytes, prefixes of each other and a ~300-byte key; times small, sometimes all negative or with MinInt64/MaxInt64; 6-13 lookups on present/absent/neighbour keys and times, then 0-4 DeleteRange/Delete batches (sorted key batches with duplicates and absent keys; full-range, whole-key, half-open, inverted and adjacent ranges) each followed by boundary probes, lookups and sometimes reopen; one case in five instead issues 1-3 full-key deletes (Delete / DeleteRange over the whole int64 range) whose sorted key lists put runs of 0-4 absent keys before every stored key, before the first and after the last key, with Contains/ReadAll/KeyAt of every stored key on the open reader and after reopen), tomb (1-3 Tombstoner commits), crash (5 crash points x durable/non-durable rename x 14+ truncation points of the .tmp, with and without *.tmp cleanup; a second goroutine polls the .tombstone file during the commit: it must never be absent and always hold the old or new set), renamefail (the .tombstone.tmp is moved away in the FileFinishing callback so the rename fails: the set on disk, in an image taken right there and after *.tmp cleanup, must be exactly the old set), limit (key length and block count around 65535). Non-trivial: file with >= 2 accepted calls, idx with >= 1 delete, tomb with >= 2 members, every crash and limit case. Distinct: distinct Gallina terms."
	var err error
	base := ""
	if st, e := os.Stat("/dev/shm"); e == nil && st.IsDir() { // tmpfs: fsync and SyncDir are cheap
		base = "/dev/shm"
	}
	tmpRoot, err = os.MkdirTemp(base, "c08-")
	if err != nil {
		tmpRoot, err = os.MkdirTemp("", "c08-")
	}
	must(err)
	defer os.RemoveAll(tmpRoot)
	var rc jcase
	if w.ReplayCase(&rc) {
		run(w, &rc)
		os.RemoveAll(tmpRoot)
		w.Finish()
		return
	}
	g := gen{w}
	// hand-picked cases first
	for _, l := range [][3]int{{65535, 3, 1}, {65536, 3, 1}, {70000, 3, 1}, {1, 0, 3}, {5, 2, 65534}, {5, 2, 65535}, {5, 2, 65536}, {5, 2, 65537}, {65535, 2, 3}} {
		c := jcase{Kind: "limit", Klen: l[0], Blen: l[1], Cnt: l[2]}
		run(w, &c)
	}
	for _, s := range [][2]int{{0, 0}, {1, 0}, {2, 0}, {3, 0}, {3, 1}, {4, 1}} {
		for _, cut := range []int{0, 4, 500, 1000} {
			if s[0] != 1 && cut != 0 {
				continue
			}
			c := jcase{Kind: "crash", Old: [][]jtrec{{{"m", 10, 12}}}, New: []jtrec{{"a", 30, 35}, {"m", 30, 35}}, Step: s[0], Variant: s[1], Cut: cut}
			run(w, &c)
		}
	}
	for _, del := range [][]string{{"b", "c", "d"}, {"0", "1", "a", "b", "c", "d", "e", "f", "g", "h", "i", "k", "l", "m", "z", "zz"}} {
		// stored keys after two or more absent keys in a full-key delete (merge walk of indirectIndex.Delete)
		for _, useRange := range []bool{false, true} {
			var keys []fkey
			for _, k := range []string{"a", "d", "f", "k", "z"} {
				keys = append(keys, fkey{Key: k, Typ: 1, Blocks: [][]int64{{1, 2}, {5}}})
			}
			c := jcase{Kind: "idx", Keys: keys}
			op := jop{Op: "Delete", Keys: del}
			if useRange {
				op = jop{Op: "DeleteRange", Keys: del, Lo: math.MinInt64, Hi: math.MaxInt64}
			}
			probe := []jop{{Op: "KeyCount"}}
			for i, k := range []string{"a", "d", "f", "k", "z"} {
				probe = append(probe, jop{Op: "Contains", Key: k}, jop{Op: "ReadAll", Key: k}, jop{Op: "KeyAt", I: int64(i)})
			}
			c.Ops = append(c.Ops, op)
			c.Ops = append(c.Ops, probe...)
			c.Ops = append(c.Ops, jop{Op: "Reopen"})
			c.Ops = append(c.Ops, probe...)
			c.Ops = append(c.Ops, jop{Op: "TombFile"})
			run(w, &c)
		}
	}
	for v := 0; v < 3; v++ { // the commit's rename fails on a file that already has committed tombstones
		c := jcase{Kind: "renamefail", Old: [][]jtrec{{{"m", 10, 12}}, {{"a", 0, 3}, {"z", 0, 3}}}, New: []jtrec{{"a", 30, 35}, {"m", 30, 35}}, Variant: v}
		run(w, &c)
	}
	{ // MinInt64 tombstone followed by an adjacent one (ts.Min-1 wrap), whole-key coalescing, stale tombstones
		keys := []fkey{{Key: "a", Typ: 1, Blocks: [][]int64{{math.MinInt64, 0}, {5, 9}}}, {Key: "b", Typ: 0, Blocks: [][]int64{{1, 2}, {3, 4}, {8, math.MaxInt64}}}}
		c := jcase{Kind: "idx", Keys: keys, Ops: []jop{
			{Op: "TimeRange"}, {Op: "KeyRange"}, {Op: "Seek", Key: "a"}, {Op: "Seek", Key: "b"}, {Op: "Seek", Key: "ab"},
			{Op: "DeleteRange", Keys: []string{"a"}, Lo: math.MinInt64, Hi: 3}, {Op: "TombRange", Key: "a"}, {Op: "Contains", Key: "a"},
			{Op: "DeleteRange", Keys: []string{"a"}, Lo: math.MinInt64, Hi: 4}, {Op: "TombRange", Key: "a"},
			{Op: "DeleteRange", Keys: []string{"a", "b"}, Lo: 5, Hi: 8}, {Op: "Contains", Key: "a"}, {Op: "ReadAll", Key: "a"}, {Op: "ReadAll", Key: "b"},
			{Op: "DeleteRange", Keys: []string{"a"}, Lo: 9, Hi: math.MaxInt64}, {Op: "Contains", Key: "a"}, {Op: "KeyCount"}, {Op: "TombRange", Key: "a"},
			{Op: "DeleteRange", Keys: []string{"b"}, Lo: 0, Hi: 2}, {Op: "DeleteRange", Keys: []string{"b"}, Lo: 3, Hi: 7}, {Op: "Contains", Key: "b"},
			{Op: "DeleteRange", Keys: []string{"b"}, Lo: 9, Hi: math.MaxInt64}, {Op: "Contains", Key: "b"}, {Op: "ReadAll", Key: "b"},
			{Op: "ContainsValue", Key: "b", T: 8}, {Op: "Reopen"}, {Op: "Contains", Key: "b"}, {Op: "ReadAll", Key: "b"}, {Op: "TombRange", Key: "b"},
			{Op: "Delete", Keys: []string{"b", "a"}}, {Op: "KeyCount"}, {Op: "Seek", Key: "a"}, {Op: "KeyAt", I: 0}, {Op: "TombFile"}, {Op: "Reopen"}, {Op: "KeyCount"}, {Op: "HasTomb"},
		}}
		run(w, &c)
	}
	for w.Len() < w.N {
		var c jcase
		switch x := g.n(100); {
		case x < 22:
			c = g.fileCase()
		case x < 80:
			c = g.idxCase(false)
		case x < 83:
			c = g.idxCase(true)
		case x < 89:
			c = g.tombCase()
		case x < 93:
			c = g.crashCase()
			c.Kind = "renamefail"
			c.Variant = g.n(3)
			if len(c.Old) == 0 && g.n(4) != 0 {
				c.Old = [][]jtrec{{{"m", 10, 12}}}
			}
		default:
			c = g.crashCase()
		}
		run(w, &c)
	}
	os.RemoveAll(tmpRoot)
	w.Finish()
}
