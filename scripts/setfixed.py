#!/usr/bin/env python3
"""setfixed.py <Cxx> <signature> <commit>: record the /repo fix commit of a repaired finding in findings.d/<Cxx>.json"""
import json, sys
c, sig, h = sys.argv[1:4]
p = '/verif/findings.d/%s.json' % c
F = json.load(open(p)); n = 0
for f in F:
    if f['signature'] == sig:
        f['status'] = 'fixed'; f['commit'] = h; n += 1
assert n == 1, (c, sig, n)
json.dump(F, open(p, 'w'), indent=1); print('ok', c, sig, h)
