(** C44 — Only current credentials authenticate.  Property theorems only.

    Every theorem is for ALL crypto records [C] that satisfy the named hypotheses
    [crypto_ok C] (Proofs/C44_base.v: a stored SHA-256/512 PHC hash / bcrypt hash verifies
    exactly the input it was made from; only the producing variant's decoder accepts it), for
    ALL states / histories / headers, without size bounds. *)
From Verif Require Import Base.Prelude Model.C44 Proofs.C44_base Proofs.C44_pw Proofs.C44_auth Proofs.C44_sess.

(** The hypotheses are satisfiable: the instance the correspondence judge computes with meets them. *)
Theorem C44_hypotheses_satisfiable : crypto_ok sym.
Proof. exact sym_ok. Qed.
Print Assumptions C44_hypotheses_satisfiable.

(** ** 1. stored hashes in every supported format verify exactly their own input *)

(** influxdb2-sha256 / influxdb2-sha512 token hashes: a match iff the variant's decoder is
    registered AND the presented token is the hashed one; otherwise (unregistered variant) a
    decode error, never a match. *)
Theorem C44_format_verifies_own_only_token :
  forall C, crypto_ok C -> forall ds v s q,
    hmatch C ds (thash C v s) q = Some true <-> In v ds /\ s = q.
Proof. exact hmatch_own_only. Qed.
Print Assumptions C44_format_verifies_own_only_token.

(** a stored string no decoder accepts (unknown identifier, bad base64, empty key) verifies nothing *)
Theorem C44_malformed_hash_verifies_nothing :
  forall C ds h q, tvariant C h = None -> hmatch C ds h q = None.
Proof. exact hmatch_malformed. Qed.
Print Assumptions C44_malformed_hash_verifies_nothing.

(** bcrypt password hashes of any salt / cost / minor version *)
Theorem C44_format_verifies_own_only_password :
  forall C, crypto_ok C -> forall n p q, pverify C (phash C n p) q = true <-> p = q.
Proof. exact pverify_own_only. Qed.
Print Assumptions C44_format_verifies_own_only_password.

(** ** 2. passwords: after ANY history of user / password operations (including hashes written
    into the bucket directly), ComparePassword returns nil iff the password is acceptable to
    IsPasswordStrong and is the credential the clear-text specification machine [aprun] holds
    for that (existing) user: the password of the last successful SetPassword /
    CompareAndSetPassword ([Known p]: exactly [p], lemma [acheck_known]) or the password a
    directly stored bcrypt hash was made from ([acheck_bcrypt]). *)
Theorem C44_password_only_latest :
  forall C, crypto_ok C -> forall strong ops u q,
    compare_password C (prun C ops (pinit C strong)) u q = 0%N <->
    (acheck C (aprun C strong ops (ainit C)) u q = true /\ strength C strong q = 0%N).
Proof. exact password_only_latest. Qed.
Print Assumptions C44_password_only_latest.

Theorem C44_known_password_is_the_only_one :
  forall C, crypto_ok C -> forall a u p q,
    aget N.eqb u (a_users C a) <> None -> aget N.eqb u (a_pw C a) = Some (Known C p) ->
    (acheck C a u q = true <-> p = q).
Proof. exact acheck_known. Qed.
Print Assumptions C44_known_password_is_the_only_one.

(** the full result class of ComparePassword after any history (wrong user / wrong password /
    "matches but must be changed") *)
Theorem C44_compare_after_history :
  forall C, crypto_ok C -> forall sp ops u q,
    compare_password C (prun C ops (pinit C sp)) u q =
      let a := aprun C sp ops (ainit C) in
      let e := strength C sp q in
      if acheck C a u q then (if N.eqb e 0 then 0%N else 16 + e)%N
      else match aget N.eqb u (a_users C a) with None => 1%N | Some _ => 2%N end.
Proof. exact compare_after_history. Qed.
Print Assumptions C44_compare_after_history.

(** password operations are total (code as of /repo commit 3a5dc47ac9, which guards the class
    check of IsPasswordStrong with [l > 0]; before it the empty password made the check divide
    by zero).  In the model a result is a return value: no password / user operation ever
    yields the panic class 64, and the EMPTY password - with or without strong checking - is
    rejected by SetPassword with exactly the length error, never accepted by ComparePassword,
    and a CompareAndSetPassword to it fails and changes nothing.  Panic freedom of the Go code
    itself is not a theorem: it is OBSERVED by the driver (every password call runs under
    recover; a panic is reported as class 64, which the judge flags as a failing input). *)
Theorem C44_password_ops_never_panic :
  forall C st o, snd (pstep C st o) <> 64%N.
Proof. exact password_ops_never_panic. Qed.
Print Assumptions C44_password_ops_never_panic.

Theorem C44_empty_password_rejected :
  forall C st u salt p, slen C p = 0%N ->
    set_password C st u salt p = (st, 4%N) /\
    compare_password C st u p <> 0%N /\ compare_password C st u p <> 64%N /\
    (forall old, snd (cas_password C st u salt old p) <> 0%N /\ fst (cas_password C st u salt old p) = st).
Proof. exact empty_password_rejected. Qed.
Print Assumptions C44_empty_password_rejected.

(** a failed CompareAndSetPassword changes nothing *)
Theorem C44_failed_cas_changes_nothing :
  forall C st u salt old new,
    snd (cas_password C st u salt old new) <> 0%N -> fst (cas_password C st u salt old new) = st.
Proof. exact failed_cas_changes_nothing. Qed.
Print Assumptions C44_failed_cas_changes_nothing.

(** ** 3. the token store: whatever the state of the raw and hashed indices, a lookup returns
    only a record that is stored under the returned id and whose stored form verifies the
    presented token *)
Theorem C44_find_token_sound :
  forall C, crypto_ok C -> forall st tok id a,
    find_token C st tok = Some (id, a) ->
    aget N.eqb id (recs C st) = Some a /\ verifies C st a tok.
Proof. exact find_token_sound. Qed.
Print Assumptions C44_find_token_sound.

Theorem C44_hashed_record_verifies_own_token_only :
  forall C, crypto_ok C -> forall st a v s tok,
    a_tok C a = empty C -> a_htok C a = thash C v s ->
    (verifies C st a tok <-> In v (decs C st) /\ s = tok).
Proof. exact verifies_hashed. Qed.
Print Assumptions C44_hashed_record_verifies_own_token_only.

(** ** 4. the middleware: the wrapped handler is reached (status 200) with principal [p] IFF
    the user of [p] exists and is active AND
      - the Authorization header carries (scheme Token/Bearer) a non-JWT token that the store
        resolves to a record whose status is ACTIVE, [p] being that record's user/id, or
      - there is no token header, and the cookie's key resolves to a stored unexpired session.
    (Code as of the /repo fix of the finding inactive-token-passes-authentication-middleware:
    extractAuthorization answers 401 for a token whose status is inactive; before it the token's
    status was not part of the condition - this check found that.) *)
Theorem C44_authenticated_iff :
  forall C st h ck renew p,
    (exists st', authenticate C st h ck renew = (200%N, Some p, st')) <-> auth_spec C st h ck p.
Proof. exact authenticated_iff. Qed.
Print Assumptions C44_authenticated_iff.

(** the property's "only if", at full strength: authenticated => the principal's user is
    active AND (the token exists, its stored form verifies exactly the presented token, and it
    is active) OR (a stored session with now < expiry). *)
Theorem C44_authenticated_only_if :
  forall C, crypto_ok C -> forall st h ck renew p st',
    authenticate C st h ck renew = (200%N, Some p, st') ->
    aget N.eqb (p_user p) (users C (ps C st)) = Some true /\
    ((exists t id a, h = HTok C t false /\ p_kind p = 1%N /\ p_ident p = id /\ p_user p = a_user C a /\
                     aget N.eqb id (recs C (ts C st)) = Some a /\ verifies C (ts C st) a t /\
                     a_active C a = true) \/
     (exists k id s e1 e2, ck = Some k /\ p_kind p = 2%N /\ p_ident p = id /\ p_user p = s_user C s /\
                     aget (str_eqb C) k (sidx C (ss C st)) = Some (id, e1) /\ (now C (ss C st) < e1)%Z /\
                     aget N.eqb id (sdat C (ss C st)) = Some (s, e2) /\ (now C (ss C st) < e2)%Z)).
Proof. exact authenticated_only_if. Qed.
Print Assumptions C44_authenticated_only_if.

(** the former counterexample, now positive: a deactivated token of an active user is refused
    with 401 and works again once reactivated *)
Example C44_inactive_token_refused :
  trace sym (init sym false true V256) witness_ops =
    [[0]; [0]; [200; 1; 0; 0; 4]; [0]; [401]; [0]; [200; 1; 0; 0; 4]]%N.
Proof. exact inactive_token_refused. Qed.

(** ** 5. revocation, from ANY state (hence after any history) *)
Theorem C44_deactivated_user_never_authenticates :
  forall C, crypto_ok C -> forall st u h ck renew p x,
    authenticate C (fst (step C st (OP C (SetUserActive C u false)))) h ck renew = (200%N, Some p, x) ->
    p_user p <> u.
Proof. exact deactivated_user_never_authenticates. Qed.
Print Assumptions C44_deactivated_user_never_authenticates.

Theorem C44_deleted_user_never_authenticates :
  forall C, crypto_ok C -> forall st u h ck renew p x,
    authenticate C (fst (step C st (OP C (DeleteUser C u)))) h ck renew = (200%N, Some p, x) ->
    p_user p <> u.
Proof. exact deleted_user_never_authenticates. Qed.
Print Assumptions C44_deleted_user_never_authenticates.

Theorem C44_deleted_token_never_authenticates :
  forall C, crypto_ok C -> forall st id h ck renew p x,
    authenticate C (fst (step C st (OT C (DeleteAuth C id)))) h ck renew = (200%N, Some p, x) ->
    ~ (p_kind p = 1%N /\ p_ident p = id).
Proof. exact deleted_token_never_authenticates. Qed.
Print Assumptions C44_deleted_token_never_authenticates.

Theorem C44_session_unusable_after_expiry :
  forall C, crypto_ok C -> forall st k id e d h renew p x,
    (forall t j, h <> HTok C t j) ->
    aget (str_eqb C) k (sidx C (ss C st)) = Some (id, e) -> (e <= now C (ss C st) + d)%Z ->
    authenticate C (fst (step C st (OS C (Wait C d)))) h (Some k) renew <> (200%N, Some p, x).
Proof. exact session_unusable_after_expiry. Qed.
Print Assumptions C44_session_unusable_after_expiry.

(** after ANY history of operations and probes (invariant over [fold_left step]: every index
    entry points to a record carrying the entry's key), ExpireSession(key) makes the key unusable *)
Theorem C44_expired_session_never_authenticates :
  forall C, crypto_ok C -> forall sp uh hv ops k h renew p x,
    (forall t j, h <> HTok C t j) ->
    authenticate C (fst (step C (run C (init C sp uh hv) ops) (OS C (ExpireSess C k)))) h (Some k) renew
      <> (200%N, Some p, x).
Proof. exact expired_session_never_authenticates. Qed.
Print Assumptions C44_expired_session_never_authenticates.

(** RenewSession(obj, t) re-reads the session by obj's id (Storage.RefreshSession): for a session
    that has been signed out in the meantime, whose record has expired, or that never existed, it
    fails and changes NOTHING - so a stale session object held by a caller (the middleware holds
    one between its FindSession and its RenewSession) can never make the key valid again; together
    with C44_expired_session_never_authenticates (the state is unchanged) the key stays refused. *)
Theorem C44_renew_after_signout_fails :
  forall C st k id s off, find_by_key C st k = Some (id, s) ->
    let st1 := fst (sstep C st (ExpireSess C k)) in
    sstep C st1 (RenewById C id off) = (st1, 4%N).
Proof. exact renew_after_signout_fails. Qed.
Print Assumptions C44_renew_after_signout_fails.

Theorem C44_renew_expired_fails :
  forall C st id s e0 off,
    aget N.eqb id (sdat C st) = Some (s, e0) -> (e0 <= now C st)%Z ->
    sstep C st (RenewById C id off) = (st, 4%N).
Proof. exact renew_expired_fails. Qed.
Print Assumptions C44_renew_expired_fails.

(** ** 6. malformed / absent credentials are rejected *)
Theorem C44_header_scheme :
  forall h t, get_token h = Some t -> get_token_spec h t.
Proof. exact get_token_sound. Qed.
Print Assumptions C44_header_scheme.

Theorem C44_header_scheme_complete :
  forall h t, get_token_spec h t -> exists t', get_token h = Some t'.
Proof. exact get_token_complete. Qed.
Print Assumptions C44_header_scheme_complete.

Theorem C44_no_credentials_rejected :
  forall C st h renew, (forall t j, h <> HTok C t j) -> authenticate C st h None renew = (401%N, None, st).
Proof. exact no_credentials_rejected. Qed.
Print Assumptions C44_no_credentials_rejected.

Theorem C44_principal_only_with_200 :
  forall C st h ck renew c p st', authenticate C st h ck renew = (c, Some p, st') -> c = 200%N.
Proof. exact authenticate_principal_200. Qed.
Print Assumptions C44_principal_only_with_200.

(** Non-vacuity: a history in which a password is set, changed by compare-and-set, the old one
    stops working; a token stored as sha256 hash authenticates, stops after the user is
    deactivated; all computed by the model on the symbolic instance. *)
Example C44_nonvacuous :
  let p1 := SPlain 1 8 3 in let p2 := SPlain 2 8 3 in let t := SPlain 3 5 0 in
  trace sym (init sym false true V256)
    [OP sym (CreateUser sym); OP sym (SetPw sym 0 0 p1); OP sym (CmpPw sym 0 p1);
     OP sym (CasPw sym 0 1 p1 p2); OP sym (CmpPw sym 0 p1); OP sym (CmpPw sym 0 p2);
     OT sym (CreateAuth sym 0 t SEmpty true 2);
     Probe sym (HTok sym t false) None false;
     Probe sym (HTok sym (SPhc V256 t) false) None false;
     OP sym (SetUserActive sym 0 false);
     Probe sym (HTok sym t false) None false]
  = [[0]; [0]; [0]; [0]; [2]; [0]; [0]; [200; 1; 0; 0; 3]; [401]; [0]; [403]]%N.
Proof. vm_compute. reflexivity. Qed.
