(** C28 — Permissions grant exactly what they name.  Property theorems only. *)
From Verif Require Import Base.Prelude Model.C28 Proofs.C28.

Theorem C28_matches_iff : forall p q, matchesV1 p q = true <-> grants p q.
Proof. exact matches_iff. Qed.
Print Assumptions C28_matches_iff.

Theorem C28_allowed_iff_exists_match :
  forall ps q, allowed ps q = true <-> exists p, In p ps /\ grants p q.
Proof. exact allowed_iff. Qed.
Print Assumptions C28_allowed_iff_exists_match.

Theorem C28_read_never_implies_write :
  forall ps q, (forall p, In p ps -> act p <> act q) -> allowed ps q = false.
Proof. exact no_action_no_grant. Qed.
Print Assumptions C28_read_never_implies_write.

Theorem C28_org_scoped_never_other_org :
  forall p q o o', rtype (res p) <> Instance -> rid (res p) = None ->
    rorg (res p) = Some o -> rorg (res q) = Some o' -> o <> o' -> matchesV1 p q = false.
Proof. exact org_scoped_other_org. Qed.
Print Assumptions C28_org_scoped_never_other_org.

(** PermissionSet.Allowed is the plain union of its members: the empty set grants nothing,
    access is monotone in the set, a concatenation grants what either part grants (no
    combination of permissions grants more than one of them alone), and a matching
    permission always carries the request's action. *)
Theorem C28_allowed_is_union :
  (forall q, allowed [] q = false) /\
  (forall ps ps' q, allowed (ps ++ ps') q = allowed ps q || allowed ps' q) /\
  (forall ps ps' q, (forall p, In p ps -> In p ps') -> allowed ps q = true -> allowed ps' q = true) /\
  (forall p q, matchesV1 p q = true -> act p = act q).
Proof.
  split; [exact allowed_nil|]. split; [exact allowed_app|].
  split; [exact allowed_monotone | exact matches_same_action].
Qed.
Print Assumptions C28_allowed_is_union.

(** Non-vacuity: an org-scoped bucket read permission grants a bucket in its org
    and not one in another org. *)
Example C28_nonvacuous :
  let p := {| act := 0; res := {| rtype := 3; rid := None; rorg := Some 7 |} |}%N in
  let q1 := {| act := 0; res := {| rtype := 3; rid := Some 9; rorg := Some 7 |} |}%N in
  let q2 := {| act := 0; res := {| rtype := 3; rid := Some 9; rorg := Some 8 |} |}%N in
  matchesV1 p q1 = true /\ matchesV1 p q2 = false.
Proof. split; reflexivity. Qed.

(** The same characterisation for the definition that go2v GENERATES from authz.go on
    every run (coq/Gen/C28gen.v): this is the obligation that breaks when the source of
    [Permission.matchesV1] changes meaning. *)
From Verif Require Import Gen.C28gen Proofs.C28gen.
Theorem C28_source_matches_iff : forall p q, matchesV1_gen p q = true <-> grants p q.
Proof. exact gen_matches_iff. Qed.
Print Assumptions C28_source_matches_iff.
