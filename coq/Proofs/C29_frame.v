(** C29 — frame theorem: a wrapped call never modifies or removes a stored resource the
    caller is not entitled to write. *)
From Verif Require Import Base.Prelude Model.C28 Proofs.C28 Model.C29 Proofs.C29.

(** (kind, id) identifies a stored resource (ids are generated fresh by the services). *)
Definition uniq (s : store) : Prop :=
  forall r1 r2, In r1 (s_res s) -> In r2 (s_res s) ->
    r_kind r1 = r_kind r2 -> r_id r1 = r_id r2 -> r1 = r2.

Lemma lookup_uniq s k id r0 :
  uniq s -> In r0 (s_res s) -> is_res k id r0 = true -> lookup s k id = Some r0.
Proof.
  intros U Hin Hr. unfold lookup. destruct (find (is_res k id) (s_res s)) as [r'|] eqn:F.
  - apply find_some in F as [F1 F2]. apply is_res_spec in F2 as [K I]. apply is_res_spec in Hr as [K0 I0].
    f_equal. apply U; congruence.
  - exfalso. pose proof (find_none _ _ F r0 Hin) as H. congruence.
Qed.

(** What entitles the caller to touch r0: write on r0 itself, or — for a bucket — write on
    the owning organization (DeleteOrganization removes the org's buckets). *)
Definition may_touch (c : caller) (r0 : rsrc) : Prop :=
  Forall (holds c) (write_reqs r0) \/
  (r_kind r0 = KBucket /\ holds c (mk A_WRITE T_ORG (Some (r_org r0)) None)).

Lemma target_of_member s k id r0 :
  uniq s -> In r0 (s_res s) -> is_res k id r0 = true -> target s k id = r0.
Proof. intros U Hin Hr. unfold target. rewrite (lookup_uniq s k id r0 U Hin Hr). reflexivity. Qed.

Lemma svc_create_keeps c s new sysids r0 :
  In r0 (s_res s) -> In r0 (s_res (st (svc_create c s new sysids))).
Proof.
  intro Hin. unfold svc_create. destruct (r_kind new); cbn;
    repeat match goal with |- context [if ?b then _ else _] => destruct b; cbn end;
    try exact Hin; apply in_or_app; left; exact Hin.
Qed.

Lemma create_keeps c s v new sysids r0 :
  In r0 (s_res s) -> In r0 (s_res (st (create c s v new sysids))).
Proof.
  intro Hin. unfold create. destruct (authorize_all c (create_reqs new)); try exact Hin.
  destruct (r_kind new) eqn:K; try (apply svc_create_keeps; exact Hin).
  destruct (negb (verify_perms c (r_perms new))); [exact Hin|].
  destruct (_ && _); [exact Hin | apply svc_create_keeps; exact Hin].
Qed.

Theorem untouchable_resources_survive c s x r0 :
  uniq s -> In r0 (s_res s) -> ~ may_touch c r0 -> In r0 (s_res (st (step c s x))).
Proof.
  intros U Hin Hn.
  destruct x as [k v id|k f|v new sysids|k v id pay a|k v id]; cbn [step].
  - rewrite find1_state; exact Hin.
  - rewrite findn_state; exact Hin.
  - apply create_keeps; exact Hin.
  - (* update *)
    destruct (st (update c s k id pay a)) eqn:E.
    assert (Hs : st (update c s k id pay a) = s \/
                 (Forall (holds c) (write_reqs (target s k id)) /\
                  st (update c s k id pay a) = st (svc_update s k id pay a))).
    { unfold update, guarded_mut, target. destruct (lookup_first_mut k) eqn:LF.
      - destruct (lookup s k id) as [r|] eqn:L; [|left; reflexivity].
        destruct (authorize_all c (write_reqs r)) eqn:A; try (left; reflexivity).
        right. split; [apply authorize_all_ok; exact A | reflexivity].
      - destruct (authorize_all c (write_reqs (stub k id))) eqn:A; try (left; reflexivity).
        right. split; [|reflexivity]. apply authorize_all_ok in A.
        destruct (lookup s k id) as [r|] eqn:L; [|exact A].
        apply lookup_some in L as [_ [L2 L3]]. rewrite <- (write_reqs_stub k id r LF L2 L3). exact A. }
    rewrite <- E. destruct Hs as [Hs|[Ha Hs]]; rewrite Hs; [exact Hin|].
    unfold svc_update. destruct (lookup s k id) as [r|] eqn:L; [|exact Hin]. cbn.
    destruct (is_res k id r0) eqn:R.
    + exfalso. apply Hn. left. rewrite <- (target_of_member s k id r0 U Hin R). exact Ha.
    + apply in_map_iff. exists r0. split; [|exact Hin]. unfold set_pay. rewrite R. reflexivity.
  - (* delete *)
    assert (Hs : st (delete c s k id) = s \/
                 (Forall (holds c) (write_reqs (target s k id)) /\
                  st (delete c s k id) = st (svc_delete s k id))).
    { unfold delete, guarded_mut, target. destruct (lookup_first_mut k) eqn:LF.
      - destruct (lookup s k id) as [r|] eqn:L; [|left; reflexivity].
        destruct (authorize_all c (write_reqs r)) eqn:A; try (left; reflexivity).
        right. split; [apply authorize_all_ok; exact A | reflexivity].
      - destruct (authorize_all c (write_reqs (stub k id))) eqn:A; try (left; reflexivity).
        right. split; [|reflexivity]. apply authorize_all_ok in A.
        destruct (lookup s k id) as [r|] eqn:L; [|exact A].
        apply lookup_some in L as [_ [L2 L3]]. rewrite <- (write_reqs_stub k id r LF L2 L3). exact A. }
    destruct Hs as [Hs|[Ha Hs]]; rewrite Hs; [exact Hin|].
    assert (R : is_res k id r0 = false).
    { destruct (is_res k id r0) eqn:R; [|reflexivity]. exfalso. apply Hn. left.
      rewrite <- (target_of_member s k id r0 U Hin R). exact Ha. }
    unfold svc_delete. destruct (lookup s k id) as [r|] eqn:L; [|exact Hin].
    destruct k; cbn.
    + destruct (r_sys r); cbn; [exact Hin|]. apply filter_In. split; [exact Hin|]. rewrite R. reflexivity.
    + apply filter_In. split; [exact Hin|]. rewrite R. cbn.
      destruct (kind_eqb (r_kind r0) KBucket && N.eqb (r_org r0) id) eqn:B; [|reflexivity].
      exfalso. apply andb_true_iff in B as [B1 B2]. apply kind_eqb_eq in B1. apply N.eqb_eq in B2.
      apply Hn. right. split; [exact B1|].
      (* the caller holds write on org [id] = r_org r0 *)
      assert (W : write_reqs (target s KOrg id) = [mk A_WRITE T_ORG (Some id) None]).
      { unfold target. rewrite L. apply lookup_some in L as [_ [L2 L3]].
        destruct r as [rk ri ro ru rs rp ra rps]; cbn in *. subst. reflexivity. }
      rewrite W in Ha. inversion Ha; subst. assumption.
    + apply filter_In. split; [exact Hin|]. rewrite R. reflexivity.
    + apply filter_In. split; [exact Hin|]. rewrite R. reflexivity.
Qed.

(** Along a history: as long as (kind, id) stays a key of every intermediate store (created
    ids are fresh), a resource the caller may not touch is still there, unchanged, at the end. *)
Theorem untouchable_resources_survive_history c xs : forall s0 r0,
  Forall (fun t => uniq (fst (fst t))) (trace c s0 xs) ->
  In r0 (s_res s0) -> ~ may_touch c r0 -> In r0 (s_res (snd (run c s0 xs))).
Proof.
  induction xs as [|x t IH]; intros s0 r0 HU Hin Hn; cbn; [exact Hin|].
  cbn in HU. inversion HU as [|? ? U HU']; subst. cbn in U.
  specialize (IH (st (step c s0 x)) r0 HU' (untouchable_resources_survive c s0 x r0 U Hin Hn) Hn).
  destruct (run c (st (step c s0 x)) t) as [rs s'] eqn:E. cbn in *. exact IH.
Qed.

(** Update and delete keep (kind, id) a key; so does a create whose new ids are fresh. *)
Lemma uniq_map_set_pay s k id pay a :
  uniq s -> uniq (mkstore (map (set_pay k id pay a) (s_res s)) (s_urm s)).
Proof.
  intros U r1 r2 H1 H2 HK HI. cbn in H1, H2.
  apply in_map_iff in H1 as [a1 [E1 I1]]. apply in_map_iff in H2 as [a2 [E2 I2]].
  assert (P : forall x, r_kind (set_pay k id pay a x) = r_kind x /\ r_id (set_pay k id pay a x) = r_id x).
  { intro x. unfold set_pay. destruct (is_res k id x); cbn; auto. }
  assert (a1 = a2).
  { apply U; auto.
    - rewrite <- (proj1 (P a1)), <- (proj1 (P a2)), E1, E2. exact HK.
    - rewrite <- (proj2 (P a1)), <- (proj2 (P a2)), E1, E2. exact HI. }
  subst. reflexivity.
Qed.

Lemma uniq_filter s f u :
  uniq s -> uniq (mkstore (filter f (s_res s)) u).
Proof.
  intros U r1 r2 H1 H2. cbn in H1, H2. apply filter_In in H1 as [H1 _]. apply filter_In in H2 as [H2 _].
  apply U; assumption.
Qed.

Theorem update_delete_keep_keys c s x :
  (match x with CCreate _ _ _ => False | _ => True end) -> uniq s -> uniq (st (step c s x)).
Proof.
  intros Hx U. destruct x as [k v id|k f|v new sysids|k v id pay a|k v id]; cbn [step]; try contradiction.
  - rewrite find1_state; exact U.
  - rewrite findn_state; exact U.
  - unfold update, guarded_mut.
    assert (Hs : uniq (st (svc_update s k id pay a))).
    { unfold svc_update. destruct (lookup s k id); cbn; [apply uniq_map_set_pay; exact U | exact U]. }
    destruct (lookup_first_mut k).
    + destruct (lookup s k id) as [r|]; [|exact U]. destruct (authorize_all c (write_reqs r)); auto.
    + destruct (authorize_all c (write_reqs (stub k id))); auto.
  - unfold delete, guarded_mut.
    assert (Hs : uniq (st (svc_delete s k id))).
    { unfold svc_delete. destruct (lookup s k id) as [r|]; cbn; [|exact U].
      destruct k; cbn; try (apply uniq_filter; exact U).
      destruct (r_sys r); cbn; [exact U | apply uniq_filter; exact U]. }
    destruct (lookup_first_mut k).
    + destruct (lookup s k id) as [r|]; [|exact U]. destruct (authorize_all c (write_reqs r)); auto.
    + destruct (authorize_all c (write_reqs (stub k id))); auto.
Qed.
