// C22 driver: runs generated InfluxQL SELECT statements through the REAL query engine
// (influxql.ParseQuery -> query.Select = Compile/Prepare/buildCursor -> query.Emitter) over a
// REAL tsdb.Store with 1-2 shards (tsi1 index, series file, WAL; optionally snapshotted to TSM
// files) mapped by the REAL coordinator.LocalShardMapper (fake MetaClient/DBRP returning the
// shard groups), and records, per output series, the rows that were emitted.
package main

import (
	"context"
	"fmt"
	"math"
	"math/rand/v2"
	"os"
	"path/filepath"
	"sort"
	"strings"
	"time"

	influxdb "github.com/influxdata/influxdb/v2"
	"github.com/influxdata/influxdb/v2/influxql/query"
	"github.com/influxdata/influxdb/v2/kit/platform"
	"github.com/influxdata/influxdb/v2/models"
	"github.com/influxdata/influxdb/v2/tsdb"
	_ "github.com/influxdata/influxdb/v2/tsdb/engine"
	"github.com/influxdata/influxdb/v2/tsdb/engine/tsm1"
	_ "github.com/influxdata/influxdb/v2/tsdb/index"
	"github.com/influxdata/influxdb/v2/v1/coordinator"
	"github.com/influxdata/influxdb/v2/v1/services/meta"
	"github.com/influxdata/influxql"
	"verifh/vh"
)

const sec = int64(time.Second)
const maxRows = 2000

// ---- case data ----

// A point of series (t1=T1, t2=T2) at time T seconds; F/G are the integer fields f and g
// (nil = the point does not carry the field).
type jpoint struct {
	T1 string `json:"t1"`
	T2 string `json:"t2"`
	T  int64  `json:"t"`
	F  *int64 `json:"f,omitempty"`
	G  *int64 `json:"g,omitempty"`
}

type jsel struct {
	Fn    string `json:"fn,omitempty"` // "" raw field | count sum mean min max first last
	Field string `json:"field"`        // f | g
}

// Condition tree on tags and fields.
type jcond struct {
	Op  string  `json:"op"` // and | or | tag= | tag!= | f= f!= f< f<= f> f>=
	L   *jcond  `json:"l,omitempty"`
	R   *jcond  `json:"r,omitempty"`
	Key string  `json:"key,omitempty"`
	Str string  `json:"str,omitempty"`
	Int int64   `json:"int,omitempty"`
}

type jquery struct {
	Sel       []jsel   `json:"sel"`
	Cond      *jcond   `json:"cond,omitempty"`
	MinIncl   bool     `json:"min_incl"` // time >= / time >
	Min       int64    `json:"min"`      // seconds
	MaxIncl   bool     `json:"max_incl"` // time <= / time <
	Max       int64    `json:"max"`
	Every     int64    `json:"every,omitempty"` // GROUP BY time(every s[, offset s]); 0 = none
	Offset    int64    `json:"goffset,omitempty"`
	GroupTags []string `json:"group_tags,omitempty"`
	Fill      string   `json:"fill,omitempty"` // "" (default) none null previous linear value
	FillValue int64    `json:"fill_value,omitempty"`
	Desc      bool     `json:"desc,omitempty"`
	Limit     int      `json:"limit,omitempty"`
	ROffset   int      `json:"offset,omitempty"`
	SLimit    int      `json:"slimit,omitempty"`
	SOffset   int      `json:"soffset,omitempty"`
}

type jval struct {
	K string `json:"k"` // null | int | float
	I int64  `json:"i,omitempty"`
	B uint64 `json:"bits,omitempty"`
	S string `json:"s,omitempty"` // informational
}
type jrow struct {
	T    int64  `json:"t"` // ns
	Vals []jval `json:"vals"`
}
type jseries struct {
	Tags [][2]string `json:"tags"`
	Rows []jrow      `json:"rows"`
}

type jcase struct {
	Points  []jpoint  `json:"points"`
	Split   int64     `json:"split"` // seconds: shard 1 holds t < split, shard 2 t >= split; 0 = one shard
	Flush   int       `json:"flush"` // number of leading points written before a snapshot to TSM (-1: none)
	Q       jquery    `json:"query"`
	Text    string    `json:"text"`
	Err     string    `json:"impl_err,omitempty"`
	Out     []jseries `json:"impl_out"`
}

// ---- query text ----

func condText(c *jcond) string {
	switch c.Op {
	case "and":
		return "(" + condText(c.L) + " AND " + condText(c.R) + ")"
	case "or":
		return "(" + condText(c.L) + " OR " + condText(c.R) + ")"
	case "tag=":
		return fmt.Sprintf("%s = '%s'", c.Key, c.Str)
	case "tag!=":
		return fmt.Sprintf("%s != '%s'", c.Key, c.Str)
	}
	return fmt.Sprintf("%s %s %d", c.Key, c.Op[1:], c.Int)
}

func queryText(q *jquery) string {
	var b strings.Builder
	b.WriteString("SELECT ")
	for i, s := range q.Sel {
		if i > 0 {
			b.WriteString(", ")
		}
		if s.Fn == "" {
			b.WriteString(s.Field)
		} else {
			fmt.Fprintf(&b, "%s(%s)", s.Fn, s.Field)
		}
	}
	b.WriteString(" FROM db0.rp0.m WHERE time ")
	if q.MinIncl {
		b.WriteString(">= ")
	} else {
		b.WriteString("> ")
	}
	fmt.Fprintf(&b, "%ds AND time ", q.Min)
	if q.MaxIncl {
		b.WriteString("<= ")
	} else {
		b.WriteString("< ")
	}
	fmt.Fprintf(&b, "%ds", q.Max)
	if q.Cond != nil {
		b.WriteString(" AND " + condText(q.Cond))
	}
	var dims []string
	if q.Every > 0 {
		if q.Offset != 0 {
			dims = append(dims, fmt.Sprintf("time(%ds, %ds)", q.Every, q.Offset))
		} else {
			dims = append(dims, fmt.Sprintf("time(%ds)", q.Every))
		}
	}
	dims = append(dims, q.GroupTags...)
	if len(dims) > 0 {
		b.WriteString(" GROUP BY " + strings.Join(dims, ", "))
	}
	switch q.Fill {
	case "":
	case "value":
		fmt.Fprintf(&b, " fill(%d)", q.FillValue)
	default:
		fmt.Fprintf(&b, " fill(%s)", q.Fill)
	}
	if q.Desc {
		b.WriteString(" ORDER BY time DESC")
	}
	if q.Limit > 0 {
		fmt.Fprintf(&b, " LIMIT %d", q.Limit)
	}
	if q.ROffset > 0 {
		fmt.Fprintf(&b, " OFFSET %d", q.ROffset)
	}
	if q.SLimit > 0 {
		fmt.Fprintf(&b, " SLIMIT %d", q.SLimit)
	}
	if q.SOffset > 0 {
		fmt.Fprintf(&b, " SOFFSET %d", q.SOffset)
	}
	return b.String()
}

// ---- the real engine ----

type fakeMeta struct{ groups []meta.ShardGroupInfo }

// Same selection rule as meta.Client.ShardGroupsByTimeRange (non-deleted groups overlapping [min,max]).
func (m *fakeMeta) ShardGroupsByTimeRange(database, policy string, min, max time.Time) ([]meta.ShardGroupInfo, error) {
	var out []meta.ShardGroupInfo
	for _, g := range m.groups {
		if g.Deleted() || !g.Overlaps(min, max) {
			continue
		}
		out = append(out, g)
	}
	if os.Getenv("C22_DEBUG") != "" {
		fmt.Fprintln(os.Stderr, "ShardGroupsByTimeRange", min.UnixNano(), max.UnixNano(), len(out))
	}
	return out, nil
}

type fakeDBRP struct{}

func (fakeDBRP) FindByID(ctx context.Context, orgID, id platform.ID) (*influxdb.DBRPMapping, error) {
	return nil, fmt.Errorf("not implemented")
}
func (fakeDBRP) FindMany(ctx context.Context, f influxdb.DBRPMappingFilter, opts ...influxdb.FindOptions) ([]*influxdb.DBRPMapping, int, error) {
	return []*influxdb.DBRPMapping{{ID: 1, Database: "db0", RetentionPolicy: "rp0", Default: true, OrganizationID: 1, BucketID: 2}}, 1, nil
}
func (fakeDBRP) Create(ctx context.Context, dbrp *influxdb.DBRPMapping) error { return nil }
func (fakeDBRP) Update(ctx context.Context, dbrp *influxdb.DBRPMapping) error { return nil }
func (fakeDBRP) Delete(ctx context.Context, orgID, id platform.ID) error       { return nil }

type world struct {
	dir    string
	store  *tsdb.Store
	mapper *coordinator.LocalShardMapper
}

func (wd *world) close() {
	if wd.store != nil {
		wd.store.Close()
	}
	os.RemoveAll(wd.dir)
}

func snapshot(st *tsdb.Store, id uint64) error {
	sh := st.Shard(id)
	if sh == nil {
		return nil
	}
	e, err := sh.Engine()
	if err != nil {
		return err
	}
	if te, ok := e.(*tsm1.Engine); ok {
		return te.WriteSnapshot()
	}
	return fmt.Errorf("not a tsm1 engine")
}

// build opens a fresh store, creates the shards and writes the dataset.
func build(root string, c *jcase) (*world, error) {
	dir, err := os.MkdirTemp(root, "c22-")
	if err != nil {
		return nil, err
	}
	wd := &world{dir: dir}
	st := tsdb.NewStore(filepath.Join(dir, "data"))
	st.EngineOptions.IndexVersion = tsdb.TSI1IndexName
	st.EngineOptions.Config.WALDir = filepath.Join(dir, "wal")
	st.EngineOptions.Config.WALFsyncDelay = 0
	if err := st.Open(context.Background()); err != nil {
		os.RemoveAll(dir)
		return nil, err
	}
	wd.store = st
	ctx := context.Background()
	far := time.Unix(1000000, 0)
	var groups []meta.ShardGroupInfo
	if c.Split > 0 {
		groups = []meta.ShardGroupInfo{
			{ID: 1, StartTime: time.Unix(-1000000, 0), EndTime: time.Unix(c.Split, 0), Shards: []meta.ShardInfo{{ID: 1}}},
			{ID: 2, StartTime: time.Unix(c.Split, 0), EndTime: far, Shards: []meta.ShardInfo{{ID: 2}}},
		}
	} else {
		groups = []meta.ShardGroupInfo{{ID: 1, StartTime: time.Unix(-1000000, 0), EndTime: far, Shards: []meta.ShardInfo{{ID: 1}}}}
	}
	for _, g := range groups {
		if err := st.CreateShard(ctx, "db0", "rp0", g.Shards[0].ID, true); err != nil {
			wd.close()
			return nil, err
		}
	}
	for i, p := range c.Points {
		if i == c.Flush {
			for _, g := range groups {
				if err := snapshot(st, g.Shards[0].ID); err != nil {
					wd.close()
					return nil, err
				}
			}
		}
		fields := models.Fields{}
		if p.F != nil {
			fields["f"] = *p.F
		}
		if p.G != nil {
			fields["g"] = *p.G
		}
		tags := map[string]string{}
		if p.T1 != "" {
			tags["t1"] = p.T1
		}
		if p.T2 != "" {
			tags["t2"] = p.T2
		}
		pt, err := models.NewPoint("m", models.NewTags(tags), fields, time.Unix(p.T, 0))
		if err != nil {
			wd.close()
			return nil, err
		}
		id := uint64(1)
		if c.Split > 0 && p.T >= c.Split {
			id = 2
		}
		if err := st.WriteToShard(ctx, id, []models.Point{pt}); err != nil {
			wd.close()
			return nil, err
		}
	}
	wd.mapper = &coordinator.LocalShardMapper{MetaClient: &fakeMeta{groups: groups}, TSDBStore: st, DBRP: fakeDBRP{}}
	return wd, nil
}

func errClass(err error) string {
	if err == nil {
		return ""
	}
	return "error: " + err.Error()
}

// exec runs the statement text on the world and fills c.Out / c.Err.
func exec(wd *world, c *jcase) {
	c.Out = []jseries{}
	c.Err = ""
	q, err := influxql.ParseQuery(c.Text)
	if err != nil {
		c.Err = "parse " + errClass(err)
		return
	}
	stmt, ok := q.Statements[0].(*influxql.SelectStatement)
	if !ok {
		c.Err = "not a select"
		return
	}
	ctx, cancel := context.WithTimeout(context.Background(), 20*time.Second)
	defer cancel()
	cur, err := query.Select(ctx, stmt, wd.mapper, query.SelectOptions{OrgID: 1})
	if err != nil {
		c.Err = errClass(err)
		return
	}
	em := query.NewEmitter(cur, 500) // chunked so that a runaway result is cut early; chunks of one series are re-joined below
	defer em.Close()
	total := 0
	lastPartial := false
	for {
		row, _, err := em.Emit()
		if err != nil {
			c.Err = errClass(err)
			return
		}
		if row == nil {
			break
		}
		if total > maxRows { // a correct engine returns <= ~150 rows on these domains
			c.Err = "runaway: engine returned more than 2000 rows"
			return
		}
		total += len(row.Values)
		s := jseries{Tags: [][2]string{}, Rows: []jrow{}}
		keys := make([]string, 0, len(row.Tags))
		for k := range row.Tags {
			keys = append(keys, k)
		}
		sort.Strings(keys)
		for _, k := range keys {
			s.Tags = append(s.Tags, [2]string{k, row.Tags[k]})
		}
		for _, vals := range row.Values {
			r := jrow{Vals: []jval{}}
			for i, v := range vals {
				if i == 0 {
					if t, ok := v.(time.Time); ok {
						r.T = t.UnixNano()
						continue
					}
				}
				switch x := v.(type) {
				case nil:
					r.Vals = append(r.Vals, jval{K: "null"})
				case *float64:
					if x == nil {
						r.Vals = append(r.Vals, jval{K: "null"})
					} else {
						r.Vals = append(r.Vals, jval{K: "float", B: math.Float64bits(*x), S: fmt.Sprint(*x)})
					}
				case int64:
					r.Vals = append(r.Vals, jval{K: "int", I: x})
				case float64:
					r.Vals = append(r.Vals, jval{K: "float", B: math.Float64bits(x), S: fmt.Sprint(x)})
				default:
					r.Vals = append(r.Vals, jval{K: fmt.Sprintf("other:%T", v), S: fmt.Sprint(v)})
				}
			}
			s.Rows = append(s.Rows, r)
		}
		if n := len(c.Out); n > 0 && lastPartial && fmt.Sprint(c.Out[n-1].Tags) == fmt.Sprint(s.Tags) {
			c.Out[n-1].Rows = append(c.Out[n-1].Rows, s.Rows...)
		} else {
			c.Out = append(c.Out, s)
		}
		lastPartial = row.Partial
	}
}

// ---- Gallina rendering ----

func optZ(p *int64) string {
	if p == nil {
		return "None"
	}
	return vh.Some(vh.Z(*p))
}

func tagTerm(s string) string { // tag values: "" -> 0, a -> 1, b -> 2
	switch s {
	case "":
		return "0%N"
	case "a":
		return "1%N"
	case "b":
		return "2%N"
	}
	panic("tag value " + s)
}
func keyTerm(k string) string {
	switch k {
	case "t1":
		return "T1"
	case "t2":
		return "T2"
	case "f":
		return "Ff"
	case "g":
		return "Fg"
	}
	panic("key " + k)
}

func sfTerm(bits uint64) string {
	b := bits
	s := vh.Bool(b>>63 != 0)
	e := int64((b >> 52) & 0x7ff)
	fr := b & (1<<52 - 1)
	switch {
	case e == 0x7ff && fr != 0:
		return "S754_nan"
	case e == 0x7ff:
		return "(S754_infinity " + s + ")"
	case e == 0 && fr == 0:
		return "(S754_zero " + s + ")"
	case e == 0:
		return fmt.Sprintf("(S754_finite %s %d%%positive (-1074))", s, fr)
	}
	return fmt.Sprintf("(S754_finite %s %d%%positive (%d))", s, fr|1<<52, e-1075)
}

func condTerm(c *jcond) string {
	switch c.Op {
	case "and":
		return "(CAnd " + condTerm(c.L) + " " + condTerm(c.R) + ")"
	case "or":
		return "(COr " + condTerm(c.L) + " " + condTerm(c.R) + ")"
	case "tag=":
		return fmt.Sprintf("(CTag %s true %s)", keyTerm(c.Key), tagTerm(c.Str))
	case "tag!=":
		return fmt.Sprintf("(CTag %s false %s)", keyTerm(c.Key), tagTerm(c.Str))
	}
	ops := map[string]string{"f=": "OEq", "f!=": "ONe", "f<": "OLt", "f<=": "OLe", "f>": "OGt", "f>=": "OGe"}
	return fmt.Sprintf("(CField %s %s %s)", keyTerm(c.Key), ops[c.Op], vh.Z(c.Int))
}

// effective merges the write sequence: a later write of the same (series, time) replaces the
// fields it carries and keeps the others (last write wins per (series, field, time)).
func effective(ws []jpoint) []jpoint {
	type k struct {
		a, b string
		t    int64
	}
	pos := map[k]int{}
	var out []jpoint
	for _, p := range ws {
		key := k{p.T1, p.T2, p.T}
		i, ok := pos[key]
		if !ok {
			pos[key] = len(out)
			out = append(out, p)
			continue
		}
		if p.F != nil {
			out[i].F = p.F
		}
		if p.G != nil {
			out[i].G = p.G
		}
	}
	return out
}

// crossSeriesTies: two different series share a timestamp.
func crossSeriesTies(ws []jpoint) bool {
	seen := map[int64]string{}
	for _, p := range ws {
		id := p.T1 + "," + p.T2
		if o, ok := seen[p.T]; ok && o != id {
			return true
		}
		seen[p.T] = id
	}
	return false
}

func caseTerm(c *jcase) string {
	eff := effective(c.Points)
	pts := make([]string, len(eff))
	for i, p := range eff {
		pts[i] = fmt.Sprintf("(mkpt %s %s %s %s %s)", tagTerm(p.T1), tagTerm(p.T2), vh.Z(p.T*sec), optZ(p.F), optZ(p.G))
	}
	q := &c.Q
	sels := make([]string, len(q.Sel))
	fns := map[string]string{"": "Raw", "count": "Count", "sum": "Sum", "mean": "Mean", "min": "Min", "max": "Max", "first": "First", "last": "Last"}
	for i, s := range q.Sel {
		sels[i] = fmt.Sprintf("(%s, %s)", fns[s.Fn], keyTerm(s.Field))
	}
	cond := "None"
	if q.Cond != nil {
		cond = vh.Some(condTerm(q.Cond))
	}
	gts := make([]string, len(q.GroupTags))
	for i, k := range q.GroupTags {
		gts[i] = keyTerm(k)
	}
	fill := map[string]string{"": "FDefault", "none": "FNone", "null": "FNull", "previous": "FPrevious", "linear": "FLinear"}[q.Fill]
	if q.Fill == "value" {
		fill = "(FValue " + vh.Z(q.FillValue) + ")"
	}
	qt := fmt.Sprintf("{| q_sel := %s; q_cond := %s; q_min_incl := %s; q_min := %s; q_max_incl := %s; q_max := %s; q_every := %s; q_goffset := %s; q_gtags := %s; q_fill := %s; q_desc := %s; q_limit := %s; q_offset := %s; q_slimit := %s; q_soffset := %s |}",
		vh.List(sels), cond, vh.Bool(q.MinIncl), vh.Z(q.Min*sec), vh.Bool(q.MaxIncl), vh.Z(q.Max*sec), vh.Z(q.Every*sec), vh.Z(q.Offset*sec),
		vh.List(gts), fill, vh.Bool(q.Desc), vh.Nat(q.Limit), vh.Nat(q.ROffset), vh.Nat(q.SLimit), vh.Nat(q.SOffset))
	out := make([]string, len(c.Out))
	for i, s := range c.Out {
		tags := make([]string, len(s.Tags))
		for j, kv := range s.Tags {
			tags[j] = fmt.Sprintf("(%s, %s)", keyTerm(kv[0]), tagTerm(kv[1]))
		}
		rows := make([]string, len(s.Rows))
		for j, r := range s.Rows {
			vals := make([]string, len(r.Vals))
			for k, v := range r.Vals {
				switch v.K {
				case "null":
					vals[k] = "INull"
				case "int":
					vals[k] = "(IInt " + vh.Z(v.I) + ")"
				case "float":
					vals[k] = "(IFloat " + sfTerm(v.B) + ")"
				default:
					vals[k] = "IOther"
				}
			}
			rows[j] = fmt.Sprintf("(%s, %s)", vh.Z(r.T), vh.List(vals))
		}
		out[i] = fmt.Sprintf("(%s, %s)", vh.List(tags), vh.List(rows))
	}
	return fmt.Sprintf("{| c_points := %s; c_split := %s; c_query := %s; c_err := %s; c_out := %s |}",
		vh.List(pts), vh.Z(c.Split*sec), qt, vh.Bool(c.Err != ""), vh.List(out))
}

// ---- generation ----

func ip(v int64) *int64 { return &v }

var tagVals = []string{"a", "b"}

func genDataset(r *rand.Rand, c *jcase) (ties bool) {
	c.Points = nil
	type sk struct{ a, b string }
	var series []sk
	for _, a := range tagVals {
		for _, b := range tagVals {
			if r.IntN(6) != 0 {
				series = append(series, sk{a, b})
			}
		}
	}
	if len(series) == 0 {
		series = []sk{{"a", "b"}}
	}
	vmax := int64(4)
	if r.IntN(3) == 0 {
		vmax = 9
	}
	val := func() int64 { return r.Int64N(2*vmax+1) - vmax }
	mk := func(s sk, t int64) jpoint {
		p := jpoint{T1: s.a, T2: s.b, T: t}
		switch r.IntN(10) {
		case 0, 1:
			p.F = ip(val())
		case 2:
			p.G = ip(val())
		default:
			p.F, p.G = ip(val()), ip(val())
		}
		return p
	}
	ties = r.IntN(4) == 0
	if ties { // per-series random times: timestamps shared across series are frequent
		for _, s := range series {
			n := r.IntN(9)
			perm := r.Perm(20)
			for i := 0; i < n; i++ {
				c.Points = append(c.Points, mk(s, int64(perm[i])))
			}
		}
		r.Shuffle(len(c.Points), func(i, j int) { c.Points[i], c.Points[j] = c.Points[j], c.Points[i] })
	} else { // globally distinct timestamps
		n := r.IntN(17)
		perm := r.Perm(22)
		for i := 0; i < n; i++ {
			c.Points = append(c.Points, mk(series[r.IntN(len(series))], int64(perm[i])))
		}
	}
	c.Split = 0
	if r.IntN(5) >= 2 {
		c.Split = 4 + r.Int64N(12)
	}
	c.Flush = -1
	if r.IntN(2) == 0 {
		c.Flush = r.IntN(len(c.Points) + 1)
	}
	// overwrites: re-write some already written (series, field, time) triples with new values
	// AFTER the snapshot point (old value in the TSM file, new value in the cache), or, without a
	// snapshot, inside the cache.
	if n := len(c.Points); n > 0 && r.IntN(2) == 0 {
		lim := n
		if c.Flush > 0 {
			lim = c.Flush
		}
		if c.Flush != 0 {
			k := 1 + r.IntN(3)
			for i := 0; i < k; i++ {
				o := c.Points[r.IntN(lim)]
				p := jpoint{T1: o.T1, T2: o.T2, T: o.T}
				if o.F != nil && r.IntN(3) != 0 {
					p.F = ip(val())
				}
				if o.G != nil && (p.F == nil || r.IntN(2) == 0) {
					p.G = ip(val())
				}
				if p.F == nil && p.G == nil {
					p.F = ip(val())
				}
				c.Points = append(c.Points, p)
			}
		}
	}
	// schema shapes: a field that is never written (calls on it are no column at all), or that
	// exists only in the second shard (unknown to queries whose time range maps to shard 1 only)
	switch r.IntN(8) {
	case 0:
		for i := range c.Points {
			if c.Points[i].F == nil {
				c.Points[i].F = c.Points[i].G
			}
			c.Points[i].G = nil
		}
	case 1:
		for i := range c.Points {
			if c.Split == 0 || c.Points[i].T < c.Split {
				if c.Points[i].G == nil {
					c.Points[i].G = c.Points[i].F
				}
				c.Points[i].F = nil
			}
		}
	}
	return crossSeriesTies(c.Points)
}

var aggFns = []string{"count", "sum", "mean", "min", "max", "first", "last"}
var fieldNames = []string{"f", "g"}

func genCond(r *rand.Rand, depth int) *jcond {
	if depth > 0 && r.IntN(2) == 0 {
		op := "and"
		if r.IntN(2) == 0 {
			op = "or"
		}
		return &jcond{Op: op, L: genCond(r, depth-1), R: genCond(r, depth-1)}
	}
	if r.IntN(2) == 0 {
		op := "tag="
		if r.IntN(3) == 0 {
			op = "tag!="
		}
		return &jcond{Op: op, Key: []string{"t1", "t2"}[r.IntN(2)], Str: tagVals[r.IntN(2)]}
	}
	ops := []string{"f=", "f!=", "f<", "f<=", "f>", "f>="}
	return &jcond{Op: ops[r.IntN(len(ops))], Key: fieldNames[r.IntN(2)], Int: r.Int64N(9) - 3}
}

func genQuery(r *rand.Rand) jquery {
	var q jquery
	raw := r.IntN(100) < 35
	if raw {
		q.Sel = [][]jsel{{{Field: "f"}}, {{Field: "g"}}, {{Field: "f"}, {Field: "g"}}, {{Field: "g"}, {Field: "f"}}}[r.IntN(4)]
	} else {
		n := 1
		if r.IntN(3) == 0 {
			n = 2 + r.IntN(2)
		}
		for i := 0; i < n; i++ {
			q.Sel = append(q.Sel, jsel{Fn: aggFns[r.IntN(len(aggFns))], Field: fieldNames[r.IntN(2)]})
		}
	}
	q.Min = r.Int64N(14) - 2
	q.Max = q.Min + 1 + r.Int64N(24-q.Min)
	q.MinIncl = r.IntN(3) != 0
	q.MaxIncl = r.IntN(3) == 0
	if r.IntN(2) == 0 {
		q.Cond = genCond(r, 2)
	}
	if !raw && r.IntN(100) < 65 {
		q.Every = []int64{1, 2, 3, 5, 7, 10}[r.IntN(6)]
		if r.IntN(2) == 0 {
			q.Offset = r.Int64N(2*q.Every+5) - q.Every - 2
		}
		q.Fill = []string{"", "none", "null", "previous", "linear", "value"}[r.IntN(6)]
		if q.Fill == "value" {
			q.FillValue = r.Int64N(5) - 1
		}
	}
	q.GroupTags = [][]string{nil, nil, {"t1"}, {"t2"}, {"t1", "t2"}}[r.IntN(5)]
	q.Desc = r.IntN(10) < 3
	if r.IntN(100) < 35 {
		q.Limit = 1 + r.IntN(4)
		if r.IntN(2) == 0 {
			q.ROffset = r.IntN(4)
		}
	}
	if r.IntN(100) < 20 {
		q.SLimit = 1 + r.IntN(3)
		if r.IntN(2) == 0 {
			q.SOffset = r.IntN(3)
		}
	}
	return q
}

const (
	sigSlimit   = "slimit-cuts-shard-index-tagsets"
	sigLimitCol = "limit-cuts-each-function-column-before-join"
	sigPrevDesc = "fill-previous-desc-copies-later-window"
	sigFirstTie = "first-last-no-interval-tie-by-merge-order"
	sigMean     = "mean-of-partial-means-rounding"
)

// shapeSig decides the known-finding shape from the INPUTS only.
func shapeSig(c *jcase) string {
	q := &c.Q
	calls, hasFL, hasMean := 0, false, false
	for _, s := range q.Sel {
		if s.Fn != "" {
			calls++
		}
		if s.Fn == "first" || s.Fn == "last" {
			hasFL = true
		}
		if s.Fn == "mean" {
			hasMean = true
		}
	}
	ties := crossSeriesTies(c.Points)
	switch {
	case q.SLimit > 0:
		return sigSlimit
	case calls >= 2 && q.Every > 0 && q.Fill == "none" && q.Limit > 0:
		return sigLimitCol
	case q.Every > 0 && q.Fill == "previous" && q.Desc:
		return sigPrevDesc
	case q.Every == 0 && hasFL && ties:
		return sigFirstTie
	case hasMean:
		return sigMean
	}
	return ""
}

func record(w *vh.W, c *jcase) {
	q := &c.Q
	cp := *c
	cp.Points = append([]jpoint(nil), c.Points...)
	cp.Out = append([]jseries(nil), c.Out...)
	nrows := 0
	for _, s := range c.Out {
		nrows += len(s.Rows)
	}
	w.Add(caseTerm(c), &cp, nrows > 0, shapeSig(c))
	kind := "raw"
	if q.Sel[0].Fn != "" {
		kind = "agg"
		if len(q.Sel) > 1 {
			kind = "multi-agg"
		}
	}
	w.Count("select", kind)
	for _, s := range q.Sel {
		if s.Fn != "" {
			w.Count("function", s.Fn)
		}
	}
	yn := func(b bool) string {
		if b {
			return "yes"
		}
		return "no"
	}
	w.Count("where-tag/field-condition", yn(q.Cond != nil))
	gb := "none"
	if q.Every > 0 {
		gb = "time"
		if q.Offset != 0 {
			gb = "time+offset"
		}
	}
	if len(q.GroupTags) > 0 {
		gb += "+tags"
	}
	w.Count("group-by", gb)
	if q.Every > 0 {
		f := q.Fill
		if f == "" {
			f = "(default)"
		}
		w.Count("fill", f)
	}
	w.Count("order-desc", yn(q.Desc))
	w.Count("limit/offset", yn(q.Limit > 0)+"/"+yn(q.ROffset > 0))
	w.Count("slimit/soffset", yn(q.SLimit > 0)+"/"+yn(q.SOffset > 0))
	w.Count("shards", fmt.Sprint(map[bool]int{true: 2, false: 1}[c.Split > 0]))
	w.Count("tsm-snapshot", yn(c.Flush >= 0))
	ow := "none"
	if len(effective(c.Points)) < len(c.Points) {
		ow = "cache-over-cache"
		if c.Flush > 0 {
			ow = "cache-over-tsm"
		}
	}
	w.Count("overwrites", ow)
	hasF, hasG := false, false
	for _, p := range c.Points {
		hasF = hasF || p.F != nil
		hasG = hasG || p.G != nil
	}
	absent := false
	for _, s := range q.Sel {
		if (s.Field == "f" && !hasF) || (s.Field == "g" && !hasG) {
			absent = true
		}
	}
	w.Count("selects-field-absent-from-measurement", yn(absent))
	w.Count("result-series", fmt.Sprint(len(c.Out)))
	if c.Err != "" {
		w.Count("impl-error", c.Err)
	}
	combo := kind + "|" + gb + "|" + map[bool]string{true: "desc", false: "asc"}[q.Desc] + "|" + yn(q.Limit > 0) + "|" + yn(q.SLimit > 0) + "|" + yn(q.Cond != nil)
	w.Count("clause-combination(select|groupby|order|limit|slimit|cond)", combo)
}

func runCase(w *vh.W, root string, c *jcase) {
	wd, err := build(root, c)
	if err != nil {
		fmt.Fprintln(os.Stderr, "driver error: build:", err)
		os.Exit(3)
	}
	defer wd.close()
	c.Text = queryText(&c.Q)
	if p := vh.Guard(func() { exec(wd, c) }); p != "" {
		idx := w.Len()
		record(w, c)
		w.Fail(idx, "panic in query engine: "+p, "")
		return
	}
	record(w, c)
}

func main() {
	w := vh.New("C22", "From Verif Require Import Base.Prelude Model.C22.\nFrom Coq Require Import Floats.SpecFloat.\nOpen Scope Z_scope.", "case", "check")
	w.Rule = "datasets: measurement m, series t1,t2 in {a,b} (each present with p=5/6), integer fields f,g (a point carries f, g or both), values in [-4,4] or [-9,9], second-resolution times in [0,22); 3/4 of the datasets have globally distinct timestamps (<=16 points), 1/4 have 0-8 points per series with timestamps shared across series; written point by point to a real tsdb.Store with 1 or 2 shards (split 4..15 s), half of them with a cache snapshot to a TSM file after a random prefix; half of the datasets then RE-WRITE 1-3 already written (series, time) points with new values for one or both fields (after the snapshot: old value in the TSM file, new one in the cache; the reference dataset is the last-write-wins merge per (series, field, time)). Queries (8 per dataset) are drawn from the grammar: raw f|g|f,g|g,f or 1-3 calls of count/sum/mean/min/max/first/last; explicit time bounds (>=|>, <|<=); optional and/or tree (depth<=2) of tag =/!= and field comparisons; GROUP BY time(1|2|3|5|7|10 s[, offset in -every-2..every+2]) with fill default/none/null/previous/linear/<int>; GROUP BY t1/t2/both; ORDER BY time DESC; LIMIT 1-4 [OFFSET 0-3]; SLIMIT 1-3 [SOFFSET 0-2]. Hand-picked regression cases come first. Non-trivial: the engine returned at least one row. Distinct: distinct Gallina terms (dataset+query+observed rows)."
	root := os.Getenv("TMPDIR")
	if root == "" {
		root = "/tmp"
	}
	if os.Getenv("C22_EXPLORE") != "" {
		explore(root)
		return
	}
	var rc jcase
	if w.ReplayCase(&rc) {
		runCase(w, root, &rc)
		w.Finish()
		return
	}
	for _, c := range corpus() {
		c := c
		runCase(w, root, &c)
	}
	r := w.Rng
	for w.Len() < w.N {
		var c jcase
		genDataset(r, &c)
		wd, err := build(root, &c)
		if err != nil {
			fmt.Fprintln(os.Stderr, "driver error: build:", err)
			os.Exit(3)
		}
		for k := 0; k < 8 && w.Len() < w.N; k++ {
			c.Q = genQuery(r)
			c.Text = queryText(&c.Q)
			if p := vh.Guard(func() { exec(wd, &c) }); p != "" {
				idx := w.Len()
				record(w, &c)
				w.Fail(idx, "panic in query engine: "+p, "")
				continue
			}
			record(w, &c)
		}
		wd.close()
	}
	w.Finish()
}

// corpus: hand-picked regression and edge cases (run before the random ones).
func corpus() []jcase {
	pt := func(t1, t2 string, t int64, f, g *int64) jpoint { return jpoint{T1: t1, T2: t2, T: t, F: f, G: g} }
	base := []jpoint{
		pt("a", "a", 1, ip(1), ip(10)), pt("a", "b", 1, ip(2), nil), pt("b", "a", 1, ip(3), ip(30)),
		pt("a", "a", 3, ip(4), nil), pt("a", "b", 3, nil, ip(50)), pt("b", "b", 5, ip(6), ip(60)),
		pt("a", "a", 12, ip(7), ip(70)), pt("b", "a", 12, ip(7), ip(80)), pt("a", "a", 15, ip(-9), nil),
	}
	// mean over two series: 7 points summing to 29 in one, a single 0 in the other
	meanpts := []jpoint{pt("a", "b", 7, ip(0), nil)}
	for i, v := range []int64{5, 4, 4, 4, 4, 4, 4} {
		meanpts = append(meanpts, pt("a", "a", int64(i), ip(v), nil))
	}
	// series a only in shard 1, series b only in shard 2
	two := []jpoint{pt("a", "a", 1, ip(1), ip(1)), pt("a", "a", 2, ip(2), ip(2)), pt("b", "b", 11, ip(3), ip(3)), pt("b", "b", 12, ip(4), ip(4))}
	sel := func(fn, f string) jsel { return jsel{Fn: fn, Field: f} }
	q := func(sels []jsel, min, max int64, mod func(*jquery)) jquery {
		x := jquery{Sel: sels, MinIncl: true, Min: min, Max: max}
		if mod != nil {
			mod(&x)
		}
		return x
	}
	var cs []jcase
	add := func(pts []jpoint, split int64, flush int, qq jquery) {
		cs = append(cs, jcase{Points: pts, Split: split, Flush: flush, Q: qq})
	}
	// raw selections, ties across series, nulls
	add(base, 10, -1, q([]jsel{sel("", "f"), sel("", "g")}, 0, 20, nil))
	add(base, 10, 4, q([]jsel{sel("", "f")}, 0, 20, func(x *jquery) { x.GroupTags = []string{"t1"}; x.Desc = true }))
	add(base, 0, -1, q([]jsel{sel("", "g"), sel("", "f")}, 1, 12, func(x *jquery) { x.MinIncl = false; x.MaxIncl = true; x.Limit = 2; x.ROffset = 1 }))
	add(base, 0, 9, q([]jsel{sel("", "f")}, 0, 20, func(x *jquery) {
		x.Cond = &jcond{Op: "or", L: &jcond{Op: "tag=", Key: "t1", Str: "b"}, R: &jcond{Op: "f>", Key: "g", Int: 40}}
	}))
	// aggregates with windows, offsets (negative and larger than the interval), fills
	for _, fill := range []string{"", "none", "null", "previous", "linear", "value"} {
		for _, desc := range []bool{false, true} {
			fill, desc := fill, desc
			add(base, 10, 3, q([]jsel{sel("count", "f"), sel("mean", "g"), sel("max", "f")}, 0, 20, func(x *jquery) {
				x.Every = 5
				x.Offset = -3
				x.GroupTags = []string{"t2"}
				x.Fill = fill
				x.FillValue = 7
				x.Desc = desc
			}))
			add(base, 0, -1, q([]jsel{sel("sum", "f")}, 2, 17, func(x *jquery) {
				x.Every = 3
				x.Offset = 7
				x.Fill = fill
				x.FillValue = -1
				x.Desc = desc
				x.MaxIncl = true
			}))
		}
	}
	// selectors alone / together / repeated, without GROUP BY time
	add(base, 0, -1, q([]jsel{sel("max", "f")}, 0, 20, nil))
	add(base, 0, -1, q([]jsel{sel("max", "f"), sel("max", "f")}, 0, 20, nil))
	add(base, 10, -1, q([]jsel{sel("max", "f"), sel("min", "g")}, 0, 20, func(x *jquery) { x.MinIncl = false }))
	add(base, 10, -1, q([]jsel{sel("last", "f")}, 0, 20, func(x *jquery) { x.GroupTags = []string{"t1", "t2"} }))
	// F: first()/last() without GROUP BY time on points sharing the extreme timestamp
	add(base, 0, -1, q([]jsel{sel("first", "f")}, 0, 20, nil))
	add(base, 0, -1, q([]jsel{sel("first", "f")}, 0, 20, func(x *jquery) { x.Every = 10 }))
	add(base, 10, -1, q([]jsel{sel("last", "f")}, 0, 13, nil))
	// F: mean() combines per-series partial means in floating point
	add(meanpts, 0, -1, q([]jsel{sel("mean", "f")}, 0, 20, nil))
	add(meanpts, 0, -1, q([]jsel{sel("mean", "f")}, 0, 20, func(x *jquery) { x.GroupTags = []string{"t2"} }))
	// F: LIMIT cuts each function column before the join
	add(base, 0, -1, q([]jsel{sel("count", "f"), sel("sum", "g")}, 0, 20, func(x *jquery) { x.Every = 2; x.Fill = "none"; x.Limit = 1 }))
	cols := []jpoint{pt("a", "a", 1, ip(1), nil), pt("a", "a", 5, nil, ip(2))}
	add(cols, 0, -1, q([]jsel{sel("count", "f"), sel("sum", "g")}, 0, 20, func(x *jquery) { x.Every = 2; x.Fill = "none"; x.Limit = 1 }))
	add(cols, 0, -1, q([]jsel{sel("count", "f"), sel("sum", "g")}, 0, 20, func(x *jquery) { x.Every = 2; x.Fill = "none"; x.Limit = 1; x.ROffset = 1; x.Desc = true }))
	// F: SLIMIT is applied by each shard to its own index tag sets
	add(two, 10, -1, q([]jsel{sel("sum", "f")}, 0, 20, func(x *jquery) { x.GroupTags = []string{"t1"}; x.SLimit = 1 }))
	add(two, 0, -1, q([]jsel{sel("", "f")}, 10, 20, func(x *jquery) { x.GroupTags = []string{"t1"}; x.SLimit = 1 }))
	add(two, 0, -1, q([]jsel{sel("", "f")}, 0, 20, func(x *jquery) { x.GroupTags = []string{"t1"}; x.SLimit = 1; x.SOffset = 1 }))
	// overwrites: old value snapshotted to TSM, new value (and a new field) in the cache
	over := []jpoint{pt("a", "a", 2, ip(1), ip(10)), pt("a", "a", 4, ip(2), ip(20)), pt("a", "b", 6, ip(3), nil),
		pt("a", "a", 4, ip(7), nil), pt("a", "b", 6, ip(8), ip(80)), pt("a", "a", 2, nil, ip(-5))}
	for _, desc := range []bool{false, true} {
		desc := desc
		add(over, 0, 3, q([]jsel{sel("", "f"), sel("", "g")}, 0, 20, func(x *jquery) { x.Desc = desc }))
		add(over, 0, 3, q([]jsel{sel("count", "f"), sel("sum", "f"), sel("sum", "g")}, 0, 20, func(x *jquery) { x.Desc = desc }))
		add(over, 0, 3, q([]jsel{sel("count", "f"), sel("sum", "f")}, 0, 20, func(x *jquery) { x.Desc = desc; x.Every = 4; x.Fill = "none" }))
		add(over, 0, 3, q([]jsel{sel("first", "f")}, 0, 20, func(x *jquery) { x.Desc = desc; x.GroupTags = []string{"t2"} }))
		add(over, 0, 3, q([]jsel{sel("last", "f")}, 0, 20, func(x *jquery) { x.Desc = desc; x.GroupTags = []string{"t2"} }))
		add(over, 5, 3, q([]jsel{sel("last", "g"), sel("first", "g")}, 0, 20, func(x *jquery) { x.Desc = desc; x.Every = 10 }))
		add(over, 0, -1, q([]jsel{sel("", "g"), sel("", "f")}, 0, 20, func(x *jquery) { x.Desc = desc; x.Limit = 2 }))
	}
	// schema: calls on a field that was never written are no column (null whatever the fill);
	// a field written only in a shard the time range does not map to is unknown as well; a field
	// written only outside the time range (same shard) is known and IS filled
	onlyf := []jpoint{pt("b", "b", 11, ip(0), nil)}
	latef := []jpoint{pt("b", "b", 3, ip(1), nil), pt("b", "b", 11, ip(0), nil), pt("a", "b", 17, nil, ip(5))}
	for _, fill := range []string{"value", "previous", "linear", "null", "none", ""} {
		fill := fill
		mod := func(x *jquery) {
			x.MinIncl = false
			x.Every = 7
			x.Offset = -2
			x.GroupTags = []string{"t2"}
			x.Fill = fill
			x.FillValue = 2
			x.Cond = &jcond{Op: "tag!=", Key: "t1", Str: "a"}
		}
		add(onlyf, 0, -1, q([]jsel{sel("max", "f"), sel("min", "g"), sel("first", "g")}, 8, 20, mod))
		add(latef, 15, -1, q([]jsel{sel("max", "f"), sel("count", "g"), sel("min", "g")}, 0, 14, mod)) // g only in unmapped shard 2
		add(latef, 0, 2, q([]jsel{sel("last", "g"), sel("mean", "g"), sel("sum", "g")}, 0, 14, mod))   // g known, out of range
	}
	add(onlyf, 0, -1, q([]jsel{sel("sum", "g")}, 0, 20, func(x *jquery) { x.Every = 5; x.Fill = "value"; x.FillValue = 1 }))
	add(onlyf, 0, -1, q([]jsel{sel("", "f"), sel("", "g")}, 0, 20, nil))
	add(onlyf, 0, -1, q([]jsel{sel("", "g")}, 0, 20, nil))
	// F: fill(previous) under ORDER BY time DESC
	add(two, 0, -1, q([]jsel{sel("sum", "f")}, 0, 6, func(x *jquery) { x.Every = 1; x.Fill = "previous"; x.Desc = true }))
	return cs
}

func explore(root string) {
	c := jcase{Flush: -1, Split: 10}
	add := func(t1, t2 string, t int64, f, g *int64) {
		c.Points = append(c.Points, jpoint{T1: t1, T2: t2, T: t, F: f, G: g})
	}
	add("a", "a", 1, ip(1), ip(10))
	add("a", "b", 1, ip(2), nil)
	add("b", "a", 1, ip(3), ip(30))
	add("a", "a", 3, ip(4), nil)
	add("a", "b", 3, nil, ip(50))
	add("b", "b", 5, ip(6), ip(60))
	add("a", "a", 12, ip(7), ip(70))
	add("b", "a", 12, ip(7), ip(80))
	add("a", "a", 15, ip(-9), nil)
	wd, err := build(root, &c)
	if err != nil {
		fmt.Println("build:", err)
		os.Exit(2)
	}
	defer wd.close()
	qs := strings.Split(os.Getenv("C22_EXPLORE"), ";")
	for _, q := range qs {
		c.Text = strings.TrimSpace(q)
		exec(wd, &c)
		fmt.Println("Q:", c.Text)
		if c.Err != "" {
			fmt.Println("  ERR", c.Err)
		}
		for _, s := range c.Out {
			fmt.Println("  series", s.Tags)
			for _, r := range s.Rows {
				var vs []string
				for _, v := range r.Vals {
					switch v.K {
					case "null":
						vs = append(vs, "null")
					case "int":
						vs = append(vs, fmt.Sprint(v.I))
					default:
						vs = append(vs, v.K+":"+v.S)
					}
				}
				fmt.Printf("    %v  %s\n", float64(r.T)/1e9, strings.Join(vs, " "))
			}
		}
	}
}
