(** C02 — Acknowledged writes and deletes survive a crash at any point.  Theorems only. *)
From Verif Require Import Base.Prelude Model.C01 Proofs.C01 Model.C02 Proofs.C02.

(** (A) A torn WAL tail is discarded without losing earlier entries: for every list of
    well-formed records, every further record and EVERY strict prefix of its bytes, the
    segment reader returns exactly the earlier records and the loader truncates exactly at
    the start of the torn record.  [decodable] (snappy + entry unmarshalling) is an arbitrary
    function: only "what was written decodes" is used. *)
Theorem C02_wal_torn_tail :
  forall (decodable : rec -> bool) rs r n,
    Forall (rec_ok decodable) rs -> (N.of_nat (length (snd r)) < 4294967296)%N ->
    n < length (frame r) ->
    wal_read decodable (frames rs ++ firstn n (frame r)) = (rs, length (frames rs)).
Proof. exact wal_torn_tail. Qed.
Print Assumptions C02_wal_torn_tail.

Theorem C02_wal_complete :
  forall (decodable : rec -> bool) rs,
    Forall (rec_ok decodable) rs -> wal_read decodable (frames rs) = (rs, length (frames rs)).
Proof. exact wal_complete. Qed.
Print Assumptions C02_wal_complete.

(** (B) FULL STATEMENT: after any history — with crashes ([DCrash] = crash + reopen, [DCrashTorn] =
    crash + reopen while the WAL record of an in-flight, unacknowledged write was torn) at any
    point, including between the three durable sub-steps of a snapshot commit — reads show
    exactly the acknowledged writes and deletes.  It is FALSE of the faithful model and of
    the real engine in two ways: *)
(** 1. a snapshot that failed and is retried commits only the OLD snapshot but removes every
       closed WAL segment, including the one holding writes acknowledged after the failure;
       a crash before the next snapshot loses those writes. *)
Theorem C02_ack_durable_refuted_lost_write :
  exists h k t v, log_get (dspec_log h []) k t = Some v /\ abs (mem (drun h dinit)) k t = None.
Proof. exists lost_write_witness, 1%N, 2%Z, 20%Z. destruct lost_write as [A B]. split; assumption. Qed.
Print Assumptions C02_ack_durable_refuted_lost_write.

(** 2. a delete acknowledged while a snapshot commit is in flight is lost (C03's finding,
       here also across a restart). *)
Theorem C02_ack_durable_refuted_lost_delete :
  exists h k t v, log_get (dspec_log h []) k t = None /\ abs (mem (drun h dinit)) k t = Some v.
Proof. exists lost_delete_witness, 1%N, 5%Z, 7%Z. destruct lost_delete as [A B]. split; assumption. Qed.
Print Assumptions C02_ack_durable_refuted_lost_delete.

(** (A third way — operations acknowledged after a restart from a torn WAL tail were written
    behind a hole in the re-used segment and lost by the next restart — was repaired in the
    code base, repo commit dc4e263207: WAL.Open appends with O_APPEND.  The model mirrors the
    repaired code: [DCrashTorn] is a plain recovery, and the histories of that shape are now
    covered by the positive theorems below; the driver keeps exercising them on the real
    engine.) *)

(** PARTIAL (strongest true weakening): for every history in which deletes and snapshot
    starts happen only while no snapshot commit is in flight and no snapshot fails
    ([dsafe]) — any number of crashes anywhere, plain or with a torn in-flight WAL record,
    including between Replace / ClearSnapshot / WAL.Remove, any compactions, unbounded
    length — the content after the history is exactly the acknowledged writes and deletes,
    nothing else, and the recovered engine keeps accepting operations with the same guarantee
    (the history simply continues after DCrash / DCrashTorn). *)
Theorem C02_ack_durable_partial :
  forall h, dsafe h dinit ->
    forall k lo hi asc,
      read (mem (drun h dinit)) k lo hi asc = spec_read (dspec_log h []) k lo hi asc.
Proof. intros h H k lo hi asc. apply ack_durable_read. exact H. Qed.
Print Assumptions C02_ack_durable_partial.

(** The crash step itself: recovering from ANY state reachable by a safe history shows the
    same content as the running engine did. *)
Theorem C02_crash_preserves_content :
  forall h, dsafe h dinit -> forall k t,
    abs (mem (recover (drun h dinit))) k t = abs (mem (drun h dinit)) k t.
Proof.
  intros h H k t. apply durable.
  apply (drun_refines h dinit [] inv_init (fun _ _ => eq_refl) H).
Qed.
Print Assumptions C02_crash_preserves_content.

(** Torn tail + further writes (the shape of the repaired defect), unconditionally: for EVERY
    history made of writes and crashes of either kind only — e.g. write A; write B in flight,
    torn, crash; write C acknowledged; crash — no hypothesis is needed: reads show exactly
    the acknowledged writes. *)
Theorem C02_writes_and_crashes_durable :
  forall h, Forall (fun o => match o with DWrite _ | DCrash | DCrashTorn => True | _ => False end) h ->
    forall k lo hi asc,
      read (mem (drun h dinit)) k lo hi asc = spec_read (dspec_log h []) k lo hi asc.
Proof. intros h H k lo hi asc. apply ack_durable_read. apply dsafe_writes_crashes. exact H. Qed.
Print Assumptions C02_writes_and_crashes_durable.

Example C02_nonvacuous :
  let h := [DWrite [(1%N, 1%Z, 10%Z)]; DSnapBegin; DWrite [(1%N, 1%Z, 11%Z); (2%N, 3%Z, 5%Z)]; DCommitReplace;
            DCrash; DDelete [2%N] 0%Z 9%Z; DWrite [(1%N, 2%Z, 12%Z)]; DCrash] in
  dsafe h dinit /\ read (mem (drun h dinit)) 1%N 0%Z 9%Z true = [(1, 11); (2, 12)]%Z /\
  read (mem (drun h dinit)) 2%N 0%Z 9%Z true = [].
Proof. vm_compute. repeat split. Qed.

(** the former witness of the torn-tail hole, and a delete after a torn-tail crash: nothing is lost *)
Example C02_nonvacuous_torn :
  let h := [DWrite [(1%N, 1%Z, 10%Z)]; DCrashTorn; DWrite [(1%N, 3%Z, 30%Z)]; DCrash;
            DCrashTorn; DDelete [1%N] 1%Z 1%Z; DWrite [(2%N, 1%Z, 5%Z)]; DCrash] in
  dsafe h dinit /\ read (mem (drun h dinit)) 1%N 0%Z 9%Z true = [(3, 30)]%Z /\
  read (mem (drun h dinit)) 2%N 0%Z 9%Z true = [(1, 5)]%Z.
Proof. vm_compute. repeat split. Qed.
