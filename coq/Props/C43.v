(** C43 — v1 database/retention-policy names resolve to one bucket.  Property theorems only.

    Vocabulary (Model/C43.v): [run bk base ops] is the state of the DBRP mapping service
    after the operation history [ops] (Create / Update / Delete / DeleteBucket, any length)
    started on the bucket table [bk] with mapping ids generated from [base];
    [live st id r]: the mapping bucket holds record [r] under [id]; [dfl st]: the default
    bucket; [find_many st f] = FindMany with filter [f]; [frp o d rp] = {org, db, rp},
    [fdef o d] = {org, db, default=true} (the v1 look-up with an empty retention policy),
    [fod o d] = {org, db}.

    Hypotheses of the [_partial] theorems:
      [wf_bk bk base]  — bucket ids lie below the first generated mapping id (ids are unique
                         across buckets and mappings, as with the snowflake generator);
      [Forall (legal base) ops] — no Update targets a bucket id, i.e. a VIRTUAL mapping.
    The FULL statements (for all histories) are refuted by the faithful model and by the
    real code: see the [_refuted] theorems; the counterexamples are hand-picked cases of the
    driver and are listed in findings.d/C43.json. *)
From Verif Require Import Base.Prelude Model.C43 Proofs.C43_base Proofs.C43_inv Proofs.C43 Proofs.C43_find.
Local Open Scope N_scope.

(** 1. Each (org, database, retention policy) resolves to at most one bucket.
    FULL statement: for all histories, every FindMany listing contains at most one mapping
    per (org, db, rp).  Refuted for the {org, db} listing (theorem 1c); proved: (1a) at most
    one stored mapping per (org, db, rp), and (1b) the look-up FindMany{org, db, rp} — the
    one the v1 write/query paths use — never fails and returns at most one mapping (physical
    or virtual), for all legal histories of any length. *)
Theorem C43_pair_resolves_to_at_most_one_partial :
  forall bk base ops, wf_bk bk base -> Forall (legal base) ops ->
  (forall id1 id2 r1 r2, live (run bk base ops) id1 r1 -> live (run bk base ops) id2 r2 ->
     r_org r1 = r_org r2 -> r_db r1 = r_db r2 -> r_rp r1 = r_rp r2 -> id1 = id2 /\ r_bkt r1 = r_bkt r2) /\
  (forall o d rp, exists l, find_many (run bk base ops) (frp o d rp) = ROk l /\ (length l <= 1)%nat /\
     forall m, In m l -> m_org m = o /\ m_db m = d /\ m_rp m = rp).
Proof.
  intros bk base ops W L. split.
  - exact (pair_unique bk base ops W L).
  - intros o d rp. exact (lookup_at_most_one bk base ops o d rp W L).
Qed.
Print Assumptions C43_pair_resolves_to_at_most_one_partial.

(** 1c. After two legal creates the listing of (org 1, "db") shows (db, autogen) twice, with
    different buckets (physical id 101 -> bucket 15, virtual id 14 -> bucket 14). *)
Theorem C43_listing_one_bucket_per_pair_refuted :
  exists bk base ops, wf_bk bk base /\ Forall (legal base) ops /\
  exists l m1 m2, find_many (run bk base ops) (fod 1 1) = ROk l /\ In m1 l /\ In m2 l /\
    m_org m1 = m_org m2 /\ m_db m1 = m_db m2 /\ m_rp m1 = m_rp m2 /\ m_bkt m1 <> m_bkt m2.
Proof.
  exists bk_shadow, 100, ops_shadow. destruct shadow_witness as [L E]. split; [|split; [exact L|]].
  - intros b [<- | [<- | []]]; cbn; lia.
  - eexists; exists (M 101 1 1 0 15 false false), (M 14 1 1 0 14 false true).
    split; [exact E|]. cbn. repeat split; auto. discriminate.
Qed.
Print Assumptions C43_listing_one_bucket_per_pair_refuted.

(** 2. Each database with at least one mapping has exactly one default mapping
    (as reported by FindByID / the [Default] flag every read path computes from [dfl]).
    FULL statement: for all histories.  Proved for all legal histories; refuted in general (2b). *)
Theorem C43_exactly_one_default_per_db_with_mappings_partial :
  forall bk base ops o d, wf_bk bk base -> Forall (legal base) ops ->
  (exists id r, live (run bk base ops) id r /\ r_org r = o /\ r_db r = d) ->
  exists id r, live (run bk base ops) id r /\ r_org r = o /\ r_db r = d /\
               is_default (run bk base ops) o d id = true /\
               forall id', is_default (run bk base ops) o d id' = true -> id' = id.
Proof. exact one_default. Qed.
Print Assumptions C43_exactly_one_default_per_db_with_mappings_partial.

(** 2b. Updating a VIRTUAL mapping (bucket id 14) stores an un-indexed record and makes it the
    default: database (1, "db") has two physical mappings, neither is the default in its
    listing, the default look-up returns the un-indexed record, which the index does not know. *)
Theorem C43_exactly_one_default_refuted :
  exists bk base ops, wf_bk bk base /\
  let st := run bk base ops in
  (exists r, live st 100 r /\ r_org r = 1 /\ r_db r = 1) /\
  (exists r, live st 101 r /\ r_org r = 1 /\ r_db r = 1) /\
  is_default st 1 1 100 = false /\ is_default st 1 1 101 = false /\
  find_many st (fdef 1 1) = ROk [M 14 1 1 1 14 true true] /\ ~ In (1, 1, 14) (iod st).
Proof.
  exists bk_ghost, 100, ops_ghost. split.
  - intros b [<- | [<- | []]]; cbn; lia.
  - destruct ghost_witness as [_ [E [D1 [D2 Hn]]]]. cbv zeta. repeat split; auto.
    + eexists. split; [vm_compute; reflexivity | split; reflexivity].
    + eexists. split; [vm_compute; reflexivity | split; reflexivity].
Qed.
Print Assumptions C43_exactly_one_default_refuted.

(** 2c. ... and FindMany is not total: without an org filter it dereferences a nil default id. *)
Theorem C43_findmany_total_refuted :
  exists bk base ops, wf_bk bk base /\ find_many (run bk base ops) F0 = RPanic.
Proof.
  exists [B 14 2 1 1 false 0], 100, [Update 2 14 1 false true]. split.
  - intros b [<- | []]; cbn; lia.
  - exact ghost_panic_witness.
Qed.
Print Assumptions C43_findmany_total_refuted.

(** 3. A look-up with an empty retention policy (FindMany{org, db, default=true}) returns
    exactly the default mapping of the database, whenever the database has a mapping.
    Proved for all legal histories (the virtual pass adds nothing next to a physical default). *)
Theorem C43_empty_rp_returns_default_partial :
  forall bk base ops o d, wf_bk bk base -> Forall (legal base) ops ->
  let st := run bk base ops in
  (exists id r, live st id r /\ r_org r = o /\ r_db r = d) ->
  exists id r, dget o d (dfl st) = Some id /\ live st id r /\ r_org r = o /\ r_db r = d /\
               find_many st (fdef o d) = ROk [rec2m id r true].
Proof. exact default_lookup. Qed.
Print Assumptions C43_empty_rp_returns_default_partial.

(** 4. Deleting the default mapping [id] of (o, db) removes exactly it and promotes, if the
    database still has a mapping, the one the code picks: the remaining mapping of (o, db) with
    the SMALLEST id (getFirstBut walks the (org, db) index in ascending id order); otherwise
    the default entry is removed.  Proved for all legal histories. *)
Theorem C43_delete_promotes_partial :
  forall bk base ops o id r, wf_bk bk base -> Forall (legal base) ops ->
  let st := run bk base ops in
  live st id r -> r_org r = o -> dget o (r_db r) (dfl st) = Some id ->
  let st' := run bk base (ops ++ [Delete o id]) in
  lookup id (src st') = None /\
  (forall id', id' <> id -> lookup id' (src st') = lookup id' (src st)) /\
  match dget o (r_db r) (dfl st') with
  | Some f => (exists rf, live st' f rf /\ r_org rf = o /\ r_db rf = r_db r) /\
              (forall id' r', live st' id' r' -> r_org r' = o -> r_db r' = r_db r -> f <= id')
  | None => forall id' r', live st' id' r' -> ~ (r_org r' = o /\ r_db r' = r_db r)
  end.
Proof. exact delete_promotes. Qed.
Print Assumptions C43_delete_promotes_partial.

(** 5. The default index and the (org, db) index agree with the stored mappings: a default
    entry points to a live mapping of that (org, db), which FindByID reports as default; no
    entry means no mapping; index entries are exactly the live mappings.  Legal histories;
    refuted in general by 2b (default entry -> un-indexed record). *)
Theorem C43_index_consistent_partial :
  forall bk base ops, wf_bk bk base -> Forall (legal base) ops ->
  let st := run bk base ops in
  (forall o d id, dget o d (dfl st) = Some id ->
     exists r, live st id r /\ r_org r = o /\ r_db r = d /\ find_by_id st o id = Some (rec2m id r true)) /\
  (forall o d, dget o d (dfl st) = None -> forall id r, live st id r -> ~ (r_org r = o /\ r_db r = d)) /\
  (forall o d id, In (o, d, id) (iod st) <-> exists r, live st id r /\ r_org r = o /\ r_db r = d).
Proof. exact index_consistent. Qed.
Print Assumptions C43_index_consistent_partial.

(** The (org, db) index is kept in ascending id order without duplicates after EVERY history
    (no legality hypothesis): this is what makes "first" = "smallest id". *)
Theorem C43_index_sorted :
  forall bk base ops, idx_ok (iod (run bk base ops)).
Proof. exact run_idx. Qed.
Print Assumptions C43_index_sorted.

(** Non-vacuity: a legal history after which database (1, "db") has two mappings, 101 is the
    default, and deleting it promotes 100 (the smallest remaining id). *)
Example C43_nonvacuous :
  let bk := [B 14 1 3 0 true 0] in
  let ops := [Create 1 1 1 14 false; Create 1 1 2 14 true; Create 1 1 0 14 false] in
  wf_bk bk 100 /\ Forall (legal 100) ops /\
  dget 1 1 (dfl (run bk 100 ops)) = Some 101 /\
  dget 1 1 (dfl (run bk 100 (ops ++ [Delete 1 101]))) = Some 100 /\
  find_many (run bk 100 ops) (fdef 1 1) = ROk [M 101 1 1 2 14 true false].
Proof.
  cbv zeta. split; [intros b [<- | []]; cbn; lia|]. split; [repeat constructor|].
  vm_compute. repeat split; reflexivity.
Qed.
