// C42 driver: metadata queries on a REAL tsdb.Store (tsi1 index, WAL, 2-3 shards of one
// database sharing one series file).  A dataset = per-shard series sets (one point per series,
// overlapping between shards) followed by delete operations through the Store / Shard APIs
// (Store.DeleteSeries with a condition, Store.DeleteMeasurement, and their single-shard forms
// Shard.DeleteSeriesRange / Shard.DeleteMeasurement).  Queries: Store.MeasurementNames(ctx,
// auth, db, cond), Store.TagKeys(ctx, auth, shardIDs, cond), Store.TagValues(ctx, auth,
// shardIDs, cond) with conditions shaped the way influxql/query/statement_rewriter.go builds
// them and authorizers that are nil, query.OpenAuthorizer or a fine-grained authorizer allowing
// a random set of series.  One store is reused for ~60 queries.
package main

import (
	"context"
	"fmt"
	"os"
	"path/filepath"
	"regexp"
	"sort"
	"time"

	"github.com/influxdata/influxdb/v2/influxql/query"
	"github.com/influxdata/influxdb/v2/models"
	"github.com/influxdata/influxdb/v2/tsdb"
	_ "github.com/influxdata/influxdb/v2/tsdb/engine"
	_ "github.com/influxdata/influxdb/v2/tsdb/index"
	"github.com/influxdata/influxql"
	"verifh/vh"
)

const sigStale = "store-stale-tag-keys-values-after-series-delete"
const db = "db0"

var measNames = []string{"m", "n"}
var patterns = []string{`^a$`, `a|b`, `.*`, `^$`, `b?`, `.+`, `^m`, `^k`, `1$`}
var compiled []*regexp.Regexp
var universe = []string{"", "a", "b", "c", "m", "n", "x", "k1", "k2", "k3"}

type jseries struct {
	Name string      `json:"name"`
	Tags [][2]string `json:"tags,omitempty"`
}

func (s jseries) tags() models.Tags {
	m := map[string]string{}
	for _, t := range s.Tags {
		m[t[0]] = t[1]
	}
	return models.NewTags(m)
}
func (s jseries) key() string { return string(models.MakeKey([]byte(s.Name), s.tags())) }

type jop struct {
	Kind   string  `json:"kind"`  // series | meas
	Shard  int     `json:"shard"` // index into shards, -1 = all shards through the Store API
	Series jseries `json:"series,omitempty"`
	Meas   string  `json:"meas,omitempty"`
}

type jdataset struct {
	Shards [][]jseries `json:"shards"` // series written into shard i (id i+1)
	Ops    []jop       `json:"ops,omitempty"`
	// DropShards: every shard is deleted again (Store.DeleteShard), as retention does; the
	// database keeps its series file but has no shard
	DropShards bool `json:"drop_all_shards,omitempty"`
	// Late: after the deletes, listing queries under an allow-everything fine authorizer are run
	// for every measurement and key (they fill each shard's tag-value series-id cache), and then
	// shard i receives ONE more write batch Late[i] of series new to it (Store.WriteToShard ->
	// Index.CreateSeriesListIfNotExists maintains the cached sets); no reopen
	Late [][]jseries `json:"late,omitempty"`
}

type jexpr struct {
	Op string `json:"op"` // eq neq re nre and or paren true false
	K  string `json:"k,omitempty"`
	V  string `json:"v,omitempty"`
	R  int    `json:"r,omitempty"`
	A  *jexpr `json:"a,omitempty"`
	B  *jexpr `json:"b,omitempty"`
}

type jkf struct {
	Op string   `json:"op"` // all eq neq re nre in
	K  string   `json:"k,omitempty"`
	R  int      `json:"r,omitempty"`
	Ks []string `json:"ks,omitempty"`
}

type jquery struct {
	Kind  string `json:"kind"`            // names keys values
	Cond  *jexpr `json:"cond,omitempty"`  // names: the whole condition
	MExpr *jexpr `json:"mexpr,omitempty"` // keys/values: the _name part
	KF    jkf    `json:"kf"`
	Filt  *jexpr `json:"filt,omitempty"`
	Sel   []int  `json:"sel,omitempty"`   // selected shard indexes (keys/values)
	Ghost bool   `json:"ghost,omitempty"` // also pass a shard id that does not exist
}

type jauth struct {
	Mode    string   `json:"mode"` // nil | open | fine
	Allowed []string `json:"allowed,omitempty"`
}

type jkv struct {
	M  string      `json:"m"`
	Ks []string    `json:"keys,omitempty"`
	KV [][2]string `json:"kv,omitempty"`
}

type jcase struct {
	Data     jdataset `json:"data"`
	Auth     jauth    `json:"auth"`
	Q        jquery   `json:"q"`
	CondText string   `json:"cond_text"`
	Err      bool     `json:"impl_err"`
	ErrText  string   `json:"impl_err_text,omitempty"`
	Names    []string `json:"impl_names,omitempty"`
	Rows     []jkv    `json:"impl_rows,omitempty"`
}

// ---- authorizer ----

type fineAuth struct{ allowed map[string]bool }

func (a *fineAuth) AuthorizeDatabase(influxql.Privilege, string) bool     { return true }
func (a *fineAuth) AuthorizeQuery(string, *influxql.Query) error          { return nil }
func (a *fineAuth) AuthorizeSeriesWrite(string, []byte, models.Tags) bool { return true }
func (a *fineAuth) AuthorizeSeriesRead(_ string, m []byte, tags models.Tags) bool {
	return a.allowed[string(models.MakeKey(m, tags))]
}

// ---- real store ----

type env struct {
	root string
	st   *tsdb.Store
	n    int
}

func must(err error) {
	if err != nil {
		fmt.Fprintln(os.Stderr, "driver error:", err)
		os.Exit(3)
	}
}

func exactCond(s jseries) influxql.Expr {
	var e influxql.Expr
	for _, k := range []string{"k1", "k2"} {
		v := ""
		for _, t := range s.Tags {
			if t[0] == k {
				v = t[1]
			}
		}
		a := &influxql.BinaryExpr{Op: influxql.EQ, LHS: &influxql.VarRef{Val: k}, RHS: &influxql.StringLiteral{Val: v}}
		if e == nil {
			e = a
		} else {
			e = &influxql.BinaryExpr{Op: influxql.AND, LHS: e, RHS: a}
		}
	}
	return e
}

func newEnv(d jdataset) *env {
	root, err := os.MkdirTemp("", "c42-")
	must(err)
	e := &env{root: root, n: len(d.Shards)}
	e.st = tsdb.NewStore(filepath.Join(root, "data"))
	e.st.EngineOptions.IndexVersion = tsdb.TSI1IndexName
	e.st.EngineOptions.Config.WALDir = filepath.Join(root, "wal")
	e.st.EngineOptions.MonitorDisabled = true
	e.st.EngineOptions.CompactionDisabled = true
	must(e.st.Open(context.Background()))
	ctx := context.Background()
	for i, ss := range d.Shards {
		id := uint64(i + 1)
		must(e.st.CreateShard(ctx, db, "rp0", id, true))
		var pts []models.Point
		for j, s := range ss {
			pt, err := models.NewPoint(s.Name, s.tags(), models.Fields{"f": float64(j)}, time.Unix(int64(i)*1000+1, 0))
			must(err)
			pts = append(pts, pt)
		}
		if len(pts) > 0 {
			must(e.st.WriteToShard(ctx, id, pts))
		}
	}
	for _, op := range d.Ops {
		switch {
		case op.Kind == "series" && op.Shard < 0:
			must(e.st.DeleteSeries(ctx, db, []influxql.Source{&influxql.Measurement{Name: op.Series.Name}}, exactCond(op.Series)))
		case op.Kind == "series":
			sh := e.st.Shard(uint64(op.Shard + 1))
			idx, err := sh.Index()
			must(err)
			sf, err := sh.SeriesFile()
			must(err)
			is := tsdb.IndexSet{Indexes: []tsdb.Index{idx}, SeriesFile: sf}
			itr, err := is.MeasurementSeriesByExprIterator([]byte(op.Series.Name), exactCond(op.Series))
			must(err)
			if itr != nil {
				must(sh.DeleteSeriesRange(ctx, tsdb.NewSeriesIteratorAdapter(sf, itr), influxql.MinTime, influxql.MaxTime))
				itr.Close()
			}
		case op.Kind == "meas" && op.Shard < 0:
			must(e.st.DeleteMeasurement(ctx, db, op.Meas))
		case op.Kind == "meas":
			must(e.st.Shard(uint64(op.Shard+1)).DeleteMeasurement(ctx, []byte(op.Meas)))
		}
	}
	if d.DropShards {
		for i := range d.Shards {
			must(e.st.DeleteShard(uint64(i + 1)))
		}
	}
	if len(d.Late) > 0 {
		all := &fineAuth{allowed: map[string]bool{}}
		for _, s := range allSeries() {
			all.allowed[s.key()] = true
		}
		var ids []uint64
		for i := range d.Shards {
			ids = append(ids, uint64(i+1))
		}
		warm := &influxql.BinaryExpr{Op: influxql.EQREGEX, LHS: &influxql.VarRef{Val: "_tagKey"}, RHS: &influxql.RegexLiteral{Val: regexp.MustCompile(`.*`)}}
		for _, id := range ids { // per shard and over all shards
			_, err := e.st.TagValues(ctx, all, []uint64{id}, warm)
			must(err)
		}
		_, err := e.st.TagValues(ctx, all, ids, warm)
		must(err)
		for i, ss := range d.Late {
			var pts []models.Point
			for j, s := range ss {
				pt, err := models.NewPoint(s.Name, s.tags(), models.Fields{"f": float64(j)}, time.Unix(int64(i)*1000+2, 0))
				must(err)
				pts = append(pts, pt)
			}
			if len(pts) > 0 {
				must(e.st.WriteToShard(ctx, uint64(i+1), pts))
			}
		}
	}
	return e
}

func (e *env) close() {
	e.st.Close()
	os.RemoveAll(e.root)
}

// ---- model-side state of a dataset ----

type mshard struct {
	all   []jseries
	dead  []jseries
	byOp  []jseries // killed by a single-series delete (its WHERE clause cached the tag-value series sets)
	ghost []jseries // of those, the ones still alive in another shard (so still in the series file); shape of a repaired finding
}

func modelShards(d jdataset) []mshard {
	if d.DropShards {
		return nil
	}
	out := make([]mshard, len(d.Shards))
	for i, ss := range d.Shards {
		out[i].all = ss
	}
	has := func(sh *mshard, k string) bool {
		for _, s := range sh.all {
			if s.key() == k {
				for _, x := range sh.dead {
					if x.key() == k {
						return false
					}
				}
				return true
			}
		}
		return false
	}
	for _, op := range d.Ops {
		for i := range out {
			if op.Shard >= 0 && op.Shard != i {
				continue
			}
			sh := &out[i]
			if op.Kind == "series" {
				if has(sh, op.Series.key()) {
					sh.dead = append(sh.dead, op.Series)
					sh.byOp = append(sh.byOp, op.Series)
				}
			} else {
				for _, s := range sh.all {
					if s.Name == op.Meas && has(sh, s.key()) {
						sh.dead = append(sh.dead, s)
					}
				}
			}
		}
	}
	defer func() { // the late batches arrive after everything else (ghosts are decided before)
		for i := range out {
			if i < len(d.Late) {
				out[i].all = append(append([]jseries{}, out[i].all...), d.Late[i]...)
			}
		}
	}()
	for i := range out {
		for _, s := range out[i].byOp {
			for j := range out {
				if j != i && has(&out[j], s.key()) {
					out[i].ghost = append(out[i].ghost, s)
					break
				}
			}
		}
	}
	return out
}

// ---- expressions ----

func (x *jexpr) ast() influxql.Expr {
	switch x.Op {
	case "eq":
		return &influxql.BinaryExpr{Op: influxql.EQ, LHS: &influxql.VarRef{Val: x.K}, RHS: &influxql.StringLiteral{Val: x.V}}
	case "neq":
		return &influxql.BinaryExpr{Op: influxql.NEQ, LHS: &influxql.VarRef{Val: x.K}, RHS: &influxql.StringLiteral{Val: x.V}}
	case "re":
		return &influxql.BinaryExpr{Op: influxql.EQREGEX, LHS: &influxql.VarRef{Val: x.K}, RHS: &influxql.RegexLiteral{Val: compiled[x.R]}}
	case "nre":
		return &influxql.BinaryExpr{Op: influxql.NEQREGEX, LHS: &influxql.VarRef{Val: x.K}, RHS: &influxql.RegexLiteral{Val: compiled[x.R]}}
	case "and":
		return &influxql.BinaryExpr{Op: influxql.AND, LHS: x.A.ast(), RHS: x.B.ast()}
	case "or":
		return &influxql.BinaryExpr{Op: influxql.OR, LHS: x.A.ast(), RHS: x.B.ast()}
	case "paren":
		return &influxql.ParenExpr{Expr: x.A.ast()}
	case "true":
		return &influxql.BooleanLiteral{Val: true}
	case "false":
		return &influxql.BooleanLiteral{Val: false}
	}
	panic("bad op " + x.Op)
}

func str(s string) string { return "\"" + s + "\"" }

func (x *jexpr) term() string {
	switch x.Op {
	case "eq":
		return fmt.Sprintf("(Eq %s %s)", str(x.K), str(x.V))
	case "neq":
		return fmt.Sprintf("(Neq %s %s)", str(x.K), str(x.V))
	case "re":
		return fmt.Sprintf("(Re %s %d%%N)", str(x.K), x.R)
	case "nre":
		return fmt.Sprintf("(NRe %s %d%%N)", str(x.K), x.R)
	case "and":
		return fmt.Sprintf("(And %s %s)", x.A.term(), x.B.term())
	case "or":
		return fmt.Sprintf("(Or %s %s)", x.A.term(), x.B.term())
	case "paren":
		return fmt.Sprintf("(Paren %s)", x.A.term())
	case "true":
		return "(BoolLit true)"
	case "false":
		return "(BoolLit false)"
	}
	panic("bad op " + x.Op)
}

func optTerm(x *jexpr) string {
	if x == nil {
		return "None"
	}
	return vh.Some(x.term())
}

func (x *jexpr) walk(f func(*jexpr)) {
	if x == nil {
		return
	}
	f(x)
	x.A.walk(f)
	x.B.walk(f)
}

func (k jkf) ast() influxql.Expr {
	ref := &influxql.VarRef{Val: "_tagKey"}
	switch k.Op {
	case "all":
		return nil
	case "eq":
		return &influxql.BinaryExpr{Op: influxql.EQ, LHS: ref, RHS: &influxql.StringLiteral{Val: k.K}}
	case "neq":
		return &influxql.BinaryExpr{Op: influxql.NEQ, LHS: ref, RHS: &influxql.StringLiteral{Val: k.K}}
	case "re":
		return &influxql.BinaryExpr{Op: influxql.EQREGEX, LHS: ref, RHS: &influxql.RegexLiteral{Val: compiled[k.R]}}
	case "nre":
		return &influxql.BinaryExpr{Op: influxql.NEQREGEX, LHS: ref, RHS: &influxql.RegexLiteral{Val: compiled[k.R]}}
	case "in": // rewriteShowTagValuesStatement: OR of equalities
		var e influxql.Expr
		for _, key := range k.Ks {
			a := &influxql.BinaryExpr{Op: influxql.EQ, LHS: &influxql.VarRef{Val: "_tagKey"}, RHS: &influxql.StringLiteral{Val: key}}
			if e == nil {
				e = a
			} else {
				e = &influxql.BinaryExpr{Op: influxql.OR, LHS: e, RHS: a}
			}
		}
		return e
	}
	panic("bad kf " + k.Op)
}

func (k jkf) term() string {
	switch k.Op {
	case "all":
		return "KAll"
	case "eq":
		return "(KEq " + str(k.K) + ")"
	case "neq":
		return "(KNeq " + str(k.K) + ")"
	case "re":
		return fmt.Sprintf("(KRe %d%%N)", k.R)
	case "nre":
		return fmt.Sprintf("(KNRe %d%%N)", k.R)
	case "in":
		xs := make([]string, len(k.Ks))
		for i, s := range k.Ks {
			xs[i] = str(s)
		}
		return "(KIn " + vh.List(xs) + ")"
	}
	panic("bad kf " + k.Op)
}

// condition of a keys/values query, assembled like rewriteShowTagValuesStatement +
// rewriteSourcesCondition: (sources) AND ((where) AND (tagkey))
func assemble(q jquery) influxql.Expr {
	var cond influxql.Expr
	if q.Filt != nil {
		cond = q.Filt.ast()
	}
	if ke := q.KF.ast(); ke != nil {
		if cond == nil {
			cond = ke
		} else {
			cond = &influxql.BinaryExpr{Op: influxql.AND, LHS: &influxql.ParenExpr{Expr: cond}, RHS: &influxql.ParenExpr{Expr: ke}}
		}
	}
	if q.MExpr != nil {
		sc := q.MExpr.ast()
		if cond == nil {
			cond = sc
		} else {
			cond = &influxql.BinaryExpr{Op: influxql.AND, LHS: &influxql.ParenExpr{Expr: sc}, RHS: &influxql.ParenExpr{Expr: cond}}
		}
	}
	return cond
}

func seriesTerm(s jseries) string {
	ts := make([]string, len(s.Tags))
	for i, t := range s.Tags {
		ts[i] = vh.Pair(str(t[0]), str(t[1]))
	}
	return fmt.Sprintf("{| s_name := %s; s_tags := %s |}", str(s.Name), vh.List(ts))
}
func seriesList(ss []jseries) string {
	xs := make([]string, len(ss))
	for i, s := range ss {
		xs[i] = seriesTerm(s)
	}
	return vh.List(xs)
}
func strList(ss []string) string {
	xs := make([]string, len(ss))
	for i, s := range ss {
		xs[i] = str(s)
	}
	return vh.List(xs)
}

// ---- one case ----

func run(w *vh.W, e *env, c *jcase) {
	ctx := context.Background()
	var auth query.Authorizer
	switch c.Auth.Mode {
	case "open":
		auth = query.OpenAuthorizer
	case "fine":
		fa := &fineAuth{allowed: map[string]bool{}}
		for _, k := range c.Auth.Allowed {
			fa.allowed[k] = true
		}
		auth = fa
	}
	q := c.Q
	ms := modelShards(c.Data)
	var sel []mshard
	var ids []uint64
	if q.Kind == "names" {
		sel = ms
	} else {
		for _, i := range q.Sel {
			sel = append(sel, ms[i])
			ids = append(ids, uint64(i+1))
		}
		if q.Ghost {
			ids = append(ids, 99)
		}
	}
	var cond influxql.Expr
	if q.Kind == "names" {
		if q.Cond != nil {
			cond = q.Cond.ast()
		}
	} else {
		cond = assemble(q)
	}
	c.CondText = "<nil>"
	if cond != nil {
		c.CondText = cond.String()
	}
	c.Err, c.ErrText, c.Names, c.Rows = false, "", nil, nil
	var outTerm string
	var callErr error
	p := vh.Guard(func() {
		switch q.Kind {
		case "names":
			names, err := e.st.MeasurementNames(ctx, auth, db, cond)
			callErr = err
			for _, n := range names {
				c.Names = append(c.Names, string(n))
			}
		case "keys":
			rows, err := e.st.TagKeys(ctx, auth, ids, cond)
			callErr = err
			for _, r := range rows {
				c.Rows = append(c.Rows, jkv{M: r.Measurement, Ks: append([]string{}, r.Keys...)})
			}
		case "values":
			rows, err := e.st.TagValues(ctx, auth, ids, cond)
			callErr = err
			for _, r := range rows {
				row := jkv{M: r.Measurement}
				for _, kv := range r.Values {
					row.KV = append(row.KV, [2]string{kv.Key, kv.Value})
				}
				c.Rows = append(c.Rows, row)
			}
		}
	})
	if callErr != nil {
		c.Err, c.ErrText = true, callErr.Error()
	}
	switch q.Kind {
	case "names":
		if c.Err {
			outTerm = "(ONames None)"
		} else {
			outTerm = "(ONames " + vh.Some(strList(c.Names)) + ")"
		}
	case "keys":
		if c.Err {
			outTerm = "(OKeys None)"
		} else {
			xs := make([]string, len(c.Rows))
			for i, r := range c.Rows {
				xs[i] = vh.Pair(str(r.M), strList(r.Ks))
			}
			outTerm = "(OKeys " + vh.Some(vh.List(xs)) + ")"
		}
	case "values":
		if c.Err {
			outTerm = "(OValues None)"
		} else {
			xs := make([]string, len(c.Rows))
			for i, r := range c.Rows {
				kvs := make([]string, len(r.KV))
				for j, kv := range r.KV {
					kvs[j] = vh.Pair(str(kv[0]), str(kv[1]))
				}
				xs[i] = vh.Pair(str(r.M), vh.List(kvs))
			}
			outTerm = "(OValues " + vh.Some(vh.List(xs)) + ")"
		}
	}
	// query term
	var qTerm string
	switch q.Kind {
	case "names":
		qTerm = "(QNames " + optTerm(q.Cond) + ")"
	case "keys":
		qTerm = fmt.Sprintf("(QKeys %s %s %s)", optTerm(q.MExpr), q.KF.term(), optTerm(q.Filt))
	case "values":
		qTerm = fmt.Sprintf("(QValues %s %s %s)", optTerm(q.MExpr), q.KF.term(), optTerm(q.Filt))
	}
	// regexp table
	pats := map[int]bool{}
	hasTagAtom := false
	for _, x := range []*jexpr{q.Cond, q.MExpr, q.Filt} {
		x.walk(func(y *jexpr) {
			if y.Op == "re" || y.Op == "nre" {
				pats[y.R] = true
			}
			if (y.Op == "eq" || y.Op == "neq" || y.Op == "re" || y.Op == "nre") && y.K != "_name" {
				hasTagAtom = true
			}
		})
	}
	if q.KF.Op == "re" || q.KF.Op == "nre" {
		pats[q.KF.R] = true
	}
	var pl []int
	for p := range pats {
		pl = append(pl, p)
	}
	sort.Ints(pl)
	var rows []string
	for _, p := range pl {
		for _, s := range universe {
			rows = append(rows, fmt.Sprintf("(%d%%N, %s, %s)", p, str(s), vh.Bool(compiled[p].MatchString(s))))
		}
	}
	shTerms := make([]string, len(sel))
	for i, sh := range sel {
		shTerms[i] = fmt.Sprintf("{| sh_all := %s; sh_dead := %s |}", seriesList(sh.all), seriesList(sh.dead))
	}
	authTerm := "None"
	if c.Auth.Mode == "fine" {
		// allowed series as terms: every universe series whose key is allowed
		var al []jseries
		seen := map[string]bool{}
		for _, sh := range ms {
			for _, s := range sh.all {
				if !seen[s.key()] {
					seen[s.key()] = true
					for _, k := range c.Auth.Allowed {
						if k == s.key() {
							al = append(al, s)
						}
					}
				}
			}
		}
		authTerm = vh.Some(seriesList(al))
	}
	t := fmt.Sprintf("{| c_shards := %s; c_tbl := %s; c_auth := %s; c_q := %s; c_out := %s |}",
		vh.List(shTerms), vh.List(rows), authTerm, qTerm, outTerm)
	// shape of the known finding: open authorizer, a query that answers from the index's key /
	// value listings, and a selected shard with a deleted series whose measurement still lives there
	sig := ""
	staleShape := false
	for _, sh := range sel {
		for _, d := range sh.dead {
			for _, s := range sh.all {
				if s.Name != d.Name {
					continue
				}
				alive := true
				for _, x := range sh.dead {
					if x.key() == s.key() {
						alive = false
					}
				}
				if alive {
					staleShape = true
				}
			}
		}
	}
	listing := (q.Kind == "names" && hasTagAtom) || (q.Kind != "names" && q.Filt == nil)
	if staleShape && listing && c.Auth.Mode != "fine" {
		sig = sigStale
	}
	// shape of a repaired finding (stale tag-value series cache): a selected shard dropped a
	// series through a single-series delete while the series lives on in another shard.  Kept
	// in the generator and counted, no longer tolerated.
	nGhost := 0
	for _, sh := range sel {
		nGhost += len(sh.ghost)
	}
	nonEmpty := len(c.Names) > 0 || len(c.Rows) > 0
	nDead := 0
	for _, sh := range sel {
		nDead += len(sh.dead)
	}
	nontrivial := nonEmpty && len(sel) >= 2
	idx := w.Add(t, c, nontrivial, sig)
	if p != "" {
		// (a database without shards + AND/OR condition used to panic: repaired, a panic is a failure)
		psig := ""
		w.Fail(idx, "panic in Store."+q.Kind+" query: "+p, psig)
	}
	w.Count("kind", q.Kind)
	w.Count("auth", c.Auth.Mode)
	w.Count("shards_selected", fmt.Sprint(len(sel)))
	w.Count("deleted_series_in_selection", fmt.Sprint(nDead))
	w.Count("error", fmt.Sprint(c.Err))
	w.Count("nonempty_answer", fmt.Sprint(nonEmpty))
	w.Count("known_finding_shape", sig)
	w.Count("dropped_here_alive_elsewhere_in_selection", fmt.Sprint(nGhost))
	nLate := 0
	for _, l := range c.Data.Late {
		nLate += len(l)
	}
	w.Count("late_batch_series", fmt.Sprint(nLate/4*4)+"+")
	w.Count("has_filter", fmt.Sprint(q.Filt != nil || q.Cond != nil))
}

// ---- generators ----

func allSeries() []jseries {
	var out []jseries
	opts := []string{"", "a", "b"}
	for _, m := range measNames {
		for _, v1 := range opts {
			for _, v2 := range opts {
				s := jseries{Name: m}
				if v1 != "" {
					s.Tags = append(s.Tags, [2]string{"k1", v1})
				}
				if v2 != "" {
					s.Tags = append(s.Tags, [2]string{"k2", v2})
				}
				out = append(out, s)
			}
		}
	}
	return out
}

func genDataset(w *vh.W) jdataset {
	r := w.Rng
	n := 2 + r.IntN(2)
	all := allSeries()
	var d jdataset
	for i := 0; i < n; i++ {
		dens := []int{1, 2, 3, 5}[r.IntN(4)]
		var ss []jseries
		r.Shuffle(len(all), func(a, b int) { all[a], all[b] = all[b], all[a] })
		for _, s := range all {
			if r.IntN(10) < dens {
				ss = append(ss, s)
			}
		}
		d.Shards = append(d.Shards, ss)
	}
	if r.IntN(4) != 0 {
		nops := 1 + r.IntN(4)
		for i := 0; i < nops; i++ {
			sh := r.IntN(n+1) - 1 // -1 = all
			if r.IntN(5) == 0 {
				d.Ops = append(d.Ops, jop{Kind: "meas", Shard: sh, Meas: measNames[r.IntN(2)]})
				continue
			}
			// pick an existing series
			src := d.Shards[r.IntN(n)]
			if sh >= 0 {
				src = d.Shards[sh]
			}
			if len(src) == 0 {
				continue
			}
			d.Ops = append(d.Ops, jop{Kind: "series", Shard: sh, Series: src[r.IntN(len(src))]})
		}
	}
	if r.IntN(3) != 0 {
		// late write batches: series new to the shard, of measurements that still live there
		// (a measurement re-created after its drop is C14's subject)
		ms := modelShards(d)
		d.Late = make([][]jseries, n)
		for i := 0; i < n; i++ {
			liveMeas := map[string]bool{}
			inShard := map[string]bool{}
			for _, s := range ms[i].all {
				inShard[s.key()] = true
				dead := false
				for _, x := range ms[i].dead {
					if x.key() == s.key() {
						dead = true
					}
				}
				if !dead {
					liveMeas[s.Name] = true
				}
			}
			r.Shuffle(len(all), func(a, b int) { all[a], all[b] = all[b], all[a] })
			want := 4 + r.IntN(4)
			for _, s := range all {
				if len(d.Late[i]) < want && !inShard[s.key()] && liveMeas[s.Name] {
					d.Late[i] = append(d.Late[i], s)
				}
			}
		}
	}
	return d
}

var exprKeys = []string{"k1", "k2", "k1", "k2", "k3"}
var exprVals = []string{"", "a", "b", "a", "b", "c"}
var nameVals = []string{"m", "n", "x"}

func genAtom(w *vh.W, allowName bool) *jexpr {
	r := w.Rng
	x := &jexpr{K: exprKeys[r.IntN(len(exprKeys))]}
	if allowName && r.IntN(6) == 0 {
		x.K = "_name"
	}
	if r.IntN(5) < 3 {
		x.Op = []string{"eq", "eq", "neq"}[r.IntN(3)]
		if x.K == "_name" {
			x.V = nameVals[r.IntN(len(nameVals))]
		} else {
			x.V = exprVals[r.IntN(len(exprVals))]
		}
	} else {
		x.Op = []string{"re", "re", "nre"}[r.IntN(3)]
		x.R = r.IntN(7)
	}
	return x
}

// top = true: this node is a top-level conjunct (no _name atom allowed there for filters)
func genExpr(w *vh.W, depth int, allowNameTop bool, top bool) *jexpr {
	r := w.Rng
	if depth <= 1 || r.IntN(5) == 0 {
		return genAtom(w, allowNameTop || !top)
	}
	switch r.IntN(6) {
	case 0:
		return &jexpr{Op: "paren", A: genExpr(w, depth-1, allowNameTop, top)}
	case 1, 2:
		return &jexpr{Op: "and", A: genExpr(w, depth-1, allowNameTop, top), B: genExpr(w, depth-1, allowNameTop, top)}
	default:
		return &jexpr{Op: "or", A: genExpr(w, depth-1, allowNameTop, false), B: genExpr(w, depth-1, allowNameTop, false)}
	}
}

func genMExpr(w *vh.W) *jexpr {
	r := w.Rng
	one := func() *jexpr {
		switch r.IntN(4) {
		case 0:
			return &jexpr{Op: "re", K: "_name", R: []int{6, 2, 5, 0}[r.IntN(4)]}
		case 1:
			return &jexpr{Op: "neq", K: "_name", V: nameVals[r.IntN(3)]}
		default:
			return &jexpr{Op: "eq", K: "_name", V: nameVals[r.IntN(3)]}
		}
	}
	switch r.IntN(8) {
	case 0, 1, 2:
		return nil
	case 3:
		return &jexpr{Op: "and", A: one(), B: one()}
	default:
		return one()
	}
}

func genKF(w *vh.W, required bool) jkf {
	r := w.Rng
	keys := []string{"k1", "k2", "k3"}
	c := r.IntN(8)
	if !required && c < 5 {
		return jkf{Op: "all"}
	}
	switch r.IntN(6) {
	case 0:
		return jkf{Op: "neq", K: keys[r.IntN(3)]}
	case 1:
		return jkf{Op: "re", R: []int{7, 8, 2, 0}[r.IntN(4)]}
	case 2:
		return jkf{Op: "nre", R: []int{8, 0}[r.IntN(2)]}
	case 3:
		return jkf{Op: "in", Ks: []string{"k2", "k1", "k3"}[:1+r.IntN(3)]}
	default:
		return jkf{Op: "eq", K: keys[r.IntN(3)]}
	}
}

func genAuth(w *vh.W, d jdataset) jauth {
	r := w.Rng
	switch r.IntN(6) {
	case 0:
		return jauth{Mode: "nil"}
	case 1:
		return jauth{Mode: "open"}
	}
	a := jauth{Mode: "fine"}
	p := []int{0, 3, 5, 8, 10}[r.IntN(5)]
	for _, s := range allSeries() {
		if r.IntN(10) < p {
			a.Allowed = append(a.Allowed, s.key())
		}
	}
	sort.Strings(a.Allowed)
	return a
}

func genQuery(w *vh.W, d jdataset) jquery {
	r := w.Rng
	n := len(d.Shards)
	var q jquery
	switch r.IntN(3) {
	case 0:
		q.Kind = "names"
		q.KF = jkf{Op: "all"}
		if r.IntN(5) != 0 {
			q.Cond = genExpr(w, 1+r.IntN(3), true, true)
			if r.IntN(30) == 0 {
				q.Cond = &jexpr{Op: "and", A: q.Cond, B: &jexpr{Op: "true"}}
			}
		}
		return q
	case 1:
		q.Kind = "keys"
		q.KF = genKF(w, false)
	default:
		q.Kind = "values"
		q.KF = genKF(w, true)
	}
	q.MExpr = genMExpr(w)
	if r.IntN(2) == 0 {
		q.Filt = genExpr(w, 1+r.IntN(3), false, true)
	}
	for i := 0; i < n; i++ {
		if r.IntN(3) != 0 {
			q.Sel = append(q.Sel, i)
		}
	}
	if len(q.Sel) == 0 {
		q.Sel = []int{r.IntN(n)}
	}
	q.Ghost = r.IntN(10) == 0
	return q
}

func mk(name string, kv ...string) jseries {
	s := jseries{Name: name}
	for i := 0; i+1 < len(kv); i += 2 {
		s.Tags = append(s.Tags, [2]string{kv[i], kv[i+1]})
	}
	return s
}

func main() {
	w := vh.New("C42", "From Coq Require Import String.\nFrom Verif Require Import Base.Prelude Model.C15 Model.C42.\nOpen Scope string_scope.", "case", "check")
	w.Rule = "one case = (dataset, authorizer, query). Dataset: 2-3 shards of one database in a real tsdb.Store, each holding a random subset (10-50%) of 2 measurements x {k1,k2} x {absent,a,b}, then 0-4 deletes (one series or a whole measurement, in any order; in one shard through Shard.DeleteSeriesRange/DeleteMeasurement or in all through Store.DeleteSeries/DeleteMeasurement). Authorizer: nil, query.OpenAuthorizer, or a fine authorizer allowing a random 0/30/50/80/100% of the series. Query: MeasurementNames (cond nil or a depth<=3 expression over tag and _name comparisons), TagKeys / TagValues over a random non-empty subset of the shards (sometimes plus an unknown shard id) with a condition assembled like statement_rewriter.go from an optional _name part, an optional/required _tagKey part (=, !=, =~, !~, IN) and an optional tag filter. In 2/3 of the datasets the store then answers listing queries for every measurement/key (filling the tag-value series-id caches) and every shard receives ONE more write batch of 4-7 series new to it before the judged queries (live index, no reopen). ~60 queries per store. Hand-picked first: the stale-listing shapes and the AND/!= measurement-level semantics. Non-trivial: >= 2 shards selected and a non-empty answer. Distinct: distinct Gallina terms."
	for _, p := range patterns {
		compiled = append(compiled, regexp.MustCompile(p))
	}
	var rc jcase
	if w.ReplayCase(&rc) {
		e := newEnv(rc.Data)
		run(w, e, &rc)
		e.close()
		w.Finish()
		return
	}
	perStore := 60
	// hand-picked dataset: stale value / key after a series delete; measurement dropped in one shard only
	hd := jdataset{
		Shards: [][]jseries{
			{mk("m", "k1", "a"), mk("m", "k1", "b"), mk("m", "k2", "a"), mk("n", "k1", "a")},
			{mk("m", "k1", "b"), mk("n", "k1", "a"), mk("n", "k2", "b")},
		},
		Ops: []jop{{Kind: "meas", Shard: 1, Meas: "n"}, {Kind: "series", Shard: -1, Series: mk("m", "k1", "a")}, {Kind: "series", Shard: 0, Series: mk("m", "k2", "a")}},
	}
	// hand-picked dataset 2: n,k1=a dropped from shard 1 only (stale tag-value cache), alive in shard 0
	gd := jdataset{
		Shards: [][]jseries{
			{mk("n", "k1", "a"), mk("m", "k1", "a")},
			{mk("n", "k1", "a"), mk("n", "k1", "b")},
		},
		Ops: []jop{{Kind: "series", Shard: 1, Series: mk("n", "k1", "a")}},
	}
	eq := func(k, v string) *jexpr { return &jexpr{Op: "eq", K: k, V: v} }
	var hq []jquery
	for _, sel := range [][]int{{0}, {0, 1}} {
		hq = append(hq,
			jquery{Kind: "values", KF: jkf{Op: "eq", K: "k1"}, Sel: sel},
			jquery{Kind: "values", KF: jkf{Op: "eq", K: "k1"}, Sel: sel, Filt: eq("k1", "a")},
			jquery{Kind: "values", KF: jkf{Op: "in", Ks: []string{"k1", "k2"}}, Sel: sel, MExpr: eq("_name", "m")},
			jquery{Kind: "keys", KF: jkf{Op: "all"}, Sel: sel},
			jquery{Kind: "keys", KF: jkf{Op: "all"}, Sel: sel, Filt: &jexpr{Op: "neq", K: "k1", V: ""}},
		)
	}
	hq = append(hq,
		jquery{Kind: "names", KF: jkf{Op: "all"}},
		jquery{Kind: "names", KF: jkf{Op: "all"}, Cond: eq("k1", "a")},
		jquery{Kind: "names", KF: jkf{Op: "all"}, Cond: eq("k2", "a")},
		jquery{Kind: "names", KF: jkf{Op: "all"}, Cond: &jexpr{Op: "and", A: eq("k1", "b"), B: eq("k2", "b")}},
		jquery{Kind: "names", KF: jkf{Op: "all"}, Cond: &jexpr{Op: "neq", K: "k1", V: "a"}},
		jquery{Kind: "names", KF: jkf{Op: "all"}, Cond: eq("k1", "")},
	)
	func() {
		e := newEnv(hd)
		defer e.close()
		for _, am := range []jauth{{Mode: "nil"}, {Mode: "open"}, {Mode: "fine", Allowed: []string{"m,k1=b", "n,k1=a", "m,k1=a"}}} {
			for _, q := range hq {
				if w.Len() >= w.N {
					return
				}
				c := jcase{Data: hd, Auth: am, Q: q}
				run(w, e, &c)
			}
		}
	}()
	func() {
		e := newEnv(gd)
		defer e.close()
		all := jauth{Mode: "fine", Allowed: []string{"n,k1=a", "n,k1=b", "m,k1=a"}}
		for _, am := range []jauth{all, {Mode: "nil"}} {
			for _, q := range []jquery{
				{Kind: "values", KF: jkf{Op: "eq", K: "k1"}, Sel: []int{1}},
				{Kind: "values", KF: jkf{Op: "eq", K: "k1"}, Sel: []int{1}, Filt: eq("k1", "a")},
				{Kind: "keys", KF: jkf{Op: "all"}, Sel: []int{1}, Filt: eq("k1", "a")},
				{Kind: "values", KF: jkf{Op: "eq", K: "k1"}, Sel: []int{0, 1}},
			} {
				if w.Len() >= w.N {
					return
				}
				c := jcase{Data: gd, Auth: am, Q: q}
				run(w, e, &c)
			}
		}
	}()
	func() { // hand-picked dataset 3: the database lost all its shards
		nd := jdataset{Shards: [][]jseries{{mk("m", "k1", "a")}}, DropShards: true}
		e := newEnv(nd)
		defer e.close()
		for _, q := range []jquery{
			{Kind: "names", KF: jkf{Op: "all"}},
			{Kind: "names", KF: jkf{Op: "all"}, Cond: eq("k1", "a")},
			{Kind: "names", KF: jkf{Op: "all"}, Cond: &jexpr{Op: "and", A: eq("k1", "a"), B: eq("k2", "b")}},
			{Kind: "names", KF: jkf{Op: "all"}, Cond: &jexpr{Op: "or", A: eq("_name", "m"), B: eq("k2", "b")}},
		} {
			if w.Len() >= w.N {
				return
			}
			c := jcase{Data: nd, Auth: jauth{Mode: "nil"}, Q: q}
			run(w, e, &c)
		}
	}()
	for w.Len() < w.N {
		d := genDataset(w)
		e := newEnv(d)
		for i := 0; i < perStore && w.Len() < w.N; i++ {
			c := jcase{Data: d, Auth: genAuth(w, d), Q: genQuery(w, d)}
			run(w, e, &c)
		}
		e.close()
	}
	w.Finish()
}
