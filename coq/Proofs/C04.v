(** C04 — part 1: [chunk], the cache path ([chunks], [snapshot]) and file rolling. *)
From Coq Require Import ZifyBool.
From Verif Require Import Base.Prelude Model.C37 Proofs.C37 Model.C04.
Local Open Scope Z_scope.

Section Proofs.
  Context {V : Type}.
  Notation arr := (arr V).
  Notation blk := (blk V).
  Implicit Types (l vs mv : arr).

  (** *** sortedness of pieces *)
  Lemma ssorted_app_inv l1 l2 : ssorted (l1 ++ l2) ->
    ssorted l1 /\ ssorted l2 /\ (forall p q, In p l1 -> In q l2 -> tm p < tm q).
  Proof.
    induction l1 as [|x r IH]; cbn.
    - intros H. repeat split; auto. intros p q [].
    - intros [H1 H2]. apply IH in H2 as [H2 [H3 H4]]. apply Forall_app in H1 as [H1a H1b].
      repeat split; auto. intros p q [<-|Hp] Hq.
      + rewrite Forall_forall in H1b. auto.
      + auto.
  Qed.

  Lemma ssorted_firstn n l : ssorted l -> ssorted (firstn n l).
  Proof. intro H. rewrite <- (firstn_skipn n l) in H. apply ssorted_app_inv in H. tauto. Qed.

  Lemma ssorted_skipn n l : ssorted l -> ssorted (skipn n l).
  Proof. intro H. rewrite <- (firstn_skipn n l) in H. apply ssorted_app_inv in H. tauto. Qed.

  Lemma firstn_lt_skipn n l : ssorted l ->
    forall p q, In p (firstn n l) -> In q (skipn n l) -> tm p < tm q.
  Proof. intro H. rewrite <- (firstn_skipn n l) in H. apply ssorted_app_inv in H. tauto. Qed.

  Lemma wf_mkout l : l <> [] -> ssorted l -> wf_blk (mkout l) = true.
  Proof.
    intros Hne Hs. unfold wf_blk, wf_block, mkout. cbn.
    destruct l as [|p r]; [congruence|]. cbn [nonempty].
    rewrite (proj2 (ssorted_b_spec (p :: r)) Hs). rewrite !Z.eqb_refl. reflexivity.
  Qed.

  (** *** [chunk] *)
  Lemma chunk_size_bound (size : nat) (dst : list blk) mv :
    forall b, In b (fst (chunk size dst mv)) -> In b dst \/ (length (b_vals b) <= size)%nat.
  Proof.
    intros b. unfold chunk.
    destruct (size <? length mv)%nat eqn:E1.
    - cbn [fst]. rewrite in_app_iff. intros [H|[<-|[]]]; [auto|right]. cbn. rewrite firstn_length. lia.
    - destruct (0 <? length mv)%nat eqn:E2; cbn [fst].
      + rewrite in_app_iff. intros [H|[<-|[]]]; [auto|right]. cbn.
        apply Nat.ltb_ge in E1. exact E1.
      + auto.
  Qed.

  (** [chunk] moves a prefix of the pending values into one new block *)
  Lemma chunk_content (size : nat) (dst : list blk) mv :
    concat (map b_vals (fst (chunk size dst mv))) ++ snd (chunk size dst mv)
    = concat (map b_vals dst) ++ mv.
  Proof.
    unfold chunk. destruct (size <? length mv)%nat.
    - cbn [fst snd]. rewrite map_app, concat_app. cbn. rewrite app_nil_r, <- app_assoc.
      rewrite firstn_skipn. reflexivity.
    - destruct (0 <? length mv)%nat eqn:E; cbn [fst snd].
      + rewrite map_app, concat_app. cbn. rewrite !app_nil_r. reflexivity.
      + destruct mv; [reflexivity|discriminate].
  Qed.

  (** *** [chunks] (cacheKeyIterator.encode) *)
  Lemma chunks_fuel_content (size : nat) : (0 < size)%nat -> forall fuel vs,
    (length vs <= fuel)%nat -> concat (map b_vals (chunks_fuel fuel size vs)) = vs.
  Proof.
    intro Hs. induction fuel as [|f IH]; intros vs Hl.
    - destruct vs; [reflexivity|cbn in Hl; lia].
    - destruct vs as [|p r]; [reflexivity|]. cbn [chunks_fuel map concat mkout b_vals].
      rewrite IH; [apply firstn_skipn|]. rewrite skipn_length. cbn [length] in *. lia.
  Qed.

  Lemma chunks_fuel_size (size : nat) : forall fuel vs b,
    In b (chunks_fuel fuel size vs) -> (length (b_vals b) <= size)%nat.
  Proof.
    induction fuel as [|f IH]; intros vs b; [intros []|]. destruct vs as [|p r]; [intros []|].
    cbn [chunks_fuel]. intros [<-|H]; [|eauto]. cbn. rewrite firstn_length. lia.
  Qed.

  Lemma chunks_fuel_wf (size : nat) : (0 < size)%nat -> forall fuel vs, ssorted vs ->
    forallb wf_blk (chunks_fuel fuel size vs) = true.
  Proof.
    intro Hs. induction fuel as [|f IH]; intros vs Hv; [reflexivity|].
    destruct vs as [|p r]; [reflexivity|]. cbn [chunks_fuel forallb].
    rewrite IH by (apply ssorted_skipn; exact Hv). rewrite andb_true_r.
    apply wf_mkout; [|apply ssorted_firstn; exact Hv].
    destruct size; [lia|discriminate].
  Qed.

  Lemma chunks_fuel_ordered (size : nat) : (0 < size)%nat -> forall fuel vs prev, ssorted vs ->
    Forall (fun q => prev < tm q) vs -> ordered_from prev (chunks_fuel fuel size vs) = true.
  Proof.
    intro Hs. induction fuel as [|f IH]; intros vs prev Hv Hp; [reflexivity|].
    destruct vs as [|p r] eqn:E; [reflexivity|]. rewrite <- E in *.
    cbn [chunks_fuel]. rewrite E at 1. cbn [ordered_from mkout b_min b_max].
    apply andb_true_iff. split.
    - assert (Hm : min_time (firstn size vs) = tm p).
      { rewrite E. destruct size; [lia|reflexivity]. }
      rewrite Hm. apply Z.ltb_lt. rewrite E in Hp. inversion Hp; auto.
    - apply IH; [apply ssorted_skipn; exact Hv|].
      apply Forall_forall. intros q Hq.
      assert (Hne : firstn size vs <> []) by (rewrite E; destruct size; [lia|discriminate]).
      destruct (max_time_in _ Hne) as [p' [Hp1 Hp2]]. rewrite <- Hp2.
      eapply firstn_lt_skipn; eauto.
  Qed.

  Lemma chunks_ordered (size : nat) vs : (0 < size)%nat -> ssorted vs -> ordered (chunks size vs) = true.
  Proof.
    intros Hs Hv. unfold chunks. destruct vs as [|p r] eqn:E; [reflexivity|]. rewrite <- E in *.
    assert (Hl : length vs = S (length r)) by (rewrite E; reflexivity). rewrite Hl.
    cbn [chunks_fuel]. rewrite E at 1. cbn [ordered mkout b_max].
    apply chunks_fuel_ordered; [exact Hs|apply ssorted_skipn; exact Hv|].
    apply Forall_forall. intros q Hq.
    assert (Hne : firstn size vs <> []) by (rewrite E; destruct size; [lia|discriminate]).
    destruct (max_time_in _ Hne) as [p' [Hp1 Hp2]]. rewrite <- Hp2.
    eapply firstn_lt_skipn; eauto.
  Qed.

  (** *** rolling: the files are a split of the written sequence into non-empty pieces *)
  Lemma roll_go_concat {A} (limit : nat) : forall (sq cur : list (N * A)) ckey cnt,
    concat (roll_go limit cur ckey cnt sq) = rev cur ++ sq.
  Proof.
    induction sq as [|[k b] r IH]; intros cur ckey cnt; cbn [roll_go].
    - destruct cur; cbn; rewrite ?app_nil_r; reflexivity.
    - match goal with |- context [(limit <=? ?c)%nat] => destruct (limit <=? c)%nat end.
      + cbn [concat]. rewrite IH. cbn [rev app]. rewrite <- !app_assoc. reflexivity.
      + rewrite IH. cbn [rev]. rewrite <- app_assoc. reflexivity.
  Qed.

  Lemma roll_concat {A} (limit : nat) (sq : list (N * A)) : concat (roll limit sq) = sq.
  Proof. unfold roll. rewrite roll_go_concat. reflexivity. Qed.

  Lemma roll_go_nonempty {A} (limit : nat) : forall (sq cur : list (N * A)) ckey cnt,
    Forall (fun f => f <> []) (roll_go limit cur ckey cnt sq).
  Proof.
    induction sq as [|[k b] r IH]; intros cur ckey cnt; cbn [roll_go].
    - destruct cur as [|x c]; constructor; auto. cbn. intro H. apply app_eq_nil in H as [_ H]. discriminate.
    - match goal with |- context [(limit <=? ?c)%nat] => destruct (limit <=? c)%nat end.
      + constructor; [|apply IH]. cbn. intro H. apply app_eq_nil in H as [_ H]. discriminate.
      + apply IH.
  Qed.

  (** *** per-key projections of a written sequence *)
  Lemma seq_points_app {A} k (s1 s2 : list (N * A)) :
    seq_points k (s1 ++ s2) = seq_points k s1 ++ seq_points k s2.
  Proof. unfold seq_points. rewrite filter_app, map_app. reflexivity. Qed.

  Lemma seq_points_pair_same {A} k (l : list A) : seq_points k (map (pair k) l) = l.
  Proof.
    unfold seq_points. induction l as [|x r IH]; [reflexivity|]. cbn. rewrite N.eqb_refl. cbn.
    f_equal. exact IH.
  Qed.

  Lemma seq_points_pair_other {A} k k' (l : list A) : k' <> k -> seq_points k (map (pair k') l) = [].
  Proof.
    intro Hk. unfold seq_points. induction l as [|x r IH]; [reflexivity|]. cbn.
    destruct (N.eqb_spec k' k); [congruence|]. exact IH.
  Qed.

  Lemma out_content_app k (s1 s2 : out_seq V) :
    out_content k (s1 ++ s2) = out_content k s1 ++ out_content k s2.
  Proof. unfold out_content. rewrite seq_points_app, map_app, concat_app. reflexivity. Qed.

  (** *** the cache path *)
  Definition cache_seq (size : nat) (cache : list (N * arr)) : out_seq V :=
    concat (map (fun e => map (pair (fst e)) (chunks size (vals_dedup (snd e)))) cache).

  Lemma snapshot_is_cache_seq size cache : concat (snapshot size cache) = cache_seq size cache.
  Proof. unfold snapshot. apply roll_concat. Qed.

  Lemma cache_seq_content (size : nat) (Hs : (0 < size)%nat) k : forall cache,
    NoDup (map fst cache) ->
    out_content k (cache_seq size cache)
    = last_wins_sorted (concat (map (fun e => if (fst e =? k)%N then snd e else []) cache)).
  Proof.
    induction cache as [|[k' vs] r IH]; intro Hnd; [reflexivity|].
    inversion Hnd as [|? ? Hni Hnd']; subst.
    assert (Hstep : cache_seq size ((k', vs) :: r)
                    = map (pair k') (chunks size (vals_dedup vs)) ++ cache_seq size r) by reflexivity.
    rewrite Hstep, out_content_app, IH by exact Hnd'. clear Hstep.
    cbn [map concat fst snd].
    destruct (N.eqb_spec k' k) as [->|Hne].
    - unfold out_content at 1. rewrite seq_points_pair_same.
      unfold chunks. rewrite chunks_fuel_content by (auto; lia).
      match goal with |- context [last_wins_sorted (concat (map ?f r))] =>
        assert (Hnil : concat (map f r) = []) end.
      { clear -Hni. induction r as [|[k2 v2] r IH]; [reflexivity|]. cbn [map concat fst snd].
        destruct (N.eqb_spec k2 k) as [->|_]; [exfalso; apply Hni; left; reflexivity|].
        apply IH. intro H. apply Hni. right. exact H. }
      rewrite Hnil. cbn. rewrite !app_nil_r. apply dedup_last_wins.
    - unfold out_content at 1. rewrite seq_points_pair_other by exact Hne. reflexivity.
  Qed.
End Proofs.
