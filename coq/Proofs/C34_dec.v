(** C34 — decimal printing/parsing and list-scanning lemmas. *)
From Verif Require Import Base.Prelude Model.C34.
From Coq Require Import ZifyBool ZifyNat ZifyN.
Ltac Zify.zify_post_hook ::= Z.div_mod_to_equations.
Local Open Scope N_scope.

(** ** take_while / drop_while *)
Definition stops (f : N -> bool) (r : list N) : Prop :=
  match r with [] => True | c :: _ => f c = false end.

Lemma take_while_app f l r :
  forallb f l = true -> stops f r -> take_while f (l ++ r) = l.
Proof.
  intros Hl Hr. induction l as [|c l IH]; cbn in *.
  - destruct r as [|c r]; [reflexivity|]. cbn in Hr. cbn. rewrite Hr. reflexivity.
  - apply andb_true_iff in Hl as [Hc Hl]. rewrite Hc, IH by exact Hl. reflexivity.
Qed.

Lemma drop_while_app f l r :
  forallb f l = true -> stops f r -> drop_while f (l ++ r) = r.
Proof.
  intros Hl Hr. induction l as [|c l IH]; cbn in *.
  - destruct r as [|c r]; [reflexivity|]. cbn in Hr. cbn. rewrite Hr. reflexivity.
  - apply andb_true_iff in Hl as [Hc Hl]. rewrite Hc, IH by exact Hl. reflexivity.
Qed.

Lemma take_while_all f l : forallb f l = true -> take_while f l = l.
Proof. intro H. rewrite <- (app_nil_r l) at 1. apply take_while_app; [exact H|exact I]. Qed.

Lemma drop_while_all f l : forallb f l = true -> drop_while f l = [].
Proof. intro H. rewrite <- (app_nil_r l) at 1. apply drop_while_app; [exact H|exact I]. Qed.

Lemma drop_while_stop f r : stops f r -> drop_while f r = r.
Proof. intro H. apply (drop_while_app f [] r eq_refl H). Qed.

Lemma take_while_stop f r : stops f r -> take_while f r = [].
Proof. intro H. apply (take_while_app f [] r eq_refl H). Qed.

(** ** Decimal digits *)
Lemma dec_value_app a b :
  dec_value (a ++ b) = dec_value a * 10 ^ N.of_nat (length b) + dec_value b.
Proof.
  unfold dec_value.
  assert (G : forall b x y, fold_left (fun a c => a * 10 + (c - 48)) b (x + y)
                = x * 10 ^ N.of_nat (length b) + fold_left (fun a c => a * 10 + (c - 48)) b y).
  { clear. induction b as [|c b IH]; intros x y; cbn [fold_left length].
    - cbn. lia.
    - replace ((x + y) * 10 + (c - 48)) with (x * 10 + (y * 10 + (c - 48))) by lia.
      rewrite IH. rewrite Nat2N.inj_succ, N.pow_succ_r'. lia. }
  rewrite fold_left_app.
  specialize (G b (fold_left (fun a c => a * 10 + (c - 48)) a 0) 0).
  rewrite N.add_0_r in G. rewrite G. reflexivity.
Qed.

Lemma dec_value_cons c l :
  dec_value (c :: l) = (c - 48) * 10 ^ N.of_nat (length l) + dec_value l.
Proof. change (c :: l) with ([c] ++ l). rewrite dec_value_app. cbn. lia. Qed.

Lemma dec_aux_spec fuel : forall n acc,
  n < 10 ^ N.of_nat fuel -> (0 < fuel)%nat ->
  exists ds, dec_aux fuel n acc = ds ++ acc /\ forallb is_digit ds = true /\
             dec_value ds = n /\ ds <> [].
Proof.
  induction fuel as [|f IH]; intros n acc Hn Hf; [lia|].
  cbn [dec_aux].
  assert (Hd : is_digit (48 + n mod 10) = true) by (unfold is_digit; lia).
  destruct (n / 10 =? 0) eqn:E.
  - exists [48 + n mod 10]. cbn [app forallb]. rewrite Hd.
    split; [reflexivity|]. split; [reflexivity|]. split; [|discriminate].
    unfold dec_value; cbn [fold_left]. lia.
  - assert (Hf' : (0 < f)%nat).
    { destruct f; [|lia]. cbn in Hn. lia. }
    assert (Hn' : n / 10 < 10 ^ N.of_nat f).
    { rewrite Nat2N.inj_succ, N.pow_succ_r' in Hn. lia. }
    destruct (IH (n / 10) ((48 + n mod 10) :: acc) Hn' Hf') as [ds [E1 [E2 [E3 E4]]]].
    exists (ds ++ [48 + n mod 10]). rewrite E1, <- app_assoc. cbn [app].
    split; [reflexivity|]. split; [|split].
    + rewrite forallb_app, E2. cbn [forallb]. rewrite Hd. reflexivity.
    + rewrite dec_value_app, E3. unfold dec_value; cbn [fold_left length].
      change (10 ^ N.of_nat 1) with 10. lia.
    + destruct ds; discriminate.
Qed.

Lemma pow10_log2 n : n < 10 ^ N.of_nat (S (N.to_nat (N.log2 n))).
Proof.
  destruct (N.eq_dec n 0) as [->|Hz]; [reflexivity|].
  assert (H2 : n < 2 ^ N.succ (N.log2 n)) by (apply N.log2_spec; lia).
  eapply N.lt_le_trans; [exact H2|].
  rewrite Nat2N.inj_succ, N2Nat.id.
  apply N.pow_le_mono_l. lia.
Qed.

Lemma dec_spec n :
  forallb is_digit (dec n) = true /\ dec_value (dec n) = n /\ dec n <> [].
Proof.
  unfold dec.
  destruct (dec_aux_spec (S (N.to_nat (N.log2 n))) n [] (pow10_log2 n) ltac:(lia))
    as [ds [E1 [E2 [E3 E4]]]].
  rewrite E1, app_nil_r. auto.
Qed.

Lemma dec_digits n : forallb is_digit (dec n) = true.
Proof. apply dec_spec. Qed.
Lemma dec_value_dec n : dec_value (dec n) = n.
Proof. apply dec_spec. Qed.
Lemma dec_nonempty n : dec n <> [].
Proof. apply dec_spec. Qed.

Lemma pow10_S k : 10 ^ N.of_nat (S k) = 10 * 10 ^ N.of_nat k.
Proof. rewrite Nat2N.inj_succ, N.pow_succ_r'. reflexivity. Qed.

(** A digit string denotes a value below 10^length. *)
Lemma dec_value_bound l : forallb is_digit l = true -> dec_value l < 10 ^ N.of_nat (length l).
Proof.
  induction l as [|c l IH] using rev_ind; intro H; [cbn; lia|].
  rewrite forallb_app in H. apply andb_true_iff in H as [Hl Hc]. cbn [forallb] in Hc.
  rewrite andb_true_r in Hc.
  rewrite dec_value_app, app_length. cbn [length]. specialize (IH Hl).
  replace (length l + 1)%nat with (S (length l)) by lia.
  change (10 ^ N.of_nat 1) with 10. rewrite pow10_S.
  replace (dec_value [c]) with (c - 48) by (unfold dec_value; cbn [fold_left]; lia).
  set (P := 10 ^ N.of_nat (length l)) in *. set (v := dec_value l) in *.
  unfold is_digit in Hc. lia.
Qed.

(** ** strconv.ParseUint on the digits of n *)
Lemma pu_loop_snoc l c acc :
  pu_loop acc (l ++ [c]) =
  match pu_loop acc l with Some a => pu_loop a [c] | None => None end.
Proof.
  revert acc; induction l as [|x l IH]; intro acc; cbn [app pu_loop].
  - destruct (negb (is_digit c)); [reflexivity|].
    destruct (cutoff64 <=? acc); [reflexivity|].
    destruct (2 ^ 64 <=? acc * 10 + (c - 48)); reflexivity.
  - destruct (negb (is_digit x)); [reflexivity|].
    destruct (cutoff64 <=? acc); [reflexivity|].
    destruct (2 ^ 64 <=? acc * 10 + (x - 48)); [reflexivity|]. apply IH.
Qed.

Lemma pu_loop_digits l :
  forallb is_digit l = true ->
  pu_loop 0 l = if dec_value l <? 2 ^ 64 then Some (dec_value l) else None.
Proof.
  induction l as [|c l IH] using rev_ind; intro H; [reflexivity|].
  rewrite forallb_app in H. apply andb_true_iff in H as [Hl Hc]. cbn in Hc.
  rewrite andb_true_r in Hc.
  rewrite pu_loop_snoc, IH by exact Hl.
  rewrite dec_value_app. cbn [length]. change (10 ^ N.of_nat 1) with 10.
  replace (dec_value [c]) with (c - 48) by (unfold dec_value; cbn [fold_left]; lia).
  assert (Hd : c - 48 < 10) by (unfold is_digit in Hc; lia).
  set (v := dec_value l) in *. set (d := c - 48) in *.
  change (2 ^ 64) with 18446744073709551616 in *.
  destruct (v <? 18446744073709551616) eqn:Ev.
  - cbn [pu_loop]. rewrite Hc. cbn [negb]. unfold cutoff64. fold d.
    change (2 ^ 64) with 18446744073709551616.
    destruct (1844674407370955162 <=? v) eqn:Ec.
    + destruct (v * 10 + d <? 18446744073709551616) eqn:E2; [lia|reflexivity].
    + destruct (18446744073709551616 <=? v * 10 + d) eqn:E3;
        destruct (v * 10 + d <? 18446744073709551616) eqn:E2; try lia; reflexivity.
  - destruct (v * 10 + d <? 18446744073709551616) eqn:E2; [lia|reflexivity].
Qed.

Lemma parse_uint_dec n :
  parse_uint (dec n) = if n <? 2 ^ 64 then Some n else None.
Proof.
  unfold parse_uint. destruct (dec n) as [|c l] eqn:E; [exfalso; eapply dec_nonempty; eauto|].
  rewrite <- E, pu_loop_digits by apply dec_digits. rewrite dec_value_dec. reflexivity.
Qed.

(** The digits of a number never start with '+', '-' *)
Lemma dec_head_digit n : exists c l, dec n = c :: l /\ is_digit c = true.
Proof.
  pose proof (dec_digits n) as H. destruct (dec n) as [|c l] eqn:E.
  - exfalso; eapply dec_nonempty; eauto.
  - cbn in H. apply andb_true_iff in H as [Hc _]. eauto.
Qed.

Lemma parse_int_neg body :
  parse_int (45 :: body) =
  match parse_uint body with
  | None => None
  | Some un => if 2 ^ 63 <? un then None else Some (- Z.of_N un)%Z
  end.
Proof. reflexivity. Qed.

Lemma parse_int_plain c l :
  (c =? 43) = false -> (c =? 45) = false ->
  parse_int (c :: l) =
  match parse_uint (c :: l) with
  | None => None
  | Some un => if 2 ^ 63 <=? un then None else Some (Z.of_N un)
  end.
Proof. intros H1 H2. unfold parse_int. rewrite H1, H2. reflexivity. Qed.

Ltac split_ifs :=
  repeat match goal with
         | |- context [if ?b then _ else _] => destruct b eqn:?
         end.

Lemma parse_int_dec_z z :
  parse_int (dec_z z) =
  if ((- 2 ^ 63 <=? z) && (z <? 2 ^ 63))%Z then Some z else None.
Proof.
  unfold dec_z. destruct (z <? 0)%Z eqn:Ez.
  - rewrite parse_int_neg, parse_uint_dec.
    change (2 ^ 64) with 18446744073709551616. change (2 ^ 63) with 9223372036854775808.
    change (2 ^ 63)%Z with 9223372036854775808%Z.
    split_ifs; try lia; try reflexivity. f_equal. lia.
  - destruct (dec_head_digit (Z.to_N z)) as [c [l [E Hc]]]. rewrite E.
    assert (H43 : (c =? 43) = false) by (unfold is_digit in Hc; lia).
    assert (H45 : (c =? 45) = false) by (unfold is_digit in Hc; lia).
    rewrite (parse_int_plain c l H43 H45), <- E, parse_uint_dec.
    change (2 ^ 64) with 18446744073709551616. change (2 ^ 63) with 9223372036854775808.
    change (2 ^ 63)%Z with 9223372036854775808%Z.
    split_ifs; try lia; try reflexivity. f_equal. lia.
Qed.

(** ** The three-valued ParseUint *)
Lemma pu3_ok s : forall acc v, pu_loop acc s = Some v -> pu3 acc s = PuOk v.
Proof.
  induction s as [|c r IH]; intros acc v H; cbn [pu_loop pu3] in *; [congruence|].
  destruct (negb (is_digit c)); [discriminate|].
  destruct (cutoff64 <=? acc); [discriminate|].
  destruct (2 ^ 64 <=? acc * 10 + (c - 48)); [discriminate|]. apply IH, H.
Qed.

Lemma pu3_range s : forall acc,
  forallb is_digit s = true -> pu_loop acc s = None -> pu3 acc s = PuRange.
Proof.
  induction s as [|c r IH]; intros acc Hd H; cbn [pu_loop pu3 forallb] in *; [discriminate|].
  apply andb_true_iff in Hd as [Hc Hd]. rewrite Hc in *. cbn [negb] in *.
  destruct (cutoff64 <=? acc); [reflexivity|].
  destruct (2 ^ 64 <=? acc * 10 + (c - 48)); [reflexivity|]. apply IH; assumption.
Qed.

Lemma pu3_app l : forall acc r,
  pu3 acc (l ++ r) = match pu3 acc l with PuOk a => pu3 a r | e => e end.
Proof.
  induction l as [|c l IH]; intros acc r; cbn [app pu3]; [reflexivity|].
  destruct (negb (is_digit c)); [reflexivity|].
  destruct (cutoff64 <=? acc); [reflexivity|].
  destruct (2 ^ 64 <=? acc * 10 + (c - 48)); [reflexivity|]. apply IH.
Qed.

Lemma parse_uint3_dec n :
  parse_uint3 (dec n) = if n <? 2 ^ 64 then PuOk n else PuRange.
Proof.
  pose proof (parse_uint_dec n) as H. unfold parse_uint, parse_uint3 in *.
  destruct (dec n) as [|c l] eqn:E; [exfalso; eapply dec_nonempty; eauto|].
  rewrite <- E in *. destruct (n <? 2 ^ 64).
  - apply pu3_ok, H.
  - apply pu3_range; [apply dec_digits|exact H].
Qed.

(** digits of a number below 2^64 followed by a non-digit: a syntax error *)
Lemma parse_uint3_dec_then n c r :
  n < 2 ^ 64 -> is_digit c = false -> parse_uint3 (dec n ++ c :: r) = PuSyntax.
Proof.
  intros Hn Hc. pose proof (parse_uint3_dec n) as H. unfold parse_uint3 in *.
  destruct (dec n) as [|c0 l] eqn:E; [exfalso; eapply dec_nonempty; eauto|].
  cbn [app]. change (c0 :: l ++ c :: r) with ((c0 :: l) ++ c :: r). rewrite pu3_app, H.
  destruct (n <? 2 ^ 64) eqn:E1; [|lia]. cbn [pu3]. rewrite Hc. reflexivity.
Qed.
