(** C26 — Durable queue delivers entries in order, at least once, across crashes.
    Property theorems only (proofs in Proofs/C26.v, model in Model/C26.v).

    Vocabulary: [recs l] is the on-disk image of the entries [l]
    (a sequence of records: 8-byte big-endian length, then the body), [rep l1 l2 m] is the segment whose file is
    [recs l1 ++ recs l2 ++ footer] with the footer = in-memory position = the offset
    of the first entry of [l2] ([l1] = already advanced past, [l2] = pending) and
    record-size limit [m]; [okE m e] = entry [e] is non-empty, at most [m] bytes and
    shorter than 2^63.

    FULL STATEMENT OF THE PROPERTY (kept visible; what is and is not proved):
      (A) no crash: for every history of Append / Advance / scanner+Advance / reopen,
          the entries delivered are exactly the acknowledged entries in append order,
          and a rejected Append (ErrQueueFull) changes nothing;
      (B) crash between calls: after reopening, every acknowledged un-advanced entry
          is delivered, in order, and nothing else;
      (C) crash inside the single write of the last Append (any prefix length k of
          [len|body|footer] reached the file): the same as (B), possibly replaying
          advanced entries (at least once).
    Proved below for ALL entry lists / sizes at the level of one segment:
    (A) as [C26_scanner_fifo_partial], [C26_append_layout_partial],
    [C26_advance_layout_partial] and [C26_limits_reject_unchanged];
    (B) as [C26_crash_between_calls_partial];
    (C) only under the guard "the last 8 bytes of the torn file decode to more than
    size-8" ([C26_torn_append_repaired_partial]) — without the guard (C) is FALSE for
    the code as written: [C26_torn_append_refuted] (confirmed on the real code, see
    findings.d/C26.json).  Histories that call Queue.Advance on an empty queue used to
    refute (A) (finding dq-advance-on-empty-corrupts-head, fixed in /repo by commit
    a852c65657); for the repaired code the positive statements
    [C26_advance_on_empty_unchanged] and [C26_advance_on_empty_then_append_delivered]
    are proved and the former witness is part of [C26_nonvacuous].
    "_partial" = the statement is about one segment; the composition over several
    segments (roll-over, trimHead, loadSegments, queueTotalSize) is mirrored by the
    executable model and tied to the real code by differential execution only. *)
From Verif Require Import Base.Prelude Model.C26 Proofs.C26.
Open Scope Z_scope.

(** (A) The scanner started at the head position delivers the pending entries, in
    order, nothing else, and stops with "end of segment" exactly when they are
    exhausted; its position is then the record boundary reached. *)
Theorem C26_scanner_fifo_partial :
  forall m l1 l2 k, Forall (okE m) l2 ->
    scan_n k (rep l1 l2 m) (spos (rep l1 l2 m))
    = (firstn k l2, len (recs l1) + len (recs (firstn k l2)),
       if (k <=? length l2)%nat then SMore else SEof).
Proof.
  intros m l1 l2 k H. unfold rep. cbn [spos].
  apply (scan_n_spec m k l2 (recs l1) (enc8 (len (recs l1))) (len (recs l1)) H (len_enc8 _)).
Qed.
Print Assumptions C26_scanner_fifo_partial.

(** (A) Append to a segment that is not over its size keeps every earlier entry and
    the head position and adds the new entry last (an oversize entry bumps the limit). *)
Theorem C26_append_layout_partial :
  forall l1 l2 m b, ssize (rep l1 l2 m) <= m ->
    seg_append (rep l1 l2 m) b = Some (rep l1 (l2 ++ [b]) (if len b >? m then len b else m)).
Proof. exact seg_append_rep. Qed.
Print Assumptions C26_append_layout_partial.

(** (A) Scanner.Advance / advanceTo to the boundary after the entries [mid] moves exactly
    those entries from "pending" to "advanced" and reports EOF iff nothing is left. *)
Theorem C26_advance_layout_partial :
  forall l1 mid l2 m,
    advance_to (rep l1 (mid ++ l2) m) (len (recs (l1 ++ mid)))
    = (rep (l1 ++ mid) l2 m, match l2 with [] => AEOF | _ => AOk end).
Proof. exact advance_to_rep. Qed.
Print Assumptions C26_advance_layout_partial.

(** (A) Size limit: an Append that would exceed the queue's maximum is rejected with
    ErrQueueFull (class 1) and the queue (every segment byte, position, counter) is unchanged. *)
Theorem C26_limits_reject_unchanged :
  forall q b, qtotal q + len b > qmaxsize q -> q_append q b = (q, 1).
Proof.
  intros q b H. unfold q_append. destruct (qtotal q + len b >? qmaxsize q) eqn:E; [reflexivity|lia].
Qed.
Print Assumptions C26_limits_reject_unchanged.

(** (B) Reopening the file of a segment (permissive verifyBlockFn, as used by
    replications) yields the same bytes and the same head position: with
    [C26_scanner_fifo_partial], exactly the un-advanced entries are delivered, in order. *)
Theorem C26_crash_between_calls_partial :
  forall f m l1 l2, Forall (okE m) l2 -> len (recs l1) < two63 ->
    seg_open_f (S f) 0 (sd (rep l1 l2 m)) = OOk (sd (rep l1 l2 m)) (spos (rep l1 l2 m)).
Proof. intros f m l1 l2 H1 H2. exact (seg_open_trust f m l1 l2 H1 H2). Qed.
Print Assumptions C26_crash_between_calls_partial.

(** (C) Torn append, repair path: whatever the footer [p] was, whatever entry [b] was
    being appended and wherever (k) the write stopped, IF the last 8 bytes of the torn
    file decode to more than size-8 then open repairs the segment to exactly the
    acknowledged entries with position 0 — all of them are replayed in order (at
    least once), and no byte of the unfinished entry is delivered. *)
Theorem C26_torn_append_repaired_partial :
  forall m f es p b k,
    Forall (okE m) es -> 0 <= k < len b + 16 -> len b < two63 ->
    let img := torn_image (recs es ++ enc8 p) b k in
    decn (drop (len img - 8) img) > len img - 8 ->
    seg_open_f (S f) 0 img = OOk (sd (rep [] es m)) 0
    /\ scan_n (S (length es)) (rep [] es m) (spos (rep [] es m)) = (es, 0 + len (recs es), SEof).
Proof.
  intros m f es p b k H1 H2 H3 img H4. split.
  - exact (torn_append_repaired m f es p b k H1 H2 H3 H4).
  - rewrite (C26_scanner_fifo_partial m [] es (S (length es)) H1).
    rewrite firstn_all2 by lia.
    replace (S (length es) <=? length es)%nat with false by (symmetry; apply Nat.leb_gt; lia).
    reflexivity.
Qed.
Print Assumptions C26_torn_append_repaired_partial.

(** (C) The complete write (k = len b + 16) is exactly the file of the segment with [b]
    appended, so by [C26_crash_between_calls_partial] the new entry is durable and
    delivered after everything pending before it. *)
Theorem C26_complete_append_image_partial :
  forall l1 l2 m b, torn_image (sd (rep l1 l2 m)) b (len b + 16) = sd (rep l1 (l2 ++ [b]) m).
Proof. exact torn_image_full. Qed.
Print Assumptions C26_complete_append_image_partial.

(** (C) refuted without the guard.  Two acknowledged, never advanced 8-byte entries;
    the append of a 16-byte entry is torn after its 8-byte length word (k = 8).  The
    file then ends in the big-endian word 16 = offset of the second record: open
    trusts it, and the first entry is never delivered. *)
Definition w_A : list Z := [65;65;65;65;65;65;65;65].
Definition w_B : list Z := [66;66;66;66;66;66;66;66].
Definition w_X : list Z := [3;48;48;48;48;48;48;48;48;48;48;48;48;48;48;48].
Theorem C26_torn_append_refuted :
  exists m es b k, Forall (okE m) es /\ 0 <= k < len b + 16 /\
    let img := torn_image (sd (rep [] es m)) b k in
    exists d pos, seg_open_f open_fuel 0 img = OOk d pos /\
      fst (fst (scan_n 10 {| sd := d; spos := pos; smax := m |} pos)) = tl es /\ es <> tl es.
Proof.
  exists 64, [w_A; w_B], w_X, 8. split.
  - repeat constructor; unfold okE, len; simpl; lia.
  - split; [unfold len; simpl; lia|].
    eexists. eexists. split; [vm_compute; reflexivity|]. split; [vm_compute; reflexivity|discriminate].
Qed.
Print Assumptions C26_torn_append_refuted.

(** (A) Queue.Advance with nothing pending (repaired code, commit a852c65657): on a queue
    whose only segment is fully consumed ([spos >= size-8]) and not full, Advance
    leaves the entire queue state unchanged — every byte, position and counter. *)
Theorem C26_advance_on_empty_unchanged :
  forall q s, qsegs q = [s] -> spos s >= ssize s - 8 -> ssize s < smax s -> q_advance q = q.
Proof. exact q_advance_empty_noop. Qed.
Print Assumptions C26_advance_on_empty_unchanged.

(** ... and an Append acknowledged after such an Advance is stored right behind the
    consumed entries [l1] and is exactly what the scanner delivers next (for ALL [l1], [b]). *)
Theorem C26_advance_on_empty_then_append_delivered :
  forall q l1 m b,
    qsegs q = [rep l1 [] m] -> ssize (rep l1 [] m) < m ->
    qtotal q + len b <= qmaxsize q -> 0 < len b < two63 ->
    let m' := if len b >? m then len b else m in
    let r := q_append (q_advance q) b in
    snd r = 0 /\ qsegs (fst r) = [rep l1 [b] m'] /\
    scan_n 2 (qhead (fst r)) (spos (qhead (fst r))) = ([b], len (recs l1) + len (recs [b]), SEof).
Proof. exact advance_empty_then_append. Qed.
Print Assumptions C26_advance_on_empty_then_append_delivered.


(** Non-vacuity: a concrete segment with one advanced and two pending entries; the
    guard of the repaired theorem holds for a torn append at k = 12, and a complete
    history append/append/advance/reopen/drain on the queue model delivers FIFO. *)
Example C26_nonvacuous :
  Forall (okE 64) [w_A; w_B] /\
  (let img := torn_image (sd (rep [] [w_A; w_B] 64)) w_X 12 in
   decn (drop (len img - 8) img) >? len img - 8) = true /\
  scan_n 5 (rep [w_A] [w_B; w_X] 64) (spos (rep [w_A] [w_B; w_X] 64)) = ([w_B; w_X], 56, SEof) /\
  match q_open 1024 64 0 [] with      (* the former advance-on-empty witness now delivers *)
  | (Some q, _) => q_advance q = q /\
      q_drain drain_fuel (fst (q_append (q_advance q) [7;7;7;7;7;7;7;7;7;7])) = ([[7;7;7;7;7;7;7;7;7;7]], 0, 3)
  | _ => False
  end /\
  match q_open 1024 24 0 [] with
  | (Some q, _) =>
     let q1 := fst (q_append (fst (q_append (fst (q_append q w_A)) w_B)) w_X) in
     length (qsegs q1) = 2%nat /\
     match q_reopen (q_advance q1) with
     | (Some q2, _) => q_drain drain_fuel q2 = ([w_B; w_X], 0, 3)
     | _ => False
     end
  | _ => False
  end.
Proof.
  split; [repeat constructor; unfold okE, len; simpl; lia|].
  split; [vm_compute; reflexivity|].
  split; [vm_compute; reflexivity|].
  split; [vm_compute; split; reflexivity|].
  vm_compute. split; reflexivity.
Qed.
