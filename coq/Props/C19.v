(** C19 — Retention drops only expired data.  Property theorems only
    (definitions: Model/C19.v + Model/C18.v, proofs: Proofs/C19.v). *)
From Verif Require Import Base.Prelude Model.C18 Proofs.C18 Model.C19 Proofs.C19.
Local Open Scope Z_scope.

(** ===== write path ===== *)

(** FULL STATEMENT (does not hold):
      forall batch, point p of the batch is dropped  <->  time p < now - D   (D > 0).
    The faithful model refutes the "<-" direction: MapShards skips old points when
    it collects shard groups, but then maps EVERY point of the batch through
    [sgList.ShardGroupAt], so a point older than the bound is accepted when a newer
    point of the same batch falls into the same shard group (confirmed on the real
    code, findings.d/C19.json).  Witness: 1-day groups, bound 2024-11-12T12:00Z,
    batch [13:00 (in), 01:00 (old, same day), previous day 23:00 (old)]. *)
Theorem C19_drop_iff_older_refuted :
  exists sgd mb ts st' m, 0 < sgd /\ Forall in_range ts /\
    write_points mb (init sgd) ts = Some (st', m) /\
    exists t id, In (t, Some id) (combine ts m) /\ t < mb.
Proof.
  exists 86400000000000, 1731412800000000000,
         [1731416400000000000; 1731373200000000000; 1731366000000000000].
  eexists; eexists. split; [lia|]. split.
  { repeat constructor; unfold MinNano, MaxNano, MinInt64, MaxInt64; lia. }
  split; [vm_compute; reflexivity|].
  exists 1731373200000000000, 1%N. split; [cbn; auto|lia].
Qed.
Print Assumptions C19_drop_iff_older_refuted.

(** The "->" direction holds for ALL batches, states, shard-group durations and
    bounds: a dropped point is older than the bound; the write never fails, and
    the reported count is by definition the number of dropped points.  With
    infinite retention (D = 0, bound = MinNanoTime) nothing is ever dropped. *)
Theorem C19_dropped_implies_older_partial :
  forall mb st ts, Inv st -> Forall in_range ts ->
    exists st' m, write_points mb st ts = Some (st', m) /\ length m = length ts /\
      (forall t, In (t, None) (combine ts m) -> t < mb) /\
      (mb = MinNano -> count_none m = 0%N).
Proof.
  intros mb st ts HI HT.
  destruct (write_points mb st ts) as [[st' m]|] eqn:E.
  - destruct (drop_implies_older mb st ts st' m HI HT E) as [Hlen Hd].
    exists st', m. split; [reflexivity|]. split; [exact Hlen|]. split; [exact Hd|].
    intros ->. unfold count_none.
    assert (F : filter (fun o : option N => match o with None => true | Some _ => false end) m = []).
    { clear E. revert m Hlen Hd. induction ts as [|t r IH]; intros [|o m] Hlen Hd; try discriminate; [reflexivity|].
      inversion HT as [|? ? Ht HT']; subst. cbn in *. destruct o as [i|].
      - apply IH; auto.
      - exfalso. specialize (Hd t (or_introl eq_refl)). unfold in_range, MinNano, MaxNano, MinInt64, MaxInt64 in *. lia. }
    rewrite F. reflexivity.
  - exfalso. unfold write_points in E.
    destruct (ms_collect_min_spec mb ts st [] HI HT) as (st1 & lst & E1 & _). rewrite E1 in E. discriminate.
Qed.
Print Assumptions C19_dropped_implies_older_partial.

(** For single-point writes the statement is exact: dropped iff older than the bound. *)
Theorem C19_single_point_dropped_iff_older :
  forall mb st t, Inv st -> in_range t ->
    exists st' o, write_points mb st [t] = Some (st', [o]) /\ (o = None <-> t < mb).
Proof. exact single_point_iff. Qed.
Print Assumptions C19_single_point_dropped_iff_older.

(** A batch consisting only of points older than the bound is rejected entirely,
    creates no shard group, and the dropped count is the batch size. *)
Theorem C19_all_old_batch_dropped_with_count :
  forall mb st ts, Inv st -> Forall in_range ts -> Forall (fun t => t < mb) ts ->
    write_points mb st ts = Some (st, map (fun _ => None) ts) /\
    count_none (map (fun _ : Z => @None N) ts) = N.of_nat (length ts).
Proof.
  intros mb st ts HI HT Ho. split; [apply all_old_dropped; assumption|apply count_none_all].
Qed.
Print Assumptions C19_all_old_batch_dropped_with_count.

(** ===== retention enforcement ===== *)

(** [ExpiredShardGroups(now)] returns exactly the non-deleted groups whose whole
    range is older than now - D, and nothing when D = 0 (all D, now, groups). *)
Theorem C19_expired_iff :
  forall D now gs g,
    In g (expired_groups D now gs) <->
    In g gs /\ rg_deleted g = false /\ D <> 0 /\ rg_end g < now - D.
Proof. exact expired_groups_iff. Qed.
Print Assumptions C19_expired_iff.

(** Phase 1 of a DeletionCheck pass marks a live group deleted iff it is expired.
    (The same iff for the state at the END of the pass additionally needs shard ids
    to be unique across groups; that part is tied by the correspondence oracle
    [pass_ok] only — hence _partial.) *)
Theorem C19_only_expired_deleted_partial :
  forall now r g, In g (rp_groups r) -> rg_deleted g = false ->
    exists g', In g' (rp_groups (mark_rp now r)) /\ rg_id g' = rg_id g /\ rg_shards g' = rg_shards g /\
               rg_deleted g' = expired_spec (rp_D r) now g.
Proof.
  intros now r g Hg Hl.
  exists (if expired_b (rp_D r) now g then set_del g 1 else g). split.
  - cbn. apply in_map_iff. exists g. auto.
  - rewrite expired_b_spec. destruct (expired_spec (rp_D r) now g); cbn; auto.
Qed.
Print Assumptions C19_only_expired_deleted_partial.

(** Every DeleteShard call of a pass — for any store content, in-use set and
    injected failures — is for a shard that is in the store and belongs to a group
    that was already marked deleted or whose whole range is older than now - D;
    the store loses only shards for which DeleteShard was called. *)
Theorem C19_removed_shards_only_of_expired_groups :
  forall now rps store inuse errs,
    let o := deletion_check now rps store inuse errs in
    (forall id, In id (po_calls o) ->
       In id store /\
       exists r g, In r rps /\ In g (rp_groups r) /\ In id (rg_shards g) /\
                   (rg_deleted g = true \/ expired_spec (rp_D r) now g = true)) /\
    (forall id, In id store -> In id (po_store o) \/ In id (po_calls o)) /\
    (forall id, In id (po_store o) -> In id store).
Proof.
  intros now rps store inuse errs o. unfold o, deletion_check; cbn. split; [|apply store_loop_store].
  intros id H. apply store_loop_calls in H as [Hd Hs]. split; [exact Hs|]. apply doomed_iff; exact Hd.
Qed.
Print Assumptions C19_removed_shards_only_of_expired_groups.

(** A live group that is not expired, none of whose shards is also listed in a
    deleted/expired group, is left exactly as it was (same id, end, shards, still
    live) and DeleteShard is called for none of its shards. *)
Theorem C19_others_untouched :
  forall now rps store inuse errs g r,
    In r rps -> In g (rp_groups r) ->
    rg_deleted g = false -> expired_spec (rp_D r) now g = false ->
    (forall id, In id (rg_shards g) -> ~ In id (flat_map (doomed_rp now) rps)) ->
    InG g (po_rps (deletion_check now rps store inuse errs)) /\
    (forall id, In id (rg_shards g) -> ~ In id (po_calls (deletion_check now rps store inuse errs))).
Proof. exact others_untouched. Qed.
Print Assumptions C19_others_untouched.

(** Non-vacuity: a pass over two policies with an expired, a live, a deleted and a
    prunable group, an in-use shard and a stray store shard. *)
Example C19_nonvacuous :
  let h := 3600000000000 in
  let rps := [ {| rp_D := 24 * h; rp_groups :=
                 [ {| rg_id := 1; rg_end := -30 * h; rg_del := 0; rg_shards := [1%N] |};
                   {| rg_id := 2; rg_end := -23 * h; rg_del := 0; rg_shards := [2%N] |};
                   {| rg_id := 3; rg_end := -90 * h; rg_del := 1; rg_shards := [3%N; 4%N] |};
                   {| rg_id := 4; rg_end := -99 * h; rg_del := 2; rg_shards := [] |} ] |};
               {| rp_D := 0; rp_groups := [ {| rg_id := 5; rg_end := -99999 * h; rg_del := 0; rg_shards := [5%N] |} ] |} ] in
  let o := deletion_check 0 rps [1%N; 2%N; 3%N; 5%N; 77%N] [3%N] [] in
  po_calls o = [1%N] /\ po_store o = [2%N; 3%N; 5%N; 77%N] /\
  map view_rp (po_rps o) =
    [ [(1%N, 1%N, []); (2%N, 0%N, [2%N]); (3%N, 1%N, [3%N])]; [(5%N, 0%N, [5%N])] ].
Proof. vm_compute. repeat split. Qed.
