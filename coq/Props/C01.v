(** C01 — Read-your-writes with last-write-wins across flushes and compactions.
    Property theorems only; model in Model/C01.v, proofs in Proofs/C01.v. *)
From Verif Require Import Base.Prelude Model.C01 Proofs.C01.

(** For EVERY history of writes, snapshot begin/commit/fail and compactions of any
    contiguous file group (any placement, any length, no deletes), every key, every range
    and both directions, a read returns exactly the oracle's answer: one value per written
    timestamp in range — the most recently written one — in time order.  The oracle
    [spec_read (spec_log h [])] looks only at the writes of [h], never at snapshots or
    compactions. *)
Theorem C01_read_your_writes :
  forall h k lo hi asc, no_delete h ->
    read (run h init) k lo hi asc = spec_read (spec_log h []) k lo hi asc.
Proof. intros h k lo hi asc H. apply read_your_writes. apply no_delete_safe. exact H. Qed.
Print Assumptions C01_read_your_writes.

(** The same with deletes in the history, provided no delete falls while a cache snapshot
    is pending (see C03 for what happens otherwise). *)
Theorem C01_read_your_writes_with_deletes :
  forall h k lo hi asc, safe h init ->
    read (run h init) k lo hi asc = spec_read (spec_log h []) k lo hi asc.
Proof. exact read_your_writes. Qed.
Print Assumptions C01_read_your_writes_with_deletes.

(** What the oracle's answer is, in plain terms: sorted by time, and (t,v) is returned iff
    t is in range and v is the value of the last write to (k,t) not followed by a delete
    covering it. *)
Theorem C01_oracle_characterisation :
  forall L k lo hi,
    tsorted (spec_read_asc L k lo hi) /\
    forall t v, In (t, v) (spec_read_asc L k lo hi) <-> (lo <= t <= hi)%Z /\ log_get L k t = Some v.
Proof. exact spec_read_asc_char. Qed.
Print Assumptions C01_oracle_characterisation.

(** Every single engine step refines the abstract map: snapshots and compactions are
    invisible, a write is an overlay in batch order. *)
Theorem C01_steps_preserve_content :
  forall s k t,
    (forall b, abs (fst (step s (Write b))) k t = overlay b (abs s) k t) /\
    abs (fst (step s SnapBegin)) k t = abs s k t /\
    abs (fst (step s SnapCommit)) k t = abs s k t /\
    abs (fst (step s SnapFail)) k t = abs s k t /\
    (forall i n, abs (fst (step s (Compact i n))) k t = abs s k t).
Proof.
  intros s k t. repeat split; intros;
    [apply step_write_abs|apply step_snapbegin_abs|apply step_snapcommit_abs|apply step_snapfail_abs|apply step_compact_abs].
Qed.
Print Assumptions C01_steps_preserve_content.

(** Non-vacuity: an overwrite that straddles a snapshot and a compaction. *)
Example C01_nonvacuous :
  let h := [Write [(1%N, 5%Z, 10%Z); (1%N, 3%Z, 30%Z)]; SnapBegin; Write [(1%N, 5%Z, 11%Z)]; SnapCommit;
            Write [(1%N, 5%Z, 12%Z)]; SnapBegin; SnapCommit; Compact 0 2] in
  no_delete h /\ read (run h init) 1%N 0%Z 9%Z false = [(5, 12); (3, 30)]%Z.
Proof. split; [repeat constructor|reflexivity]. Qed.
