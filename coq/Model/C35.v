(** C35 — Cardinality sketches merge correctly and stay within their error bound.

    Mirror of /repo/pkg/estimator/hll/hll.go ([Plus]: [NewPlus], [Add], [mergeSparse],
    [toNormal], [Merge], [MarshalBinary], [UnmarshalBinary], [encodeHash], [decodeHash],
    [getIndex], [Clone]) and /repo/pkg/estimator/hll/compressed.go ([compressedList]:
    [Append], [decode]/iteration, [variableLengthList.Append]/[decode], marshalling).

    Numbers are [N]; Go's fixed-width arithmetic is made explicit: [bextr v start len] is
    [(v >> start) & (1<<len - 1)], shifts that can drop bits carry their [mod 2^64]/[mod 2^32].
    Where the Go code ORs bit fields that cannot overlap ([idx<<7 | zeros<<1 | 1],
    [x<<p | 1<<(p-1)], [low<<25 | (1<<25 - 1)]) the model writes [+].
    [bits.LeadingZeros64 w] is [64 - N.size w] ([N.size] = bit length, 0 for 0).

    The hash function (xxhash, external) does not appear: [Add] is modelled on the 64-bit
    HASH of the added item ([k_add]); the driver passes the hash values (the real
    [xxhash.Sum64] of the items it adds, or raw values through an add-only hook that
    replaces the sketch's hash function by "read 8 bytes big-endian").

    [tmpSet] is a Go map used as a set: the model keeps it as a strictly increasing list
    (it is only sorted, counted and folded with [max], all order-independent).
    [sparseList] is mirrored at the byte level (delta + 7-bit varint), because its BYTE length
    triggers the switch to the dense representation and it is what MarshalBinary writes.

    [Count] is floating point ([math.Log], [math.Pow]): not computed here.  In sparse mode it
    is a function of [sparseList.count] after [mergeSparse], in dense mode of the registers;
    the judge checks exactly that functional dependence on the counts the real code returned.

    No proofs in this file. *)
From Verif Require Import Base.Prelude.
Local Open Scope N_scope.

Definition two32 : N := 4294967296.
Definition two64 : N := 18446744073709551616.
Definition PP : N := 25.

Definition bextr (v start len : N) : N := (v / 2 ^ start) mod 2 ^ len.
Definition clz64 (w : N) : N := 64 - N.size w.
Definition clz32 (w : N) : N := 32 - N.size w.

(** [encodeHash(x)] *)
Definition encode_hash (p x : N) : N :=
  let idx := bextr x (64 - PP) PP in
  if bextr x (64 - PP) (PP - p) =? 0 then
    let zeros := clz64 (bextr x 0 (64 - PP) * 2 ^ PP + (2 ^ PP - 1)) + 1 in
    idx * 128 + zeros * 2 + 1
  else idx * 2.

(** [getIndex(k)] *)
Definition get_index (p k : N) : N :=
  if N.odd k then bextr k (32 - p) p else bextr k (PP - p + 1) p.

(** [decodeHash(k)] = (index, rho) *)
Definition decode_hash (p k : N) : N * N :=
  let r := if N.odd k then bextr k 1 6 + PP - p
           else clz32 ((k * 2 ^ (32 - PP + p - 1)) mod two32) + 1 in
  (get_index p k, r).

(** dense [Add]: [i = bextr(x, 64-p, p)], [w = x<<p | 1<<(p-1)], [rho = clz(w)+1] *)
Definition dense_index (p x : N) : N := bextr x (64 - p) p.
Definition dense_rho (p x : N) : N := clz64 ((x * 2 ^ p) mod two64 + 2 ^ (p - 1)) + 1.

(** ** compressed list *)
Record clist := { cl_count : N; cl_last : N; cl_b : list N }.
Definition cl_empty : clist := {| cl_count := 0; cl_last := 0; cl_b := [] |}.

(** [variableLengthList.Append(x)]: at most 5 groups for a uint32 *)
Fixpoint varint (fuel : nat) (x : N) : list N :=
  match fuel with
  | O => [x mod 128]
  | S f => if x / 128 =? 0 then [x mod 128] else (x mod 128 + 128) :: varint f (x / 128)
  end.

(** [compressedList.Append(x)]: [count++; b = b.Append(x - last); last = x] (uint32 difference) *)
Definition cl_append (c : clist) (x : N) : clist :=
  {| cl_count := cl_count c + 1; cl_last := x;
     cl_b := cl_b c ++ varint 4 ((x + two32 - cl_last c) mod two32) |}.

(** [newCompressedList] followed by [Append] of each key, written so that it runs in linear
    time (the byte string is the concatenation of the per-key varints, [enc_keys_spec]). *)
Fixpoint enc_keys (last : N) (keys : list N) : list N :=
  match keys with
  | [] => []
  | x :: r => varint 4 ((x + two32 - last) mod two32) ++ enc_keys x r
  end.
Definition cl_of_keys (keys : list N) : clist :=
  {| cl_count := N.of_nat (length keys); cl_last := last keys 0; cl_b := enc_keys 0 keys |}.

(** Iteration [Iter()/HasNext()/Next()]: decode every varint, adding the running [last]
    (uint32 addition).  State: accumulated value, shift, previous key. *)
Fixpoint dec_keys (b : list N) (acc shift last : N) : list N :=
  match b with
  | [] => []
  | v :: r =>
      if 128 <=? v then dec_keys r (acc + (v mod 128) * 2 ^ shift) (shift + 7) last
      else
        let x := ((acc + v * 2 ^ shift) mod two32 + last) mod two32 in
        x :: dec_keys r 0 0 x
  end.
Definition cl_keys (c : clist) : list N := dec_keys (cl_b c) 0 0 0.

(** ** the sketch *)
Record sketch := {
  k_p : N;
  k_sparse : bool;
  k_tmp : list N;        (* tmpSet, strictly increasing *)
  k_cl : clist;          (* sparseList *)
  k_dense : list N       (* denseList *)
}.

Definition k_m (s : sketch) : N := 2 ^ k_p s.

(** [NewPlus(p)]: error unless 4 <= p <= 18 *)
Definition k_new (p : N) : option sketch :=
  if (18 <? p) || (p <? 4) then None
  else Some {| k_p := p; k_sparse := true; k_tmp := []; k_cl := cl_empty; k_dense := [] |}.

Fixpoint set_add (x : N) (s : list N) : list N :=
  match s with
  | [] => [x]
  | y :: r => if x <? y then x :: s else if x =? y then s else y :: set_add x r
  end.

(** The merge loop of [mergeSparse] over the decoded old list and the sorted tmp keys. *)
Fixpoint merge_keys (a : list N) : list N -> list N :=
  match a with
  | [] => fun b => b
  | x1 :: a' =>
      fix aux (b : list N) : list N :=
        match b with
        | [] => a
        | x2 :: b' =>
            if x1 =? x2 then x1 :: merge_keys a' b'
            else if x2 <? x1 then x2 :: aux b'
            else x1 :: merge_keys a' b
        end
  end.

Definition merge_sparse (s : sketch) : sketch :=
  match k_tmp s with
  | [] => s
  | _ =>
      {| k_p := k_p s; k_sparse := k_sparse s; k_tmp := [];
         k_cl := cl_of_keys (merge_keys (cl_keys (k_cl s)) (k_tmp s)); k_dense := k_dense s |}
  end.

Fixpoint reg_update (d : list N) (i : nat) (r : N) : list N :=
  match d, i with
  | [], _ => []
  | v :: t, O => (if v <? r then r else v) :: t
  | v :: t, S i' => v :: reg_update t i' r
  end.
(** [if h.denseList[i] < r { h.denseList[i] = r }] for a sparse key *)
Definition reg_update_key (p : N) (d : list N) (k : N) : list N :=
  let '(i, r) := decode_hash p k in reg_update d (N.to_nat i) r.

(** [toNormal] *)
Definition to_normal (s : sketch) : sketch :=
  let s1 := match k_tmp s with [] => s | _ => merge_sparse s end in
  {| k_p := k_p s; k_sparse := false; k_tmp := []; k_cl := cl_empty;
     k_dense := fold_left (reg_update_key (k_p s)) (cl_keys (k_cl s1))
                          (repeat 0 (N.to_nat (k_m s))) |}.

(** [Add] on the hash [x] of the item *)
Definition k_add (s : sketch) (x : N) : sketch :=
  if k_sparse s then
    let s0 := {| k_p := k_p s; k_sparse := true; k_tmp := set_add (encode_hash (k_p s) x) (k_tmp s);
                 k_cl := k_cl s; k_dense := k_dense s |} in
    let s1 := if k_m s <? N.of_nat (length (k_tmp s0)) * 100 then merge_sparse s0 else s0 in
    if k_m s <? N.of_nat (length (cl_b (k_cl s1))) then to_normal (merge_sparse s1) else s1
  else
    {| k_p := k_p s; k_sparse := false; k_tmp := k_tmp s; k_cl := k_cl s;
       k_dense := reg_update (k_dense s) (N.to_nat (dense_index (k_p s) x)) (dense_rho (k_p s) x) |}.

Fixpoint zip_max (a b : list N) : list N :=
  match a, b with
  | x :: a', y :: b' => (if x <? y then y else x) :: zip_max a' b'
  | _, _ => a
  end.

(** [h.Merge(other)]: [None] = error (precisions differ) *)
Definition k_merge (h other : sketch) : option sketch :=
  if negb (k_p h =? k_p other) then None
  else
    let h1 := if k_sparse h then to_normal h else h in
    let d :=
      if k_sparse other then
        fold_left (reg_update_key (k_p other)) (cl_keys (k_cl other))
                  (fold_left (reg_update_key (k_p other)) (k_tmp other) (k_dense h1))
      else zip_max (k_dense h1) (k_dense other) in
    Some {| k_p := k_p h1; k_sparse := false; k_tmp := k_tmp h1; k_cl := k_cl h1; k_dense := d |}.

(** The registers after normalisation (what the driver reads from a clone after [toNormal]). *)
Definition regs (s : sketch) : list N := if k_sparse s then k_dense (to_normal s) else k_dense s.

(** [Count()] first runs [mergeSparse] in sparse mode. *)
Definition count_touch (s : sketch) : sketch := if k_sparse s then merge_sparse s else s.

(** ** marshalling *)
Definition be32 (n : N) : list N :=
  [(n / 16777216) mod 256; (n / 65536) mod 256; (n / 256) mod 256; n mod 256].
Definition rd32 (b : list N) : N :=
  match b with
  | a :: b1 :: c :: d :: _ => a * 16777216 + b1 * 65536 + c * 256 + d
  | _ => 0
  end.

(** [MarshalBinary] (after its [mergeSparse]); version byte 2 *)
Definition k_marshal (s : sketch) : list N :=
  let s := if k_sparse s then merge_sparse s else s in
  if k_sparse s then
    [2; k_p s; 1] ++ be32 (N.of_nat (length (k_tmp s))) ++ flat_map be32 (k_tmp s)
    ++ be32 (cl_count (k_cl s)) ++ be32 (cl_last (k_cl s))
    ++ be32 (N.of_nat (length (cl_b (k_cl s)))) ++ cl_b (k_cl s)
  else
    [2; k_p s; 0] ++ be32 (N.of_nat (length (k_dense s))) ++ k_dense s.

Fixpoint rd32s (n : nat) (b : list N) : list N :=
  match n with
  | O => []
  | S n' => rd32 b :: rd32s n' (skipn 4 b)
  end.

(** [UnmarshalBinary]: [None] = error (short buffer, bad precision).  Reading beyond the
    buffer (a Go panic) is not modelled; only buffers written by [MarshalBinary] matter. *)
Definition k_unmarshal (data : list N) : option sketch :=
  if (length data <? 12)%nat then None
  else
    let p := nth 1 data 0 in
    match k_new p with
    | None => None
    | Some h =>
        if nth 2 data 0 =? 1 then
          let tssz := rd32 (skipn 3 data) in
          let tmp := fold_left (fun s x => set_add x s) (rd32s (N.to_nat tssz) (skipn 7 data)) [] in
          let rest := skipn (N.to_nat (tssz * 4 + 7)) data in
          let sz := rd32 (skipn 8 rest) in
          Some {| k_p := p; k_sparse := true; k_tmp := tmp;
                  k_cl := {| cl_count := rd32 rest; cl_last := rd32 (skipn 4 rest);
                             cl_b := firstn (N.to_nat sz) (skipn 12 rest) |};
                  k_dense := [] |}
        else
          let dsz := rd32 (skipn 3 data) in
          Some {| k_p := p; k_sparse := false; k_tmp := []; k_cl := cl_empty;
                  k_dense := firstn (N.to_nat dsz) (skipn 7 data) |}
    end.

(** ** histories: a few sketch variables *)
Definition sregs := list (option sketch).
Definition sget (r : sregs) (i : nat) : option sketch := nth i r None.
Fixpoint sset (r : sregs) (i : nat) (s : option sketch) : sregs :=
  match r, i with
  | [], _ => []
  | _ :: t, O => s :: t
  | x :: t, S i' => x :: sset t i' s
  end.

(** splitmix64-style stream: the driver and the model generate the same hash values for
    bulk additions without writing them out. *)
Definition mix64 (z : N) : N :=
  let z := (N.lxor z (z / 2 ^ 30) * 13787848793156543929) mod two64 in
  let z := (N.lxor z (z / 2 ^ 27) * 10723151780598845931) mod two64 in
  N.lxor z (z / 2 ^ 31).
Fixpoint stream (n : nat) (state : N) : list N :=
  match n with
  | O => []
  | S n' => let st := (state + 11400714819323198485) mod two64 in mix64 st :: stream n' st
  end.

Inductive kop :=
| KNew (dst : nat) (p : N)
| KAdd (i : nat) (hashes : list N)
| KAddStream (i : nat) (seed : N) (n : nat)
| KMerge (i j : nat)
| KClone (i dst : nat)
| KRoundTrip (i dst : nat)      (* dst = Unmarshal(Marshal(regs[i])); Marshal touches regs[i] *)
| KCount (i : nat)              (* Count(): touches regs[i] *)
| KObserve (i : nat).           (* state dump through the hook, no mutation *)

(** Observations.  [OState]: mode, tmp keys, sparse-list (count, last, byte length), decoded
    sparse keys, non-zero normalised registers as (index, value).  [OBytes]: the marshalled
    bytes as (length, non-zero bytes with their offsets) — a dense sketch is mostly zeros.
    [OCount]: the estimate [c] together with what it must be a function of: the precision, the
    mode, [sparseList.count] (sparse mode, after Count's own mergeSparse) or the non-zero
    registers (dense mode).  [OErr]: whether the op failed. *)
Inductive kobs :=
| OState (sparse : bool) (tmp : list N) (clc cll clb : N) (keys : list N) (nz : list (N * N))
| OBytes (len : N) (nzb : list (N * N))
| OCount (c : N) (p : N) (sparse : bool) (clc : N) (nz : list (N * N))
| OErr (failed : bool).

Fixpoint nonzero (d : list N) (i : N) : list (N * N) :=
  match d with
  | [] => []
  | v :: t => if v =? 0 then nonzero t (i + 1) else (i, v) :: nonzero t (i + 1)
  end.

Definition state_obs (s : sketch) : kobs :=
  OState (k_sparse s) (k_tmp s) (cl_count (k_cl s)) (cl_last (k_cl s))
         (N.of_nat (length (cl_b (k_cl s)))) (cl_keys (k_cl s)) (nonzero (regs s) 0).

Definition count_obs (s : sketch) : kobs :=
  let s := count_touch s in
  if k_sparse s then OCount 0 (k_p s) true (cl_count (k_cl s)) []
  else OCount 0 (k_p s) false 0 (nonzero (k_dense s) 0).

(** One op on the model.  The count VALUE cannot be computed ([OCount 0 …] is a placeholder
    that [kobs_eqb] ignores); the judge checks that it is a function of the rest. *)
Definition k_step (r : sregs) (o : kop) : sregs * kobs :=
  match o with
  | KNew d p => (sset r d (k_new p), OErr (match k_new p with None => true | _ => false end))
  | KAdd i hs =>
      match sget r i with
      | Some s => (sset r i (Some (fold_left k_add hs s)), OErr false)
      | None => (r, OErr true)
      end
  | KAddStream i seed n =>
      match sget r i with
      | Some s => (sset r i (Some (fold_left k_add (stream n seed) s)), OErr false)
      | None => (r, OErr true)
      end
  | KMerge i j =>
      match sget r i, sget r j with
      | Some a, Some b =>
          match k_merge a b with
          | Some a' => (sset r i (Some a'), OErr false)
          | None => (r, OErr true)
          end
      | _, _ => (r, OErr true)
      end
  | KClone i d =>
      match sget r i with
      | Some s => (sset r d (Some s), OErr false)
      | None => (r, OErr true)
      end
  | KRoundTrip i d =>
      match sget r i with
      | Some s =>
          let b := k_marshal s in
          (sset (sset r i (Some (count_touch s))) d (k_unmarshal b),
           OBytes (N.of_nat (length b)) (nonzero b 0))
      | None => (r, OErr true)
      end
  | KCount i =>
      match sget r i with
      | Some s => (sset r i (Some (count_touch s)), count_obs s)
      | None => (r, OErr true)
      end
  | KObserve i =>
      match sget r i with
      | Some s => (r, state_obs s)
      | None => (r, OErr true)
      end
  end.

Fixpoint k_run (r : sregs) (ops : list kop) : list kobs :=
  match ops with
  | [] => []
  | o :: t => let '(r', ob) := k_step r o in ob :: k_run r' t
  end.

(** ** the oracle: a sketch is the sketch of the multiset of everything that flowed into it.
    Independent of the sparse encoding: registers are computed from the hashes with the dense
    formulas only. *)
Definition spec_regs (p : N) (hashes : list N) : list N :=
  fold_left (fun d x => reg_update d (N.to_nat (dense_index p x)) (dense_rho p x)) hashes
            (repeat 0 (N.to_nat (2 ^ p))).

Definition bag := option (N * list N).   (* precision, hashes *)
Definition bget (r : list bag) (i : nat) : bag := nth i r None.
Fixpoint bset (r : list bag) (i : nat) (s : bag) : list bag :=
  match r, i with
  | [], _ => []
  | _ :: t, O => s :: t
  | x :: t, S i' => x :: bset t i' s
  end.
Definition valid_p (p : N) : bool := negb ((18 <? p) || (p <? 4)).

Definition o_step (r : list bag) (o : kop) : list bag :=
  match o with
  | KNew d p => bset r d (if valid_p p then Some (p, []) else None)
  | KAdd i hs => match bget r i with Some (p, l) => bset r i (Some (p, l ++ hs)) | None => r end
  | KAddStream i seed n =>
      match bget r i with Some (p, l) => bset r i (Some (p, l ++ stream n seed)) | None => r end
  | KMerge i j =>
      match bget r i, bget r j with
      | Some (p, l), Some (q, l') => if p =? q then bset r i (Some (p, l ++ l')) else r
      | _, _ => r
      end
  | KClone i d => match bget r i with Some b => bset r d (Some b) | None => r end
  | KRoundTrip i d => match bget r i with Some b => bset r d (Some b) | None => r end
  | KCount _ | KObserve _ => r
  end.

Definition nz_eqb (a b : list (N * N)) : bool := list_eqb (pair_eqb N.eqb N.eqb) a b.

(** every observed state must show the registers of the bag; merges of different precisions
    must fail and nothing else *)
Fixpoint o_check (r : list bag) (ops : list kop) (obs : list kobs) : bool :=
  match ops, obs with
  | [], [] => true
  | o :: t, ob :: obs' =>
      (match o, ob with
       | KObserve i, OState _ _ _ _ _ _ nz =>
           match bget r i with
           | Some (p, l) => nz_eqb nz (nonzero (spec_regs p l) 0)
           | None => false
           end
       | KObserve i, OErr e => e && match bget r i with None => true | _ => false end
       | KMerge i j, OErr e =>
           match bget r i, bget r j with
           | Some (p, _), Some (q, _) => Bool.eqb e (negb (p =? q))
           | _, _ => e
           end
       | KNew _ p, OErr e => Bool.eqb e (negb (valid_p p))
       | _, _ => true
       end)
      && o_check (o_step r o) t obs'
  | _, _ => false
  end.

(** counts are a function of (precision, mode, sparse count / registers): equal keys in one
    history => equal counts.  This is how "merge order / round trip does not change the
    estimate" is checked on the real values without evaluating logarithms in Coq. *)
Definition ckey_eqb (a b : N * bool * N * list (N * N)) : bool :=
  let '(p, s, c, nz) := a in let '(p', s', c', nz') := b in
  (p =? p') && Bool.eqb s s' && (c =? c') && nz_eqb nz nz'.
Fixpoint counts_consistent (seen : list ((N * bool * N * list (N * N)) * N)) (obs : list kobs) : bool :=
  match obs with
  | OCount c p s clc nz :: obs' =>
      forallb (fun e => if ckey_eqb (fst e) (p, s, clc, nz) then snd e =? c else true) seen
      && counts_consistent (((p, s, clc, nz), c) :: seen) obs'
  | _ :: obs' => counts_consistent seen obs'
  | [] => true
  end.

Definition kobs_eqb (a b : kobs) : bool :=
  match a, b with
  | OState s t c l bl ks nz, OState s' t' c' l' bl' ks' nz' =>
      Bool.eqb s s' && list_eqb N.eqb t t' && (c =? c') && (l =? l') && (bl =? bl')
      && list_eqb N.eqb ks ks' && nz_eqb nz nz'
  | OBytes n x, OBytes n' y => (n =? n') && nz_eqb x y
  | OCount _ p s c nz, OCount _ p' s' c' nz' => (p =? p') && Bool.eqb s s' && (c =? c') && nz_eqb nz nz'
  | OErr x, OErr y => Bool.eqb x y
  | _, _ => false
  end.

Definition nvars : nat := 4.
Definition sregs0 : sregs := repeat None nvars.

Record case := { c_ops : list kop; c_obs : list kobs }.

Definition check (c : case) : verdict :=
  let mobs := k_run sregs0 (c_ops c) in
  let same := list_eqb kobs_eqb (c_obs c) mobs in
  let ok := o_check (repeat None nvars) (c_ops c) (c_obs c) && counts_consistent [] (c_obs c) in
  judge same ok.
