From Verif Require Import Base.Prelude Model.C24.

(** * queue algebra *)
Lemma In_qins x it l : In x (qins it l) <-> x = it \/ In x l.
Proof.
  induction l as [|y r IH]; cbn.
  - intuition.
  - destruct (item_lt it y); cbn; [intuition|]. rewrite IH. intuition.
Qed.

Lemma In_qremove x id l : In x (qremove id l) -> In x l /\ i_id x <> id.
Proof.
  induction l as [|y r IH]; cbn; [tauto|].
  destruct (N.eqb_spec (i_id y) id) as [E|NE]; cbn.
  - intro H. apply IH in H. tauto.
  - intros [E|H]; [subst; tauto|]. apply IH in H. tauto.
Qed.

Lemma In_fold_qins x ins : forall k,
  In x (fold_left (fun a it => qins it a) ins k) <-> In x ins \/ In x k.
Proof.
  induction ins as [|i r IH]; cbn; intro k; [tauto|].
  rewrite IH, In_qins. intuition.
Qed.

Lemma Forall2_imp {A B} (R1 R2 : A -> B -> Prop) :
  (forall a b, R1 a b -> R2 a b) -> forall l1 l2, Forall2 R1 l1 l2 -> Forall2 R2 l1 l2.
Proof. intros H l1 l2 F. induction F; constructor; auto. Qed.

Section S.
  Variable nxt : Z -> Z -> Z.
  Variable wk : N -> N.
  Variable parked : N -> bool.

  Lemma worker_busy_in w id b : In (w, id) b -> worker_busy w b = true.
  Proof.
    intro H. unfold worker_busy. apply existsb_exists. exists (w, id). split; [exact H|].
    cbn. apply N.eqb_refl.
  Qed.

  (** ** the iterator of process(): what it hands over *)
  Definition dispatched (nw : Z) (l : list item) (x : exec) (it' : item) : Prop :=
    exists it, In it l /\ x = (i_id it, i_next it) /\ it' = upd_next nxt it /\ (i_when it <= nw)%Z.

  Lemma pass_go_spec : forall l nw b k ins ex b',
    pass_go nxt wk parked nw b l = (k, ins, ex, b') ->
    (forall it, In it k -> In it l) /\
    Forall2 (dispatched nw l) ex ins /\
    (forall p, In p b -> In p b') /\
    (forall id, In (wk id, id) b -> forall x, In x ex -> fst x <> id).
  Proof.
    induction l as [|it r IH]; intros nw b k ins ex b' H; cbn in H.
    - inversion H; subst. repeat split; auto; try constructor.
    - destruct (nw <? i_when it)%Z eqn:Ed.
      { inversion H; subst. repeat split; auto; try constructor. }
      apply Z.ltb_ge in Ed.
      destruct (worker_busy (wk (i_id it)) b) eqn:Eb.
      + destruct (pass_go nxt wk parked nw b r) as [[[k0 ins0] ex0] b0] eqn:E.
        inversion H; subst. destruct (IH _ _ _ _ _ _ E) as (Hk & Hd & Hb & Ho).
        repeat split; auto.
        * intros x [E1|I]; [left; exact E1|right; auto].
        * eapply Forall2_imp; [|exact Hd]. intros x y (i0 & Hi & Hx & Hy & Hw).
          exists i0. repeat split; auto. right; exact Hi.
      + set (b1 := if parked (i_id it) then (wk (i_id it), i_id it) :: b else b) in *.
        destruct (pass_go nxt wk parked nw b1 r) as [[[k0 ins0] ex0] b0] eqn:E.
        inversion H; subst. destruct (IH _ _ _ _ _ _ E) as (Hk & Hd & Hb & Ho).
        assert (Hsub : forall p, In p b -> In p b1).
        { intros p Hp. unfold b1. destruct (parked (i_id it)); [right|]; exact Hp. }
        repeat split.
        * intros x I. right. auto.
        * constructor.
          -- exists it. repeat split; auto. left; reflexivity.
          -- eapply Forall2_imp; [|exact Hd]. intros x y (i0 & Hi & Hx & Hy & Hw).
             exists i0. repeat split; auto. right; exact Hi.
        * intros p Hp. apply Hb, Hsub, Hp.
        * intros id Hin x [Ex|Ix].
          -- subst x. cbn. intro Eid. subst id.
             rewrite (worker_busy_in _ _ _ Hin) in Eb. discriminate.
          -- eapply Ho; [apply Hsub; exact Hin|exact Ix].
  Qed.

  (** ** a preservation schema for the loop, settle, advance *)
  Section Pres.
    Variable fx : bool.
    Variable P : state -> Prop.
    Variable Qx : exec -> Prop.
    Hypothesis Hidle : forall st w t sp, P st -> P (set_idle st w t sp).
    Hypothesis Hnow : forall st t, P st -> P (set_now st t).
    Hypothesis Hpass : forall st, P st ->
      P (fst (pass nxt wk parked st)) /\ Forall Qx (snd (pass nxt wk parked st)).

    Lemma loop_pres : forall fuel st, P st ->
      P (fst (loop nxt wk parked fx fuel st)) /\
      Forall Qx (o_ex (snd (loop nxt wk parked fx fuel st))).
    Proof.
      induction fuel as [|f IH]; intros st HP; cbn [loop].
      - cbn. split; [apply Hidle; exact HP|constructor].
      - destruct (q st) as [|it r] eqn:Eq.
        { cbn. split; [apply Hidle; exact HP|constructor]. }
        destruct (now st <? i_when it)%Z.
        { cbn. split; [apply Hidle; exact HP|constructor]. }
        destruct (Hpass st HP) as [HP1 HQ1].
        destruct (pass nxt wk parked st) as [st1 ex] eqn:Ep. cbn [fst snd] in HP1, HQ1.
        destruct (q st1) as [|it2 r2] eqn:Eq1.
        { cbn. split; [apply Hidle; exact HP1|exact HQ1]. }
        destruct (0 <? i_when it2 - now st1)%Z.
        { cbn. split; [apply Hidle; exact HP1|exact HQ1]. }
        destruct ex as [|x xs].
        { cbn. split; [apply Hidle; exact HP1|constructor]. }
        specialize (IH (set_idle st1 (Some (i_when it2)) (timer st1) false) (Hidle _ _ _ _ HP1)).
        destruct (loop nxt wk parked fx f (set_idle st1 (Some (i_when it2)) (timer st1) false)) as [st2 o2].
        cbn [fst snd] in *. destruct IH as [IH1 IH2]. split; [exact IH1|].
        cbn [out_app o_ex]. apply Forall_app. split; assumption.
    Qed.

    Lemma settle_pres st : P st ->
      P (fst (settle nxt wk parked fx st)) /\ Forall Qx (o_ex (snd (settle nxt wk parked fx st))).
    Proof.
      intro HP. unfold settle. destruct (spin st).
      - apply loop_pres. apply Hidle. exact HP.
      - destruct (timer st) as [d|]; [|split; [exact HP|constructor]].
        destruct (d <=? now st)%Z; [|split; [exact HP|constructor]].
        apply loop_pres. apply Hidle. exact HP.
    Qed.

    Lemma advance_pres t : forall fuel st, P st ->
      P (fst (advance nxt wk parked fx fuel t st)) /\
      Forall Qx (o_ex (snd (advance nxt wk parked fx fuel t st))).
    Proof.
      induction fuel as [|f IH]; intros st HP; cbn [advance].
      - apply settle_pres. apply Hnow. exact HP.
      - destruct (spin st); [apply settle_pres; apply Hnow; exact HP|].
        destruct (timer st) as [d|]; [|split; [apply Hnow; exact HP|constructor]].
        destruct (d <=? t)%Z; [|split; [apply Hnow; exact HP|constructor]].
        destruct (settle_pres (set_now st (Z.max d (now st))) (Hnow _ _ HP)) as [H1 H2].
        destruct (settle nxt wk parked fx (set_now st (Z.max d (now st)))) as [st1 o1].
        cbn [fst snd] in H1, H2. specialize (IH st1 H1).
        destruct (advance nxt wk parked fx f t st1) as [st2 o2]. cbn [fst snd] in *.
        destruct IH as [IH1 IH2]. split; [exact IH1|].
        cbn [out_app o_ex]. apply Forall_app. split; assumption.
    Qed.
  End Pres.

  (** ** release_stops: a task that is not in the queue is never executed *)
  Definition absent (id : N) (st : state) : Prop := forall it, In it (q st) -> i_id it <> id.

  Lemma pass_absent id st : absent id st ->
    absent id (fst (pass nxt wk parked st)) /\
    Forall (fun x => fst x <> id) (snd (pass nxt wk parked st)).
  Proof.
    intro HA. unfold pass.
    destruct (pass_go nxt wk parked (now st) (busy st) (q st)) as [[[k ins] ex] b'] eqn:E.
    destruct (pass_go_spec _ _ _ _ _ _ _ E) as (Hk & Hd & _ & _). cbn [fst snd].
    assert (Hins : forall it', In it' ins -> i_id it' <> id).
    { clear -Hd HA. induction Hd as [|x y ex ins (i0 & Hi & _ & Hy & _) _ IH]; cbn; [tauto|].
      intros it' [E|I]; [|auto]. subst it' y. cbn. apply HA. exact Hi. }
    split.
    - intros it I. cbn [q] in I. apply In_fold_qins in I as [I|I]; [apply Hins; exact I|].
      apply HA. apply Hk. exact I.
    - clear -Hd HA. induction Hd as [|x y ex ins (i0 & Hi & Hx & _ & _) _ IH]; constructor; [|exact IH].
      subst x. cbn. apply HA. exact Hi.
  Qed.

  Lemma step_absent fx id st e : absent id st ->
    (forall s o l, e <> Schedule id s o l) ->
    absent id (fst (step nxt wk parked fx st e)) /\
    Forall (fun x => fst x <> id) (o_ex (snd (step nxt wk parked fx st e))).
  Proof.
    intros HA Hne.
    assert (Hidle : forall st w t sp, absent id st -> absent id (set_idle st w t sp)) by (intros; assumption).
    assert (Hnow : forall st t, absent id st -> absent id (set_now st t)) by (intros; assumption).
    destruct e as [id' sc off last|id'|t|id']; cbn [step].
    - apply (settle_pres fx (absent id) _ Hidle (pass_absent id)).
      intros it I. cbn in I. apply In_qins in I as [E|I].
      + subst it. cbn. intro E. subst id'. eapply Hne; reflexivity.
      + apply In_qremove in I as [I _]. apply HA. exact I.
    - apply (settle_pres fx (absent id) _ Hidle (pass_absent id)).
      intros it I. cbn in I. apply In_qremove in I as [I _]. apply HA. exact I.
    - destruct (t <? now st)%Z; [split; [exact HA|constructor]|].
      apply (advance_pres fx (absent id) _ Hidle Hnow (pass_absent id)). exact HA.
    - apply (settle_pres fx (absent id) _ Hidle (pass_absent id)). exact HA.
  Qed.

  Lemma release_absent id st : absent id
    {| q := qremove id (q st); swhen := swhen st; timer := timer st; now := now st;
       busy := busy st; spin := spin st |}.
  Proof. intros it I. cbn in I. apply In_qremove in I. tauto. Qed.

  (** ** no_self_overlap: while a run of a task is in flight no new one starts *)
  Definition inflight (id : N) (st : state) : Prop := In (wk id, id) (busy st).

  Lemma pass_inflight id st : inflight id st ->
    inflight id (fst (pass nxt wk parked st)) /\
    Forall (fun x => fst x <> id) (snd (pass nxt wk parked st)).
  Proof.
    intro HA. unfold pass.
    destruct (pass_go nxt wk parked (now st) (busy st) (q st)) as [[[k ins] ex] b'] eqn:E.
    destruct (pass_go_spec _ _ _ _ _ _ _ E) as (_ & _ & Hb & Ho). cbn [fst snd].
    split; [apply Hb; exact HA|]. apply Forall_forall. intros x Hx. eapply Ho; eauto.
  Qed.

  Lemma step_inflight fx id st e : inflight id st -> e <> Done id ->
    inflight id (fst (step nxt wk parked fx st e)) /\
    Forall (fun x => fst x <> id) (o_ex (snd (step nxt wk parked fx st e))).
  Proof.
    intros HA Hne.
    assert (Hidle : forall st w t sp, inflight id st -> inflight id (set_idle st w t sp)) by (intros; assumption).
    assert (Hnow : forall st t, inflight id st -> inflight id (set_now st t)) by (intros; assumption).
    destruct e as [id' sc off last|id'|t|id']; cbn [step].
    - apply (settle_pres fx (inflight id) _ Hidle (pass_inflight id)). exact HA.
    - apply (settle_pres fx (inflight id) _ Hidle (pass_inflight id)). exact HA.
    - destruct (t <? now st)%Z; [split; [exact HA|constructor]|].
      apply (advance_pres fx (inflight id) _ Hidle Hnow (pass_inflight id)). exact HA.
    - apply (settle_pres fx (inflight id) _ Hidle (pass_inflight id)).
      unfold inflight. cbn. apply filter_In. split; [exact HA|]. cbn.
      destruct (N.eqb_spec id id'); [subst; congruence|reflexivity].
  Qed.
  (** ** with the sign repaired every re-arm made by the loop has a positive delay *)
  Definition pos (d : Z) : Prop := (0 < d)%Z.

  Lemma loop_rearm_pos : forall fuel st,
    Forall pos (o_rearm (snd (loop nxt wk parked true fuel st))).
  Proof.
    induction fuel as [|f IH]; intro st; cbn [loop]; [constructor|].
    destruct (q st) as [|it r]; [constructor|].
    destruct (now st <? i_when it)%Z eqn:E.
    { cbn. constructor; [|constructor]. apply Z.ltb_lt in E. unfold pos. lia. }
    destruct (pass nxt wk parked st) as [st1 ex].
    destruct (q st1) as [|it2 r2]; [constructor|].
    destruct (0 <? i_when it2 - now st1)%Z eqn:E2.
    { cbn. constructor; [|constructor]. apply Z.ltb_lt in E2. exact E2. }
    destruct ex as [|x xs]; [constructor|].
    specialize (IH (set_idle st1 (Some (i_when it2)) (timer st1) false)).
    destruct (loop nxt wk parked true f (set_idle st1 (Some (i_when it2)) (timer st1) false)) as [st2 o2].
    cbn in *. exact IH.
  Qed.

  Lemma settle_rearm_pos st : Forall pos (o_rearm (snd (settle nxt wk parked true st))).
  Proof.
    unfold settle. destruct (spin st); [apply loop_rearm_pos|].
    destruct (timer st) as [d|]; [|constructor].
    destruct (d <=? now st)%Z; [apply loop_rearm_pos|constructor].
  Qed.

  Lemma advance_rearm_pos t : forall fuel st,
    Forall pos (o_rearm (snd (advance nxt wk parked true fuel t st))).
  Proof.
    induction fuel as [|f IH]; intro st; cbn [advance]; [apply settle_rearm_pos|].
    destruct (spin st); [apply settle_rearm_pos|].
    destruct (timer st) as [d|]; [|constructor].
    destruct (d <=? t)%Z; [|constructor].
    pose proof (settle_rearm_pos (set_now st (Z.max d (now st)))) as H1.
    destruct (settle nxt wk parked true (set_now st (Z.max d (now st)))) as [st1 o1].
    specialize (IH st1). destruct (advance nxt wk parked true f t st1) as [st2 o2].
    cbn in *. apply Forall_app. split; assumption.
  Qed.

  Lemma step_rearm_pos st e : Forall pos (o_rearm (snd (step nxt wk parked true st e))).
  Proof.
    destruct e as [id' sc off last|id'|t|id']; cbn [step]; try apply settle_rearm_pos.
    destruct (t <? now st)%Z; [constructor|apply advance_rearm_pos].
  Qed.

  Lemma neg_rearm_false o : Forall pos (o_rearm o) -> neg_rearm o = false.
  Proof.
    unfold neg_rearm. induction 1 as [|d l Hd _ IH]; cbn; [reflexivity|].
    rewrite IH, orb_false_r. apply Z.leb_gt. exact Hd.
  Qed.

  Lemma trace_no_neg : forall evs st,
    forallb (fun o => negb (b_neg o)) (trace nxt wk parked true st evs) = true.
  Proof.
    induction evs as [|e r IH]; intro st; cbn [trace]; [reflexivity|].
    pose proof (step_rearm_pos st e) as H.
    destruct (step nxt wk parked true st e) as [st' o]. cbn [snd] in H.
    cbn. rewrite (neg_rearm_false _ H). cbn. apply IH.
  Qed.

  (** ** histories: after Release no execution until the next Schedule of that id *)
  Fixpoint no_schedule_of (id : N) (evs : list ev) : Prop :=
    match evs with
    | [] => True
    | Schedule id' _ _ _ :: r => id' <> id /\ no_schedule_of id r
    | _ :: r => no_schedule_of id r
    end.

  Lemma trace_absent fx id : forall evs st, absent id st -> no_schedule_of id evs ->
    Forall (fun o => Forall (fun x => fst x <> id) (b_ex o)) (trace nxt wk parked fx st evs).
  Proof.
    induction evs as [|e r IH]; intros st HA Hn; cbn [trace]; [constructor|].
    assert (Hne : forall s o l, e <> Schedule id s o l).
    { intros s o l E. subst e. cbn in Hn. tauto. }
    assert (Hr : no_schedule_of id r) by (destruct e; cbn in Hn; tauto).
    destruct (step_absent fx id st e HA Hne) as [H1 H2].
    destruct (step nxt wk parked fx st e) as [st' o]. cbn [fst snd] in H1, H2.
    constructor; [exact H2|]. apply IH; assumption.
  Qed.

  Fixpoint no_done_of (id : N) (evs : list ev) : Prop :=
    match evs with
    | [] => True
    | Done id' :: r => id' <> id /\ no_done_of id r
    | _ :: r => no_done_of id r
    end.

  Lemma trace_inflight fx id : forall evs st, inflight id st -> no_done_of id evs ->
    Forall (fun o => Forall (fun x => fst x <> id) (b_ex o)) (trace nxt wk parked fx st evs).
  Proof.
    induction evs as [|e r IH]; intros st HA Hn; cbn [trace]; [constructor|].
    assert (Hne : e <> Done id).
    { intro E. subst e. cbn in Hn. tauto. }
    assert (Hr : no_done_of id r) by (destruct e; cbn in Hn; tauto).
    destruct (step_inflight fx id st e HA Hne) as [H1 H2].
    destruct (step nxt wk parked fx st e) as [st' o]. cbn [fst snd] in H1, H2.
    constructor; [exact H2|]. apply IH; assumption.
  Qed.
  Lemma pass_go_marks : forall l nw b k ins ex b',
    pass_go nxt wk parked nw b l = (k, ins, ex, b') ->
    forall x, In x ex -> parked (fst x) = true -> In (wk (fst x), fst x) b'.
  Proof.
    induction l as [|it r IH]; intros nw b k ins ex b' H; cbn in H.
    - inversion H; subst. intros x [].
    - destruct (nw <? i_when it)%Z; [inversion H; subst; intros x []|].
      destruct (worker_busy (wk (i_id it)) b).
      + destruct (pass_go nxt wk parked nw b r) as [[[k0 ins0] ex0] b0] eqn:E.
        inversion H; subst. eapply IH; eauto.
      + destruct (pass_go nxt wk parked nw (if parked (i_id it) then (wk (i_id it), i_id it) :: b else b) r)
          as [[[k0 ins0] ex0] b0] eqn:E.
        inversion H; subst. intros x [Ex|Ix] Hp; [|eapply IH; eauto].
        subst x. cbn in *. rewrite Hp in E.
        destruct (pass_go_spec _ _ _ _ _ _ _ E) as (_ & _ & Hb & _). apply Hb. left. reflexivity.
  Qed.

  Lemma release_step_absent fx id st :
    absent id (fst (step nxt wk parked fx st (Release id))) /\
    Forall (fun x => fst x <> id) (o_ex (snd (step nxt wk parked fx st (Release id)))).
  Proof.
    cbn [step].
    apply (settle_pres fx (absent id) (fun x => fst x <> id)); [intros; assumption|apply pass_absent|].
    apply release_absent.
  Qed.

  Lemma release_stops fx id st evs : no_schedule_of id evs ->
    Forall (fun o => Forall (fun x => fst x <> id) (b_ex o))
           (trace nxt wk parked fx st (Release id :: evs)).
  Proof.
    intro Hn. cbn [trace]. destruct (release_step_absent fx id st) as [H1 H2].
    destruct (step nxt wk parked fx st (Release id)) as [st' o]. cbn [fst snd] in H1, H2.
    constructor; [exact H2|]. apply trace_absent; assumption.
  Qed.

  (** the kernel of "once, in order": what one pass hands to the workers is, for each
      item it touches, exactly the item's pending scheduled time, which has come due,
      and the item is put back with the schedule's next time after it *)
  Lemma pass_go_kernel : (forall s t, (t < nxt s t)%Z) ->
    forall l nw b k ins ex b', pass_go nxt wk parked nw b l = (k, ins, ex, b') ->
    Forall2 (fun x it' => exists it, In it l /\ x = (i_id it, i_next it) /\
               (i_next it + i_off it <= nw)%Z /\
               i_id it' = i_id it /\ i_next it' = nxt (i_sched it) (i_next it) /\
               (i_next it < i_next it')%Z /\ i_off it' = i_off it /\ i_sched it' = i_sched it)
            ex ins.
  Proof.
    intros Hinc l nw b k ins ex b' H.
    destruct (pass_go_spec _ _ _ _ _ _ _ H) as (_ & Hd & _ & _).
    eapply Forall2_imp; [|exact Hd]. intros x y (it & Hi & Hx & Hy & Hw).
    exists it. subst y. cbn. repeat split; auto.
  Qed.
  (** ** whenever the loop goroutine has run, s.when is the due time of the minimum *)
  Definition when_is_min (st : state) : Prop :=
    swhen st = option_map i_when (hd_error (q st)).

  Lemma loop_when : forall fuel st, (fuel = 0%nat -> when_is_min st) ->
    when_is_min (fst (loop nxt wk parked true fuel st)).
  Proof.
    induction fuel as [|f IH]; intros st H0; cbn [loop].
    - cbn. apply H0. reflexivity.
    - destruct (q st) as [|it r] eqn:Eq.
      { unfold when_is_min. cbn. rewrite Eq. reflexivity. }
      destruct (now st <? i_when it)%Z.
      { unfold when_is_min. cbn. rewrite Eq. reflexivity. }
      destruct (pass nxt wk parked st) as [st1 ex].
      destruct (q st1) as [|it2 r2] eqn:Eq1.
      { unfold when_is_min. cbn. rewrite Eq1. reflexivity. }
      destruct (0 <? i_when it2 - now st1)%Z.
      { unfold when_is_min. cbn. rewrite Eq1. cbn. f_equal. lia. }
      destruct ex as [|x xs].
      { unfold when_is_min. cbn. rewrite Eq1. reflexivity. }
      assert (Hw : when_is_min (set_idle st1 (Some (i_when it2)) (timer st1) false)).
      { unfold when_is_min. cbn. rewrite Eq1. reflexivity. }
      specialize (IH (set_idle st1 (Some (i_when it2)) (timer st1) false) (fun _ => Hw)).
      destruct (loop nxt wk parked true f (set_idle st1 (Some (i_when it2)) (timer st1) false)) as [st2 o2].
      cbn [fst] in *. exact IH.
  Qed.

  Lemma loop_when_top st :
    when_is_min (fst (loop nxt wk parked true (fuel_of st) st)).
  Proof. apply loop_when. unfold fuel_of. discriminate. Qed.
End S.
