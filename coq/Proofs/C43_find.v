(** C43 — what FindMany returns for the v1 look-ups ({org, db, default=true} and {org, db, rp}), the ordering of the (org, db) index, and which mapping Delete promotes. *)
From Coq Require Import Sorted.
From Verif Require Import Base.Prelude Model.C43 Proofs.C43_base Proofs.C43_inv Proofs.C43.
Local Open Scope N_scope.

(** ---- the default lookup (empty retention policy): FindMany {org, db, default=true} ---- *)
Lemma filter_ok_fdef o d m :
  filter_ok (fdef o d) m = true -> m_org m = o /\ m_db m = d /\ m_def m = true.
Proof.
  unfold filter_ok, fdef; cbn. rewrite !andb_true_iff.
  intros [[[[[H0 _] H1] _] H2] _]. apply N.eqb_eq in H0, H1. repeat split; auto.
  destruct (m_def m); [reflexivity|discriminate].
Qed.

Lemma virt_pass_default_only o d m bs :
  m_org m = o -> m_db m = d -> m_def m = true -> virt_pass (fdef o d) bs [m] = [m].
Proof.
  intros Ho Hd Hdef. induction bs as [|b bs IH]; cbn [virt_pass]; [reflexivity|].
  cbn [b2m m_org m_db m_rp m_def shadow].
  destruct ((m_org m =? b_org b) && (m_db m =? b_db b)) eqn:E1.
  - destruct (m_rp m =? b_rp b); [exact IH|]. rewrite Hdef. cbn [andb].
    destruct (b_plain b).
    + destruct (filter_ok _ _) eqn:Fk; [|exact IH]. apply filter_ok_fdef in Fk as [_ [_ Fk]]. discriminate.
    + destruct (filter_ok _ _) eqn:Fk; [|exact IH]. apply filter_ok_fdef in Fk as [_ [_ Fk]]. discriminate.
  - destruct (filter_ok _ _) eqn:Fk; [|exact IH]. apply filter_ok_fdef in Fk as [F1 [F2 _]]. cbn in F1, F2.
    rewrite Ho, Hd, F1, F2, !N.eqb_refl in E1. discriminate.
Qed.

Lemma default_lookup_inv base st o d :
  Inv base st -> (exists id r, live st id r /\ r_org r = o /\ r_db r = d) ->
  exists id r, dget o d (dfl st) = Some id /\ live st id r /\ r_org r = o /\ r_db r = d /\
               find_many st (fdef o d) = ROk [rec2m id r true].
Proof.
  intros I [id0 [r0 [L0 [Ho Hd]]]]. pose proof (inv_dfl _ _ I o d) as D. unfold dfl_ok_at in D.
  destruct (dget o d (dfl st)) as [x|] eqn:G.
  2:{ exfalso. apply (D id0). exists r0. auto. }
  destruct D as [r [L [H1 H2]]]. exists x, r. repeat split; auto.
  unfold find_many, phys. cbn [fdef f_org f_db f_def is_true f_bkt]. rewrite G, L.
  cbn [add_all]. rewrite H1, H2, G, N.eqb_refl.
  assert (Fk : filter_ok (fdef o d) (rec2m x r true) = true).
  { unfold filter_ok, fdef, rec2m; cbn. rewrite H1, H2, !N.eqb_refl. reflexivity. }
  unfold fdef in Fk |- *. rewrite Fk. cbn [find_buckets f_bkt f_org].
  f_equal. apply (virt_pass_default_only o d); [exact H1 | exact H2 | reflexivity].
Qed.

Lemma default_lookup bk base ops o d :
  wf_bk bk base ->
  let st := run bk base ops in
  (exists id r, live st id r /\ r_org r = o /\ r_db r = d) ->
  exists id r, dget o d (dfl st) = Some id /\ live st id r /\ r_org r = o /\ r_db r = d /\
               find_many st (fdef o d) = ROk [rec2m id r true].
Proof. intros W st. apply default_lookup_inv with (base := base). apply run_inv; assumption. Qed.

(** ---- the (org, db) index stays in ascending id order without duplicates (all histories) ---- *)
Definition le3 (a b : N * N * N) : Prop := snd a <= snd b.
Definition idx_ok (l : list (N * N * N)) : Prop := StronglySorted le3 l /\ NoDup l.

Lemma ss_filter {A} (R : A -> A -> Prop) p l : StronglySorted R l -> StronglySorted R (filter p l).
Proof.
  induction 1 as [|a l S IH F]; cbn; [constructor|].
  destruct (p a); [|exact IH]. constructor; [exact IH|].
  apply Forall_forall. intros x Hx. apply filter_In in Hx as [Hx _]. rewrite Forall_forall in F. auto.
Qed.

Lemma idx_ok_del3 x l : idx_ok l -> idx_ok (del3 x l).
Proof. intros [S D]. split; [apply ss_filter; exact S | apply NoDup_filter; exact D]. Qed.

Lemma idx_ok_ins3 x l : idx_ok l -> idx_ok (ins3 x l).
Proof.
  unfold ins3. induction l as [|y l IH]; intros [S D]; cbn.
  - split; [repeat constructor | constructor; [intros []|constructor]].
  - destruct (e3_eqb x y) eqn:E; [split; assumption|].
    assert (Hxy : x <> y) by (intro C; subst; rewrite (proj2 (e3_eqb_eq y y) eq_refl) in E; discriminate).
    inversion S as [|? ? S' F]; subst. inversion D as [|? ? Hnin D']; subst.
    destruct (snd x <? snd y) eqn:Lt.
    + apply N.ltb_lt in Lt. split.
      * constructor; [exact S|]. constructor; [unfold le3; lia|].
        rewrite Forall_forall in *. intros z Hz. specialize (F z Hz). unfold le3 in *. lia.
      * constructor; [|exact D]. intros [C | C]; [congruence|].
        rewrite Forall_forall in F. specialize (F x C). unfold le3 in F. lia.
    + apply N.ltb_ge in Lt. destruct (IH (conj S' D')) as [S2 D2]. split.
      * constructor; [exact S2|]. apply Forall_forall. intros z Hz.
        apply in_ins_by in Hz; [|apply e3_eqb_eq]. destruct Hz as [-> | Hz]; [unfold le3; lia|].
        rewrite Forall_forall in F. auto.
      * constructor; [|exact D2]. intro C. apply in_ins_by in C; [|apply e3_eqb_eq].
        destruct C as [C | C]; [congruence | contradiction].
Qed.

Lemma create_idx st o d rp b def : idx_ok (iod st) -> idx_ok (iod (fst (create st o d rp b def))).
Proof.
  intro H. unfold create.
  repeat match goal with |- context [if ?c then _ else _] => destruct c; cbn [fst with_next iod]; try exact H
                    | |- context [match find_bucket ?a ?b with _ => _ end] => destruct (find_bucket a b); cbn [fst with_next iod]; try exact H end.
  apply idx_ok_ins3. exact H.
Qed.

Lemma update_idx st o id rp def virt : iod (fst (update st o id rp def virt)) = iod st.
Proof.
  unfold update. destruct (negb (name_ok rp)); [reflexivity|].
  destruct (find_by_id st o id) as [old|]; [|reflexivity].
  destruct (m_virt old); [reflexivity|].
  destruct (negb (unique_ok _ _ _ _ _)); reflexivity.
Qed.

Lemma delete_idx st o id : idx_ok (iod st) -> idx_ok (iod (fst (delete st o id))).
Proof.
  intro H. rewrite delete_unfold. destruct (find_by_id st o id); [|exact H].
  cbn. apply idx_ok_del3. exact H.
Qed.

Lemma del_bucket_idx st bid : idx_ok (iod st) -> idx_ok (iod (fst (del_bucket st bid))).
Proof.
  intro H. unfold del_bucket. destruct (find_bucket bid (bks st)) as [b|]; [|exact H].
  match goal with |- context [find_many ?s ?f] => set (st1 := s); destruct (find_many st1 f) as [ms| |] end;
    cbn [fst]; try exact H.
  assert (H1 : idx_ok (iod st1)) by exact H. clearbody st1. clear H.
  revert st1 H1. induction ms as [|m ms IH]; intros st1 H1; cbn; [exact H1|].
  apply IH. apply delete_idx. exact H1.
Qed.

Lemma step_idx st o : idx_ok (iod st) -> idx_ok (iod (fst (step st o))).
Proof.
  intro H. destruct o; cbn [step].
  - apply create_idx; exact H.
  - rewrite update_idx; exact H.
  - apply delete_idx; exact H.
  - apply del_bucket_idx; exact H.
Qed.

Lemma run_idx bk base ops : idx_ok (iod (run bk base ops)).
Proof.
  unfold run. assert (H : idx_ok (iod (init bk base))) by (cbn; split; constructor).
  revert H. generalize (init bk base). induction ops as [|o ops IH]; intros st H; cbn; [exact H|].
  apply IH. apply step_idx. exact H.
Qed.

(** [getFirstBut] returns the smallest id *)
Lemma walk_fst_in ids s kv : In kv (walk ids s) -> In (fst kv) ids.
Proof. destruct kv as [k v]. intro H. apply in_walk in H as [H _]. exact H. Qed.

Lemma walk_filter_head_min ids s (P : N * rec -> bool) :
  StronglySorted N.le ids ->
  forall k v t, filter P (walk ids s) = (k, v) :: t ->
  forall kv, In kv (filter P (walk ids s)) -> k <= fst kv.
Proof.
  induction 1 as [|a r S IH F]; cbn [walk]; intros k v t E kv Hin; [discriminate|].
  destruct (lookup a s) as [va|]; [|exact (IH k v t E kv Hin)].
  cbn [filter] in *. destruct (P (a, va)); [|exact (IH k v t E kv Hin)].
  inversion E; subst. destruct Hin as [<- | Hin]; [cbn; lia|].
  apply filter_In in Hin as [Hin _]. apply walk_fst_in in Hin. rewrite Forall_forall in F. exact (F _ Hin).
Qed.

Lemma od_ids_sorted o d l : StronglySorted le3 l -> StronglySorted N.le (od_ids o d l).
Proof.
  unfold od_ids. intro S. apply (ss_filter _ (dkey o d)) in S.
  induction S as [|a r S IH F]; cbn; constructor; [exact IH|].
  apply Forall_forall. intros x Hx. apply in_map_iff in Hx as [y [<- Hy]].
  rewrite Forall_forall in F. exact (F y Hy).
Qed.

Lemma first_but_min st o d skip f :
  StronglySorted le3 (iod st) -> first_but st o d skip = Some f ->
  forall id r, In (id, r) (walk_od st o d) -> id <> skip -> f <= id.
Proof.
  intros S Fb id r Hin Hne. unfold first_but in Fb.
  destruct (filter _ _) as [|[k v] t] eqn:E; [discriminate|]. cbn in Fb. injection Fb as <-.
  unfold walk_od in *.
  apply (walk_filter_head_min _ _ _ (od_ids_sorted o d _ S) k v t E (id, r)).
  apply filter_In. split; [exact Hin|]. cbn. apply negb_true_iff. apply N.eqb_neq. exact Hne.
Qed.

(** deleting the default mapping of (o, d): the remaining mapping with the smallest id
    becomes the default; if none remains the default entry is removed *)
Lemma delete_promotes_inv base st o id r :
  Inv base st -> idx_ok (iod st) -> live st id r -> r_org r = o ->
  dget o (r_db r) (dfl st) = Some id ->
  let st' := fst (delete st o id) in
  lookup id (src st') = None /\
  (forall id', id' <> id -> lookup id' (src st') = lookup id' (src st)) /\
  match dget o (r_db r) (dfl st') with
  | Some f => (exists rf, live st' f rf /\ r_org rf = o /\ r_db rf = r_db r) /\
              (forall id' r', live st' id' r' -> r_org r' = o -> r_db r' = r_db r -> f <= id')
  | None => forall id' r', live st' id' r' -> ~ (r_org r' = o /\ r_db r' = r_db r)
  end.
Proof.
  intros I [S _] L Ho G st'.
  pose proof (delete_inv base st o id I) as I'. fold st' in I'.
  assert (Fb : find_by_id st o id = Some (rec2m id r true)).
  { unfold find_by_id. unfold live in L. rewrite L, Ho, N.eqb_refl. unfold is_default. rewrite G, N.eqb_refl. reflexivity. }
  assert (E : st' = delete_core st o id o (r_db r) true).
  { unfold st'. rewrite delete_unfold, Fb. cbn. rewrite Ho. reflexivity. }
  assert (Hs : src st' = remove id (src st)) by (rewrite E; reflexivity).
  split; [rewrite Hs, lookup_remove, N.eqb_refl; reflexivity|].
  split.
  { intros id' Hne. rewrite Hs, lookup_remove. apply N.eqb_neq in Hne. rewrite Hne. reflexivity. }
  pose proof (inv_dfl _ _ I' o (r_db r)) as D. unfold dfl_ok_at in D.
  destruct (dget o (r_db r) (dfl st')) as [f|] eqn:G'.
  - split; [exact D|].
    intros id' r' L' Ho' Hd'.
    rewrite E in G'. cbn [delete_core dfl] in G'.
    match type of G' with context [first_but ?s ?a ?b ?c] => set (st1 := s) in *; destruct (first_but st1 a b c) as [f0|] eqn:F0 end.
    + rewrite dget_dput, !N.eqb_refl in G'. cbn in G'. injection G' as <-.
      assert (S1 : StronglySorted le3 (iod st1)) by (apply ss_filter; exact S).
      apply (first_but_min st1 o (r_db r) id f0 S1 F0 id' r').
      * apply in_walk_od. cbn [st1 iod src]. unfold live in L'. rewrite Hs in L'. split; [|exact L'].
        assert (Hi : In (o, r_db r, id') (iod st')) by (apply (inv_idx _ _ I'); exists r'; rewrite Hs; auto).
        rewrite E in Hi. exact Hi.
      * intro; subst id'. unfold live in L'. rewrite Hs, lookup_remove, N.eqb_refl in L'. discriminate.
    + rewrite dget_dremove, !N.eqb_refl in G'. discriminate.
  - intros id' r' L' [H1 H2]. apply (D id'). exists r'. auto.
Qed.

(** ---- the lookup of (org, db, rp): FindMany {org, db, rp} returns at most one mapping ---- *)
Definition mk (dl : list (N * N * N)) (kv : N * rec) : mapping :=
  rec2m (fst kv) (snd kv)
        (match dget (r_org (snd kv)) (r_db (snd kv)) dl with Some x => fst kv =? x | None => false end).

Lemma add_all_total dl f kvs :
  add_all dl f kvs = filter (filter_ok f) (map (mk dl) kvs).
Proof.
  induction kvs as [|[id r] kvs IH]; cbn [add_all map filter]; [reflexivity|].
  rewrite IH. unfold mk at 1 3. cbn [fst snd]. reflexivity.
Qed.

Lemma filter_le1 {A} (key : A -> N) (P : A -> bool) l :
  NoDup (map key l) ->
  (forall a b, In a l -> In b l -> P a = true -> P b = true -> key a = key b) ->
  (length (filter P l) <= 1)%nat.
Proof.
  induction l as [|a l IH]; intros D U; cbn; [lia|].
  inversion D as [|? ? Hnin D']; subst.
  destruct (P a) eqn:Pa.
  - assert (E : filter P l = []).
    { destruct (filter P l) as [|b t] eqn:Fl; [reflexivity|]. exfalso.
      assert (Hb : In b (filter P l)) by (rewrite Fl; left; reflexivity).
      apply filter_In in Hb as [Hb Pb]. apply Hnin.
      rewrite (U a b (or_introl eq_refl) (or_intror Hb) Pa Pb). apply in_map. exact Hb. }
    rewrite E. cbn. lia.
  - apply IH; [exact D'|]. intros x y Hx Hy. apply U; right; assumption.
Qed.

Lemma NoDup_map_inj {A B} (f : A -> B) l :
  NoDup l -> (forall a b, In a l -> In b l -> f a = f b -> a = b) -> NoDup (map f l).
Proof.
  induction l as [|a l IH]; intros D U; cbn; [constructor|].
  inversion D as [|? ? Hnin D']; subst. constructor.
  - intro C. apply in_map_iff in C as [b [E Hb]]. apply Hnin.
    rewrite (U a b (or_introl eq_refl) (or_intror Hb) (eq_sym E)). exact Hb.
  - apply IH; [exact D'|]. intros x y Hx Hy. apply U; right; assumption.
Qed.

Lemma od_ids_nodup o d l : NoDup l -> NoDup (od_ids o d l).
Proof.
  intro D. unfold od_ids. apply NoDup_map_inj; [apply NoDup_filter; exact D|].
  intros [[a1 a2] a3] [[b1 b2] b3] Ha Hb E. apply filter_In in Ha as [_ Ha], Hb as [_ Hb].
  apply dkey_true in Ha as [? ?], Hb as [? ?]. cbn in *. congruence.
Qed.

Lemma walk_keys_nodup ids s : NoDup ids -> NoDup (map fst (walk ids s)).
Proof.
  induction 1 as [|a r Hnin D IH]; cbn [walk]; [constructor|].
  destruct (lookup a s); [|exact IH]. cbn. constructor; [|exact IH].
  intro C. apply in_map_iff in C as [kv [E Hkv]]. apply walk_fst_in in Hkv. congruence.
Qed.

Lemma filter_ok_frp o d rp m :
  filter_ok (frp o d rp) m = true -> m_org m = o /\ m_db m = d /\ m_rp m = rp.
Proof.
  unfold filter_ok, frp; cbn. rewrite !andb_true_iff.
  intros [[[[[H0 _] H1] H2] _] _]. apply N.eqb_eq in H0, H1, H2. auto.
Qed.

Lemma virt_pass_le1 o d rp bs : forall ms,
  (length ms <= 1)%nat -> (forall m, In m ms -> m_org m = o /\ m_db m = d /\ m_rp m = rp) ->
  (length (virt_pass (frp o d rp) bs ms) <= 1)%nat.
Proof.
  induction bs as [|b bs IH]; intros ms Hl Hm; cbn [virt_pass]; [exact Hl|].
  cbn [b2m m_org m_db m_rp m_def].
  destruct (shadow ms (b_org b) (b_db b) (b_rp b) (b_plain b)) as [nd|] eqn:Sh; [|apply IH; assumption].
  destruct (filter_ok _ _) eqn:Fk; [|apply IH; assumption].
  apply filter_ok_frp in Fk as [Fo [Fd Fr]]. cbn in Fo, Fd, Fr.
  destruct ms as [|m [|m2 t]]; [| |cbn in Hl; lia].
  - apply IH; cbn; [lia|]. intros x [<- | []]. cbn. auto.
  - exfalso. destruct (Hm m (or_introl eq_refl)) as [Ho [Hd Hr]].
    cbn [shadow] in Sh. rewrite Ho, Hd, Hr, Fo, Fd, Fr, !N.eqb_refl in Sh. discriminate.
Qed.

Lemma virt_pass_in f bs : forall ms m,
  In m (virt_pass f bs ms) -> In m ms \/ filter_ok f m = true.
Proof.
  induction bs as [|b bs IH]; intros ms m H; cbn [virt_pass] in H; [auto|].
  destruct (shadow ms _ _ _) as [nd|]; [|apply IH; exact H].
  destruct (filter_ok f (set_def (b2m b) nd)) eqn:Fk; [|apply IH; exact H].
  apply IH in H as [H | H]; [|auto]. apply in_app_or in H as [H | [<- | []]]; auto.
Qed.

Lemma lookup_at_most_one_inv base st o d rp :
  Inv base st -> idx_ok (iod st) ->
  exists l, find_many st (frp o d rp) = ROk l /\ (length l <= 1)%nat /\
            forall m, In m l -> m_org m = o /\ m_db m = d /\ m_rp m = rp.
Proof.
  intros I [_ D].
  assert (Hw : forall kv, In kv (walk_od st o d) ->
                 lookup (fst kv) (src st) = Some (snd kv) /\ r_org (snd kv) = o /\ r_db (snd kv) = d).
  { intros [id r] Hin. apply in_walk_od in Hin as [Hi L]. cbn. split; [exact L|].
    apply (inv_idx _ _ I) in Hi as [r0 [L0 [H1 H2]]]. rewrite L in L0. inversion L0; subst. auto. }
  pose proof (add_all_total (dfl st) (frp o d rp) (walk_od st o d)) as Hp.
  set (ph := filter (filter_ok (frp o d rp)) (map (mk (dfl st)) (walk_od st o d))) in *.
  assert (Hph : forall m, In m ph -> m_org m = o /\ m_db m = d /\ m_rp m = rp).
  { intros m Hm. apply filter_In in Hm as [_ Hm]. apply filter_ok_frp in Hm. exact Hm. }
  assert (Hlen : (length ph <= 1)%nat).
  { unfold ph. apply (filter_le1 m_id).
    - rewrite map_map. cbn. apply walk_keys_nodup. apply od_ids_nodup. exact D.
    - intros a b Ha Hb Pa Pb. apply in_map_iff in Ha as [ka [<- Ha]], Hb as [kb [<- Hb]].
      apply filter_ok_frp in Pa as [A1 [A2 A3]], Pb as [B1 [B2 B3]]. cbn in *.
      destruct (Hw ka Ha) as [La _], (Hw kb Hb) as [Lb _].
      apply (inv_uniq _ _ I _ _ _ _ La Lb); congruence. }
  unfold find_many, phys. cbn [frp f_org f_db f_def is_true f_bkt find_buckets].
  change (add_all (dfl st) _ (walk_od st o d)) with (add_all (dfl st) (frp o d rp) (walk_od st o d)).
  rewrite Hp.
  eexists. split; [reflexivity|]. split.
  - apply virt_pass_le1; [exact Hlen | exact Hph].
  - intros m Hm. apply virt_pass_in in Hm as [Hm | Hm]; [exact (Hph m Hm) | exact (filter_ok_frp _ _ _ _ Hm)].
Qed.

Lemma lookup_at_most_one bk base ops o d rp :
  wf_bk bk base ->
  exists l, find_many (run bk base ops) (frp o d rp) = ROk l /\ (length l <= 1)%nat /\
            forall m, In m l -> m_org m = o /\ m_db m = d /\ m_rp m = rp.
Proof. intros W. apply lookup_at_most_one_inv with (base := base); [apply run_inv; assumption | apply run_idx]. Qed.

Lemma delete_promotes bk base ops o id r :
  wf_bk bk base ->
  let st := run bk base ops in
  live st id r -> r_org r = o -> dget o (r_db r) (dfl st) = Some id ->
  let st' := run bk base (ops ++ [Delete o id]) in
  lookup id (src st') = None /\
  (forall id', id' <> id -> lookup id' (src st') = lookup id' (src st)) /\
  match dget o (r_db r) (dfl st') with
  | Some f => (exists rf, live st' f rf /\ r_org rf = o /\ r_db rf = r_db r) /\
              (forall id' r', live st' id' r' -> r_org r' = o -> r_db r' = r_db r -> f <= id')
  | None => forall id' r', live st' id' r' -> ~ (r_org r' = o /\ r_db r' = r_db r)
  end.
Proof.
  intros W st Lv Ho G st'.
  assert (E : st' = fst (delete st o id)).
  { unfold st', st, run. rewrite fold_left_app. reflexivity. }
  rewrite E. apply (delete_promotes_inv base); auto; [apply run_inv; assumption | apply run_idx].
Qed.

(** ---- the listing FindMany {org, db}: at most one mapping per (org, db, rp), virtual ones included ---- *)
Definition key3 (m : mapping) : N * N * N := (m_org m, m_db m, m_rp m).

Lemma shadow_some ms o d rp : forall nd x,
  shadow ms o d rp nd = Some x -> forall m, In m ms -> key3 m <> (o, d, rp).
Proof.
  induction ms as [|a ms IH]; intros nd x H m Hin; [destruct Hin|].
  cbn [shadow] in H.
  destruct ((m_org a =? o) && (m_db a =? d)) eqn:E.
  - destruct (m_rp a =? rp) eqn:E2; [discriminate|].
    destruct Hin as [<- | Hin]; [|exact (IH _ _ H m Hin)].
    unfold key3. intro C. inversion C. apply N.eqb_neq in E2. contradiction.
  - destruct Hin as [<- | Hin]; [|exact (IH _ _ H m Hin)].
    unfold key3. intro C. inversion C. subst. rewrite !N.eqb_refl in E. discriminate.
Qed.

Lemma NoDup_snoc {A} (l : list A) a : NoDup l -> ~ In a l -> NoDup (l ++ [a]).
Proof.
  induction l as [|x l IH]; intros D Hn; cbn; [constructor; [intros []|constructor]|].
  inversion D as [|? ? Hx D']; subst. constructor.
  - intro C. apply in_app_or in C as [C | [C | []]]; [contradiction|]. subst. apply Hn. left; reflexivity.
  - apply IH; [exact D'|]. intro C. apply Hn. right; exact C.
Qed.

Lemma virt_pass_nodup f bs : forall ms,
  NoDup (map key3 ms) -> NoDup (map key3 (virt_pass f bs ms)).
Proof.
  induction bs as [|b bs IH]; intros ms D; cbn [virt_pass]; [exact D|].
  destruct (shadow ms _ _ _ _) as [nd|] eqn:Sh; [|apply IH; exact D].
  destruct (filter_ok f _); [|apply IH; exact D].
  apply IH. rewrite map_app. cbn [map]. apply NoDup_snoc; [exact D|].
  intro C. apply in_map_iff in C as [m [E Hm]].
  apply (shadow_some _ _ _ _ _ _ Sh m Hm). rewrite E. reflexivity.
Qed.

Lemma NoDup_map_filter {A B} (g : A -> B) p l : NoDup (map g l) -> NoDup (map g (filter p l)).
Proof.
  induction l as [|a l IH]; cbn; intro D; [constructor|].
  inversion D as [|? ? Hn D']; subst. destruct (p a); cbn; [|apply IH; exact D'].
  constructor; [|apply IH; exact D'].
  intro C. apply Hn. apply in_map_iff in C as [x [E Hx]]. apply filter_In in Hx as [Hx _].
  apply in_map_iff. eauto.
Qed.

Lemma NoDup_map_transfer {A B C} (f : A -> B) (g : A -> C) l :
  NoDup (map f l) -> (forall a b, In a l -> In b l -> g a = g b -> f a = f b) -> NoDup (map g l).
Proof.
  induction l as [|a l IH]; cbn; intros D U; [constructor|].
  inversion D as [|? ? Hn D']; subst. constructor.
  - intro C0. apply in_map_iff in C0 as [b [E Hb]]. apply Hn.
    rewrite (U a b (or_introl eq_refl) (or_intror Hb) (eq_sym E)). apply in_map. exact Hb.
  - apply IH; [exact D'|]. intros x y Hx Hy. apply U; right; assumption.
Qed.

Lemma listing_nodup_inv base st o d :
  Inv base st -> idx_ok (iod st) ->
  exists l, find_many st (fod o d) = ROk l /\ NoDup (map key3 l).
Proof.
  intros I [_ D].
  assert (Hw : forall kv, In kv (walk_od st o d) -> lookup (fst kv) (src st) = Some (snd kv)).
  { intros [id r] Hin. apply in_walk_od in Hin as [_ L]. exact L. }
  unfold find_many, phys. cbn [fod f_org f_db f_def is_true f_bkt find_buckets].
  change (add_all (dfl st) _ (walk_od st o d)) with (add_all (dfl st) (fod o d) (walk_od st o d)).
  rewrite add_all_total. eexists. split; [reflexivity|].
  apply virt_pass_nodup. apply NoDup_map_filter. rewrite map_map.
  apply (NoDup_map_transfer (fun kv : N * rec => fst kv)).
  - apply walk_keys_nodup. apply od_ids_nodup. exact D.
  - intros a b Ha Hb E. unfold key3, mk in E. cbn in E. inversion E.
    apply (inv_uniq _ _ I _ _ _ _ (Hw a Ha) (Hw b Hb)); assumption.
Qed.

Lemma listing_nodup bk base ops o d :
  wf_bk bk base ->
  exists l, find_many (run bk base ops) (fod o d) = ROk l /\ NoDup (map key3 l).
Proof. intros W. apply listing_nodup_inv with (base := base); [apply run_inv; exact W | apply run_idx]. Qed.

(** Update of a virtual mapping (a bucket id) is rejected and changes nothing *)
Lemma update_virtual_rejected base st o id rp def virt b :
  Inv base st -> find_bucket id (bks st) = Some b ->
  update st o id rp def virt = (st, E_NOTFOUND) \/ update st o id rp def virt = (st, E_INVALID).
Proof.
  intros I Fb. unfold update. destruct (negb (name_ok rp)); [right; reflexivity|]. left.
  assert (Hno : lookup id (src st) = None).
  { destruct (lookup id (src st)) eqn:L; [|reflexivity]. apply (inv_fresh _ _ I) in L.
    apply find_bucket_some in Fb as [Hin Hb]. apply (inv_bk _ _ I) in Hin. lia. }
  unfold find_by_id, virt_by_id. rewrite Hno, Fb. reflexivity.
Qed.

(** FindMany never panics and never fails in a reachable state (all filters) *)
Lemma find_many_total_inv base st f : Inv base st -> exists l, find_many st f = ROk l.
Proof.
  intro I. unfold find_many.
  assert (P : exists ms, phys st f = ROk ms).
  { unfold phys. destruct (f_org f) as [o|]; [|eauto]. destruct (f_db f) as [d|]; [|eauto].
    destruct (is_true (f_def f)); [|eauto].
    pose proof (inv_dfl _ _ I o d) as Dd. unfold dfl_ok_at in Dd.
    destruct (dget o d (dfl st)) as [x|]; [|eauto]. destruct Dd as [r [L _]]. rewrite L. eauto. }
  destruct P as [ms ->]. destruct (find_buckets st f); eauto.
Qed.
