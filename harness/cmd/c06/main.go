// C06 driver: real tsm1.FileStore / KeyCursor on generated multi-file block layouts.
//
// Per case (one layout): 1-5 real TSM files are written with tsm1.NewTSMWriter (file i is named
// DefaultFormatFileName(i+1, 1), so FileStore order = path order = generation order), the key's
// blocks are encoded by tsm1.Values.Encode inside TSMWriter.Write, a real tsm1.FileStore is opened
// on the directory, delete ranges are applied through TSMFile.DeleteRange (one file) or
// FileStore.DeleteRange (all files), and for every (seek time, direction) query a KeyCursor is
// created and drained with Read<T>Block + Next and, on a fresh cursor, Read<T>ArrayBlock + Next.
// The case records what was written / requested (oracle side), what the opened readers report for
// the key (entries, tombstone ranges, file time range: mirror side) and the returned block sequences.
package main

import (
	"context"
	"fmt"
	"math"
	"os"
	"path/filepath"
	"sort"
	"strconv"

	"github.com/influxdata/influxdb/v2/tsdb"
	"github.com/influxdata/influxdb/v2/tsdb/engine/tsm1"
	"verifh/vh"
)

type jdel struct {
	File int   `json:"file"` // -1: FileStore.DeleteRange (every file)
	Min  int64 `json:"min"`
	Max  int64 `json:"max"`
}
type jfile struct {
	Times [][]int64 `json:"times"` // blocks of the key: timestamps
	Vals  [][]int64 `json:"vals"`  // and small-int values
	Other []int64   `json:"other,omitempty"` // timestamps of one block of ANOTHER key in the file (widens TimeRange)
	After bool      `json:"other_after,omitempty"`
	// reported by the opened reader
	Entries [][2]int64 `json:"impl_entries"`
	Tombs   [][2]int64 `json:"impl_tombs"`
	TMin    int64      `json:"impl_tmin"`
	TMax    int64      `json:"impl_tmax"`
}
type jpt = [2]int64
type jquery struct {
	T      int64     `json:"t"`
	Asc    bool      `json:"asc"`
	Order  [][2]int64 `json:"impl_seeks_order"` // c.seeks after sort.Sort: (file index, entry min time)
	Scalar [][]jpt   `json:"impl_scalar"`
	Array  [][]jpt   `json:"impl_array"`
}
type jcase struct {
	Typ   int      `json:"typ"` // 0 float 1 integer 2 unsigned 3 string 4 boolean
	Files []jfile  `json:"files"`
	Dels  []jdel   `json:"dels"`
	Seeks []int64  `json:"seeks"`
	Qs    []jquery `json:"queries"`
}

const mainKey = "cpu,host=a#!~#v"

var typNames = []string{"float", "integer", "unsigned", "string", "boolean"}
var tmpRoot string
var dirSeq int
var extremeFlip bool
var proc, procs = 0, 1 // VERIF_PROC / VERIF_PROCS: this process's share of the exhaustive enumeration

func must(err error) {
	if err != nil {
		fmt.Fprintln(os.Stderr, "driver error:", err)
		os.Exit(3)
	}
}

func mkValue(typ int, t, v int64) tsm1.Value {
	switch typ {
	case 0:
		return tsm1.NewFloatValue(t, float64(v))
	case 1:
		return tsm1.NewIntegerValue(t, v)
	case 2:
		return tsm1.NewUnsignedValue(t, uint64(v))
	case 3:
		return tsm1.NewStringValue(t, strconv.FormatInt(v, 10))
	default:
		return tsm1.NewBooleanValue(t, v != 0)
	}
}

func b2i(b bool) int64 {
	if b {
		return 1
	}
	return 0
}
func s2i(s string) int64 {
	v, err := strconv.ParseInt(s, 10, 64)
	if err != nil {
		return -999
	}
	return v
}

// drain runs one cursor to exhaustion with the scalar (arr=false) or array (arr=true) form.
func drain(fs *tsm1.FileStore, typ int, t int64, asc, arr bool, limit int) (blocks [][]jpt, order [][2]int64, hang bool, err error) {
	kc := fs.KeyCursor(context.Background(), []byte(mainKey), t, asc)
	defer kc.Close()
	order = [][2]int64{}
	paths, mins, _ := kc.VerifSeeks()
	for i, p := range paths {
		gen, _, perr := tsm1.DefaultParseFileName(p)
		must(perr)
		order = append(order, [2]int64{int64(gen - 1), mins[i]})
	}
	var fb []tsm1.FloatValue
	var ib []tsm1.IntegerValue
	var ub []tsm1.UnsignedValue
	var sb []tsm1.StringValue
	var bb []tsm1.BooleanValue
	fa, ia, ua, sa, ba := &tsdb.FloatArray{}, &tsdb.IntegerArray{}, &tsdb.UnsignedArray{}, &tsdb.StringArray{}, &tsdb.BooleanArray{}
	for it := 0; ; it++ {
		if it > limit {
			return blocks, order, true, nil
		}
		var blk []jpt
		switch {
		case !arr && typ == 0:
			v, e := kc.ReadFloatBlock(&fb)
			err = e
			for _, x := range v {
				blk = append(blk, jpt{x.UnixNano(), int64(x.RawValue())})
			}
		case !arr && typ == 1:
			v, e := kc.ReadIntegerBlock(&ib)
			err = e
			for _, x := range v {
				blk = append(blk, jpt{x.UnixNano(), x.RawValue()})
			}
		case !arr && typ == 2:
			v, e := kc.ReadUnsignedBlock(&ub)
			err = e
			for _, x := range v {
				blk = append(blk, jpt{x.UnixNano(), int64(x.RawValue())})
			}
		case !arr && typ == 3:
			v, e := kc.ReadStringBlock(&sb)
			err = e
			for _, x := range v {
				blk = append(blk, jpt{x.UnixNano(), s2i(x.RawValue())})
			}
		case !arr && typ == 4:
			v, e := kc.ReadBooleanBlock(&bb)
			err = e
			for _, x := range v {
				blk = append(blk, jpt{x.UnixNano(), b2i(x.RawValue())})
			}
		case arr && typ == 0:
			v, e := kc.ReadFloatArrayBlock(fa)
			err = e
			if e == nil {
				for i := range v.Timestamps {
					blk = append(blk, jpt{v.Timestamps[i], int64(v.Values[i])})
				}
			}
		case arr && typ == 1:
			v, e := kc.ReadIntegerArrayBlock(ia)
			err = e
			if e == nil {
				for i := range v.Timestamps {
					blk = append(blk, jpt{v.Timestamps[i], v.Values[i]})
				}
			}
		case arr && typ == 2:
			v, e := kc.ReadUnsignedArrayBlock(ua)
			err = e
			if e == nil {
				for i := range v.Timestamps {
					blk = append(blk, jpt{v.Timestamps[i], int64(v.Values[i])})
				}
			}
		case arr && typ == 3:
			v, e := kc.ReadStringArrayBlock(sa)
			err = e
			if e == nil {
				for i := range v.Timestamps {
					blk = append(blk, jpt{v.Timestamps[i], s2i(v.Values[i])})
				}
			}
		default:
			v, e := kc.ReadBooleanArrayBlock(ba)
			err = e
			if e == nil {
				for i := range v.Timestamps {
					blk = append(blk, jpt{v.Timestamps[i], b2i(v.Values[i])})
				}
			}
		}
		if err != nil {
			return blocks, order, false, err
		}
		if len(blk) == 0 {
			return blocks, order, false, nil
		}
		blocks = append(blocks, blk)
		kc.Next()
	}
}

func ptsTerm(b []jpt) string {
	xs := make([]string, len(b))
	for i, p := range b {
		xs[i] = "(" + vh.Z(p[0]) + ", " + vh.Z(p[1]) + ")"
	}
	return vh.List(xs)
}
func blocksTerm(bs [][]jpt) string {
	xs := make([]string, len(bs))
	for i, b := range bs {
		xs[i] = ptsTerm(b)
	}
	return vh.List(xs)
}
func rangesTerm(rs [][2]int64) string {
	xs := make([]string, len(rs))
	for i, r := range rs {
		xs[i] = "(" + vh.Z(r[0]) + ", " + vh.Z(r[1]) + ")"
	}
	return vh.List(xs)
}

func run(w *vh.W, c *jcase) {
	dirSeq++
	dir := filepath.Join(tmpRoot, fmt.Sprintf("l%d", dirSeq))
	must(os.MkdirAll(dir, 0o777))
	defer os.RemoveAll(dir)
	idx := w.Len()

	nblocks, npoints := 0, 0
	for i := range c.Files {
		f := &c.Files[i]
		if len(f.Times) == 0 && len(f.Other) == 0 {
			f.Other = []int64{0, 40}
		}
		path := filepath.Join(dir, tsm1.DefaultFormatFileName(i+1, 1)+"."+tsm1.TSMFileExtension)
		fd, err := os.OpenFile(path, os.O_CREATE|os.O_RDWR, 0o666)
		must(err)
		tw, err := tsm1.NewTSMWriter(fd)
		must(err)
		writeOther := func() {
			if len(f.Other) == 0 {
				return
			}
			k := "aaa#!~#v"
			if f.After {
				k = "zzz#!~#v"
			}
			vs := make([]tsm1.Value, len(f.Other))
			for j, t := range f.Other {
				vs[j] = tsm1.NewFloatValue(t, 1)
			}
			must(tw.Write([]byte(k), vs))
		}
		if !f.After {
			writeOther()
		}
		for bi, ts := range f.Times {
			vs := make([]tsm1.Value, len(ts))
			for j, t := range ts {
				vs[j] = mkValue(c.Typ, t, f.Vals[bi][j])
			}
			must(tw.Write([]byte(mainKey), vs))
			nblocks++
			npoints += len(ts)
		}
		if f.After {
			writeOther()
		}
		must(tw.WriteIndex())
		must(tw.Close())
	}

	fs := tsm1.NewFileStore(dir, tsdb.EngineTags{})
	must(fs.Open(context.Background()))
	defer fs.Close()
	files := fs.Files()
	if len(files) != len(c.Files) {
		must(fmt.Errorf("FileStore opened %d files, wrote %d", len(files), len(c.Files)))
	}
	// FileStore keeps its files sorted by path: files[i] is the i-th written file
	for i, r := range files {
		want := tsm1.DefaultFormatFileName(i+1, 1) + "." + tsm1.TSMFileExtension
		if filepath.Base(r.Path()) != want {
			must(fmt.Errorf("file order: %s at %d", r.Path(), i))
		}
	}
	reqDels := make([][][2]int64, len(c.Files))
	for _, d := range c.Dels {
		var err error
		if p := vh.Guard(func() {
			if d.File < 0 {
				err = fs.DeleteRange([][]byte{[]byte(mainKey)}, d.Min, d.Max)
			} else {
				err = files[d.File].DeleteRange([][]byte{[]byte(mainKey)}, d.Min, d.Max)
			}
		}); p != "" || err != nil {
			w.Fail(idx, fmt.Sprintf("DeleteRange(%d,%d) on file %d failed: %v %v", d.Min, d.Max, d.File, p, err), "")
		}
		for i := range c.Files {
			if d.File < 0 || d.File == i {
				reqDels[i] = append(reqDels[i], [2]int64{d.Min, d.Max})
			}
		}
	}
	for i, r := range files {
		f := &c.Files[i]
		f.Entries, f.Tombs = [][2]int64{}, [][2]int64{}
		for _, e := range r.Entries([]byte(mainKey)) {
			f.Entries = append(f.Entries, [2]int64{e.MinTime, e.MaxTime})
		}
		for _, t := range r.TombstoneRange([]byte(mainKey)) {
			f.Tombs = append(f.Tombs, [2]int64{t.Min, t.Max})
		}
		f.TMin, f.TMax = r.TimeRange()
	}

	limit := 4*(npoints+nblocks) + 8
	c.Qs = c.Qs[:0]
	qterms := []string{}
	for _, t := range c.Seeks {
		for _, asc := range []bool{true, false} {
			q := jquery{T: t, Asc: asc}
			for _, arr := range []bool{false, true} {
				var blocks [][]jpt
				var hang bool
				var err error
				var order [][2]int64
				p := vh.Guard(func() { blocks, order, hang, err = drain(fs, c.Typ, t, asc, arr, limit) })
				if !arr || q.Order == nil {
					q.Order = order
				}
				if q.Order == nil {
					q.Order = [][2]int64{}
				}
				form := map[bool]string{false: "Read" + typNames[c.Typ] + "Block", true: "Read" + typNames[c.Typ] + "ArrayBlock"}[arr]
				switch {
				case p != "":
					w.Fail(idx, fmt.Sprintf("%s panicked at seek %d asc=%v: %s", form, t, asc, p), "")
				case err != nil:
					w.Fail(idx, fmt.Sprintf("%s returned error at seek %d asc=%v: %v", form, t, asc, err), "")
				case hang:
					w.Fail(idx, fmt.Sprintf("%s+Next did not reach an empty block within %d iterations at seek %d asc=%v", form, limit, t, asc), "")
				}
				if blocks == nil {
					blocks = [][]jpt{}
				}
				if arr {
					q.Array = blocks
				} else {
					q.Scalar = blocks
				}
			}
			c.Qs = append(c.Qs, q)
			ord := make([]string, len(q.Order))
			for i, o := range q.Order {
				ord[i] = "(" + vh.Nat(int(o[0])) + ", " + vh.Z(o[1]) + ")"
			}
			qterms = append(qterms, fmt.Sprintf("{| q_t := %s; q_asc := %s; q_order := %s; q_scalar := %s; q_array := %s |}",
				vh.Z(t), vh.Bool(asc), vh.List(ord), blocksTerm(q.Scalar), blocksTerm(q.Array)))
		}
	}

	fterms := make([]string, len(c.Files))
	overlapPairs, dupTs := 0, 0
	seen := map[int64]int{}
	for i := range c.Files {
		f := &c.Files[i]
		bts := make([]string, len(f.Times))
		for bi, ts := range f.Times {
			pts := make([]jpt, len(ts))
			for j, t := range ts {
				pts[j] = jpt{t, f.Vals[bi][j]}
				seen[t]++
			}
			bts[bi] = ptsTerm(pts)
		}
		fterms[i] = fmt.Sprintf("{| w_blocks := %s; w_dels := %s; w_entries := %s; w_tombs := %s; w_tmin := %s; w_tmax := %s |}",
			vh.List(bts), rangesTerm(reqDels[i]), rangesTerm(f.Entries), rangesTerm(f.Tombs), vh.Z(f.TMin), vh.Z(f.TMax))
		for j := 0; j < i; j++ {
			for _, a := range f.Times {
				for _, b := range c.Files[j].Times {
					if a[0] <= b[len(b)-1] && b[0] <= a[len(a)-1] {
						overlapPairs++
					}
				}
			}
		}
	}
	for _, n := range seen {
		if n > 1 {
			dupTs++
		}
	}
	term := fmt.Sprintf("{| c_files := %s; c_qs := %s |}", vh.List(fterms), vh.List(qterms))
	// non-trivial: at least two blocks of different files overlap in time, or a tombstone applies
	sig := ""
	if nblocks > 12 {
		// Known defect, shape decided from the input: more than 12 blocks of the key, so sort.Sort is pdqsort
		// and the non-transitive Less may leave overlapping blocks out of generation order.
		sig = "over-12-locations-sort-breaks-newest-wins"
	}
	w.Add(term, c, overlapPairs > 0 || len(c.Dels) > 0, sig)
	w.Count("type", typNames[c.Typ])
	w.Count("files", fmt.Sprint(len(c.Files)))
	if nblocks > 12 {
		w.Count("locations(blocks)", ">12 (outside the insertion-sort model)")
	} else {
		w.Count("locations(blocks)", fmt.Sprint(nblocks))
	}
	w.Count("deletes", fmt.Sprint(len(c.Dels)))
	w.Count("overlapping_block_pairs", bucket(overlapPairs))
	w.Count("timestamps_in_several_files", bucket(dupTs))
	w.Count("queries", bucket(len(c.Qs)))
}

func bucket(n int) string {
	switch {
	case n == 0:
		return "0"
	case n <= 2:
		return "1-2"
	case n <= 5:
		return "3-5"
	case n <= 10:
		return "6-10"
	case n <= 20:
		return "11-20"
	}
	return ">20"
}

// ---------- generators ----------

func valOf(typ, fi, bi int) int64 {
	if typ == 4 {
		return int64(fi % 2)
	}
	return int64((fi+1)*10 + bi)
}

func mkFile(typ, fi int, blocks [][]int64) jfile {
	f := jfile{}
	for bi, ts := range blocks {
		vs := make([]int64, len(ts))
		for j := range ts {
			vs[j] = valOf(typ, fi, bi)
		}
		f.Times = append(f.Times, ts)
		f.Vals = append(f.Vals, vs)
	}
	return f
}

// interesting seek times: around every block boundary / tombstone boundary, extremes of the legal range
func seeksFor(c *jcase, r interface{ IntN(int) int }, max int) []int64 {
	set := map[int64]bool{}
	cand := []int64{}
	add := func(t int64) {
		if !set[t] {
			set[t] = true
			cand = append(cand, t)
		}
	}
	for _, f := range c.Files {
		for _, ts := range f.Times {
			for _, t := range ts {
				add(t - 1)
				add(t)
				add(t + 1)
			}
		}
	}
	for _, d := range c.Dels {
		add(d.Min)
		add(d.Max + 1)
	}
	for len(cand) > max {
		i := r.IntN(len(cand))
		cand = append(cand[:i], cand[i+1:]...)
	}
	// extremes: MinNanoTime / MaxNanoTime and, alternating, MinInt64 / MaxInt64 themselves (where the
	// unguarded t-1 / t+1 in FileStore.locations used to wrap: repaired finding seek-at-int64-extreme-wraps)
	extremeFlip = !extremeFlip
	if extremeFlip {
		cand = append(cand, math.MinInt64, math.MaxInt64-1)
	} else {
		cand = append(cand, math.MinInt64+2, math.MaxInt64)
	}
	sort.Slice(cand, func(i, j int) bool { return cand[i] < cand[j] })
	return cand
}

func genLayout(w *vh.W, k int) jcase {
	r := w.Rng
	c := jcase{Typ: k % 5}
	dom := []int64{40, 40, 12, 24}[r.IntN(4)] // smaller domains make duplicates denser
	nf := 1 + r.IntN(5)
	budget := 12 // sort.Sort is insertion sort only up to 12 elements: never more than 12 locations
	var prev [][]int64
	for fi := 0; fi < nf; fi++ {
		nb := r.IntN(5)
		if nb > budget {
			nb = budget
		}
		var blocks [][]int64
		mode := r.IntN(6)
		if mode == 0 && len(prev) > 0 && len(prev) <= budget {
			// block-aligned with the previous file (as compaction leaves them), slightly perturbed
			for _, pb := range prev {
				nbk := []int64{}
				for _, t := range pb {
					if r.IntN(5) != 0 {
						nbk = append(nbk, t)
					}
				}
				if len(nbk) > 0 {
					blocks = append(blocks, nbk)
				}
			}
		} else {
			t := int64(r.IntN(int(dom)/2 + 1))
			for b := 0; b < nb && t <= dom; b++ {
				sz := 1 + r.IntN(6)
				blk := []int64{}
				for j := 0; j < sz && t <= dom; j++ {
					blk = append(blk, t)
					t += 1 + int64(r.IntN(3))
				}
				if len(blk) > 0 {
					blocks = append(blocks, blk)
				}
				if r.IntN(3) == 0 {
					t += int64(r.IntN(8))
				}
			}
		}
		budget -= len(blocks)
		f := mkFile(c.Typ, fi, blocks)
		if len(blocks) == 0 || r.IntN(4) == 0 {
			a := int64(r.IntN(int(dom) + 1))
			f.Other = []int64{a, a + 1 + int64(r.IntN(20))}
			f.After = r.IntN(2) == 0
		}
		c.Files = append(c.Files, f)
		if len(blocks) > 0 {
			prev = blocks
		}
	}
	nd := []int{0, 0, 1, 1, 2, 3}[r.IntN(6)]
	for i := 0; i < nd; i++ {
		a := int64(r.IntN(int(dom)+3)) - 1
		b := a + int64(r.IntN(8))
		if r.IntN(5) == 0 {
			b = a + int64(r.IntN(int(dom)))
		}
		switch r.IntN(12) {
		case 0:
			a = math.MinInt64
		case 1:
			b = math.MaxInt64
		}
		d := jdel{File: r.IntN(nf+1) - 1, Min: a, Max: b}
		// snap to a block's exact range now and then (the fully-tombstoned-block shortcut)
		if r.IntN(4) == 0 {
			f := c.Files[r.IntN(nf)]
			if len(f.Times) > 0 {
				bl := f.Times[r.IntN(len(f.Times))]
				d.Min, d.Max = bl[0], bl[len(bl)-1]
				if r.IntN(2) == 0 {
					d.Max--
				}
			}
		}
		if d.Min <= d.Max {
			c.Dels = append(c.Dels, d)
		}
	}
	c.Seeks = seeksFor(&c, r, 10)
	return c
}

func corpus() []jcase {
	mk := func(typ int, dels []jdel, files ...[][]int64) jcase {
		c := jcase{Typ: typ, Dels: dels}
		for fi, b := range files {
			c.Files = append(c.Files, mkFile(typ, fi, b))
		}
		return c
	}
	B := func(ts ...int64) []int64 { return ts }
	F := func(bs ...[]int64) [][]int64 { return bs }
	cs := []jcase{
		// single file, tombstone in the middle / at the end of a block
		mk(0, []jdel{{0, 3, 4}}, F(B(0, 1, 2, 3, 4, 5), B(6, 7))),
		mk(1, []jdel{{0, 8, 10}}, F(B(0, 2, 4, 6, 8, 10), B(11, 12, 20))),
		// second file fully inside / straddling the first
		mk(2, nil, F(B(0, 10, 20, 30)), F(B(5, 10, 15))),
		mk(3, nil, F(B(10, 20)), F(B(0, 5), B(15, 25)), F(B(3, 12, 22))),
		// non-transitive comparator triples
		mk(4, nil, F(B(5, 25)), F(B(20, 30)), F(B(0, 10))),
		mk(0, nil, F(B(20, 30)), F(B(0, 10)), F(B(5, 25))),
		mk(1, nil, F(B(0, 5), B(20, 25)), F(B(3, 10), B(11, 22))),
		// identical blocks in every file, newest must win
		mk(2, nil, F(B(1, 2, 3)), F(B(1, 2, 3)), F(B(1, 2, 3))),
		// tombstone covers the newer duplicate only: the older live point must surface
		mk(3, []jdel{{1, 2, 2}}, F(B(1, 2, 3)), F(B(2))),
		// block fully tombstoned by ONE range vs by two adjacent ranges
		mk(0, []jdel{{0, 0, 5}}, F(B(0, 5), B(6, 9)), F(B(4, 7))),
		mk(1, []jdel{{0, 0, 2}, {0, 3, 5}}, F(B(0, 5), B(6, 9)), F(B(4, 7))),
		// delete through the FileStore (all files), whole-key delete of one file
		mk(2, []jdel{{-1, 3, 6}}, F(B(0, 3, 6, 9)), F(B(2, 4, 6, 8))),
		mk(3, []jdel{{1, math.MinInt64, math.MaxInt64}}, F(B(0, 3, 6, 9)), F(B(2, 4, 6, 8))),
		// 12 locations: the largest insertion-sorted case
		mk(0, nil, F(B(0, 1), B(4, 5), B(8, 9), B(12, 13)), F(B(1, 2), B(5, 6), B(9, 10), B(13, 14)), F(B(2, 4), B(6, 8), B(10, 12), B(14, 16))),
	}
	for i := range cs {
		cs[i].Seeks = seeksFor(&cs[i], nil, 1000)
	}
	// both int64 extremes (and their neighbours) on one layout
	ex := mk(1, nil, F(B(0, 1, 2)), F(B(1, 5)))
	ex.Seeks = []int64{math.MinInt64, math.MinInt64 + 1, 1, math.MaxInt64 - 1, math.MaxInt64}
	cs = append(cs, ex)
	return cs
}

// exhaustive: every layout of nf files over timestamps {0..D-1} (each timestamp absent / continues the
// current block / starts a new block), optionally with one delete range on one file.
func exhaustive(w *vh.W, nf, D int, withDel bool, typ int) int {
	var one [][][]int64
	var rec func(t int, cur []int64, acc [][]int64)
	rec = func(t int, cur []int64, acc [][]int64) {
		if t == D {
			if len(cur) > 0 {
				acc = append(append([][]int64{}, acc...), cur)
			}
			one = append(one, acc)
			return
		}
		rec(t+1, cur, acc)
		rec(t+1, append(append([]int64{}, cur...), int64(t)), acc)
		if len(cur) > 0 {
			rec(t+1, []int64{int64(t)}, append(append([][]int64{}, acc...), cur))
		}
	}
	rec(0, nil, nil)
	n := 0
	idx := make([]int, nf)
	for {
		var dels [][]jdel
		dels = append(dels, nil)
		if withDel {
			for f := 0; f < nf; f++ {
				for a := 0; a < D; a++ {
					for b := a; b < D; b++ {
						dels = append(dels, []jdel{{f, int64(a), int64(b)}})
					}
				}
			}
		}
		for _, dl := range dels {
			c := jcase{Typ: typ, Dels: dl}
			for fi := 0; fi < nf; fi++ {
				c.Files = append(c.Files, mkFile(typ, fi, one[idx[fi]]))
			}
			for t := int64(-1); t <= int64(D); t++ {
				c.Seeks = append(c.Seeks, t)
			}
			if n%procs == proc { // parallel driver processes split the enumeration
				run(w, &c)
			}
			n++
		}
		k := 0
		for k < nf {
			idx[k]++
			if idx[k] < len(one) {
				break
			}
			idx[k] = 0
			k++
		}
		if k == nf {
			break
		}
	}
	return n
}

func main() {
	w := vh.New("C06", "From Verif Require Import Base.Prelude Model.C37 Model.C06.\nLocal Open Scope Z_scope.", "case", "check")
	w.Rule = "one case = one layout of 1-5 real TSM files (generation order = file order) holding 0-4 blocks of one key each " +
		"(block sizes 1-6, timestamps in 0..40 or a denser 0..12/0..24 domain so that the same timestamps recur in several files; " +
		"one file in six is block-aligned with its predecessor; NEVER more than 12 blocks in total because sort.Sort is insertion sort " +
		"only up to 12 elements and the model mirrors that), 0-3 delete ranges applied through TSMFile.DeleteRange or FileStore.DeleteRange " +
		"(some snapped to a block's exact range, some reaching MinInt64/MaxInt64), an optional second key widening the file time range; " +
		"queries: up to 12 seek times (block and tombstone boundaries +-1 and two extremes, alternating between {MinInt64, MaxNanoTime} and {MinNanoTime, MaxInt64}: the int64 extremes are where t-1 / t+1 used to wrap in locations) " +
		"x both directions, each drained with Read<T>Block+Next and Read<T>ArrayBlock+Next; value type rotates over the five types. " +
		"One generated layout in eight is deliberately OUTSIDE that limit (13-30 blocks, known-finding shape over-12-locations-sort-breaks-newest-wins): there the mirror runs on the seeks order the real sort produced " +
		"(reported through the verif-only accessor KeyCursor.VerifSeeks) and the oracle decides. For <=12 locations the reported order must equal the model's insertion sort. " +
		"Hand-picked layouts come first; the thorough tier adds every layout of 2 files over timestamps {0..3}, of 2 files over {0..2} with at most one delete range " +
		"and of 3 files over {0..2}. Non-trivial: blocks of different files overlap in time or a delete applies. Distinct: distinct Gallina terms."
	var err error
	base := ""
	if st, e := os.Stat("/dev/shm"); e == nil && st.IsDir() {
		base = "/dev/shm" // tmpfs: the writer's and the tombstoner's fsyncs are not what is being checked
	}
	tmpRoot, err = os.MkdirTemp(base, "c06-")
	must(err)
	defer os.RemoveAll(tmpRoot)

	if v, e := strconv.Atoi(os.Getenv("VERIF_PROCS")); e == nil && v > 1 {
		procs = v
		proc, _ = strconv.Atoi(os.Getenv("VERIF_PROC"))
	}
	var rc jcase
	if w.ReplayCase(&rc) {
		run(w, &rc)
		w.Finish()
		os.RemoveAll(tmpRoot)
		return
	}
	if proc == 0 { // hand-picked layouts once, not in every parallel driver process
		for _, c := range corpus() {
			c := c
			run(w, &c)
		}
	}
	if w.N >= 2500 {
		n := exhaustive(w, 2, 4, false, 1)
		n += exhaustive(w, 2, 3, true, 2)
		n += exhaustive(w, 3, 3, false, 0)
		w.Extra["exhaustive_layouts"] = n
		w.Extra["exhaustive_note"] = "all layouts of 2 files over timestamps {0..3}, of 2 files over {0..2} x (no delete | one delete range on one file) and of 3 files over {0..2}, all seeks -1..D, both directions, scalar and array: a SEARCH for a counterexample to the full statement on the real code (a test, not a proof)"
	}
	for k := 0; w.Len() < w.N; k++ {
		var c jcase
		if k%8 == 7 {
			c = genBig(w, k)
		} else {
			c = genLayout(w, k)
		}
		run(w, &c)
	}
	w.Extra["max_locations"] = 12
	w.Finish()
	os.RemoveAll(tmpRoot)
}


// genBig: MORE than 12 blocks of the key (13-30), spread over 3-6 overlapping files with long gaps so
// that blocks of one file fit between blocks of another: sort.Sort is then pdqsort and the model only
// mirrors the cursor on the order the real sort produced (reported through KeyCursor.VerifSeeks).
func genBig(w *vh.W, k int) jcase {
	r := w.Rng
	for {
		c := jcase{Typ: k % 5}
		nf := 3 + r.IntN(4)
		dom := int64(30 + r.IntN(50))
		total := 0
		for fi := 0; fi < nf; fi++ {
			var blocks [][]int64
			t := int64(r.IntN(10))
			for t <= dom && len(blocks) < 8 {
				sz := 1 + r.IntN(4)
				blk := []int64{}
				for j := 0; j < sz && t <= dom; j++ {
					blk = append(blk, t)
					t += 1 + int64(r.IntN(4))
				}
				blocks = append(blocks, blk)
				if r.IntN(2) == 0 {
					t += int64(r.IntN(25))
				}
			}
			total += len(blocks)
			c.Files = append(c.Files, mkFile(c.Typ, fi, blocks))
		}
		if total <= 12 || total > 30 {
			continue
		}
		if r.IntN(3) == 0 {
			a := int64(r.IntN(int(dom)))
			c.Dels = append(c.Dels, jdel{File: r.IntN(nf+1) - 1, Min: a, Max: a + int64(r.IntN(10))})
		}
		c.Seeks = seeksFor(&c, r, 3)
		return c
	}
}
