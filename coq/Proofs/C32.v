(** C32 — proofs: io.ReadAll over the LimitedReadCloser (as of commit ea653b404e), for every
    chunking of the reader below, both ways of signalling its end and any number of (0, nil)
    answers before it; consequences for the write handler. *)
From Verif Require Import Base.Prelude Model.C11 Model.C12 Model.C32 Proofs.C12.
From Coq Require Import ZifyBool ZifyNat.

Definition res3 (x : bytes * option rfail * reader) : bytes * option rfail * bool :=
  let '(d, e, r) := x in (d, e, r_close r).

(** what the probe yields on an exhausted reader *)
Definition probe_res (u : ustream) : option rfail :=
  if Nat.ltb (u_stall u) PROBES then fail_of (REnd (u_end u)) else Some FNoProgress.

(** What ReadAll + Close yield from a limiter state with budget [n] (not yet flagged) over
    the reader state [u], having already collected [acc]. *)
Definition expected (n : Z) (u : ustream) (acc : bytes) : bytes * option rfail * bool :=
  if (n <=? 0)%Z then
    match u_rem u with [] => (acc, probe_res u, false) | _ => (acc, None, true) end
  else if (Z.of_nat (length (u_rem u)) <? n)%Z then (acc ++ u_rem u, fail_of (REnd (u_end u)), false)
  else if (n <? Z.of_nat (length (u_rem u)))%Z then (acc ++ firstn (Z.to_nat n) (u_rem u), None, true)
  else (acc ++ u_rem u, probe_res u, false).

Ltac zif :=
  repeat match goal with
  | |- context [if (?a <=? ?b)%Z then _ else _] => destruct (Z.leb_spec a b); try lia
  | |- context [if (?a <? ?b)%Z then _ else _] => destruct (Z.ltb_spec a b); try lia
  end.

(** One Read of the underlying reader with a buffer of [k >= 1] bytes. *)
Lemma u_read_cases u k c d e u' :
  (1 <= k)%nat -> u_read u k c = (d, e, u') ->
  u_end u' = u_end u /\ u_eager u' = u_eager u /\ u_rem u = d ++ u_rem u' /\ (length d <= k)%nat /\
  ((u_rem u = [] /\ d = [] /\ u_stall u = O /\ e = Some (REnd (u_end u)) /\ u' = u) \/
   (u_rem u = [] /\ d = [] /\ e = None /\ u_rem u' = [] /\ u_stall u = S (u_stall u')) \/
   (u_rem u <> [] /\ (1 <= length d)%nat /\ u_stall u' = u_stall u /\
    ((u_rem u' = [] /\ e = match u_stall u with
                            | O => if u_eager u then Some (REnd (u_end u)) else None
                            | S _ => None end) \/
     (u_rem u' <> [] /\ e = None /\ (length d = Nat.min k (S c))%nat)))).
Proof.
  intros Hk. unfold u_read. destruct u as [rem en eg stl]; cbn [u_rem u_end u_eager u_stall].
  destruct rem as [|x t].
  - destruct stl as [|s]; intros [= <- <- <-]; cbn [u_rem u_end u_eager u_stall app length].
    + split; [reflexivity|]. split; [reflexivity|]. split; [reflexivity|]. split; [lia|].
      left. repeat split; reflexivity.
    + split; [reflexivity|]. split; [reflexivity|]. split; [reflexivity|]. split; [lia|].
      right; left. repeat split; reflexivity.
  - set (rem := x :: t). set (n := Nat.min (Nat.min k (S c)) (length rem)).
    assert (Hn1 : (1 <= n)%nat) by (subst n rem; cbn [length]; lia).
    assert (Hn2 : (n <= length rem)%nat) by (subst n; lia).
    intros [= <- <- <-]. cbn [u_rem u_end u_eager u_stall].
    assert (Hl : length (firstn n rem) = n) by (rewrite firstn_length; lia).
    repeat split; auto.
    + now rewrite firstn_skipn.
    + rewrite Hl. subst n. lia.
    + right; right. split; [subst rem; discriminate|]. split; [lia|]. split; [reflexivity|].
      destruct (skipn n rem) eqn:Hs.
      * left; split; [reflexivity|]. destruct stl; reflexivity.
      * right. split; [discriminate|]. split; [destruct stl; reflexivity|]. rewrite Hl.
        assert (length (skipn n rem) = length rem - n)%nat by apply skipn_length.
        rewrite Hs in H. cbn [length] in H. subst n. lia.
Qed.

(** the probe on an exhausted reader: its end error if it comes within the 100 attempts *)
Lemma probe_empty fuel : forall l u c, u_rem u = [] ->
  exists u', probe fuel l u c =
    (Some (if Nat.ltb (u_stall u) fuel then REnd (u_end u) else RNoProgress), l, u').
Proof.
  induction fuel as [|f IH]; intros l u c Hr; cbn [probe].
  - exists u. reflexivity.
  - unfold u_read. rewrite Hr. destruct (u_stall u) as [|s] eqn:Hs.
    + exists u. reflexivity.
    + set (u1 := {| u_rem := []; u_end := u_end u; u_eager := u_eager u; u_stall := s |}).
      destruct (IH l u1 c eq_refl) as [u' H]. exists u'. rewrite H. cbn [u_stall u_end u1].
      change (Nat.ltb (S s) (S f)) with (Nat.ltb s f). reflexivity.
Qed.

Lemma probe_nonempty l u c : u_rem u <> [] ->
  exists u', probe PROBES l u c = (Some (REnd EndEOF), {| l_n := l_n l; l_exc := true |}, u').
Proof.
  intro Hne. unfold PROBES. cbn [probe].
  destruct (u_read u 1 c) as [[d e] u'] eqn:Hu.
  destruct (u_read_cases _ _ _ _ _ _ (le_n 1) Hu) as (_ & _ & _ & _ & Hc).
  destruct Hc as [(Hr & _) | [(Hr & _) | (_ & Hd & _)]]; try contradiction.
  destruct d; [cbn in Hd; lia|]. exists u'. reflexivity.
Qed.

(** ** one Read of the limiter *)
Lemma lrc_step l u room c acc d e l' u' :
  l_exc l = false ->
  lrc_read l u room c = (d, e, l', u') ->
  match e with
  | Some k => (acc ++ d, fail_of k, l_exc l') = expected (l_n l) u acc
  | None => (0 < l_n l)%Z /\ l_exc l' = false /\ expected (l_n l') u' (acc ++ d) = expected (l_n l) u acc
  end.
Proof.
  intros Hexc. unfold lrc_read.
  destruct (l_n l <=? 0)%Z eqn:HN.
  - unfold expected. rewrite HN. destruct (u_rem u) eqn:Hr.
    + destruct (probe_empty PROBES l u c Hr) as [u1 Hp]. rewrite Hp. intros [= <- <- <- <-].
      rewrite app_nil_r, Hexc. unfold probe_res. destruct (Nat.ltb (u_stall u) PROBES); reflexivity.
    + destruct (probe_nonempty l u c) as [u1 Hp]; [congruence|]. rewrite Hp. intros [= <- <- <- <-].
      rewrite app_nil_r. reflexivity.
  - set (k := if (Z.of_nat (S room) >? l_n l)%Z then Z.to_nat (l_n l) else S room).
    assert (HNpos : (0 < l_n l)%Z) by (apply Z.leb_gt; exact HN).
    assert (Hk1 : (1 <= k)%nat) by (subst k; destruct (Z.of_nat (S room) >? l_n l)%Z; lia).
    assert (Hk2 : (Z.of_nat k <= l_n l)%Z) by (subst k; destruct (Z.of_nat (S room) >? l_n l)%Z eqn:E; lia).
    destruct (u_read u k c) as [[d0 e0] u0] eqn:Hu. intros [= <- <- <- <-].
    cbn [l_n l_exc].
    destruct (u_read_cases _ _ _ _ _ _ Hk1 Hu) as (Hend & Heag & Hrem & Hdk & Hc).
    assert (Hlen : length (u_rem u) = (length d0 + length (u_rem u0))%nat)
      by (rewrite Hrem, app_length; reflexivity).
    destruct Hc as [(Hr & -> & Hst & -> & ->) | [(Hr & -> & -> & Hr0 & Hst) | (Hne & Hd1 & Hst & Hc)]].
    + unfold expected. rewrite HN, Hr, Hexc. cbn [length]. rewrite app_nil_r. zif. reflexivity.
    + split; [exact HNpos|]. split; [exact Hexc|]. unfold expected. cbn [length].
      replace (l_n l - Z.of_nat 0)%Z with (l_n l) by lia. rewrite HN, Hr, Hr0, Hend. cbn [length].
      rewrite !app_nil_r. zif. reflexivity.
    + assert (Hpr : probe_res u0 = probe_res u) by (unfold probe_res; rewrite Hst, Hend; reflexivity).
      destruct Hc as [(Hr0 & ->) | (Hr0 & -> & Hdl)].
      * (* the read delivered the last bytes *)
        rewrite Hr0, app_nil_r in Hrem. rewrite Hr0 in Hlen. cbn [length] in Hlen.
        destruct (u_stall u) eqn:Hs0; [destruct (u_eager u) eqn:Heg|].
        -- unfold expected. rewrite HN, <- Hrem, Hexc. unfold probe_res. rewrite Hs0. cbn. zif; reflexivity.
        -- split; [exact HNpos|]. split; [exact Hexc|]. unfold expected. rewrite HN, Hpr, Hend, Hr0. cbn [length].
           rewrite <- Hrem, app_nil_r. zif; reflexivity.
        -- split; [exact HNpos|]. split; [exact Hexc|]. unfold expected. rewrite HN, Hpr, Hend, Hr0. cbn [length].
           rewrite <- Hrem, app_nil_r. zif; reflexivity.
      * (* more bytes remain below *)
        split; [exact HNpos|]. split; [exact Hexc|]. unfold expected. rewrite HN, Hpr, Hend.
        assert (Hpos : (1 <= length (u_rem u0))%nat) by (destruct (u_rem u0); [congruence | cbn; lia]).
        rewrite Hlen.
        destruct (Z.leb_spec (l_n l - Z.of_nat (length d0)) 0).
        -- zif. destruct (u_rem u0) eqn:E0; [congruence|]. rewrite <- ?E0.
           rewrite Hrem. replace (Z.to_nat (l_n l)) with (length d0 + 0)%nat by lia.
           rewrite firstn_app_2. cbn. now rewrite app_nil_r.
        -- zif.
           ++ now rewrite Hrem, app_assoc.
           ++ rewrite Hrem.
              replace (Z.to_nat (l_n l)) with (length d0 + Z.to_nat (l_n l - Z.of_nat (length d0)))%nat by lia.
              rewrite firstn_app_2. now rewrite app_assoc.
           ++ now rewrite Hrem, app_assoc.
Qed.

(** number of further Read calls with a large buffer that can still return (n, nil) *)
Definition steps_left (n : Z) (u : ustream) : nat :=
  if (n <=? 0)%Z then O else match u_rem u with [] => u_stall u | _ => S (u_stall u) end.

Lemma lrc_big_dec l u d l' u' :
  lrc_read l u (length (u_rem u)) (length (u_rem u)) = (d, None, l', u') ->
  (steps_left (l_n l') u' < steps_left (l_n l) u)%nat.
Proof.
  unfold lrc_read, steps_left. destruct (Z.leb_spec (l_n l) 0).
  - destruct (u_rem u) eqn:Hr.
    + destruct (probe_empty PROBES l u (length (@nil N)) Hr) as [u1 Hp]. rewrite Hp. intros [= ].
    + destruct (probe_nonempty l u (length (n :: b))) as [u1 Hp]; [congruence|]. rewrite Hp. intros [= ].
  - set (k := if (Z.of_nat (S (length (u_rem u))) >? l_n l)%Z then Z.to_nat (l_n l) else S (length (u_rem u))).
    assert (Hk1 : (1 <= k)%nat) by (subst k; destruct (Z.of_nat (S (length (u_rem u))) >? l_n l)%Z; lia).
    destruct (u_read u k (length (u_rem u))) as [[d0 e0] u0] eqn:Hu. intros [= Hd He Hl Hu']. subst d e0 l' u'.
    destruct (u_read_cases _ _ _ _ _ _ Hk1 Hu) as (Hend & Heag & Hrem & Hdk & Hc).
    assert (Hlen : length (u_rem u) = (length d0 + length (u_rem u0))%nat)
      by (rewrite Hrem, app_length; reflexivity).
    cbn [l_n].
    destruct Hc as [(_ & _ & _ & [=] & _) | [(Hr & -> & _ & Hr0 & Hst) | (Hne & Hd1 & Hst & Hc)]].
    + cbn [length]. replace (l_n l - Z.of_nat 0)%Z with (l_n l) by lia.
      destruct (Z.leb_spec (l_n l) 0); [lia|]. rewrite Hr, Hr0, Hst. lia.
    + destruct Hc as [(Hr0 & _) | (Hr0 & _ & Hdl)].
      * destruct (u_rem u); [congruence|]. rewrite Hr0, Hst. destruct (_ <=? _)%Z; lia.
      * assert (Hz : (l_n l - Z.of_nat (length d0) <= 0)%Z).
        { revert Hdl. subst k. destruct (Z.gtb_spec (Z.of_nat (S (length (u_rem u)))) (l_n l)); intro Hdl; [lia|].
          assert (1 <= length (u_rem u0))%nat by (destruct (u_rem u0); [congruence | cbn; lia]). lia. }
        destruct (u_rem u); [congruence|].
        destruct (Z.leb_spec (l_n l - Z.of_nat (length d0)) 0); lia.
Qed.

Lemma drain_lim fuel : forall l u acc,
  l_exc l = false -> (steps_left (l_n l) u < fuel)%nat ->
  res3 (drain_with r_read fuel (RLim l u) acc) = expected (l_n l) u acc.
Proof.
  induction fuel as [|f IH]; intros l u acc Hexc Hm; [lia|].
  cbn [drain_with r_read]. change (r_rem (RLim l u)) with (u_rem u).
  destruct (lrc_read l u (length (u_rem u)) (length (u_rem u))) as [[[d e] l1] u1] eqn:H1.
  pose proof (lrc_step _ _ _ _ acc _ _ _ _ Hexc H1) as S1.
  destruct e as [k|]; [cbn; exact S1|].
  destruct S1 as (_ & Hexc1 & S1). rewrite <- S1.
  pose proof (lrc_big_dec _ _ _ _ _ H1) as Hd.
  apply IH; [exact Hexc1 | lia].
Qed.

Lemma steps_left_bound n u : (steps_left n u < 3 + u_stall u)%nat.
Proof. unfold steps_left. destruct (n <=? 0)%Z; [lia|]. destruct (u_rem u); lia. Qed.

Lemma read_all_lim script : forall l u acc,
  l_exc l = false ->
  res3 (read_all script (RLim l u) acc) = expected (l_n l) u acc.
Proof.
  unfold read_all. induction script as [|[room c] s IH]; intros l u acc Hexc.
  - cbn [read_all_with r_under]. apply drain_lim; [exact Hexc | apply steps_left_bound].
  - cbn [read_all_with r_read].
    destruct (lrc_read l u room c) as [[[d e] l1] u1] eqn:H1.
    pose proof (lrc_step _ _ _ _ acc _ _ _ _ Hexc H1) as S1.
    destruct e as [k|]; [cbn; exact S1|].
    destruct S1 as (_ & Hexc1 & S1). rewrite <- S1. apply IH; exact Hexc1.
Qed.

(** ** No limiter installed *)
Lemma plain_step u room c acc d e u' :
  u_read u (S room) c = (d, e, u') ->
  match e with
  | Some k => (acc ++ d, fail_of k) = (acc ++ u_rem u, fail_of (REnd (u_end u)))
  | None => (acc ++ d) ++ u_rem u' = acc ++ u_rem u /\ u_end u' = u_end u
  end.
Proof.
  intros Hu. assert (Hk : (1 <= S room)%nat) by lia.
  destruct (u_read_cases _ _ _ _ _ _ Hk Hu) as (Hend & Heag & Hrem & Hdk & Hc).
  destruct Hc as [(Hr & -> & _ & -> & ->) | [(Hr & -> & -> & Hr0 & _) | (Hne & Hd1 & _ & [(Hr0 & ->) | (Hr0 & -> & _)])]].
  - now rewrite Hr.
  - split; [|exact Hend]. rewrite Hr, Hr0, !app_nil_r. reflexivity.
  - rewrite Hr0, app_nil_r in Hrem. destruct (u_stall u); [destruct (u_eager u)|].
    + now rewrite Hrem.
    + split; [|exact Hend]. now rewrite Hr0, app_nil_r, Hrem.
    + split; [|exact Hend]. now rewrite Hr0, app_nil_r, Hrem.
  - split; [|exact Hend]. now rewrite Hrem, app_assoc.
Qed.

Definition psteps (u : ustream) : nat := match u_rem u with [] => u_stall u | _ => S (u_stall u) end.

Lemma plain_big_dec u d u' :
  u_read u (S (length (u_rem u))) (length (u_rem u)) = (d, None, u') -> (psteps u' < psteps u)%nat.
Proof.
  intro Hu. assert (Hk : (1 <= S (length (u_rem u)))%nat) by lia.
  destruct (u_read_cases _ _ _ _ _ _ Hk Hu) as (_ & _ & Hrem & _ & Hc). unfold psteps.
  assert (Hlen : length (u_rem u) = (length d + length (u_rem u'))%nat) by (rewrite Hrem, app_length; reflexivity).
  destruct Hc as [(_ & _ & _ & [=] & _) | [(Hr & _ & _ & Hr0 & Hst) | (Hne & Hd1 & Hst & [(Hr0 & _) | (Hr0 & _ & Hdl)])]].
  - rewrite Hr, Hr0, Hst. lia.
  - destruct (u_rem u); [congruence|]. rewrite Hr0, Hst. lia.
  - assert (1 <= length (u_rem u'))%nat by (destruct (u_rem u'); [congruence | cbn; lia]). lia.
Qed.

Lemma drain_plain fuel : forall u acc, (psteps u < fuel)%nat ->
  res3 (drain_with r_read fuel (RPlain u) acc) = (acc ++ u_rem u, fail_of (REnd (u_end u)), false).
Proof.
  induction fuel as [|f IH]; intros u acc Hm; [lia|].
  cbn [drain_with r_read]. change (r_rem (RPlain u)) with (u_rem u).
  destruct (u_read u (S (length (u_rem u))) (length (u_rem u))) as [[d e] u1] eqn:H1.
  pose proof (plain_step _ _ _ acc _ _ _ H1) as S1.
  destruct e as [k|]; [cbn; now inversion S1|].
  destruct S1 as [S1 E1]. pose proof (plain_big_dec _ _ _ H1) as Hd.
  rewrite IH by lia. now rewrite S1, E1.
Qed.

Lemma read_all_plain script : forall u acc,
  res3 (read_all script (RPlain u) acc) = (acc ++ u_rem u, fail_of (REnd (u_end u)), false).
Proof.
  unfold read_all. induction script as [|[room c] s IH]; intros u acc.
  - cbn [read_all_with r_under]. apply drain_plain. unfold psteps. destruct (u_rem u); lia.
  - cbn [read_all_with r_read].
    destruct (u_read u (S room) c) as [[d e] u1] eqn:H1.
    pose proof (plain_step _ _ _ acc _ _ _ H1) as S1.
    destruct e as [k|]; [cbn; now inversion S1|].
    destruct S1 as [S1 E1]. rewrite IH, S1, E1. reflexivity.
Qed.

(** ** readAll of http/points in closed form, for every script *)
Definition by_end (u : ustream) : body_res :=
  match u_end u with EndEOF => BodyOk (u_rem u) | EndChecksum => BodyInvalid | EndUnexpected => BodyInternal end.

Definition body_spec (limit : Z) (u : ustream) : body_res :=
  let n := Z.of_nat (length (u_rem u)) in
  if (limit <=? 0)%Z then by_end u
  else if (n <? limit)%Z then by_end u
  else if (limit <? n)%Z then BodyTooLarge
  else if Nat.ltb (u_stall u) PROBES then by_end u else BodyInternal.

Lemma read_body_res3 script r :
  read_body script r =
  match res3 (read_all script r []) with
  | (_, Some FChecksum, _) => BodyInvalid
  | (_, Some _, _) => BodyInternal
  | (data, None, true) => BodyTooLarge
  | (data, None, false) => BodyOk data
  end.
Proof.
  unfold read_body, res3. destruct (read_all script r []) as [[d e] r']. destruct e as [[]|]; auto.
Qed.

Lemma read_body_spec script limit u :
  read_body script (batch_reader limit u) = body_spec limit u.
Proof.
  rewrite read_body_res3. unfold batch_reader, body_spec, by_end.
  rewrite Z.gtb_ltb. destruct (Z.ltb_spec 0 limit); destruct (Z.leb_spec limit 0); try lia.
  - rewrite read_all_lim by reflexivity. unfold expected, probe_res. cbn [l_n app].
    destruct (Z.leb_spec limit 0); [lia|].
    destruct (Z.ltb_spec (Z.of_nat (length (u_rem u))) limit); [destruct (u_end u); reflexivity|].
    destruct (Z.ltb_spec limit (Z.of_nat (length (u_rem u)))); [reflexivity|].
    destruct (Nat.ltb (u_stall u) PROBES); [destruct (u_end u); reflexivity | reflexivity].
  - rewrite read_all_plain. cbn [app]. destruct (u_end u); reflexivity.
Qed.

(** ReadAll + Close: the limit is reported iff the decoded body is larger than the limit *)
Lemma limit_flag_iff script limit u :
  (0 < limit)%Z ->
  (snd (res3 (read_all script (batch_reader limit u) [])) = true
   <-> (limit < Z.of_nat (length (u_rem u)))%Z).
Proof.
  intro Hl. unfold batch_reader. rewrite Z.gtb_ltb. destruct (Z.ltb_spec 0 limit); [|lia].
  rewrite read_all_lim by reflexivity. unfold expected. cbn [l_n].
  destruct (Z.leb_spec limit 0); [lia|].
  destruct (Z.ltb_spec (Z.of_nat (length (u_rem u))) limit); cbn; [split; [discriminate | lia]|].
  destruct (Z.ltb_spec limit (Z.of_nat (length (u_rem u)))); cbn; [tauto | split; [discriminate | lia]].
Qed.

(** ** The handler in closed form *)
Definition accepted_size (q : request) : Prop :=
  (q_limit q <= 0)%Z \/ (Z.of_nat (length (u_rem (q_stream q))) <= q_limit q)%Z.
(** the reader below does not answer (0, nil) a hundred times in a row at its end *)
Definition progresses (q : request) : Prop := (u_stall (q_stream q) < PROBES)%nat.

Lemma body_spec_accepted q :
  accepted_size q -> progresses q -> body_spec (q_limit q) (q_stream q) = by_end (q_stream q).
Proof.
  unfold accepted_size, progresses, body_spec. intros H Hp.
  assert (E : Nat.ltb (u_stall (q_stream q)) PROBES = true) by (apply Nat.ltb_lt; exact Hp).
  rewrite E. destruct H; zif; reflexivity.
Qed.

Lemma body_spec_accepted_cases q :
  accepted_size q ->
  body_spec (q_limit q) (q_stream q) = by_end (q_stream q) \/
  body_spec (q_limit q) (q_stream q) = BodyInternal.
Proof.
  unfold accepted_size, body_spec. intros H.
  destruct (Nat.ltb (u_stall (q_stream q)) PROBES); destruct H; zif; auto.
Qed.

Lemma body_spec_rejected q :
  ~ accepted_size q -> body_spec (q_limit q) (q_stream q) = BodyTooLarge.
Proof.
  unfold accepted_size, body_spec. intros H. zif; try (exfalso; apply H; lia); reflexivity.
Qed.

Lemma accepted_size_dec q : accepted_size q \/ ~ accepted_size q.
Proof. unfold accepted_size. lia. Qed.

Definition all_points (q : request) : list (bytes * Z) :=
  map point_obs (oks (map (parse_point (q_prec q) DFLT) (candidate_lines (u_rem (q_stream q))))).
Definition bad_lines (q : request) : list bytes :=
  filter (fun t => negb (is_ok (parse_point (q_prec q) DFLT t))) (candidate_lines (u_rem (q_stream q))).

Definition handle_closed (q : request) : response :=
  match precheck q with
  | Some r => r
  | None =>
    match body_spec (q_limit q) (q_stream q) with
    | BodyTooLarge => resp 413 C_TOO_LARGE
    | BodyInvalid => resp 400 C_INVALID
    | BodyInternal => resp 500 C_INTERNAL
    | BodyOk data =>
      match filter (fun t => negb (is_ok (parse_point (q_prec q) DFLT t))) (candidate_lines data) with
      | (_ :: _) as bad => {| r_status := 400; r_code := C_INVALID; r_rejected := bad; r_dropped := None; r_calls := [] |}
      | [] =>
        let pts := oks (map (parse_point (q_prec q) DFLT) (candidate_lines data)) in
        let call := map point_obs pts in
        let '(eff, called) := logging_write (q_logger q) (q_writer q) (length pts) in
        let calls := if called then [call] else [] in
        match eff with
        | EOk => {| r_status := 204; r_code := C_NONE; r_rejected := []; r_dropped := None; r_calls := calls |}
        | EPartial d => {| r_status := 422; r_code := C_UNPROCESSABLE; r_rejected := [];
                           r_dropped := Some d; r_calls := calls |}
        | EOther => {| r_status := 500; r_code := C_INTERNAL; r_rejected := []; r_dropped := None; r_calls := calls |}
        end
      end
    end
  end.

(** what the LoggingPointsWriter hands back *)
Lemma logging_write_ok lg w n :
  fst (logging_write lg w n) = EOk <->
  (w = WOk \/ (exists f ok, lg = LWrap f ok) /\ n = O).
Proof.
  unfold logging_write. destruct lg as [|f ok].
  - destruct w; cbn; split; auto; try discriminate; intros [H | [[f [ok H]] _]]; discriminate.
  - destruct n; cbn.
    + split; [intros _; right; split; [eauto | reflexivity] | reflexivity].
    + destruct w; cbn; split; auto; try discriminate; intros [H | [_ H]]; discriminate.
Qed.

Lemma logging_write_partial lg w n d :
  fst (logging_write lg w n) = EPartial d -> w = WPartial d.
Proof.
  unfold logging_write. destruct lg as [|f ok].
  - destruct w; cbn; intros [=]; congruence.
  - destruct n; cbn; [discriminate|]. destruct w; cbn; intros [=]; congruence.
Qed.

Lemma logging_write_called lg w n :
  snd (logging_write lg w n) = false <-> (exists f ok, lg = LWrap f ok) /\ n = O.
Proof.
  unfold logging_write. destruct lg as [|f ok].
  - cbn. split; [discriminate | intros [[f [ok H]] _]; discriminate].
  - destruct n; cbn.
    + split; [intros _; split; [eauto | reflexivity] | reflexivity].
    + split; [discriminate | intros [_ H]; discriminate].
Qed.

Lemma handle_closed_eq script q : handle script q = handle_closed q.
Proof.
  unfold handle, handle_closed. destruct (precheck q); [reflexivity|].
  rewrite read_body_spec. destruct (body_spec (q_limit q) (q_stream q)) as [data| | |]; try reflexivity.
  destruct (errors_name_rejected_lines (q_prec q) DFLT data) as [He Hp].
  destruct (parse_points (q_prec q) DFLT data) as [pts errs]. cbn [fst snd] in He, Hp.
  rewrite <- He, Hp. destruct errs; cbn; reflexivity.
Qed.

Lemma handle_script_irrelevant s1 s2 q : handle s1 q = handle s2 q.
Proof. now rewrite !handle_closed_eq. Qed.

(** status 413 <-> the decoded body is larger than the limit (given the preconditions and a
    stream that ends with EOF) — for every chunking, both EOF styles, any number of stalls *)
Lemma status_413_iff script q :
  precheck q = None -> u_end (q_stream q) = EndEOF ->
  (r_status (handle script q) = 413%N <-> ~ accepted_size q).
Proof.
  intros Hp He. rewrite handle_closed_eq. unfold handle_closed. rewrite Hp.
  destruct (accepted_size_dec q) as [Ha | Ha].
  - split; [|tauto]. intros H. exfalso.
    destruct (body_spec_accepted_cases _ Ha) as [E | E]; rewrite E in H; [|cbn in H; discriminate].
    unfold by_end in H. rewrite He in H.
    destruct (filter _ _); [destruct (logging_write _ _ _) as [[| |] ?]|]; cbn in H; discriminate.
  - rewrite (body_spec_rejected _ Ha). cbn. tauto.
Qed.

Lemma limit_iff script q :
  precheck q = None -> u_end (q_stream q) = EndEOF -> (0 < q_limit q)%Z ->
  (r_status (handle script q) = 413%N <-> (q_limit q < Z.of_nat (length (u_rem (q_stream q))))%Z).
Proof.
  intros Hp He Hl. rewrite (status_413_iff script q Hp He). unfold accepted_size. lia.
Qed.

Lemma too_large_rejected script q :
  precheck q = None -> (0 < q_limit q)%Z ->
  (q_limit q < Z.of_nat (length (u_rem (q_stream q))))%Z ->
  handle script q = resp 413 C_TOO_LARGE.
Proof.
  intros Hp Hl Hgt. rewrite handle_closed_eq. unfold handle_closed. rewrite Hp.
  rewrite body_spec_rejected; [reflexivity|]. unfold accepted_size. lia.
Qed.

(** a stream that ends in an error (corrupt gzip trailer, truncation) or never ends: an error
    status, nothing stored — also when the error surfaces at the limiter's probe *)
Lemma bad_stream_rejected script q :
  precheck q = None ->
  (u_end (q_stream q) <> EndEOF \/ ~ progresses q) -> accepted_size q ->
  (u_end (q_stream q) = EndEOF -> (0 < q_limit q)%Z /\ Z.of_nat (length (u_rem (q_stream q))) = q_limit q) ->
  handle script q = resp 400 C_INVALID \/ handle script q = resp 500 C_INTERNAL.
Proof.
  intros Hp Hbad Ha Hedge. rewrite handle_closed_eq. unfold handle_closed. rewrite Hp.
  unfold body_spec, by_end. destruct (u_end (q_stream q)) eqn:He.
  - destruct Hbad as [Hbad | Hbad]; [congruence|]. destruct (Hedge eq_refl) as [Hl Heq].
    assert (E : Nat.ltb (u_stall (q_stream q)) PROBES = false) by (apply Nat.ltb_ge; unfold progresses in Hbad; lia).
    rewrite E. zif. right; reflexivity.
  - unfold accepted_size in Ha. destruct (Nat.ltb _ _); zif; auto.
  - unfold accepted_size in Ha. destruct (Nat.ltb _ _); zif; auto.
Qed.

Lemma malformed_stores_nothing script q :
  precheck q = None -> u_end (q_stream q) = EndEOF -> accepted_size q -> progresses q ->
  (exists t, In t (candidate_lines (u_rem (q_stream q))) /\ is_ok (parse_point (q_prec q) DFLT t) = false) ->
  handle script q = {| r_status := 400; r_code := C_INVALID; r_rejected := bad_lines q;
                       r_dropped := None; r_calls := [] |}.
Proof.
  intros Hp He Ha Hpr [t [Hin Hbad]]. rewrite handle_closed_eq. unfold handle_closed. rewrite Hp.
  rewrite (body_spec_accepted _ Ha Hpr). unfold by_end. rewrite He. unfold bad_lines.
  destruct (filter _ _) eqn:Hf; [|reflexivity].
  exfalso. assert (Hin' : In t (filter (fun t => negb (is_ok (parse_point (q_prec q) DFLT t)))
                                       (candidate_lines (u_rem (q_stream q))))).
  { apply filter_In. split; [exact Hin | now rewrite Hbad]. }
  rewrite Hf in Hin'. exact Hin'.
Qed.

Lemma filter_nil_forall {A} (f : A -> bool) l : filter f l = [] <-> forall x, In x l -> f x = false.
Proof.
  induction l as [|a l IH]; cbn; [tauto|]. destruct (f a) eqn:E.
  - split; [discriminate|]. intros H. specialize (H a (or_introl eq_refl)). congruence.
  - rewrite IH. split; intros H x; [intros [<- | Hx]; auto | intros Hx; apply H; auto].
Qed.

Definition parsed_points (q : request) : list rawpoint :=
  oks (map (parse_point (q_prec q) DFLT) (candidate_lines (u_rem (q_stream q)))).
Definition wrapped (q : request) : Prop := exists f ok, q_logger q = LWrap f ok.

(** 204 => every check passed, every line parsed and the ENGINE (the underlying writer, behind
    the LoggingPointsWriter if installed) accepted every point in one call - or there was no
    point at all and the wrapper did not bother the engine *)
Lemma ok_only_after_all_stored script q :
  r_status (handle script q) = 204%N ->
  precheck q = None /\ u_end (q_stream q) = EndEOF /\ accepted_size q /\
  (forall t, In t (candidate_lines (u_rem (q_stream q))) -> is_ok (parse_point (q_prec q) DFLT t) = true) /\
  ((q_writer q = WOk /\ r_calls (handle script q) = [all_points q]) \/
   (wrapped q /\ parsed_points q = [] /\ r_calls (handle script q) = [])).
Proof.
  rewrite handle_closed_eq. unfold handle_closed.
  destruct (precheck q) as [r|] eqn:Hp.
  { unfold precheck in Hp. repeat match type of Hp with (if ?b then _ else _) = _ => destruct b end;
      inversion Hp; subst; cbn; discriminate. }
  destruct (accepted_size_dec q) as [Ha | Ha]; [|rewrite (body_spec_rejected _ Ha); cbn; discriminate].
  destruct (body_spec_accepted_cases _ Ha) as [E | E]; rewrite E; [|cbn; discriminate]. unfold by_end.
  destruct (u_end (q_stream q)) eqn:He; try (cbn; discriminate).
  destruct (filter _ _) eqn:Hf; [|cbn; discriminate].
  fold (parsed_points q).
  destruct (logging_write (q_logger q) (q_writer q) (length (parsed_points q))) as [eff called] eqn:Hl.
  destruct eff; cbn; try discriminate. intros _.
  repeat split; auto.
  - intros t Hin. pose proof (proj1 (filter_nil_forall _ _) Hf t Hin) as H. cbn in H. now destruct (is_ok _).
  - pose proof (proj1 (logging_write_ok (q_logger q) (q_writer q) (length (parsed_points q)))) as Hok.
    rewrite Hl in Hok. specialize (Hok eq_refl).
    destruct called eqn:Hc.
    + left. split; [|reflexivity]. destruct Hok as [Hw | [Hwr Hn]]; [exact Hw|].
      exfalso. pose proof (proj2 (logging_write_called (q_logger q) (q_writer q) (length (parsed_points q))) (conj Hwr Hn)) as X.
      rewrite Hl in X. discriminate.
    + right. pose proof (proj1 (logging_write_called (q_logger q) (q_writer q) (length (parsed_points q)))) as X.
      rewrite Hl in X. destruct (X eq_refl) as [Hwr Hn]. split; [exact Hwr|]. split; [|reflexivity].
      apply length_zero_iff_nil. exact Hn.
Qed.

(** a well-formed request of accepted size: the answer is decided by what the
    LoggingPointsWriter hands back *)
Lemma writer_error_reported script q :
  precheck q = None -> u_end (q_stream q) = EndEOF -> accepted_size q -> progresses q ->
  (forall t, In t (candidate_lines (u_rem (q_stream q))) -> is_ok (parse_point (q_prec q) DFLT t) = true) ->
  let '(eff, called) := logging_write (q_logger q) (q_writer q) (length (parsed_points q)) in
  let calls := if called then [all_points q] else [] in
  handle script q =
    match eff with
    | EOk => {| r_status := 204; r_code := C_NONE; r_rejected := []; r_dropped := None; r_calls := calls |}
    | EPartial d => {| r_status := 422; r_code := C_UNPROCESSABLE; r_rejected := []; r_dropped := Some d;
                       r_calls := calls |}
    | EOther => {| r_status := 500; r_code := C_INTERNAL; r_rejected := []; r_dropped := None; r_calls := calls |}
    end.
Proof.
  intros Hp He Ha Hpr Hall. rewrite handle_closed_eq. unfold handle_closed. rewrite Hp.
  rewrite (body_spec_accepted _ Ha Hpr). unfold by_end. rewrite He.
  assert (Hf : filter (fun t => negb (is_ok (parse_point (q_prec q) DFLT t)))
                      (candidate_lines (u_rem (q_stream q))) = []).
  { apply filter_nil_forall. intros t Hin. now rewrite (Hall t Hin). }
  rewrite Hf. fold (parsed_points q). unfold all_points. fold (parsed_points q).
  destruct (logging_write _ _ _) as [[| |] called]; reflexivity.
Qed.

(** with or without the wrapper, whatever its logging does: a partial write is answered 422
    with its dropped count, any other engine error 500, nil 204 (a batch without points behind
    the wrapper never reaches the engine: 204) *)
Lemma writer_error_reported_plain script q :
  precheck q = None -> u_end (q_stream q) = EndEOF -> accepted_size q -> progresses q ->
  (forall t, In t (candidate_lines (u_rem (q_stream q))) -> is_ok (parse_point (q_prec q) DFLT t) = true) ->
  (q_logger q = LNone \/ parsed_points q <> []) ->
  handle script q =
    match q_writer q with
    | WOk => {| r_status := 204; r_code := C_NONE; r_rejected := []; r_dropped := None; r_calls := [all_points q] |}
    | WPartial d => {| r_status := 422; r_code := C_UNPROCESSABLE; r_rejected := []; r_dropped := Some d;
                       r_calls := [all_points q] |}
    | WErr => {| r_status := 500; r_code := C_INTERNAL; r_rejected := []; r_dropped := None; r_calls := [all_points q] |}
    end.
Proof.
  intros Hp He Ha Hpr Hall Hlg. pose proof (writer_error_reported script q Hp He Ha Hpr Hall) as H.
  unfold logging_write in H. destruct Hlg as [Hlg | Hne].
  - rewrite Hlg in H. destruct (q_writer q); exact H.
  - destruct (q_logger q); [destruct (q_writer q); exact H|].
    destruct (parsed_points q) eqn:Hpp; [congruence|]. cbn [length] in H.
    destruct (q_writer q); exact H.
Qed.

Lemma no_store_unless_writer_called script q :
  r_calls (handle script q) <> [] ->
  precheck q = None /\ accepted_size q /\ bad_lines q = [] /\ r_calls (handle script q) = [all_points q] /\
  (r_status (handle script q) = 204%N <-> q_writer q = WOk).
Proof.
  rewrite handle_closed_eq. unfold handle_closed.
  destruct (precheck q) as [r|] eqn:Hp.
  { unfold precheck in Hp. repeat match type of Hp with (if ?b then _ else _) = _ => destruct b end;
      inversion Hp; subst; cbn; congruence. }
  destruct (accepted_size_dec q) as [Ha | Ha]; [|rewrite (body_spec_rejected _ Ha); cbn; congruence].
  destruct (body_spec_accepted_cases _ Ha) as [E | E]; rewrite E; [|cbn; congruence]. unfold by_end, bad_lines.
  destruct (u_end (q_stream q)) eqn:He; try (cbn; congruence).
  destruct (filter _ _) eqn:Hf; [|cbn; congruence].
  fold (parsed_points q).
  destruct (logging_write (q_logger q) (q_writer q) (length (parsed_points q))) as [eff called] eqn:Hl.
  assert (Hcalled : r_calls (match eff with
     | EOk => {| r_status := 204; r_code := C_NONE; r_rejected := []; r_dropped := None;
                 r_calls := if called then [map point_obs (parsed_points q)] else [] |}
     | EPartial d => {| r_status := 422; r_code := C_UNPROCESSABLE; r_rejected := []; r_dropped := Some d;
                        r_calls := if called then [map point_obs (parsed_points q)] else [] |}
     | EOther => {| r_status := 500; r_code := C_INTERNAL; r_rejected := []; r_dropped := None;
                    r_calls := if called then [map point_obs (parsed_points q)] else [] |} end)
     = if called then [map point_obs (parsed_points q)] else []) by (destruct eff; reflexivity).
  rewrite Hcalled. destruct called; [intros _ | congruence].
  repeat split; auto.
  - intro H204. destruct eff; cbn in H204; try discriminate.
    pose proof (proj1 (logging_write_ok (q_logger q) (q_writer q) (length (parsed_points q)))) as Hok.
    rewrite Hl in Hok. destruct (Hok eq_refl) as [Hw | [Hwr Hn]]; [exact Hw|].
    pose proof (proj2 (logging_write_called (q_logger q) (q_writer q) (length (parsed_points q))) (conj Hwr Hn)) as X.
    rewrite Hl in X. discriminate.
  - intro Hw. pose proof (proj2 (logging_write_ok (q_logger q) (q_writer q) (length (parsed_points q))) (or_introl Hw)) as X.
    rewrite Hl in X. cbn in X. subst eff. reflexivity.
Qed.
