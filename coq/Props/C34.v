(** C34 — placeholder while the proofs are being written. *)
From Verif Require Import Base.Prelude Model.C34.
