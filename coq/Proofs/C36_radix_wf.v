(** C36 radix tree — the structural invariant [wf], what it says about the keys of the
    pre-order walk, sortedness of the walk, and [Get] = lookup in the walk. *)
From Verif Require Import Base.Prelude Model.C36_rhh Model.C36_radix Proofs.C36_radix_ord.
From Coq Require Import Sorted.

Scheme rnode_mind := Induction for rnode Sort Prop
  with redges_mind := Induction for redges Sort Prop.
Combined Scheme rnode_redges_ind from rnode_mind, redges_mind.

Fixpoint elabels (es : redges) : list N :=
  match es with ENil => [] | ECons l _ r => l :: elabels r end.

(** [wf pi n]: [pi] is the full path from the root to [n], INCLUDING [n]'s own prefix.
    - a leaf stores exactly the key [pi];
    - the edge labels are strictly ascending;
    - the child below label [l] has a non-empty prefix starting with [l] and is
      well-formed at the extended path.
    Dead nodes (no leaf, no edges — what [DeletePrefix] leaves behind) are allowed. *)
Fixpoint wf (pi : bytes) (n : rnode) {struct n} : Prop :=
  match n with
  | RNode leaf _ es =>
      match leaf with Some (k, _) => k = pi | None => True end /\ wfe pi es
  end
with wfe (pi : bytes) (es : redges) {struct es} : Prop :=
  match es with
  | ENil => True
  | ECons l ch rest =>
      (exists tl, r_prefix ch = l :: tl) /\ wf (pi ++ r_prefix ch) ch
      /\ Forall (fun l' => (l < l')%N) (elabels rest) /\ wfe pi rest
  end.

(** [wf] does not look at the node's own prefix field *)
Lemma wf_prefix_irrel pi leaf p p' es : wf pi (RNode leaf p es) -> wf pi (RNode leaf p' es).
Proof. exact (fun H => H). Qed.

Lemma wf_dead pi p : wf pi (RNode None p ENil).
Proof. simpl; auto. Qed.

(** keys below [pi]; keys below [pi] through an edge whose label satisfies [P] *)
Definition under (pi k : bytes) : Prop := exists r, k = pi ++ r.
Definition ekey (pi : bytes) (P : N -> Prop) (k : bytes) : Prop :=
  exists l r, P l /\ k = pi ++ l :: r.

Lemma ekey_impl pi (P Q : N -> Prop) k : (forall l, P l -> Q l) -> ekey pi P k -> ekey pi Q k.
Proof. intros H (l & r & Hl & ->). exists l, r; auto. Qed.

Lemma walk_keys :
  (forall n pi, wf pi n -> kall (under pi) (walk n)) /\
  (forall es pi, wfe pi es -> kall (ekey pi (fun l => In l (elabels es))) (walk_edges es)).
Proof.
  apply rnode_redges_ind.
  - intros leaf p es IH pi [Hl He]. simpl. apply kall_app.
    + destruct leaf as [[k v]|]; [|constructor]. subst.
      apply kall_cons; [exists []; rewrite app_nil_r; auto | constructor].
    + eapply kall_impl; [|apply IH, He]. intros k (l & r & _ & ->). exists (l :: r); auto.
  - intros pi _. constructor.
  - intros l ch IHc rest IHr pi (Hp & Hc & Hlt & Hr). simpl. apply kall_app.
    + destruct Hp as [tl Hp]. eapply kall_impl; [|apply IHc, Hc].
      intros k [r ->]. rewrite Hp. exists l, (tl ++ r). split; [left; auto|].
      rewrite <- app_assoc. reflexivity.
    + eapply kall_impl; [|apply IHr, Hr].
      intros k (l' & r & I & ->). exists l', r. split; [right; auto|auto].
Qed.

Lemma walk_under n pi : wf pi n -> kall (under pi) (walk n).
Proof. apply walk_keys. Qed.

Lemma walk_edges_keys es pi (Q : N -> Prop) :
  wfe pi es -> Forall Q (elabels es) -> kall (ekey pi Q) (walk_edges es).
Proof.
  intros H F. eapply kall_impl; [|apply walk_keys, H].
  intros k. apply ekey_impl. intros l I. rewrite Forall_forall in F. auto.
Qed.

Lemma walk_edges_any es pi : wfe pi es -> kall (ekey pi (fun _ => True)) (walk_edges es).
Proof. intro H. apply walk_edges_keys; auto. apply Forall_forall; auto. Qed.

(** the child below label [l] *)
Lemma walk_child_keys pi l ch rest :
  wfe pi (ECons l ch rest) -> kall (ekey pi (eq l)) (walk ch).
Proof.
  intros ([tl Hp] & Hc & _). eapply kall_impl; [|apply walk_under, Hc].
  intros k [r ->]. rewrite Hp. exists l, (tl ++ r). split; auto.
  rewrite <- app_assoc. reflexivity.
Qed.

Lemma walk_rest_keys pi l ch rest :
  wfe pi (ECons l ch rest) -> kall (ekey pi (fun l' => (l < l')%N)) (walk_edges rest).
Proof. intros (_ & _ & Hlt & Hr). apply walk_edges_keys; auto. Qed.

(** order / prefix facts about [ekey] *)
Lemma ekey_gt_path pi P k : ekey pi P k -> bytes_ltb pi k = true.
Proof. intros (l & r & _ & ->). apply bytes_ltb_prefix. Qed.

Lemma ekey_neq_path pi P k : ekey pi P k -> k <> pi.
Proof. intros H E. apply ekey_gt_path in H. subst. rewrite bytes_ltb_irrefl in H. discriminate. Qed.

Lemma ekey_gt pi c tl k : ekey pi (fun l => (c < l)%N) k -> bytes_ltb (pi ++ c :: tl) k = true.
Proof. intros (l & r & Hl & ->). apply bytes_ltb_diverge, Hl. Qed.

Lemma ekey_lt pi c tl k : ekey pi (fun l => (l < c)%N) k -> bytes_ltb k (pi ++ c :: tl) = true.
Proof. intros (l & r & Hl & ->). apply bytes_ltb_diverge, Hl. Qed.

Lemma ekey_noprefix pi c tl k : ekey pi (fun l => l <> c) k -> has_prefix k (pi ++ c :: tl) = false.
Proof. intros (l & r & Hl & ->). apply has_prefix_diverge, Hl. Qed.

Lemma ekey_neq pi c tl k : ekey pi (fun l => l <> c) k -> k <> pi ++ c :: tl.
Proof.
  intros H E. apply (ekey_noprefix _ _ tl) in H. subst. rewrite has_prefix_refl in H. discriminate.
Qed.

(** ** the walk of a well-formed node is sorted *)
Lemma walk_sorted_both :
  (forall n pi, wf pi n -> keys_sorted (walk n)) /\
  (forall es pi, wfe pi es -> keys_sorted (walk_edges es)).
Proof.
  apply rnode_redges_ind.
  - intros leaf p es IH pi [Hl He]. simpl.
    destruct leaf as [[k v]|]; simpl; [|apply (IH pi He)]. subst.
    apply keys_sorted_cons; [|apply (IH pi He)].
    eapply kall_impl; [|apply walk_edges_any, He]. intros k. apply ekey_gt_path.
  - intros pi _. apply keys_sorted_nil.
  - intros l ch IHc rest IHr pi W. simpl.
    pose proof (walk_child_keys _ _ _ _ W) as Kc.
    pose proof (walk_rest_keys _ _ _ _ W) as Kr.
    destruct W as (Hp & Hc & Hlt & Hr).
    apply keys_sorted_app; [eapply IHc, Hc | eapply IHr, Hr |].
    intros x y Ix Iy.
    destruct (kall_in _ _ _ Kc Ix) as (l1 & r1 & <- & ->).
    destruct (kall_in _ _ _ Kr Iy) as (l2 & r2 & L2 & ->).
    apply bytes_ltb_diverge, L2.
Qed.

Lemma walk_sorted n pi : wf pi n -> keys_sorted (walk n).
Proof. apply walk_sorted_both. Qed.

(** ** [Get] is the lookup in the walk *)
Lemma get_walk_both :
  (forall n pi search, wf pi n -> get_node n search = smap_get (pi ++ search) (walk n)) /\
  (forall es pi c tl, wfe pi es ->
     get_edges es c (c :: tl) = smap_get (pi ++ c :: tl) (walk_edges es)).
Proof.
  apply rnode_redges_ind.
  - intros leaf p es IH pi search [Hl He].
    destruct search as [|c tl].
    + rewrite app_nil_r. simpl.
      destruct leaf as [[k v]|]; simpl.
      * subst. rewrite bytes_eqb_refl. reflexivity.
      * symmetry. apply smap_get_none.
        eapply kall_impl; [|apply walk_edges_any, He]. intros k. apply ekey_neq_path.
    + cbn [get_node walk]. rewrite smap_get_app, (IH pi c tl He).
      destruct leaf as [[k v]|]; simpl; [|reflexivity]. subst.
      rewrite bytes_ltb_eqb_false by apply bytes_ltb_prefix. reflexivity.
  - intros; reflexivity.
  - intros l ch IHc rest IHr pi c tl W.
    pose proof (walk_child_keys _ _ _ _ W) as Kc.
    pose proof (walk_rest_keys _ _ _ _ W) as Kr.
    destruct W as ([tl0 Hp] & Hc & Hlt & Hr).
    cbn [get_edges walk_edges]. rewrite smap_get_app.
    destruct (N.eqb_spec l c) as [->|NE].
    + assert (Rn : smap_get (pi ++ c :: tl) (walk_edges rest) = None).
      { apply smap_get_none. eapply kall_impl; [|exact Kr].
        intros k H. apply ekey_neq. revert H. apply ekey_impl. intros; lia. }
      rewrite Rn. clear Rn.
      destruct ch as [cl cp ces]. simpl in Hp.
      destruct (has_prefix (c :: tl) cp) eqn:HP.
      * apply has_prefix_spec in HP as [r HP]. rewrite HP, skipn_app_exact.
        rewrite (IHc (pi ++ cp) r Hc), <- app_assoc.
        destruct (smap_get (pi ++ cp ++ r) _); reflexivity.
      * rewrite smap_get_none; [reflexivity|].
        eapply kall_impl; [|apply walk_under, Hc]. simpl.
        intros k [r ->] E. rewrite <- app_assoc in E. apply app_inv_head in E.
        rewrite <- E, has_prefix_app in HP. discriminate.
    + rewrite smap_get_none; [apply IHr, Hr|].
      eapply kall_impl; [|exact Kc].
      intros k H. apply ekey_neq. revert H. apply ekey_impl. intros; congruence.
Qed.

Lemma get_walk n pi search : wf pi n -> get_node n search = smap_get (pi ++ search) (walk n).
Proof. apply get_walk_both. Qed.
