(** C36 — Index and ID-set data structures behave like their abstract models.

    Four structures, each with its own mirror/specification model:
      [Model/C36_rhh.v]    pkg/rhh/rhh.go      robin-hood hash map        (mirror)
      [Model/C36_bloom.v]  pkg/bloom/bloom.go  bloom filter               (mirror)
      [Model/C36_radix.v]  pkg/radix/tree.go   radix tree                 (mirror)
      [Model/C36_idset.v]  tsdb/series_set.go  SeriesIDSet over roaring   (specification only)
    This file only bundles them into the correspondence [case] type: one constructor per
    structure, holding the operation history and what the real structure returned.

    No proofs in this file. *)
From Verif Require Import Base.Prelude.
From Verif Require Export Model.C36_rhh Model.C36_bloom Model.C36_radix Model.C36_idset.

Inductive case :=
| CRhh (cap lf : N) (tab : list (bytes * N)) (ops : list hop)
       (obs : list (N * Z * N)) (keys : list bytes) (gets : list N)
| CBloom (m k : N) (tab : list (bytes * (N * N))) (ops : list bop) (obs : list bool) (bits : list N)
| CRadix (ops : list rop) (obs : list robs) (wlk : list (bytes * Z))
| CIdset (ops : list sop) (obs : list (list N)) (fin : list (list N)).

Definition check (c : case) : verdict :=
  match c with
  | CRhh cap lf tab ops obs keys gets => check_rhh cap lf tab ops obs keys gets
  | CBloom m k tab ops obs bits => check_bloom m k tab ops obs bits
  | CRadix ops obs wlk => check_radix ops obs wlk
  | CIdset ops obs fin => check_idset ops obs fin
  end.
