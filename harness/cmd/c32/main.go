// C32 driver: the REAL http.WriteHandler (http.NewWriteHandler(log, backend, WithMaxBatchSizeBytes))
// behind httptest, with fake Organization/Bucket services and a recording PointsWriter scripted
// to succeed / partially fail / fail.  Request bodies are generated around the size limit
// (limit-1, limit, limit+1, measured after gzip decoding), with 0-3 malformed lines at random
// positions, plain and gzip, delivered by a scripted io.ReadCloser (any chunking; EOF together
// with the last bytes or on a later call, possibly after (0, nil) answers), plus a few requests through a real httptest.Server
// (Content-Length, chunked, chunked with a late terminating chunk).
// Observables: status code, error code, line texts named in the error, dropped=<n> of the
// message, and the points (series key, time) of every PointsWriter.WritePoints call.
package main

import (
	"bufio"
	"bytes"
	"compress/gzip"
	"context"
	"encoding/json"
	"fmt"
	"io"
	"net"
	"net/http"
	"net/http/httptest"
	"net/url"
	"regexp"
	"strconv"
	"strings"
	"time"

	influxdb "github.com/influxdata/influxdb/v2"
	pcontext "github.com/influxdata/influxdb/v2/context"
	ihttp "github.com/influxdata/influxdb/v2/http"
	"github.com/influxdata/influxdb/v2/http/metric"
	"github.com/influxdata/influxdb/v2/kit/platform"
	errors2 "github.com/influxdata/influxdb/v2/kit/platform/errors"
	kithttp "github.com/influxdata/influxdb/v2/kit/transport/http"
	"github.com/influxdata/influxdb/v2/mock"
	"github.com/influxdata/influxdb/v2/models"
	"github.com/influxdata/influxdb/v2/storage"
	"github.com/influxdata/influxdb/v2/tsdb"
	"go.uber.org/zap"
	"verifh/vh"
)

// hung is set when the handler did not answer: a definitive failure; generation stops.
var hung bool

type jpoint struct {
	Key  string `json:"key"`
	Time int64  `json:"time"`
}
type jcase struct {
	Kind        string `json:"kind"`
	Transport   string `json:"transport"` // direct | server-cl | server-chunked | server-chunked-late
	Auth        bool   `json:"auth"`
	Precision   string `json:"precision"`
	BucketParam bool   `json:"bucket_param"`
	Encoding    string `json:"encoding"`   // "" | gzip | x-gzip
	GzipFault   string `json:"gzip_fault"` // "" | header | checksum | truncated
	OrgFound    bool   `json:"org_found"`
	BucketFound bool   `json:"bucket_found"`
	Perm        bool   `json:"perm"`
	Limit       int64  `json:"limit"`
	Body        string `json:"body"` // decoded body
	Eager       bool   `json:"eager"`
	Chunks      []int  `json:"chunks"`
	Stalls      int    `json:"stalls"` // (0, nil) answers of the scripted reader before its EOF (plain direct only)
	Writer      int    `json:"writer"` // 0 ok, 1 partial, 2 other error
	Logger      bool   `json:"logger"`  // the real storage.LoggingPointsWriter sits between the handler and the recording writer
	Finder      int    `json:"finder"`  // its BucketFinder: 0 finds the log bucket, 1 finds none, 2 fails
	LogOK       bool   `json:"log_ok"`  // the write of the write_errors point succeeds
	LogWrites   int    `json:"impl_log_writes"`
	Dropped     int    `json:"dropped"`
	// observed
	Status     int        `json:"impl_status"`
	Code       string     `json:"impl_code"`
	Message    string     `json:"impl_message"`
	Rejected   []string   `json:"impl_rejected"`
	DroppedObs *uint64    `json:"impl_dropped"`
	Calls      [][]jpoint `json:"impl_calls"`
}

const dataBucket, logBucket = platform.ID(2), platform.ID(3)

type recorder struct {
	calls     [][]jpoint // writes to the data bucket
	err       error
	logWrites int // writes to the log bucket (the write_errors point)
	logErr    error
}

type finder struct{ mode int }

func (f finder) FindBuckets(ctx context.Context, flt influxdb.BucketFilter, _ ...influxdb.FindOptions) ([]*influxdb.Bucket, int, error) {
	switch f.mode {
	case 0:
		return []*influxdb.Bucket{{ID: logBucket, OrgID: 1, Name: "_monitoring"}}, 1, nil
	case 1:
		return nil, 0, nil
	}
	return nil, 0, &errors2.Error{Code: errors2.EInternal, Msg: "bucket store unavailable"}
}

func (r *recorder) WritePoints(ctx context.Context, o, b platform.ID, pts []models.Point) error {
	if b == logBucket {
		r.logWrites++
		return r.logErr
	}
	s := []jpoint{}
	for _, p := range pts {
		s = append(s, jpoint{string(p.Key()), p.UnixNano()})
	}
	r.calls = append(r.calls, s)
	return r.err
}

// scripted is the request body: delivers at most chunks[i] bytes on the i-th call; EOF with the
// last bytes (eager, only without stalls) or on a later call, after `stalls` (0, nil) answers.
type scripted struct {
	data   []byte
	chunks []int
	eager  bool
	stalls int
}

func (s *scripted) Read(p []byte) (int, error) {
	if len(s.data) == 0 {
		if s.stalls > 0 {
			s.stalls--
			return 0, nil
		}
		return 0, io.EOF
	}
	if len(p) == 0 {
		return 0, nil
	}
	k := len(p)
	if len(s.chunks) > 0 {
		if s.chunks[0] < k {
			k = s.chunks[0]
		}
		s.chunks = s.chunks[1:]
	}
	if k < 1 {
		k = 1
	}
	if k > len(s.data) {
		k = len(s.data)
	}
	copy(p, s.data[:k])
	s.data = s.data[k:]
	if len(s.data) == 0 && s.eager && s.stalls == 0 {
		return k, io.EOF
	}
	return k, nil
}
func (s *scripted) Close() error { return nil }

func gz(b []byte) []byte {
	var buf bytes.Buffer
	w := gzip.NewWriter(&buf)
	w.Write(b)
	w.Close()
	return buf.Bytes()
}

var droppedRe = regexp.MustCompile(`dropped=(\d+)`)

func splitErr(msg string) (texts []string, ok bool) {
	const pre = "unable to parse '"
	for len(msg) > 0 {
		if !strings.HasPrefix(msg, pre) {
			return nil, false
		}
		msg = msg[len(pre):]
		i := strings.IndexByte(msg, '\'')
		if i < 0 || !strings.HasPrefix(msg[i:], "': ") {
			return nil, false
		}
		texts = append(texts, msg[:i])
		msg = msg[i+3:]
		j := strings.Index(msg, "\n"+pre)
		if j < 0 {
			msg = ""
		} else {
			msg = msg[j+1:]
		}
	}
	return texts, true
}

func wire(c *jcase) []byte {
	body := []byte(c.Body)
	if c.Encoding == "" {
		return body
	}
	g := gz(body)
	switch c.GzipFault {
	case "header":
		g[0] ^= 0xff
	case "checksum":
		g[len(g)-6] ^= 0x55 // CRC32 field of the trailer
	case "truncated":
		g = g[:len(g)-4]
	}
	return g
}

func handler(c *jcase, pw *recorder) http.Handler {
	orgs := mock.NewOrganizationService()
	orgs.FindOrganizationF = func(ctx context.Context, f influxdb.OrganizationFilter) (*influxdb.Organization, error) {
		if !c.OrgFound {
			return nil, &errors2.Error{Code: errors2.ENotFound, Msg: "organization not found"}
		}
		return &influxdb.Organization{ID: 1}, nil
	}
	buckets := mock.NewBucketService()
	buckets.FindBucketFn = func(context.Context, influxdb.BucketFilter) (*influxdb.Bucket, error) {
		if !c.BucketFound {
			return nil, &errors2.Error{Code: errors2.ENotFound, Msg: "bucket not found"}
		}
		return &influxdb.Bucket{ID: 2, OrgID: 1}, nil
	}
	log := zap.NewNop()
	b := &ihttp.APIBackend{HTTPErrorHandler: kithttp.NewErrorHandler(log), Logger: log, OrganizationService: orgs,
		BucketService: buckets, PointsWriter: pw, WriteEventRecorder: &metric.NopEventRecorder{}}
	if c.Logger {
		b.PointsWriter = &storage.LoggingPointsWriter{Underlying: pw, BucketFinder: finder{c.Finder}, LogBucketName: "_monitoring"}
	}
	h := ihttp.NewWriteHandler(log, ihttp.NewWriteBackend(log, b), ihttp.WithMaxBatchSizeBytes(c.Limit))
	return http.HandlerFunc(func(w http.ResponseWriter, r *http.Request) {
		if c.Auth {
			oid, bid := platform.ID(1), platform.ID(2)
			if !c.Perm {
				bid = platform.ID(9)
			}
			a := &influxdb.Authorization{OrgID: 1, Status: influxdb.Active, Permissions: []influxdb.Permission{{Action: influxdb.WriteAction,
				Resource: influxdb.Resource{Type: influxdb.BucketsResourceType, OrgID: &oid, ID: &bid}}}}
			r = r.WithContext(pcontext.SetAuthorizer(r.Context(), a))
		}
		h.ServeHTTP(w, r)
	})
}

func query(c *jcase) string {
	v := url.Values{}
	v.Set("org", "o")
	if c.BucketParam {
		v.Set("bucket", "b")
	}
	if c.Precision != "" {
		v.Set("precision", c.Precision)
	}
	return v.Encode()
}

func exec(c *jcase) (status int, respBody []byte, calls [][]jpoint, fail string) {
	pw := &recorder{}
	switch c.Writer {
	case 1:
		pw.err = tsdb.PartialWriteError{Reason: "field type conflict", Dropped: c.Dropped}
	case 2:
		pw.err = fmt.Errorf("engine closed")
	}
	if !c.LogOK {
		pw.logErr = fmt.Errorf("log bucket write failed")
	}
	h := handler(c, pw)
	data := wire(c)
	defer func() { c.LogWrites = pw.logWrites }()
	if c.Transport == "direct" {
		r := httptest.NewRequest("POST", "http://localhost:8086/api/v2/write?"+query(c), &scripted{data: data, chunks: append([]int{}, c.Chunks...), eager: c.Eager, stalls: c.Stalls})
		if c.Encoding != "" {
			r.Header.Set("Content-Encoding", c.Encoding)
		}
		w := httptest.NewRecorder()
		done := make(chan string, 1)
		go func() { done <- vh.Guard(func() { h.ServeHTTP(w, r) }) }()
		select {
		case p := <-done:
			if p != "" {
				return 0, nil, pw.calls, "panic: " + p
			}
		case <-time.After(10 * time.Second):
			hung = true
			return 0, nil, nil, "hang: the handler did not answer within 10s"
		}
		return w.Code, w.Body.Bytes(), pw.calls, ""
	}
	// a real HTTP server and a raw client connection
	srv := httptest.NewServer(h)
	defer func() { go srv.Close() }() // Close blocks while a handler is still running
	conn, err := net.Dial("tcp", srv.Listener.Addr().String())
	if err != nil {
		return 0, nil, nil, "dial: " + err.Error()
	}
	defer conn.Close()
	conn.SetDeadline(time.Now().Add(10 * time.Second))
	var req bytes.Buffer
	fmt.Fprintf(&req, "POST /api/v2/write?%s HTTP/1.1\r\nHost: x\r\nConnection: close\r\n", query(c))
	if c.Encoding != "" {
		fmt.Fprintf(&req, "Content-Encoding: %s\r\n", c.Encoding)
	}
	switch c.Transport {
	case "server-cl":
		fmt.Fprintf(&req, "Content-Length: %d\r\n\r\n", len(data))
		req.Write(data)
		conn.Write(req.Bytes())
	default:
		fmt.Fprintf(&req, "Transfer-Encoding: chunked\r\n\r\n")
		if len(data) > 0 {
			fmt.Fprintf(&req, "%x\r\n", len(data))
			req.Write(data)
			req.WriteString("\r\n")
		}
		if c.Transport == "server-chunked-late" {
			conn.Write(req.Bytes())
			time.Sleep(60 * time.Millisecond)
			conn.Write([]byte("0\r\n\r\n"))
		} else {
			req.WriteString("0\r\n\r\n")
			conn.Write(req.Bytes())
		}
	}
	resp, err := http.ReadResponse(bufio.NewReader(conn), nil)
	if err != nil {
		if ne, ok := err.(net.Error); ok && ne.Timeout() {
			hung = true
			return 0, nil, nil, "hang: the server did not answer within 10s"
		}
		return 0, nil, nil, "read response: " + err.Error()
	}
	defer resp.Body.Close()
	bb, _ := io.ReadAll(resp.Body)
	return resp.StatusCode, bb, pw.calls, ""
}

var codes = map[string]uint64{"": 0, errors2.EInvalid: 1, errors2.ETooLarge: 2, errors2.EUnprocessableEntity: 3,
	errors2.EInternal: 4, errors2.ENotFound: 5, errors2.EForbidden: 6}
var precCode = map[string]uint64{"": 0, "ns": 0, "us": 2, "ms": 4, "s": 5}

// segs renders bytes as a run-length compressed Gallina [list seg].
func segs(b []byte) string {
	var out []string
	var lit []byte
	flush := func() {
		if len(lit) > 0 {
			out = append(out, "L "+vh.Bytes(lit))
			lit = nil
		}
	}
	for i := 0; i < len(b); {
		j := i
		for j < len(b) && b[j] == b[i] {
			j++
		}
		if j-i >= 8 {
			flush()
			out = append(out, fmt.Sprintf("R %d%%N %d%%N", j-i, b[i]))
		} else {
			lit = append(lit, b[i:j]...)
		}
		i = j
	}
	flush()
	return vh.List(out)
}

func run(w *vh.W, c *jcase) {
	idx := w.Len()
	status, rb, calls, fail := exec(c)
	if fail != "" {
		w.Fail(idx, fail, "")
	}
	c.Status, c.Calls = status, calls
	c.Code, c.Message, c.Rejected, c.DroppedObs = "", "", nil, nil
	if status != 204 && len(rb) > 0 {
		var e struct {
			Code    string `json:"code"`
			Message string `json:"message"`
		}
		if err := json.Unmarshal(rb, &e); err != nil {
			w.Fail(idx, "error response body is not JSON: "+string(rb), "")
		}
		c.Code, c.Message = e.Code, e.Message
		if strings.HasPrefix(e.Message, "unable to parse '") {
			t, ok := splitErr(e.Message)
			if !ok {
				w.Fail(idx, "parse error message not of the form unable to parse '<line>': <reason> per line: "+e.Message, "")
			}
			c.Rejected = t
		}
		if m := droppedRe.FindStringSubmatch(e.Message); m != nil {
			d, _ := strconv.ParseUint(m[1], 10, 64)
			c.DroppedObs = &d
		}
	} else if status == 204 && len(rb) > 0 {
		w.Fail(idx, "204 with a body: "+string(rb), "")
	}
	code, ok := codes[c.Code]
	if !ok {
		code = 9
	}
	_, precValid := precCode[c.Precision]
	eager := "None"
	if c.Transport == "direct" && c.Encoding == "" {
		eager = vh.Some(vh.Bool(c.Eager))
	}
	endc := map[string]uint64{"": 0, "header": 0, "checksum": 1, "truncated": 2}[c.GzipFault]
	var script []string
	if c.Transport == "direct" && c.Encoding == "" {
		for _, k := range c.Chunks {
			if k < 1 {
				k = 1
			}
			script = append(script, vh.N(uint64(k-1)))
		}
	}
	var rej []string
	for _, t := range c.Rejected {
		rej = append(rej, segs([]byte(t)))
	}
	var callTerms []string
	for _, call := range calls {
		var pts []string
		for _, p := range call {
			pts = append(pts, vh.Pair(segs([]byte(p.Key)), vh.Z(p.Time)))
		}
		callTerms = append(callTerms, vh.List(pts))
	}
	logger := "None"
	if c.Logger {
		logger = vh.Some(vh.Pair(vh.N(uint64(c.Finder)), vh.Bool(c.LogOK)))
	}
	t := fmt.Sprintf("{| c_auth := %s; c_prec_valid := %s; c_bucket_param := %s; c_gzip_header := %s; c_org_found := %s; c_bucket_found := %s; c_perm := %s; "+
		"c_prec := %s; c_limit := %s; c_body := %s; c_end := %s; c_eager := %s; c_stall := %s; c_script := %s; c_writer := %s; c_wdropped := %s; c_logger := %s; "+
		"o_status := %s; o_code := %s; o_rejected := %s; o_dropped := %s; o_calls := %s |}",
		vh.Bool(c.Auth), vh.Bool(precValid), vh.Bool(c.BucketParam), vh.Bool(c.GzipFault != "header"), vh.Bool(c.OrgFound), vh.Bool(c.BucketFound), vh.Bool(c.Perm),
		vh.N(precCode[c.Precision]), vh.Z(c.Limit), segs([]byte(c.Body)), vh.N(endc), eager, vh.N(uint64(c.Stalls)), vh.List(script), vh.N(uint64(c.Writer)), vh.N(uint64(c.Dropped)), logger,
		vh.N(uint64(status)), vh.N(code), vh.List(rej), vh.OptN(c.DroppedObs), vh.List(callTerms))
	preOK := c.Auth && precValid && c.BucketParam && c.GzipFault != "header" && c.OrgFound && c.BucketFound && c.Perm
	n := int64(len(c.Body))
	sig := "" // the former finding limit-exact-body-rejected is fixed (commit ea653b404e): nothing is tolerated for it
	// (the former finding logging-writer-loses-dropped-count is fixed too: failing logging attempts of the
	// LoggingPointsWriter are still generated, nothing is tolerated for them)
	delta := "nolimit"
	if c.Limit > 0 {
		switch d := n - c.Limit; {
		case d < -1:
			delta = "under"
		case d == -1:
			delta = "limit-1"
		case d == 0:
			delta = "limit"
		case d == 1:
			delta = "limit+1"
		default:
			delta = "over"
		}
	}
	nontrivial := preOK && (delta == "limit-1" || delta == "limit" || delta == "limit+1" || len(c.Rejected) > 0 || c.Writer != 0)
	cc := *c // the caller may reuse its variable
	w.Add(t, &cc, nontrivial, sig)
	w.Count("status", fmt.Sprint(status))
	w.Count("size_vs_limit", delta)
	w.Count("transport", c.Transport+"/"+c.Encoding)
	w.Count("rejected_lines", fmt.Sprint(len(c.Rejected)))
	w.Count("writer", fmt.Sprint(c.Writer))
	w.Count("stalls", fmt.Sprint(c.Stalls))
	if c.Logger {
		w.Count("logger", fmt.Sprintf("finder=%d logok=%v writer=%d", c.Finder, c.LogOK, c.Writer))
	} else {
		w.Count("logger", "none")
	}
	w.Count("kind", c.Kind)
}

var validT = []string{"m%d,t=a f=%di %d", "cpu,host=h%d,region=eu v=%d.5,w=\"s\" %d", "m%d f=t,g=%du %d", "disk,a=1,b=%d free=%di,used=2i %d"}
var badLines = []string{"bad", ",x f=1", "m f=", "m,t f=1", "m f=1 12x", "m f=1i 99999999999999999999", "m,t=a,t=b f=1", "m f=\"open", "m,=v f=1", "m f=1 2 3"}

func genBody(r interface{ IntN(int) int }, nbad int, big bool) string {
	nl := 1 + r.IntN(5)
	var lines []string
	for i := 0; i < nl; i++ {
		switch r.IntN(12) {
		case 0:
			lines = append(lines, "# comment")
		case 1:
			lines = append(lines, "")
		case 2:
			lines = append(lines, fmt.Sprintf("m%d f=%d", r.IntN(3), r.IntN(9))) // no timestamp: time.Now()
		default:
			ts := int64(r.IntN(2000)) - 500
			if r.IntN(4) == 0 {
				ts = int64(r.IntN(1 << 30))
			}
			lines = append(lines, fmt.Sprintf(validT[r.IntN(len(validT))], r.IntN(3), r.IntN(100), ts))
		}
	}
	for i := 0; i < nbad; i++ {
		p := r.IntN(len(lines) + 1)
		lines = append(lines[:p], append([]string{badLines[r.IntN(len(badLines))]}, lines[p:]...)...)
	}
	if big { // cross the 512-byte first buffer of io.ReadAll and its first growth steps
		target := []int{500, 511, 512, 513, 700, 895, 896, 897, 1024, 1300}[r.IntN(10)]
		p := r.IntN(len(lines) + 1)
		cur := len(strings.Join(lines, "\n")) + 1
		if pad := target - cur - 2; pad > 0 {
			lines = append(lines[:p], append([]string{"#" + strings.Repeat("x", pad)}, lines[p:]...)...)
		}
	}
	body := strings.Join(lines, "\n")
	if r.IntN(3) != 0 {
		body += "\n"
	}
	return body
}

func base(kind string) jcase {
	return jcase{Kind: kind, Transport: "direct", Auth: true, BucketParam: true, OrgFound: true, BucketFound: true, Perm: true, LogOK: true}
}

func main() {
	w := vh.New("C32", "From Verif Require Import Base.Prelude Model.C11 Model.C32.", "case", "check")
	w.Rule = "requests to the real http.WriteHandler: body of 1-6 generated lines (valid templates with explicit or missing timestamps, comments, blanks) with 0-3 malformed lines inserted at random positions, sometimes padded to 500-1300 bytes; limit = |decoded body| + d with d in {-1,0,+1} (60%), no limit, or far; plain / gzip / x-gzip (with corrupt header, checksum or truncation in a separate stream); scripted body reader with random chunking and eager or late EOF; writer ok / partial(dropped) / error; a failing precondition (authorizer, precision, bucket parameter, org, bucket, permission) in 1 of 10; hand-picked cases first, incl. real-server transports. Non-trivial: preconditions hold and (size within 1 of the limit, or a line is rejected, or the writer fails). Distinct: distinct Gallina terms."
	var rc jcase
	if w.ReplayCase(&rc) {
		run(w, &rc)
		w.Finish()
		return
	}
	r := w.Rng
	three := "m,t=a f=1i 10\nm,t=b f=2i 20\nm,t=c f=3i 30\n" // 42 bytes
	// ---- hand-picked cases
	for _, lim := range []int64{41, 42, 43, 0} {
		for _, eager := range []bool{false, true} {
			c := base("corpus-limit")
			c.Body, c.Limit, c.Eager = three, lim, eager
			run(w, &c)
			c = base("corpus-limit-chunked")
			c.Body, c.Limit, c.Eager, c.Chunks = three, lim, eager, []int{1, 40, 1, 1}
			run(w, &c)
		}
		c := base("corpus-limit-gzip")
		c.Body, c.Limit, c.Encoding = three, lim, "gzip"
		run(w, &c)
		for _, tr := range []string{"server-cl", "server-chunked", "server-chunked-late"} {
			c := base("corpus-limit-" + tr)
			c.Body, c.Limit, c.Transport = three, lim, tr
			run(w, &c)
		}
	}
	{
		c := base("corpus-malformed")
		c.Body = "m f=1 1\nbad\nm f=2 2\n,x f=1\n"
		run(w, &c)
		c = base("corpus-partial")
		c.Body, c.Writer, c.Dropped = three, 1, 2
		run(w, &c)
		c = base("corpus-writer-error")
		c.Body, c.Writer = three, 2
		run(w, &c)
		c = base("corpus-empty")
		run(w, &c)
		c = base("corpus-empty-limit")
		c.Limit = 1
		run(w, &c)
		for _, f := range []string{"header", "checksum", "truncated"} {
			c = base("corpus-gzip-" + f)
			c.Body, c.Encoding, c.GzipFault = three, "gzip", f
			run(w, &c)
		}
		for _, st := range []int{1, 99, 100} { // exact limit, late EOF after stalls: 100 -> io.ErrNoProgress at the probe
			c = base("corpus-limit-stalls")
			c.Body, c.Limit, c.Stalls = three, 42, st
			run(w, &c)
			c = base("corpus-under-limit-stalls")
			c.Body, c.Limit, c.Stalls = three, 43, st
			run(w, &c)
		}
		c = base("corpus-limit-gzip-checksum") // the trailer error surfaces at the probe: 400, not 413
		c.Body, c.Limit, c.Encoding, c.GzipFault = three, 42, "gzip", "checksum"
		run(w, &c)
		for _, wr := range []int{0, 1, 2} { // the real LoggingPointsWriter: log bucket found / missing / finder error, log write ok / failing
			for _, f := range []int{0, 1, 2} {
				for _, ok := range []bool{true, false} {
					c = base("corpus-logging-writer")
					c.Body, c.Writer, c.Dropped, c.Logger, c.Finder, c.LogOK = three, wr, 2, true, f, ok
					run(w, &c)
				}
			}
		}
		c = base("corpus-logging-writer-empty") // an empty batch never reaches the engine
		c.Body, c.Writer, c.Dropped, c.Logger = "# only a comment\n", 1, 2, true
		run(w, &c)
		c = base("corpus-malformed-over-limit")
		c.Body, c.Limit = "bad\n"+three, 20
		run(w, &c)
	}
	// ---- generated
	for w.Len() < w.N && !hung {
		c := base("gen")
		nbad := 0
		if r.IntN(3) == 0 {
			nbad = 1 + r.IntN(3)
		}
		c.Body = genBody(r, nbad, r.IntN(6) == 0)
		n := int64(len(c.Body))
		switch x := r.IntN(10); {
		case x < 6:
			c.Limit = n + int64(r.IntN(3)) - 1
		case x < 7:
			c.Limit = 0
		case x < 8:
			c.Limit = 1 + int64(r.IntN(int(n)+2))
		default:
			c.Limit = n + 2 + int64(r.IntN(5000))
		}
		c.Precision = []string{"", "ns", "us", "ms", "s"}[r.IntN(5)]
		switch r.IntN(5) {
		case 0:
			c.Encoding = "gzip"
		case 1:
			c.Encoding = []string{"gzip", "x-gzip"}[r.IntN(2)]
			if r.IntN(3) == 0 {
				c.GzipFault = []string{"header", "checksum", "truncated"}[r.IntN(3)]
				c.Kind = "gen-gzip-fault"
				if c.GzipFault == "truncated" && c.Limit > 0 && c.Limit <= n {
					c.Limit = n + 1 + int64(r.IntN(10)) // how much a truncated stream still yields is not modelled
				}
			}
		}
		c.Eager = r.IntN(2) == 0
		if c.Encoding == "" && r.IntN(6) == 0 {
			c.Stalls = []int{1, 3, 99, 100, 101, 150}[r.IntN(6)]
		}
		for k := r.IntN(5); k > 0; k-- {
			c.Chunks = append(c.Chunks, 1+r.IntN(int(n)+2))
		}
		if r.IntN(4) == 0 {
			c.Chunks = append(c.Chunks, max(1, int(n)-1), 1, 1)
		}
		switch r.IntN(6) {
		case 0:
			c.Writer, c.Dropped = 1, r.IntN(5)
		case 1:
			c.Writer = 2
		}
		if r.IntN(5) < 2 { // the launcher's wrapper in front of the engine
			c.Logger = true
			c.Finder = []int{0, 0, 0, 1, 2}[r.IntN(5)]
			c.LogOK = r.IntN(4) != 0
			if r.IntN(2) == 0 && c.Writer == 0 {
				c.Writer, c.Dropped = 1+r.IntN(2), 1+r.IntN(4)
			}
		}
		if r.IntN(10) == 0 {
			c.Kind = "gen-precondition"
			switch r.IntN(6) {
			case 0:
				c.Auth = false
			case 1:
				c.Precision = []string{"h", "n", "u", "m", "x"}[r.IntN(5)]
			case 2:
				c.BucketParam = false
			case 3:
				c.OrgFound = false
			case 4:
				c.BucketFound = false
			case 5:
				c.Perm = false
			}
			if r.IntN(3) == 0 {
				c.BucketFound = r.IntN(2) == 0
				c.Perm = r.IntN(2) == 0
			}
		}
		if r.IntN(40) == 0 && c.Encoding == "" {
			c.Stalls = 0
			c.Transport = []string{"server-cl", "server-chunked"}[r.IntN(2)]
			c.Chunks = nil
		}
		run(w, &c)
	}
	w.Finish()
}
