(** C06 — part 3: the FULL statement on a finite family of small layouts, by exhaustive evaluation
    of the mirror against the oracle inside Coq (the bound is in the statement).

    [layouts1 D v]: every way to choose a subset of the timestamps {0..D-1} and cut it into
    consecutive blocks (each timestamp is absent / continues the current block / starts a new
    block), all values [v] (so the file a value came from is visible).
    [small_two]: two files over {0..3}, at most ONE of them with one tombstone range [a,b], 0<=a<=b<=3.
    [small_three]: three files over {0..2}, no tombstones. *)
From Coq Require Import ZifyBool.
From Verif Require Import Base.Prelude Model.C37 Proofs.C37 Model.C06.
Local Open Scope Z_scope.

Fixpoint codes (d : nat) : list (list nat) :=
  match d with O => [[]] | S d' => flat_map (fun c => [0%nat :: c; 1%nat :: c; 2%nat :: c]) (codes d') end.

Definition flush (cb : arr Z) (acc : list (arr Z)) := match cb with [] => acc | _ => rev cb :: acc end.
Fixpoint build (v : Z) (t : Z) (cs : list nat) (cb : arr Z) (acc : list (arr Z)) : list (arr Z) :=
  match cs with
  | [] => rev (flush cb acc)
  | c :: r => match c with
              | O => build v (t + 1) r cb acc
              | S O => build v (t + 1) r ((t, v) :: cb) acc
              | _ => build v (t + 1) r [(t, v)] (flush cb acc)
              end
  end.
(** "continue" is only meaningful right after a present timestamp... it also may follow a gap;
    what is excluded is only "continue" before anything is present (same layout as "start"). *)
Fixpoint canon (started : bool) (cs : list nat) : bool :=
  match cs with
  | [] => true
  | O :: r => canon started r
  | S O :: r => started && canon true r
  | _ :: r => canon true r
  end.
Definition layouts1 (D : nat) (v : Z) : list (list (arr Z)) :=
  map (fun c => build v 0 c [] []) (filter (canon false) (codes D)).

Definition mkblock (d : arr Z) : block Z := {| b_min := min_time d; b_max := max_time d; b_data := d |}.
Definition mkfile (D : Z) (bs : list (arr Z)) (ts : list (Z * Z)) : tfile Z :=
  {| f_blocks := map mkblock bs; f_tombs := ts; f_tmin := 0; f_tmax := D |}.

Definition ranges (D : nat) : list (Z * Z) :=
  flat_map (fun a => map (fun b => (Z.of_nat a, Z.of_nat a + Z.of_nat b)) (seq 0 (D - a))) (seq 0 D).

Definition small_two : list (list (tfile Z)) :=
  let tss := [] :: map (fun r => [r]) (ranges 4) in
  flat_map (fun a => flat_map (fun b =>
     map (fun ta => [mkfile 4 a ta; mkfile 4 b []]) tss ++
     map (fun tb => [mkfile 4 a []; mkfile 4 b tb]) (tl tss)) (layouts1 4 2)) (layouts1 4 1).

Definition small_three : list (list (tfile Z)) :=
  flat_map (fun a => flat_map (fun b => map (fun c =>
     [mkfile 3 a []; mkfile 3 b []; mkfile 3 c []]) (layouts1 3 3)) (layouts1 3 2)) (layouts1 3 1).

Definition small_seeks : list Z := [-1; 0; 1; 2; 3; 4].

Definition check_q (fs : list (tfile Z)) (t : Z) (asc : bool) : bool :=
  let want := live_points_newest_wins fs t asc in
  match run_cursor arr_merge fs t asc, run_cursor vals_merge fs t asc with
  | Some a, Some b => arr_eqb (flatten asc a) want && list_eqb arr_eqb a b
  | _, _ => false
  end.
Definition check_fs (fs : list (tfile Z)) : bool :=
  forallb (fun t => check_q fs t true && check_q fs t false) small_seeks.

Lemma small_two_checked : forallb check_fs small_two = true.
Proof. vm_cast_no_check (eq_refl true). Qed.
Lemma small_three_checked : forallb check_fs small_three = true.
Proof. vm_cast_no_check (eq_refl true). Qed.

Lemma pt_eqb_eq p q : pt_eqb p q = true <-> p = q.
Proof. destruct p, q. unfold pt_eqb; cbn. split; [intro H; f_equal; lia|intros [= -> ->]; lia]. Qed.
Lemma arr_eqb_eq a b : arr_eqb a b = true <-> a = b.
Proof. apply list_eqb_spec, pt_eqb_eq. Qed.
Lemma blocks_eqb_eq a b : list_eqb arr_eqb a b = true <-> a = b.
Proof. apply list_eqb_spec, arr_eqb_eq. Qed.

Lemma small_layouts_spec fs t asc :
  In fs small_two \/ In fs small_three -> -1 <= t <= 4 ->
  exists bs, run_cursor arr_merge fs t asc = Some bs /\ run_cursor vals_merge fs t asc = Some bs /\
             flatten asc bs = live_points_newest_wins fs t asc.
Proof.
  intros Hfs Ht.
  assert (Hc : check_fs fs = true).
  { destruct Hfs as [H|H].
    - pose proof small_two_checked as Hall. rewrite forallb_forall in Hall. auto.
    - pose proof small_three_checked as Hall. rewrite forallb_forall in Hall. auto. }
  unfold check_fs in Hc. rewrite forallb_forall in Hc.
  assert (Hin : In t small_seeks).
  { unfold small_seeks. cbn.
    assert (t = -1 \/ t = 0 \/ t = 1 \/ t = 2 \/ t = 3 \/ t = 4) by lia. intuition. }
  specialize (Hc t Hin). apply andb_true_iff in Hc as [Ha Hd].
  assert (Hq : check_q fs t asc = true) by (destruct asc; auto).
  unfold check_q in Hq.
  destruct (run_cursor arr_merge fs t asc) as [a|]; [|discriminate].
  destruct (run_cursor vals_merge fs t asc) as [b|]; [|discriminate].
  apply andb_true_iff in Hq as [H1 H2]. apply arr_eqb_eq in H1. apply blocks_eqb_eq in H2.
  subst b. exists a. auto.
Qed.
