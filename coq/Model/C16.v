(** C16 — Delete predicates match exactly the series they describe.

    Mirror of
      - /repo/tsdb/engine/tsm1/predicate.go : [NewProtobufPredicate] / [buildPredicateNode]
        (validity of a comparison node), [predicateMatcher.Matches] (the walk over the key),
        [predicatePopTag], [predicatePopTagEscape], the memoised three-valued [Update] of
        [predicateNodeAnd] / [predicateNodeOr] / [predicateNodeComparison], [predicateEval];
      - /repo/tsdb/engine/tsm1/engine.go : [SeriesAndFieldFromCompositeKey] (bytes.Cut at "#!~#");
      - /repo/models/points.go : [MakeKey] / [AppendMakeKey] / [EscapeMeasurement] /
        [unescapeMeasurement] / [escapeTag] / [Tags.AppendHashKey];
      - /repo/tsdb/index.go : [PredicateSeriesIDIterator.Next] (the key handed to [Matches] is
        [MakeKey(name, (\x00,name) :: tags)]).

    Bytes are [N], byte strings are [list N].  A Go [[]byte] that may be [nil] is an
    [option bytes] ([None] = nil).

    Abstractions (stated, not hidden):
      - [predicateState] ([locs] : tag key -> index, [values] : index -> []byte) is a finite map
        from the tracked tag keys to optional values: a getter function [bytes -> option bytes]
        plus the membership test [tracked];
      - the generation counters of [predicateState]/[predicateCache] are modelled by their
        effect: [Reset] invalidates every cache, so [Matches] starts from [compile p] (all caches
        empty); a cache holds [Some b] exactly when the Go cache is valid for the current
        generation (only [true]/[false] are ever stored);
      - regular expressions are an oracle [rm : regex id -> value -> bool]; every definition and
        theorem is for an arbitrary oracle, the check passes a table recorded from Go's regexp.

    No proofs in this file. *)
From Verif Require Import Base.Prelude.
Local Open Scope N_scope.

Definition bytes := list N.
Definition bytes_eqb : bytes -> bytes -> bool := list_eqb N.eqb.

Definition SP : N := 32.   Definition COMMA : N := 44.   Definition EQ : N := 61.
Definition BSL : N := 92.
(** models.MeasurementTagKey = "\x00", models.FieldKeyTagKey = "\xff" *)
Definition MTAG : bytes := [0].
Definition FTAG : bytes := [255].
(** keyFieldSeparator = "#!~#" *)
Definition SEP : bytes := [35; 33; 126; 35].

Definition special (c : N) : bool := (c =? COMMA) || (c =? SP) || (c =? EQ).

(** * models: building the key *)

(** bytes.Replace(in, [c], [\ c], -1) *)
Fixpoint ins_bsl (c : N) (s : bytes) : bytes :=
  match s with
  | [] => []
  | x :: t => if x =? c then BSL :: x :: ins_bsl c t else x :: ins_bsl c t
  end.

(** bytes.Replace(in, [\ c], [c], -1): non-overlapping, left to right *)
Fixpoint del_bsl (c : N) (s : bytes) : bytes :=
  match s with
  | x :: ((y :: t') as t) =>
      if (x =? BSL) && (y =? c) then c :: del_bsl c t' else x :: del_bsl c t
  | _ => s
  end.

(** escapeTag: the three tagEscapeCodes in order ',' ' ' '=' (the IndexByte guards only skip
    no-op passes) *)
Definition esc_tag (s : bytes) : bytes := ins_bsl EQ (ins_bsl SP (ins_bsl COMMA s)).
(** EscapeMeasurement / unescapeMeasurement: measurementEscapeCodes ',' ' ' *)
Definition esc_meas (s : bytes) : bytes := ins_bsl SP (ins_bsl COMMA s).
Definition unesc_meas (s : bytes) : bytes := del_bsl SP (del_bsl COMMA s).

Definition tagset := list (bytes * bytes).

(** Tags.AppendHashKey(dst, true): tags with an empty value are skipped.  ([needsEscape] only
    avoids calling escapeTag when no tag contains a special byte, where it is the identity.) *)
Fixpoint hash_key (tags : tagset) : bytes :=
  match tags with
  | [] => []
  | (k, v) :: r =>
      match v with
      | [] => hash_key r
      | _ => COMMA :: esc_tag k ++ EQ :: esc_tag v ++ hash_key r
      end
  end.

(** models.MakeKey *)
Definition make_key (name : bytes) (tags : tagset) : bytes :=
  esc_meas (unesc_meas name) ++ hash_key tags.

(** PredicateSeriesIDIterator.Next *)
Definition engine_key (name : bytes) (tags : tagset) : bytes :=
  make_key name ((MTAG, name) :: tags).

(** * tsm1: SeriesAndFieldFromCompositeKey *)
Fixpoint is_prefix (p s : bytes) : bool :=
  match p, s with
  | [], _ => true
  | x :: p', y :: s' => (x =? y) && is_prefix p' s'
  | _ :: _, [] => false
  end.

Fixpoint cut_sep (s : bytes) : bytes :=
  match s with
  | [] => []
  | x :: t => if is_prefix SEP s then [] else x :: cut_sep t
  end.

Fixpoint has_sep (s : bytes) : bool :=
  match s with
  | [] => false
  | _ :: t => is_prefix SEP s || has_sep t
  end.

(** * tsm1: popping tags *)

(** bytes.Cut(s, [c]) : (before, after) with after = nil when c does not occur *)
Fixpoint cut (c : N) (s : bytes) : bytes * option bytes :=
  match s with
  | [] => ([], None)
  | x :: t =>
      if x =? c then ([], Some t)
      else let '(a, b) := cut c t in (x :: a, b)
  end.

(** predicatePopTag: tag is never nil here (the key is non-empty) *)
Definition pop_plain (s : bytes) : option bytes * option bytes * bytes :=
  let '(seg, rest) := cut COMMA s in
  let '(tag, value) := cut EQ seg in
  (Some tag, value, match rest with Some r => r | None => [] end).

(** The two search loops of predicatePopTagEscape: first [c] whose previous byte is not '\'.
    [pb] = "the previous byte exists and is a backslash". *)
Fixpoint cut_esc (c : N) (pb : bool) (s : bytes) : option (bytes * bytes) :=
  match s with
  | [] => None
  | x :: t =>
      if (x =? c) && negb pb then Some ([], t)
      else match cut_esc c (x =? BSL) t with
           | Some (a, b) => Some (x :: a, b)
           | None => None
           end
  end.

(** the unescape loop: drop a backslash that is followed by ',' ' ' or '=' *)
Fixpoint unesc (s : bytes) : bytes :=
  match s with
  | [] => []
  | c :: t =>
      if (c =? BSL) && (match t with n :: _ => special n | [] => false end)
      then unesc t else c :: unesc t
  end.

Definition pop_esc (s : bytes) : option bytes * option bytes * bytes :=
  let '(seg, rest) :=
    match cut_esc COMMA false s with
    | Some (a, b) => (a, b)
    | None => (s, [])
    end in
  match cut_esc EQ false seg with
  | Some (t, v) => (Some (unesc t), Some (unesc v), rest)
  | None => (None, None, rest)
  end.

(** * predicates *)
Inductive cop := OpEq | OpNeq | OpStarts | OpLt | OpLe | OpGt | OpGe | OpRe | OpNRe | OpOther.
Inductive lhs := LRef (k : bytes) | LLit (b : bytes).
Inductive rhs := RRef (k : bytes) | RLit (b : bytes) | RReg (r : N).
Inductive pred :=
| PCmp (op : cop) (l : lhs) (r : rhs)
| PAnd (p q : pred)
| POr (p q : pred).

(** buildPredicateNode accepts a comparison iff (right is a regex <-> op is =~ or !~). *)
Definition is_re_op (op : cop) : bool := match op with OpRe | OpNRe => true | _ => false end.
Fixpoint valid (p : pred) : bool :=
  match p with
  | PCmp op _ r => Bool.eqb (is_re_op op) (match r with RReg _ => true | _ => false end)
  | PAnd a b | POr a b => valid a && valid b
  end.

(** tag keys referenced (walkPredicateNodes: pre-order) — the tracked keys, [state.locs] *)
Fixpoint refs (p : pred) : list bytes :=
  match p with
  | PCmp _ l r =>
      (match l with LRef k => [k] | _ => [] end) ++ (match r with RRef k => [k] | _ => [] end)
  | PAnd a b | POr a b => refs a ++ refs b
  end.
Definition tracked (p : pred) (k : bytes) : bool := existsb (bytes_eqb k) (refs p).

Fixpoint bcompare (a b : bytes) : comparison :=
  match a, b with
  | [], [] => Eq
  | [], _ => Lt
  | _, [] => Gt
  | x :: a', y :: b' => match N.compare x y with Eq => bcompare a' b' | c => c end
  end.

Inductive rval := VBytes (b : bytes) | VReg (r : N).

Definition getter := bytes -> option bytes.
Definition g_empty : getter := fun _ => None.
Definition upd (g : getter) (k : bytes) (v : option bytes) : getter :=
  fun k' => if bytes_eqb k k' then v else g k'.

Definition lhs_val (g : getter) (l : lhs) : option bytes :=
  match l with LLit b => Some b | LRef k => g k end.
Definition rhs_val (g : getter) (r : rhs) : option rval :=
  match r with
  | RLit b => Some (VBytes b)
  | RReg i => Some (VReg i)
  | RRef k => match g k with Some b => Some (VBytes b) | None => None end
  end.

Section WithRegex.
(** [rm r v] = regexp.MustCompile(pattern r).Match(v) *)
Variable rm : N -> bytes -> bool.

(** predicateEval *)
Definition ceval (op : cop) (a : bytes) (rv : rval) : bool :=
  match rv with
  | VBytes b =>
      match op with
      | OpEq => bytes_eqb a b
      | OpNeq => negb (bytes_eqb a b)
      | OpStarts => is_prefix b a
      | OpLt => match bcompare a b with Lt => true | _ => false end
      | OpLe => match bcompare a b with Gt => false | _ => true end
      | OpGt => match bcompare a b with Gt => true | _ => false end
      | OpGe => match bcompare a b with Lt => false | _ => true end
      | _ => false
      end
  | VReg r =>
      match op with
      | OpRe => rm r a
      | OpNRe => negb (rm r a)
      | _ => false
      end
  end.

Definition cmp_val (g : getter) (op : cop) (l : lhs) (r : rhs) : option bool :=
  match lhs_val g l with
  | None => None
  | Some a => match rhs_val g r with
              | None => None
              | Some rv => Some (ceval op a rv)
              end
  end.

(** ** The compiled tree with caches, and Update *)
Inductive node :=
| NCmp (c : option bool) (op : cop) (l : lhs) (r : rhs)
| NAnd (c : option bool) (a b : node)
| NOr (c : option bool) (a b : node).

Fixpoint compile (p : pred) : node :=
  match p with
  | PCmp op l r => NCmp None op l r
  | PAnd a b => NAnd None (compile a) (compile b)
  | POr a b => NOr None (compile a) (compile b)
  end.

Fixpoint erase (n : node) : pred :=
  match n with
  | NCmp _ op l r => PCmp op l r
  | NAnd _ a b => PAnd (erase a) (erase b)
  | NOr _ a b => POr (erase a) (erase b)
  end.

(** responses: [None] = needMore, [Some b] = true/false *)
Definition resp := option bool.

(** predicateNode*.Update, returning the response and the tree with its updated caches.
    Note: predicateNodeAnd does NOT store a [true] response. *)
Fixpoint update (g : getter) (n : node) : resp * node :=
  match n with
  | NCmp c op l r =>
      match c with
      | Some b => (Some b, n)
      | None =>
          match cmp_val g op l r with
          | None => (None, n)
          | Some b => (Some b, NCmp (Some b) op l r)
          end
      end
  | NAnd c a b =>
      match c with
      | Some x => (Some x, n)
      | None =>
          let '(la, a') := update g a in
          match la with
          | Some false => (Some false, NAnd (Some false) a' b)
          | None => (None, NAnd None a' b)
          | Some true =>
              let '(rb, b') := update g b in
              match rb with
              | Some false => (Some false, NAnd (Some false) a' b')
              | None => (None, NAnd None a' b')
              | Some true => (Some true, NAnd None a' b')
              end
          end
      end
  | NOr c a b =>
      match c with
      | Some x => (Some x, n)
      | None =>
          let '(la, a') := update g a in
          match la with
          | Some true => (Some true, NOr (Some true) a' b)
          | _ =>
              let '(rb, b') := update g b in
              match rb with
              | Some true => (Some true, NOr (Some true) a' b')
              | _ =>
                  match la, rb with
                  | Some false, Some false => (Some false, NOr (Some false) a' b')
                  | _, _ => (None, NOr None a' b')
                  end
              end
          end
      end
  end.

(** The response of an uncached tree as a pure function of the state (what [update] computes
    when no cache is valid). *)
Fixpoint mresp (g : getter) (p : pred) : resp :=
  match p with
  | PCmp op l r => cmp_val g op l r
  | PAnd a b =>
      match mresp g a with
      | Some false => Some false
      | None => None
      | Some true => mresp g b
      end
  | POr a b =>
      match mresp g a with
      | Some true => Some true
      | la =>
          match mresp g b with
          | Some true => Some true
          | rb => match la, rb with Some false, Some false => Some false | _, _ => None end
          end
      end
  end.

(** ** Matches *)

(** the loop [for len(key) > 0 { tag, value, key = popTag(key); ... }];
    [fuel] bounds the number of iterations (each consumes at least one byte). *)
Fixpoint walk (fuel : nat) (pop : bytes -> option bytes * option bytes * bytes)
         (p : pred) (g : getter) (root : node) (key : bytes) : bool :=
  match fuel with
  | O => false
  | S fuel' =>
      match key with
      | [] => false
      | _ =>
          let '(tag, value, rest) := pop key in
          match tag with
          | None => walk fuel' pop p g root rest
          | Some t =>
              if tracked p t then
                let g' := upd g t value in
                let '(r, root') := update g' root in
                match r with
                | Some b => b
                | None => walk fuel' pop p g' root' rest
                end
              else walk fuel' pop p g root rest
          end
      end
  end.

Definition has_bsl (s : bytes) : bool := existsb (N.eqb BSL) s.

(** predicateMatcher.Matches.  The first segment of the key is the measurement name, not a tag
    pair: it is popped and dropped before the loop (repair of finding
    measurement-name-with-equals-parsed-as-tag; it used to be fed to the state like a tag). *)
Definition matches (p : pred) (key0 : bytes) : bool :=
  let key := cut_sep key0 in
  let pop := if has_bsl key then pop_esc else pop_plain in
  let rest := snd (pop key) in
  walk (S (length rest)) pop p g_empty (compile p) rest.

(** * Reference semantics *)

(** Kleene evaluation: a comparison involving an absent tag is unknown. *)
Definition and3 (a b : option bool) : option bool :=
  match a, b with
  | Some false, _ | _, Some false => Some false
  | Some true, Some true => Some true
  | _, _ => None
  end.
Definition or3 (a b : option bool) : option bool :=
  match a, b with
  | Some true, _ | _, Some true => Some true
  | Some false, Some false => Some false
  | _, _ => None
  end.
Fixpoint eval3 (g : getter) (p : pred) : option bool :=
  match p with
  | PCmp op l r => cmp_val g op l r
  | PAnd a b => and3 (eval3 g a) (eval3 g b)
  | POr a b => or3 (eval3 g a) (eval3 g b)
  end.

Fixpoint lookup (env : tagset) (k : bytes) : option bytes :=
  match env with
  | [] => None
  | (k', v) :: r => if bytes_eqb k' k then Some v else lookup r k
  end.

(** [holds p env]: the predicate is true of the series whose tags (including the measurement
    as tag \x00) are [env]; a final unknown is "does not match". *)
Definition holds (p : pred) (env : tagset) : bool :=
  match eval3 (lookup env) p with Some true => true | _ => false end.

(** The same thing two-valued: a comparison on an absent tag is simply false. *)
Fixpoint eval2 (g : getter) (p : pred) : bool :=
  match p with
  | PCmp op l r => match cmp_val g op l r with Some b => b | None => false end
  | PAnd a b => eval2 g a && eval2 g b
  | POr a b => eval2 g a || eval2 g b
  end.

(** The OTHER reading (InfluxQL WHERE clauses, C15): an absent tag is the empty string. *)
Definition lookup_e (env : tagset) : getter :=
  fun k => match lookup env k with Some v => Some v | None => Some [] end.
Definition holds_absent_empty (p : pred) (env : tagset) : bool := eval2 (lookup_e env) p.

End WithRegex.

(** * Well-formedness of series (hypotheses of the theorems, also computed by the judge) *)
Fixpoint ends_bsl (s : bytes) : bool :=
  match s with
  | [] => false
  | [c] => c =? BSL
  | _ :: t => ends_bsl t
  end.
Definition nonempty (s : bytes) : bool := match s with [] => false | _ => true end.
Definition has_eq (s : bytes) : bool := existsb (N.eqb EQ) s.

Fixpoint nodupb (l : list bytes) : bool :=
  match l with
  | [] => true
  | x :: t => negb (existsb (bytes_eqb x) t) && nodupb t
  end.

(** tag list: distinct keys, non-empty values, no key or value ends in a backslash *)
Definition wf_env (env : tagset) : bool :=
  nodupb (map fst env) &&
  forallb (fun kv => negb (ends_bsl (fst kv)) && nonempty (snd kv) && negb (ends_bsl (snd kv))) env.
(** measurement name as it appears in the first segment of the key: no trailing '\'
    ('=' in the name is fine since the measurement segment is skipped) *)
Definition wf_name (name : bytes) : bool := negb (ends_bsl name).
Definition wf_key (name : bytes) (env : tagset) : bool :=
  wf_name name && wf_env env && negb (has_sep (make_key name env)).

(** every comparison mentions at least one tag *)
Fixpoint wf_pred (p : pred) : bool :=
  match p with
  | PCmp _ l r =>
      (match l with LRef _ => true | _ => false end) || (match r with RRef _ => true | _ => false end)
  | PAnd a b | POr a b => wf_pred a && wf_pred b
  end.

(** what predicate.Parse -> predicate.New can produce: tag = / != literal, AND *)
Fixpoint api_pred (p : pred) : bool :=
  match p with
  | PCmp op (LRef _) (RLit _) => match op with OpEq | OpNeq => true | _ => false end
  | PCmp _ _ _ => false
  | PAnd a b => api_pred a && api_pred b
  | POr _ _ => false
  end.

(** * Correspondence case *)

(** regex oracle from a table of Go's answers: (regex id, value, answer) *)
Fixpoint rm_table (tab : list (N * bytes * bool)) (r : N) (v : bytes) : bool :=
  match tab with
  | [] => false
  | (r', v', b) :: t => if (r' =? r) && bytes_eqb v' v then b else rm_table t r v
  end.

(** one series of a case: the name and the tag list given to models.MakeKey (already
    including \x00 = name and possibly \xff = field, as the engine builds it), an optional
    "#!~#field" suffix appended to the key, the key bytes MakeKey returned, and what
    [Matches] answered (on the predicate built from protobuf, on its Clone, and on the
    predicate obtained from Marshal/UnmarshalPredicate — all reused across the series of the
    case, so stale caches would show). *)
Record series := {
  s_name : bytes; s_tags : tagset; s_suffix : option bytes;
  s_key : bytes; s_out : bool; s_out_clone : bool;
  s_out_rt : option bool;     (* None when proto.Marshal refused the predicate (non-UTF-8 tag key) *)
  s_out_parsed : option bool  (* predicate.Parse -> predicate.New route, when the text parsed *)
}.

Record case := {
  c_pred : pred;
  c_err : bool;                      (* NewProtobufPredicate returned an error *)
  c_rtab : list (N * bytes * bool);
  c_series : list series
}.

Definition clean_env (tags : tagset) : tagset :=
  filter (fun kv => nonempty (snd kv)) tags.

Definition series_key (s : series) : bytes :=
  make_key (s_name s) (s_tags s) ++ match s_suffix s with Some f => SEP ++ f | None => [] end.

Definition check (c : case) : verdict :=
  let rm := rm_table (c_rtab c) in
  let p := c_pred c in
  if negb (valid p) then judge (c_err c) (c_err c)
  else if c_err c then judge false false
  else
    let agree (f : series -> bool) :=
      forallb (fun s =>
        let m := f s in
        Bool.eqb (s_out s) m && Bool.eqb (s_out_clone s) m &&
        match s_out_rt s with Some b => Bool.eqb b m | None => true end &&
        match s_out_parsed s with Some b => Bool.eqb b m | None => true end) (c_series c) in
    let same :=
      forallb (fun s => bytes_eqb (s_key s) (make_key (s_name s) (s_tags s))) (c_series c) &&
      agree (fun s => matches rm p (series_key s)) in
    let ok := agree (fun s => holds rm p (clean_env (s_tags s))) in
    judge same ok.
