// C44 driver: histories of password / user / token / session operations and probe requests on
// the REAL tenant user+password service, authorization store+service (all stored token
// formats: raw, $influxdb2-sha256$, $influxdb2-sha512$, malformed), session service over the
// real inmem.SessionStore, and the real http.AuthenticationHandler (httptest), all on one
// in-memory KV store; plus byte-level cases for http.GetToken.
package main

import (
	"context"
	"encoding/base64"
	"encoding/json"
	"errors"
	"fmt"
	"math/rand/v2"
	"net/http"
	"net/http/httptest"
	"strings"
	"sync"
	"time"

	influxdb "github.com/influxdata/influxdb/v2"
	"github.com/influxdata/influxdb/v2/authorization"
	icontext "github.com/influxdata/influxdb/v2/context"
	ihttp "github.com/influxdata/influxdb/v2/http"
	"github.com/influxdata/influxdb/v2/inmem"
	"github.com/influxdata/influxdb/v2/kit/platform"
	perrors "github.com/influxdata/influxdb/v2/kit/platform/errors"
	kithttp "github.com/influxdata/influxdb/v2/kit/transport/http"
	"github.com/influxdata/influxdb/v2/kv"
	"github.com/influxdata/influxdb/v2/kv/migration/all"
	influxdb2_algo "github.com/influxdata/influxdb/v2/pkg/crypt/algorithm/influxdb2"
	"github.com/influxdata/influxdb/v2/session"
	"github.com/influxdata/influxdb/v2/tenant"
	"go.uber.org/zap"
	"golang.org/x/crypto/bcrypt"
	"verifh/vh"
)

const (
	sigInactiveToken = "inactive-token-passes-authentication-middleware"
	shortMs          = 120
	waitMs           = 250
	farMs            = 3600000
)

// ---- string specifications (so that a replay can rebuild every string and its symbolic term)
type sspec struct {
	T     string `json:"t"` // empty plain phc badphc junk bcrypt garbage jwt
	S     string `json:"s,omitempty"`
	V     int    `json:"v,omitempty"`
	Of    *sspec `json:"of,omitempty"`
	Cost  int    `json:"cost,omitempty"`
	Minor string `json:"minor,omitempty"`
}

type jop struct {
	K      string   `json:"k"`
	U      int      `json:"u,omitempty"`
	ID     int      `json:"id,omitempty"`
	P      *sspec   `json:"p,omitempty"`
	Old    *sspec   `json:"old,omitempty"`
	Tok    *sspec   `json:"tok,omitempty"`
	HTok   *sspec   `json:"htok,omitempty"`
	Active bool     `json:"active,omitempty"`
	NPerm  int      `json:"nperm,omitempty"`
	UH     bool     `json:"uh,omitempty"`
	HV     int      `json:"hv,omitempty"`
	Key    *sspec   `json:"key,omitempty"`
	Off    int64    `json:"off,omitempty"`
	Scheme string   `json:"scheme,omitempty"`
	HasHdr bool     `json:"has_hdr,omitempty"`
	Cookie *sspec   `json:"cookie,omitempty"`
	Renew  bool     `json:"renew,omitempty"`
	Obs    []uint64 `json:"impl_obs"`
}

type jcase struct {
	Kind   string `json:"kind"` // hist | hdr
	Strong bool   `json:"strong,omitempty"`
	UH     bool   `json:"uh,omitempty"`
	HV     int    `json:"hv,omitempty"`
	Ops    []*jop `json:"ops,omitempty"`
	Hdr    []byte `json:"hdr,omitempty"`
	HdrOK  bool   `json:"impl_hdr_ok,omitempty"`
	HdrTok []byte `json:"impl_hdr_tok,omitempty"`
}

// ---- the real stack of one history
type authProxy struct{ cur influxdb.AuthorizationService }

func (p *authProxy) FindAuthorizationByID(ctx context.Context, id platform.ID) (*influxdb.Authorization, error) {
	return p.cur.FindAuthorizationByID(ctx, id)
}
func (p *authProxy) FindAuthorizationByToken(ctx context.Context, t string) (*influxdb.Authorization, error) {
	return p.cur.FindAuthorizationByToken(ctx, t)
}
func (p *authProxy) FindAuthorizations(ctx context.Context, f influxdb.AuthorizationFilter, opt ...influxdb.FindOptions) ([]*influxdb.Authorization, int, error) {
	return p.cur.FindAuthorizations(ctx, f, opt...)
}
func (p *authProxy) CreateAuthorization(ctx context.Context, a *influxdb.Authorization) error {
	return p.cur.CreateAuthorization(ctx, a)
}
func (p *authProxy) UpdateAuthorization(ctx context.Context, id platform.ID, upd *influxdb.AuthorizationUpdate) (*influxdb.Authorization, error) {
	return p.cur.UpdateAuthorization(ctx, id, upd)
}
func (p *authProxy) DeleteAuthorization(ctx context.Context, id platform.ID) error {
	return p.cur.DeleteAuthorization(ctx, id)
}

// sessProxy is the real session.Service plus a hook that runs right after a successful
// FindSession (to let a sign-out land between the middleware's find and its renew).
type sessProxy struct {
	*session.Service
	afterFind func(key string)
}

func (p *sessProxy) FindSession(ctx context.Context, key string) (*influxdb.Session, error) {
	ss, err := p.Service.FindSession(ctx, key)
	if err == nil && p.afterFind != nil {
		p.afterFind(key)
	}
	return ss, err
}

type seen struct {
	reached bool
	kind    string
	uid     platform.ID
	ident   platform.ID
	permOK  bool
	nperm   int
}

type stack struct {
	ctx    context.Context
	kv     *inmem.KVStore
	ts     *tenant.Service
	org    platform.ID
	auth   *authProxy
	sstore *inmem.SessionStore
	sstg   *session.Storage
	ssvc   *session.Service
	sprox  *sessProxy
	held   map[int]*influxdb.Session // session objects a caller got earlier (from create / FindSession)
	hRenew *ihttp.AuthenticationHandler
	hNo    *ihttp.AuthenticationHandler
	last   *seen

	users    []platform.ID
	auths    []platform.ID
	sessions []platform.ID

	// symbolic registry
	plainID map[string]uint64
	term    map[string]string // actual string -> Gallina term
	jwt     map[string]bool
	salt    uint64
	nbad    uint64

	// driver-side bookkeeping used ONLY for generation, shapes (signatures) and waiting
	gUserExists []bool
	gUserActive []bool
	gAuthTok    []string // raw token an authorization stands for ("" = none)
	gAuthUser   []int
	gAuthActive []bool
	gAuthLive   []bool
	gSessKey    []string
	gSessExp    []int64
	gSessLive   []bool
	gNow        int64
	shortAt     time.Time
	shortOpen   bool
	timingBad   bool
	shapes      map[string]bool
}

func variantOf(v int) influxdb2_algo.Variant {
	if v == 512 {
		return influxdb2_algo.VariantSHA512
	}
	return influxdb2_algo.VariantSHA256
}
func variantName(v int) string {
	if v == 512 {
		return influxdb2_algo.VariantIdentifierSHA512
	}
	return influxdb2_algo.VariantIdentifierSHA256
}
func variantTerm(v int) string {
	if v == 512 {
		return "V512"
	}
	return "V256"
}

func newStack(strong, uh bool, hv int) (*stack, error) {
	s := &stack{ctx: context.Background(), plainID: map[string]uint64{}, term: map[string]string{}, jwt: map[string]bool{}, shapes: map[string]bool{}}
	log := zap.NewNop()
	s.kv = inmem.NewKVStore()
	if err := all.Up(s.ctx, log, s.kv); err != nil {
		return nil, err
	}
	s.ts = tenant.NewService(tenant.NewStore(s.kv), tenant.WithPasswordChecking(strong))
	org := &influxdb.Organization{Name: "org"}
	if err := s.ts.CreateOrganization(s.ctx, org); err != nil {
		return nil, err
	}
	s.org = org.ID
	s.auth = &authProxy{}
	if err := s.reopen(uh, hv); err != nil {
		return nil, err
	}
	s.sstore = inmem.NewSessionStore()
	s.sstg = session.NewStorage(s.sstore)
	s.ssvc = session.NewService(s.sstg, s.ts.UserService, s.ts.UserResourceMappingService, s.auth)
	s.sprox = &sessProxy{Service: s.ssvc}
	s.held = map[int]*influxdb.Session{}
	mk := func(noRenew bool) *ihttp.AuthenticationHandler {
		h := ihttp.NewAuthenticationHandler(log, kithttp.NewErrorHandler(log))
		h.AuthorizationService = s.auth
		h.SessionService = s.sprox
		h.UserService = s.ts.UserService
		h.SessionRenewDisabled = noRenew
		h.Handler = http.HandlerFunc(func(w http.ResponseWriter, r *http.Request) {
			sn := &seen{reached: true}
			if a, err := icontext.GetAuthorizer(r.Context()); err == nil && a != nil {
				sn.kind = a.Kind()
				sn.uid = a.GetUserID()
				sn.ident = a.Identifier()
				ps, perr := a.PermissionSet()
				sn.permOK = perr == nil
				sn.nperm = len(ps)
			}
			s.last = sn
			w.WriteHeader(200)
		})
		return h
	}
	s.hRenew = mk(false)
	s.hNo = mk(true)
	return s, nil
}

func (s *stack) reopen(uh bool, hv int) error {
	st, err := authorization.NewStore(s.ctx, s.kv, uh, authorization.WithAuthorizationHashVariantName(variantName(hv)))
	if err != nil {
		return err
	}
	s.auth.cur = authorization.NewService(st, s.ts)
	// every NewStore has its own snowflake generator: two generators used within one
	// millisecond can hand out the same id (a deleted authorization's id would be reused
	// and the driver's index <-> id map would be ambiguous). A restart takes longer than that.
	time.Sleep(2 * time.Millisecond)
	return nil
}

// ---- strings
func classesOf(p string) int {
	q := p
	if len(q) > 72 {
		q = q[:72]
	}
	var d, u, l, sp bool
	for _, c := range q {
		switch {
		case c >= '0' && c <= '9':
			d = true
		case c >= 'A' && c <= 'Z':
			u = true
		case c >= 'a' && c <= 'z':
			l = true
		case strings.ContainsRune("!@#$%^&*()_+", c):
			sp = true
		}
	}
	n := 0
	for _, b := range []bool{d, u, l, sp} {
		if b {
			n++
		}
	}
	return n
}

func (s *stack) plainTerm(str string) string {
	if str == "" {
		return "SEmpty"
	}
	if t, ok := s.term[str]; ok {
		return t
	}
	id, ok := s.plainID[str]
	if !ok {
		id = uint64(len(s.plainID))
		s.plainID[str] = id
	}
	t := fmt.Sprintf("(SPlain %s %s %s)", vh.N(id), vh.N(uint64(len(str))), vh.N(uint64(classesOf(str))))
	s.term[str] = t
	return t
}

func jwtString(id string) string {
	enc := func(b string) string { return base64.RawURLEncoding.EncodeToString([]byte(b)) }
	return enc(`{"alg":"HS256","typ":"JWT"}`) + "." + enc(`{"kid":"k`+id+`","iss":"x"}`) + "." + enc("sig"+id)
}

// eval builds the actual string and its symbolic term.
func (s *stack) eval(sp *sspec) (string, string) {
	if sp == nil {
		return "", "SEmpty"
	}
	switch sp.T {
	case "empty":
		return "", "SEmpty"
	case "plain":
		return sp.S, s.plainTerm(sp.S)
	case "jwt":
		str := jwtString(sp.S)
		s.jwt[str] = true
		return str, s.plainTerm(str)
	case "phc":
		in, it := s.eval(sp.Of)
		h, err := influxdb2_algo.New(influxdb2_algo.WithVariant(variantOf(sp.V)))
		if err != nil {
			panic(err)
		}
		d, err := h.Hash(in)
		if err != nil {
			panic(err)
		}
		str := d.Encode()
		t := fmt.Sprintf("(SPhc %s %s)", variantTerm(sp.V), it)
		s.term[str] = t
		return str, t
	case "badphc":
		if t, ok := s.term[sp.S]; ok {
			return sp.S, t
		}
		s.nbad++
		t := fmt.Sprintf("(SBadPhc %s)", vh.N(s.nbad))
		s.term[sp.S] = t
		return sp.S, t
	case "junk":
		str := "$" + variantName(sp.V) + "$" + sp.S
		if t, ok := s.term[str]; ok {
			return str, t
		}
		s.nbad++
		t := fmt.Sprintf("(SPhcJunk %s %s)", variantTerm(sp.V), vh.N(s.nbad))
		s.term[str] = t
		return str, t
	case "bcrypt":
		in, it := s.eval(sp.Of)
		h, err := bcrypt.GenerateFromPassword([]byte(in), sp.Cost)
		if err != nil {
			panic(err)
		}
		str := string(h) // "$2a$.."
		switch sp.Minor {
		case "":
			str = "$2" + str[3:]
		case "a":
		default:
			str = "$2" + sp.Minor + str[3:]
		}
		s.salt++
		return str, fmt.Sprintf("(SBcrypt %s %s)", vh.N(s.salt), it)
	case "garbage":
		s.nbad++
		return sp.S, fmt.Sprintf("(SGarbage %s)", vh.N(s.nbad))
	}
	panic("bad spec " + sp.T)
}

func (s *stack) userID(i int) platform.ID {
	if i >= 0 && i < len(s.users) {
		return s.users[i]
	}
	return platform.ID(0xdead0000 + uint64(i))
}
func (s *stack) authID(i int) platform.ID {
	if i >= 0 && i < len(s.auths) {
		return s.auths[i]
	}
	return platform.ID(0xbeef0000 + uint64(i))
}
func idxOf(ids []platform.ID, id platform.ID) uint64 {
	for i, x := range ids {
		if x == id {
			return uint64(i)
		}
	}
	return 999
}

func pwClass(err error) uint64 {
	if err == nil {
		return 0
	}
	var r uint64
	if errors.Is(err, perrors.EIncorrectUser) {
		r |= 1
	}
	if errors.Is(err, perrors.EIncorrectPassword) {
		r |= 2
	}
	if errors.Is(err, perrors.EPasswordLength) {
		r |= 4
	}
	if errors.Is(err, perrors.EPasswordChars) {
		r |= 8
	}
	if errors.Is(err, perrors.EPasswordChangeRequired) {
		r |= 16
	}
	if r == 0 {
		r = 128
	}
	return r
}

func notFound(err error) bool { return perrors.ErrorCode(err) == perrors.ENotFound }

func (s *stack) userKnown(i int) bool { return i >= 0 && i < len(s.gUserExists) && s.gUserExists[i] }

// classify mirrors the SPECIFICATION of the Authorization header (scheme word, one space,
// token; case-insensitive scheme; Bearer needs a non-empty token) on the final header string.
func classify(h string) (kind string, tok string) {
	if h == "" {
		return "absent", ""
	}
	if len(h) >= 6 && strings.ToLower(h[:6]) == "token " {
		return "tok", h[6:]
	}
	if len(h) > 7 && strings.ToLower(h[:7]) == "bearer " {
		return "tok", h[7:]
	}
	return "bad", ""
}

// exec runs one operation on the real code and returns its Gallina term.
func (s *stack) exec(strong bool, o *jop) string {
	ctx := s.ctx
	switch o.K {
	case "create_user":
		u := &influxdb.User{Name: fmt.Sprintf("user%d", len(s.users)), Status: influxdb.Active}
		err := s.ts.CreateUser(ctx, u)
		if err != nil {
			o.Obs = []uint64{32}
		} else {
			o.Obs = []uint64{0}
		}
		s.users = append(s.users, u.ID)
		s.gUserExists = append(s.gUserExists, true)
		s.gUserActive = append(s.gUserActive, true)
		return "(OP sym (CreateUser sym))"
	case "set_user_active":
		st := influxdb.Inactive
		if o.Active {
			st = influxdb.Active
		}
		_, err := s.ts.UpdateUser(ctx, s.userID(o.U), influxdb.UserUpdate{Status: &st})
		o.Obs = []uint64{0}
		if err != nil {
			o.Obs = []uint64{32}
		} else if s.userKnown(o.U) {
			s.gUserActive[o.U] = o.Active
		}
		return fmt.Sprintf("(OP sym (SetUserActive sym %s %s))", vh.N(uint64(o.U)), vh.Bool(o.Active))
	case "delete_user":
		err := s.ts.DeleteUser(ctx, s.userID(o.U))
		o.Obs = []uint64{0}
		if err != nil {
			o.Obs = []uint64{32}
		} else if s.userKnown(o.U) {
			s.gUserExists[o.U] = false
		}
		return fmt.Sprintf("(OP sym (DeleteUser sym %s))", vh.N(uint64(o.U)))
	case "set_pw":
		p, pt := s.eval(o.P)
		var err error
		if pn := vh.Guard(func() { err = s.ts.SetPassword(ctx, s.userID(o.U), p) }); pn != "" {
			o.Obs = []uint64{64}
		} else {
			o.Obs = []uint64{pwClass(err)}
		}
		return fmt.Sprintf("(OP sym (SetPw sym %s 0 %s))", vh.N(uint64(o.U)), pt)
	case "cmp_pw":
		p, pt := s.eval(o.P)
		var err error
		if pn := vh.Guard(func() { err = s.ts.ComparePassword(ctx, s.userID(o.U), p) }); pn != "" {
			o.Obs = []uint64{64}
		} else {
			o.Obs = []uint64{pwClass(err)}
		}
		return fmt.Sprintf("(OP sym (CmpPw sym %s %s))", vh.N(uint64(o.U)), pt)
	case "cas_pw":
		old, ot := s.eval(o.Old)
		p, pt := s.eval(o.P)
		var err error
		if pn := vh.Guard(func() { err = s.ts.CompareAndSetPassword(ctx, s.userID(o.U), old, p) }); pn != "" {
			o.Obs = []uint64{64}
		} else {
			o.Obs = []uint64{pwClass(err)}
		}
		return fmt.Sprintf("(OP sym (CasPw sym %s 0 %s %s))", vh.N(uint64(o.U)), ot, pt)
	case "put_pw_raw":
		h, ht := s.eval(o.P)
		id := s.userID(o.U)
		err := s.kv.Update(ctx, func(tx kv.Tx) error {
			b, err := tx.Bucket([]byte("userspasswordv1"))
			if err != nil {
				return err
			}
			k, _ := id.Encode()
			return b.Put(k, []byte(h))
		})
		o.Obs = []uint64{0}
		if err != nil {
			o.Obs = []uint64{32}
		}
		return fmt.Sprintf("(OP sym (PutPwRaw sym %s %s))", vh.N(uint64(o.U)), ht)
	case "create_auth":
		tok, tt := s.eval(o.Tok)
		htok, ht := s.eval(o.HTok)
		st := influxdb.Inactive
		if o.Active {
			st = influxdb.Active
		}
		a := &influxdb.Authorization{Token: tok, HashedToken: htok, Status: st, OrgID: s.org, UserID: s.userID(o.U),
			Permissions: influxdb.OperPermissions()[:o.NPerm]}
		err := s.auth.CreateAuthorization(ctx, a)
		switch {
		case err == nil:
			o.Obs = []uint64{0}
			s.auths = append(s.auths, a.ID)
			raw := tok
			if raw == "" && o.HTok != nil && o.HTok.T == "phc" {
				raw, _ = s.eval(o.HTok.Of)
			}
			s.gAuthTok = append(s.gAuthTok, raw)
			s.gAuthUser = append(s.gAuthUser, o.U)
			s.gAuthActive = append(s.gAuthActive, o.Active)
			s.gAuthLive = append(s.gAuthLive, true)
		case err == error(influxdb.ErrUnableToCreateToken):
			o.Obs = []uint64{1}
		case err == error(authorization.ErrTokenAlreadyExistsError):
			o.Obs = []uint64{2}
		default:
			o.Obs = []uint64{3}
		}
		return fmt.Sprintf("(OT sym (CreateAuth sym %s %s %s %s %s))", vh.N(uint64(o.U)), tt, ht, vh.Bool(o.Active), vh.N(uint64(o.NPerm)))
	case "set_auth_active":
		st := influxdb.Inactive
		if o.Active {
			st = influxdb.Active
		}
		_, err := s.auth.UpdateAuthorization(ctx, s.authID(o.ID), &influxdb.AuthorizationUpdate{Status: &st})
		switch {
		case err == nil:
			o.Obs = []uint64{0}
			if o.ID < len(s.gAuthActive) {
				s.gAuthActive[o.ID] = o.Active
			}
		case notFound(err):
			o.Obs = []uint64{4}
		default:
			o.Obs = []uint64{3}
		}
		return fmt.Sprintf("(OT sym (SetAuthActive sym %s %s))", vh.N(uint64(o.ID)), vh.Bool(o.Active))
	case "delete_auth":
		err := s.auth.DeleteAuthorization(ctx, s.authID(o.ID))
		switch {
		case err == nil:
			o.Obs = []uint64{0}
			if o.ID < len(s.gAuthLive) {
				s.gAuthLive[o.ID] = false
			}
		case notFound(err):
			o.Obs = []uint64{4}
		default:
			o.Obs = []uint64{3}
		}
		return fmt.Sprintf("(OT sym (DeleteAuth sym %s))", vh.N(uint64(o.ID)))
	case "reopen":
		o.Obs = []uint64{0}
		if err := s.reopen(o.UH, o.HV); err != nil {
			o.Obs = []uint64{3}
		}
		return fmt.Sprintf("(OT sym (Reopen sym %s %s))", vh.Bool(o.UH), variantTerm(o.HV))
	case "create_sess":
		key, kt := s.eval(o.Key)
		id := platform.ID(5000 + len(s.sessions))
		now := time.Now()
		obj := &influxdb.Session{ID: id, Key: key, CreatedAt: now, ExpiresAt: now.Add(time.Duration(o.Off) * time.Millisecond), UserID: s.userID(o.U)}
		err := s.sstg.CreateSession(ctx, obj)
		s.held[len(s.sessions)] = obj
		o.Obs = []uint64{0}
		if err != nil {
			o.Obs = []uint64{3}
		}
		s.sessions = append(s.sessions, id)
		s.gSessKey = append(s.gSessKey, key)
		s.gSessExp = append(s.gSessExp, s.gNow+o.Off)
		s.gSessLive = append(s.gSessLive, true)
		if o.Off > 0 && o.Off < 10000 {
			s.shortAt, s.shortOpen = now, true
		}
		return fmt.Sprintf("(OS sym (CreateSess sym %s %s %s))", vh.N(uint64(o.U)), kt, vh.Z(o.Off))
	case "expire_sess":
		key, kt := s.eval(o.Key)
		err := s.ssvc.ExpireSession(ctx, key)
		o.Obs = []uint64{0}
		if err != nil {
			o.Obs = []uint64{4}
		} else {
			for i, k := range s.gSessKey {
				if k == key {
					s.gSessLive[i] = false
				}
			}
		}
		return fmt.Sprintf("(OS sym (ExpireSess sym %s))", kt)
	case "renew_sess":
		key, kt := s.eval(o.Key)
		o.Obs = []uint64{0}
		ss, err := s.ssvc.FindSession(ctx, key)
		if err == nil {
			err = s.ssvc.RenewSession(ctx, ss, time.Now().Add(time.Duration(o.Off)*time.Millisecond))
		}
		if err != nil {
			o.Obs = []uint64{4}
		} else {
			for i, k := range s.gSessKey {
				if k == key && s.gSessLive[i] && s.gSessExp[i] > s.gNow && s.gNow+o.Off > s.gSessExp[i] {
					s.gSessExp[i] = s.gNow + o.Off
				}
			}
		}
		return fmt.Sprintf("(OS sym (RenewSess sym %s %s))", kt, vh.Z(o.Off))
	case "find_sess":
		key, kt := s.eval(o.Key)
		ss, err := s.ssvc.FindSession(ctx, key)
		if err != nil {
			o.Obs = []uint64{4}
		} else {
			i := idxOf(s.sessions, ss.ID)
			o.Obs = []uint64{100 + i}
			if i != 999 {
				s.held[int(i)] = ss
			}
		}
		return fmt.Sprintf("(OS sym (FindSess sym %s))", kt)
	case "renew_by_id": // RenewSession with a session OBJECT obtained earlier (possibly stale)
		obj := s.held[o.ID]
		if obj == nil {
			obj = &influxdb.Session{ID: platform.ID(0xabc00000 + uint64(o.ID)), Key: "never", ExpiresAt: time.Now()}
		}
		err := s.ssvc.RenewSession(ctx, obj, time.Now().Add(time.Duration(o.Off)*time.Millisecond))
		o.Obs = []uint64{0}
		if err != nil {
			o.Obs = []uint64{4}
		} else if o.ID < len(s.gSessExp) && s.gSessLive[o.ID] && s.gSessExp[o.ID] > s.gNow && s.gNow+o.Off > s.gSessExp[o.ID] {
			s.gSessExp[o.ID] = s.gNow + o.Off
		}
		return fmt.Sprintf("(OS sym (RenewById sym %s %s))", vh.N(uint64(o.ID)), vh.Z(o.Off))
	case "probe_race": // cookie request with renewal; a sign-out lands between the middleware's find and renew
		key, kt := s.eval(o.Key)
		s.sprox.afterFind = func(k string) { _ = s.ssvc.ExpireSession(ctx, k) }
		p := &jop{K: "probe", Cookie: o.Key, Renew: true}
		s.exec(strong, p)
		s.sprox.afterFind = nil
		o.Obs = p.Obs
		for i, k := range s.gSessKey {
			if k == key {
				s.gSessLive[i] = false
			}
		}
		return fmt.Sprintf("(ProbeRace sym %s)", kt)
	case "wait":
		time.Sleep(time.Duration(o.Off) * time.Millisecond)
		s.gNow += o.Off
		s.shortOpen = false
		// the store drops expired entries from timer goroutines: give them time under load
		deadline := time.Now().Add(8 * time.Second)
		for i, k := range s.gSessKey {
			if s.gSessLive[i] && s.gSessExp[i] <= s.gNow && s.gSessExp[i] > s.gNow-1000000 {
				for time.Now().Before(deadline) {
					if v, _ := s.sstore.Get("sessionsindexv2/" + k); v == "" {
						break
					}
					time.Sleep(5 * time.Millisecond)
				}
			}
		}
		o.Obs = []uint64{0}
		return fmt.Sprintf("(OS sym (Wait sym %s))", vh.Z(o.Off))
	case "probe":
		hdr := ""
		if o.HasHdr {
			t, _ := s.eval(o.Tok)
			hdr = o.Scheme + t
		}
		kind, tokstr := classify(hdr)
		var hterm string
		switch kind {
		case "absent":
			hterm = "(HAbsent sym)"
		case "bad":
			hterm = "(HBad sym)"
		default:
			hterm = fmt.Sprintf("(HTok sym %s %s)", s.plainTerm(tokstr), vh.Bool(s.jwt[tokstr]))
			for i, t := range s.gAuthTok { // an inactive token of an active user is presented (counted in the evidence)
				if t != "" && t == tokstr && !s.jwt[tokstr] && s.gAuthLive[i] && !s.gAuthActive[i] && s.userKnown(s.gAuthUser[i]) && s.gUserActive[s.gAuthUser[i]] {
					s.shapes[sigInactiveToken] = true
				}
			}
		}
		r := httptest.NewRequest("GET", "/api/v2/probe", nil)
		if hdr != "" {
			r.Header["Authorization"] = []string{hdr}
		}
		ck := "None"
		if o.Cookie != nil {
			c, ct := s.eval(o.Cookie)
			r.AddCookie(&http.Cookie{Name: "influxdb-oss-session", Value: c})
			ck = "(Some " + ct + ")"
		}
		s.last = nil
		w := httptest.NewRecorder()
		h := s.hNo
		if o.Renew {
			h = s.hRenew
		}
		h.ServeHTTP(w, r)
		code := uint64(w.Code)
		if s.last != nil && s.last.reached {
			sn := s.last
			var k, ident, perm uint64 = 9, 999, 0
			switch sn.kind {
			case influxdb.AuthorizationKind:
				k, ident = 1, idxOf(s.auths, sn.ident)
				if sn.permOK {
					perm = uint64(sn.nperm) + 1
				}
			case influxdb.SessionAuthorizationKind:
				k, ident = 2, idxOf(s.sessions, sn.ident)
				if sn.permOK {
					perm = 1
				}
				if o.Renew && kind != "tok" {
					for i := range s.gSessKey {
						if uint64(i) == ident && s.gNow+300000 > s.gSessExp[i] {
							s.gSessExp[i] = s.gNow + 300000
						}
					}
				}
			}
			o.Obs = []uint64{code, k, idxOf(s.users, sn.uid), ident, perm}
		} else {
			o.Obs = []uint64{code}
		}
		return fmt.Sprintf("(Probe sym %s %s %s)", hterm, ck, vh.Bool(o.Renew))
	}
	panic("unknown op " + o.K)
}

func obsTerm(o []uint64) string { return vh.Ns(o) }

type result struct {
	c      *jcase
	term   string
	sig    string
	nontr  bool
	counts map[string]string
	fail   string
	bad    bool // timing precondition not established: discard
}

// runHist executes a history. If gen != nil, operations are generated on the fly.
func runHist(c *jcase, gen *rand.Rand, nops int, flavour int) *result {
	res := &result{c: c, counts: map[string]string{}}
	s, err := newStack(c.Strong, c.UH, c.HV)
	if err != nil {
		res.fail = "setup: " + err.Error()
		return res
	}
	var terms, obs []string
	step := func(o *jop) {
		var t string
		if pn := vh.Guard(func() { t = s.exec(c.Strong, o) }); pn != "" {
			res.fail = fmt.Sprintf("panic in op %s: %s", o.K, pn)
			return
		}
		if s.shortOpen && time.Since(s.shortAt) > 70*time.Millisecond && o.K != "wait" {
			s.timingBad = true
		}
		terms = append(terms, t)
		obs = append(obs, obsTerm(o.Obs))
	}
	if gen == nil {
		for _, o := range c.Ops {
			step(o)
			if res.fail != "" {
				return res
			}
		}
	} else {
		g := &generator{r: gen, s: s, strong: c.Strong, flavour: flavour}
		for len(c.Ops) < nops && res.fail == "" {
			for _, o := range g.next() {
				c.Ops = append(c.Ops, o)
				step(o)
				if res.fail != "" {
					return res
				}
			}
		}
	}
	res.bad = s.timingBad
	ok200, pwok := false, false
	for _, o := range c.Ops {
		if o.K == "probe" && len(o.Obs) > 0 && o.Obs[0] == 200 {
			ok200 = true
		}
		if (o.K == "cmp_pw" || o.K == "cas_pw") && len(o.Obs) == 1 && o.Obs[0] == 0 {
			pwok = true
		}
	}
	res.nontr = ok200 || pwok
	// no known-finding signature any more: the inactive-token shape (s.shapes) is only counted
	if s.shapes[sigInactiveToken] {
		res.counts["inactive_token_probed"] = "true"
	}
	res.term = fmt.Sprintf("(CHist %s %s %s %s %s)", vh.Bool(c.Strong), vh.Bool(c.UH), variantTerm(c.HV), vh.List(terms), vh.List(obs))
	return res
}

// ---- generator
type generator struct {
	r       *rand.Rand
	s       *stack
	strong  bool
	flavour int // 0 normal, 1 deliberately probes inactive tokens of active users
	npw10   int // cost-10 bcrypt operations so far
	ntok    int
	nsess   int
	pws     []string
}

var schemes = []string{"Token ", "Token ", "Token ", "token ", "TOKEN ", "Bearer ", "bearer ", "BeArEr ", "Basic ", "Token", "Tokens ", " Token ", "Bearer", ""}

func (g *generator) pick(n int) int { return g.r.IntN(n) }

func (g *generator) password() *sspec {
	if g.pws == nil {
		base := []string{"Abcdefg1", "Abcdefg1x", "abcdefgh", "Zyx!9876", "short1A", strings.Repeat("Ab1", 24), strings.Repeat("Xy2", 24) + "x", "12345678"}
		g.pws = base
	}
	k := g.pick(len(g.pws) + 1)
	if k == len(g.pws) {
		return &sspec{T: "empty"} // also under strong checking (IsPasswordStrong used to divide by len == 0: fixed by 3a5dc47ac9)
	}
	return &sspec{T: "plain", S: g.pws[k]}
}

func (g *generator) user() int {
	n := len(g.s.users)
	if n == 0 || g.pick(12) == 0 {
		return 99 // a user that never exists
	}
	return g.pick(n)
}

func (g *generator) authIdx() int {
	n := len(g.s.auths)
	if n == 0 || g.pick(10) == 0 {
		return 99 // an authorization that never exists
	}
	return g.pick(n)
}

func (g *generator) tokenName(i int) string { return fmt.Sprintf("tok-%d", i) }

// a string to present as a token / to store
func (g *generator) knownToken() *sspec {
	if g.ntok == 0 || g.pick(8) == 0 {
		return &sspec{T: "plain", S: fmt.Sprintf("nope-%d", g.pick(3))}
	}
	return &sspec{T: "plain", S: g.tokenName(g.pick(g.ntok))}
}

func (g *generator) presented() *sspec {
	switch g.pick(14) {
	case 0:
		return &sspec{T: "phc", V: []int{256, 512}[g.pick(2)], Of: g.knownToken()} // the stored hash itself, presented as a token
	case 1:
		return &sspec{T: "jwt", S: fmt.Sprint(g.pick(2))}
	case 2:
		return &sspec{T: "empty"}
	case 3:
		return &sspec{T: "badphc", S: "$influxdb2-sha256$!!!"}
	default:
		return g.knownToken()
	}
}

func (g *generator) sessKey() *sspec {
	if g.nsess == 0 || g.pick(8) == 0 {
		return &sspec{T: "plain", S: "nokey"}
	}
	return &sspec{T: "plain", S: fmt.Sprintf("sess-%d", g.pick(g.nsess))}
}

// probeAllowed: in a normal history the generator does not present the token of an
// inactive authorization whose user is active (that shape was a finding, repaired in /repo; flavour 1 histories exercise it).
func (g *generator) probeOK(o *jop) bool {
	if g.flavour == 1 || !o.HasHdr {
		return true
	}
	t, _ := g.s.eval(o.Tok)
	kind, tokstr := classify(o.Scheme + t)
	if kind != "tok" {
		return true
	}
	s := g.s
	for i, x := range s.gAuthTok {
		if x != "" && x == tokstr && s.gAuthLive[i] && !s.gAuthActive[i] && s.userKnown(s.gAuthUser[i]) && s.gUserActive[s.gAuthUser[i]] {
			return false
		}
	}
	return true
}

func (g *generator) probe() *jop {
	for {
		o := &jop{K: "probe", Renew: g.pick(2) == 0}
		switch g.pick(10) {
		case 0: // neither
		case 1, 2: // cookie only
			o.Cookie = g.sessKey()
		case 3: // both
			o.Cookie = g.sessKey()
			o.HasHdr, o.Scheme, o.Tok = true, schemes[g.pick(len(schemes))], g.presented()
		default:
			o.HasHdr, o.Scheme, o.Tok = true, schemes[g.pick(len(schemes))], g.presented()
			if g.pick(3) != 0 {
				o.Scheme = schemes[g.pick(8)]
			}
		}
		if g.probeOK(o) {
			return o
		}
	}
}

func (g *generator) next() []*jop {
	s := g.s
	if len(s.users) == 0 || (len(s.users) < 3 && g.pick(10) == 0) {
		return []*jop{{K: "create_user"}}
	}
	if g.flavour == 1 && g.pick(6) == 0 { // deactivate a token, present it (must be refused), maybe reactivate
		for i, t := range s.gAuthTok {
			if t != "" && s.gAuthLive[i] && g.pick(2) == 0 {
				return []*jop{{K: "set_auth_active", ID: i, Active: false}, {K: "probe", HasHdr: true, Scheme: "Token ", Tok: &sspec{T: "plain", S: t}},
					{K: "set_auth_active", ID: i, Active: g.pick(2) == 0}}
			}
		}
	}
	switch k := g.pick(100); {
	case k < 6:
		return []*jop{{K: "set_user_active", U: g.user(), Active: g.pick(2) == 0}}
	case k < 8:
		return []*jop{{K: "delete_user", U: g.user()}}
	case k < 13: // API set (bcrypt cost 10: rationed)
		if g.npw10 >= 3 {
			return []*jop{g.probe()}
		}
		g.npw10++
		return []*jop{{K: "set_pw", U: g.user(), P: g.password()}}
	case k < 22: // stored hashes of every accepted legacy shape, written directly
		p := g.password()
		if p.T == "empty" || len(p.S) > 72 {
			p = &sspec{T: "plain", S: "Abcdefg1"}
		}
		if g.pick(4) == 0 {
			garb := []string{"", "notahash", "$1$abcdefgh$0123456789abcdefghijkl", "$2a$04$short", "$3a$04$RSQswP94NqiGHPkdb0vXR.w8RcEEDhm0h2MRIRzWT/V1zG4sUMni2", "$2a$99$RSQswP94NqiGHPkdb0vXR.w8RcEEDhm0h2MRIRzWT/V1zG4sUMni2", "$2a$04$RSQswP94NqiGHPkdb0vXR.w8RcEEDhm0h2MRIRzWT/V1zG4sUMn"}
			return []*jop{{K: "put_pw_raw", U: g.user(), P: &sspec{T: "garbage", S: garb[g.pick(len(garb))]}}}
		}
		return []*jop{{K: "put_pw_raw", U: g.user(), P: &sspec{T: "bcrypt", Of: p, Cost: 4 + g.pick(3), Minor: []string{"a", "a", "b", "y", "x", ""}[g.pick(6)]}}}
	case k < 34:
		return []*jop{{K: "cmp_pw", U: g.user(), P: g.password()}}
	case k < 40:
		o := &jop{K: "cas_pw", U: g.user(), Old: g.password(), P: g.password()}
		if o.Old.T == "empty" {
			o.Old = &sspec{T: "plain", S: "Abcdefg1"}
		}
		return []*jop{o}
	case k < 52: // tokens in every stored format
		o := &jop{K: "create_auth", U: g.user(), Active: g.pick(5) != 0, NPerm: g.pick(4)}
		switch g.pick(12) {
		case 0: // restore path: only the hash is given
			name := g.tokenName(g.ntok)
			g.ntok++
			o.HTok = &sspec{T: "phc", V: []int{256, 512}[g.pick(2)], Of: &sspec{T: "plain", S: name}}
		case 1: // both given (matching or not)
			name := g.tokenName(g.ntok)
			g.ntok++
			o.Tok = &sspec{T: "plain", S: name}
			of := &sspec{T: "plain", S: name}
			if g.pick(3) == 0 {
				of = &sspec{T: "plain", S: "other"}
			}
			o.HTok = &sspec{T: "phc", V: []int{256, 512}[g.pick(2)], Of: of}
		case 2: // malformed / unknown stored hash
			bad := []*sspec{{T: "badphc", S: "$influxdb2-sha256$!!!"}, {T: "badphc", S: "$influxdb2-sha256$"}, {T: "badphc", S: "$sha999$QUJD"}, {T: "badphc", S: "nodollar"},
				{T: "junk", V: 256, S: "QUJD"}, {T: "junk", V: 512, S: "QUJDREVG"}}
			o.HTok = bad[g.pick(len(bad))]
		case 3: // an existing token again (uniqueness)
			o.Tok = g.knownToken()
		case 4: // a raw token that is jwt-shaped
			o.Tok = &sspec{T: "jwt", S: fmt.Sprint(g.pick(2))}
		default:
			name := g.tokenName(g.ntok)
			g.ntok++
			o.Tok = &sspec{T: "plain", S: name}
		}
		return []*jop{o}
	case k < 58:
		return []*jop{{K: "set_auth_active", ID: g.authIdx(), Active: g.pick(2) == 0}}
	case k < 61:
		return []*jop{{K: "delete_auth", ID: g.authIdx()}}
	case k < 66:
		return []*jop{{K: "reopen", UH: g.pick(2) == 0, HV: []int{256, 512}[g.pick(2)]}}
	case k < 73:
		key := &sspec{T: "plain", S: fmt.Sprintf("sess-%d", g.nsess)}
		g.nsess++
		off := []int64{farMs, farMs, farMs, 2 * farMs, -farMs}[g.pick(5)]
		return []*jop{{K: "create_sess", U: g.user(), Key: key, Off: off}}
	case k < 74: // a short session, at most one quick operation, then a wait past its expiry
		key := &sspec{T: "plain", S: fmt.Sprintf("sess-%d", g.nsess)}
		g.nsess++
		ops := []*jop{{K: "create_sess", U: g.user(), Key: key, Off: shortMs}}
		switch g.pick(4) {
		case 0:
			ops = append(ops, &jop{K: "probe", Cookie: key, Renew: false})
		case 1:
			ops = append(ops, &jop{K: "probe", Cookie: key, Renew: true})
		case 2:
			ops = append(ops, &jop{K: "renew_sess", Key: key, Off: []int64{farMs, -farMs, 50}[g.pick(3)]})
		}
		ops = append(ops, &jop{K: "wait", Off: waitMs})
		if g.pick(2) == 0 { // renew the expired session through the object obtained at creation
			ops = append(ops, &jop{K: "renew_by_id", ID: len(s.sessions), Off: farMs})
		}
		ops = append(ops, &jop{K: "probe", Cookie: key, Renew: g.pick(2) == 0})
		return ops
	case k < 75: // a caller holds a session object, the session is signed out, the held object is renewed
		for i, key := range s.gSessKey {
			if s.gSessLive[i] && g.pick(2) == 0 {
				kk := &sspec{T: "plain", S: key}
				ops := []*jop{{K: "find_sess", Key: kk}}
				if g.pick(3) != 0 {
					ops = append(ops, &jop{K: "expire_sess", Key: kk})
				} // else: control, renewal of a live session
				ops = append(ops, &jop{K: "renew_by_id", ID: i, Off: []int64{farMs, 2 * farMs, 3 * farMs}[g.pick(3)]},
					&jop{K: "find_sess", Key: kk}, &jop{K: "probe", Cookie: kk, Renew: g.pick(2) == 0})
				return ops
			}
		}
		return []*jop{{K: "renew_by_id", ID: 99, Off: farMs}}
	case k < 76: // the same through the middleware: sign-out between its FindSession and RenewSession,
		// for a session with less than RenewSessionTime (5 min) left, so that the renewal is not a no-op
		key := &sspec{T: "plain", S: fmt.Sprintf("sess-%d", g.nsess)}
		g.nsess++
		return []*jop{{K: "create_sess", U: g.user(), Key: key, Off: 200000}, {K: "probe_race", Key: key},
			{K: "probe", Cookie: key, Renew: g.pick(2) == 0}, {K: "find_sess", Key: key}}
	case k < 77:
		if g.pick(2) == 0 {
			return []*jop{{K: "find_sess", Key: g.sessKey()}}
		}
		return []*jop{{K: "expire_sess", Key: g.sessKey()}}
	case k < 80:
		return []*jop{{K: "renew_sess", Key: g.sessKey(), Off: []int64{farMs, 2 * farMs, 3 * farMs, -farMs}[g.pick(4)]}}
	default:
		return []*jop{g.probe()}
	}
}

// ---- hand-picked histories
func pl(s string) *sspec { return &sspec{T: "plain", S: s} }
func corpus() []*jcase {
	tok := func(scheme string, t *sspec) *jop { return &jop{K: "probe", HasHdr: true, Scheme: scheme, Tok: t} }
	return []*jcase{
		// password: set, compare, change, old password no longer valid, failed change changes nothing
		{Kind: "hist", UH: true, HV: 256, Ops: []*jop{{K: "create_user"}, {K: "cmp_pw", U: 0, P: pl("Abcdefg1")},
			{K: "set_pw", U: 0, P: pl("Abcdefg1")}, {K: "cmp_pw", U: 0, P: pl("Abcdefg1")}, {K: "cmp_pw", U: 0, P: pl("Abcdefg1x")},
			{K: "cas_pw", U: 0, Old: pl("wrongpass"), P: pl("Zyx!9876")}, {K: "cmp_pw", U: 0, P: pl("Zyx!9876")},
			{K: "cas_pw", U: 0, Old: pl("Abcdefg1"), P: pl("Zyx!9876")}, {K: "cmp_pw", U: 0, P: pl("Abcdefg1")}, {K: "cmp_pw", U: 0, P: pl("Zyx!9876")},
			{K: "cas_pw", U: 0, Old: pl("Zyx!9876"), P: pl("short")}, {K: "cmp_pw", U: 0, P: pl("Zyx!9876")},
			{K: "delete_user", U: 0}, {K: "cmp_pw", U: 0, P: pl("Zyx!9876")}}},
		// every legacy bcrypt shape verifies exactly its own password; malformed hashes verify nothing
		{Kind: "hist", Strong: true, UH: true, HV: 256, Ops: []*jop{{K: "create_user"},
			{K: "put_pw_raw", U: 0, P: &sspec{T: "bcrypt", Of: pl("Abcdefg1"), Cost: 4, Minor: "a"}}, {K: "cmp_pw", U: 0, P: pl("Abcdefg1")}, {K: "cmp_pw", U: 0, P: pl("Abcdefg1x")},
			{K: "put_pw_raw", U: 0, P: &sspec{T: "bcrypt", Of: pl("Zyx!9876"), Cost: 5, Minor: "b"}}, {K: "cmp_pw", U: 0, P: pl("Zyx!9876")}, {K: "cmp_pw", U: 0, P: pl("Abcdefg1")},
			{K: "put_pw_raw", U: 0, P: &sspec{T: "bcrypt", Of: pl("abcdefgh"), Cost: 6, Minor: "y"}}, {K: "cmp_pw", U: 0, P: pl("abcdefgh")},
			{K: "put_pw_raw", U: 0, P: &sspec{T: "bcrypt", Of: pl("short1A"), Cost: 4, Minor: ""}}, {K: "cmp_pw", U: 0, P: pl("short1A")},
			{K: "put_pw_raw", U: 0, P: &sspec{T: "garbage", S: "notahash"}}, {K: "cmp_pw", U: 0, P: pl("Abcdefg1")},
			{K: "put_pw_raw", U: 0, P: &sspec{T: "garbage", S: ""}}, {K: "cmp_pw", U: 0, P: pl("Abcdefg1")},
			{K: "cas_pw", U: 0, Old: pl("Abcdefg1"), P: pl("Zyx!9876")}}},
		// tokens through all stored formats: raw -> sha256 (migration) -> sha512 store; delete; deactivate user
		{Kind: "hist", UH: false, HV: 256, Ops: []*jop{{K: "create_user"}, {K: "create_auth", U: 0, Tok: pl("tok-0"), Active: true, NPerm: 2},
			tok("Token ", pl("tok-0")), {K: "reopen", UH: true, HV: 256}, tok("Bearer ", pl("tok-0")),
			tok("Token ", &sspec{T: "phc", V: 256, Of: pl("tok-0")}),
			{K: "reopen", UH: true, HV: 512}, tok("token ", pl("tok-0")), {K: "create_auth", U: 0, Tok: pl("tok-1"), Active: true, NPerm: 1}, tok("Token ", pl("tok-1")),
			{K: "reopen", UH: false, HV: 256}, tok("Token ", pl("tok-1")), tok("Token ", pl("tok-0")),
			{K: "set_user_active", U: 0, Active: false}, tok("Token ", pl("tok-0")), {K: "set_user_active", U: 0, Active: true},
			{K: "delete_auth", ID: 0}, tok("Token ", pl("tok-0")), tok("Token ", pl("tok-1")),
			{K: "delete_user", U: 0}, tok("Token ", pl("tok-1"))}},
		// a sha512-hashed token restored into a store that only registered sha256; then reopened
		{Kind: "hist", UH: true, HV: 256, Ops: []*jop{{K: "create_user"},
			{K: "create_auth", U: 0, HTok: &sspec{T: "phc", V: 512, Of: pl("tok-0")}, Active: true, NPerm: 1}, tok("Token ", pl("tok-0")),
			{K: "reopen", UH: true, HV: 256}, tok("Token ", pl("tok-0")),
			{K: "create_auth", U: 0, HTok: &sspec{T: "badphc", S: "$influxdb2-sha256$!!!"}, Active: true}, tok("Token ", &sspec{T: "badphc", S: "$influxdb2-sha256$!!!"}),
			{K: "create_auth", U: 0, HTok: &sspec{T: "junk", V: 512, S: "QUJD"}, Active: true}, tok("Token ", pl("QUJD")), tok("Token ", pl("tok-0"))}},
		// a held session object must not revive a signed-out / expired / never stored session (service level and
		// through the middleware); renewing a live session through a held object is the control
		{Kind: "hist", UH: true, HV: 256, Ops: []*jop{{K: "create_user"}, {K: "create_sess", U: 0, Key: pl("sess-0"), Off: farMs},
			{K: "find_sess", Key: pl("sess-0")}, {K: "renew_by_id", ID: 0, Off: 2 * farMs}, {K: "find_sess", Key: pl("sess-0")}, {K: "probe", Cookie: pl("sess-0")},
			{K: "expire_sess", Key: pl("sess-0")}, {K: "renew_by_id", ID: 0, Off: 3 * farMs}, {K: "find_sess", Key: pl("sess-0")}, {K: "probe", Cookie: pl("sess-0"), Renew: true},
			{K: "create_sess", U: 0, Key: pl("sess-1"), Off: shortMs}, {K: "wait", Off: waitMs}, {K: "renew_by_id", ID: 1, Off: farMs}, {K: "find_sess", Key: pl("sess-1")}, {K: "probe", Cookie: pl("sess-1")},
			{K: "create_sess", U: 0, Key: pl("sess-2"), Off: -farMs}, {K: "renew_by_id", ID: 2, Off: farMs}, {K: "probe", Cookie: pl("sess-2")},
			{K: "create_sess", U: 0, Key: pl("sess-3"), Off: 200000}, {K: "probe", Cookie: pl("sess-3")}, {K: "probe_race", Key: pl("sess-3")},
			{K: "probe", Cookie: pl("sess-3"), Renew: true}, {K: "find_sess", Key: pl("sess-3")}, {K: "renew_by_id", ID: 99, Off: farMs},
			{K: "create_sess", U: 0, Key: pl("sess-4"), Off: farMs}, {K: "probe_race", Key: pl("sess-4")}, {K: "probe", Cookie: pl("sess-4")}}},
		// sessions: cookie, both cookie and token (the token decides), expiry, renewal, inactive user
		{Kind: "hist", UH: true, HV: 256, Ops: []*jop{{K: "create_user"}, {K: "create_sess", U: 0, Key: pl("sess-0"), Off: farMs},
			{K: "probe", Cookie: pl("sess-0")}, {K: "probe", Cookie: pl("sess-0"), Renew: true}, {K: "probe", Cookie: pl("nokey")},
			{K: "probe", Cookie: pl("sess-0"), HasHdr: true, Scheme: "Token ", Tok: pl("nope")},
			{K: "probe", Cookie: pl("sess-0"), HasHdr: true, Scheme: "Basic ", Tok: pl("nope")},
			{K: "create_sess", U: 0, Key: pl("sess-1"), Off: -farMs}, {K: "probe", Cookie: pl("sess-1")},
			{K: "create_sess", U: 0, Key: pl("sess-2"), Off: shortMs}, {K: "wait", Off: waitMs}, {K: "probe", Cookie: pl("sess-2")}, {K: "probe", Cookie: pl("sess-0")},
			{K: "set_user_active", U: 0, Active: false}, {K: "probe", Cookie: pl("sess-0")}, {K: "set_user_active", U: 0, Active: true},
			{K: "expire_sess", Key: pl("sess-0")}, {K: "probe", Cookie: pl("sess-0")}, {K: "renew_sess", Key: pl("sess-0"), Off: farMs}}},
		// an inactive token of an active user is refused with 401 (passed the middleware before the /repo fix)
		{Kind: "hist", UH: true, HV: 256, Ops: []*jop{{K: "create_user"}, {K: "create_auth", U: 0, Tok: pl("tok-0"), Active: true, NPerm: 3},
			tok("Token ", pl("tok-0")), {K: "set_auth_active", ID: 0, Active: false}, tok("Token ", pl("tok-0")),
			{K: "set_auth_active", ID: 0, Active: true}, tok("Token ", pl("tok-0"))}},
		// empty password with strong-password checking: rejected with the length error (panicked before /repo 3a5dc47ac9)
		{Kind: "hist", Strong: true, UH: true, HV: 256, Ops: []*jop{{K: "create_user"}, {K: "set_pw", U: 0, P: pl("Abcdefg1")},
			{K: "cmp_pw", U: 0, P: &sspec{T: "empty"}}, {K: "set_pw", U: 0, P: &sspec{T: "empty"}}, {K: "cmp_pw", U: 0, P: pl("Abcdefg1")}}},
		// empty password without strong checking is just too short
		{Kind: "hist", UH: true, HV: 256, Ops: []*jop{{K: "create_user"}, {K: "set_pw", U: 0, P: &sspec{T: "empty"}}, {K: "cmp_pw", U: 0, P: &sspec{T: "empty"}},
			{K: "put_pw_raw", U: 0, P: &sspec{T: "bcrypt", Of: &sspec{T: "empty"}, Cost: 4, Minor: "a"}}, {K: "cmp_pw", U: 0, P: &sspec{T: "empty"}}}},
	}
}

// ---- header cases
func runHdr(w *vh.W, c *jcase) {
	r := httptest.NewRequest("GET", "/", nil)
	r.Header["Authorization"] = []string{string(c.Hdr)}
	t, err := ihttp.GetToken(r)
	c.HdrOK, c.HdrTok = err == nil, nil
	res := "None"
	if err == nil {
		c.HdrTok = []byte(t)
		res = "(Some " + vh.Bytes([]byte(t)) + ")"
	}
	w.Add(fmt.Sprintf("(CHdr %s %s)", vh.Bytes(c.Hdr), res), c, err == nil, "")
	w.Count("kind", "hdr")
	w.Count("hdr_accepted", fmt.Sprint(err == nil))
}

func genHdr(r *rand.Rand) []byte {
	words := []string{"Token ", "token ", "TOKEN ", "tOkEn ", "Bearer ", "bearer ", "BEARER ", "Token", "Bearer", "Toke ", "Tokem ", "Basic ", "", " Token ", "Token\t", "Bearer\t", "Bearer  ", "Token  ", "TokenBearer ", "Bearer Token "}
	h := []byte(words[r.IntN(len(words))])
	n := []int{0, 0, 1, 2, 5, 9}[r.IntN(6)]
	for i := 0; i < n; i++ {
		alpha := []byte("abXY09 $.-_=\x00\xff")
		h = append(h, alpha[r.IntN(len(alpha))])
	}
	for k := r.IntN(3); k > 0 && len(h) > 0; k-- { // mutate
		i := r.IntN(len(h))
		switch r.IntN(4) {
		case 0:
			h[i] ^= 0x20
		case 1:
			h = append(h[:i], h[i+1:]...)
		case 2:
			h[i] = byte(r.IntN(256))
		case 3:
			h = append(h[:i], append([]byte{byte(32 + r.IntN(95))}, h[i:]...)...)
		}
	}
	return h
}

func add(w *vh.W, res *result) {
	if res.fail != "" {
		idx := w.Add("(CHist false false V256 [] [])", res.c, false, res.sig)
		w.Fail(idx, res.fail, res.sig)
		return
	}
	w.Add(res.term, res.c, res.nontr, res.sig)
	w.Count("kind", "hist")
	for k, v := range res.counts {
		w.Count(k, v)
	}
	w.Count("strong", fmt.Sprint(res.c.Strong))
	w.Count("config", fmt.Sprintf("hashed=%v/%d", res.c.UH, res.c.HV))
	for _, o := range res.c.Ops {
		w.Count("op", o.K)
		if o.K == "probe" || o.K == "probe_race" {
			w.Count("probe_status", fmt.Sprint(o.Obs[0]))
		}
		if o.K == "cmp_pw" || o.K == "cas_pw" || o.K == "set_pw" {
			w.Count("pw_result", fmt.Sprint(o.Obs[0]))
		}
		if o.K == "create_auth" {
			w.Count("create_auth_result", fmt.Sprint(o.Obs[0]))
		}
	}
}

func main() {
	w := vh.New("C44", "From Verif Require Import Base.Prelude Model.C44.", "case", "check")
	w.Rule = "n/4 histories (hand-picked ones first) of 12-40 operations over <=3 users: create/activate/deactivate/delete user; SetPassword / ComparePassword / CompareAndSetPassword with a pool of 9 passwords (valid, weak, too short, empty, 72 and 73 bytes, prefix pairs); bcrypt hashes of every accepted shape ($2$ $2a$ $2b$ $2x$ $2y$, cost 4-6) and malformed hashes written into the password bucket; authorizations created with a raw token, with only a $influxdb2-sha256/512$ hash, with both, with malformed hashes; status updates, deletes, and re-opening the authorization store with hashing on/off and sha256/sha512 (token migration); sessions with far/past/short/under-5-min expiry, explicit renew/expire, waits, FindSession keeping the returned object, RenewSession through a session object obtained earlier (after sign-out, after expiry, never stored, live = control), a sign-out landing between the middleware's FindSession and RenewSession; probe requests through AuthenticationHandler with 14 scheme spellings, known/unknown/hashed/jwt-shaped/empty tokens, cookie, both, neither, renewal on/off. 3n/4 byte-level Authorization headers for http.GetToken. Non-trivial: a history with an authenticated probe or a successful password check; an accepted header. Distinct: distinct Gallina terms."
	var rc jcase
	if w.ReplayCase(&rc) {
		if rc.Kind == "hdr" {
			runHdr(w, &rc)
		} else {
			for _, o := range rc.Ops {
				o.Obs = nil
			}
			add(w, runHist(&rc, nil, 0, 0))
		}
		w.Finish()
		return
	}
	nh := w.N / 4
	if nh < 12 {
		nh = 12
	}
	cs := corpus()
	results := make([]*result, nh)
	seeds := make([][2]uint64, nh)
	for i := range seeds {
		seeds[i] = [2]uint64{w.Rng.Uint64(), w.Rng.Uint64()}
	}
	discards := 0
	var mu sync.Mutex
	var wg sync.WaitGroup
	sem := make(chan struct{}, 4)
	for i := 0; i < nh; i++ {
		wg.Add(1)
		sem <- struct{}{}
		go func(i int) {
			defer wg.Done()
			defer func() { <-sem }()
			if i < len(cs) {
				for try := 0; ; try++ {
					c := *cs[i]
					b, _ := json.Marshal(cs[i])
					json.Unmarshal(b, &c)
					res := runHist(&c, nil, 0, 0)
					if !res.bad || try > 5 {
						results[i] = res
						return
					}
				}
			}
			r := rand.New(rand.NewPCG(seeds[i][0], seeds[i][1]))
			for try := 0; ; try++ {
				flavour := 0
				if r.IntN(8) == 0 {
					flavour = 1
				}
				c := &jcase{Kind: "hist", Strong: r.IntN(3) == 0, UH: r.IntN(3) != 0, HV: []int{256, 256, 512}[r.IntN(3)]}
				res := runHist(c, r, 12+r.IntN(29), flavour)
				if !res.bad || try > 5 {
					results[i] = res
					return
				}
				mu.Lock()
				discards++
				mu.Unlock()
			}
		}(i)
	}
	wg.Wait()
	for _, res := range results {
		if res.bad {
			continue // the timing precondition of a short session could not be established (machine too slow)
		}
		add(w, res)
	}
	w.Extra["timing_discards"] = discards
	for w.Len() < w.N {
		runHdr(w, &jcase{Kind: "hdr", Hdr: genHdr(w.Rng)})
	}
	w.Finish()
}
