(** C13 — byte-level lemmas: entry framing round trip ([scan] of an encoded log) *)
From Verif Require Import Base.Prelude Model.C13.
From Coq Require Import ZifyBool ZifyNat ZifyN.
Ltac Zify.zify_post_hook ::= Z.div_mod_to_equations.
Open Scope N_scope.

Arguments byte_at : simpl never.

Lemma take0_length n l : length (take0 n l) = n.
Proof. revert l; induction n as [|n IH]; intros [|x l]; cbn; auto. Qed.

Lemma take0_app_ge a b m : take0 (length a + m) (a ++ b) = a ++ take0 m b.
Proof. induction a as [|x a IH]; cbn; [reflexivity|]. now rewrite IH. Qed.

Lemma take0_app_exact l r : take0 (length l) (l ++ r) = l.
Proof.
  replace (length l) with (length l + 0)%nat by lia.
  rewrite take0_app_ge. cbn. apply app_nil_r.
Qed.

Lemma skipn_app_exact {A} (l r : list A) : skipn (length l) (l ++ r) = r.
Proof. induction l; cbn; auto. Qed.

Lemma key_eqb_spec (a b : key) : key_eqb a b = true <-> a = b.
Proof. apply list_eqb_spec. intros; apply N.eqb_eq. Qed.

Lemma key_eqb_refl a : key_eqb a a = true.
Proof. now apply key_eqb_spec. Qed.

Lemma key_eqb_neq a b : a <> b -> key_eqb a b = false.
Proof. intro H. destruct (key_eqb a b) eqn:E; auto. apply key_eqb_spec in E. contradiction. Qed.

(** ** Big-endian ids *)
Lemma be_dec_bytes x : x < 2 ^ 64 ->
  be_dec [byte_at x 7; byte_at x 6; byte_at x 5; byte_at x 4;
          byte_at x 3; byte_at x 2; byte_at x 1; byte_at x 0] = x.
Proof.
  intro H. unfold be_dec, byte_at. cbn [fold_left].
  change (2 ^ 64) with 18446744073709551616 in H.
  change (2 ^ (8 * 7)) with 72057594037927936.
  change (2 ^ (8 * 6)) with 281474976710656.
  change (2 ^ (8 * 5)) with 1099511627776.
  change (2 ^ (8 * 4)) with 4294967296.
  change (2 ^ (8 * 3)) with 16777216.
  change (2 ^ (8 * 2)) with 65536.
  change (2 ^ (8 * 1)) with 256.
  change (2 ^ (8 * 0)) with 1.
  lia.
Qed.

Lemma be64_length x : length (be64 x) = 8%nat.
Proof. reflexivity. Qed.

(** ** Uvarint (1- and 2-byte lengths: key bodies shorter than 16384 bytes) *)
Lemma put_uvarint_small x : x < 128 -> put_uvarint x = [x].
Proof.
  intro H. unfold put_uvarint. cbn [put_uvarint_go].
  destruct (x <? 128) eqn:E; [reflexivity | lia].
Qed.

Lemma put_uvarint_two x : 128 <= x < 16384 -> put_uvarint x = [128 + x mod 128; x / 128].
Proof.
  intro H. unfold put_uvarint. cbn [put_uvarint_go].
  destruct (x <? 128) eqn:E; [lia|].
  destruct (x / 128 <? 128) eqn:E2; [reflexivity | lia].
Qed.

Lemma uvarint_one x rest : x < 128 -> uvarint (x :: rest) = Some (x, 1).
Proof.
  intro H. unfold uvarint. cbn [uvarint_go hd].
  destruct (x <? 128) eqn:E; [|lia].
  cbn [N.eqb andb]. f_equal. f_equal. change (2 ^ 0) with 1. lia.
Qed.

Lemma uvarint_two x rest : 128 <= x < 16384 ->
  uvarint ((128 + x mod 128) :: x / 128 :: rest) = Some (x, 2).
Proof.
  intro H. unfold uvarint. cbn [uvarint_go hd tl].
  destruct (128 + x mod 128 <? 128) eqn:E; [lia|].
  destruct (x / 128 <? 128) eqn:E2; [|lia].
  change (0 + 1 =? 9) with false. cbn [andb]. f_equal. f_equal.
  - change (2 ^ 0) with 1. change (2 ^ (0 + 7)) with 128. lia.
Qed.

(** A key is [framed] when [ReadSeriesKey] reads exactly it back, whatever follows. *)
Definition framed (k : key) : Prop := forall rest, read_key (k ++ rest) = k.

Lemma framed_mk_key body : N.of_nat (length body) < 16384 -> framed (mk_key body).
Proof.
  intros H rest. unfold mk_key, read_key.
  destruct (N.ltb_spec (N.of_nat (length body)) 128) as [Hs|Hb].
  - rewrite put_uvarint_small by assumption. cbn [app].
    rewrite uvarint_one by assumption.
    replace (N.to_nat (N.of_nat (length body) + 1)) with (length (N.of_nat (length body) :: body) + 0)%nat
      by (cbn [length]; lia).
    change (N.of_nat (length body) :: body ++ rest) with ((N.of_nat (length body) :: body) ++ rest).
    rewrite take0_app_ge. cbn [take0]. now rewrite app_nil_r.
  - rewrite put_uvarint_two by lia. cbn [app].
    rewrite uvarint_two by lia.
    set (a := 128 + N.of_nat (length body) mod 128). set (b := N.of_nat (length body) / 128).
    replace (N.to_nat (N.of_nat (length body) + 2)) with (length (a :: b :: body) + 0)%nat
      by (cbn [length]; lia).
    change (a :: b :: body ++ rest) with ((a :: b :: body) ++ rest).
    rewrite take0_app_ge. cbn [take0]. now rewrite app_nil_r.
Qed.

Lemma framed_nonnil k : framed k -> k <> [].
Proof. intros H E. subst. specialize (H []). cbn in H. discriminate. Qed.

(** ** Scanning an encoded log *)
Definition wf_entry (e : entry) : Prop :=
  match e with
  | Ins id k => id < 2 ^ 64 /\ framed k
  | Tomb id => id < 2 ^ 64
  end.

Lemma enc_length e :
  N.of_nat (length (enc e)) = match e with Ins _ k => 9 + N.of_nat (length k) | Tomb _ => 9 end.
Proof. destruct e; cbn [enc length]; rewrite ?app_length, ?be64_length; lia. Qed.

Lemma scan_go_nil f pos : scan_go f [] pos = [].
Proof. destruct f; reflexivity. Qed.

Lemma scan_go_app L : Forall wf_entry L -> forall f tail pos,
  scan_go (length L + f) (bytes_of L ++ tail) pos
  = with_offsets L pos ++ scan_go f tail (pos + N.of_nat (length (bytes_of L))).
Proof.
  induction 1 as [|e L He HL IH]; intros f tail pos.
  - cbn. now rewrite N.add_0_r.
  - cbn [bytes_of flat_map length Nat.add with_offsets]. fold (bytes_of L).
    rewrite <- app_assoc. destruct e as [id k | id].
    + destruct He as [Hid Hk].
      cbn [enc be64 map app scan_go].
      change (valid_flag FLAG_INS) with true. cbv iota.
      change (FLAG_INS =? FLAG_INS) with true. cbv iota.
      cbn [take0 skipn]. rewrite be_dec_bytes by assumption.
      rewrite Hk.
      cbn [Nat.add skipn]. rewrite skipn_app_exact.
      cbn [app]. f_equal. rewrite IH. f_equal.
      * f_equal. cbn [length]. lia.
      * f_equal. cbn [length]. rewrite app_length. lia.
    + cbn [enc be64 map app scan_go].
      change (valid_flag FLAG_TOMB) with true. cbv iota.
      change (FLAG_TOMB =? FLAG_INS) with false. cbv iota.
      cbn [take0 skipn length Nat.add]. rewrite be_dec_bytes by assumption.
      cbn [app]. f_equal. rewrite IH. f_equal.
      * f_equal. lia.
      * f_equal. cbn [length]. lia.
Qed.

Lemma bytes_of_length_ge L : (length L <= length (bytes_of L))%nat.
Proof.
  induction L as [|e L IH]; cbn [bytes_of flat_map length]; [lia|]. fold (bytes_of L).
  rewrite app_length. destruct e; cbn [enc length]; lia.
Qed.

Lemma bytes_of_app A B : bytes_of (A ++ B) = bytes_of A ++ bytes_of B.
Proof. unfold bytes_of. apply flat_map_app. Qed.

(** Scanning a segment that holds the encoding of [L], followed by [tail] and zeros. *)
Lemma scan_app L tail : Forall wf_entry L ->
  scan (bytes_of L ++ tail)
  = with_offsets L HDR ++ scan_go (length (bytes_of L ++ tail) - length L) tail
                            (HDR + N.of_nat (length (bytes_of L))).
Proof.
  intro H. unfold scan.
  replace (length (bytes_of L ++ tail)) with (length L + (length (bytes_of L ++ tail) - length L))%nat at 1.
  - now apply scan_go_app.
  - pose proof (bytes_of_length_ge L). rewrite app_length. lia.
Qed.

Theorem scan_bytes_of L : Forall wf_entry L -> scan (bytes_of L) = with_offsets L HDR.
Proof.
  intro H. rewrite <- (app_nil_r (bytes_of L)) at 1. rewrite scan_app by assumption.
  rewrite scan_go_nil. apply app_nil_r.
Qed.

Lemma with_offsets_app A B pos :
  with_offsets (A ++ B) pos = with_offsets A pos ++ with_offsets B (pos + N.of_nat (length (bytes_of A))).
Proof.
  revert pos; induction A as [|e A IH]; intro pos; cbn [app with_offsets bytes_of flat_map length].
  - now rewrite N.add_0_r.
  - fold (bytes_of A). f_equal. rewrite IH. f_equal. f_equal. rewrite app_length. lia.
Qed.

Lemma scan_end_with_offsets L pos0 pos :
  fold_left (fun _ e => se_off e + se_size e) (with_offsets L pos) pos0
  = match L with [] => pos0 | _ => pos + N.of_nat (length (bytes_of L)) end.
Proof.
  revert pos0 pos; induction L as [|e L IH]; intros pos0 pos; [reflexivity|].
  cbn [with_offsets fold_left]. rewrite IH.
  cbn [bytes_of flat_map]. fold (bytes_of L). rewrite app_length.
  destruct L as [|e' L'].
  - cbn [bytes_of flat_map length]. pose proof (enc_length e) as He.
    destruct e; unfold se_size; cbn [se_off se_key length] in *; lia.
  - lia.
Qed.

Lemma scan_end_bytes_of L : scan_end (with_offsets L HDR) = HDR + N.of_nat (length (bytes_of L)).
Proof.
  unfold scan_end. rewrite scan_end_with_offsets. destruct L; [cbn; lia | reflexivity].
Qed.
