(** C34 — Configuration sizes and durations round-trip exactly.  Property theorems only.

    Strings are byte lists; [dec n] is the decimal text of n (strconv.AppendUint), [B "kib"]
    the bytes of a literal.  [marshal t z] is what the configuration layer writes for the
    value z of type t, [unmarshal t text] is t's UnmarshalText ([None] = error);
    TV1/TSV1 = toml.SizeV1/SSizeV1, TV2/TSV2 = toml.SizeV2/SSizeV2 (= toml.Size/SSize on
    this branch), TDur = toml.Duration. *)
From Verif Require Import Base.Prelude Model.C34
  Proofs.C34_dec Proofs.C34_float Proofs.C34_size Proofs.C34_v2 Proofs.C34_dur.
From Coq Require Import String.
Local Open Scope N_scope.
Local Open Scope list_scope.

(** SizeV1: every uint64 round-trips through MarshalText / UnmarshalText. *)
Theorem C34_sizev1_roundtrip :
  forall n, n < 2 ^ 64 -> unmarshal TV1 (marshal TV1 (Z.of_N n)) = Some (Z.of_N n).
Proof. exact sizev1_roundtrip. Qed.
Print Assumptions C34_sizev1_roundtrip.

(** SSizeV1: every int64 (including MinInt64) round-trips. *)
Theorem C34_ssizev1_roundtrip :
  forall z, (- 2 ^ 63 <= z < 2 ^ 63)%Z -> unmarshal TSV1 (marshal TSV1 z) = Some z.
Proof. exact ssizev1_roundtrip. Qed.
Print Assumptions C34_ssizev1_roundtrip.

(** Duration: every int64 nanosecond count (negative ones and MinInt64 included)
    round-trips through time.Duration.String / time.ParseDuration. *)
Theorem C34_duration_roundtrip :
  forall z, (- 2 ^ 63 <= z < 2 ^ 63)%Z -> unmarshal TDur (marshal TDur z) = Some z.
Proof. exact duration_roundtrip. Qed.
Print Assumptions C34_duration_roundtrip.

(** 1.x suffix meaning and overflow on SizeV1, for ALL uint64 mantissas, any run of
    whitespace [ws] between digits and suffix, suffix k/K/m/M/g/G or none: the result is
    exactly n * 2^10/20/30, and a product that does not fit uint64 is REJECTED, never wrapped. *)
Theorem C34_v1_suffix_meaning_and_overflow :
  forall n ws sfx, n < 2 ^ 64 -> tail_ok ws sfx ->
    unmarshal TV1 (dec n ++ ws ++ sfx_bytes sfx) =
    if n * sfx_mult sfx <? 2 ^ 64 then Some (Z.of_N (n * sfx_mult sfx)) else None.
Proof. exact unmarshal_v1_unsigned. Qed.
Print Assumptions C34_v1_suffix_meaning_and_overflow.

(** The same for SSizeV1 and all int64 mantissas (sign included). *)
Theorem C34_sv1_suffix_meaning_and_overflow :
  forall z ws sfx, (- 2 ^ 63 <= z < 2 ^ 63)%Z -> tail_ok ws sfx ->
    unmarshal TSV1 (dec_z z ++ ws ++ sfx_bytes sfx) =
    let r := (z * Z.of_N (sfx_mult sfx))%Z in
    if ((- 2 ^ 63 <=? r) && (r <? 2 ^ 63))%Z then Some r else None.
Proof. exact unmarshal_v1_signed. Qed.
Print Assumptions C34_sv1_suffix_meaning_and_overflow.

(** The multipliers really are the documented ones. *)
Theorem C34_bare_suffix_values :
  sfx_mult None = 1 /\
  sfx_mult (Some 107) = 2 ^ 10 /\ sfx_mult (Some 75) = 2 ^ 10 /\
  sfx_mult (Some 109) = 2 ^ 20 /\ sfx_mult (Some 77) = 2 ^ 20 /\
  sfx_mult (Some 103) = 2 ^ 30 /\ sfx_mult (Some 71) = 2 ^ 30.
Proof. repeat split. Qed.
Print Assumptions C34_bare_suffix_values.

(** The 1.x binary meaning also holds after a newline in the leading whitespace (repaired
    finding ssizev1-bare-suffix-after-newline-is-decimal: bareIECSuffixRe now has (?s);
    before, SSizeV1 read "\n1k" as 1000). *)
Theorem C34_v1_suffix_after_newline :
  unmarshal TSV1 [10; 49; 107] = Some 1024%Z /\ unmarshal TV1 [10; 49; 107] = Some 1024%Z /\
  unmarshal TSV1 [32; 10; 32; 50; 32; 32; 103; 10] = Some 2147483648%Z.
Proof. exact ssizev1_newline_witness. Qed.
Print Assumptions C34_v1_suffix_after_newline.

(** Explicit units as named (every entry of humanize's table: kb = 10^3, kib = 2^10, ...,
    bare k/m/g/t/p/e = SI on SizeV2): exact while the product stays below 2^53. *)
Theorem C34_named_units_partial :
  forall n name m, In (name, m) size_table -> n * m < 2 ^ 53 ->
    unmarshal TV2 (dec n ++ name) = Some (Z.of_N (n * m)).
Proof.
  intros n name m Hin Hlt. cbn [unmarshal]. unfold unmarshal_v2.
  rewrite (named_units_exact n name m Hin Hlt). reflexivity.
Qed.
Print Assumptions C34_named_units_partial.

(** FULL STATEMENT for number+unit texts ("the value is exactly n * unit") is REFUTED above
    2^53: the product is still computed in float64 by humanize.  "17179869183g" on SizeV2
    gives 17179869183000000512 (open finding size-unit-product-above-2p53-inexact; such
    texts are never produced by the configuration layer). *)
Theorem C34_named_units_above_2p53_refuted :
  unmarshal TV2 (dec 17179869183 ++ [103]) = Some 17179869183000000512%Z
  /\ 17179869183 * 10 ^ 9 < 2 ^ 64.
Proof. exact unit_product_witness. Qed.
Print Assumptions C34_named_units_above_2p53_refuted.

(** SizeV2 = toml.Size, SSizeV2 = toml.SSize (the active types on this branch): EVERY uint64 /
    int64 written by the configuration layer (the bare integer) reads back identically.
    Holds for the repaired parseBytesUnsigned / parseBytesSigned, which parse a plain decimal
    integer with strconv.ParseUint before falling back to humanize (finding
    size-above-2p53-not-representable, fixed). *)
Theorem C34_sizev2_roundtrip :
  (forall n, n < 2 ^ 64 -> unmarshal TV2 (marshal TV2 (Z.of_N n)) = Some (Z.of_N n)) /\
  (forall z, (- 2 ^ 63 <= z < 2 ^ 63)%Z -> unmarshal TSV2 (marshal TSV2 z) = Some z).
Proof.
  split.
  - intros n Hn. cbn [marshal unmarshal]. unfold dec_z.
    destruct (Z.of_N n <? 0)%Z eqn:E; [lia|]. rewrite N2Z.id. apply sizev2_roundtrip, Hn.
  - intros z Hz. apply ssizev2_roundtrip, Hz.
Qed.
Print Assumptions C34_sizev2_roundtrip.

(** What the humanize float path alone does (the code before the repair): exact exactly on
    values with a 53-bit significand; 2^53+1 comes back as 2^53. *)
Theorem C34_float_path_alone :
  (forall n, n < 2 ^ 64 -> repr53 n = true -> parse_bytes (dec n) = Some n) /\
  (forall n, n < 2 ^ 53 -> repr53 n = true) /\
  parse_bytes (dec 9007199254740993) = Some 9007199254740992 /\
  (forall n, 2 ^ 64 <= n -> parse_bytes (dec n) = None).
Proof.
  split; [exact float_path_repr|]. split; [exact repr53_small|].
  split; [exact float_path_witness | exact float_path_overflow_rejected].
Qed.
Print Assumptions C34_float_path_alone.

(** Overflow of plain integer texts: every decimal number at or above 2^64 is rejected by
    SizeV2, every one above 2^63 (with or without '-') by SSizeV2 — nothing wraps, nothing is
    rounded into range ("-9223372036854775809" used to be accepted as MinInt64). *)
Theorem C34_sizev2_overflow_rejected :
  (forall n, 2 ^ 64 <= n -> unmarshal TV2 (dec n) = None) /\
  (forall n, 2 ^ 63 < n -> unmarshal TSV2 (45 :: dec n) = None /\ unmarshal TSV2 (dec n) = None).
Proof. split; [exact sizev2_overflow_rejected | exact ssizev2_plain_overflow_rejected]. Qed.
Print Assumptions C34_sizev2_overflow_rejected.

(** Through a TOML document a SizeV2 of 2^63 or more cannot be read back at all although UnmarshalText
    of the same text succeeds: the encoder writes a bare integer beyond TOML's int64.
    Confirmed on the real code (known finding sizev2-above-maxint64-unreadable-from-toml). *)
Theorem C34_sizev2_toml_roundtrip_refuted :
  unmarshal_toml TV2 9223372036854775808 (marshal TV2 9223372036854775808) = None
  /\ unmarshal TV2 (marshal TV2 9223372036854775808) = Some 9223372036854775808%Z.
Proof. exact sizev2_toml_witness. Qed.
Print Assumptions C34_sizev2_toml_roundtrip_refuted.

(** FULL STATEMENT "a duration text whose exact value overflows int64 is rejected" is
    REFUTED by the mirror of time.ParseDuration: the uint64 accumulator wraps when a running
    sum of exactly 2^63 ns meets a component of exactly 2^63 ns.
    "9223372036854775808ns9223372036854775808ns" (exact value 2^64 ns) parses to 0.
    Confirmed on the real code (known finding duration-sum-wraps-at-2p64).  The round-trip
    theorem above is unaffected (Duration.String never produces such texts). *)
Theorem C34_duration_overflow_rejected_refuted :
  let s := dec 9223372036854775808 ++ B "ns" ++ dec 9223372036854775808 ++ B "ns" in
  unmarshal TDur s = Some 0%Z /\ dur_exact s = Some (false, 2 ^ 64, 2 ^ 64, 2).
Proof. exact duration_wrap_witness. Qed.
Print Assumptions C34_duration_overflow_rejected_refuted.

(** Non-vacuity: concrete texts and values. *)
Example C34_nonvacuous :
  marshal TV1 3221225472 = B "3g" /\ unmarshal TV1 (B "3g") = Some 3221225472%Z /\
  marshal TSV1 (- 1536)%Z = 45 :: B "1536" /\
  unmarshal TV1 (B "1 K ") = Some 1024%Z /\ unmarshal TV2 (B "1k") = Some 1000%Z /\
  unmarshal TV1 (B "17179869184g") = None /\
  marshal TDur 5400000000001 = B "1h30m0.000000001s" /\
  marshal TDur (- 9223372036854775808)%Z = 45 :: B "2562047h47m16.854775808s" /\
  tail_ok [32; 9] (Some 75) /\ repr53 (2 ^ 60 + 2 ^ 10) = true /\ repr53 (2 ^ 53 + 1) = false.
Proof. repeat split; vm_compute; reflexivity. Qed.
