(** C22 — proofs about the reference evaluator [eval] of Model/C22.v (laws of the InfluxQL
    subset) and witnesses of the engine deviations [eval_engine]. *)
From Verif Require Import Base.Prelude Model.C22.
From Coq Require Import QArith Floats.SpecFloat ZifyBool.
Close Scope Q_scope.
Open Scope Z_scope.

(** * Generic list facts *)
Lemma filter_true_id {A} (f : A -> bool) (l : list A) :
  Forall (fun x => f x = true) l -> filter f l = l.
Proof. induction 1 as [|x l Hx _ IH]; cbn; [reflexivity|]. rewrite Hx, IH. reflexivity. Qed.

Lemma filter_Forall {A} (f : A -> bool) (l : list A) : Forall (fun x => f x = true) (filter f l).
Proof. apply Forall_forall. intros x Hx. apply filter_In in Hx. tauto. Qed.

Lemma Forall_firstn {A} (P : A -> Prop) n (l : list A) : Forall P l -> Forall P (firstn n l).
Proof. intro H. revert n. induction H; intros [|n]; cbn; auto. Qed.
Lemma Forall_skipn {A} (P : A -> Prop) n (l : list A) : Forall P l -> Forall P (skipn n l).
Proof. intro H. revert n. induction H; intros [|n]; cbn; auto. Qed.
Lemma Forall_lim {A} (P : A -> Prop) n (l : list A) : Forall P l -> Forall P (lim n l).
Proof. destruct n; cbn [lim]; auto. apply Forall_firstn. Qed.
Lemma Forall_limoff {A} (P : A -> Prop) n m (l : list A) : Forall P l -> Forall P (limoff n m l).
Proof. intro. apply Forall_lim, Forall_skipn; assumption. Qed.
Lemma Forall_rev' {A} (P : A -> Prop) (l : list A) : Forall P l -> Forall P (rev l).
Proof. intro H. apply Forall_forall. intros x Hx. apply in_rev in Hx. rewrite Forall_forall in H. auto. Qed.

Lemma map_id_ext {A} (f : A -> A) (l : list A) : (forall x, f x = x) -> map f l = l.
Proof. intro H. induction l; cbn; [reflexivity|]. rewrite H, IHl. reflexivity. Qed.

Lemma limoff_0' {A} (l : list A) : limoff 0 0 l = l.
Proof. reflexivity. Qed.

(** the schema of a one-shard dataset: the fields some stored point carries *)
Definition schema (d : dataset) (fld : fieldkey) : bool := existsb (fun p => isSome (fieldval fld p)) d.
Lemma eval_schema d q : eval d q = evalk spec_mode (schema d) 0 d q.
Proof. reflexivity. Qed.

(** * 1. LIMIT / OFFSET *)
Lemma series_rows_no_limits kn q d k : series_rows spec_mode kn (no_limits q) d k = series_rows spec_mode kn q d k.
Proof.
  destruct q. unfold no_limits.
  cbv beta iota delta [series_rows is_raw raw_rows raw_pts raw_row agg_rows call_rows call_pts qualifies in_range tmin tmax cond_holds
    qwstart eff_offset windows spec_mode m_limit_per_call m_firstlast_any m_prev_iter_order
    C22.q_sel C22.q_cond C22.q_min_incl C22.q_min C22.q_max_incl C22.q_max C22.q_every C22.q_goffset C22.q_gtags C22.q_fill C22.q_desc C22.q_limit C22.q_offset].
  reflexivity.
Qed.

Lemma cand_keys_no_limits q d : cand_keys (no_limits q) d = cand_keys q d.
Proof. destruct q. unfold no_limits, cand_keys, qualifies, in_range, tmin, tmax, cond_holds. cbn. reflexivity. Qed.

(** the series chosen by SLIMIT/SOFFSET with their complete rows, in output order *)
Definition chosen_series (d : dataset) (q : query) : result :=
  let unl := filter nonempty (map (fun k => (k, series_rows spec_mode (schema d) q d k)) (cand_keys q d)) in
  let c := slim q unl in if q_desc q then rev c else c.

Definition cut_rows (q : query) (r : result) : result :=
  filter nonempty (map (fun kr => (fst kr, limoff (q_limit q) (q_offset q) (snd kr))) r).

Lemma eval_unfold d q : eval d q = cut_rows q (chosen_series d q).
Proof.
  rewrite eval_schema. unfold evalk, cut_rows, chosen_series. cbn [m_slimit_index m_limit_per_call spec_mode negb].
  rewrite orb_true_r. reflexivity.
Qed.

Lemma chosen_nonempty d q : Forall (fun x => nonempty x = true) (chosen_series d q).
Proof.
  unfold chosen_series, slim.
  assert (H : forall l : result, Forall (fun x => nonempty x = true) (filter nonempty l)) by (intro; apply filter_Forall).
  destruct (q_desc q); [apply Forall_rev'|]; apply Forall_limoff, H.
Qed.

Lemma chosen_no_limits d q : chosen_series d (no_limits q) = chosen_series d q.
Proof.
  unfold chosen_series. rewrite cand_keys_no_limits.
  rewrite (map_ext _ (fun k => (k, series_rows spec_mode (schema d) q d k))) by (intro; rewrite series_rows_no_limits; reflexivity).
  destruct q; reflexivity.
Qed.

Lemma eval_no_limits d q : eval d (no_limits q) = chosen_series d q.
Proof.
  rewrite eval_unfold, chosen_no_limits. unfold cut_rows.
  replace (q_limit (no_limits q)) with 0%nat by (destruct q; reflexivity).
  replace (q_offset (no_limits q)) with 0%nat by (destruct q; reflexivity).
  rewrite map_id_ext by (intros [k r]; reflexivity).
  apply filter_true_id, chosen_nonempty.
Qed.

Theorem limit_offset d q : eval d q = cut_rows q (eval d (no_limits q)).
Proof. rewrite eval_no_limits. apply eval_unfold. Qed.

(** * 7. SLIMIT / SOFFSET *)
Definition no_slimit (q : query) : query :=
  {| q_sel := q_sel q; q_cond := q_cond q; q_min_incl := q_min_incl q; q_min := q_min q;
     q_max_incl := q_max_incl q; q_max := q_max q; q_every := q_every q; q_goffset := q_goffset q;
     q_gtags := q_gtags q; q_fill := q_fill q; q_desc := q_desc q;
     q_limit := q_limit q; q_offset := q_offset q; q_slimit := 0; q_soffset := 0 |}.

(** all result series with their complete rows, ascending by tag values *)
Definition all_series (d : dataset) (q : query) : result :=
  filter nonempty (map (fun k => (k, series_rows spec_mode (schema d) q d k)) (cand_keys q d)).

Lemma series_rows_no_slimit kn q d k : series_rows spec_mode kn (no_slimit q) d k = series_rows spec_mode kn q d k.
Proof.
  destruct q. unfold no_slimit.
  cbv beta iota delta [series_rows is_raw raw_rows raw_pts raw_row agg_rows call_rows call_pts qualifies in_range tmin tmax cond_holds
    qwstart eff_offset windows spec_mode m_limit_per_call m_firstlast_any m_prev_iter_order
    C22.q_sel C22.q_cond C22.q_min_incl C22.q_min C22.q_max_incl C22.q_max C22.q_every C22.q_goffset C22.q_gtags C22.q_fill C22.q_desc C22.q_limit C22.q_offset].
  reflexivity.
Qed.
Lemma cand_keys_no_slimit q d : cand_keys (no_slimit q) d = cand_keys q d.
Proof. destruct q. unfold no_slimit, cand_keys, qualifies, in_range, tmin, tmax, cond_holds. cbn. reflexivity. Qed.
Lemma all_series_no_slimit d q : all_series d (no_slimit q) = all_series d q.
Proof.
  unfold all_series. rewrite cand_keys_no_slimit.
  rewrite (map_ext _ (fun k => (k, series_rows spec_mode (schema d) q d k))) by (intro; rewrite series_rows_no_slimit; reflexivity).
  reflexivity.
Qed.

Lemma chosen_slimit d q :
  chosen_series d q = let c := limoff (q_slimit q) (q_soffset q) (all_series d q) in if q_desc q then rev c else c.
Proof. reflexivity. Qed.

Lemma all_series_nonempty d q : Forall (fun x => nonempty x = true) (all_series d q).
Proof. apply filter_Forall. Qed.

(** without LIMIT/OFFSET the result IS the chosen series *)
Lemma eval_no_row_limit d q : q_limit q = 0%nat -> q_offset q = 0%nat -> eval d q = chosen_series d q.
Proof.
  intros Hl Ho. rewrite eval_unfold. unfold cut_rows. rewrite Hl, Ho.
  rewrite map_id_ext by (intros [k r]; reflexivity).
  apply filter_true_id, chosen_nonempty.
Qed.

Theorem slimit_soffset_asc d q :
  q_limit q = 0%nat -> q_offset q = 0%nat -> q_desc q = false ->
  eval d q = limoff (q_slimit q) (q_soffset q) (eval d (no_slimit q)).
Proof.
  intros Hl Ho Hd.
  rewrite (eval_no_row_limit d q Hl Ho).
  rewrite (eval_no_row_limit d (no_slimit q)) by (destruct q; assumption).
  rewrite !chosen_slimit, all_series_no_slimit.
  replace (q_desc (no_slimit q)) with (q_desc q) by (destruct q; reflexivity).
  rewrite Hd. cbn zeta. replace (q_slimit (no_slimit q)) with 0%nat by (destruct q; reflexivity).
  replace (q_soffset (no_slimit q)) with 0%nat by (destruct q; reflexivity). reflexivity.
Qed.

Theorem slimit_soffset_desc d q :
  q_limit q = 0%nat -> q_offset q = 0%nat -> q_desc q = true ->
  eval d q = rev (limoff (q_slimit q) (q_soffset q) (rev (eval d (no_slimit q)))).
Proof.
  intros Hl Ho Hd.
  rewrite (eval_no_row_limit d q Hl Ho).
  rewrite (eval_no_row_limit d (no_slimit q)) by (destruct q; assumption).
  rewrite !chosen_slimit, all_series_no_slimit.
  replace (q_desc (no_slimit q)) with (q_desc q) by (destruct q; reflexivity).
  rewrite Hd. cbn zeta. replace (q_slimit (no_slimit q)) with 0%nat by (destruct q; reflexivity).
  replace (q_soffset (no_slimit q)) with 0%nat by (destruct q; reflexivity).
  unfold limoff at 2; cbn [lim skipn]; rewrite rev_involutive. reflexivity.
Qed.

(** * 5. WHERE time commutes with the other filters *)
Lemma filter_filter_imp {A} (f g : A -> bool) (l : list A) :
  (forall x, f x = true -> g x = true) -> filter f (filter g l) = filter f l.
Proof.
  intro H. induction l as [|x l IH]; cbn; [reflexivity|].
  destruct (g x) eqn:G; cbn; rewrite IH; [reflexivity|].
  destruct (f x) eqn:F; [|reflexivity]. apply H in F. congruence.
Qed.
Lemma flat_map_filter_nil {A B} (f : A -> list B) (g : A -> bool) (l : list A) :
  (forall x, g x = false -> f x = []) -> flat_map f (filter g l) = flat_map f l.
Proof.
  intro H. induction l as [|x l IH]; cbn; [reflexivity|].
  destruct (g x) eqn:G; cbn; rewrite IH; [reflexivity|]. rewrite (H x G). reflexivity.
Qed.

Definition time_filter (q : query) (d : dataset) : dataset := filter (fun p => in_range q (p_time p)) d.

Lemma qualifies_in_range q p : qualifies q p = true -> in_range q (p_time p) = true.
Proof. unfold qualifies. intro H. apply andb_true_iff in H. tauto. Qed.

Lemma cand_keys_time_filter q d : cand_keys q (time_filter q d) = cand_keys q d.
Proof.
  unfold cand_keys, time_filter. rewrite filter_filter_imp; [reflexivity|]. apply qualifies_in_range.
Qed.
Lemma raw_pts_time_filter q d : raw_pts q (time_filter q d) = raw_pts q d.
Proof.
  unfold raw_pts, time_filter. rewrite filter_filter_imp; [reflexivity|].
  intros p H. apply andb_true_iff in H. apply qualifies_in_range. tauto.
Qed.
Lemma call_pts_time_filter q d fld k : call_pts q (time_filter q d) fld k = call_pts q d fld k.
Proof.
  unfold call_pts, time_filter. apply flat_map_filter_nil.
  intros p H. destruct (fieldval fld p); [|reflexivity]. unfold qualifies. rewrite H. reflexivity.
Qed.
Lemma call_rows_time_filter md q d alone c k : call_rows md q (time_filter q d) alone c k = call_rows md q d alone c k.
Proof. unfold call_rows. destruct c as [fn fld]. rewrite call_pts_time_filter. reflexivity. Qed.
(** [agg_rows] depends on the dataset only through the rows of its columns *)
Definition agg_rows_of (cr : bool -> aggfn * fieldkey -> list row) (md : mode) (kn : fieldkey -> bool) (q : query) : list row :=
  let sel := q_sel q in
  let alone := match sel with
               | (fn, fld) :: r => is_selector fn && forallb (fun c => call_eqb c (fn, fld)) r
               | [] => false end in
  let cut := if m_limit_per_call md then limoff (q_limit q) (q_offset q) else (fun l => l) in
  let cols := map (fun c => if kn (snd c) || negb (typed_by_arg (fst c)) then (fst c, cut (cr alone c)) else (Raw, [])) sel in
  let times := dedup Z.eqb (isort (time_leb (q_desc q)) (flat_map (fun c => map fst (snd c)) cols)) in
  join_rows (q_fill q) cols (map (fun _ => VNull) cols) times.
Lemma agg_rows_as_of md kn q d k : agg_rows md kn q d k = agg_rows_of (fun a c => call_rows md q d a c k) md kn q.
Proof. reflexivity. Qed.
Lemma agg_rows_of_ext cr cr' kn kn' md q :
  (forall a c, cr a c = cr' a c) -> (forall f, kn f = kn' f) -> agg_rows_of cr md kn q = agg_rows_of cr' md kn' q.
Proof.
  intros H K. unfold agg_rows_of. cbv zeta.
  set (alone := match q_sel q with [] => false | _ => _ end).
  set (cut := if m_limit_per_call md then _ else _).
  rewrite (map_ext (fun c => if kn (snd c) || negb (typed_by_arg (fst c)) then (fst c, cut (cr alone c)) else (Raw, []))
                   (fun c => if kn' (snd c) || negb (typed_by_arg (fst c)) then (fst c, cut (cr' alone c)) else (Raw, [])))
    by (intro; rewrite H, K; reflexivity).
  reflexivity.
Qed.

Lemma series_rows_time_filter md kn q d k : series_rows md kn q (time_filter q d) k = series_rows md kn q d k.
Proof.
  unfold series_rows, raw_rows. rewrite raw_pts_time_filter, !agg_rows_as_of.
  rewrite (agg_rows_of_ext _ (fun a c => call_rows md q d a c k) kn kn); auto.
  intros. apply call_rows_time_filter.
Qed.

(** for a FIXED schema the time bounds commute with everything else *)
Theorem where_time_commutes_schema kn d q : evalk spec_mode kn 0 (time_filter q d) q = evalk spec_mode kn 0 d q.
Proof.
  unfold evalk. cbn [m_slimit_index spec_mode].
  rewrite cand_keys_time_filter.
  rewrite (map_ext (fun k => (k, series_rows spec_mode kn q (time_filter q d) k)) (fun k => (k, series_rows spec_mode kn q d k)))
    by (intro; rewrite series_rows_time_filter; reflexivity).
  reflexivity.
Qed.

Lemma series_rows_kn_ext md kn kn' q d k : (forall f, kn f = kn' f) -> series_rows md kn q d k = series_rows md kn' q d k.
Proof.
  intro H. unfold series_rows. rewrite !agg_rows_as_of.
  rewrite (agg_rows_of_ext _ (fun a c => call_rows md q d a c k) kn kn'); auto.
Qed.
Lemma evalk_kn_ext md kn kn' split d q : (forall f, kn f = kn' f) -> evalk md kn split d q = evalk md kn' split d q.
Proof.
  intro H. unfold evalk.
  rewrite (map_ext (fun k => (k, series_rows md kn q _ k)) (fun k => (k, series_rows md kn' q _ k)))
    by (intro; rewrite (series_rows_kn_ext md kn kn' _ _ _ H); reflexivity).
  reflexivity.
Qed.

(** whole evaluator: the points outside the time bounds matter only through the schema (a field
    carried only by out-of-range points still exists) *)
Theorem where_time_commutes d q :
  (forall f, schema (time_filter q d) f = schema d f) -> eval (time_filter q d) q = eval d q.
Proof.
  intro H. rewrite !eval_schema. rewrite (evalk_kn_ext _ _ _ _ _ _ H). apply where_time_commutes_schema.
Qed.

(** ... and without that hypothesis the equation fails: g exists only outside the bounds *)
Lemma where_time_schema_needed :
  let d := [mkpt 1 1 1000000000 (Some 1) None; mkpt 1 1 30000000000 None (Some 5)] in
  let q := {| q_sel := [(Max, Ff); (Min, Fg)]; q_cond := None; q_min_incl := true; q_min := 0; q_max_incl := false;
              q_max := 10000000000; q_every := 5000000000; q_goffset := 0; q_gtags := []; q_fill := FValue 2;
              q_desc := false; q_limit := 0; q_offset := 0; q_slimit := 0; q_soffset := 0 |} in
  eval d q = [([], [(0, [VInt 1; VInt 2]); (5000000000, [VInt 2; VInt 2])])]
  /\ eval (time_filter q d) q = [([], [(0, [VInt 1; VNull]); (5000000000, [VInt 2; VNull])])].
Proof. split; vm_compute; reflexivity. Qed.

(** * 3. GROUP BY time partitions the time line *)
Ltac Zify.zify_post_hook ::= Z.div_mod_to_equations.

Lemma wstart_contains every off t : 0 < every -> wstart every off t <= t < wstart every off t + every.
Proof. intro H. unfold wstart. cbv zeta. pose proof (Z.mod_pos_bound (t - off) every H). lia. Qed.

Lemma wstart_aligned every off t : 0 < every -> (wstart every off t - off) mod every = 0.
Proof.
  intro H. unfold wstart. cbv zeta.
  replace (t - off - (t - off) mod every + off - off) with (every * ((t - off) / every)).
  - rewrite Z.mul_comm. apply Z.mod_mul. lia.
  - pose proof (Z.div_mod (t - off) every). lia.
Qed.

(** exactly one aligned window contains [t] *)
Lemma wstart_unique every off t w :
  0 < every -> (w - off) mod every = 0 -> w <= t < w + every -> w = wstart every off t.
Proof.
  intros H Hal Hin. unfold wstart. cbv zeta.
  assert (E : (t - off) mod every = (t - off) - (w - off)).
  { symmetry. apply Z.mod_unique_pos with (q := (w - off) / every); [lia|].
    pose proof (Z.div_mod (w - off) every). lia. }
  lia.
Qed.

Lemma wstart_mono every off a b : 0 < every -> a <= b -> wstart every off a <= wstart every off b.
Proof.
  intros H Hab. unfold wstart. cbv zeta.
  pose proof (Z.div_le_mono (a - off) (b - off) every H).
  pose proof (Z.div_mod (a - off) every). pose proof (Z.div_mod (b - off) every). nia.
Qed.

Lemma in_seqZ x a s n : In x (seqZ a s n) <-> exists k, (k < n)%nat /\ x = a + Z.of_nat k * s.
Proof.
  revert a. induction n as [|n IH]; intro a; cbn [seqZ].
  - split; [intros []|intros [k [Hk _]]; lia].
  - split.
    + intros [E|H]; [exists 0%nat; split; [lia|lia]|].
      apply IH in H as [k [Hk E]]. exists (S k). split; [lia|]. lia.
    + intros [[|k] [Hk E]]; [left; lia|]. right. apply IH. exists k. split; [lia|]. lia.
Qed.

(** the window of every in-range time is one of the enumerated windows *)
Lemma window_in_windows q t :
  0 < q_every q -> in_range q t = true -> In (qwstart q t) (windows q).
Proof.
  intros H Hr. unfold in_range in Hr. apply andb_true_iff in Hr as [H1 H2].
  apply Z.leb_le in H1, H2. unfold windows. cbv zeta.
  pose proof (wstart_mono (q_every q) (eff_offset q) _ _ H H1) as M1.
  pose proof (wstart_mono (q_every q) (eff_offset q) _ _ H H2) as M2.
  fold (qwstart q (tmin q)) in *. fold (qwstart q t) in *. fold (qwstart q (tmax q)) in *.
  destruct (qwstart q (tmax q) <? qwstart q (tmin q)) eqn:E; [lia|].
  apply in_seqZ.
  pose proof (wstart_aligned (q_every q) (eff_offset q) t H) as A1.
  pose proof (wstart_aligned (q_every q) (eff_offset q) (tmin q) H) as A2.
  fold (qwstart q t) in A1. fold (qwstart q (tmin q)) in A2.
  set (a := qwstart q (tmin q)) in *. set (b := qwstart q (tmax q)) in *. set (w := qwstart q t) in *.
  assert (D : (w - a) mod q_every q = 0).
  { replace (w - a) with ((w - eff_offset q) - (a - eff_offset q)) by lia.
    rewrite Zminus_mod, A1, A2. reflexivity. }
  exists (Z.to_nat ((w - a) / q_every q)). split.
  - assert ((w - a) / q_every q <= (b - a) / q_every q) by (apply Z.div_le_mono; lia).
    assert (0 <= (w - a) / q_every q) by (apply Z.div_pos; lia). lia.
  - rewrite Z2Nat.id by (apply Z.div_pos; lia).
    pose proof (Z.div_mod (w - a) (q_every q)). lia.
Qed.

(** every enumerated window is aligned *)
Lemma windows_aligned q w : 0 < q_every q -> In w (windows q) -> (w - eff_offset q) mod q_every q = 0.
Proof.
  intros H Hin. unfold windows in Hin. cbv zeta in Hin.
  destruct (_ <? _); [destruct Hin|]. apply in_seqZ in Hin as [k [_ E]]. subst w.
  pose proof (wstart_aligned (q_every q) (eff_offset q) (tmin q) H) as A. fold (qwstart q (tmin q)) in A.
  replace (qwstart q (tmin q) + Z.of_nat k * q_every q - eff_offset q)
    with ((qwstart q (tmin q) - eff_offset q) + Z.of_nat k * q_every q) by lia.
  rewrite Z.mod_add by lia. exact A.
Qed.

(** row times of a GROUP BY time column are window starts *)
Lemma fill_prev_times prev cs r : In r (fill_prev prev cs) -> In (fst r) (map fst cs).
Proof.
  revert prev. induction cs as [|[w [v|]] cs IH]; intros prev H; cbn in *; [tauto| |];
    (destruct H as [H|H]; [subst r; left; reflexivity|right; eapply IH; exact H]).
Qed.
Lemma fill_linear_times fn e prev cs r : In r (fill_linear fn e prev cs) -> In (fst r) (map fst cs).
Proof.
  revert prev. induction cs as [|[w [v|]] cs IH]; intros prev H; cbn [fill_linear] in H; cbn [map fst]; [destruct H| |];
    (destruct H as [H|H]; [subst r; left; reflexivity|right; eapply IH; exact H]).
Qed.
Lemma fill_cells_times fn f e cs r : In r (fill_cells fn f e cs) -> In (fst r) (map fst cs).
Proof.
  assert (G : forall g : cell -> row, (forall c, fst (g c) = fst c) -> In r (map g cs) -> In (fst r) (map fst cs)).
  { intros g Hg H. apply in_map_iff in H as [c [E Hc]]. subst r. rewrite Hg. apply in_map. exact Hc. }
  destruct f; cbn [fill_cells]; try (apply G; intros [w o]; reflexivity).
  - intro H. apply in_flat_map in H as [[w o] [Hc Hr]]. destruct o; [|destruct Hr].
    destruct Hr as [E|[]]. subst r. apply (in_map fst) in Hc. exact Hc.
  - apply fill_prev_times.
  - apply fill_linear_times.
Qed.

Lemma call_rows_times md q d alone c k r :
  0 < q_every q -> In r (call_rows md q d alone c k) -> In (fst r) (windows q).
Proof.
  intros He H. unfold call_rows in H. destruct c as [fn fld].
  destruct (call_pts q d fld k) as [|p0 pts] eqn:Ep; [destruct H|].
  destruct (q_every q =? 0) eqn:E0; [lia|].
  set (cells := map _ (windows q)) in H.
  assert (Hc : map fst cells = windows q).
  { unfold cells. rewrite map_map. apply map_id_ext. reflexivity. }
  assert (Hr : map fst (rev cells) = rev (windows q)) by (rewrite map_rev, Hc; reflexivity).
  destruct (q_desc q).
  - destruct (q_fill q); try (apply fill_cells_times in H; rewrite Hr in H; apply in_rev; exact H).
    destruct (m_prev_iter_order md).
    + apply fill_cells_times in H. rewrite Hr in H. apply in_rev. exact H.
    + apply in_rev in H. apply fill_cells_times in H. rewrite Hc in H. exact H.
  - apply fill_cells_times in H. rewrite Hc in H. exact H.
Qed.

(** * 4. fill(none) rows = fill(null) rows that have a value *)
Definition row_null (r : row) : bool := match snd r with [VNull] => true | _ => false end.
Definition cell_ok (c : cell) : Prop := snd c <> Some VNull.

Lemma fill_none_subset_null fn e cs :
  fn <> Count -> Forall cell_ok cs ->
  fill_cells fn FNone e cs = filter (fun r => negb (row_null r)) (fill_cells fn FNull e cs).
Proof.
  intros Hfn H. cbn [fill_cells fill_const]. induction H as [|[w o] cs Hc _ IH]; [reflexivity|].
  cbn [flat_map map filter snd fst]. rewrite IH. destruct o as [v|].
  - unfold cell_ok in Hc. cbn in Hc. destruct v; cbn; try reflexivity. congruence.
  - destruct fn; cbn; try reflexivity. congruence.
Qed.

(** for count() the empty windows of fill(null) show 0 *)
Lemma fill_none_subset_null_count e cs :
  Forall (fun c => snd c <> Some (VInt 0)) cs ->
  fill_cells Count FNone e cs
  = filter (fun r => match snd r with [VInt 0] => false | _ => true end) (fill_cells Count FNull e cs).
Proof.
  intro H. cbn [fill_cells fill_const]. induction H as [|[w o] cs Hc _ IH]; [reflexivity|].
  cbn [flat_map map filter snd fst]. rewrite IH. destruct o as [v|]; [|reflexivity].
  cbn in Hc. destruct v as [|z| | |]; cbn; try reflexivity. destruct z; cbn; try reflexivity. congruence.
Qed.

(** * 6. An aggregate over a tag set is the aggregate over the union of its member series *)
Lemma call_pts_app q d1 d2 fld k : call_pts q (d1 ++ d2) fld k = call_pts q d1 fld k ++ call_pts q d2 fld k.
Proof. unfold call_pts. apply flat_map_app. Qed.

Record strict_total (b : tv -> tv -> bool) : Prop := {
  st_irrefl : forall x, b x x = false;
  st_trans : forall x y z, b x y = true -> b y z = true -> b x z = true;
  st_total : forall x y, b x y = false -> b y x = false -> x = y
}.

Lemma min_better_st : strict_total min_better.
Proof.
  split; unfold min_better.
  - intros [a b]; cbn; lia.
  - intros [a b] [c d] [e f]; cbn; lia.
  - intros [a b] [c d]; cbn; intros; f_equal; lia.
Qed.
Lemma max_better_st : strict_total max_better.
Proof.
  split; unfold max_better.
  - intros [a b]; cbn; lia.
  - intros [a b] [c d] [e f]; cbn; lia.
  - intros [a b] [c d]; cbn; intros; f_equal; lia.
Qed.
Lemma first_better_st : strict_total first_better.
Proof.
  split; unfold first_better.
  - intros [a b]; cbn; lia.
  - intros [a b] [c d] [e f]; cbn; lia.
  - intros [a b] [c d]; cbn; intros; f_equal; lia.
Qed.
Lemma last_better_st : strict_total last_better.
Proof.
  split; unfold last_better.
  - intros [a b]; cbn; lia.
  - intros [a b] [c d] [e f]; cbn; lia.
  - intros [a b] [c d]; cbn; intros; f_equal; lia.
Qed.

Definition pick_step (b : tv -> tv -> bool) (acc : option tv) (c : tv) : option tv :=
  match acc with None => Some c | Some p => if b c p then Some c else Some p end.

Lemma pick_fold_least b (Hb : strict_total b) l acc seen :
  match acc with
  | Some p => In p seen /\ forall x, In x seen -> b x p = false
  | None => seen = []
  end ->
  match fold_left (pick_step b) l acc with
  | Some p => In p (seen ++ l) /\ forall x, In x (seen ++ l) -> b x p = false
  | None => seen ++ l = []
  end.
Proof.
  revert acc seen. induction l as [|c l IH]; intros acc seen H.
  - cbn. rewrite app_nil_r. exact H.
  - cbn [fold_left]. replace (seen ++ c :: l) with ((seen ++ [c]) ++ l) by (rewrite <- app_assoc; reflexivity).
    apply IH. destruct acc as [p|]; cbn [pick_step].
    + destruct H as [Hin Hle]. destruct (b c p) eqn:E.
      * split; [apply in_or_app; right; left; reflexivity|].
        intros x Hx. apply in_app_or in Hx as [Hx|[Hx|[]]].
        -- destruct (b x c) eqn:F; [|reflexivity].
           pose proof (st_trans b Hb x c p F E) as T. rewrite (Hle x Hx) in T. discriminate.
        -- subst x. apply (st_irrefl b Hb).
      * split; [apply in_or_app; left; exact Hin|].
        intros x Hx. apply in_app_or in Hx as [Hx|[Hx|[]]]; [auto|subst x; exact E].
    + subst seen. split; [left; reflexivity|]. intros x [Hx|[]]. subst x. apply (st_irrefl b Hb).
Qed.

Lemma pick_least b (Hb : strict_total b) l :
  match pick b l with
  | Some p => In p l /\ forall x, In x l -> b x p = false
  | None => l = []
  end.
Proof. exact (pick_fold_least b Hb l None [] eq_refl). Qed.

From Coq Require Import Permutation.

Lemma pick_perm b (Hb : strict_total b) l l' : Permutation l l' -> pick b l = pick b l'.
Proof.
  intro P. pose proof (pick_least b Hb l) as H1. pose proof (pick_least b Hb l') as H2.
  destruct (pick b l) as [p|], (pick b l') as [p'|].
  - destruct H1 as [I1 L1], H2 as [I2 L2]. f_equal. apply (st_total b Hb).
    + apply L2. eapply Permutation_in; eauto.
    + apply L1. eapply Permutation_in; [apply Permutation_sym|]; eauto.
  - subst l'. apply Permutation_sym, Permutation_nil in P. subst l. destruct H1 as [[] _].
  - subst l. apply Permutation_nil in P. subst l'. destruct H2 as [[] _].
  - reflexivity.
Qed.

Lemma sumZ_perm l l' : Permutation l l' -> sumZ l = sumZ l'.
Proof. unfold sumZ. induction 1; cbn [fold_right] in *; lia. Qed.

(** every aggregate/selector of the subset is independent of the order in which the points of
    the member series are met (hence of the way the tag set is split into series and shards) *)
Lemma reduce_perm fn l l' : Permutation l l' -> reduce fn l = reduce fn l'.
Proof.
  intro P. destruct fn; cbn [reduce]; try reflexivity.
  - rewrite (Permutation_length P). reflexivity.
  - rewrite (sumZ_perm _ _ (Permutation_map snd P)). reflexivity.
  - rewrite (sumZ_perm _ _ (Permutation_map snd P)), (Permutation_length P). reflexivity.
  - rewrite (pick_perm _ min_better_st _ _ P). reflexivity.
  - rewrite (pick_perm _ max_better_st _ _ P). reflexivity.
  - rewrite (pick_perm _ first_better_st _ _ P). reflexivity.
  - rewrite (pick_perm _ last_better_st _ _ P). reflexivity.
Qed.

(** combination of partial aggregates of two parts of a tag set *)
Lemma reduce_count_app l1 l2 :
  reduce Count (l1 ++ l2) = (None, VInt (Z.of_nat (length l1) + Z.of_nat (length l2))).
Proof. cbn. rewrite app_length. f_equal. f_equal. lia. Qed.
Lemma sumZ_app a b : sumZ (a ++ b) = sumZ a + sumZ b.
Proof. unfold sumZ. induction a; cbn [fold_right app] in *; lia. Qed.
Lemma reduce_sum_app l1 l2 :
  reduce Sum (l1 ++ l2) = (None, VInt (sumZ (map snd l1) + sumZ (map snd l2))).
Proof. cbn. rewrite map_app, sumZ_app. reflexivity. Qed.
Lemma reduce_mean_app l1 l2 :
  reduce Mean (l1 ++ l2)
  = (None, VMean (sumZ (map snd l1) + sumZ (map snd l2)) (Z.of_nat (length l1) + Z.of_nat (length l2))).
Proof. cbn. rewrite map_app, sumZ_app, app_length. f_equal. f_equal. lia. Qed.

Theorem aggregate_over_union fn q fld k d1 d2 :
  reduce fn (call_pts q (d1 ++ d2) fld k) = reduce fn (call_pts q d2 fld k ++ call_pts q d1 fld k).
Proof. apply reduce_perm. rewrite call_pts_app. apply Permutation_app_comm. Qed.

(** * 2. ORDER BY time DESC = the ascending result reversed *)
Definition set_desc (q : query) (b : bool) : query :=
  {| q_sel := q_sel q; q_cond := q_cond q; q_min_incl := q_min_incl q; q_min := q_min q;
     q_max_incl := q_max_incl q; q_max := q_max q; q_every := q_every q; q_goffset := q_goffset q;
     q_gtags := q_gtags q; q_fill := q_fill q; q_desc := b;
     q_limit := q_limit q; q_offset := q_offset q; q_slimit := q_slimit q; q_soffset := q_soffset q |}.

Definition rev_result (r : result) : result := rev (map (fun kr => (fst kr, rev (snd kr))) r).

Lemma filter_rev {A} (f : A -> bool) (l : list A) : filter f (rev l) = rev (filter f l).
Proof.
  induction l as [|x l IH]; [reflexivity|]. cbn [rev filter]. rewrite filter_app, IH. cbn [filter].
  destruct (f x); [reflexivity|]. rewrite app_nil_r. reflexivity.
Qed.

Lemma filter_map_nonempty_rev {A B} (l : list (A * list B)) :
  filter nonempty (map (fun kr => (fst kr, rev (snd kr))) l) = map (fun kr => (fst kr, rev (snd kr))) (filter nonempty l).
Proof.
  induction l as [|[k r] l IH]; [reflexivity|]. cbn [map filter fst snd].
  assert (E : nonempty (k, rev r) = nonempty (k, r)).
  { unfold nonempty. cbn [snd]. destruct r as [|x r]; [reflexivity|]. cbn [rev].
    destruct (rev r); reflexivity. }
  rewrite E, IH. destruct (nonempty (k, r)); reflexivity.
Qed.

Lemma cand_keys_set_desc q b d : cand_keys (set_desc q b) d = cand_keys q d.
Proof. destruct q. unfold set_desc, cand_keys, qualifies, in_range, tmin, tmax, cond_holds. cbn. reflexivity. Qed.

(** lifting a per-series reversal to the whole result (no LIMIT/OFFSET/SLIMIT/SOFFSET) *)
Lemma desc_lift d q :
  q_limit q = 0%nat -> q_offset q = 0%nat -> q_slimit q = 0%nat -> q_soffset q = 0%nat ->
  (forall k, series_rows spec_mode (schema d) (set_desc q true) d k = rev (series_rows spec_mode (schema d) (set_desc q false) d k)) ->
  eval d (set_desc q true) = rev_result (eval d (set_desc q false)).
Proof.
  intros Hl Ho Hsl Hso H.
  rewrite !eval_no_row_limit by (destruct q; assumption).
  unfold chosen_series, slim, rev_result.
  replace (q_slimit (set_desc q true)) with 0%nat by (destruct q; cbn in *; congruence).
  replace (q_soffset (set_desc q true)) with 0%nat by (destruct q; cbn in *; congruence).
  replace (q_slimit (set_desc q false)) with 0%nat by (destruct q; cbn in *; congruence).
  replace (q_soffset (set_desc q false)) with 0%nat by (destruct q; cbn in *; congruence).
  replace (q_desc (set_desc q true)) with true by (destruct q; reflexivity).
  replace (q_desc (set_desc q false)) with false by (destruct q; reflexivity).
  cbv zeta. rewrite !limoff_0'. rewrite !cand_keys_set_desc. f_equal.
  rewrite <- filter_map_nonempty_rev. f_equal. rewrite map_map. apply map_ext. intro k. cbn [fst snd].
  rewrite H. reflexivity.
Qed.

Lemma raw_rows_set_desc q b d k : raw_rows (set_desc q b) d k = raw_rows q d k.
Proof.
  destruct q. unfold set_desc.
  cbv beta iota delta [raw_rows raw_pts raw_row qualifies in_range tmin tmax cond_holds
    C22.q_sel C22.q_cond C22.q_min_incl C22.q_min C22.q_max_incl C22.q_max C22.q_gtags].
  reflexivity.
Qed.

Theorem desc_is_rev_asc_raw d q :
  is_raw q = true ->
  q_limit q = 0%nat -> q_offset q = 0%nat -> q_slimit q = 0%nat -> q_soffset q = 0%nat ->
  eval d (set_desc q true) = rev_result (eval d (set_desc q false)).
Proof.
  intros Hr Hl Ho Hsl Hso. apply desc_lift; try assumption. intro k.
  unfold series_rows.
  replace (is_raw (set_desc q true)) with true by (destruct q; exact (eq_sym Hr)).
  replace (is_raw (set_desc q false)) with true by (destruct q; exact (eq_sym Hr)).
  replace (q_desc (set_desc q true)) with true by (destruct q; reflexivity).
  replace (q_desc (set_desc q false)) with false by (destruct q; reflexivity).
  rewrite !raw_rows_set_desc. reflexivity.
Qed.

(** aggregate columns: every fill mode except linear commutes with the reversal *)
Lemma flat_map_rev {A B} (f : A -> list B) (l : list A) :
  (forall x, rev (f x) = f x) -> flat_map f (rev l) = rev (flat_map f l).
Proof.
  intro H. induction l as [|x l IH]; [reflexivity|]. cbn [rev flat_map].
  rewrite flat_map_app, IH. cbn [flat_map]. rewrite app_nil_r, rev_app_distr, H. reflexivity.
Qed.

Lemma fill_cells_rev fn f e cs :
  f <> FLinear -> f <> FPrevious -> fill_cells fn f e (rev cs) = rev (fill_cells fn f e cs).
Proof.
  intros H1 H2. destruct f; cbn [fill_cells]; try congruence; try (rewrite map_rev; reflexivity).
  apply flat_map_rev. intros [w [v|]]; reflexivity.
Qed.

Lemma call_pts_set_desc q b d fld k : call_pts (set_desc q b) d fld k = call_pts q d fld k.
Proof.
  destruct q. unfold set_desc.
  cbv beta iota delta [call_pts qualifies in_range tmin tmax cond_holds
    C22.q_sel C22.q_cond C22.q_min_incl C22.q_min C22.q_max_incl C22.q_max C22.q_gtags].
  reflexivity.
Qed.

Theorem desc_is_rev_asc_column d q alone c k :
  q_every q <> 0 -> q_fill q <> FLinear ->
  call_rows spec_mode (set_desc q true) d alone c k = rev (call_rows spec_mode (set_desc q false) d alone c k).
Proof.
  intros He Hf. destruct c as [fn fld]. destruct q. cbn [C22.q_every C22.q_fill] in He, Hf. unfold set_desc.
  cbv beta iota delta [call_rows call_pts qualifies in_range tmin tmax cond_holds qwstart eff_offset windows
    spec_mode m_prev_iter_order m_firstlast_any
    C22.q_sel C22.q_cond C22.q_min_incl C22.q_min C22.q_max_incl C22.q_max C22.q_every C22.q_goffset C22.q_gtags C22.q_fill C22.q_desc].
  match goal with |- context [flat_map ?f d] => destruct (flat_map f d) as [|p0 pts] end; [reflexivity|].
  destruct (q_every =? 0) eqn:E0; [lia|].
  destruct q_fill eqn:F; try congruence; try (apply fill_cells_rev; congruence); reflexivity.
Qed.

(** * The engine deviates from the documented semantics (witnesses; each is replayed on the real
      engine by the driver's hand-picked cases) *)
Definition mk (a b : N) (t : Z) (f g : option Z) : point := mkpt a b (t * 1000000000) f g.
Definition q0 : query :=
  {| q_sel := [(Sum, Ff)]; q_cond := None; q_min_incl := true; q_min := 0; q_max_incl := false; q_max := 20000000000;
     q_every := 0; q_goffset := 0; q_gtags := []; q_fill := FDefault; q_desc := false;
     q_limit := 0; q_offset := 0; q_slimit := 0; q_soffset := 0 |}.
Definition d_two : dataset := [mk 1 1 1 (Some 1) (Some 1); mk 1 1 2 (Some 2) (Some 2); mk 2 2 11 (Some 3) (Some 3); mk 2 2 12 (Some 4) (Some 4)].

Definition q_slimit_w : query :=
  {| q_sel := [(Sum, Ff)]; q_cond := None; q_min_incl := true; q_min := 0; q_max_incl := false; q_max := 20000000000;
     q_every := 0; q_goffset := 0; q_gtags := [T1]; q_fill := FDefault; q_desc := false;
     q_limit := 0; q_offset := 0; q_slimit := 1; q_soffset := 0 |}.
Lemma engine_slimit_more_series :
  length (eval_engine 10000000000 d_two q_slimit_w) = 2%nat /\ length (eval d_two q_slimit_w) = 1%nat.
Proof. split; vm_compute; reflexivity. Qed.

Definition q_slimit_w2 : query :=
  {| q_sel := [(Raw, Ff)]; q_cond := None; q_min_incl := true; q_min := 10000000000; q_max_incl := false; q_max := 20000000000;
     q_every := 0; q_goffset := 0; q_gtags := [T1]; q_fill := FDefault; q_desc := false;
     q_limit := 0; q_offset := 0; q_slimit := 1; q_soffset := 0 |}.
Lemma engine_slimit_no_series :
  eval_engine 0 d_two q_slimit_w2 = [] /\ length (eval d_two q_slimit_w2) = 1%nat.
Proof. split; vm_compute; reflexivity. Qed.

Definition q_prev_w : query :=
  {| q_sel := [(Sum, Ff)]; q_cond := None; q_min_incl := true; q_min := 0; q_max_incl := false; q_max := 6000000000;
     q_every := 1000000000; q_goffset := 0; q_gtags := []; q_fill := FPrevious; q_desc := true;
     q_limit := 0; q_offset := 0; q_slimit := 0; q_soffset := 0 |}.
Lemma engine_fill_previous_desc :
  eval_engine 0 d_two q_prev_w <> rev_result (eval_engine 0 d_two (set_desc q_prev_w false))
  /\ eval d_two q_prev_w = rev_result (eval d_two (set_desc q_prev_w false)).
Proof. split; [vm_compute; discriminate|vm_compute; reflexivity]. Qed.

Definition d_cols : dataset := [mk 1 1 1 (Some 1) None; mk 1 1 5 None (Some 2)].
Definition q_cols_w : query :=
  {| q_sel := [(Count, Ff); (Sum, Fg)]; q_cond := None; q_min_incl := true; q_min := 0; q_max_incl := false; q_max := 20000000000;
     q_every := 2000000000; q_goffset := 0; q_gtags := []; q_fill := FNone; q_desc := false;
     q_limit := 1; q_offset := 0; q_slimit := 0; q_soffset := 0 |}.
Lemma engine_limit_per_column :
  map (fun kr => length (snd kr)) (eval_engine 0 d_cols q_cols_w) = [2%nat]
  /\ map (fun kr => length (snd kr)) (eval d_cols q_cols_w) = [1%nat].
Proof. split; vm_compute; reflexivity. Qed.

Definition d_tie : dataset := [mk 1 1 1 (Some 1) None; mk 1 2 1 (Some 2) None; mk 2 1 1 (Some 3) None].
Definition q_first_w : query :=
  {| q_sel := [(First, Ff)]; q_cond := None; q_min_incl := true; q_min := 0; q_max_incl := false; q_max := 20000000000;
     q_every := 0; q_goffset := 0; q_gtags := []; q_fill := FDefault; q_desc := false;
     q_limit := 0; q_offset := 0; q_slimit := 0; q_soffset := 0 |}.
Lemma engine_first_tie :
  eval_engine 0 d_tie q_first_w = [([], [(1000000000, [VAny [1; 2; 3]])])]
  /\ eval d_tie q_first_w = [([], [(1000000000, [VInt 3])])].
Proof. split; vm_compute; reflexivity. Qed.
