(** C05 — Compaction plans never reorder data or double-book files.  Property theorems only.

    Vocabulary (coq/Model/C05.v, coq/Proofs/C05*.v):
      [step st gens o]     one call of the mirrored DefaultPlanner (PlanLevel / Plan / PlanOptimize /
                           ForceFull / Release) on the generation list [gens] (an argument of the
                           call, as in this version of compact.go); result: new state, returned groups
      [exec init cs]       the planner state after the call history [cs] (fold_left of [step])
      [reachable st]       [exists cs, st = exec init cs]
      [contiguous gens g]  [exists pre run post, gens = pre ++ run ++ post /\ Permutation g (gs_paths run)]
                           — the group is exactly the files of a contiguous run of generations
      [wf_gens gens]       all file paths distinct, no empty generation (what FindGenerations builds)

    FULL STATEMENT of the contiguity half of the property (NOT provable — refuted below):
      forall st gens o, reachable st -> wf_gens gens ->
        Forall (contiguous gens) (snd (step st gens o)).
    It fails exactly in the full-compaction branch of [Plan] (see [C05_plan_full_contiguous_refuted]);
    [C05_contiguous_partial] is the strongest weakening proved. *)
From Verif Require Import Base.Prelude Model.C05 Proofs.C05 Proofs.C05_contig Proofs.C05_oracle
  Proofs.C05_full.
From Coq Require Import Permutation.

(** Every planning call, from every reachable state, on ANY generation list: the returned groups
    are disjoint from the files in use before the call, no file occurs twice in the response
    (groups pairwise disjoint) and afterwards in_use = before ∪ groups. *)
Theorem C05_plans_disjoint : forall st gens o st' out,
  reachable st -> step st gens o = (st', out) -> is_plan_op o = true ->
  (forall p, In p (concat out) -> ~ In p (in_use st)) /\
  (NoDup (gs_paths gens) -> NoDup (concat out)) /\
  (forall p, In p (in_use st') <-> In p (in_use st) \/ In p (concat out)).
Proof.
  intros st gens o st' out _ E Hp.
  destruct (step_plan_inv _ _ _ _ _ E Hp) as (H1 & H2 & _).
  split; [exact H1|]. split; [|exact H2].
  intro Hn. pose proof (step_nodup_out st gens o Hn) as X. rewrite E in X. exact X.
Qed.
Print Assumptions C05_plans_disjoint.

(** Release removes exactly the released files and returns nothing; ForceFull does not touch
    the in-use set. *)
Theorem C05_release_exact : forall st gens gs p,
  snd (step st gens (ORelease gs)) = [] /\
  (In p (in_use (fst (step st gens (ORelease gs)))) <-> In p (in_use st) /\ ~ In p (concat gs)) /\
  in_use (fst (step st gens OForceFull)) = in_use st.
Proof. intros. simpl. split; [reflexivity|]. split; [apply remove_all_in | reflexivity]. Qed.
Print Assumptions C05_release_exact.

(** Over every call history (fold over the calls): the planner's in-use set is exactly the set of
    files handed out by earlier responses and not released since ([exec_held] accumulates that set
    from the RESPONSES only) — so "disjoint from in_use" above is "disjoint from every group
    still held"; and the in-use list never holds a file twice (InUseCount counts files). *)
Theorem C05_in_use_is_exactly_held : forall cs p,
  fst (exec_held init [] cs) = exec init cs /\
  (In p (in_use (exec init cs)) <-> In p (snd (exec_held init [] cs))) /\
  NoDup (in_use (exec init cs)).
Proof.
  intros cs p. split; [apply exec_held_fst|]. split.
  - rewrite <- (exec_held_fst cs init []). apply in_use_is_held. intro q. simpl. tauto.
  - apply reachable_nodup. exists cs. reflexivity.
Qed.
Print Assumptions C05_in_use_is_exactly_held.

(** Contiguity: every group returned by PlanLevel (any level, any state — reachable or not) is
    exactly the set of files of a contiguous run of the generation list. *)
Theorem C05_level_groups_contiguous : forall st gens level,
  Forall (contiguous gens) (snd (step st gens (OPlanLevel level))).
Proof. intros. simpl. apply plan_level_contiguous. Qed.
Print Assumptions C05_level_groups_contiguous.

Theorem C05_optimize_groups_contiguous : forall st gens cold,
  Forall (contiguous gens) (snd (step st gens (OOptimize cold))).
Proof. intros. simpl. apply plan_optimize_contiguous. Qed.
Print Assumptions C05_optimize_groups_contiguous.

(** [Plan] outside its full-compaction branch (no ForceFull pending and the shard is not cold or
    has at most one generation). *)
Theorem C05_plan_groups_contiguous_nonfull : forall st gens cold recent,
  plan_is_full st gens cold = false ->
  Forall (contiguous gens) (snd (step st gens (OPlan cold recent))).
Proof. intros. simpl. apply plan_nonfull_contiguous. assumption. Qed.
Print Assumptions C05_plan_groups_contiguous_nonfull.

(** The full-compaction branch REFUTES contiguity on well-formed inputs from reachable states:
    (a) a cold shard with nothing in use, generation 2 maxed-out: Plan returns {1,3,4};
    (b) PlanLevel(2) holds generations 2..5, ForceFull, Plan returns {1,6,7}.
    Both were replayed on the real code (hand-picked cases 0 and 1 of harness/cmd/c05). *)
Theorem C05_plan_full_contiguous_refuted :
  (exists gens, wf_gens gens /\ snd (step init gens (OPlan true true)) = [[1004; 3004; 4004]]%N /\
     ~ Forall (contiguous gens) (snd (step init gens (OPlan true true)))) /\
  (exists cs gens, wf_gens gens /\ in_use (exec init cs) = [5002; 4002; 3002; 2002]%N /\
     snd (step (exec init cs) gens (OPlan false true)) = [[1004; 6004; 7004]]%N /\
     ~ Forall (contiguous gens) (snd (step (exec init cs) gens (OPlan false true)))).
Proof.
  split.
  - exists wit_cold_gens. destruct wit_cold_refutes as [H1 H2].
    split; [exact H1|]. split; [exact wit_cold_out | exact H2].
  - exists wit_ff_history, wit_ff_gens. destruct wit_ff_refutes as [H1 H2].
    split; [exact H1|]. split; [exact wit_ff_state|]. split; [exact wit_ff_out | exact H2].
Qed.
Print Assumptions C05_plan_full_contiguous_refuted.

(** Strongest proved weakening of the full statement: every group of every call is contiguous,
    except possibly in [Plan]'s full branch when some generation is in use or maxed-out
    ([full_skippable]: size > 2GiB, first block >= 1000 points, no tombstone).
    Missing for the full statement: exactly the case refuted above. *)
Theorem C05_contiguous_partial : forall st gens o,
  match o with
  | OPlan cold _ =>
      plan_is_full st gens cold = false \/
      Forall (fun g => is_in_use (in_use st) g = false /\ full_skippable g = false) gens
  | _ => True
  end ->
  Forall (contiguous gens) (snd (step st gens o)).
Proof.
  intros st gens o H. destruct o; simpl.
  - apply plan_level_contiguous.
  - destruct H as [H|H]; [apply plan_nonfull_contiguous | apply plan_full_contiguous_clean]; exact H.
  - apply plan_optimize_contiguous.
  - constructor.
  - constructor.
Qed.
Print Assumptions C05_contiguous_partial.

(** Exact extent of the defect: in its full branch, on a well-formed store, a non-empty answer of
    [Plan] is contiguous IF AND ONLY IF the generations the loop keeps ([full_flags]: not in use and
    not skipped as maxed-out) form a single run false* true* false* of the generation list — i.e. the
    property fails exactly when a dropped generation lies strictly between two kept ones (this is
    the shape the driver tags with the finding signature plan-full-noncontiguous). *)
Theorem C05_plan_full_contiguous_iff : forall st gens cold recent,
  wf_gens gens -> plan_is_full st gens cold = true ->
  snd (step st gens (OPlan cold recent)) <> [] ->
  (Forall (contiguous gens) (snd (step st gens (OPlan cold recent)))
   <-> one_run (full_flags (in_use st) (len gens) gens) = true).
Proof. exact plan_full_contiguous_iff. Qed.
Print Assumptions C05_plan_full_contiguous_iff.

(** The judge's boolean oracle is exactly the proposition: on a well-formed generation list a
    duplicate-free group passes [contiguous_b] iff it is [contiguous]. *)
Theorem C05_oracle_exact : forall gens grp,
  wf_gens gens -> NoDup grp -> (contiguous_b gens grp = true <-> contiguous gens grp).
Proof.
  intros gens grp Hw Hn. split.
  - apply contiguous_b_sound; [apply Hw | exact Hn].
  - apply contiguous_b_complete, Hw.
Qed.
Print Assumptions C05_oracle_exact.

(** Non-vacuity: a reachable state with files in use, a well-formed 10-generation store, and a
    level-1 plan that returns a non-empty contiguous group disjoint from the held files. *)
Example C05_nonvacuous :
  let gens := map (fun i => g1 i 1 small 1000) [1;2;3;4;5;6;7;8;9;10;11;12;13;14;15;16;17;18]%N in
  let st := exec init [(firstn 9 gens, OPlanLevel 1)] in
  wf_gens gens /\ in_use st <> [] /\
  snd (step st gens (OPlanLevel 1)) = [[9001; 10001; 11001; 12001; 13001; 14001; 15001; 16001]]%N.
Proof.
  split; [apply wf_gens_b_spec; vm_compute; reflexivity|].
  split; [vm_compute; discriminate | vm_compute; reflexivity].
Qed.
