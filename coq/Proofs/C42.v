(** C42 — proofs: sorted-list algebra, the k-way merge, exactness of the metadata queries on
    the live/authorized series where it holds, and the refutation witnesses. *)
From Coq Require Import String Ascii.
From Verif Require Import Base.Prelude Base.C42_strord Model.C15 Proofs.C15 Model.C42.
Open Scope string_scope.

(** ---- ssort ---- *)
Lemma sinsert_In x l y : In y (sinsert x l) <-> y = x \/ In y l.
Proof.
  induction l as [|a l IH]; cbn; [intuition|].
  destruct (String.ltb x a) eqn:E1; cbn; [intuition|].
  destruct (String.ltb a x) eqn:E2; cbn.
  - rewrite IH. intuition.
  - pose proof (ltb_trichotomy x a E1 E2). subst. intuition.
Qed.

Lemma sinsert_SSorted x l : SSorted l -> SSorted (sinsert x l).
Proof.
  induction 1 as [|a l S IH L]; cbn.
  - constructor; [constructor|]. intros y [].
  - destruct (String.ltb x a) eqn:E1.
    + constructor; [constructor; assumption|].
      intros y [<-|Hy]; [exact E1|]. apply (ltb_trans x a y E1). apply L, Hy.
    + destruct (String.ltb a x) eqn:E2.
      * constructor; [exact IH|]. intros y Hy. apply sinsert_In in Hy as [->|Hy]; [exact E2|apply L, Hy].
      * constructor; assumption.
Qed.

Lemma ssort_SSorted l : SSorted (ssort l).
Proof. induction l; cbn; [constructor|apply sinsert_SSorted; assumption]. Qed.

Lemma ssort_In l y : In y (ssort l) <-> In y l.
Proof. induction l as [|a l IH]; cbn; [tauto|]. rewrite sinsert_In, IH. intuition. Qed.

Lemma SSorted_ssorted l : SSorted l -> ssorted l = true.
Proof.
  induction 1 as [|x l S IH L]; [reflexivity|]. cbn [ssorted]. destruct l as [|y r]; [reflexivity|].
  rewrite (L y (or_introl eq_refl)). exact IH.
Qed.

(** ---- the k-way merge ---- *)
Definition allin (ls : list (list string)) (x : string) : Prop := exists l, In l ls /\ In x l.

Lemma min_head_none ls : min_head ls = None -> forall l, In l ls -> l = [].
Proof.
  induction ls as [|l r IH]; cbn; [intros _ ? []|].
  destruct l as [|a l'].
  - intros H l0 [<-|Hl]; [reflexivity|apply IH; assumption].
  - destruct (min_head r) as [y|]; [destruct (String.ltb y a)|]; discriminate.
Qed.

Lemma min_head_some ls x :
  Forall SSorted ls -> min_head ls = Some x ->
  (exists l', In (x :: l') ls) /\ (forall y, allin ls y -> y = x \/ String.ltb x y = true).
Proof.
  induction ls as [|l r IH] in x |- *; cbn; [discriminate|].
  intros HF H. inversion HF as [|? ? Sl Sr]; subst.
  destruct l as [|a l'].
  - destruct (IH x Sr H) as [[t Ht] Hmin]. split; [exists t; right; exact Ht|].
    intros y [l0 [[<-|Hl0] Hy]]; [destruct Hy|]. apply Hmin. exists l0; auto.
  - inversion Sl as [|? ? Sl' La]; subst.
    assert (Hl : forall y, In y (a :: l') -> y = a \/ String.ltb a y = true).
    { intros y [<-|Hy]; [left; reflexivity|right; apply La, Hy]. }
    destruct (min_head r) as [m|] eqn:Em.
    + destruct (IH m Sr eq_refl) as [[t Ht] Hmin].
      destruct (String.ltb m a) eqn:Ema; inversion H; subst x.
      * split; [exists t; right; exact Ht|].
        intros y [l0 [[<-|Hl0] Hy]].
        -- right. destruct (Hl y Hy) as [->|Hay]; [exact Ema|exact (ltb_trans m a y Ema Hay)].
        -- apply Hmin. exists l0; auto.
      * split; [exists l'; left; reflexivity|].
        intros y [l0 [[<-|Hl0] Hy]]; [apply Hl, Hy|].
        destruct (Hmin y (ex_intro _ l0 (conj Hl0 Hy))) as [->|Hmy].
        -- destruct (String.ltb a m) eqn:Eam; [right; reflexivity|left; symmetry; apply ltb_trichotomy; assumption].
        -- destruct (String.ltb a m) eqn:Eam; [right; exact (ltb_trans a m y Eam Hmy)|].
           pose proof (ltb_trichotomy a m Eam Ema). subst. right; exact Hmy.
    + inversion H; subst x. split; [exists l'; left; reflexivity|].
      intros y [l0 [[<-|Hl0] Hy]]; [apply Hl, Hy|].
      rewrite (min_head_none r Em l0 Hl0) in Hy. destruct Hy.
Qed.

Lemma pop_spec x l :
  SSorted l -> (forall y, In y l -> y = x \/ String.ltb x y = true) ->
  SSorted (pop x l) /\ (forall y, In y (pop x l) <-> In y l /\ y <> x).
Proof.
  intros S Hmin. destruct l as [|a r]; cbn; [split; [constructor|intuition]|].
  inversion S as [|? ? Sr La]; subst.
  destruct (String.eqb a x) eqn:E.
  - apply String.eqb_eq in E. subst a. split; [exact Sr|].
    intro y. split.
    + intro Hy. split; [right; exact Hy|]. intro; subst y.
      pose proof (La x Hy) as X. rewrite ltb_irrefl in X. discriminate.
    + intros [[->|Hy] Hne]; [congruence|exact Hy].
  - apply String.eqb_neq in E. split; [exact S|].
    intro y. split; [|intros [H _]; exact H]. intro Hy. split; [exact Hy|]. intro; subst y.
    destruct (Hmin a (or_introl eq_refl)) as [->|Hxa]; [congruence|].
    destruct Hy as [->|Hy]; [congruence|].
    pose proof (La x Hy) as X. rewrite (ltb_asym x a Hxa) in X. discriminate.
Qed.

Lemma pop_length x l : length (pop x l) <= length l.
Proof. destruct l as [|a r]; cbn; [lia|]. destruct (String.eqb a x); cbn; lia. Qed.

Lemma concat_pop_length x ls :
  length (concat (map (pop x) ls)) <= length (concat ls).
Proof.
  induction ls as [|l r IH]; cbn; [lia|]. rewrite !app_length. pose proof (pop_length x l). lia.
Qed.

Lemma concat_pop_length_lt x ls l' :
  In (x :: l') ls -> length (concat (map (pop x) ls)) < length (concat ls).
Proof.
  induction ls as [|l r IH]; cbn; [intros []|]. rewrite !app_length.
  intros [->|Hin].
  - cbn. rewrite String.eqb_refl. pose proof (concat_pop_length x r). lia.
  - pose proof (pop_length x l). specialize (IH Hin). lia.
Qed.

Lemma kmerge_spec fuel : forall ls,
  Forall SSorted ls -> length (concat ls) < fuel ->
  SSorted (kmerge fuel ls) /\ (forall y, In y (kmerge fuel ls) <-> allin ls y).
Proof.
  induction fuel as [|f IH]; intros ls HF Hlen; [lia|]. cbn.
  destruct (min_head ls) as [x|] eqn:Em.
  - destruct (min_head_some ls x HF Em) as [[t Ht] Hmin].
    set (ls' := map (pop x) ls).
    assert (HF' : Forall SSorted ls').
    { apply Forall_forall. intros l Hl. apply in_map_iff in Hl as [l0 [<- Hl0]].
      rewrite Forall_forall in HF. apply pop_spec; [apply HF, Hl0|].
      intros y Hy. apply Hmin. exists l0; auto. }
    assert (Hall' : forall y, allin ls' y <-> allin ls y /\ y <> x).
    { intro y. split.
      - intros [l [Hl Hy]]. apply in_map_iff in Hl as [l0 [<- Hl0]].
        rewrite Forall_forall in HF.
        apply (proj2 (pop_spec x l0 (HF l0 Hl0) (fun z Hz => Hmin z (ex_intro _ l0 (conj Hl0 Hz))))) in Hy.
        split; [exists l0; tauto|tauto].
      - intros [[l0 [Hl0 Hy]] Hne]. exists (pop x l0). split; [apply in_map; exact Hl0|].
        rewrite Forall_forall in HF.
        apply (proj2 (pop_spec x l0 (HF l0 Hl0) (fun z Hz => Hmin z (ex_intro _ l0 (conj Hl0 Hz))))). tauto. }
    pose proof (concat_pop_length_lt x ls t Ht) as Hlt.
    destruct (IH ls' HF' ltac:(unfold ls'; lia)) as [S' M'].
    split.
    + constructor; [exact S'|]. intros y Hy. apply M', Hall' in Hy as [Hy Hne].
      destruct (Hmin y Hy); [contradiction|assumption].
    + intro y. cbn. rewrite M', Hall'. split.
      * intros [<-|[H _]]; [exists (x :: t); split; [exact Ht|left; reflexivity]|exact H].
      * intro H. destruct (String.eqb y x) eqn:E; [left; symmetry; apply String.eqb_eq; exact E|].
        right. split; [exact H|apply String.eqb_neq; exact E].
  - split; [constructor|]. intro y. split; [intros []|].
    intros [l [Hl Hy]]. rewrite (min_head_none ls Em l Hl) in Hy. destruct Hy.
Qed.

Lemma kmerge_all_SSorted ls : Forall SSorted ls -> SSorted (kmerge_all ls).
Proof. intro H. apply kmerge_spec; [exact H|lia]. Qed.

Lemma kmerge_all_In ls y : Forall SSorted ls -> (In y (kmerge_all ls) <-> allin ls y).
Proof. intro H. apply kmerge_spec; [exact H|lia]. Qed.

(** The mirror of the merge iterators = sorted, duplicate-free union of the inputs. *)
Theorem merge_sorted_lists_correct ls :
  Forall SSorted ls -> kmerge_all ls = ssort (concat ls).
Proof.
  intro H. apply SSorted_unique; [apply kmerge_all_SSorted, H|apply ssort_SSorted|].
  intro y. rewrite (kmerge_all_In ls y H), ssort_In, in_concat. unfold allin. reflexivity.
Qed.

(** ---- the IndexSet view ---- *)
Lemma nodup_series_In l s : In s (nodup_series l) <-> In s l.
Proof.
  induction l as [|a l IH]; cbn; [tauto|].
  destruct (mem a l) eqn:E; cbn; rewrite IH; [|tauto].
  apply mem_In in E. split; [auto|]. intros [<-|H]; auto.
Qed.

Lemma is_live_In shs s :
  In s (is_live shs) <-> exists sh, In sh shs /\ In s (sh_all sh) /\ ~ In s (sh_dead sh).
Proof.
  unfold is_live. rewrite nodup_series_In, in_flat_map. unfold live.
  split; intros [sh [Hsh H]]; exists sh; split; auto.
  - apply filter_In in H as [Ha Hd]. split; [exact Ha|]. intro X. apply mem_In in X. rewrite X in Hd. discriminate.
  - destruct H as [Ha Hd]. apply filter_In. split; [exact Ha|].
    destruct (mem s (sh_dead sh)) eqn:E; [apply mem_In in E; contradiction|reflexivity].
Qed.

Lemma live_in_is_live shs sh s : In sh shs -> In s (live sh) -> In s (is_live shs).
Proof. intros Hsh Hs. unfold is_live. apply nodup_series_In, in_flat_map. exists sh. auto. Qed.

Lemma is_live_from shs s : In s (is_live shs) -> exists sh, In sh shs /\ In s (live sh).
Proof. unfold is_live. rewrite nodup_series_In, in_flat_map. auto. Qed.

Lemma is_names_SSorted shs : SSorted (is_names shs).
Proof.
  apply kmerge_all_SSorted, Forall_forall. intros l Hl. apply in_map_iff in Hl as [sh [<- _]].
  apply ssort_SSorted.
Qed.

Lemma is_names_In shs m :
  In m (is_names shs) <-> exists s, In s (is_live shs) /\ s_name s = m.
Proof.
  unfold is_names. rewrite kmerge_all_In.
  2:{ apply Forall_forall. intros l Hl. apply in_map_iff in Hl as [sh [<- _]]. apply ssort_SSorted. }
  unfold allin. split.
  - intros [l [Hl Hm]]. apply in_map_iff in Hl as [sh [<- Hsh]]. unfold shard_names in Hm.
    apply ssort_In, in_map_iff in Hm as [s [Hn Hs]]. exists s. split; [eapply live_in_is_live; eauto|exact Hn].
  - intros [s [Hs Hn]]. apply is_live_from in Hs as [sh [Hsh Hs]].
    exists (shard_names sh). split; [apply in_map; exact Hsh|].
    unfold shard_names. apply ssort_In, in_map_iff. exists s. auto.
Qed.

(** The listing is complete: the tag value of every live series is listed. *)
Lemma is_vals_complete shs m k s v :
  In s (is_live shs) -> is_meas m s = true -> tag_get (s_tags s) k = Some v -> In v (is_vals shs m k).
Proof.
  intros Hs Hm T. apply is_live_from in Hs as [sh [Hsh Hs]].
  unfold is_vals. apply kmerge_all_In.
  { apply Forall_forall. intros l Hl. apply in_map_iff in Hl as [sh' [<- _]].
    unfold shard_vals. destruct (has_live sh' m); [apply ssort_SSorted|constructor]. }
  exists (shard_vals sh m k). split; [apply (in_map (fun sh => shard_vals sh m k)); exact Hsh|].
  unfold shard_vals.
  assert (HL : has_live sh m = true). { unfold has_live. apply existsb_exists. exists s. auto. }
  rewrite HL. apply ssort_In, in_flat_map. exists s. split.
  - unfold live in Hs. apply filter_In in Hs. tauto.
  - rewrite Hm, T. left; reflexivity.
Qed.

Lemma is_keys_complete shs m k s :
  In s (is_live shs) -> is_meas m s = true -> has_key k s = true -> In k (is_keys shs m).
Proof.
  intros Hs Hm Hk. apply is_live_from in Hs as [sh [Hsh Hs]].
  unfold is_keys. apply kmerge_all_In.
  { apply Forall_forall. intros l Hl. apply in_map_iff in Hl as [sh' [<- _]].
    unfold shard_keys. destruct (has_live sh' m); [apply ssort_SSorted|constructor]. }
  exists (shard_keys sh m). split; [apply (in_map (fun sh => shard_keys sh m)); exact Hsh|].
  unfold shard_keys.
  assert (HL : has_live sh m = true). { unfold has_live. apply existsb_exists. exists s. auto. }
  rewrite HL. apply ssort_In, in_flat_map. exists s. split.
  - unfold live in Hs. apply filter_In in Hs. tauto.
  - rewrite Hm. unfold has_key in Hk. destruct (tag_get (s_tags s) k) as [v|] eqn:T; [|discriminate].
    apply tag_get_in in T. apply in_map_iff. exists (k, v). auto.
Qed.

Lemma is_vals_SSorted shs m k : SSorted (is_vals shs m k).
Proof.
  apply kmerge_all_SSorted, Forall_forall. intros l Hl. apply in_map_iff in Hl as [sh [<- _]].
  unfold shard_vals. destruct (has_live sh m); [apply ssort_SSorted|constructor].
Qed.

Lemma is_keys_SSorted shs m : SSorted (is_keys shs m).
Proof.
  apply kmerge_all_SSorted, Forall_forall. intros l Hl. apply in_map_iff in Hl as [sh [<- _]].
  unfold shard_keys. destruct (has_live sh m); [apply ssort_SSorted|constructor].
Qed.

(** The merged index is consistent with the live series (its listed values are a superset). *)
Lemma is_index_ok shs : index_ok (is_live shs) (is_index shs).
Proof.
  split.
  - intros n; reflexivity.
  - intros n k; reflexivity.
  - intros n k v; reflexivity.
  - intros n k H s Hs Hm. unfold is_index in H; cbn [ix_vals] in H.
    destruct (tag_get (s_tags s) k) as [v|] eqn:T; [|reflexivity].
    pose proof (is_vals_complete shs n k s v Hs Hm T) as Hin.
    destruct (is_vals shs n k); [destruct Hin|discriminate H].
  - intros n k vs H s v Hs Hm T. unfold is_index in H; cbn [ix_vals] in H.
    pose proof (is_vals_complete shs n k s v Hs Hm T) as Hin.
    destruct (is_vals shs n k) eqn:E; [destruct Hin|]. inversion H; subst. exact Hin.
Qed.

(** ---- SHOW MEASUREMENTS without a condition ---- *)
Theorem names_exact (shs : list shard) (rm : N -> string -> bool) (a : authz) :
  measurement_names shs rm a None = Some (spec_names shs rm a None).
Proof.
  unfold measurement_names, spec_names. f_equal.
  apply SSorted_unique; [apply SSorted_filter, is_names_SSorted|apply ssort_SSorted|].
  intro m. rewrite filter_In, ssort_In, in_map_iff, is_names_In. unfold visible, eval_opt.
  split.
  - intros [[s [Hs Hn]] Ha]. destruct a as [f|]; cbn in Ha.
    + apply existsb_exists in Ha as [s' [Hs' H]]. apply andb_true_iff in H as [H1 H2].
      exists s'. split; [apply String.eqb_eq; exact H1|]. apply filter_In. split; [exact Hs'|].
      cbn. rewrite H2. reflexivity.
    + exists s. split; [exact Hn|]. apply filter_In. split; [exact Hs|reflexivity].
  - intros [s [Hn Hs]]. apply filter_In in Hs as [Hs Ha]. split; [exists s; auto|].
    destruct a as [f|]; cbn in *; [|reflexivity].
    apply existsb_exists. exists s. split; [exact Hs|]. unfold is_meas. rewrite Hn, String.eqb_refl.
    rewrite !andb_true_r in Ha. exact Ha.
Qed.

Theorem names_exact_sorted_nodup (shs : list shard) (rm : N -> string -> bool) (a : authz) :
  exists ns, measurement_names shs rm a None = Some ns /\ SSorted ns /\ NoDup ns /\
    forall m, In m ns <-> exists s, In s (is_live shs) /\ s_name s = m /\ auth_ok a s = true.
Proof.
  exists (spec_names shs rm a None). split; [apply names_exact|].
  split; [apply ssort_SSorted|]. split; [apply SSorted_NoDup, ssort_SSorted|].
  intro m. unfold spec_names, visible, eval_opt. rewrite ssort_In, in_map_iff. split.
  - intros [s [Hn Hs]]. apply filter_In in Hs as [Hs Ha]. rewrite !andb_true_r in Ha. eauto.
  - intros [s [Hs [Hn Ha]]]. exists s. split; [exact Hn|]. apply filter_In. rewrite Ha. auto.
Qed.

(** ---- tag values under a WHERE filter: exact on the live authorized matching series ---- *)
Definition tagvals_of (k : string) (ss : list series) : list string :=
  ssort (flat_map (fun s => match tag_get (s_tags s) k with Some v => [v] | None => [] end) ss).

Theorem key_values_filter_exact shs rm a m keys e :
  wf (is_live shs) -> tag_only N e = true ->
  key_values shs rm a m keys (Some e) =
  map (fun k => tagvals_of k (filter (auth_ok a)
                   (filter (fun s => is_meas m s && eval N rm m e s) (is_live shs)))) keys.
Proof.
  intros Hwf Ht. unfold key_values.
  pose proof (series_by_expr_den N rm (is_live shs) (is_index shs) (is_index_ok shs) Hwf m e Ht) as H.
  unfold den in H. destruct (series_by_expr N rm (is_live shs) (is_index shs) m e) as [ss|]; cbn in H.
  - rewrite H. reflexivity.
  - rewrite <- H. reflexivity.
Qed.

Lemma tagvals_of_In k ss v :
  In v (tagvals_of k ss) <-> exists s, In s ss /\ tag_get (s_tags s) k = Some v.
Proof.
  unfold tagvals_of. rewrite ssort_In, in_flat_map. split; intros [s [Hs H]]; exists s; split; auto.
  - destruct (tag_get (s_tags s) k); [destruct H as [->|[]]; reflexivity|destruct H].
  - rewrite H. left; reflexivity.
Qed.

Theorem values_filter_exact_sorted_nodup shs rm a m keys e :
  wf (is_live shs) -> tag_only N e = true ->
  Forall2 (fun k vs => SSorted vs /\ NoDup vs /\
             forall v, In v vs <-> exists s, In s (is_live shs) /\ s_name s = m /\ auth_ok a s = true /\
                                             eval N rm m e s = true /\ tag_get (s_tags s) k = Some v)
          keys (key_values shs rm a m keys (Some e)).
Proof.
  intros Hwf Ht. rewrite (key_values_filter_exact shs rm a m keys e Hwf Ht).
  induction keys as [|k keys IH]; cbn; constructor; [|exact IH].
  split; [apply ssort_SSorted|]. split; [apply SSorted_NoDup, ssort_SSorted|].
  intro v. rewrite tagvals_of_In. split.
  - intros [s [Hs T]]. apply filter_In in Hs as [Hs Ha]. apply filter_In in Hs as [Hs Hc].
    apply andb_true_iff in Hc as [Hm He]. exists s. repeat split; auto. apply String.eqb_eq, Hm.
  - intros [s [Hs [Hn [Ha [He T]]]]]. exists s. split; [|exact T].
    apply filter_In. split; [|exact Ha]. apply filter_In. split; [exact Hs|].
    unfold is_meas. rewrite Hn, String.eqb_refl, He. reflexivity.
Qed.

(** ---- listings under a fine-grained authorizer: exact (no stale names) ---- *)
Theorem values_fine_auth_exact shs rm f m keys :
  Forall2 (fun k vs => SSorted vs /\ NoDup vs /\
             forall v, In v vs <-> exists s, In s (is_live shs) /\ s_name s = m /\ f s = true /\
                                             tag_get (s_tags s) k = Some v)
          keys (key_values shs rm (Some f) m keys None).
Proof.
  unfold key_values.
  induction keys as [|k keys IH]; cbn; constructor; [|exact IH].
  pose proof (SSorted_filter (fun v => existsb (fun s => is_meas m s && has_val k v s && f s) (is_live shs))
               _ (is_vals_SSorted shs m k)) as S.
  split; [exact S|]. split; [apply SSorted_NoDup, S|].
  intro v. rewrite filter_In, existsb_exists. split.
  - intros [_ [s [Hs H]]]. apply andb_true_iff in H as [H Hf]. apply andb_true_iff in H as [Hm Hv].
    exists s. repeat split; auto; [apply String.eqb_eq, Hm|].
    unfold has_val in Hv. destruct (tag_get (s_tags s) k) as [v'|]; [|discriminate].
    apply String.eqb_eq in Hv. subst. reflexivity.
  - intros [s [Hs [Hn [Hf T]]]].
    assert (Hm : is_meas m s = true) by (unfold is_meas; rewrite Hn; apply String.eqb_refl).
    split; [eapply is_vals_complete; eauto|]. exists s. split; [exact Hs|].
    unfold has_val. rewrite Hm, T, String.eqb_refl, Hf. reflexivity.
Qed.

Theorem keys_fine_auth_exact shs rm f m kf :
  let ks := filter (key_authorized shs (Some f) m) (keys_by_filter shs rm m kf) in
  SSorted ks /\ NoDup ks /\
  forall k, In k ks <-> key_match rm kf k = true /\
                        exists s, In s (is_live shs) /\ s_name s = m /\ f s = true /\ has_key k s = true.
Proof.
  cbv zeta. unfold keys_by_filter.
  pose proof (SSorted_filter (key_authorized shs (Some f) m) _
               (SSorted_filter (key_match rm kf) _ (is_keys_SSorted shs m))) as S.
  split; [exact S|]. split; [apply SSorted_NoDup, S|].
  intro k. rewrite !filter_In. cbn. rewrite existsb_exists. split.
  - intros [[_ Hkf] [s [Hs H]]]. apply andb_true_iff in H as [H Hf]. apply andb_true_iff in H as [Hm Hk].
    split; [exact Hkf|]. exists s. repeat split; auto. apply String.eqb_eq, Hm.
  - intros [Hkf [s [Hs [Hn [Hf Hk]]]]].
    assert (Hm : is_meas m s = true) by (unfold is_meas; rewrite Hn; apply String.eqb_refl).
    split; [split; [eapply is_keys_complete; eauto|exact Hkf]|].
    exists s. split; [exact Hs|]. rewrite Hm, Hk, Hf. reflexivity.
Qed.

(** ---- refutation witnesses (the stale listings, open authorizer) ---- *)
Definition w_s (n : string) (t : tags) : series := {| s_name := n; s_tags := t |}.
(** One shard: m,k1=a and m,k2=a were deleted, m,k1=b lives. *)
Definition w_shard : shard :=
  {| sh_all := [w_s "m" [("k1","a")]; w_s "m" [("k1","b")]; w_s "m" [("k2","a")]];
     sh_dead := [w_s "m" [("k1","a")]; w_s "m" [("k2","a")]] |}.
Definition w_rm : N -> string -> bool := fun _ _ => false.

Lemma w_values_stale :
  tag_values [w_shard] w_rm None None (KEq "k1") None = Some [("m", [("k1","a"); ("k1","b")])]
  /\ spec_values [w_shard] w_rm None None (KEq "k1") None = [("m", [("k1","b")])].
Proof. split; vm_compute; reflexivity. Qed.

Lemma w_keys_stale :
  tag_keys [w_shard] w_rm None None KAll None = Some [("m", ["k1"; "k2"])]
  /\ spec_keys [w_shard] w_rm None None KAll None = [("m", ["k1"])].
Proof. split; vm_compute; reflexivity. Qed.

Lemma w_names_stale :
  measurement_names [w_shard] w_rm None (Some (Eq "k2" "a")) = Some ["m"]
  /\ spec_names [w_shard] w_rm None (Some (Eq "k2" "a")) = [].
Proof. split; vm_compute; reflexivity. Qed.

(** The same three queries under a fine authorizer that allows everything are exact. *)
Lemma w_fine_is_exact :
  let all := Some (fun _ : series => true) in
  tag_values [w_shard] w_rm all None (KEq "k1") None = Some [("m", [("k1","b")])]
  /\ tag_keys [w_shard] w_rm all None KAll None = Some [("m", ["k1"])]
  /\ measurement_names [w_shard] w_rm all (Some (Eq "k2" "a")) = Some [].
Proof. cbv zeta. repeat split; vm_compute; reflexivity. Qed.

(** SHOW MEASUREMENTS WHERE a AND b intersects NAME sets: m is listed although no single
    series has both tags (InfluxQL's documented measurement-level meaning; observation). *)
Lemma w_names_and_is_measurement_level :
  let sh := {| sh_all := [w_s "m" [("k1","a")]; w_s "m" [("k2","b")]]; sh_dead := [] |} in
  measurement_names [sh] w_rm None (Some (And (Eq "k1" "a") (Eq "k2" "b"))) = Some ["m"]
  /\ spec_names [sh] w_rm None (Some (And (Eq "k1" "a") (Eq "k2" "b"))) = [].
Proof. cbv zeta. split; vm_compute; reflexivity. Qed.

(** A series dropped from one shard while it lives on in another (formerly served from the stale
    tag-value cache, fixed): the shard that dropped n,k1=a no longer returns it. *)
Definition w_dropped_shard : shard :=
  {| sh_all := [w_s "n" [("k1","a")]; w_s "n" [("k1","b")]]; sh_dead := [w_s "n" [("k1","a")]] |}.
Lemma w_values_after_drop :
  let all := Some (fun _ : series => true) in
  tag_values [w_dropped_shard] w_rm all None (KEq "k1") None = Some [("n", [("k1","b")])]
  /\ spec_values [w_dropped_shard] w_rm all None (KEq "k1") None = [("n", [("k1","b")])]
  /\ tag_values [w_dropped_shard] w_rm all None (KEq "k1") (Some (Eq "k1" "a")) = Some []
  /\ spec_values [w_dropped_shard] w_rm all None (KEq "k1") (Some (Eq "k1" "a")) = [].
Proof. cbv zeta. repeat split; vm_compute; reflexivity. Qed.
