#!/bin/bash
# (Re)generate _CoqProject from the files present and run a full .vo build (never -vos/-vok).
# usage: coqbuild.sh [make-target...]   (default: all)
set -e
cd /verif/coq
{ cat _CoqProject.head; find Base Gen Model Proofs Props -name '*.v' 2>/dev/null | sort; } > _CoqProject.new
if ! cmp -s _CoqProject.new _CoqProject 2>/dev/null; then mv _CoqProject.new _CoqProject; coq_makefile -f _CoqProject -o Makefile >/dev/null; else rm _CoqProject.new; fi
[ -f Makefile ] || coq_makefile -f _CoqProject -o Makefile >/dev/null
exec timeout ${COQ_TIMEOUT:-3000} make -j${COQ_JOBS:-16} "$@"
