(** C04 — part 6: what [sort.Stable] with the non-transitive [blocks.Less] guarantees
    (neighbours are never out of order; blocks sharing a timestamp keep their file order), and
    why the min-window of the dedup path never skips an unread point: the window starts at or
    below the smallest unread timestamp of the whole key. *)
From Coq Require Import ZifyBool.
From Verif Require Import Base.Prelude Model.C37 Proofs.C37 Model.C04 Proofs.C04 Proofs.C04_size
     Proofs.C04_blocks Proofs.C04_pend.
Local Open Scope Z_scope.

Section Window.
  Context {V : Type}.
  Notation arr := (arr V).
  Notation blk := (blk V).

  (** neighbours [x, y] (in this order) are not inverted: [y] does not lie entirely before [x] *)
  Fixpoint adjP (prev : blk) (l : list blk) : Prop :=
    match l with [] => True | y :: r => b_min prev <= b_max y /\ adjP y r end.
  Definition adj (l : list blk) : Prop := match l with [] => True | x :: r => adjP x r end.

  (** the same on a reversed list (head = rightmost) *)
  Fixpoint radjP (y : blk) (r : list blk) : Prop :=
    match r with [] => True | z :: r' => b_min z <= b_max y /\ radjP z r' end.
  Definition radj (rp : list blk) : Prop := match rp with [] => True | y :: r => radjP y r end.

  Lemma less_spec (x y : blk) : less x y = true <-> b_min x < b_min y /\ b_max x < b_min y.
  Proof. unfold less. lia. Qed.

  Lemma ins_rev_radjP (x : blk) : bwf x -> forall r y, Forall bwf r ->
    radjP y r -> b_min x <= b_max y -> radjP y (ins_rev x r).
  Proof.
    intros Wx. induction r as [|z r' IH]; intros y Wr Hr Hxy; cbn [ins_rev].
    - cbn. auto.
    - inversion Wr as [|? ? Wz Wr']; subst. destruct Hr as [Hzy Hr'].
      destruct (less x z) eqn:E.
      + cbn [radjP]. split; [exact Hzy|]. apply IH; auto.
        apply less_spec in E. pose proof (bwf_minmax x Wx). pose proof (bwf_minmax z Wz). lia.
      + cbn [radjP]. repeat split; auto.
        pose proof (bwf_minmax x Wx). destruct (less_spec x z) as [_ Hl].
        destruct (Z_lt_ge_dec (b_max x) (b_min z)) as [Hlt|]; [|lia].
        exfalso. rewrite Hl in E; [discriminate|lia].
  Qed.

  Lemma ins_rev_radj (x : blk) rp : bwf x -> Forall bwf rp -> radj rp -> radj (ins_rev x rp).
  Proof.
    intros Wx Wr Hr. destruct rp as [|y r]; [cbn; auto|]. cbn [ins_rev].
    inversion Wr as [|? ? Wy Wr']; subst. destruct (less x y) eqn:E.
    - cbn [radj]. apply ins_rev_radjP; auto.
      apply less_spec in E. pose proof (bwf_minmax x Wx). pose proof (bwf_minmax y Wy). lia.
    - cbn [radj radjP]. split; [|exact Hr].
      pose proof (bwf_minmax x Wx). destruct (less_spec x y) as [_ Hl].
      destruct (Z_lt_ge_dec (b_max x) (b_min y)) as [Hlt|]; [|lia].
      exfalso. rewrite Hl in E; [discriminate|lia].
  Qed.

  Lemma ins_rev_bwf (x : blk) rp : bwf x -> Forall bwf rp -> Forall bwf (ins_rev x rp).
  Proof.
    intros Wx Wr. apply Forall_forall. intros b Hb. apply ins_rev_In in Hb as [->|Hb]; [exact Wx|].
    rewrite Forall_forall in Wr. auto.
  Qed.

  Lemma sort_fold_radj : forall (l acc : list blk), Forall bwf l -> Forall bwf acc -> radj acc ->
    radj (fold_left (fun rp x => ins_rev x rp) l acc).
  Proof.
    induction l as [|x r IH]; intros acc Wl Wa Ha; cbn [fold_left]; [exact Ha|].
    inversion Wl; subst. apply IH; auto; [apply ins_rev_bwf|apply ins_rev_radj]; auto.
  Qed.

  Lemma last_cons_default : forall (l : list blk) z x, last (z :: l) x = last l z.
  Proof.
    induction l as [|a l IH]; intros z x; [reflexivity|].
    change (last (z :: a :: l) x) with (last (a :: l) x). rewrite (IH a x), (IH a z). reflexivity.
  Qed.

  Lemma adjP_snoc : forall l x y, adjP x l -> b_min (last l x) <= b_max y -> adjP x (l ++ [y]).
  Proof.
    induction l as [|z l IH]; intros x y Ha Hl; cbn [app adjP].
    - cbn in Hl. auto.
    - destruct Ha as [H1 H2]. split; [exact H1|]. apply IH; [exact H2|].
      rewrite last_cons_default in Hl. exact Hl.
  Qed.

  Lemma adj_rev rp : radj rp -> adj (rev rp).
  Proof.
    induction rp as [|y r IH]; [cbn; auto|]. intro H. cbn [rev].
    destruct r as [|z r']; [cbn; auto|]. destruct H as [Hzy Hr].
    specialize (IH Hr). cbn [rev] in *.
    destruct (rev r' ++ [z]) as [|h t] eqn:E; [destruct (rev r'); discriminate|].
    cbn [app adj] in *. apply adjP_snoc; [exact IH|].
    assert (Hlast : last (h :: t) h = z) by (rewrite <- E; apply last_last).
    rewrite last_cons_default in Hlast. rewrite Hlast. exact Hzy.
  Qed.

  Lemma isort_adj (l : list blk) : Forall bwf l -> adj (isort l).
  Proof. intro W. unfold isort. apply adj_rev, sort_fold_radj; auto; cbn; auto. Qed.

  Lemma adjP_suffix : forall l x, adjP x l -> adj l.
  Proof. intros [|y r] x; cbn; tauto. Qed.

  Lemma drop_read_adj : forall l : list blk, adj l -> adj (drop_read l).
  Proof.
    induction l as [|b r IH]; intro H; cbn [drop_read]; [exact H|].
    destruct (is_read b); [|exact H]. apply IH. eapply adjP_suffix. exact H.
  Qed.

  (** *** sorting does not change which block wins at any timestamp *)
  Fixpoint pfirst (t : Z) (rp : list blk) : option V :=
    match rp with [] => None | y :: r => orelse (lookup_last t (live y)) (pfirst t r) end.

  Lemma plast_rev t rp : plast t (rev rp) = pfirst t rp.
  Proof.
    induction rp as [|y r IH]; [reflexivity|]. cbn [rev pfirst]. rewrite plast_app, IH.
    unfold plast at 1, pendl. cbn. rewrite app_nil_r. reflexivity.
  Qed.

  Lemma live_disjoint (x y : blk) t : bwf x -> bwf y -> b_max x < b_min y ->
    lookup_last t (live x) = None \/ lookup_last t (live y) = None.
  Proof.
    intros Wx Wy H. destruct (lookup_last t (live x)) as [v|] eqn:Ex; [|auto]. right.
    apply lookup_last_Some in Ex. apply live_bounds in Ex; [|exact Wx]. unfold tm in Ex; cbn in Ex.
    apply lookup_last_None. intros p Hp. apply live_bounds in Hp; [|exact Wy]. lia.
  Qed.

  Lemma pfirst_ins_rev t (x : blk) : bwf x -> forall rp, Forall bwf rp ->
    pfirst t (ins_rev x rp) = pfirst t (x :: rp).
  Proof.
    intros Wx. induction rp as [|y r IH]; intro Wr; [reflexivity|]. cbn [ins_rev].
    inversion Wr as [|? ? Wy Wr']; subst. destruct (less x y) eqn:E; [|reflexivity].
    cbn [pfirst]. rewrite IH by exact Wr'. cbn [pfirst].
    apply less_spec in E. destruct (live_disjoint x y t Wx Wy) as [H|H]; [lia| |]; rewrite H.
    - destruct (lookup_last t (live y)); reflexivity.
    - reflexivity.
  Qed.

  Lemma pfirst_app t a b : pfirst t (a ++ b) = orelse (pfirst t a) (pfirst t b).
  Proof. induction a as [|y r IH]; [reflexivity|]. cbn [app pfirst]. rewrite IH, orelse_assoc. reflexivity. Qed.

  Lemma sort_fold_pfirst t : forall (l acc : list blk), Forall bwf l -> Forall bwf acc ->
    pfirst t (fold_left (fun rp x => ins_rev x rp) l acc) = pfirst t (rev l ++ acc).
  Proof.
    induction l as [|x r IH]; intros acc Wl Wa; cbn [fold_left]; [reflexivity|].
    inversion Wl; subst. rewrite IH by (auto; apply ins_rev_bwf; auto).
    cbn [rev]. rewrite <- app_assoc. cbn [app]. rewrite !pfirst_app, pfirst_ins_rev by auto. reflexivity.
  Qed.

  Lemma plast_isort t (l : list blk) : Forall bwf l -> plast t (isort l) = plast t l.
  Proof.
    intro W. unfold isort. rewrite plast_rev, sort_fold_pfirst by (auto; constructor).
    rewrite app_nil_r, <- plast_rev, rev_involutive. reflexivity.
  Qed.

  (** *** the window *)
  Lemma window_inv L : forall (l : list blk) prev m M,
    bok L prev -> Forall (bok L) l -> adjP prev l ->
    (m <= b_min prev \/ M < b_min prev \/ m <= L) -> L < M -> m <= M ->
    exists m' M', window l (m, M) = (m', M') /\ m' <= m /\ L < M' /\ m' <= M' /\
                  (forall x p, In x l -> In p (unr x) -> m' <= tm p).
  Proof.
    induction l as [|y r IH]; intros prev m M Bp Bl Ha HA HL HmM.
    - exists m, M. cbn. repeat split; auto; try lia; try (intros x p []).
    - inversion Bl as [|? ? By Br]; subst. destruct Ha as [Hpy Hr].
      pose proof (ok_wf L y By) as Wy. pose proof (bwf_minmax y Wy) as Hmm.
      unfold window. cbn [fold_left]. fold (window r (window_step (m, M) y)).
      unfold window_step.
      destruct (overlaps y m M && negb (is_read y)) eqn:E.
      + (* overlapping and unread: widen / shrink *)
        apply andb_true_iff in E as [Eo Er]. apply negb_true_iff in Er.
        set (m1 := if b_min y <? m then b_min y else m).
        set (M1 := if (b_max y >? m1) && (b_max y <? M) then b_max y else M).
        pose proof (unread_gt L y By Er) as Hgt.
        assert (H1 : m1 <= b_min y /\ m1 <= m) by (subst m1; destruct (b_min y <? m) eqn:E1; lia).
        assert (H2 : L < M1 /\ m1 <= M1) by (subst M1; destruct ((b_max y >? m1) && (b_max y <? M)) eqn:E2; lia).
        destruct (IH y m1 M1 By Br Hr) as [m' [M' [Ew [Hm' [HL' [HmM' Hall]]]]]]; try lia.
        exists m', M'. split; [exact Ew|]. repeat split; try lia.
        intros x p [<-|Hx] Hp; [|eapply Hall; eauto].
        apply unr_In in Hp as [Hp _]. pose proof (bwf_bounds y Wy p Hp). lia.
      + (* not touched *)
        assert (Hy : m <= b_min y \/ M < b_min y \/ m <= L).
        { destruct (is_read y) eqn:Er.
          - pose proof (read_max L y By Er). right. right. lia.
          - rewrite andb_true_r in E. unfold overlaps in E. pose proof (unread_gt L y By Er).
            destruct (Z_lt_ge_dec M (b_min y)); [auto|]. exfalso. lia. }
        destruct (IH y m M By Br Hr Hy HL HmM) as [m' [M' [Ew [Hm' [HL' [HmM' Hall]]]]]].
        exists m', M'. split; [exact Ew|]. repeat split; try lia.
        intros x p [<-|Hx] Hp; [|eapply Hall; eauto].
        destruct (is_read y) eqn:Er.
        * rewrite read_unr in Hp; [destruct Hp|auto|apply (ok_st L y By)|auto].
        * rewrite andb_true_r in E. unfold overlaps in E. pose proof (unread_gt L y By Er).
          apply unr_In in Hp as [Hp _]. pose proof (bwf_bounds y Wy p Hp). lia.
  Qed.

  (** the window computed by the dedup path for the first unread block *)
  Lemma window_first L (first : blk) (rest : list blk) :
    Forall (bok L) (first :: rest) -> adj (first :: rest) -> is_read first = false ->
    exists m' M', window (first :: rest) (b_min first, b_max first) = (m', M') /\
                  L < M' /\ m' <= M' /\
                  (forall x p, In x (first :: rest) -> In p (unr x) -> m' <= tm p).
  Proof.
    intros B Ha R. inversion B as [|? ? Bf Br]; subst.
    pose proof (ok_wf L first Bf) as W. pose proof (bwf_minmax first W) as Hmm.
    pose proof (unread_gt L first Bf R) as Hgt.
    assert (Hstep : window (first :: rest) (b_min first, b_max first) = window rest (b_min first, b_max first)).
    { unfold window. cbn [fold_left]. f_equal. unfold window_step, overlaps. rewrite R. cbn [negb].
      replace ((b_min first <=? b_max first) && (b_max first >=? b_min first)) with true by lia.
      cbn [andb]. rewrite Z.ltb_irrefl. rewrite (Z.ltb_irrefl (b_max first)), andb_false_r. reflexivity. }
    destruct (window_inv L rest first (b_min first) (b_max first) Bf Br Ha) as [m' [M' [Ew [H1 [H2 [H3 H4]]]]]]; try lia.
    exists m', M'. rewrite Hstep. repeat split; auto.
    intros x p [<-|Hx] Hp; [|eapply H4; eauto].
    apply unr_In in Hp as [Hp _]. pose proof (bwf_bounds first W p Hp). lia.
  Qed.
End Window.
