(** C44 — passwords: the stored-hash machine of Model/C44.v refines a machine that keeps the
    last successfully set password IN THE CLEAR, over all histories. *)
From Verif Require Import Base.Prelude Model.C44 Proofs.C44_base.

Section Pw.
  Variable C : crypto.
  Hypothesis HC : crypto_ok C.
  Notation Str := (str C).

  (** what the specification remembers about a user's credential *)
  Inductive cred :=
  | Known (p : Str)        (* the password last set successfully through SetPassword / CompareAndSetPassword *)
  | Opaque (h : Str).      (* a stored hash that was put into the bucket directly *)

  Definition averify (c : cred) (q : Str) : bool :=
    match c with Known p => str_eqb C p q | Opaque h => pverify C h q end.

  Record apst := { a_users : list (N * bool); a_pw : list (N * cred); a_nextu : N }.

  Definition acheck (a : apst) (u : N) (q : Str) : bool :=
    match aget N.eqb u (a_users a), aget N.eqb u (a_pw a) with
    | Some _, Some c => averify c q
    | _, _ => false
    end.

  (** the specification machine: no hashes, no salts *)
  Definition apstep (strong : bool) (a : apst) (o : pop C) : apst :=
    match o with
    | CreateUser _ => {| a_users := aput N.eqb (a_nextu a) true (a_users a); a_pw := a_pw a; a_nextu := N.succ (a_nextu a) |}
    | SetUserActive _ u b =>
        match aget N.eqb u (a_users a) with
        | None => a
        | Some _ => {| a_users := aput N.eqb u b (a_users a); a_pw := a_pw a; a_nextu := a_nextu a |}
        end
    | DeleteUser _ u =>
        match aget N.eqb u (a_users a) with
        | None => a
        | Some _ => {| a_users := adel N.eqb u (a_users a); a_pw := adel N.eqb u (a_pw a); a_nextu := a_nextu a |}
        end
    | SetPw _ u _ p =>
        match strength C strong p, aget N.eqb u (a_users a) with
        | 0%N, Some _ => {| a_users := a_users a; a_pw := aput N.eqb u (Known p) (a_pw a); a_nextu := a_nextu a |}
        | _, _ => a
        end
    | CmpPw _ _ _ => a
    | CasPw _ u _ old new =>
        if acheck a u old then
          match strength C strong new with
          | 0%N => {| a_users := a_users a; a_pw := aput N.eqb u (Known new) (a_pw a); a_nextu := a_nextu a |}
          | _ => a
          end
        else a
    | PutPwRaw _ u h => {| a_users := a_users a; a_pw := aput N.eqb u (Opaque h) (a_pw a); a_nextu := a_nextu a |}
    end.

  Definition ainit : apst := {| a_users := []; a_pw := []; a_nextu := 0 |}.
  Definition aprun (strong : bool) (ops : list (pop C)) (a : apst) : apst := fold_left (apstep strong) ops a.
  Definition prun (ops : list (pop C)) (st : pstate C) : pstate C := fold_left (fun s o => fst (pstep C s o)) ops st.
  Definition pinit (strong : bool) : pstate C := {| users := []; pws := []; nextu := 0; strong := strong |}.

  (** refinement relation *)
  Definition cred_rel (h : option Str) (c : option cred) : Prop :=
    match h, c with
    | None, None => True
    | Some h, Some c => forall q, pverify C h q = averify c q
    | _, _ => False
    end.

  Definition R (st : pstate C) (a : apst) : Prop :=
    users C st = a_users a /\ nextu C st = a_nextu a /\
    forall u, cred_rel (aget N.eqb u (pws C st)) (aget N.eqb u (a_pw a)).

  Lemma R_init s : R (pinit s) ainit.
  Proof. split; [|split]; try reflexivity; intro u; exact I. Qed.

  Lemma compare_nocheck_R st a u q :
    R st a -> compare_nocheck C st u q = if acheck a u q then 0%N else
                                           match aget N.eqb u (a_users a) with None => 1%N | Some _ => 2%N end.
  Proof.
    intros [HU [_ HP]]. unfold compare_nocheck, acheck. rewrite HU.
    destruct (aget N.eqb u (a_users a)); [|reflexivity].
    specialize (HP u). unfold cred_rel in HP.
    destruct (aget N.eqb u (pws C st)), (aget N.eqb u (a_pw a)); try contradiction; try reflexivity.
    rewrite HP. destruct (averify c q); reflexivity.
  Qed.

  Lemma cred_rel_put st a u h c :
    (forall u', cred_rel (aget N.eqb u' (pws C st)) (aget N.eqb u' (a_pw a))) ->
    (forall q, pverify C h q = averify c q) ->
    forall u', cred_rel (aget N.eqb u' (aput N.eqb u h (pws C st))) (aget N.eqb u' (aput N.eqb u c (a_pw a))).
  Proof.
    intros HP Hv u'. destruct (N.eq_dec u' u) as [->|Ne].
    - rewrite !(aget_aput_same N.eqb Neqb_spec). exact Hv.
    - rewrite !(aget_aput_other N.eqb Neqb_spec) by auto. apply HP.
  Qed.

  Lemma set_password_R st a u salt p :
    R st a ->
    R (fst (set_password C st u salt p)) (apstep (strong C st) a (SetPw C u salt p)).
  Proof.
    intros HR. pose proof HR as [HU [HN HP]]. unfold set_password. simpl.
    destruct (strength C (strong C st) p) as [|e]; simpl; [|exact HR].
    rewrite <- HU.
    destruct (aget N.eqb u (users C st)); [|exact HR].
    simpl. split; [|split]; auto. simpl.
    apply cred_rel_put; auto. intro q. simpl. apply (ok_pverify C HC).
  Qed.

  Lemma strong_step st o : strong C (fst (pstep C st o)) = strong C st.
  Proof.
    destruct o; simpl; auto.
    - destruct (aget N.eqb u (users C st)); reflexivity.
    - destruct (aget N.eqb u (users C st)); reflexivity.
    - unfold set_password.
      destruct (negb (N.eqb (strength C (strong C st) p) 0)); auto. destruct (aget N.eqb u (users C st)); reflexivity.
    - unfold cas_password. destruct (negb (N.eqb (compare_nocheck C st u old) 0)); auto.
      unfold set_password.
      destruct (negb (N.eqb (strength C (strong C st) new) 0)); auto. destruct (aget N.eqb u (users C st)); reflexivity.
  Qed.

  Lemma step_R st a o : R st a -> R (fst (pstep C st o)) (apstep (strong C st) a o).
  Proof.
    intros HR. pose proof HR as [HU [HN HP]].
    destruct o; simpl.
    - (* CreateUser *) rewrite HU, HN. repeat split; auto.
    - (* SetUserActive *) rewrite <- HU. destruct (aget N.eqb u (users C st)); [|exact HR].
      simpl. rewrite HU. repeat split; auto.
    - (* DeleteUser *) rewrite <- HU. destruct (aget N.eqb u (users C st)); [|exact HR].
      simpl. rewrite HU. split; [|split]; auto. simpl. intro u'.
      destruct (N.eq_dec u' u) as [->|Ne].
      + rewrite !(aget_adel_same N.eqb). exact I.
      + rewrite !(aget_adel_other N.eqb Neqb_spec) by auto. apply HP.
    - (* SetPw *) apply set_password_R; auto.
    - (* CmpPw *) exact HR.
    - (* CasPw *)
      unfold cas_password. rewrite (compare_nocheck_R st a u old HR).
      destruct (acheck a u old) eqn:EA.
      + simpl. pose proof (set_password_R st a u salt new HR) as X. simpl in X.
        unfold acheck in EA. destruct (aget N.eqb u (a_users a)) eqn:EU; [|discriminate].
        destruct (strength C (strong C st) new) as [|e] eqn:ES; exact X.
      + destruct (aget N.eqb u (a_users a)); simpl; exact HR.
    - (* PutPwRaw *) split; [|split]; auto. simpl. apply cred_rel_put; auto.
  Qed.

  Lemma run_R ops : forall st a, R st a -> R (prun ops st) (aprun (strong C st) ops a).
  Proof.
    induction ops as [|o ops IH]; intros st a HR; simpl; auto.
    pose proof (IH (fst (pstep C st o)) (apstep (strong C st) a o) (step_R st a o HR)) as X.
    rewrite strong_step in X. exact X.
  Qed.

  Lemma strong_run ops : forall st, strong C (prun ops st) = strong C st.
  Proof.
    induction ops as [|o ops IH]; intro st; simpl; auto. rewrite IH. apply strong_step.
  Qed.

  (** the result of ComparePassword after ANY history, in terms of the clear-text machine *)
  Theorem compare_after_history sp ops u q :
    compare_password C (prun ops (pinit sp)) u q =
      let a := aprun sp ops ainit in
      let e := strength C sp q in
      if acheck a u q then (if N.eqb e 0 then 0%N else 16 + e)%N
      else match aget N.eqb u (a_users a) with None => 1%N | Some _ => 2%N end.
  Proof.
    pose proof (run_R ops (pinit sp) ainit (R_init sp)) as HR. simpl in HR.
    unfold compare_password. rewrite (compare_nocheck_R _ _ u q HR), strong_run. simpl.
    destruct (acheck (aprun sp ops ainit) u q).
    - simpl. destruct (N.eqb (strength C sp q) 0); reflexivity.
    - destruct (aget N.eqb u (a_users (aprun sp ops ainit))); reflexivity.
  Qed.

  Theorem password_only_latest sp ops u q :
    compare_password C (prun ops (pinit sp)) u q = 0%N <->
    (acheck (aprun sp ops ainit) u q = true /\ strength C sp q = 0%N).
  Proof.
    rewrite compare_after_history. simpl.
    destruct (acheck (aprun sp ops ainit) u q).
    - destruct (N.eqb (strength C sp q) 0) eqn:E.
      + apply N.eqb_eq in E. split; auto.
      + apply N.eqb_neq in E. split; [intro H; destruct (strength C sp q); discriminate|].
        intros [_ H]. contradiction.
    - split; [|intros [H _]; discriminate].
      destruct (aget N.eqb u (a_users (aprun sp ops ainit))); discriminate.
  Qed.

  (** password operations are total in the model and never report the panic class; the empty
      password is rejected with exactly the length error, with or without strength checking *)
  Lemma strength_empty sp p : slen C p = 0%N -> strength C sp p = 4%N.
  Proof. intro E. unfold strength. rewrite E. simpl. rewrite andb_false_r. reflexivity. Qed.

  Theorem empty_password_rejected st u salt p :
    slen C p = 0%N ->
    set_password C st u salt p = (st, 4%N) /\
    compare_password C st u p <> 0%N /\ compare_password C st u p <> 64%N /\
    (forall old, snd (cas_password C st u salt old p) <> 0%N /\ fst (cas_password C st u salt old p) = st).
  Proof.
    intro E. pose proof (strength_empty (strong C st) p E) as S4.
    assert (set_password C st u salt p = (st, 4%N)) as SP by (unfold set_password; rewrite S4; reflexivity).
    split; [exact SP|]. unfold compare_password. rewrite S4.
    split; [|split].
    - destruct (N.eqb (compare_nocheck C st u p) 0) eqn:X; simpl; [discriminate|].
      apply N.eqb_neq in X. exact X.
    - destruct (N.eqb (compare_nocheck C st u p) 0) eqn:X; simpl; [discriminate|].
      unfold compare_nocheck. destruct (aget N.eqb u (users C st)); [|discriminate].
      destruct (aget N.eqb u (pws C st)); [|discriminate]. destruct (pverify C s p); discriminate.
    - intro old. unfold cas_password.
      destruct (negb (N.eqb (compare_nocheck C st u old) 0)) eqn:X; simpl.
      + split; auto. apply negb_true_iff in X. apply N.eqb_neq in X. exact X.
      + rewrite SP. simpl. split; [discriminate|reflexivity].
  Qed.

  (** no result of a password operation is the panic class *)
  Theorem password_ops_never_panic st o : snd (pstep C st o) <> 64%N.
  Proof.
    assert (forall sp p, strength C sp p <> 64%N /\ (16 + strength C sp p)%N <> 64%N) as SB.
    { intros sp p. unfold strength.
      destruct (N.ltb (slen C p) 8 || N.ltb 72 (slen C p))%bool;
        destruct (sp && negb (N.eqb (slen C p) 0))%bool;
        destruct (N.ltb (scls C p) 3); cbv; split; discriminate. }
    assert (forall u p, compare_nocheck C st u p <> 64%N) as CB.
    { intros u p. unfold compare_nocheck. destruct (aget N.eqb u (users C st)); [|discriminate].
      destruct (aget N.eqb u (pws C st)); [|discriminate]. destruct (pverify C s p); discriminate. }
    assert (forall u salt p, snd (set_password C st u salt p) <> 64%N) as PB.
    { intros u salt p. unfold set_password.
      destruct (negb (N.eqb (strength C (strong C st) p) 0)); simpl; [apply SB|].
      destruct (aget N.eqb u (users C st)); discriminate. }
    destruct o; simpl; try discriminate.
    - destruct (aget N.eqb u (users C st)); discriminate.
    - destruct (aget N.eqb u (users C st)); discriminate.
    - apply PB.
    - unfold compare_password.
      destruct (N.eqb (compare_nocheck C st u p) 0 && negb (N.eqb (strength C (strong C st) p) 0))%bool;
        [apply SB|apply CB].
    - unfold cas_password. destruct (negb (N.eqb (compare_nocheck C st u old) 0)); simpl; [apply CB|apply PB].
  Qed.

  (** a failed SetPassword / CompareAndSetPassword changes nothing *)
  Lemma set_password_fail st u salt p : snd (set_password C st u salt p) <> 0%N -> fst (set_password C st u salt p) = st.
  Proof.
    unfold set_password.
    destruct (negb (N.eqb (strength C (strong C st) p) 0)); auto. destruct (aget N.eqb u (users C st)); auto.
    simpl. intro H; exfalso; apply H; reflexivity.
  Qed.

  Theorem failed_cas_changes_nothing st u salt old new :
    snd (cas_password C st u salt old new) <> 0%N -> fst (cas_password C st u salt old new) = st.
  Proof.
    unfold cas_password. destruct (negb (N.eqb (compare_nocheck C st u old) 0)); auto.
    apply set_password_fail.
  Qed.

  (** what [acheck] means for credentials set through the API or written as a genuine bcrypt hash *)
  Lemma acheck_known a u p q :
    aget N.eqb u (a_users a) <> None -> aget N.eqb u (a_pw a) = Some (Known p) ->
    (acheck a u q = true <-> p = q).
  Proof.
    intros HU HP. unfold acheck. rewrite HP. destruct (aget N.eqb u (a_users a)); [|contradiction].
    simpl. apply (ok_eqb C HC).
  Qed.

  Lemma acheck_bcrypt a u n p q :
    aget N.eqb u (a_users a) <> None -> aget N.eqb u (a_pw a) = Some (Opaque (phash C n p)) ->
    (acheck a u q = true <-> p = q).
  Proof.
    intros HU HP. unfold acheck. rewrite HP. destruct (aget N.eqb u (a_users a)); [|contradiction].
    simpl. apply pverify_own_only; auto.
  Qed.
End Pw.
