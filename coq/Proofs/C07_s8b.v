(** C07 — proofs about the simple8b model (Model/C07_s8b.v). *)
From Coq Require Import ZifyN ZifyNat ZifyBool.
From Verif Require Import Base.Prelude Model.C07_s8b.
Local Open Scope N_scope.

(** * Shift/mask arithmetic *)

Lemma pow2_pos n : 0 < 2 ^ n.
Proof. apply N.neq_0_lt_0, N.pow_nonzero. discriminate. Qed.

Lemma pow2_nz n : 2 ^ n <> 0.
Proof. apply N.pow_nonzero. discriminate. Qed.

(** OR of two fields that do not overlap is their sum. *)
Lemma lor_disjoint x y m : x < 2 ^ m -> N.lor x (y * 2 ^ m) = x + y * 2 ^ m.
Proof.
  intro H.
  assert (E : N.land x (y * 2 ^ m) = 0).
  { rewrite <- N.shiftl_mul_pow2. apply N.bits_inj. intro i.
    rewrite N.land_spec, N.bits_0.
    destruct (N.ltb_spec i m) as [Hi | Hi].
    - rewrite N.shiftl_spec_low by exact Hi. apply andb_false_r.
    - rewrite <- (N.mod_small x (2 ^ m)) by exact H.
      rewrite N.mod_pow2_bits_high by exact Hi. reflexivity. }
  rewrite <- N.lxor_lor by exact E. symmetry. apply N.add_nocarry_lxor. exact E.
Qed.

(** arithmetic value of a packed list: v0 + 2^b (v1 + 2^b (...)) *)
Fixpoint pack_val (bits : N) (l : list N) : N :=
  match l with
  | [] => 0
  | v :: r => v + 2 ^ bits * pack_val bits r
  end.

Lemma pack_val_bound b l :
  Forall (fun v => v < 2 ^ b) l -> pack_val b l < 2 ^ (b * N.of_nat (length l)).
Proof.
  induction 1 as [|v r Hv Hr IH]; cbn [pack_val length].
  - rewrite N.mul_0_r. cbn. lia.
  - rewrite Nat2N.inj_succ, N.mul_succ_r, N.pow_add_r.
    pose proof (pow2_pos b). nia.
Qed.

Lemma pack_from_val b l : forall k,
  Forall (fun v => v < 2 ^ b) l -> pack_from b k l = pack_val b l * 2 ^ (k * b).
Proof.
  induction l as [|v r IH]; intros k H; cbn [pack_from pack_val]; [reflexivity|].
  inversion H as [|? ? Hv Hr]; subst.
  rewrite IH by exact Hr. rewrite N.shiftl_mul_pow2.
  rewrite lor_disjoint.
  - replace ((k + 1) * b) with (k * b + b) by lia. rewrite N.pow_add_r. ring.
  - replace ((k + 1) * b) with (k * b + b) by lia. rewrite N.pow_add_r.
    pose proof (pow2_pos (k * b)). nia.
Qed.

(** the k-th field of W, for W = pack_val l + T * 2^(b*|l|) *)
Lemma fields_of_pack b : b <> 0 -> forall l T,
  Forall (fun v => v < 2 ^ b) l ->
  map (fun k => (pack_val b l + T * 2 ^ (b * N.of_nat (length l))) / 2 ^ (N.of_nat k * b) mod 2 ^ b)
      (seq 0 (length l)) = l.
Proof.
  intros Hb l. induction l as [|v r IH]; intros T H; [reflexivity|].
  inversion H as [|? ? Hv Hr]; subst.
  cbn [length seq map]. f_equal.
  - change (N.of_nat 0) with 0. rewrite N.mul_0_l, N.pow_0_r, N.div_1_r.
    cbn [pack_val]. rewrite Nat2N.inj_succ, N.mul_succ_r, N.pow_add_r.
    replace (v + 2 ^ b * pack_val b r + T * (2 ^ (b * N.of_nat (length r)) * 2 ^ b))
      with (v + (pack_val b r + T * 2 ^ (b * N.of_nat (length r))) * 2 ^ b) by ring.
    rewrite N.mod_add by apply pow2_nz. apply N.mod_small. exact Hv.
  - rewrite <- seq_shift, map_map. rewrite <- (IH T Hr) at 2.
    apply map_ext. intro k.
    rewrite (Nat2N.inj_succ k), N.mul_succ_l, N.pow_add_r.
    rewrite (N.mul_comm (2 ^ (N.of_nat k * b))), <- N.div_div by apply pow2_nz. f_equal. f_equal.
    cbn [pack_val]. rewrite Nat2N.inj_succ, N.mul_succ_r, N.pow_add_r.
    replace (v + 2 ^ b * pack_val b r + T * (2 ^ (b * N.of_nat (length r)) * 2 ^ b))
      with (v + (pack_val b r + T * 2 ^ (b * N.of_nat (length r))) * 2 ^ b) by ring.
    rewrite N.div_add by apply pow2_nz. rewrite N.div_small by exact Hv. reflexivity.
Qed.

(** * One word: unpack (pack) *)

Definition good (v : N) : Prop := v < 2 ^ 60.

Lemma firstn_length_le {A} n (l : list A) : (n <= length l)%nat -> length (firstn n l) = n.
Proof. intro H. rewrite firstn_length. lia. Qed.

Lemma pack_word_arith sel n b src :
  N.of_nat n * b <= 60 -> (n <= length src)%nat ->
  Forall (fun v => v < 2 ^ b) (firstn n src) ->
  pack_word sel n b src =
    pack_val b (firstn n src) + (sel * 2 ^ (60 - b * N.of_nat n)) * 2 ^ (b * N.of_nat n).
Proof.
  intros Hnb Hlen Hall. unfold pack_word.
  rewrite pack_from_val by exact Hall. rewrite N.mul_0_l, N.pow_0_r, N.mul_1_r.
  rewrite N.shiftl_mul_pow2, N.lor_comm.
  pose proof (pack_val_bound b _ Hall) as Hb. rewrite firstn_length_le in Hb by exact Hlen.
  assert (E : 2 ^ 60 = 2 ^ (60 - b * N.of_nat n) * 2 ^ (b * N.of_nat n)).
  { rewrite <- N.pow_add_r. f_equal. lia. }
  rewrite lor_disjoint.
  - rewrite E at 1. ring.
  - eapply N.lt_le_trans; [exact Hb|]. apply N.pow_le_mono_r; lia.
Qed.

Lemma pack_word_sel sel n b src :
  sel < 16 -> N.of_nat n * b <= 60 -> (n <= length src)%nat ->
  Forall (fun v => v < 2 ^ b) (firstn n src) ->
  N.land (N.shiftr (pack_word sel n b src) 60) 15 = sel.
Proof.
  intros Hsel Hnb Hlen Hall. unfold pack_word.
  rewrite pack_from_val by exact Hall. rewrite N.mul_0_l, N.pow_0_r, N.mul_1_r.
  rewrite N.shiftl_mul_pow2, N.lor_comm.
  pose proof (pack_val_bound b _ Hall) as Hb. rewrite firstn_length_le in Hb by exact Hlen.
  assert (Hlt : pack_val b (firstn n src) < 2 ^ 60).
  { eapply N.lt_le_trans; [exact Hb|]. apply N.pow_le_mono_r; lia. }
  rewrite lor_disjoint by exact Hlt.
  rewrite N.shiftr_div_pow2, N.div_add by apply pow2_nz.
  rewrite N.div_small by exact Hlt. cbn [N.add].
  change 15 with (N.ones 4). rewrite N.land_ones. apply N.mod_small. exact Hsel.
Qed.

(** a row (selector, n, bits) of the table is consistent with [sel_n]/[sel_bits] *)
Definition row_ok (row : N * nat * N) : Prop :=
  let '(sel, n, b) := row in
  sel < 16 /\ sel_n sel = n /\ sel_bits sel = b /\ b <> 0 /\ N.of_nat n * b <= 60 /\ (0 < n)%nat
  /\ b <= 60.

Lemma codes_ok : Forall row_ok codes.
Proof. unfold codes. repeat constructor; cbn; lia || discriminate. Qed.

Lemma unpack_pack sel n b src :
  row_ok (sel, n, b) -> (n <= length src)%nat ->
  Forall (fun v => v < 2 ^ b) (firstn n src) ->
  unpack_word (pack_word sel n b src) = firstn n src.
Proof.
  intros (Hsel & Hn & Hb & Hb0 & Hnb & Hpos & _) Hlen Hall.
  unfold unpack_word. rewrite pack_word_sel by assumption. rewrite Hn, Hb.
  destruct (N.eqb_spec b 0) as [->|_]; [contradiction|].
  rewrite pack_word_arith by assumption.
  pose proof (firstn_length_le n src Hlen) as Hl.
  remember (firstn n src) as l eqn:El. clear El. rewrite <- Hl.
  rewrite <- (fields_of_pack b Hb0 l (sel * 2 ^ (60 - b * N.of_nat (length l))) Hall) at 2.
  apply map_ext. intro k. rewrite N.shiftr_div_pow2, N.land_ones. reflexivity.
Qed.

Lemma firstn_good_weaken b n (src : list N) :
  b <= 60 -> Forall (fun v => v < 2 ^ b) (firstn n src) -> Forall good (firstn n src).
Proof.
  intros Hb H. eapply Forall_impl; [|exact H]. cbv beta. intros v Hv. unfold good.
  eapply N.lt_le_trans; [exact Hv|]. apply N.pow_le_mono_r; lia.
Qed.

(** * Steps *)

(** what every successful step must satisfy *)
Definition good_step (step : list N -> option (N * nat)) : Prop :=
  forall src w n, src <> [] -> step src = Some (w, n) ->
    (0 < n <= length src)%nat /\ unpack_word w = firstn n src /\ Forall good (firstn n src).

(** a step never fails on packable non-empty input *)
Definition total_step (step : list N -> option (N * nat)) : Prop :=
  forall src, src <> [] -> Forall good src -> step src <> None.

Lemma forallb_ones_repeat src :
  forallb (N.eqb 1) src = true -> src = repeat 1 (length src).
Proof.
  induction src as [|v r IH]; cbn [forallb length repeat]; [reflexivity|].
  intro H. apply andb_true_iff in H as [H1 H2]. apply N.eqb_eq in H1. subst.
  f_equal. apply IH. exact H2.
Qed.

Lemma firstn_repeat {A} (x : A) n m : (n <= m)%nat -> firstn n (repeat x m) = repeat x n.
Proof.
  revert m. induction n as [|n IH]; intros m H; [reflexivity|].
  destruct m as [|m]; [lia|]. cbn. f_equal. apply IH. lia.
Qed.

Lemma Forall_repeat_one n : Forall good (repeat 1 n).
Proof. apply Forall_forall. intros x Hx. apply repeat_spec in Hx. subst. unfold good. cbn. lia. Qed.

Lemma can_pack_ones src n :
  can_pack src n 0 = true ->
  (n <= length src)%nat /\ firstn n src = repeat 1 n.
Proof.
  unfold can_pack. destruct (Nat.ltb_spec (length src) n) as [|Hl]; [discriminate|].
  cbn [N.eqb]. intro H. split; [exact Hl|].
  rewrite (forallb_ones_repeat _ H). apply firstn_repeat. exact Hl.
Qed.

Lemma can_pack_bits src n b :
  b <> 0 -> can_pack src n b = true ->
  (n <= length src)%nat /\ Forall (fun v => v < 2 ^ b) (firstn n src).
Proof.
  intros Hb. unfold can_pack. destruct (Nat.ltb_spec (length src) n) as [|Hl]; [discriminate|].
  destruct (N.eqb_spec b 0) as [|_]; [contradiction|].
  intro H. split; [exact Hl|]. apply Forall_forall. intros x Hx.
  rewrite forallb_forall in H. specialize (H x Hx). pose proof (pow2_pos b). lia.
Qed.

Lemma first_code_good src cs w n :
  Forall row_ok cs -> first_code src cs = Some (w, n) ->
  (0 < n <= length src)%nat /\ unpack_word w = firstn n src /\ Forall good (firstn n src).
Proof.
  induction 1 as [|[[sel n'] b] cs Hrow Hcs IH]; cbn [first_code]; [discriminate|].
  destruct (can_pack src n' b) eqn:E; [|exact IH].
  intro H. inversion H; subst. clear H.
  pose proof Hrow as (Hsel & Hn & Hb & Hb0 & Hnb & Hpos & Hb60).
  apply can_pack_bits in E as [Hl Hall]; [|exact Hb0].
  split; [lia|]. split; [apply unpack_pack; assumption|].
  eapply firstn_good_weaken; eassumption.
Qed.

Lemma unpack_word_0 : unpack_word 0 = repeat 1 240.
Proof. reflexivity. Qed.
Lemma unpack_word_1 : unpack_word (2 ^ 60) = repeat 1 120.
Proof. reflexivity. Qed.

Lemma encode1_good : good_step encode1.
Proof.
  intros src w n Hne. unfold encode1.
  destruct (can_pack src 240 0) eqn:E0.
  { intro H; inversion H; subst. apply can_pack_ones in E0 as [Hl Hf].
    rewrite Hf. split; [lia|]. split; [apply unpack_word_0|apply Forall_repeat_one]. }
  destruct (can_pack src 120 0) eqn:E1.
  { intro H; inversion H; subst. apply can_pack_ones in E1 as [Hl Hf].
    rewrite Hf. split; [lia|]. split; [apply unpack_word_1|apply Forall_repeat_one]. }
  destruct (first_code src codes) as [[w' n']|] eqn:E2.
  { intro H; inversion H; subst. eapply first_code_good; [apply codes_ok|exact E2]. }
  destruct src; [contradiction|discriminate].
Qed.

Lemma first_code_last src cs :
  src <> [] -> Forall good src -> first_code src (cs ++ [(15, 1%nat, 60)]) <> None.
Proof.
  intros Hne Hg. induction cs as [|[[sel n] b] cs IH]; cbn [first_code app].
  - destruct src as [|v r]; [contradiction|].
    inversion Hg as [|? ? Hv _]; subst. unfold good in Hv.
    unfold can_pack. cbn [length Nat.ltb Nat.leb N.eqb firstn forallb].
    replace (v <=? 2 ^ 60 - 1) with true by (symmetry; apply N.leb_le; lia).
    discriminate.
  - destruct (can_pack src n b); [discriminate|exact IH].
Qed.

Lemma encode1_total : total_step encode1.
Proof.
  intros src Hne Hg. unfold encode1.
  destruct (can_pack src 240 0); [discriminate|].
  destruct (can_pack src 120 0); [discriminate|].
  pose proof (first_code_last src (removelast codes) Hne Hg) as H.
  change (removelast codes ++ [(15, 1%nat, 60)]) with codes in H.
  destruct (first_code src codes); [discriminate|contradiction].
Qed.

(** in-repo EncodeAll step *)
Lemma ones_prefix_spec a :
  (ones_prefix a <= length a)%nat /\ firstn (ones_prefix a) a = repeat 1 (ones_prefix a).
Proof.
  induction a as [|v r [IH1 IH2]]; cbn [ones_prefix length]; [split; [lia|reflexivity]|].
  destruct (N.eqb_spec v 1) as [->|_].
  - split; [lia|]. cbn [firstn repeat]. f_equal. exact IH2.
  - split; [lia|reflexivity].
Qed.

Lemma ones_prefix_firstn a m :
  (m <= ones_prefix a)%nat -> firstn m a = repeat 1 m.
Proof.
  intro H. destruct (ones_prefix_spec a) as [_ E].
  rewrite <- (firstn_repeat 1 m (ones_prefix a) H), <- E, firstn_firstn.
  f_equal. lia.
Qed.

Lemma codes_step_good src cs w n :
  Forall row_ok cs -> codes_step src cs = Some (w, n) ->
  (0 < n <= length src)%nat /\ unpack_word w = firstn n src /\ Forall good (firstn n src).
Proof.
  induction 1 as [|[[sel n'] b] cs Hrow Hcs IH]; cbn [codes_step]; [discriminate|].
  destruct (Nat.ltb_spec (length src) n') as [|Hl]; [exact IH|].
  destruct (forallb _ (firstn n' src)) eqn:E; [|exact IH].
  intro H. inversion H; subst. clear H.
  pose proof Hrow as (Hsel & Hn & Hb & Hb0 & Hnb & Hpos & Hb60).
  assert (Hall : Forall (fun v => v < 2 ^ b) (firstn n src)).
  { apply Forall_forall. intros x Hx. rewrite forallb_forall in E. specialize (E x Hx). lia. }
  split; [lia|]. split; [apply unpack_pack; assumption|].
  eapply firstn_good_weaken; eassumption.
Qed.

Lemma codes_step_last src cs :
  src <> [] -> Forall good src -> codes_step src (cs ++ [(15, 1%nat, 60)]) <> None.
Proof.
  intros Hne Hg. induction cs as [|[[sel n] b] cs IH]; cbn [codes_step app].
  - destruct src as [|v r]; [contradiction|].
    inversion Hg as [|? ? Hv _]; subst. unfold good in Hv.
    cbn [length Nat.ltb Nat.leb firstn forallb].
    replace (v <? 2 ^ 60) with true by (symmetry; apply N.ltb_lt; exact Hv).
    discriminate.
  - destruct (length src <? n)%nat; [exact IH|].
    destruct (forallb _ _); [discriminate|exact IH].
Qed.

Lemma repo_step_good : good_step repo_step.
Proof.
  intros src w n Hne. unfold repo_step.
  destruct (Nat.leb_spec 120 (length src)) as [H120|_];
    [|apply codes_step_good, codes_ok].
  set (a := if (240 <=? length src)%nat then firstn 240 src else firstn 120 src).
  assert (Ha : (length a <= length src)%nat /\ (length a = 240 \/ length a = 120)%nat
               /\ forall m, (m <= length a)%nat -> firstn m a = firstn m src).
  { unfold a. destruct (Nat.leb_spec 240 (length src)) as [H240|H240].
    - rewrite firstn_length. split; [lia|]. split; [lia|].
      intros m Hm. rewrite firstn_firstn. f_equal. lia.
    - rewrite firstn_length. split; [lia|]. split; [lia|].
      intros m Hm. rewrite firstn_firstn. f_equal. lia. }
  destruct Ha as (Hal & Hlen & Hfa).
  pose proof (ones_prefix_spec a) as [Hk _].
  destruct (Nat.eqb_spec (ones_prefix a) 240) as [E|_].
  { intro H; inversion H; subst. clear H.
    assert (Hf : firstn 240 src = repeat 1 240).
    { rewrite <- Hfa by lia. apply ones_prefix_firstn. lia. }
    rewrite Hf. split; [lia|]. split; [apply unpack_word_0|apply Forall_repeat_one]. }
  destruct (Nat.leb_spec 120 (ones_prefix a)) as [E|_]; [|apply codes_step_good, codes_ok].
  intro H; inversion H; subst. clear H.
  assert (Hf : firstn 120 src = repeat 1 120).
  { rewrite <- Hfa by lia. apply ones_prefix_firstn. lia. }
  rewrite Hf. split; [lia|]. split; [apply unpack_word_1|apply Forall_repeat_one].
Qed.

Lemma repo_step_total : total_step repo_step.
Proof.
  intros src Hne Hg. unfold repo_step.
  pose proof (codes_step_last src (removelast codes) Hne Hg) as H.
  change (removelast codes ++ [(15, 1%nat, 60)]) with codes in H.
  destruct (120 <=? length src)%nat; [|exact H].
  destruct (_ =? 240)%nat; [discriminate|].
  destruct (120 <=? _)%nat; [discriminate|exact H].
Qed.

(** * The loop *)

Lemma decode_all_cons w ws : decode_all (w :: ws) = unpack_word w ++ decode_all ws.
Proof. reflexivity. Qed.

Lemma decode_all_app a b : decode_all (a ++ b) = decode_all a ++ decode_all b.
Proof. unfold decode_all. apply flat_map_app. Qed.

Lemma loop_sound step : good_step step ->
  forall fuel src ws, loop step fuel src = Some ws -> decode_all ws = src /\ Forall good src.
Proof.
  intros Hgood. induction fuel as [|f IH]; intros src ws.
  - destruct src; cbn [loop]; [|discriminate]. intro H; inversion H. split; [reflexivity|constructor].
  - destruct src as [|v r]; cbn [loop].
    { intro H; inversion H. split; [reflexivity|constructor]. }
    destruct (step (v :: r)) as [[w n]|] eqn:Es; [|discriminate].
    destruct (loop step f (skipn n (v :: r))) as [ws'|] eqn:El; [|discriminate].
    intro H; inversion H; subst. clear H.
    destruct (Hgood (v :: r) w n ltac:(discriminate) Es) as (Hn & Hu & Hg).
    destruct (IH _ _ El) as [Hd Hg'].
    rewrite decode_all_cons, Hu, Hd. split; [apply firstn_skipn|].
    rewrite <- (firstn_skipn n (v :: r)). apply Forall_app. split; assumption.
Qed.

Lemma Forall_skipn {A} (P : A -> Prop) n l : Forall P l -> Forall P (skipn n l).
Proof.
  intro H. rewrite <- (firstn_skipn n l) in H. apply Forall_app in H. apply H.
Qed.

Lemma loop_total step : good_step step -> total_step step ->
  forall fuel src, (length src <= fuel)%nat -> Forall good src -> loop step fuel src <> None.
Proof.
  intros Hgood Htot. induction fuel as [|f IH]; intros src Hl Hg.
  - destruct src; [discriminate|cbn in Hl; lia].
  - destruct src as [|v r]; cbn [loop]; [discriminate|].
    pose proof (Htot (v :: r) ltac:(discriminate) Hg) as Hs.
    destruct (step (v :: r)) as [[w n]|] eqn:Es; [|contradiction].
    destruct (Hgood (v :: r) w n ltac:(discriminate) Es) as (Hn & _ & _).
    assert (Hne : loop step f (skipn n (v :: r)) <> None).
    { apply IH; [|apply Forall_skipn; exact Hg]. rewrite skipn_length. lia. }
    destruct (loop step f (skipn n (v :: r))); [discriminate|contradiction].
Qed.

Lemma Exists_not_good l : Exists (fun v => 2 ^ 60 <= v) l -> ~ Forall good l.
Proof.
  intros He Hf. apply Exists_exists in He as (x & Hx & Hb).
  rewrite Forall_forall in Hf. specialize (Hf x Hx). unfold good in Hf. lia.
Qed.

(** ** EncodeAll (in repo) and jwilder EncodeAll *)

Lemma encode_all_roundtrip l :
  Forall good l -> exists ws, encode_all l = Some ws /\ decode_all ws = l.
Proof.
  intro Hg. unfold encode_all.
  destruct (loop repo_step (length l) l) as [ws|] eqn:E.
  - exists ws. split; [reflexivity|]. eapply loop_sound; [apply repo_step_good|exact E].
  - exfalso. eapply loop_total; [apply repo_step_good|apply repo_step_total| |exact Hg|exact E]. lia.
Qed.

Lemma encode_all_sound l ws : encode_all l = Some ws -> decode_all ws = l /\ Forall good l.
Proof. apply loop_sound, repo_step_good. Qed.

Lemma encode_all_rejects l : Exists (fun v => 2 ^ 60 <= v) l -> encode_all l = None.
Proof.
  intro He. destruct (encode_all l) as [ws|] eqn:E; [|reflexivity].
  exfalso. eapply Exists_not_good; [exact He|]. eapply encode_all_sound; exact E.
Qed.

Lemma jw_encode_all_roundtrip l :
  Forall good l -> exists ws, jw_encode_all l = Some ws /\ decode_all ws = l.
Proof.
  intro Hg. unfold jw_encode_all.
  destruct (loop encode1 (length l) l) as [ws|] eqn:E.
  - exists ws. split; [reflexivity|]. eapply loop_sound; [apply encode1_good|exact E].
  - exfalso. eapply loop_total; [apply encode1_good|apply encode1_total| |exact Hg|exact E]. lia.
Qed.

Lemma jw_encode_all_sound l ws : jw_encode_all l = Some ws -> decode_all ws = l /\ Forall good l.
Proof. apply loop_sound, encode1_good. Qed.

Lemma jw_encode_all_rejects l : Exists (fun v => 2 ^ 60 <= v) l -> jw_encode_all l = None.
Proof.
  intro He. destruct (jw_encode_all l) as [ws|] eqn:E; [|reflexivity].
  exfalso. eapply Exists_not_good; [exact He|]. eapply jw_encode_all_sound; exact E.
Qed.

(** ** CountBytes *)
Lemma unpack_word_length w : length (unpack_word w) = sel_n (N.land (N.shiftr w 60) 15).
Proof.
  unfold unpack_word. destruct (_ =? 0); [apply repeat_length|].
  rewrite map_length, seq_length. reflexivity.
Qed.

Lemma count_words_acc ws : forall a,
  fold_left (fun a w => (a + sel_n (N.land (N.shiftr w 60) 15))%nat) ws a
  = (a + length (decode_all ws))%nat.
Proof.
  induction ws as [|w ws IH]; intro a; cbn [fold_left]; [cbn; lia|].
  rewrite IH, decode_all_cons, app_length, unpack_word_length. lia.
Qed.

Lemma count_words_spec ws : count_words ws = length (decode_all ws).
Proof. unfold count_words. rewrite count_words_acc. reflexivity. Qed.

(** ** the streaming Encoder *)
Lemma fold_stream_none l : fold_left stream_write l None = None.
Proof. induction l; cbn; auto. Qed.

Lemma stream_fold_sound l : forall out pending out' pending',
  fold_left stream_write l (Some (out, pending)) = Some (out', pending') ->
  decode_all (rev out') ++ pending' = decode_all (rev out) ++ pending ++ l
  /\ (Forall good (decode_all (rev out)) -> Forall good (decode_all (rev out'))).
Proof.
  induction l as [|v l IH]; intros out pending out' pending'; cbn [fold_left].
  - intro H; inversion H; subst. rewrite app_nil_r. split; [reflexivity|auto].
  - unfold stream_write at 2.
    destruct (Nat.leb_spec 240 (length pending)) as [Hl|Hl].
    + destruct (encode1 pending) as [[w n]|] eqn:E; [|rewrite fold_stream_none; discriminate].
      intro H. apply IH in H as [H1 H2].
      assert (Hne : pending <> []) by (destruct pending; [cbn in Hl; lia|discriminate]).
      destruct (encode1_good pending w n Hne E) as (Hn & Hu & Hg).
      cbn [rev] in H1, H2. rewrite decode_all_app in H1, H2.
      cbn [decode_all flat_map] in H1, H2. rewrite app_nil_r, Hu in H1, H2.
      split.
      * rewrite H1. rewrite <- !app_assoc. f_equal.
        rewrite !app_assoc. rewrite firstn_skipn. rewrite <- !app_assoc. reflexivity.
      * intro Hg0. apply H2. apply Forall_app. split; assumption.
    + intro H. apply IH in H as [H1 H2]. split; [|exact H2].
      rewrite H1, <- !app_assoc. reflexivity.
Qed.

Lemma stream_encode_sound l ws : stream_encode l = Some ws -> decode_all ws = l /\ Forall good l.
Proof.
  unfold stream_encode.
  destruct (fold_left stream_write l (Some ([], []))) as [[out pending]|] eqn:Ef; [|discriminate].
  destruct (loop encode1 (length pending) pending) as [ws2|] eqn:El; [|discriminate].
  intro H; inversion H; subst. clear H.
  apply stream_fold_sound in Ef as [H1 H2]. cbn [rev decode_all flat_map app] in H1, H2.
  destruct (loop_sound _ encode1_good _ _ _ El) as [Hd Hg].
  rewrite decode_all_app, Hd, H1. split; [reflexivity|].
  rewrite <- H1. apply Forall_app. split; [apply H2; constructor|exact Hg].
Qed.

Lemma stream_fold_total l : forall out pending,
  Forall good pending -> Forall good l ->
  exists out' pending', fold_left stream_write l (Some (out, pending)) = Some (out', pending')
                        /\ Forall good pending'.
Proof.
  induction l as [|v l IH]; intros out pending Hp Hl; cbn [fold_left].
  - eauto.
  - inversion Hl as [|? ? Hv Hl']; subst. unfold stream_write at 2.
    destruct (Nat.leb_spec 240 (length pending)) as [Hlen|Hlen].
    + assert (Hne : pending <> []) by (destruct pending; [cbn in Hlen; lia|discriminate]).
      pose proof (encode1_total pending Hne Hp) as Ht.
      destruct (encode1 pending) as [[w n]|] eqn:E; [|contradiction].
      apply IH; [|exact Hl']. apply Forall_app. split; [apply Forall_skipn; exact Hp|].
      constructor; [exact Hv|constructor].
    + apply IH; [|exact Hl']. apply Forall_app. split; [exact Hp|]. constructor; [exact Hv|constructor].
Qed.

Lemma stream_encode_roundtrip l :
  Forall good l -> exists ws, stream_encode l = Some ws /\ decode_all ws = l.
Proof.
  intro Hg. destruct (stream_encode l) as [ws|] eqn:E.
  - exists ws. split; [reflexivity|]. eapply stream_encode_sound; exact E.
  - exfalso. unfold stream_encode in E.
    destruct (stream_fold_total l [] [] ltac:(constructor) Hg) as (out & pending & Ef & Hp).
    rewrite Ef in E.
    pose proof (loop_total _ encode1_good encode1_total (length pending) pending ltac:(lia) Hp) as Hn.
    destruct (loop encode1 (length pending) pending); [discriminate|contradiction].
Qed.

Lemma stream_encode_rejects l : Exists (fun v => 2 ^ 60 <= v) l -> stream_encode l = None.
Proof.
  intro He. destruct (stream_encode l) as [ws|] eqn:E; [|reflexivity].
  exfalso. eapply Exists_not_good; [exact He|]. eapply stream_encode_sound; exact E.
Qed.
