// C33 driver: the REAL http.HealthReadyHandler (over kit/check.Check) behind httptest, with real
// check.ReadyGate latches, scripted named / anonymous checks, FreshnessResponse-backed checks;
// the real run.SchedulerPulseCheck (clock injected through the verif hook SetNowVerif) and the
// real run.StartupProgressLogger.
//
// Modes of a history case:
//
//	seq   random registration / signal / set sequences with /ready and /health requests in between;
//	park  deterministic interleavings: a request is parked inside a blocking checker that sits
//	      between other checkers in registration order while the driver flips gates / registers;
//	conc  4 goroutines flip their own gates, set their own health checks and register new gates
//	      while 2 goroutines issue requests.
//
// Every environment operation is applied and logged under one driver mutex, so operations are
// totally ordered; a request records how many operations were logged when it was issued and
// when it was answered.  The driver then searches, for every response, positions
// inv <= ps <= p_1 <= ... <= p_n <= resp (snapshot of the checker list, then one call per checker
// in registration order) that explain it, and emits them; the Coq judge re-validates the
// explanation against the mirror (diag_response) and evaluates the linearisability oracle.
package main

import (
	"context"
	"encoding/json"
	"errors"
	"fmt"
	"math/rand/v2"
	"net/http/httptest"
	"regexp"
	"runtime"
	"sort"
	"strconv"
	"strings"
	"sync"
	"sync/atomic"
	"time"

	"github.com/influxdata/influxdb/v2/cmd/influxd/run"
	ihttp "github.com/influxdata/influxdb/v2/http"
	"github.com/influxdata/influxdb/v2/kit/check"
	"go.uber.org/zap"
	"verifh/vh"
)

const sigTorn = "snapshot-of-checks-not-atomic"

type jchk struct {
	Name   string `json:"name"`
	Status string `json:"status"`
	Msg    string `json:"message,omitempty"`
}
type jop struct {
	Op     string `json:"op"` // reggate ready unready regready setready reghealth sethealth
	I      int    `json:"i,omitempty"`
	Name   string `json:"name,omitempty"`
	Status string `json:"status,omitempty"`
	Msg    string `json:"msg,omitempty"`
	Kind   string `json:"kind,omitempty"` // named | anon | fresh | parker
}
type jreq struct {
	Ready   bool   `json:"ready"`
	Inv     int    `json:"inv"`
	Resp    int    `json:"resp"`
	Ps      int    `json:"expl_ps"`
	Pr      []int  `json:"expl_pr"`
	Code    int    `json:"impl_code"`
	BStatus string `json:"impl_status"`
	Message string `json:"impl_message"`
	Checks  []jchk `json:"impl_checks"`
	// park mode: operations to perform while the request is parked (indices into Ops)
	ParkOps [][]int `json:"park_ops,omitempty"`
}
type jpulse struct {
	When    *int64 `json:"when"`
	Now     int64  `json:"now"`
	Thr     int64  `json:"threshold"`
	Status  string `json:"impl_status"`
	Message string `json:"impl_message"`
}
type jsop struct {
	Op       string `json:"op"` // add completed failed finish
	ID       uint64 `json:"id,omitempty"`
	Err      string `json:"err,omitempty"`
	RStatus  string `json:"impl_ready_status"`
	RMessage string `json:"impl_ready_message"`
	HStatus  string `json:"impl_health_status"`
	HMessage string `json:"impl_health_message"`
}

// retain mode: a script of steps on the kit/check API
type jstep struct {
	K     string `json:"k"` // op | take | eval | observe
	Op    *jop   `json:"op,omitempty"`
	Ready bool   `json:"ready,omitempty"` // take / eval: CheckReady (true) or CheckHealth
	HTTP  bool   `json:"http,omitempty"`  // eval: through the HTTP handler instead of the API
	ID    int    `json:"id,omitempty"`    // take / observe: which retained response
}
type jkept struct {
	ID     int    `json:"id"`
	Ready  bool   `json:"ready"`
	Pos    int    `json:"pos"`
	Status string `json:"impl_status"`
	Checks []jchk `json:"impl_checks"`
}

// burst (seq mode): after At operations, G goroutines issue PerG requests each, concurrently,
// while nothing else happens; Procs > 0 sets GOMAXPROCS for the burst.
type jburst struct {
	At    int `json:"at"`
	G     int `json:"goroutines"`
	PerG  int `json:"per_goroutine"`
	Procs int `json:"gomaxprocs,omitempty"`
}

type jcase struct {
	Kind    string   `json:"kind"`
	Mode    string   `json:"mode"` // seq | park | conc | pulse | startup | retain
	Steps   []jstep  `json:"steps,omitempty"`
	Kept    []jkept  `json:"kept,omitempty"`
	Bursts  []jburst `json:"bursts,omitempty"`
	Ops     []jop    `json:"ops,omitempty"`
	Reqs    []jreq   `json:"reqs,omitempty"`
	Pulse   []jpulse `json:"pulse,omitempty"`
	Startup []jsop   `json:"startup,omitempty"`
	Seed    uint64   `json:"conc_seed,omitempty"`
	Setup   int      `json:"conc_setup_ops,omitempty"`
}

// ---------------------------------------------------------------- the real world

type sval struct{ status, msg string }

// yresp is a Response whose accessors yield the processor: whoever filters or renders it
// (failingChecks, firstFailureMessage, MarshalJSON of the renamed wrapper) lets other
// goroutines run in between.
type yresp struct{ check.BasicResponse }

func (y yresp) Status() check.Status { runtime.Gosched(); return y.BasicResponse.Status() }
func (y yresp) Message() string      { runtime.Gosched(); return y.BasicResponse.Message() }

type scripted struct {
	yield bool
	name  string // name carried by the response itself (anonymous checks)
	v     atomic.Pointer[sval]
	park  chan chan struct{} // non-nil: Check announces itself on it and blocks until released
}

func (s *scripted) Check(ctx context.Context) check.Response {
	if s.park != nil {
		rel := make(chan struct{})
		select {
		case s.park <- rel:
			<-rel
		case <-time.After(15 * time.Second): // nobody schedules this request
		}
	}
	v := s.v.Load()
	if s.yield {
		return yresp{check.NewBasicResponse(s.name, check.Status(v.status), v.msg, nil)}
	}
	return check.NewBasicResponse(s.name, check.Status(v.status), v.msg, nil)
}

type world struct {
	h      *ihttp.HealthReadyHandler
	mu     sync.Mutex
	log    []jop
	ready  []interface{} // *check.ReadyGate | *scripted
	health []interface{} // *scripted | *check.FreshnessResponse
	park   chan chan struct{}
	kc     *check.Check // the same checkers registered on a Check the driver can call directly
}

func newWorld() *world {
	return &world{h: ihttp.NewHealthReadyHandler(zap.NewNop()), park: make(chan chan struct{}), kc: check.NewCheck()}
}

// apply performs one environment operation on the real objects and logs it, atomically w.r.t.
// the other operations.  Returns false if the operation does not apply (bad index).
func (w *world) apply(o jop) bool {
	w.mu.Lock()
	defer w.mu.Unlock()
	switch o.Op {
	case "reggate":
		g := check.NewReadyGate(o.Name)
		w.h.AddNamedReadyCheck(g)
		w.kc.AddNamedReadyCheck(g)
		w.ready = append(w.ready, g)
	case "ready", "unready":
		if o.I >= len(w.ready) {
			return false
		}
		g, ok := w.ready[o.I].(*check.ReadyGate)
		if !ok {
			return false
		}
		if o.Op == "ready" {
			g.Ready()
		} else {
			g.Unready()
		}
	case "regready":
		s := &scripted{}
		s.v.Store(&sval{o.Status, o.Msg})
		if o.Kind == "parker" {
			s.park = w.park
		} else {
			s.yield = o.Kind == "yield"
			w.kc.AddNamedReadyCheck(check.Named(o.Name, s))
		}
		w.h.AddNamedReadyCheck(check.Named(o.Name, s))
		w.ready = append(w.ready, s)
	case "setready":
		if o.I >= len(w.ready) {
			return false
		}
		s, ok := w.ready[o.I].(*scripted)
		if !ok {
			return false
		}
		s.v.Store(&sval{o.Status, o.Msg})
	case "reghealth":
		switch o.Kind {
		case "fresh":
			f := check.NewFreshnessResponse(o.Name, time.Hour)
			w.h.AddNamedHealthCheck(check.NamedFunc(o.Name, func(context.Context) check.Response { return f }))
			w.kc.AddNamedHealthCheck(check.NamedFunc(o.Name, func(context.Context) check.Response { return f }))
			w.health = append(w.health, f)
		case "anon":
			s := &scripted{name: o.Name}
			s.v.Store(&sval{o.Status, o.Msg})
			w.h.AddHealthCheck(s) // not a NamedChecker: the name is whatever the response carries
			w.kc.AddHealthCheck(s)
			w.health = append(w.health, s)
		default:
			s := &scripted{}
			s.v.Store(&sval{o.Status, o.Msg})
			if o.Kind == "parker" {
				s.park = w.park
			} else {
				s.yield = o.Kind == "yield"
				w.kc.AddNamedHealthCheck(check.Named(o.Name, s))
			}
			if o.Kind == "named-via-add" {
				w.h.AddHealthCheck(check.Named(o.Name, s)) // delegates to AddNamedHealthCheck
			} else {
				w.h.AddNamedHealthCheck(check.Named(o.Name, s))
			}
			w.health = append(w.health, s)
		}
	case "sethealth":
		if o.I >= len(w.health) {
			return false
		}
		switch s := w.health[o.I].(type) {
		case *scripted:
			s.v.Store(&sval{o.Status, o.Msg})
		case *check.FreshnessResponse:
			s.Update(check.NewBasicResponse("", check.Status(o.Status), o.Msg, nil))
		}
	default:
		panic("unknown op " + o.Op)
	}
	w.log = append(w.log, o)
	return true
}

func (w *world) pos() int {
	w.mu.Lock()
	defer w.mu.Unlock()
	return len(w.log)
}

// request issues one real request and records the window.
func (w *world) request(ready bool) (jreq, string) {
	q := jreq{Ready: ready}
	path := "/health"
	if ready {
		path = "/ready"
	}
	q.Inv = w.pos()
	rec := httptest.NewRecorder()
	if p := vh.Guard(func() { w.h.ServeHTTP(rec, httptest.NewRequest("GET", path, nil)) }); p != "" {
		return q, "panic in ServeHTTP: " + p
	}
	q.Resp = w.pos()
	q.Code = rec.Code
	var body struct {
		Status  string `json:"status"`
		Message string `json:"message"`
		Checks  []jchk `json:"checks"`
	}
	if err := json.Unmarshal(rec.Body.Bytes(), &body); err != nil {
		return q, "response body is not JSON: " + rec.Body.String()
	}
	if ct := rec.Header().Get("Content-Type"); ct != "application/json; charset=utf-8" {
		return q, "unexpected Content-Type " + ct
	}
	q.BStatus, q.Message, q.Checks = body.Status, body.Message, body.Checks
	return q, ""
}

// ---------------------------------------------------------------- Go-side mirror used ONLY to search explanations

type simState struct{ ready, health []jchk }

func simulate(ops []jop) []simState {
	st := simState{}
	out := []simState{{}}
	cp := func(l []jchk) []jchk { return append([]jchk(nil), l...) }
	for _, o := range ops {
		st = simState{cp(st.ready), cp(st.health)}
		switch o.Op {
		case "reggate":
			st.ready = append(st.ready, jchk{o.Name, "fail", "not ready"})
		case "ready":
			st.ready[o.I] = jchk{st.ready[o.I].Name, "pass", ""}
		case "unready":
			st.ready[o.I] = jchk{st.ready[o.I].Name, "fail", "not ready"}
		case "regready":
			st.ready = append(st.ready, jchk{o.Name, o.Status, o.Msg})
		case "setready":
			st.ready[o.I] = jchk{st.ready[o.I].Name, o.Status, o.Msg}
		case "reghealth":
			if o.Kind == "fresh" {
				st.health = append(st.health, jchk{o.Name, "fail", "no probe completed yet"})
			} else {
				st.health = append(st.health, jchk{o.Name, o.Status, o.Msg})
			}
		case "sethealth":
			st.health[o.I] = jchk{st.health[o.I].Name, o.Status, o.Msg}
		}
		out = append(out, st)
	}
	return out
}

func has(l []jchk, c jchk) bool {
	for _, x := range l {
		if x == c {
			return true
		}
	}
	return false
}
func hasName(l []jchk, n string) bool {
	for _, x := range l {
		if x.Name == n {
			return true
		}
	}
	return false
}

// explain searches ps and nondecreasing p_i in [inv, resp] such that every checker call at its
// position is consistent with the observed response (greedy: earliest consistent position).
func explain(states []simState, q *jreq) bool {
	checks := func(p int) []jchk {
		if q.Ready {
			return states[p].ready
		}
		return states[p].health
	}
	consistent := func(e jchk) bool {
		if !q.Ready {
			return has(q.Checks, e)
		}
		if q.Code == 503 { // the checks that do not pass are listed
			if e.Status != "pass" {
				return has(q.Checks, e)
			}
			return !hasName(q.Checks, e.Name)
		}
		return e.Status == "pass"
	}
	if q.Inv == q.Resp { // sequential request: the only candidate explanation
		q.Ps, q.Pr = q.Inv, nil
		for range checks(q.Inv) {
			q.Pr = append(q.Pr, q.Inv)
		}
		return true
	}
	for ps := q.Inv; ps <= q.Resp; ps++ {
		n := len(checks(ps))
		if !q.Ready && n != len(q.Checks) {
			continue
		}
		pr := make([]int, 0, n)
		prev, ok := ps, true
		for i := 0; i < n && ok; i++ {
			found := -1
			for p := prev; p <= q.Resp; p++ {
				if consistent(checks(p)[i]) {
					found = p
					break
				}
			}
			if found < 0 {
				ok = false
				break
			}
			pr = append(pr, found)
			prev = found
		}
		if ok {
			// for /ready 503 every listed check must be produced by some call
			if q.Ready && q.Code == 503 {
				cnt := 0
				for i, p := range pr {
					if checks(p)[i].Status != "pass" {
						cnt++
					}
				}
				if cnt != len(q.Checks) {
					continue
				}
			}
			q.Ps, q.Pr = ps, pr
			return true
		}
	}
	q.Ps, q.Pr = q.Inv, nil
	for range checks(q.Inv) {
		q.Pr = append(q.Pr, q.Inv)
	}
	return false
}

// ---------------------------------------------------------------- Gallina rendering

var stCode = map[string]uint64{"pass": 0, "fail": 1, "": 2, "warn": 3}
var msgFixed = map[string]uint64{"": 0, "not ready": 1, "fail": 2, "starting": 3, "healthy": 4, "no probe completed yet": 5}

type tables struct {
	names map[string]uint64
	msgs  *vh.Interner
}

func mkTables(c *jcase) *tables {
	set := map[string]bool{}
	for _, o := range c.Ops {
		if strings.HasPrefix(o.Op, "reg") {
			set[o.Name] = true
		}
	}
	for _, q := range c.Reqs {
		for _, k := range q.Checks {
			set[k.Name] = true
		}
	}
	ns := vh.SortedKeys(set) // Go string order
	t := &tables{names: map[string]uint64{}, msgs: vh.NewInterner()}
	for i, n := range ns {
		t.names[n] = uint64(i + 1)
	}
	return t
}
func (t *tables) msg(m string) string {
	if v, ok := msgFixed[m]; ok {
		return vh.N(v)
	}
	return vh.N(10 + t.msgs.ID(m))
}
func st(s string) string {
	if v, ok := stCode[s]; ok {
		return vh.N(v)
	}
	return vh.N(3)
}
func (t *tables) chk(k jchk) string {
	return fmt.Sprintf("{| k_name := %s; k_status := %s; k_msg := %s |}", vh.N(t.names[k.Name]), st(k.Status), t.msg(k.Msg))
}
func nats(v []int) string {
	xs := make([]string, len(v))
	for i, x := range v {
		xs[i] = vh.Nat(x)
	}
	return vh.List(xs)
}

func opsTerm(t *tables, jops []jop) string {
	var ops []string
	for _, o := range jops {
		switch o.Op {
		case "reggate":
			ops = append(ops, "ORegGate "+vh.N(t.names[o.Name]))
		case "ready":
			ops = append(ops, "OReady "+vh.Nat(o.I))
		case "unready":
			ops = append(ops, "OUnready "+vh.Nat(o.I))
		case "regready":
			ops = append(ops, "ORegReady "+t.chk(jchk{o.Name, o.Status, o.Msg}))
		case "setready":
			ops = append(ops, fmt.Sprintf("OSetReady %s %s %s", vh.Nat(o.I), st(o.Status), t.msg(o.Msg)))
		case "reghealth":
			if o.Kind == "fresh" {
				ops = append(ops, "ORegHealth "+t.chk(jchk{o.Name, "fail", "no probe completed yet"}))
			} else {
				ops = append(ops, "ORegHealth "+t.chk(jchk{o.Name, o.Status, o.Msg}))
			}
		case "sethealth":
			ops = append(ops, fmt.Sprintf("OSetHealth %s %s %s", vh.Nat(o.I), st(o.Status), t.msg(o.Msg)))
		}
	}
	return vh.List(ops)
}

func histTerm(c *jcase) string {
	t := mkTables(c)
	var reqs []string
	for _, q := range c.Reqs {
		var cs []string
		for _, k := range q.Checks {
			cs = append(cs, t.chk(k))
		}
		bs := st(q.BStatus)
		if q.Ready {
			bs = vh.N(map[string]uint64{"ready": 0, "starting": 1}[q.BStatus])
			if q.BStatus != "ready" && q.BStatus != "starting" {
				bs = vh.N(9)
			}
		}
		reqs = append(reqs, fmt.Sprintf("{| q_ready := %s; q_inv := %s; q_resp := %s; q_ps := %s; q_pr := %s; q_obs := {| r_code := %s; r_status := %s; r_message := %s; r_checks := %s |} |}",
			vh.Bool(q.Ready), vh.Nat(q.Inv), vh.Nat(q.Resp), vh.Nat(q.Ps), nats(q.Pr), vh.N(uint64(q.Code)), bs, t.msg(q.Message), vh.List(cs)))
	}
	return "CHist " + opsTerm(t, c.Ops) + " " + vh.List(reqs)
}

// finishHist explains every request, decides the shape signature and records the case.
func finishHist(w *vh.W, c *jcase, fails []string) {
	idx := w.Len()
	states := simulate(c.Ops)
	torn, odd := false, false
	for _, o := range c.Ops {
		switch o.Op {
		case "regready", "setready", "reghealth", "sethealth":
			if !(o.Op == "reghealth" && o.Kind == "fresh") && o.Status != "pass" && o.Status != "fail" {
				odd = true
			}
		}
	}
	for i := range c.Reqs {
		q := &c.Reqs[i]
		if !explain(states, q) {
			fails = append(fails, fmt.Sprintf("request %d (%v, window %d..%d): the response cannot be produced by any snapshot + in-order checker calls within its window: code=%d checks=%v", i, q.Ready, q.Inv, q.Resp, q.Code, q.Checks))
		}
		if q.Resp-q.Inv >= 2 {
			torn = true
		}
		w.Count("window", fmt.Sprint(min(q.Resp-q.Inv, 5)))
		w.Count("code", fmt.Sprintf("%v/%d", map[bool]string{true: "ready", false: "health"}[q.Ready], q.Code))
	}
	sig := ""
	// shapes of the known findings, decided from the inputs only
	// (statuses other than pass/fail are still generated; the former finding
	// check-status-neither-pass-nor-fail is fixed, so nothing is tolerated for them)
	if torn {
		sig = sigTorn
	}
	w.Count("odd_status", fmt.Sprint(odd))
	for _, f := range fails {
		w.Fail(idx, f, "")
	}
	nontrivial := len(c.Reqs) > 0 && len(c.Ops) > 1
	cc := *c
	w.Add(histTerm(c), &cc, nontrivial, sig)
	w.Count("mode", c.Mode)
	w.Count("nops", fmt.Sprint(len(c.Ops)/5*5))
}

// ---------------------------------------------------------------- sequential histories

var gateNames = []string{"bolt", "sqlite", "engine", "replications", "query", "tasks", "task-scheduler", "shards", "a", "B", "zz", "m-1"}
var msgs = []string{"", "unreachable", "bolt database not open", "context deadline exceeded", "stale", "boom"}

// runSeq executes the ops in order, issuing the requests at their Inv positions.
func runSeq(w *vh.W, c *jcase) {
	wd := newWorld()
	var fails []string
	reqs := c.Reqs
	c.Reqs = nil
	var kept []jop
	ri := 0
	issue := func() {
		for ri < len(reqs) && reqs[ri].Inv <= len(wd.log) {
			q, f := wd.request(reqs[ri].Ready)
			if f != "" {
				fails = append(fails, f)
			}
			c.Reqs = append(c.Reqs, q)
			ri++
		}
	}
	bi := 0
	burst := func() {
		for bi < len(c.Bursts) && c.Bursts[bi].At <= len(wd.log) {
			b := &c.Bursts[bi]
			b.At = len(wd.log)
			bi++
			if b.Procs > 0 {
				old := runtime.GOMAXPROCS(b.Procs)
				defer runtime.GOMAXPROCS(old)
			}
			var wg sync.WaitGroup
			var mu sync.Mutex
			start := make(chan struct{})
			for g := 0; g < b.G; g++ {
				wg.Add(1)
				go func(g int) {
					defer wg.Done()
					<-start
					for k := 0; k < b.PerG; k++ {
						q, f := wd.request((g+k)%2 == 0)
						mu.Lock()
						if f != "" {
							fails = append(fails, f)
						}
						c.Reqs = append(c.Reqs, q)
						mu.Unlock()
					}
				}(g)
			}
			close(start)
			wg.Wait()
			w.Count("burst_requests", fmt.Sprint(b.G*b.PerG))
		}
	}
	for _, o := range c.Ops {
		issue()
		burst()
		if wd.apply(o) {
			kept = append(kept, o)
		}
	}
	for ri < len(reqs) {
		reqs[ri].Inv = len(wd.log)
		issue()
	}
	for bi < len(c.Bursts) {
		c.Bursts[bi].At = len(wd.log)
		burst()
	}
	c.Ops = kept
	finishHist(w, c, fails)
}

func genSeq(r *rand.Rand, odd bool, many bool) jcase {
	c := jcase{Kind: "gen-seq", Mode: "seq"}
	nops := 3 + r.IntN(14)
	if many {
		nops = 20 + r.IntN(15)
	}
	nr, nh := 0, 0
	used := map[string]bool{}
	name := func(dup bool) string {
		for k := 0; k < 50; k++ {
			n := gateNames[r.IntN(len(gateNames))]
			if many {
				n = fmt.Sprintf("%s%d", n, r.IntN(40))
			}
			if !used[n] || (dup && !many && len(used) < 9) {
				used[n] = true
				return n
			}
		}
		n := fmt.Sprintf("g%d", len(used))
		used[n] = true
		return n
	}
	status := func() string {
		if odd && r.IntN(3) == 0 {
			return []string{"", "warn"}[r.IntN(2)]
		}
		return []string{"pass", "pass", "fail"}[r.IntN(3)]
	}
	for i := 0; i < nops; i++ {
		x := r.IntN(100)
		if many && x >= 50 {
			x = r.IntN(50)
		}
		switch {
		case x < 18 || (i < 2 && x < 60):
			c.Ops = append(c.Ops, jop{Op: "reggate", Name: name(r.IntN(10) == 0)})
			nr++
		case x < 40 && nr > 0:
			c.Ops = append(c.Ops, jop{Op: "ready", I: r.IntN(nr)})
		case x < 50 && nr > 0:
			c.Ops = append(c.Ops, jop{Op: "unready", I: r.IntN(nr)})
		case x < 55:
			c.Ops = append(c.Ops, jop{Op: "regready", Name: name(false), Status: status(), Msg: msgs[r.IntN(len(msgs))], Kind: "named"})
			nr++
		case x < 60 && nr > 0:
			c.Ops = append(c.Ops, jop{Op: "setready", I: r.IntN(nr), Status: status(), Msg: msgs[r.IntN(len(msgs))]})
		case x < 80 || nh == 0:
			k := []string{"named", "named", "named-via-add", "anon", "fresh"}[r.IntN(5)]
			n := name(r.IntN(10) == 0)
			if k == "anon" && r.IntN(2) == 0 {
				n = ""
				if used[""] && many {
					n = name(false)
				}
				used[n] = true
			}
			c.Ops = append(c.Ops, jop{Op: "reghealth", Name: n, Status: status(), Msg: msgs[r.IntN(len(msgs))], Kind: k})
			nh++
		default:
			c.Ops = append(c.Ops, jop{Op: "sethealth", I: r.IntN(nh), Status: status(), Msg: msgs[r.IntN(len(msgs))]})
		}
		if r.IntN(3) == 0 || i == nops-1 {
			c.Reqs = append(c.Reqs, jreq{Ready: true, Inv: i + 1}, jreq{Ready: false, Inv: i + 1})
		}
	}
	return c
}

// ---------------------------------------------------------------- retained responses (kit/check API)

func obsChecks(rs check.Responses) []jchk {
	out := []jchk{}
	for _, r := range rs {
		out = append(out, jchk{r.Name(), string(r.Status()), r.Message()})
	}
	return out
}

// runRetain: a Response obtained from CheckReady / CheckHealth is kept while further
// evaluations (API or HTTP, either endpoint) and operations happen, and only then read.
func runRetain(w *vh.W, c *jcase) {
	idx := w.Len()
	wd := newWorld()
	ctx := context.Background()
	held := map[int]check.Response{}
	meta := map[int]jkept{}
	c.Kept = nil
	for _, st := range c.Steps {
		switch st.K {
		case "op":
			wd.apply(*st.Op)
		case "take":
			k := jkept{ID: st.ID, Ready: st.Ready, Pos: wd.pos()}
			if st.Ready {
				held[st.ID] = wd.kc.CheckReady(ctx)
			} else {
				held[st.ID] = wd.kc.CheckHealth(ctx)
			}
			meta[st.ID] = k
		case "eval":
			switch {
			case st.HTTP:
				if _, f := wd.request(st.Ready); f != "" {
					w.Fail(idx, f, "")
				}
			case st.Ready:
				_ = wd.kc.CheckReady(ctx)
			default:
				_ = wd.kc.CheckHealth(ctx)
			}
		case "observe":
			r, ok := held[st.ID]
			if !ok {
				continue
			}
			k := meta[st.ID]
			if p := vh.Guard(func() { k.Status, k.Checks = string(r.Status()), obsChecks(r.Checks()) }); p != "" {
				w.Fail(idx, "panic while reading a retained response: "+p, "")
			}
			c.Kept = append(c.Kept, k)
			delete(held, st.ID)
		}
	}
	c.Ops = append([]jop(nil), wd.log...)
	// names of the observed checks take part in the ranking
	tc := *c
	for _, k := range c.Kept {
		tc.Reqs = append(tc.Reqs, jreq{Checks: k.Checks})
	}
	t := mkTables(&tc)
	ot := opsTerm(t, c.Ops)
	var kept []string
	for _, k := range c.Kept {
		var cs []string
		for _, x := range k.Checks {
			cs = append(cs, t.chk(x))
		}
		kept = append(kept, fmt.Sprintf("{| t_ready := %s; t_pos := %s; t_status := %s; t_checks := %s |}", vh.Bool(k.Ready), vh.Nat(k.Pos), st(k.Status), vh.List(cs)))
	}
	cc := *c
	w.Add("CRetained "+ot+" "+vh.List(kept), &cc, len(c.Kept) > 0, "")
	w.Count("mode", "retain")
	w.Count("kept", fmt.Sprint(len(c.Kept)))
}

func genRetain(r *rand.Rand) jcase {
	c := jcase{Kind: "gen-retain", Mode: "retain"}
	op := func(o jop) { c.Steps = append(c.Steps, jstep{K: "op", Op: &o}) }
	ng := 1 + r.IntN(5)
	for i := 0; i < ng; i++ {
		op(jop{Op: "reggate", Name: gateNames[i]})
		if r.IntN(2) == 0 {
			op(jop{Op: "ready", I: i})
		}
	}
	nh := 1 + r.IntN(4)
	for i := 0; i < nh; i++ {
		op(jop{Op: "reghealth", Name: gateNames[11-i], Status: []string{"pass", "pass", "fail", ""}[r.IntN(4)], Msg: msgs[r.IntN(len(msgs))],
			Kind: []string{"named", "named", "anon", "yield"}[r.IntN(4)]})
	}
	id := 0
	for round, n := 0, 1+r.IntN(3); round < n; round++ {
		var open []int
		for t, nt := 0, 1+r.IntN(2); t < nt; t++ {
			c.Steps = append(c.Steps, jstep{K: "take", Ready: r.IntN(2) == 0, ID: id})
			open = append(open, id)
			id++
		}
		for e, ne := 0, 1+r.IntN(3); e < ne; e++ {
			switch r.IntN(4) {
			case 0: // flip a gate or a health result, then evaluate
				if r.IntN(2) == 0 {
					op(jop{Op: []string{"ready", "unready"}[r.IntN(2)], I: r.IntN(ng)})
				} else {
					op(jop{Op: "sethealth", I: r.IntN(nh), Status: []string{"pass", "fail"}[r.IntN(2)], Msg: msgs[r.IntN(len(msgs))]})
				}
				c.Steps = append(c.Steps, jstep{K: "eval", Ready: r.IntN(2) == 0, HTTP: r.IntN(3) == 0})
			default:
				c.Steps = append(c.Steps, jstep{K: "eval", Ready: r.IntN(2) == 0, HTTP: r.IntN(3) == 0})
			}
		}
		for _, i := range open {
			c.Steps = append(c.Steps, jstep{K: "observe", ID: i})
		}
	}
	return c
}

// ---------------------------------------------------------------- parked (scheduled) interleavings

// runPark: Ops[0:setup] are applied first; then each request is issued in a goroutine; the
// checkers registered with Kind "parker" block the request; at the k-th park the driver applies
// the operations ParkOps[k] and releases the request.
func runPark(w *vh.W, c *jcase, setup int) {
	wd := newWorld()
	var fails []string
	all := c.Ops
	for _, o := range all[:setup] {
		if !wd.apply(o) {
			fails = append(fails, "setup op does not apply")
		}
	}
	for i := range c.Reqs {
		q := &c.Reqs[i]
		done := make(chan struct{})
		var got jreq
		var f string
		go func() { got, f = wd.request(q.Ready); close(done) }()
		k := 0
	loop:
		for {
			select {
			case rel := <-wd.park:
				if k < len(q.ParkOps) {
					for _, oi := range q.ParkOps[k] {
						if !wd.apply(all[oi]) {
							fails = append(fails, "park op does not apply")
						}
					}
				}
				k++
				close(rel)
			case <-done:
				break loop
			case <-time.After(20 * time.Second):
				fails = append(fails, "request hangs")
				break loop
			}
		}
		<-done
		if f != "" {
			fails = append(fails, f)
		}
		got.ParkOps = q.ParkOps
		*q = got
	}
	c.Ops = append([]jop(nil), wd.log...)
	finishHist(w, c, fails)
}

func genPark(r *rand.Rand) (jcase, int) {
	c := jcase{Kind: "gen-park", Mode: "park"}
	// ready: gates with parkers in between; health: scripted checks with parkers in between
	ng := 2 + r.IntN(3)
	for i := 0; i < ng; i++ {
		c.Ops = append(c.Ops, jop{Op: "reggate", Name: gateNames[i]})
		if r.IntN(2) == 0 {
			c.Ops = append(c.Ops, jop{Op: "ready", I: len(readyIdx(c.Ops)) - 1})
		}
		if i < ng-1 {
			c.Ops = append(c.Ops, jop{Op: "regready", Name: fmt.Sprintf("p%d", i), Status: "pass", Kind: "parker"})
		}
	}
	nh := 2 + r.IntN(2)
	for i := 0; i < nh; i++ {
		c.Ops = append(c.Ops, jop{Op: "reghealth", Name: gateNames[8+i], Status: []string{"pass", "fail"}[r.IntN(2)], Msg: msgs[r.IntN(len(msgs))], Kind: "named"})
		if i < nh-1 {
			c.Ops = append(c.Ops, jop{Op: "reghealth", Name: fmt.Sprintf("hp%d", i), Status: "pass", Kind: "parker"})
		}
	}
	setup := len(c.Ops)
	nready := len(readyIdx(c.Ops))
	nhealth := 2*nh - 1
	nreq := 1 + r.IntN(3)
	for k := 0; k < nreq; k++ {
		q := jreq{Ready: r.IntN(3) != 0}
		parks := ng - 1
		if !q.Ready {
			parks = nh - 1
		}
		for p := 0; p < parks; p++ {
			var ids []int
			for n := r.IntN(4); n > 0; n-- {
				var o jop
				if q.Ready || r.IntN(4) == 0 {
					gi := 2 * r.IntN(ng) // gates sit at even ready indices
					switch r.IntN(5) {
					case 0:
						o = jop{Op: "unready", I: gi}
					case 1:
						o = jop{Op: "reggate", Name: fmt.Sprintf("late%d", len(c.Ops))}
						nready++
					default:
						o = jop{Op: "ready", I: gi}
					}
				} else {
					hi := 2 * r.IntN(nh)
					o = jop{Op: "sethealth", I: hi, Status: []string{"pass", "fail"}[r.IntN(2)], Msg: msgs[r.IntN(len(msgs))]}
				}
				c.Ops = append(c.Ops, o)
				ids = append(ids, len(c.Ops)-1)
			}
			q.ParkOps = append(q.ParkOps, ids)
		}
		c.Reqs = append(c.Reqs, q)
	}
	_, _ = nhealth, nready
	return c, setup
}
func readyIdx(ops []jop) []int {
	var out []int
	for i, o := range ops {
		if o.Op == "reggate" || o.Op == "regready" {
			out = append(out, i)
		}
	}
	return out
}

// ---------------------------------------------------------------- free-running concurrency

func runConc(w *vh.W, c *jcase, seed uint64) {
	wd := newWorld()
	var fails []string
	// setup: Ops given are applied sequentially
	for _, o := range c.Ops {
		if !wd.apply(o) {
			fails = append(fails, "setup op does not apply")
		}
	}
	c.Seed, c.Setup = seed, len(c.Ops)
	nready, nhealth := 0, 0
	for _, o := range c.Ops {
		switch o.Op {
		case "reggate":
			nready++
		case "reghealth":
			nhealth++
		}
	}
	var wg sync.WaitGroup
	start := make(chan struct{})
	const workers = 4
	for g := 0; g < workers; g++ {
		wg.Add(1)
		go func(g int) {
			defer wg.Done()
			r := rand.New(rand.NewPCG(seed, uint64(g)+1))
			<-start
			for k := 0; k < 12; k++ {
				switch x := r.IntN(10); {
				case x < 5 && nready > 0:
					// gates are partitioned by index modulo the number of workers
					i := g + workers*r.IntN((nready+workers-1-g)/workers+1)
					if i < nready {
						wd.apply(jop{Op: []string{"ready", "ready", "unready"}[r.IntN(3)], I: i})
					}
				case x < 7 && nhealth > 0:
					i := g + workers*r.IntN((nhealth+workers-1-g)/workers+1)
					if i < nhealth {
						wd.apply(jop{Op: "sethealth", I: i, Status: []string{"pass", "fail"}[r.IntN(2)], Msg: msgs[r.IntN(len(msgs))]})
					}
				case x < 8:
					wd.apply(jop{Op: "reggate", Name: fmt.Sprintf("w%d-%d", g, k)})
				case x < 9:
					wd.apply(jop{Op: "reghealth", Name: fmt.Sprintf("hw%d-%d", g, k), Status: []string{"pass", "fail"}[r.IntN(2)], Msg: msgs[r.IntN(len(msgs))], Kind: "named"})
				default:
					time.Sleep(time.Duration(r.IntN(20)) * time.Microsecond)
				}
				if r.IntN(3) == 0 {
					time.Sleep(time.Duration(r.IntN(30)) * time.Microsecond)
				}
			}
		}(g)
	}
	var rmu sync.Mutex
	for rq := 0; rq < 2; rq++ {
		wg.Add(1)
		go func(rq int) {
			defer wg.Done()
			<-start
			for k := 0; k < 6; k++ {
				q, f := wd.request((k+rq)%2 == 0)
				rmu.Lock()
				if f != "" {
					fails = append(fails, f)
				}
				c.Reqs = append(c.Reqs, q)
				rmu.Unlock()
			}
		}(rq)
	}
	close(start)
	wg.Wait()
	q1, f1 := wd.request(true)
	q2, f2 := wd.request(false)
	for _, f := range []string{f1, f2} {
		if f != "" {
			fails = append(fails, f)
		}
	}
	c.Reqs = append(c.Reqs, q1, q2)
	c.Ops = append([]jop(nil), wd.log...)
	finishHist(w, c, fails)
}

func genConcSetup(r *rand.Rand) jcase {
	c := jcase{Kind: "gen-conc", Mode: "conc"}
	ng := 2 + r.IntN(5)
	for i := 0; i < ng; i++ {
		c.Ops = append(c.Ops, jop{Op: "reggate", Name: gateNames[i]})
	}
	for i := 0; i < ng; i++ {
		if r.IntN(3) != 0 {
			c.Ops = append(c.Ops, jop{Op: "ready", I: i})
		}
	}
	nh := 1 + r.IntN(4)
	for i := 0; i < nh; i++ {
		c.Ops = append(c.Ops, jop{Op: "reghealth", Name: gateNames[11-i], Status: []string{"pass", "pass", "fail"}[r.IntN(3)], Msg: msgs[r.IntN(len(msgs))], Kind: "named"})
	}
	return c
}

// ---------------------------------------------------------------- scheduler pulse

type fakeSched struct{ w time.Time }

func (f fakeSched) When() time.Time { return f.w }

var durRe = regexp.MustCompile(`^(scheduler stalled: next run due (\S+) ago|next run in (\S+)|on time, dispatch lag (\S+)|scheduler idle: no scheduled runs)$`)

func runPulse(w *vh.W, c *jcase) {
	idx := w.Len()
	var terms []string
	for i := range c.Pulse {
		p := &c.Pulse[i]
		var when time.Time
		if p.When != nil {
			when = time.Unix(0, *p.When)
		}
		pc := run.NewSchedulerPulseCheck(fakeSched{when}, time.Duration(p.Thr))
		now := time.Unix(0, p.Now)
		pc.SetNowVerif(func() time.Time { return now })
		resp := pc.Check(context.Background())
		p.Status, p.Message = string(resp.Status()), resp.Message()
		m := durRe.FindStringSubmatch(p.Message)
		out := "PIdle"
		if m == nil {
			w.Fail(idx, "unexpected pulse message: "+p.Message, "")
		} else {
			for k, ctor := range map[int]string{2: "PStalled", 3: "PNext", 4: "POnTime"} {
				if m[k] != "" {
					d, err := time.ParseDuration(m[k])
					if err != nil || d%time.Second != 0 {
						w.Fail(idx, "duration in pulse message not whole seconds: "+p.Message, "")
					}
					out = fmt.Sprintf("(%s %s)", ctor, vh.Z(int64(d/time.Second)))
				}
			}
		}
		wt := "None"
		if p.When != nil {
			wt = vh.Some(vh.Z(*p.When))
		}
		terms = append(terms, fmt.Sprintf("{| p_when := %s; p_now := %s; p_thr := %s; p_status := %s; p_out := %s |}", wt, vh.Z(p.Now), vh.Z(p.Thr), st(p.Status), out))
		w.Count("pulse", p.Status)
	}
	cc := *c
	w.Add("CPulse "+vh.List(terms), &cc, true, "")
	w.Count("mode", "pulse")
}

func genPulse(r *rand.Rand) jcase {
	c := jcase{Kind: "gen-pulse", Mode: "pulse"}
	sec := int64(time.Second)
	for k := 0; k < 12; k++ {
		thr := []int64{0, sec, 30 * sec, 30 * sec, int64(r.IntN(100)) * sec / 7, int64(r.IntN(1 << 30))}[r.IntN(6)]
		now := int64(1700000000)*sec + int64(r.IntN(1<<30))
		var d int64
		switch r.IntN(8) {
		case 0:
			d = thr + int64(r.IntN(3)) - 1 // the pass/fail boundary
		case 1:
			d = int64(r.IntN(3)) - 1 // now ~ when
		case 2:
			d = int64(r.IntN(120))*sec + sec/2 + int64(r.IntN(3)) - 1 // rounding boundary
		case 3:
			d = -(int64(r.IntN(120))*sec + sec/2 + int64(r.IntN(3)) - 1)
		case 4:
			d = int64(r.IntN(200)) * sec
		case 5:
			d = -int64(r.IntN(1 << 40))
		default:
			d = int64(r.IntN(1<<37)) - (1 << 35)
		}
		p := jpulse{Now: now, Thr: thr}
		if r.IntN(10) != 0 {
			wv := now - d
			p.When = &wv
		}
		c.Pulse = append(c.Pulse, p)
	}
	return c
}

// ---------------------------------------------------------------- startup logger

var (
	reLoading = regexp.MustCompile(`^loading shards [0-9.]+% \((\d+) / (\d+)\)$`)
	reReady   = regexp.MustCompile(`^ready: (\d+) shards loaded in \S+$`)
	reFailed  = regexp.MustCompile(`^shard loading failed: (.*)$`)
	reHealth  = regexp.MustCompile(`^(\d+) shard\(s\) failed to load: (.*)$`)
	reEntry   = regexp.MustCompile(`^shard (\d+): (.*)$`)
)

func runStartup(w *vh.W, c *jcase) {
	idx := w.Len()
	sl := run.NewStartupProgressLogger("shards", zap.NewNop())
	rc, hc := sl.ReadyChecker(), sl.HealthChecker()
	errs := vh.NewInterner()
	var terms []string
	for i := range c.Startup {
		s := &c.Startup[i]
		var opt string
		switch s.Op {
		case "add":
			sl.AddShard()
			opt = "SAdd"
		case "completed":
			sl.CompletedShard()
			opt = "SCompleted"
		case "failed":
			sl.ShardLoadFailed(s.ID, errors.New(s.Err))
			opt = fmt.Sprintf("(SFailed %s %s)", vh.N(s.ID), vh.N(errs.ID(s.Err)))
		case "finish":
			if s.Err == "" {
				sl.Finish(nil)
				opt = "(SFinish None)"
			} else {
				sl.Finish(errors.New(s.Err))
				opt = fmt.Sprintf("(SFinish (Some %s))", vh.N(errs.ID(s.Err)))
			}
		}
		rr, hr := rc.Check(context.Background()), hc.Check(context.Background())
		if rr.Name() != "shards" || hr.Name() != "shards" || rc.CheckName() != "shards" {
			w.Fail(idx, "startup checkers do not stamp their name", "")
		}
		s.RStatus, s.RMessage, s.HStatus, s.HMessage = string(rr.Status()), rr.Message(), string(hr.Status()), hr.Message()
		var rt string
		switch {
		case s.RMessage == "waiting for shard enumeration":
			rt = "RWaiting"
		case reLoading.MatchString(s.RMessage):
			m := reLoading.FindStringSubmatch(s.RMessage)
			a, _ := strconv.ParseUint(m[1], 10, 64)
			b, _ := strconv.ParseUint(m[2], 10, 64)
			rt = fmt.Sprintf("(RLoading %s %s)", vh.N(a), vh.N(b))
		case reReady.MatchString(s.RMessage):
			a, _ := strconv.ParseUint(reReady.FindStringSubmatch(s.RMessage)[1], 10, 64)
			rt = fmt.Sprintf("(RReady %s)", vh.N(a))
		case reFailed.MatchString(s.RMessage):
			rt = fmt.Sprintf("(RLoadFailed %s)", vh.N(errs.ID(reFailed.FindStringSubmatch(s.RMessage)[1])))
		default:
			w.Fail(idx, "unexpected ready message: "+s.RMessage, "")
			rt = "RWaiting"
		}
		var he []string
		if s.HMessage != "" {
			m := reHealth.FindStringSubmatch(s.HMessage)
			if m == nil {
				w.Fail(idx, "unexpected health message: "+s.HMessage, "")
			} else {
				parts := strings.Split(m[2], "; ")
				if n, _ := strconv.Atoi(m[1]); n != len(parts) {
					w.Fail(idx, "shard failure count differs from the listed entries: "+s.HMessage, "")
				}
				for _, p := range parts {
					e := reEntry.FindStringSubmatch(p)
					if e == nil {
						w.Fail(idx, "unexpected health entry: "+p, "")
						continue
					}
					id, _ := strconv.ParseUint(e[1], 10, 64)
					he = append(he, vh.Pair(vh.N(id), vh.N(errs.ID(e[2]))))
				}
			}
		}
		terms = append(terms, fmt.Sprintf("(%s, {| so_rstatus := %s; so_ready := %s; so_hstatus := %s; so_herrs := %s |})", opt, st(s.RStatus), rt, st(s.HStatus), vh.List(he)))
		w.Count("startup_ready", s.RStatus)
	}
	cc := *c
	w.Add("CStartup "+vh.List(terms), &cc, true, "")
	w.Count("mode", "startup")
}

func genStartup(r *rand.Rand) jcase {
	c := jcase{Kind: "gen-startup", Mode: "startup"}
	es := []string{"I/O error", "corrupt index", "permission denied"}
	for k, n := 0, 2+r.IntN(12); k < n; k++ {
		switch x := r.IntN(20); {
		case x < 7:
			c.Startup = append(c.Startup, jsop{Op: "add"})
		case x < 13:
			c.Startup = append(c.Startup, jsop{Op: "completed"})
		case x < 16:
			c.Startup = append(c.Startup, jsop{Op: "failed", ID: uint64(r.IntN(200)), Err: es[r.IntN(3)]})
		case x < 18:
			c.Startup = append(c.Startup, jsop{Op: "finish"})
		default:
			c.Startup = append(c.Startup, jsop{Op: "finish", Err: es[r.IntN(3)]})
		}
	}
	return c
}

// ---------------------------------------------------------------- main

func runCase(w *vh.W, c *jcase, setup int) {
	switch c.Mode {
	case "seq":
		runSeq(w, c)
	case "park":
		runPark(w, c, setup)
	case "conc":
		runConc(w, c, c.Seed)
	case "pulse":
		runPulse(w, c)
	case "startup":
		runStartup(w, c)
	case "retain":
		runRetain(w, c)
	}
}

func main() {
	w := vh.New("C33", "From Verif Require Import Base.Prelude Model.C33.", "case", "check")
	w.Rule = "history cases on the real HealthReadyHandler: seq = 3-35 random operations (register gate / scripted ready check / named, anonymous, Freshness health check; Ready / Unready; set health result; a third of them with a status that is neither pass nor fail) with /ready and /health requests in between; park = requests parked inside blocking checkers placed between the other checkers while 0-3 operations (Ready, Unready, register gate, set health) run at each park; conc = 4 goroutines x 12 operations on their own gates / checks + registrations while 2 goroutines issue 6 requests each. burst = a sequential history followed by 1-2 bursts of 8-16 goroutines issuing 1-3 mixed /ready and /health requests each while the state is stable (some checks answer with a Response whose accessors yield the processor; GOMAXPROCS 1, 2 or default), every response must be the atomic one; retain = kit/check API: a Response of CheckReady/CheckHealth is kept across 1-3 further evaluations (other or same endpoint, API or HTTP, possibly after a gate flip) and read afterwards, it must still be the evaluation it came from. pulse = 12 probes of SchedulerPulseCheck around the threshold and rounding boundaries with an injected clock; startup = 2-13 operations on a StartupProgressLogger, both checkers observed after each. Non-trivial: at least one request and two operations (history), any pulse/startup case. Distinct: distinct Gallina terms."
	var rc jcase
	if w.ReplayCase(&rc) {
		setup := len(rc.Ops)
		if rc.Mode == "park" { // the park operations follow the setup operations, in execution order
			for _, q := range rc.Reqs {
				for _, ids := range q.ParkOps {
					for _, i := range ids {
						setup = min(setup, i)
					}
				}
			}
		}
		if rc.Mode == "conc" { // re-run the concurrent phase (same worker scripts; the interleaving may differ)
			rc.Ops, rc.Reqs = rc.Ops[:rc.Setup], nil
		}
		runCase(w, &rc, setup)
		w.Finish()
		return
	}
	r := w.Rng
	// ---- hand-picked cases
	{
		// the launcher's eight gates, signalled one by one, with shutdown
		c := jcase{Kind: "corpus-launcher-gates", Mode: "seq"}
		for i := 0; i < 8; i++ {
			c.Ops = append(c.Ops, jop{Op: "reggate", Name: gateNames[i]})
		}
		for i := 0; i < 8; i++ {
			c.Ops = append(c.Ops, jop{Op: "ready", I: (i * 3) % 8})
			c.Reqs = append(c.Reqs, jreq{Ready: true, Inv: len(c.Ops)})
		}
		c.Ops = append(c.Ops, jop{Op: "unready", I: 2})
		c.Reqs = append(c.Reqs, jreq{Ready: true, Inv: len(c.Ops)}, jreq{Ready: true, Inv: 0}, jreq{Ready: false, Inv: 0})
		sort.SliceStable(c.Reqs, func(i, j int) bool { return c.Reqs[i].Inv < c.Reqs[j].Inv })
		runSeq(w, &c)
		// first failing = name order, not registration order; empty message -> "fail"
		c = jcase{Kind: "corpus-first-failing", Mode: "seq", Ops: []jop{
			{Op: "reghealth", Name: "query", Status: "fail", Msg: "unreachable", Kind: "named"},
			{Op: "reghealth", Name: "bolt", Status: "fail", Msg: "", Kind: "named"},
			{Op: "reghealth", Name: "sqlite", Status: "pass", Msg: "", Kind: "named"},
			{Op: "sethealth", I: 1, Status: "fail", Msg: "bolt database not open"},
			{Op: "sethealth", I: 1, Status: "pass", Msg: ""}},
			Reqs: []jreq{{Inv: 1}, {Inv: 2}, {Inv: 3}, {Inv: 4}, {Inv: 5}}}
		runSeq(w, &c)
		// a status that is neither pass nor fail must not mask a failing check registered before it (fixed finding)
		c = jcase{Kind: "corpus-odd-status", Mode: "seq", Ops: []jop{
			{Op: "reghealth", Name: "bolt", Status: "fail", Msg: "bolt database not open", Kind: "named"},
			{Op: "reghealth", Name: "query", Status: "", Msg: "", Kind: "named"},
			{Op: "regready", Name: "engine", Status: "fail", Msg: "not ready", Kind: "named"},
			{Op: "regready", Name: "tasks", Status: "warn", Msg: "slow", Kind: "named"}},
			Reqs: []jreq{{Inv: 1}, {Inv: 2}, {Ready: true, Inv: 3}, {Ready: true, Inv: 4}}}
		runSeq(w, &c)
		// torn snapshot: g1 read (not ready), parked; g1.Ready(); g2.Ready(); released; g2 read (ready)
		c = jcase{Kind: "corpus-torn-snapshot", Mode: "park", Ops: []jop{
			{Op: "reggate", Name: "bolt"}, {Op: "regready", Name: "p", Status: "pass", Kind: "parker"}, {Op: "reggate", Name: "engine"},
			{Op: "ready", I: 0}, {Op: "ready", I: 2}},
			Reqs: []jreq{{Ready: true, ParkOps: [][]int{{3, 4}}}}}
		runPark(w, &c, 3)
		// 200 although never all ready: gate registered and another signalled while parked
		c = jcase{Kind: "corpus-200-never-all-ready", Mode: "park", Ops: []jop{
			{Op: "regready", Name: "p", Status: "pass", Kind: "parker"}, {Op: "reggate", Name: "engine"},
			{Op: "reggate", Name: "late"}, {Op: "ready", I: 1}},
			Reqs: []jreq{{Ready: true, ParkOps: [][]int{{2, 3}}}}}
		runPark(w, &c, 2)
		// a retained /ready response must survive a later /health evaluation (and vice versa)
		{
			c := jcase{Kind: "corpus-retained", Mode: "retain"}
			for _, o := range []jop{{Op: "reggate", Name: "kv"}, {Op: "reggate", Name: "engine"}, {Op: "ready", I: 1},
				{Op: "reghealth", Name: "bolt", Status: "pass", Kind: "named"}, {Op: "reghealth", Name: "query", Status: "fail", Msg: "unreachable", Kind: "named"},
				{Op: "reghealth", Name: "sqlite", Status: "pass", Kind: "named"}} {
				o := o
				c.Steps = append(c.Steps, jstep{K: "op", Op: &o})
			}
			c.Steps = append(c.Steps, jstep{K: "take", Ready: true, ID: 0}, jstep{K: "eval", Ready: false}, jstep{K: "observe", ID: 0},
				jstep{K: "take", Ready: false, ID: 1}, jstep{K: "eval", Ready: true, HTTP: true}, jstep{K: "observe", ID: 1},
				jstep{K: "take", Ready: true, ID: 2}, jstep{K: "op", Op: &jop{Op: "ready", I: 0}}, jstep{K: "eval", Ready: true}, jstep{K: "observe", ID: 2})
			runRetain(w, &c)
			b := jcase{Kind: "corpus-burst", Mode: "seq", Ops: []jop{{Op: "reggate", Name: "kv"}, {Op: "reggate", Name: "engine"}, {Op: "ready", I: 1},
				{Op: "regready", Name: "slow-r", Status: "pass", Kind: "yield"},
				{Op: "reghealth", Name: "bolt", Status: "pass", Kind: "yield"}, {Op: "reghealth", Name: "query", Status: "fail", Msg: "unreachable", Kind: "yield"},
				{Op: "reghealth", Name: "sqlite", Status: "pass", Kind: "named"}},
				Bursts: []jburst{{At: 7, G: 16, PerG: 4, Procs: 1}, {At: 7, G: 16, PerG: 4}}}
			runSeq(w, &b)
		}
		p := genPulse(r)
		sec := int64(time.Second)
		now := int64(1700000000) * sec
		mk := func(d, thr int64) jpulse { wv := now - d; return jpulse{When: &wv, Now: now, Thr: thr} }
		p.Kind = "corpus-pulse"
		p.Pulse = append([]jpulse{{Now: now, Thr: 30 * sec}, mk(30*sec, 30*sec), mk(30*sec+1, 30*sec), mk(0, 30*sec), mk(-1, 30*sec),
			mk(105*sec, 30*sec), mk(-sec/2, 30*sec), mk(-sec/2+1, 30*sec), mk(sec/2, 30*sec)}, p.Pulse...)
		runPulse(w, &p)
		s := jcase{Kind: "corpus-startup", Mode: "startup", Startup: []jsop{{Op: "add"}, {Op: "add"}, {Op: "completed"}, {Op: "failed", ID: 41, Err: "I/O error"},
			{Op: "completed"}, {Op: "finish"}, {Op: "finish", Err: "boom"}, {Op: "finish"}}}
		runStartup(w, &s)
		s = jcase{Kind: "corpus-startup-zero", Mode: "startup", Startup: []jsop{{Op: "completed"}, {Op: "finish"}}}
		runStartup(w, &s)
	}
	for w.Len() < w.N {
		switch x := r.IntN(100); {
		case x < 38:
			c := genSeq(r, x < 12, x >= 34)
			runSeq(w, &c)
		case x < 44: // stable-state bursts of concurrent requests
			c := genSeq(r, false, false)
			c.Kind = "gen-burst"
			for i := range c.Ops { // some checks answer with a Response that yields the processor
				if (c.Ops[i].Op == "regready" || c.Ops[i].Op == "reghealth") && c.Ops[i].Kind == "named" && r.IntN(2) == 0 {
					c.Ops[i].Kind = "yield"
				}
			}
			c.Ops = append(c.Ops, jop{Op: "reghealth", Name: "yielder", Status: []string{"pass", "fail"}[r.IntN(2)], Msg: "slow", Kind: "yield"},
				jop{Op: "regready", Name: "yielder-r", Status: []string{"pass", "fail"}[r.IntN(2)], Msg: "slow", Kind: "yield"})
			for b, nb := 0, 1+r.IntN(2); b < nb; b++ {
				c.Bursts = append(c.Bursts, jburst{At: len(c.Ops) - r.IntN(3)*b, G: 8 + r.IntN(9), PerG: 1 + r.IntN(3), Procs: []int{0, 1, 2}[r.IntN(3)]})
			}
			sort.Slice(c.Bursts, func(i, j int) bool { return c.Bursts[i].At < c.Bursts[j].At })
			runSeq(w, &c)
		case x < 50:
			c := genRetain(r)
			runRetain(w, &c)
		case x < 72:
			c, setup := genPark(r)
			runPark(w, &c, setup)
		case x < 84:
			c := genConcSetup(r)
			runConc(w, &c, r.Uint64())
		case x < 92:
			c := genPulse(r)
			runPulse(w, &c)
		default:
			c := genStartup(r)
			runStartup(w, &c)
		}
	}
	w.Finish()
}
