(** C12 — proofs about the parser mirror of Model/C11.v (parse_points). *)
From Verif Require Import Base.Prelude Model.C11 Model.C12.
From Coq Require Import ZifyBool ZifyN.
Local Open Scope N_scope.

(** * Generic helpers *)
Lemma res_ok_inv {A} (r : res A) a : r = Ok a -> exists x, r = Ok x. Proof. eauto. Qed.

Lemma In_filter_some {A} (l : list (option A)) a : In a (filter_some l) <-> In (Some a) l.
Proof.
  induction l as [|[x|] l IH]; cbn; [tauto| |].
  - rewrite IH. split; intros [H|H]; auto; left; congruence.
  - rewrite IH. split; [auto|]. intros [H|H]; [discriminate|auto].
Qed.

(** * The error list names exactly the rejected candidate lines, in order *)
Definition is_ok {A} (r : res A) : bool := match r with Ok _ => true | Err _ => false end.

Fixpoint oks {A} (l : list (res A)) : list A :=
  match l with [] => [] | Ok a :: r => a :: oks r | Err _ :: r => oks r end.

Lemma parse_lines_spec prec dflt lines :
  fst (parse_lines prec dflt lines) = oks (map (parse_point prec dflt) lines) /\
  map fst (snd (parse_lines prec dflt lines))
    = filter (fun t => negb (is_ok (parse_point prec dflt t))) lines.
Proof.
  induction lines as [|t r [IH1 IH2]]; cbn; [auto|].
  destruct (parse_lines prec dflt r) as [ps es] eqn:E. cbn in IH1, IH2.
  destruct (parse_point prec dflt t) eqn:P; cbn; split; congruence.
Qed.

Lemma parse_lines_err_class prec dflt lines t e :
  In (t, e) (snd (parse_lines prec dflt lines)) -> In t lines /\ parse_point prec dflt t = Err e.
Proof.
  induction lines as [|x r IH]; cbn; [tauto|].
  destruct (parse_lines prec dflt r) as [ps es] eqn:E. cbn in IH.
  destruct (parse_point prec dflt x) eqn:P; cbn; intro H.
  - destruct (IH H); auto.
  - destruct H as [H|H]; [inversion H; subst; auto|destruct (IH H); auto].
Qed.

Lemma parse_lines_point prec dflt lines p :
  In p (fst (parse_lines prec dflt lines)) -> exists t, In t lines /\ parse_point prec dflt t = Ok p.
Proof.
  induction lines as [|x r IH]; cbn; [tauto|].
  destruct (parse_lines prec dflt r) as [ps es] eqn:E. cbn in IH.
  destruct (parse_point prec dflt x) eqn:P; cbn; intro H.
  - destruct H as [H|H]; [subst; eauto|]. destruct (IH H) as [t [? ?]]; eauto.
  - destruct (IH H) as [t [? ?]]; eauto.
Qed.

(** a candidate line is a block that is not blank and not a comment *)
Definition all_ws (l : bytes) : bool := forallb is_ws l.

Lemma skip_ws_split l : exists ws, l = ws ++ skip_ws l /\ all_ws ws = true.
Proof.
  induction l as [|c t [ws [E W]]]; cbn.
  - exists []; auto.
  - destruct (is_ws c) eqn:Hc.
    + exists (c :: ws). split; [cbn; f_equal; exact E|]. unfold all_ws in *; cbn. rewrite Hc. exact W.
    + exists []; auto.
Qed.

Lemma skip_ws_head l c r : skip_ws l = c :: r -> is_ws c = false.
Proof.
  induction l as [|x t IH]; cbn; [discriminate|].
  destruct (is_ws x) eqn:Hx; [exact IH|]. intro H; inversion H; subst; exact Hx.
Qed.

Lemma candidate_none block :
  candidate block = None <->
  (all_ws block = true \/ exists ws r, block = ws ++ HASH :: r /\ all_ws ws = true).
Proof.
  unfold candidate. destruct (skip_ws_split block) as [ws [E W]].
  destruct (skip_ws block) as [|c r] eqn:S.
  - split; [intros _; left|reflexivity]. rewrite E, app_nil_r. exact W.
  - pose proof (skip_ws_head _ _ _ S) as Hc.
    destruct (c =? HASH) eqn:Hh.
    + apply N.eqb_eq in Hh; subst c. split; [intros _; right; eauto|reflexivity].
    + split; [discriminate|]. intros [H|[ws' [r' [E' W']]]]; exfalso.
      * rewrite E in H. unfold all_ws in H. rewrite forallb_app in H.
        apply andb_true_iff in H as [_ H]. cbn in H. rewrite Hc in H. discriminate.
      * (* the first non-whitespace byte of the block is c, not # *)
        assert (HH : forall a b x y u v, all_ws a = true -> all_ws b = true -> is_ws x = false ->
                  is_ws y = false -> a ++ x :: u = b ++ y :: v -> x = y).
        { clear. induction a as [|p a IH]; intros [|q b] x y u v Wa Wb Hx Hy Eq; cbn in *.
          - congruence.
          - inversion Eq; subst. apply andb_true_iff in Wb as [Wq _]. congruence.
          - inversion Eq; subst. apply andb_true_iff in Wa as [Wp _]. congruence.
          - inversion Eq; subst. apply andb_true_iff in Wa as [_ Wa]. apply andb_true_iff in Wb as [_ Wb]. eauto. }
        rewrite E in E'. assert (c = HASH) by (eapply (HH ws ws' c HASH r r'); auto).
        subst c. discriminate.
Qed.
