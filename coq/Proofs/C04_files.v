(** C04 — part 9: from one key to whole files: the sequence written by the key merge over the
    input files has, for every key, exactly the specified content. *)
From Coq Require Import ZifyBool Sorted.
From Verif Require Import Base.Prelude Model.C37 Proofs.C37 Model.C04 Proofs.C04 Proofs.C04_keys
     Proofs.C04_blocks Proofs.C04_run.
Local Open Scope Z_scope.

Section Files.
  Context {V : Type}.
  Notation arr := (arr V).
  Notation blk := (blk V).
  Notation file := (file V).
  Notation kgroup := (kgroup V).

  (** a well-formed input file: index keys strictly increasing; every block non-empty, strictly
      increasing in time, index range = first/last timestamp, timestamps are int64.  (Nothing is
      assumed about the order or overlap of the blocks of a key, inside a file or across files.) *)
  Definition fwf (f : file) : Prop := skeys f /\ forall g, In g f -> Forall bwf (gblocks g).

  Lemma gblocks_fresh (g : kgroup) : Forall isfresh (gblocks g).
  Proof. unfold gblocks. apply Forall_forall. intros b Hb. apply in_map_iff in Hb as [rb [<- _]]. split; reflexivity. Qed.

  Lemma concat_filter {A} (f : A -> bool) (ls : list (list A)) :
    filter f (concat ls) = concat (map (filter f) ls).
  Proof. induction ls as [|l r IH]; [reflexivity|]. cbn. rewrite filter_app, IH. reflexivity. Qed.

  Definition group_points (g : kgroup) : arr :=
    filter (fun p => negb (tombstoned (snd g) p)) (concat (map (fun rb : rawblk V => snd rb) (snd (fst g)))).

  Lemma gblocks_live0 (g : kgroup) : concat (map live0 (gblocks g)) = group_points g.
  Proof.
    unfold group_points, gblocks. rewrite concat_filter, !map_map. f_equal.
  Qed.

  Lemma file_points_cons k (g : kgroup) (f : file) :
    file_points k (g :: f) = (if (gkey g =? k)%N then group_points g else []) ++ file_points k f.
  Proof. reflexivity. Qed.

  Lemma file_points_none k (f : file) : (forall g, In g f -> gkey g <> k) -> file_points k f = [].
  Proof.
    induction f as [|g r IH]; intro H; [reflexivity|]. rewrite file_points_cons, IH.
    - destruct (N.eqb_spec (gkey g) k) as [E|_]; [|reflexivity]. exfalso. apply (H g); [left; reflexivity|exact E].
    - intros g0 Hg0. apply H. right. exact Hg0.
  Qed.

  Lemma skeys_tail_gt (g : kgroup) (f : file) : skeys (g :: f) -> forall g', In g' f -> (gkey g < gkey g')%N.
  Proof. intros [H _] g' Hg'. rewrite Forall_forall in H. auto. Qed.

  Lemma take_key_spec k : forall (fs : list file) bs fs',
    take_key k fs = (bs, fs') -> Forall fwf fs -> keys_ge k fs ->
    concat (map live0 bs) = concat (map (file_points k) fs) /\
    (forall k', k' <> k -> map (file_points k') fs' = map (file_points k') fs) /\
    (forall f', In f' fs' -> file_points k f' = []) /\
    Forall bwf bs /\ Forall isfresh bs /\ Forall fwf fs'.
  Proof.
    induction fs as [|f r IH]; intros bs fs'; cbn [take_key].
    - intros [= <- <-] _ _. repeat split; auto; try constructor. intros ? [].
    - destruct (take_key k r) as [bs0 r'] eqn:E. intros H W Hge.
      inversion W as [|? ? Wf Wr]; subst.
      destruct (IH _ _ eq_refl Wr) as [I1 [I2 [I3 [I4 [I5 I6]]]]]; [intros f0 g0 Hf0; apply Hge; right; exact Hf0|].
      destruct f as [|g f'].
      + inversion H; subst. cbn [map concat]. repeat split; auto.
        * intros k' Hk'. cbn [map]. f_equal. apply I2; exact Hk'.
        * intros f0 [<-|Hf0]; [reflexivity|auto].
      + destruct Wf as [Sk Wg].
        assert (Htail : forall g', In g' f' -> gkey g' <> k).
        { intros g' Hg'. pose proof (skeys_tail_gt g f' Sk g' Hg').
          pose proof (Hge (g :: f') g (or_introl eq_refl) (or_introl eq_refl)). lia. }
        destruct (N.eqb_spec (gkey g) k) as [Ek|Ek]; inversion H; subst.
        * cbn [map concat]. rewrite map_app, concat_app, gblocks_live0, I1.
          rewrite file_points_cons, N.eqb_refl, (file_points_none _ f' Htail), app_nil_r.
          repeat split; auto.
          -- intros k' Hk'. cbn [map]. rewrite file_points_cons.
             destruct (N.eqb_spec (gkey g) k') as [E2|_]; [congruence|]. cbn [app]. f_equal. apply I2; exact Hk'.
          -- intros f0 [<-|Hf0]; [apply file_points_none; exact Htail|auto].
          -- apply Forall_app. split; [apply Wg; left; reflexivity|exact I4].
          -- apply Forall_app. split; [apply gblocks_fresh|exact I5].
          -- constructor; [|exact I6]. split; [apply Sk|]. intros g0 Hg0. apply Wg. right. exact Hg0.
        * cbn [map concat].
          assert (Hnone : file_points k (g :: f') = []).
          { apply file_points_none. intros g0 [<-|Hg0]; [exact Ek|auto]. }
          rewrite Hnone. cbn [app]. repeat split; auto.
          -- intros k' Hk'. cbn [map]. f_equal. apply I2; exact Hk'.
          -- intros f0 [<-|Hf0]; [exact Hnone|auto].
          -- constructor; [split; assumption|exact I6].
  Qed.

  (** number of blocks of key [k] in the input files (Go's [sort.Stable] is the insertion sort
      only up to 20 of them) *)
  Definition fcount (k : N) (f : file) : nat :=
    length (concat (map (fun g : kgroup => if (gkey g =? k)%N then snd (fst g) else []) f)).
  Fixpoint kcount (k : N) (fs : list file) : nat :=
    match fs with [] => 0%nat | f :: r => (fcount k f + kcount k r)%nat end.

  Lemma fcount_cons k (g : kgroup) (f : file) :
    fcount k (g :: f) = ((if (gkey g =? k)%N then length (snd (fst g)) else 0) + fcount k f)%nat.
  Proof. unfold fcount. cbn [map concat]. rewrite app_length. destruct (gkey g =? k)%N; reflexivity. Qed.

  Lemma fcount_none k (f : file) : (forall g, In g f -> gkey g <> k) -> fcount k f = 0%nat.
  Proof.
    induction f as [|g r IH]; intro H; [reflexivity|]. rewrite fcount_cons, IH.
    - destruct (N.eqb_spec (gkey g) k) as [E|_]; [|reflexivity]. exfalso. apply (H g); [left; reflexivity|exact E].
    - intros g0 Hg0. apply H. right. exact Hg0.
  Qed.

  Lemma take_key_count_le k : forall (fs : list file) bs fs',
    take_key k fs = (bs, fs') -> forall k', (kcount k' fs' <= kcount k' fs)%nat.
  Proof.
    induction fs as [|f r IH]; intros bs fs'; cbn [take_key].
    - intros [= <- <-] k'. lia.
    - destruct (take_key k r) as [bs0 r'] eqn:E. specialize (IH _ _ eq_refl).
      destruct f as [|g f'].
      + intros [= <- <-] k'. cbn [kcount]. specialize (IH k'). lia.
      + destruct (gkey g =? k)%N; intros [= <- <-] k'; cbn [kcount]; specialize (IH k'); [|lia].
        rewrite fcount_cons. lia.
  Qed.

  Lemma take_key_count k : forall (fs : list file) bs fs',
    take_key k fs = (bs, fs') -> Forall fwf fs -> keys_ge k fs -> length bs = kcount k fs.
  Proof.
    induction fs as [|f r IH]; intros bs fs'; cbn [take_key].
    - intros [= <- <-] _ _. reflexivity.
    - destruct (take_key k r) as [bs0 r'] eqn:E. intros H W Hge.
      inversion W as [|? ? Wf Wr]; subst.
      assert (I1 : length bs0 = kcount k r) by (eapply IH; [reflexivity|exact Wr|]; intros f0 g0 Hf0; apply Hge; right; exact Hf0).
      destruct f as [|g f'].
      + inversion H; subst. cbn [kcount]. exact I1.
      + destruct Wf as [Sk Wg].
        assert (Htail : forall g', In g' f' -> gkey g' <> k).
        { intros g' Hg'. pose proof (skeys_tail_gt g f' Sk g' Hg').
          pose proof (Hge (g :: f') g (or_introl eq_refl) (or_introl eq_refl)). lia. }
        cbn [kcount]. rewrite fcount_cons, (fcount_none k f' Htail).
        destruct (N.eqb_spec (gkey g) k) as [Ek|Ek]; inversion H; subst.
        * rewrite app_length. unfold gblocks. rewrite map_length. lia.
        * lia.
  Qed.

  Lemma keys_ge_min (fs : list file) k : Forall fwf fs -> min_key fs = Some k -> keys_ge k fs.
  Proof.
    intros W Hm f g Hf Hg. pose proof (min_key_lb fs k Hm) as Hlb.
    destruct f as [|g0 f']; [destruct Hg|]. specialize (Hlb _ _ _ Hf eq_refl).
    destruct Hg as [<-|Hg]; [exact Hlb|].
    rewrite Forall_forall in W. destruct (W _ Hf) as [Sk _].
    pose proof (skeys_tail_gt g0 f' Sk g Hg). lia.
  Qed.

  Lemma seq_points_none {A} k (sq : list (N * A)) : (forall e, In e sq -> fst e <> k) -> seq_points k sq = [].
  Proof.
    intro H. unfold seq_points. induction sq as [|e r IH]; [reflexivity|]. cbn.
    destruct (N.eqb_spec (fst e) k) as [E|_]; [exfalso; apply (H e); [left; reflexivity|exact E]|].
    apply IH. intros e0 He0. apply H. right. exact He0.
  Qed.

  Lemma min_key_fold_none : forall (fs : list file) acc,
    fold_left mk_step fs acc = None -> acc = None /\ Forall (fun f => f = []) fs.
  Proof.
    induction fs as [|f r IH]; intros acc H; cbn [fold_left] in H; [auto|].
    apply IH in H as [H1 H2]. destruct f as [|g f']; cbn in H1.
    - auto.
    - destruct acc as [a|]; [destruct (gkey g <? a)%N|]; discriminate.
  Qed.

  Lemma content_spec_empty k (fs : list file) : (forall f, In f fs -> file_points k f = []) -> content_spec k fs = [].
  Proof.
    intro H. unfold content_spec.
    assert (E : concat (map (file_points k) fs) = []).
    { induction fs as [|f r IH]; [reflexivity|]. cbn [map concat]. rewrite (H f (or_introl eq_refl)), IH; [reflexivity|].
      intros f0 Hf0. apply H. right. exact Hf0. }
    rewrite E. reflexivity.
  Qed.

  Lemma run_files_content (size : nat) (fast : bool) (Hs : (0 < size)%nat) : forall kfuel (fs : list file) sq,
    Forall fwf fs -> (forall k, (kcount k fs <= 20)%nat) -> run_files kfuel size fast fs = Some sq ->
    forall k, concat (map b_vals (seq_points k sq)) = content_spec k fs /\
              Forall (fun b => wf_blk b = true) (seq_points k sq) /\ ordered (seq_points k sq) = true.
  Proof.
    assert (Hnone : forall fs : list file, min_key fs = None -> forall k, content_spec k fs = []).
    { intros fs Hm k. apply (min_key_fold_none fs None) in Hm as [_ Hm]. apply content_spec_empty.
      intros f Hf. rewrite Forall_forall in Hm. rewrite (Hm f Hf). reflexivity. }
    induction kfuel as [|kf IH]; intros fs sq W Hsm; cbn [run_files].
    - destruct (min_key fs) eqn:Em; [discriminate|]. intros [= <-] k. cbn.
      rewrite (Hnone fs Em k). repeat split; auto.
    - destruct (min_key fs) as [k0|] eqn:Em.
      2:{ intros [= <-] k. cbn. rewrite (Hnone fs Em k). repeat split; auto. }
      destruct (take_key k0 fs) as [bs fs'] eqn:Etk.
      destruct (run_key (key_fuel bs) size fast (mkst bs [] [])) as [out|] eqn:Erk; [|discriminate].
      destruct (run_files kf size fast fs') as [rest|] eqn:Erf; [|discriminate].
      intros [= <-] k.
      pose proof (keys_ge_min fs k0 W Em) as Hge.
      destruct (take_key_spec k0 fs bs fs' Etk W Hge) as [T1 [T2 [T3 [T4 [T5 T6]]]]].
      assert (Hlen : (length bs <= 20)%nat) by (rewrite (take_key_count k0 fs bs fs' Etk W Hge); apply Hsm).
      destruct (run_key_content size fast bs _ out Hs Hlen T4 T5 Erk) as [R1 [R2 R3]].
      assert (Hsm' : forall k, (kcount k fs' <= 20)%nat)
        by (intro k1; pose proof (take_key_count_le k0 fs bs fs' Etk k1); specialize (Hsm k1); lia).
      specialize (IH fs' rest T6 Hsm' Erf).
      rewrite seq_points_app.
      destruct (N.eq_dec k0 k) as [<-|Hne].
      + (* the key just written: nothing of it is left in the files *)
        rewrite seq_points_pair_same.
        assert (Hrest : seq_points k0 rest = []).
        { apply seq_points_none. intros e He.
          assert (Hs' : Forall skeys fs') by (eapply Forall_impl; [|exact T6]; intros f Hf; apply Hf).
          assert (Hs0 : Forall skeys fs) by (eapply Forall_impl; [|exact W]; intros f Hf; apply Hf).
          destruct (take_key_props k0 fs bs fs' Etk Hs0 (min_key_lb fs k0 Em)) as [_ Hge'].
          destruct (run_files_sorted size fast kf fs' (N.succ k0) rest Hs' Hge' Erf) as [_ Hlo].
          rewrite Forall_forall in Hlo. specialize (Hlo e He). cbn beta in Hlo. lia. }
        rewrite Hrest, app_nil_r. split; [|split; assumption].
        rewrite R1, T1. reflexivity.
      + rewrite seq_points_pair_other by exact Hne. cbn [app].
        destruct (IH k) as [I1 [I2 I3]]. split; [|split; assumption].
        rewrite I1. unfold content_spec. rewrite (T2 k) by congruence. reflexivity.
  Qed.
  (** boolean form of [fwf], for concrete witnesses *)
  Definition in64_b (p : Z * V) : bool := (MinInt64 <=? tm p) && (tm p <=? MaxInt64).
  Definition fwf_b (f : file) : bool :=
    wf_file f && forallb (fun g : kgroup => forallb (fun rb : rawblk V => forallb in64_b (snd rb)) (snd (fst g))) f.

  Lemma wf_blk_bwf (b : blk) : wf_blk b = true -> (forall p, In p (b_vals b) -> in64_b p = true) -> bwf b.
  Proof.
    unfold wf_blk, wf_block. intros H R.
    apply andb_true_iff in H as [H Hmax]. apply andb_true_iff in H as [H Hmin]. apply andb_true_iff in H as [Hne Hs].
    split.
    - destruct (b_vals b); [discriminate|congruence].
    - apply ssorted_b_spec. exact Hs.
    - lia.
    - lia.
    - intros p Hp. specialize (R p Hp). unfold in64_b in R. lia.
  Qed.

  Lemma fwf_b_spec (f : file) : fwf_b f = true -> fwf f.
  Proof.
    unfold fwf_b, wf_file. intro H. apply andb_true_iff in H as [H R]. apply andb_true_iff in H as [Hk Hg].
    split; [apply strict_keys_spec; exact Hk|].
    intros g Hin. rewrite forallb_forall in Hg, R. specialize (Hg g Hin). specialize (R g Hin).
    unfold wf_group in Hg. apply andb_true_iff in Hg as [_ Hb]. rewrite forallb_forall in Hb.
    apply Forall_forall. intros b Hbin. apply wf_blk_bwf; [apply Hb; exact Hbin|].
    unfold gblocks in Hbin. apply in_map_iff in Hbin as [rb [<- Hrb]]. cbn [b_vals fresh].
    rewrite forallb_forall in R. specialize (R rb Hrb). rewrite forallb_forall in R. exact R.
  Qed.
End Files.
