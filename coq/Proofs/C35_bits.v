(** C35 — bit-level lemmas: the 32-bit sparse encoding of a 64-bit hash ([encodeHash]) keeps
    exactly what the dense registers need: [decodeHash] of it yields the dense index and rho.

    A hash [x < 2^64] is split as [x = (i * 2^q + mid) * 2^39 + lo] with [q = 25 - p],
    [i < 2^p] (the dense index), [mid < 2^q] (the rest of the 25-bit sparse index) and
    [lo < 2^39]; every field extraction of the Go code is computed on that form. *)
From Coq Require Import ZifyBool ZifyNat ZifyN Lia.
From Verif Require Import Base.Prelude Model.C35.
Local Open Scope N_scope.

Ltac Zify.zify_post_hook ::= Z.div_mod_to_equations.

Local Opaque N.pow N.div N.modulo N.mul N.log2 N.size.

(** ** arithmetic helpers *)

Lemma pow2_nz : forall n, 2 ^ n <> 0.
Proof. intro n. apply N.pow_nonzero. discriminate. Qed.

Lemma pow2_pos : forall n, 0 < 2 ^ n.
Proof. intro n. apply N.neq_0_lt_0. apply pow2_nz. Qed.

Lemma lin_bound : forall a b A B, a < A -> b < B -> a * B + b < A * B.
Proof.
  intros a b A B Ha Hb.
  apply N.lt_le_trans with ((a + 1) * B).
  - rewrite N.mul_add_distr_r, N.mul_1_l. apply N.add_lt_mono_l. exact Hb.
  - apply N.mul_le_mono_r. lia.
Qed.

Lemma div_lin : forall a b B, b < B -> (a * B + b) / B = a.
Proof. intros a b B Hb. symmetry. apply (N.div_unique _ _ _ b); [exact Hb | ring]. Qed.

Lemma mod_lin : forall a b B, b < B -> (a * B + b) mod B = b.
Proof. intros a b B Hb. symmetry. apply (N.mod_unique _ _ a); [exact Hb | ring]. Qed.

Lemma log2_lin : forall a b k, 0 < a -> b < 2 ^ k -> N.log2 (a * 2 ^ k + b) = N.log2 a + k.
Proof.
  intros a b k Ha Hb.
  apply N.log2_unique; [lia|].
  destruct (N.log2_spec a Ha) as [L1 L2].
  rewrite <- N.add_succ_l, !N.pow_add_r.
  split.
  - apply N.le_trans with (a * 2 ^ k); [apply N.mul_le_mono_r; exact L1 | lia].
  - apply lin_bound; assumption.
Qed.

Lemma size_pos : forall w, 0 < w -> N.size w = N.log2 w + 1.
Proof. intros w Hw. rewrite N.size_log2 by lia. lia. Qed.

Lemma log2_lt : forall a b, 0 < a -> a < 2 ^ b -> N.log2 a < b.
Proof. intros a b Ha H. apply N.log2_lt_pow2; assumption. Qed.

(** ** the decomposition *)

Definition mk (q i mid lo : N) : N := (i * 2 ^ q + mid) * 2 ^ 39 + lo.

Lemma mk_alt : forall q i mid lo,
  mk q i mid lo = i * (2 ^ q * 2 ^ 39) + (mid * 2 ^ 39 + lo).
Proof. intros. unfold mk. ring. Qed.

Lemma hi_lt : forall p q i mid, p + q = 25 -> i < 2 ^ p -> mid < 2 ^ q ->
  i * 2 ^ q + mid < 2 ^ 25.
Proof.
  intros p q i mid Hpq Hi Hmid. rewrite <- Hpq, N.pow_add_r. apply lin_bound; assumption.
Qed.

Lemma mk_split : forall p x, 4 <= p -> p <= 18 -> x < two64 ->
  let q := 25 - p in
  let hi := x / 2 ^ 39 in
  x = mk q (hi / 2 ^ q) (hi mod 2 ^ q) (x mod 2 ^ 39)
  /\ hi / 2 ^ q < 2 ^ p /\ hi mod 2 ^ q < 2 ^ q /\ x mod 2 ^ 39 < 2 ^ 39.
Proof.
  intros p x Hp4 Hp18 Hx q hi.
  assert (Hhi : hi < 2 ^ 25).
  { apply N.div_lt_upper_bound; [apply pow2_nz|].
    rewrite <- N.pow_add_r. change (39 + 25) with 64. exact Hx. }
  repeat split.
  - unfold mk. rewrite (N.mul_comm (hi / 2 ^ q)), <- (N.div_mod' hi (2 ^ q)).
    rewrite N.mul_comm. apply N.div_mod'.
  - apply N.div_lt_upper_bound; [apply pow2_nz|].
    rewrite <- N.pow_add_r. replace (q + p) with 25 by (unfold q; lia). exact Hhi.
  - apply N.mod_lt. apply pow2_nz.
  - apply N.mod_lt. apply pow2_nz.
Qed.

(** ** field extractions on the decomposed form *)

Section Fields.
  Variables p q i mid lo : N.
  Hypothesis Hp4 : 4 <= p.
  Hypothesis Hp18 : p <= 18.
  Hypothesis Hpq : p + q = 25.
  Hypothesis Hi : i < 2 ^ p.
  Hypothesis Hmid : mid < 2 ^ q.
  Hypothesis Hlo : lo < 2 ^ 39.

  Lemma t_lt : mid * 2 ^ 39 + lo < 2 ^ q * 2 ^ 39.
  Proof. apply lin_bound; assumption. Qed.

  Lemma f_idx : bextr (mk q i mid lo) 39 25 = i * 2 ^ q + mid.
  Proof.
    unfold bextr, mk. rewrite div_lin by exact Hlo.
    apply N.mod_small. apply (hi_lt p); assumption.
  Qed.

  Lemma f_mid : bextr (mk q i mid lo) 39 q = mid.
  Proof.
    unfold bextr, mk. rewrite div_lin by exact Hlo. apply mod_lin. exact Hmid.
  Qed.

  Lemma f_lo : bextr (mk q i mid lo) 0 39 = lo.
  Proof.
    unfold bextr, mk. change (2 ^ 0) with 1. rewrite N.div_1_r. apply mod_lin. exact Hlo.
  Qed.

  Lemma dense_index_mk : dense_index p (mk q i mid lo) = i.
  Proof.
    unfold dense_index, bextr. replace (64 - p) with (q + 39) by lia.
    rewrite N.pow_add_r, mk_alt, div_lin by exact t_lt.
    apply N.mod_small. exact Hi.
  Qed.

  Lemma two64_split : two64 = 2 ^ q * 2 ^ 39 * 2 ^ p.
  Proof.
    rewrite <- !N.pow_add_r. replace (q + 39 + p) with 64 by lia. reflexivity.
  Qed.

  Lemma shl_mk : (mk q i mid lo * 2 ^ p) mod two64 = (mid * 2 ^ 39 + lo) * 2 ^ p.
  Proof.
    rewrite two64_split.
    rewrite N.mul_mod_distr_r by (try apply pow2_nz; apply N.neq_mul_0; split; apply pow2_nz).
    f_equal. rewrite mk_alt. apply mod_lin. exact t_lt.
  Qed.

  Lemma half_lt : 2 ^ (p - 1) < 2 ^ p.
  Proof. apply N.pow_lt_mono_r; lia. Qed.

  (** dense rho *)
  Lemma dense_rho_mk_zero : mid = 0 -> lo = 0 -> dense_rho p (mk q i mid lo) = 65 - p.
  Proof.
    intros Em El. unfold dense_rho. rewrite shl_mk. rewrite Em, El.
    replace ((0 * 2 ^ 39 + 0) * 2 ^ p + 2 ^ (p - 1)) with (2 ^ (p - 1)) by lia.
    unfold clz64. rewrite size_pos by apply pow2_pos.
    rewrite N.log2_pow2 by lia. lia.
  Qed.

  Lemma dense_rho_mk_pos : 0 < mid * 2 ^ 39 + lo ->
    dense_rho p (mk q i mid lo) = 64 - (N.log2 (mid * 2 ^ 39 + lo) + p + 1) + 1
    /\ N.log2 (mid * 2 ^ 39 + lo) < q + 39.
  Proof.
    intros Ht. unfold dense_rho. rewrite shl_mk.
    set (t := mid * 2 ^ 39 + lo) in *.
    assert (Hw : 0 < t * 2 ^ p + 2 ^ (p - 1)) by (pose proof (pow2_pos (p - 1)); lia).
    unfold clz64. rewrite size_pos by exact Hw.
    rewrite log2_lin by (try exact Ht; exact half_lt).
    split; [lia|].
    apply log2_lt; [exact Ht|]. rewrite N.pow_add_r. exact t_lt.
  Qed.

  (** [encodeHash] *)
  Definition zeros_of (lo : N) : N := clz64 (lo * 2 ^ 25 + (2 ^ 25 - 1)) + 1.

  Lemma encode_mk :
    encode_hash p (mk q i mid lo) =
    if mid =? 0 then (i * 2 ^ q + mid) * 128 + zeros_of lo * 2 + 1 else (i * 2 ^ q + mid) * 2.
  Proof.
    unfold encode_hash, PP. cbv zeta. change (64 - 25) with 39.
    replace (25 - p) with q by lia.
    rewrite f_idx, f_mid, f_lo. reflexivity.
  Qed.

  Lemma zeros_zero : zeros_of 0 = 40.
  Proof.
    unfold zeros_of, clz64. rewrite N.mul_0_l, N.add_0_l.
    change (2 ^ 25 - 1) with 33554431.
    vm_compute. reflexivity.
  Qed.

  Lemma zeros_pos : 0 < lo -> zeros_of lo = 39 - N.log2 lo /\ N.log2 lo < 39.
  Proof.
    intros Hl.
    assert (Hlog : N.log2 lo < 39) by (apply log2_lt; assumption).
    split; [|exact Hlog].
    unfold zeros_of, clz64.
    assert (Hb : 2 ^ 25 - 1 < 2 ^ 25) by (pose proof (pow2_pos 25); lia).
    assert (Hv : 0 < lo * 2 ^ 25 + (2 ^ 25 - 1)).
    { pose proof (pow2_pos 25). nia. }
    rewrite size_pos by exact Hv.
    rewrite log2_lin by assumption. lia.
  Qed.

  Lemma zeros_range : 1 <= zeros_of lo <= 40.
  Proof.
    destruct (N.eq_dec lo 0) as [E|E].
    - rewrite E, zeros_zero. lia.
    - destruct zeros_pos as [Hz Hl]; [lia|]. rewrite Hz. lia.
  Qed.

  (** [decodeHash] of an odd key *)
  Lemma decode_odd : forall z, z < 64 -> mid = 0 ->
    decode_hash p ((i * 2 ^ q + mid) * 128 + z * 2 + 1) = (i, z + 25 - p).
  Proof.
    intros z Hz Em. rewrite Em, N.add_0_r.
    set (k := i * 2 ^ q * 128 + z * 2 + 1).
    assert (Hodd : N.odd k = true).
    { replace k with (1 + 2 * (i * 2 ^ q * 64 + z)) by (unfold k; ring).
      rewrite N.odd_add_mul_2. reflexivity. }
    unfold decode_hash, get_index, PP. rewrite Hodd. f_equal.
    - unfold bextr. replace (32 - p) with (q + 7) by lia.
      rewrite N.pow_add_r.
      replace k with (i * (2 ^ q * 2 ^ 7) + (z * 2 + 1))
        by (unfold k; change (2 ^ 7) with 128; ring).
      rewrite div_lin.
      + apply N.mod_small. exact Hi.
      + change (2 ^ 7) with 128. pose proof (pow2_pos q). nia.
    - unfold bextr. change (2 ^ 1) with 2. change (2 ^ 6) with 64.
      replace k with ((i * 2 ^ q * 64 + z) * 2 + 1) by (unfold k; ring).
      rewrite div_lin by lia. rewrite mod_lin by exact Hz. reflexivity.
  Qed.

  (** [decodeHash] of an even key *)
  Lemma decode_even : 0 < mid ->
    decode_hash p ((i * 2 ^ q + mid) * 2) = (i, 32 - (N.log2 mid + 8 + p) + 1)
    /\ N.log2 mid < q.
  Proof.
    intros Hm.
    assert (Hlog : N.log2 mid < q) by (apply log2_lt; assumption).
    split; [|exact Hlog].
    set (hi := i * 2 ^ q + mid).
    assert (Heven : N.odd (hi * 2) = false).
    { rewrite N.odd_mul. change (N.odd 2) with false. apply andb_false_r. }
    unfold decode_hash, get_index, PP. rewrite Heven. f_equal.
    - unfold bextr. replace (25 - p + 1) with (q + 1) by lia.
      rewrite N.pow_add_r. change (2 ^ 1) with 2.
      rewrite N.div_mul_cancel_r by (try apply pow2_nz; discriminate).
      unfold hi. rewrite div_lin by exact Hmid. apply N.mod_small. exact Hi.
    - replace (32 - 25 + p - 1) with (p + 6) by lia.
      assert (E32 : two32 = 2 ^ q * 2 ^ (p + 7)).
      { rewrite <- N.pow_add_r. replace (q + (p + 7)) with 32 by lia. reflexivity. }
      assert (Ek : hi * 2 * 2 ^ (p + 6) = hi * 2 ^ (p + 7)).
      { replace (p + 7) with (p + 6 + 1) by lia. rewrite (N.pow_add_r 2 (p + 6) 1).
        change (2 ^ 1) with 2. ring. }
      rewrite Ek, E32.
      rewrite N.mul_mod_distr_r by apply pow2_nz.
      unfold hi. rewrite mod_lin by exact Hmid.
      unfold clz32.
      assert (Hv : 0 < mid * 2 ^ (p + 7)) by (pose proof (pow2_pos (p + 7)); nia).
      rewrite size_pos by exact Hv.
      rewrite N.log2_mul_pow2 by lia. lia.
  Qed.

  (** the round trip on the decomposed form *)
  Lemma decode_encode_mk :
    decode_hash p (encode_hash p (mk q i mid lo))
    = (dense_index p (mk q i mid lo), dense_rho p (mk q i mid lo)).
  Proof.
    rewrite encode_mk, dense_index_mk.
    destruct (mid =? 0) eqn:Em.
    - apply N.eqb_eq in Em.
      pose proof zeros_range as Hzr.
      rewrite decode_odd by (try exact Em; lia).
      f_equal.
      destruct (N.eq_dec lo 0) as [El|El].
      + rewrite dense_rho_mk_zero by assumption.
        rewrite El, zeros_zero. lia.
      + destruct zeros_pos as [Hz Hl]; [lia|].
        destruct dense_rho_mk_pos as [Hr _]; [lia|].
        rewrite Hr, Hz. rewrite Em, N.mul_0_l, N.add_0_l. lia.
    - apply N.eqb_neq in Em.
      destruct decode_even as [Hd Hl]; [lia|].
      rewrite Hd. f_equal.
      destruct dense_rho_mk_pos as [Hr _]; [pose proof (pow2_pos 39); nia|].
      rewrite Hr. rewrite log2_lin by (try exact Hlo; lia). lia.
  Qed.

  Lemma encode_mk_lt : encode_hash p (mk q i mid lo) < two32.
  Proof.
    rewrite encode_mk.
    pose proof (hi_lt p q i mid Hpq Hi Hmid) as Hhi.
    pose proof zeros_range as Hzr.
    change (2 ^ 25) with 33554432 in Hhi. unfold two32.
    destruct (mid =? 0); lia.
  Qed.
End Fields.

(** ** the lemmas on arbitrary 64-bit hashes *)

Lemma decode_encode : forall p x, 4 <= p -> p <= 18 -> x < two64 ->
  decode_hash p (encode_hash p x) = (dense_index p x, dense_rho p x).
Proof.
  intros p x Hp4 Hp18 Hx.
  destruct (mk_split p x Hp4 Hp18 Hx) as (Ex & Hi & Hmid & Hlo).
  rewrite Ex. apply decode_encode_mk; try assumption. lia.
Qed.

Lemma encode_lt : forall p x, 4 <= p -> p <= 18 -> x < two64 -> encode_hash p x < two32.
Proof.
  intros p x Hp4 Hp18 Hx.
  destruct (mk_split p x Hp4 Hp18 Hx) as (Ex & Hi & Hmid & Hlo).
  rewrite Ex. apply encode_mk_lt; try assumption. lia.
Qed.

Lemma dense_index_lt : forall p x, 4 <= p -> p <= 18 -> x < two64 -> dense_index p x < 2 ^ p.
Proof.
  intros p x _ _ _. unfold dense_index, bextr. apply N.mod_lt. apply pow2_nz.
Qed.

Lemma get_index_lt : forall p k, get_index p k < 2 ^ p.
Proof.
  intros p k. unfold get_index, bextr.
  destruct (N.odd k); apply N.mod_lt; apply pow2_nz.
Qed.

Lemma decode_index_lt : forall p k, 4 <= p -> p <= 18 -> k < two32 ->
  fst (decode_hash p k) < 2 ^ p.
Proof. intros p k _ _ _. unfold decode_hash. cbn [fst]. apply get_index_lt. Qed.

Lemma dense_rho_pos : forall p x, 1 <= dense_rho p x.
Proof. intros p x. unfold dense_rho. lia. Qed.

Lemma decode_rho_pos : forall p k, 4 <= p -> p <= 18 -> 1 <= snd (decode_hash p k).
Proof.
  intros p k _ Hp18. unfold decode_hash. cbn [snd]. destruct (N.odd k).
  - unfold PP, bextr. lia.
  - lia.
Qed.

(** the dense rho is at most [64 - p + 1] *)
Lemma dense_rho_le : forall p x, 1 <= p -> p <= 64 -> dense_rho p x <= 65 - p.
Proof.
  intros p x Hp1 Hp64. unfold dense_rho, clz64.
  set (w := (x * 2 ^ p) mod two64 + 2 ^ (p - 1)).
  assert (Hw : 2 ^ (p - 1) <= w) by (unfold w; lia).
  assert (Hw0 : 0 < w) by (pose proof (pow2_pos (p - 1)); lia).
  rewrite size_pos by exact Hw0.
  pose proof (N.log2_le_mono _ _ Hw) as Hl. rewrite N.log2_pow2 in Hl by lia. lia.
Qed.

Lemma dense_rho_range : forall p x, 4 <= p -> p <= 18 -> 1 <= dense_rho p x <= 65 - p.
Proof.
  intros p x Hp4 Hp18. split; [apply dense_rho_pos | apply dense_rho_le; lia].
Qed.

(** no uint8 overflow in [decodeHash]'s rho *)
Lemma decode_rho_le : forall p k, 4 <= p -> p <= 18 -> snd (decode_hash p k) <= 84.
Proof.
  intros p k Hp4 Hp18. unfold decode_hash. cbn [snd]. destruct (N.odd k).
  - unfold PP, bextr. change (2 ^ 6) with 64. lia.
  - unfold clz32. lia.
Qed.

Lemma get_index_encode : forall p x, 4 <= p -> p <= 18 -> x < two64 ->
  get_index p (encode_hash p x) = dense_index p x.
Proof.
  intros p x Hp4 Hp18 Hx. pose proof (decode_encode p x Hp4 Hp18 Hx) as H.
  apply (f_equal fst) in H. exact H.
Qed.

Lemma decode_rho_encode : forall p x, 4 <= p -> p <= 18 -> x < two64 ->
  snd (decode_hash p (encode_hash p x)) = dense_rho p x.
Proof.
  intros p x Hp4 Hp18 Hx. rewrite decode_encode by assumption. reflexivity.
Qed.

(** [reg_update_key] on an encoded hash is the dense register update *)
Lemma reg_update_key_encode : forall p d x, 4 <= p -> p <= 18 -> x < two64 ->
  reg_update_key p d (encode_hash p x)
  = reg_update d (N.to_nat (dense_index p x)) (dense_rho p x).
Proof.
  intros p d x Hp4 Hp18 Hx. unfold reg_update_key. rewrite decode_encode by assumption.
  reflexivity.
Qed.
