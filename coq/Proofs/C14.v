(** C14 — top-level lemmas: soundness of the boolean state check, any schedule of compaction
    events preserves every answer, characterisation of the tag-value series set, reopen, and the
    refutation witnesses of the full statement. *)
From Verif Require Import Base.Prelude Model.C14 Proofs.C14_sets Proofs.C14_bytes Proofs.C14_compact
  Proofs.C14_merge Proofs.C14_events.
Local Open Scope N_scope.

Lemma aget_in {V} k (l : list (str * V)) x : aget k l = Some x -> In (k, x) l.
Proof.
  induction l as [|[k0 v0] l IH]; cbn [aget]; [discriminate|].
  destruct (str_eqb k k0) eqn:E.
  - apply str_eqb_spec in E. subst. intro H. inversion H. cbn. auto.
  - intro H. cbn. right. apply IH. exact H.
Qed.

Lemma st_okb_ok st : st_okb st = true -> st_ok st.
Proof.
  unfold st_okb. rewrite forallb_forall. intro H. split.
  - intros p Hp f m k x Hf Hk. specialize (H p Hp). rewrite forallb_forall in H.
    specialize (H f Hf). apply andb_true_iff in H as [H _]. unfold file_no_key_tomb in H.
    rewrite forallb_forall in H. apply fkey_some_fmeas in Hk as [mm [Hm Hk]].
    apply aget_in in Hm. apply aget_in in Hk. specialize (H (m, mm) Hm). cbn [snd] in H.
    rewrite forallb_forall in H. specialize (H (k, x) Hk). cbn [snd] in H. apply negb_true_iff in H. exact H.
  - intros p f z Hp Hf Hz. specialize (H p Hp). rewrite forallb_forall in H.
    specialize (H f Hf). apply andb_true_iff in H as [_ H]. rewrite forallb_forall in H.
    apply smem_in. apply H. exact Hz.
Qed.

(** ** events preserve the state condition *)
Lemma splice_no_key_tomb p p' : splice_of p p' -> no_key_tomb (p_files p) -> no_key_tomb (p_files p').
Proof.
  intros [E | (x & run & pre & post & E1 & E2 & R)] NT; [rewrite E; exact NT|].
  rewrite E1. rewrite E2 in NT. intros f m k tk Hf Hk.
  apply in_app_or in Hf as [Hf | [<- | Hf]].
  - apply (NT f m k tk); [apply in_or_app; auto | exact Hk].
  - pose proof (r_key x run R m k) as RK. rewrite Hk in RK. cbn [option_map] in RK.
    destruct (first_some (fun f => fkey f m k) run) as [tk'|] eqn:F; [|discriminate].
    cbn in RK. inversion RK as [E]. rewrite E. apply first_some_in in F as [g [Hg F]].
    apply (NT g m k tk'); [apply in_or_app; right; apply in_or_app; auto | exact F].
  - apply (NT f m k tk); [apply in_or_app; right; apply in_or_app; auto | exact Hk].
Qed.
Lemma splice_ts p p' : splice_of p p' ->
  forall f z, In f (p_files p') -> In z (f_ts f) -> exists g, In g (p_files p) /\ In z (f_ts g).
Proof.
  intros [E | (x & run & pre & post & E1 & E2 & R)] f z Hf Hz; [rewrite E in Hf; eauto|].
  rewrite E1 in Hf. rewrite E2. apply in_app_or in Hf as [Hf | [<- | Hf]].
  - exists f. split; [apply in_or_app; auto | exact Hz].
  - apply (r_ts x run R) in Hz as [g [Hg Hz]]. exists g. split; [apply in_or_app; right; apply in_or_app; auto | exact Hz].
  - exists f. split; [apply in_or_app; right; apply in_or_app; auto | exact Hz].
Qed.

Lemma event_ok st o : is_event o -> st_ok st -> st_ok (step st o).
Proof.
  intros EV [NT TS]. destruct (event_step o EV) as (n & g & _ & E & SP). rewrite E.
  split; cbn [i_parts i_sdel set_parts].
  - intros p Hp. apply in_upd_nth in Hp as [Hp | [b [Hb ->]]]; [apply NT; exact Hp|].
    apply (splice_no_key_tomb b); [apply SP, NT, Hb | apply NT, Hb].
  - intros p f z Hp Hf Hz. apply in_upd_nth in Hp as [Hp | [b [Hb ->]]]; [exact (TS p f z Hp Hf Hz)|].
    destruct (splice_ts b (g b) (SP b (NT b Hb)) f z Hf Hz) as [g0 [Hg0 Hz0]]. exact (TS b g0 z Hb Hg0 Hz0).
Qed.

(** ** any schedule of events preserves every answer *)
Definition same_answers (a b : index) : Prop :=
  (forall m, In m (i_meas a) <-> In m (i_meas b)) /\
  (forall m k, In k (i_keys a m) <-> In k (i_keys b m)) /\
  (forall m k v, In v (i_vals a m k) <-> In v (i_vals b m k)) /\
  (forall m y, In y (i_mseries a m) <-> In y (i_mseries b m)) /\
  (forall m k y, In y (i_kseries a m k) <-> In y (i_kseries b m k)) /\
  (forall m k v y, In y (snd (i_vseries a m k v)) <-> In y (snd (i_vseries b m k v))).

Lemma same_answers_refl a : same_answers a a.
Proof. repeat split; tauto. Qed.
Lemma same_answers_trans a b c : same_answers a b -> same_answers b c -> same_answers a c.
Proof.
  intros (A1 & A2 & A3 & A4 & A5 & A6) (B1 & B2 & B3 & B4 & B5 & B6).
  repeat split; intros.
  all: try (rewrite A1 + rewrite A2 + rewrite A3 + rewrite A4 + rewrite A5 + rewrite A6);
       try (rewrite B1 + rewrite B2 + rewrite B3 + rewrite B4 + rewrite B5 + rewrite B6); try tauto.
  all: try (rewrite <- B1 + rewrite <- B2 + rewrite <- B3 + rewrite <- B4 + rewrite <- B5 + rewrite <- B6);
       try (rewrite <- A1 + rewrite <- A2 + rewrite <- A3 + rewrite <- A4 + rewrite <- A5 + rewrite <- A6); tauto.
Qed.

Theorem one_event st o : is_event o -> st_ok st -> i_cache st = None -> same_answers (step st o) st.
Proof.
  intros EV OK C. repeat split.
  all: try (apply event_meas + apply event_keys + apply event_vals + apply event_mseries + apply event_kseries); try assumption.
  all: try (apply (proj1 (event_vseries st o EV OK m k v y C))).
  all: try (apply (proj2 (event_vseries st o EV OK m k v y C))).
Qed.

Theorem any_schedule evs : forall st, Forall is_event evs -> st_ok st -> i_cache st = None ->
  same_answers (fold_left step evs st) st /\ st_ok (fold_left step evs st).
Proof.
  induction evs as [|o evs IH]; intros st HF OK C; cbn [fold_left].
  - split; [apply same_answers_refl | exact OK].
  - inversion HF as [|? ? Ho Hevs]; subst.
    assert (OK' : st_ok (step st o)) by (apply event_ok; assumption).
    assert (C' : i_cache (step st o) = None) by (rewrite (ev_cache st o Ho); exact C).
    destruct (IH (step st o) Hevs OK' C') as [SA OK2]. split; [|exact OK2].
    eapply same_answers_trans; [exact SA|]. apply one_event; assumption.
Qed.

(** ** the tag-value series set seen by the query layer = ids recorded for the value in some
    file, minus the ids deleted in the series file (tombstone handling of
    FileSet.TagValueSeriesIDIterator is invisible after the series-file filter) *)
Theorem vseries_char st m k v y : i_cache st = None ->
  (forall p f z, In p (i_parts st) -> In f (p_files p) -> In z (f_ts f) -> In z (i_sdel st)) ->
  (In y (snd (i_vseries st m k v)) <->
   not_deleted st y = true /\ exists p f, In p (i_parts st) /\ In f (p_files p) /\ vids_of f m k v y).
Proof.
  intros C TS. rewrite i_vseries_in by exact C. split.
  - intros [ND [p [Hp H]]]. split; [exact ND|]. apply q_vseries_sub in H as [f [Hf H]]. eauto.
  - intros [ND [p [f [Hp [Hf H]]]]]. split; [exact ND|]. exists p. split; [exact Hp|].
    apply q_vseries_sup; [|eauto]. intros g Hg Hin.
    unfold not_deleted in ND. apply andb_true_iff in ND as [ND _]. apply negb_true_iff, smem_false in ND.
    apply ND. exact (TS p g y Hp Hg Hin).
Qed.

(** ** reopen *)
Section Reopen.
  Variable crc : list N -> N.
  Hypothesis crc_range : forall l, crc l < 2 ^ 32.

  (** a log file is rebuilt from its BYTES exactly as it was *)
  Theorem reopen_log_file sf f : Forall wf_entry (f_log f) -> replay sf (f_log f) = f ->
    replay sf (fst (recover crc (enc_log crc (f_log f)))) = f.
  Proof. intros W E. rewrite (recover_roundtrip crc crc_range) by exact W. exact E. Qed.

  Theorem reopen_partition sf maxlog p :
    (forall f, In f (p_files p) -> f_level f = 0 -> replay sf (f_log f) = f) ->
    splice_of p (p_reopen sf maxlog p).
  Proof.
    intro H. unfold p_reopen.
    assert (E : map (fun f => if N.eqb (f_level f) 0 then replay sf (f_log f) else f) (p_files p) = p_files p).
    { rewrite <- (map_id (p_files p)) at 2. apply map_ext_in. intros f Hf.
      destruct (N.eqb (f_level f) 0) eqn:L; [|reflexivity]. apply H; [exact Hf | apply N.eqb_eq; exact L]. }
    rewrite E. cbn [p_files]. destruct (p_files p) as [|a r] eqn:F.
    - right. exists empty_log, [], [], []. cbn.
      split; [reflexivity | split; [exact F | apply replaces_empty]].
    - destruct (N.eqb (f_level a) 0 && N.ltb (log_size a) maxlog); [left; cbn; symmetry; exact F|].
      right. exists empty_log, [], [], (a :: r). cbn.
      split; [reflexivity | split; [exact F | apply replaces_empty]].
  Qed.
End Reopen.

(** ** refutation witnesses of the full statement (replayed on the real index by the driver) *)
Definition m0 : str := [109; 48].
Definition k0 : str := [107; 48].
Definition k1 : str := [107; 49].
Definition v0 : str := [118; 48].
Definition v1 : str := [118; 49].
Definition uni : universe := {| u_ms := [m0]; u_ks := [k0; k1]; u_vs := [v0; v1] |}.

Definition run_hist (parts : nat) (maxlog : N) (ops : list op) : index :=
  fold_left step_settle ops (new_index parts maxlog false).
Definition spec_hist (ops : list op) : spec := fold_left spec_step ops [].
(** the full statement of the property on one history, over the universe [uni] *)
Definition refines_live (st : index) (sp : spec) : bool := oracle uni true false sp (snd (observe uni st)).

(** 1: drop one of two series of a measurement: its tag value stays listed *)
Definition hist_value : list op :=
  [OCreate [(6, (m0, [(k0, v0)]), 0%nat); (14, (m0, [(k0, v1)]), 0%nat)];
   ODropSeries 6 0%nat; ODropIfNone m0; OSfDelete [6]].
Lemma tag_values_refuted :
  let st := run_hist 1 1048576 hist_value in let sp := spec_hist hist_value in
  refines_live st sp = false /\
  str_mem v0 (i_vals st m0 k0) = true /\ str_mem v0 (spec_vals sp true m0 k0) = false /\
  snd (i_vseries st m0 k0 v0) = [].
Proof. vm_compute. repeat split. Qed.

(** 2: drop the measurement's only series (so the measurement is dropped) after a log
    compaction, re-create the measurement with another tag key: the old key is listed again;
    without the compaction (large log) it is not: the answer depends on the schedule *)
Definition hist_keys : list op :=
  [OCreate [(6, (m0, [(k0, v0)]), 0%nat)]; ODropSeries 6 0%nat; ODropIfNone m0; OSfDelete [6];
   OCreate [(7, (m0, [(k1, v1)]), 0%nat)]].
Lemma tag_keys_refuted :
  let st := run_hist 1 5 hist_keys in let sp := spec_hist hist_keys in
  refines_live st sp = false /\
  str_mem k0 (i_keys st m0) = true /\ str_mem k0 (spec_keys sp true m0) = false.
Proof. vm_compute. repeat split. Qed.
Lemma schedule_dependence :
  str_mem k0 (i_keys (run_hist 1 5 hist_keys) m0) = true /\
  str_mem k0 (i_keys (run_hist 1 1048576 hist_keys) m0) = false /\
  refines_live (run_hist 1 1048576 hist_keys) (spec_hist hist_keys) = true.
Proof. vm_compute. repeat split. Qed.

(** 3 (repaired: Partition.DropMeasurement now removes the dropped ids from the partition's series
    id set): the measurement is dropped together with its last series and is no longer listed,
    also after reopen.  Former refutation witness, now a positive example. *)
Definition hist_meas : list op :=
  [OCreate [(6, (m0, [(k0, v0)]), 0%nat)]; ODropMeas m0; OSfDelete [6];
   OCreate [(7, (m0, [(k0, v1)]), 0%nat)]; ODropSeries 7 0%nat; ODropIfNone m0; OSfDelete [7]; OReopen].
Lemma measurement_names_after_drop_measurement :
  let st := run_hist 1 5 hist_meas in let sp := spec_hist hist_meas in
  i_meas st = [] /\ spec_meas sp true = [] /\ i_mseries st m0 = [] /\ i_set st = [] /\
  i_set (run_hist 1 5 (firstn 3 hist_meas)) = [].
Proof. vm_compute. repeat split. Qed.

(** 4: a series dropped from the index whose id stays in the series file (another shard has it)
    is still returned by the measurement and tag-key series iterators from the older file *)
Definition hist_keep : list op :=
  [OCreate [(6, (m0, [(k0, v0)]), 0%nat); (14, (m0, [(k0, v1)]), 0%nat)];
   ODropSeries 6 0%nat; ODropIfNone m0; OSfDelete []].
Lemma kept_id_refuted :
  let st := run_hist 1 5 hist_keep in let sp := spec_hist hist_keep in
  refines_live st sp = false /\
  i_set st = [14] /\ spec_ms sp m0 = [14] /\ i_mseries st m0 = [6; 14] /\ i_kseries st m0 k0 = [6; 14].
Proof. vm_compute. repeat split. Qed.

(** non-vacuity of the compaction theorems: four rolled log files that the policy compacts into one level-3 file; the
    state condition holds *)
Definition hist_nv : list op :=
  [OCreate [(6, (m0, [(k0, v0)]), 0%nat)]; OCreate [(14, (m0, [(k0, v1)]), 0%nat)];
   ODropSeries 6 0%nat; ODropIfNone m0; OSfDelete [6]; OCreate [(7, (m0, [(k1, v1)]), 0%nat)]].
Lemma nonvacuous :
  let st := fold_left step hist_nv (new_index 1 5 false) in
  st_okb st = true /\ shape st = [[0; 0; 0; 0; 0]] /\
  shape (settle st) = [[0; 3]] /\
  i_keys st m0 = [k0; k1] /\ i_keys (settle st) m0 = [k0; k1].
Proof. vm_compute. repeat split. Qed.

(** reopen = rebuild every log file from its bytes, keep the index files, maybe start a new
    empty log: every file comes back as it was and no query answer changes *)
Theorem reopen_identity (crc : list N -> N) (crc_range : forall l, crc l < 2 ^ 32) sf maxlog p :
  (forall f, In f (p_files p) -> f_level f = 0 -> Forall wf_entry (f_log f) /\ replay sf (f_log f) = f) ->
  (forall f, In f (p_files p) -> f_level f = 0 ->
     replay sf (fst (recover crc (enc_log crc (f_log f)))) = f) /\
  let p' := p_reopen sf maxlog p in
  (p_files p' = p_files p \/ p_files p' = empty_log :: p_files p) /\
  (forall m, In m (q_meas (p_files p')) <-> In m (q_meas (p_files p))) /\
  (forall m k, In k (q_keys (p_files p') m) <-> In k (q_keys (p_files p) m)) /\
  (forall m k v, In v (q_vals (p_files p') m k) <-> In v (q_vals (p_files p) m k)) /\
  (forall m y, In y (q_mseries (p_files p') m) <-> In y (q_mseries (p_files p) m)) /\
  (forall m k y, In y (q_kseries (p_files p') m k) <-> In y (q_kseries (p_files p) m k)).
Proof.
  intro H. split.
  - intros f Hf L. destruct (H f Hf L) as [W E]. apply reopen_log_file; assumption.
  - assert (S : splice_of p (p_reopen sf maxlog p)).
    { apply reopen_partition. intros f Hf L. apply (H f Hf L). }
    cbn zeta. split.
    + unfold p_reopen.
      assert (E : map (fun f => if N.eqb (f_level f) 0 then replay sf (f_log f) else f) (p_files p) = p_files p).
      { rewrite <- (map_id (p_files p)) at 2. apply map_ext_in. intros f Hf.
        destruct (N.eqb (f_level f) 0) eqn:L; [|reflexivity]. apply (H f Hf). apply N.eqb_eq. exact L. }
      rewrite E. cbn [p_files]. destruct (p_files p) as [|a r]; [right; reflexivity|].
      destruct (N.eqb (f_level a) 0 && N.ltb (log_size a) maxlog); [left | right]; reflexivity.
    + repeat split; intros.
      all: try (apply (proj1 (sp_meas p _ S m)) + apply (proj2 (sp_meas p _ S m))); try assumption.
      all: try (apply (proj1 (sp_keys p _ S m k)) + apply (proj2 (sp_keys p _ S m k))); try assumption.
      all: try (apply (proj1 (sp_vals p _ S m k v)) + apply (proj2 (sp_vals p _ S m k v))); try assumption.
      all: try (apply (proj1 (sp_mseries p _ S m y)) + apply (proj2 (sp_mseries p _ S m y))); try assumption.
      all: try (apply (proj1 (sp_kseries p _ S m k y)) + apply (proj2 (sp_kseries p _ S m k y))); assumption.
Qed.
