(** C30 — consequences of the invariant: uniqueness, index/record agreement, lookups. *)
From Verif Require Import Base.Prelude Model.C30 Proofs.C30_al Proofs.C30_inv Proofs.C30_step.

Section Reach.
  Variable fx : bool.
  Variable ops : list op.
  Let st := run fx ops.

  Lemma reach_inv : Inv st.
  Proof. apply run_inv. Qed.

  (** names are unique *)
  Lemma org_names_unique id1 id2 n1 n2 :
    getN id1 (s_orgs st) = Some n1 -> getN id2 (s_orgs st) = Some n2 -> trim n1 = trim n2 -> id1 = id2.
  Proof.
    destruct reach_inv as ((Hc & _) & _). intros H1 H2 E.
    apply Hc in H1, H2. rewrite E in H1. congruence.
  Qed.

  Lemma user_names_unique id1 id2 n :
    getN id1 (s_users st) = Some n -> getN id2 (s_users st) = Some n -> id1 = id2.
  Proof.
    destruct reach_inv as (_ & _ & (_ & Hc & _) & _). intros H1 H2.
    apply Hc in H1 as [H1 _], H2 as [H2 _]. congruence.
  Qed.

  Lemma bucket_names_unique id1 id2 b1 b2 :
    getN id1 (s_bkts st) = Some b1 -> getN id2 (s_bkts st) = Some b2 ->
    b_org b1 = b_org b2 -> b_name b1 = b_name b2 -> id1 = id2.
  Proof.
    destruct reach_inv as (_ & (_ & Hc) & _). intros H1 H2 Eo En.
    apply Hc in H1 as [H1 _], H2 as [H2 _]. rewrite Eo, En in H1. congruence.
  Qed.

  (** index <-> record *)
  Lemma bucket_index_sound o n id :
    getP (o, n) (s_bidx st) = Some id ->
    exists b, getN id (s_bkts st) = Some b /\ b_org b = o /\ b_name b = n.
  Proof.
    destruct reach_inv as (_ & (Hs & _) & _). intro H.
    destruct (Hs _ _ H) as (b & Hb & Hk). inversion Hk. eauto.
  Qed.

  Lemma bucket_index_complete id b :
    getN id (s_bkts st) = Some b -> getP (b_org b, b_name b) (s_bidx st) = Some id.
  Proof. destruct reach_inv as (_ & (_ & Hc) & _). intro H. apply Hc in H. tauto. Qed.

  Lemma user_index_sound n id : getN n (s_uidx st) = Some id -> getN id (s_users st) = Some n.
  Proof. destruct reach_inv as (_ & _ & (Hs & _) & _). apply Hs. Qed.

  Lemma user_index_complete id n : getN id (s_users st) = Some n -> getN n (s_uidx st) = Some id.
  Proof. destruct reach_inv as (_ & _ & (_ & Hc & _) & _). intro H. apply Hc in H. tauto. Qed.

  Lemma urm_index_sound u r pk :
    getP (u, r) (s_uix st) = Some pk -> pk = (r, u) /\ exists v, getP (r, u) (s_urms st) = Some v.
  Proof.
    destruct reach_inv as (_ & _ & _ & (Hs & _)). intro H.
    destruct (Hs _ _ H) as [H1 H2]. split; [exact H1|]. apply (has_true nn_eqb) in H2. exact H2.
  Qed.

  Lemma urm_index_complete r u v :
    getP (r, u) (s_urms st) = Some v -> getP (u, r) (s_uix st) = Some (r, u).
  Proof. destruct reach_inv as (_ & _ & _ & (_ & Hc)). intro H. apply Hc in H. tauto. Qed.

  Lemma org_index_complete id n :
    getN id (s_orgs st) = Some n -> getP (trim n) (s_oidx st) = Some id.
  Proof. destruct reach_inv as ((Hc & _) & _). apply Hc. Qed.

  (** an index entry never points to a LIVE organization of another name *)
  Lemma org_index_weakly_sound k id n :
    getP k (s_oidx st) = Some id -> getN id (s_orgs st) = Some n -> trim n = k.
  Proof. destruct reach_inv as ((_ & Hw) & _). intros H. apply (Hw _ _ H). Qed.

  (** name lookups agree with the records *)
  Lemma find_org_spec p id :
    find_org st p = Some id <-> exists n, getN id (s_orgs st) = Some n /\ trim n = trim p.
  Proof.
    destruct reach_inv as ((Hc & Hw) & _). unfold find_org. split.
    - destruct (getP (trim p) (s_oidx st)) as [i|] eqn:E; [|discriminate].
      destruct (hasN i (s_orgs st)) eqn:Eh; [|discriminate]. intro H; inversion H; subst.
      apply (has_true N.eqb) in Eh as [n Hn]. exists n. split; [exact Hn|]. apply (Hw _ _ E). exact Hn.
    - intros (n & Hn & Et). pose proof (Hc _ _ Hn) as Hi. rewrite Et in Hi. rewrite Hi.
      rewrite (get_some_has N.eqb _ _ _ Hn). reflexivity.
  Qed.

  Lemma find_bucket_spec o n id :
    find_bucket st o n = Some id <->
    exists b, getN id (s_bkts st) = Some b /\ b_org b = o /\ b_name b = n.
  Proof.
    destruct reach_inv as (_ & (Hs & Hc) & _). unfold find_bucket. split.
    - destruct (getP (o, n) (s_bidx st)) as [i|] eqn:E; [|discriminate].
      destruct (hasN i (s_bkts st)) eqn:Eh; [|discriminate]. intro H; inversion H; subst.
      destruct (Hs _ _ E) as (b & Hb & Hk). inversion Hk. eauto.
    - intros (b & Hb & <- & <-). destruct (Hc _ _ Hb) as (Hi & _). rewrite Hi.
      rewrite (get_some_has N.eqb _ _ _ Hb). reflexivity.
  Qed.

  Lemma find_user_spec n id : find_user st n = Some id <-> getN id (s_users st) = Some n.
  Proof.
    destruct reach_inv as (_ & _ & (Hs & Hc & _) & _). unfold find_user. split.
    - destruct (getN n (s_uidx st)) as [i|] eqn:E; [|discriminate].
      destruct (hasN i (s_users st)) eqn:Eh; [|discriminate]. intro H; inversion H; subst.
      apply Hs; exact E.
    - intro H. destruct (Hc _ _ H) as [Hi _]. rewrite Hi.
      rewrite (get_some_has N.eqb _ _ _ H). reflexivity.
  Qed.

  (** no orphans *)
  Lemma bucket_org_live id b : getN id (s_bkts st) = Some b -> exists n, getN (b_org b) (s_orgs st) = Some n.
  Proof.
    destruct reach_inv as (_ & (_ & Hc) & _). intro H. destruct (Hc _ _ H) as (_ & Ho & _).
    apply (has_true N.eqb) in Ho. exact Ho.
  Qed.

  Lemma urm_user_live r u v : getP (r, u) (s_urms st) = Some v -> exists n, getN u (s_users st) = Some n.
  Proof.
    destruct reach_inv as (_ & _ & _ & (_ & Hc)). intro H. destruct (Hc _ _ H) as (_ & Hu).
    apply (has_true N.eqb) in Hu. exact Hu.
  Qed.

  Lemma password_user_live id : hasN id (s_pwds st) = true -> exists n, getN id (s_users st) = Some n.
  Proof.
    destruct reach_inv as (_ & _ & (_ & _ & Hp) & _). intro H. apply Hp in H.
    apply (has_true N.eqb) in H. exact H.
  Qed.
End Reach.
