// C14 driver: histories of CreateSeriesListIfNotExists / DropSeries (+ DropMeasurementIfSeriesNotExist
// and the series-file delete, as tsm1.Engine.deleteSeriesRange performs them) / DropMeasurement /
// reopen on a REAL tsi1.Index with a REAL tsdb.SeriesFile in a temp dir, with a tiny maximum log
// file size so that log files roll and are compacted (log -> L1 -> L2 ...) between the steps;
// after every step all compactions are run to quiescence and every metadata query of the
// property is read through tsdb.IndexSet (MeasurementIterator, TagKeyIterator, TagValueIterator,
// Measurement/TagKey/TagValueSeriesIDIterator filtered by the series file's deleted set).
// Crash images: the index directory is copied, the active L0 log of one partition is cut at every
// byte offset inside its last entry, a second real index is opened on the copy and fully read.
// One case = one whole history with its per-step observations; the Coq judge replays it.
package main

import (
	"fmt"
	"os"
	"path/filepath"
	"sort"

	"github.com/influxdata/influxdb/v2/tsdb/index/tsi1"
	"verifh/vh"
)

const sigStaleValue = "tsi-stale-tag-value-after-series-drop"
const sigStaleKeys = "tsi-stale-tag-keys-after-measurement-drop"
const sigKeep = "tsi-dropped-series-visible-while-series-file-keeps-id"

type jstep struct {
	T      string `json:"t"` // create | drop | dropkeep (drop without the series-file delete) | dropmeas | reopen
	Series []int  `json:"series,omitempty"`
	Meas   string `json:"meas,omitempty"`
	// observed
	IDs    []uint64  `json:"impl_ids,omitempty"`
	Shapes [][][]int `json:"impl_shapes,omitempty"` // after every primitive of the step
	Obs    *jobs     `json:"impl_obs,omitempty"`
}
type jcut struct {
	Keep int   `json:"keep"`
	Obs  *jobs `json:"impl_obs"`
}
type jcrash struct {
	Part  int    `json:"part"`
	Size  int    `json:"impl_log_size"`
	Last  int    `json:"impl_last_entry_size"`
	Bytes string `json:"impl_log_bytes_hex"`
	Cuts  []jcut `json:"cuts"`
}
type jcase struct {
	Gen    string    `json:"gen,omitempty"`
	Domain []jseries `json:"domain"`
	PartN  int       `json:"partitions"`
	MaxLog int64     `json:"max_log_file_size"`
	Cache  int       `json:"series_id_cache_size"`
	Strict bool      `json:"strict_oracle,omitempty"`
	Sig    string    `json:"sig,omitempty"`
	Steps  []jstep   `json:"steps"`
	Crash  bool      `json:"crash,omitempty"`
	CrashR *jcrash   `json:"impl_crash,omitempty"`
}

// ---- Gallina rendering ----

func strT(s string) string { return vh.Bytes([]byte(s)) }
func strsT(ss []string) string {
	xs := make([]string, len(ss))
	for i, s := range ss {
		xs[i] = strT(s)
	}
	return vh.List(xs)
}
func tagsT(s jseries) string {
	xs := make([]string, len(s.Tags))
	for i, t := range s.Tags {
		xs[i] = vh.Pair(strT(t[0]), strT(t[1]))
	}
	return vh.List(xs)
}
func obsT(o *jobs) string {
	var keys, vals, ms, ks, vs []string
	for _, m := range measNames {
		keys = append(keys, strsT(o.Keys[m]))
		ms = append(ms, vh.Ns(o.MSeries[m]))
		for _, k := range keyNames {
			vals = append(vals, strsT(o.Vals[m+"/"+k]))
			ks = append(ks, vh.Ns(o.KSeries[m+"/"+k]))
			for _, v := range valNames {
				vs = append(vs, vh.Ns(o.VSeries[m+"/"+k+"/"+v]))
			}
		}
	}
	return fmt.Sprintf("{| o_meas := %s; o_keys := %s; o_vals := %s; o_ms := %s; o_ks := %s; o_vs := %s; o_set := %s |}",
		strsT(o.Meas), vh.List(keys), vh.List(vals), vh.List(ms), vh.List(ks), vh.List(vs), vh.Ns(o.Set))
}
func shapeT(sh [][]int) string {
	xs := make([]string, len(sh))
	for i, l := range sh {
		u := make([]uint64, len(l))
		for j, v := range l {
			u[j] = uint64(v)
		}
		xs[i] = vh.Ns(u)
	}
	return vh.List(xs)
}
func stepT(op string, sh [][]int, o *jobs) string {
	ot := "None"
	if o != nil {
		ot = vh.Some(obsT(o))
	}
	return fmt.Sprintf("{| s_op := %s; s_obs := %s; s_shape := %s |}", op, ot, shapeT(sh))
}

// ---- running one case on the real code ----

type runner struct {
	e     *env
	c     *jcase
	live  map[int]uint64 // domain index -> id of the live series
	terms []string
	err   error
}

func (r *runner) prim(op string, st *jstep, o *jobs) {
	sh, err := shape(r.e.idx, r.e.partN)
	if err != nil && r.err == nil {
		r.err = err
	}
	st.Shapes = append(st.Shapes, sh)
	r.terms = append(r.terms, stepT(op, sh, o))
}

func (r *runner) step(st *jstep) error {
	e := r.e
	st.Shapes, st.IDs, st.Obs = nil, nil, nil
	switch st.T {
	case "create":
		batch := make([]jseries, len(st.Series))
		for i, d := range st.Series {
			batch[i] = r.c.Domain[d]
		}
		ids, err := e.create(batch)
		if err != nil {
			return err
		}
		st.IDs = ids
		xs := make([]string, len(batch))
		for i, s := range batch {
			if old, ok := r.live[st.Series[i]]; ok && old != ids[i] {
				return fmt.Errorf("series file changed the id of live series %s: %d -> %d", s, old, ids[i])
			}
			r.live[st.Series[i]] = ids[i]
			xs[i] = fmt.Sprintf("(%s, (%s, %s), %s)", vh.N(ids[i]), strT(s.Name), tagsT(s), vh.Nat(e.partitionOf(s)))
		}
		obs, err := observe(e.idx, e.sfile)
		if err != nil {
			return err
		}
		st.Obs = obs
		r.prim("OCreate "+vh.List(xs), st, obs)
	case "drop", "dropkeep":
		names := map[string]bool{}
		var ids []uint64
		for _, d := range st.Series {
			id, ok := r.live[d]
			if !ok {
				continue
			}
			s := r.c.Domain[d]
			if err := e.dropSeries(id, s); err != nil {
				return err
			}
			delete(r.live, d)
			names[s.Name] = true
			ids = append(ids, id)
			r.prim(fmt.Sprintf("ODropSeries %s %s", vh.N(id), vh.Nat(e.partitionOf(s))), st, nil)
		}
		for _, n := range vh.SortedKeys(names) { // the engine ranges over a map; fixed order here
			if _, err := e.dropMeasIfNone(n); err != nil {
				return err
			}
			r.prim("ODropIfNone "+strT(n), st, nil)
		}
		// "dropkeep": another shard still has the series, the engine leaves the series file alone
		del := ids
		if st.T == "dropkeep" {
			del = nil
		}
		if err := e.sfDelete(del); err != nil {
			return err
		}
		obs, err := observe(e.idx, e.sfile)
		if err != nil {
			return err
		}
		st.Obs, st.IDs = obs, ids
		r.prim("OSfDelete "+vh.Ns(del), st, obs)
	case "dropmeas":
		if err := e.dropMeas(st.Meas); err != nil {
			return err
		}
		r.prim("ODropMeas "+strT(st.Meas), st, nil)
		var ids []uint64
		var ds []int
		for d := range r.live {
			ds = append(ds, d)
		}
		sort.Ints(ds)
		for _, d := range ds {
			if r.c.Domain[d].Name == st.Meas {
				ids = append(ids, r.live[d])
				delete(r.live, d)
			}
		}
		if err := e.sfDelete(ids); err != nil {
			return err
		}
		obs, err := observe(e.idx, e.sfile)
		if err != nil {
			return err
		}
		st.Obs, st.IDs = obs, ids
		r.prim("OSfDelete "+vh.Ns(ids), st, obs)
	case "reopen":
		if err := e.reopen(); err != nil {
			return err
		}
		obs, err := observe(e.idx, e.sfile)
		if err != nil {
			return err
		}
		st.Obs = obs
		r.prim("OReopen", st, obs)
	default:
		return fmt.Errorf("unknown step %q", st.T)
	}
	return r.err
}

// crash images of the active log of one partition
func (r *runner) crash() (*jcrash, string, error) {
	e := r.e
	part, size := -1, 0
	for p := 0; p < int(e.partN); p++ {
		path, err := activeLogPath(e.idx, p)
		if err != nil {
			return nil, "", err
		}
		fi, err := os.Stat(path)
		if err != nil {
			return nil, "", err
		}
		if int(fi.Size()) > size {
			part, size = p, int(fi.Size())
		}
	}
	if part < 0 {
		return nil, "None", nil
	}
	path, _ := activeLogPath(e.idx, part)
	data, err := os.ReadFile(path)
	if err != nil {
		return nil, "", err
	}
	last := 0
	for buf := data; len(buf) > 0; {
		var le tsi1.LogEntry
		if err := le.UnmarshalBinary(buf); err != nil {
			return nil, "", fmt.Errorf("active log of a cleanly running index does not parse: %v", err)
		}
		last = le.Size
		buf = buf[le.Size:]
	}
	cr := &jcrash{Part: part, Size: size, Last: last}
	rel, _ := filepath.Rel(e.idx.Path(), path)
	var cuts []string
	for keep := size - last; keep <= size; keep++ {
		img, err := os.MkdirTemp(e.root, "img-")
		if err != nil {
			return nil, "", err
		}
		if err := copyDir(e.idx.Path(), img); err != nil {
			return nil, "", err
		}
		if err := os.Truncate(filepath.Join(img, rel), int64(keep)); err != nil {
			return nil, "", err
		}
		idx2 := e.newIndex(img)
		if err := idx2.Open(); err != nil {
			return nil, "", fmt.Errorf("index does not open on the crash image (log cut to %d of %d bytes): %v", keep, size, err)
		}
		if err := quiesce(idx2, e.partN); err != nil {
			return nil, "", err
		}
		obs, err := observe(idx2, e.sfile)
		idx2.Close()
		os.RemoveAll(img)
		if err != nil {
			return nil, "", err
		}
		cr.Cuts = append(cr.Cuts, jcut{Keep: keep, Obs: obs})
		cuts = append(cuts, vh.Pair(vh.Nat(keep), obsT(obs)))
	}
	cr.Bytes = fmt.Sprintf("%x", data)
	t := fmt.Sprintf("(Some {| cr_part := %s; cr_size := %s; cr_last := %s; cr_bytes := %s; cr_cuts := %s |})",
		vh.Nat(part), vh.N(uint64(size)), vh.Nat(last), vh.Bytes(data), vh.List(cuts))
	return cr, t, nil
}

func run(w *vh.W, c *jcase) {
	idx := w.Len()
	var term string
	var nontrivial bool
	fail := ""
	p := vh.Guard(func() {
		e, err := newEnv("", uint64(c.PartN), c.MaxLog, c.Cache)
		if err != nil {
			fmt.Fprintln(os.Stderr, "driver error:", err)
			os.Exit(3)
		}
		defer e.close()
		r := &runner{e: e, c: c, live: map[int]uint64{}}
		for i := range c.Steps {
			if err := r.step(&c.Steps[i]); err != nil {
				fail = fmt.Sprintf("step %d (%s): %v", i, c.Steps[i].T, err)
				return
			}
		}
		ct := "None"
		if c.Crash {
			cr, t, err := r.crash()
			if err != nil {
				fail = "crash image: " + err.Error()
				return
			}
			c.CrashR, ct = cr, t
		}
		maxLevel := 0
		for _, st := range c.Steps {
			for _, sh := range st.Shapes {
				for _, l := range sh {
					for _, v := range l {
						if v > maxLevel {
							maxLevel = v
						}
					}
				}
			}
		}
		nontrivial = maxLevel >= 1
		w.Count("max_level", fmt.Sprint(maxLevel))
		keep := false
		for _, st := range c.Steps {
			if st.T == "dropkeep" {
				keep = true
			}
		}
		w.Count("keeps_series_file_id", fmt.Sprint(keep))
		term = fmt.Sprintf("{| c_univ := {| u_ms := %s; u_ks := %s; u_vs := %s |}; c_parts := %s; c_maxlog := %s; c_cache := %s; c_strict := %s; c_keep := %s; c_steps := %s; c_crash := %s |}",
			strsT(measNames), strsT(keyNames), strsT(valNames), vh.Nat(c.PartN), vh.N(uint64(c.MaxLog)), vh.Bool(c.Cache > 0),
			vh.Bool(c.Strict), vh.Bool(keep), vh.List(r.terms), ct)
	})
	if p != "" {
		fail = "panic: " + p
	}
	if fail != "" {
		// a case the judge accepts trivially, plus the failure itself
		term = fmt.Sprintf("{| c_univ := {| u_ms := []; u_ks := []; u_vs := [] |}; c_parts := 1%%nat; c_maxlog := 1%%N; c_cache := false; c_strict := false; c_keep := false; c_steps := []; c_crash := None |} (* case %d failed on the implementation *)", idx)
		w.Add(term, c, true, c.Sig)
		w.Fail(idx, fail, c.Sig)
		return
	}
	w.Add(term, c, nontrivial, c.Sig)
	w.Count("partitions", fmt.Sprint(c.PartN))
	w.Count("max_log", fmt.Sprint(c.MaxLog))
	w.Count("cache", fmt.Sprint(c.Cache > 0))
	w.Count("crash", fmt.Sprint(c.Crash))
	w.Count("steps", fmt.Sprint(len(c.Steps)))
	for _, st := range c.Steps {
		w.Count("op", st.T)
	}
}

// ---- generation ----

func s(name string, kv ...string) jseries {
	j := jseries{Name: name}
	for i := 0; i+1 < len(kv); i += 2 {
		j.Tags = append(j.Tags, [2]string{kv[i], kv[i+1]})
	}
	return j
}

func corpus() []*jcase {
	var out []*jcase
	// known finding 1: a tag value stays listed after its only series was dropped
	out = append(out, &jcase{Gen: "corpus:stale-value", Strict: true, Sig: sigStaleValue,
		Domain: []jseries{s("m0", "k0", "v0"), s("m0", "k0", "v1")}, PartN: 1, MaxLog: 1 << 20, Cache: 0,
		Steps: []jstep{{T: "create", Series: []int{0, 1}}, {T: "drop", Series: []int{0}}, {T: "reopen"}}})
	// known finding 2: the tag keys/values of a dropped measurement survive in older index files
	// (the measurement tombstone wipes the key tombstones of its own log file) and are listed again
	// when the measurement is re-created
	out = append(out, &jcase{Gen: "corpus:stale-keys", Strict: true, Sig: sigStaleKeys,
		Domain: []jseries{s("m0", "k0", "v0"), s("m0", "k1", "v1")}, PartN: 1, MaxLog: 5, Cache: 0,
		Steps: []jstep{{T: "create", Series: []int{0}}, {T: "drop", Series: []int{0}}, {T: "create", Series: []int{1}}}})
	// former finding (repaired in partition.go): Index.DropMeasurement left the partition's series id
	// set stale, so the measurement was not dropped when its later series were all dropped
	out = append(out, &jcase{Gen: "corpus:stale-seriesidset",
		Domain: []jseries{s("m0", "k0", "v0"), s("m0", "k0", "v1")}, PartN: 1, MaxLog: 5, Cache: 0,
		Steps: []jstep{{T: "create", Series: []int{0}}, {T: "dropmeas", Meas: "m0"}, {T: "create", Series: []int{1}},
			{T: "drop", Series: []int{1}}, {T: "reopen"}}})
	// a series created and dropped inside one log file, reopen (the partition's series id set is
	// rebuilt from the files' existence/tombstone bitmaps), the same key created again
	for _, ml := range []int64{1 << 20, 40} {
		out = append(out, &jcase{Gen: "corpus:create-drop-one-log-reopen", Domain: []jseries{s("m0", "k0", "v0"), s("m0", "k0", "v1"), s("m1", "k1", "v2")},
			PartN: 1, MaxLog: ml, Cache: 0,
			Steps: []jstep{{T: "create", Series: []int{0, 1}}, {T: "drop", Series: []int{0}}, {T: "reopen"}, {T: "create", Series: []int{0, 2}}, {T: "reopen"}}})
		out = append(out, &jcase{Gen: "corpus:create-dropkeep-one-log-reopen", Sig: sigKeep, Domain: []jseries{s("m0", "k0", "v0"), s("m0", "k0", "v1"), s("m1", "k1", "v2")},
			PartN: 1, MaxLog: ml, Cache: 0,
			Steps: []jstep{{T: "create", Series: []int{0, 1}}, {T: "dropkeep", Series: []int{0}}, {T: "reopen"}, {T: "create", Series: []int{0, 2}}, {T: "reopen"},
				{T: "create", Series: []int{0}}}})
	}
	// a series dropped from the index only (the series file keeps its id), that log compacted, the
	// same key (same id) created again, that log compacted, the index files merged level by level:
	// the merged file must not keep the older tombstone of the re-created series
	for _, pn := range []int{1, 2} {
		out = append(out, &jcase{Gen: "corpus:dropkeep-recreate-merge", Sig: sigKeep, Domain: []jseries{s("m0", "k0", "v0"), s("m0", "k0", "v1"), s("m0", "k1", "v2"), s("m1", "k0", "v0")},
			PartN: pn, MaxLog: 5, Cache: 0, Crash: pn == 1,
			Steps: []jstep{{T: "create", Series: []int{0, 1}}, {T: "dropkeep", Series: []int{0}}, {T: "create", Series: []int{0}}, {T: "create", Series: []int{2}},
				{T: "create", Series: []int{3}}, {T: "reopen"}, {T: "dropkeep", Series: []int{1}}, {T: "create", Series: []int{1}}, {T: "drop", Series: []int{3}}, {T: "create", Series: []int{3}}}})
	}
	// a history on which a late background Compact() once rolled the log in the middle of
	// Partition.DropMeasurement (driver timing, see quiesce): many rolls and merges up to L4
	out = append(out, &jcase{Gen: "corpus:deep-merges", Domain: []jseries{s("m1", "k0", "v0", "k1", "v0"), s("m2", "k0", "v0"), s("m0", "k0", "v2"),
		s("m2", "k0", "v1", "k1", "v0"), s("m0", "k0", "v2", "k1", "v1"), s("m0", "k0", "v0"), s("m0", "k1", "v0"), s("m1")},
		PartN: 1, MaxLog: 12, Cache: 0,
		Steps: []jstep{{T: "create", Series: []int{5, 1}}, {T: "create", Series: []int{4, 6, 3}}, {T: "create", Series: []int{6}}, {T: "dropmeas", Meas: "m2"},
			{T: "drop", Series: []int{6}}, {T: "drop", Series: []int{4}}, {T: "reopen"}, {T: "drop", Series: []int{5}}, {T: "create", Series: []int{3, 3}}, {T: "drop", Series: []int{3}}}})
	// the same histories under the weak oracle must be clean, also with the cache and 8 partitions
	for _, pn := range []int{1, 8} {
		for _, cache := range []int{0, 100} {
			out = append(out, &jcase{Gen: "corpus:mixed", Domain: []jseries{s("m0", "k0", "v0"), s("m0", "k0", "v1"), s("m1", "k0", "v0", "k1", "v2"), s("m0")},
				PartN: pn, MaxLog: 12, Cache: cache, Crash: true,
				Steps: []jstep{{T: "create", Series: []int{0, 1, 2, 3}}, {T: "drop", Series: []int{0}}, {T: "reopen"}, {T: "dropmeas", Meas: "m0"},
					{T: "create", Series: []int{1, 0}}, {T: "drop", Series: []int{1, 2}}}})
		}
	}
	return out
}

func genCase(w *vh.W) *jcase {
	r := w.Rng
	c := &jcase{Gen: "random"}
	c.PartN = []int{1, 1, 1, 2, 8}[r.IntN(5)]
	c.MaxLog = []int64{5, 5, 12, 24, 40, 80, 1 << 20}[r.IntN(7)]
	c.Cache = []int{0, 0, 100}[r.IntN(3)]
	c.Crash = r.IntN(3) == 0
	// domain: 5-8 series, dense in names and tag pairs
	nd := 5 + r.IntN(4)
	seen := map[string]bool{}
	for len(c.Domain) < nd {
		js := jseries{Name: measNames[[]int{0, 0, 0, 1, 1, 2}[r.IntN(6)]]}
		for _, k := range keyNames {
			if r.IntN(4) != 0 {
				js.Tags = append(js.Tags, [2]string{k, valNames[[]int{0, 0, 1, 2}[r.IntN(4)]]})
			}
		}
		if !seen[js.String()] {
			seen[js.String()] = true
			c.Domain = append(c.Domain, js)
		}
	}
	live := map[int]bool{}
	keepMode := r.IntN(4) == 0 // some drops leave the id in the series file (another shard has the series)
	n := 5 + r.IntN(8)
	for i := 0; i < n; i++ {
		x := r.IntN(20)
		switch {
		case x < 9 || len(live) == 0:
			k := 1 + r.IntN(3)
			st := jstep{T: "create"}
			for j := 0; j < k; j++ {
				d := r.IntN(nd)
				st.Series = append(st.Series, d)
				live[d] = true
			}
			c.Steps = append(c.Steps, st)
		case x < 15:
			st := jstep{T: "drop"}
			if keepMode && r.IntN(3) != 0 {
				st.T = "dropkeep"
				c.Sig = sigKeep
			}
			var ls []int
			for d := range live {
				ls = append(ls, d)
			}
			sort.Ints(ls)
			k := 1 + r.IntN(2)
			if r.IntN(5) == 0 { // drop a whole measurement the way the engine does
				m := c.Domain[ls[r.IntN(len(ls))]].Name
				for _, d := range ls {
					if c.Domain[d].Name == m {
						st.Series = append(st.Series, d)
						delete(live, d)
					}
				}
			} else {
				for j := 0; j < k && len(ls) > 0; j++ {
					q := r.IntN(len(ls))
					st.Series = append(st.Series, ls[q])
					delete(live, ls[q])
					ls = append(ls[:q], ls[q+1:]...)
				}
			}
			c.Steps = append(c.Steps, st)
		case x < 17:
			m := measNames[r.IntN(3)]
			for d := range live {
				if c.Domain[d].Name == m {
					delete(live, d)
				}
			}
			c.Steps = append(c.Steps, jstep{T: "dropmeas", Meas: m})
		default:
			c.Steps = append(c.Steps, jstep{T: "reopen"})
		}
	}
	return c
}

func main() {
	w := vh.New("C14", "From Verif Require Import Base.Prelude Model.C14.", "case", "check")
	w.Rule = "one case = a history (5-12 steps) over a domain of 5-8 series drawn from 3 measurements x 2 tag keys x 3 values on a real tsi1.Index (1, 2 or 8 partitions; maximum log file size 5..80 bytes or 1 MiB so that log files roll and compact to L1, L2, ... between steps; series id cache off or on): create batch / drop series the way the engine does (DropSeries, DropMeasurementIfSeriesNotExist, series-file delete) / the same drop WITHOUT the series-file delete (a quarter of the histories; the key is later re-created with the same id) / Index.DropMeasurement / reopen, every query plus Index.SeriesIDSet()/SeriesN() observed after every step; one third of the cases add crash images (active log cut at every byte of its last entry, second index opened on the copy). Hand-picked histories first (the two known-finding witnesses judged with the full statement; create+drop inside one log file then reopen then re-create; drop-keeping-the-id then re-create with level merges up to L4; and mixed histories with 1 and 8 partitions, cache off and on). Non-trivial: some log file was compacted into an index file during the history. Distinct: distinct Gallina terms."
	var rc jcase
	if w.ReplayCase(&rc) {
		run(w, &rc)
		w.Finish()
		return
	}
	if os.Getenv("VERIF_PROC") == "" || os.Getenv("VERIF_PROC") == "0" {
		for _, c := range corpus() {
			run(w, c)
		}
	}
	for w.Len() < w.N {
		run(w, genCase(w))
	}
	w.Finish()
}
