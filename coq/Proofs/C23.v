(** C23 proofs, part 1: stream reducers (derivative, difference, elapsed, cumulative_sum,
    integral without windows) and the fold-style aggregates (spread, mean). *)
From Coq Require Import QArith Floats.SpecFloat.
From Verif Require Import Base.Prelude Model.C23.
From Coq Require Import ZifyBool.
Open Scope Z_scope.

(* ------------------------------------------------------------------ *)
(** * wrap64 *)
Lemma wrap64_range z : in_i64 (wrap64 z).
Proof.
  unfold in_i64, wrap64, MinI64, MaxI64, two63, two64.
  pose proof (Z.mod_pos_bound (z + 9223372036854775808) 18446744073709551616 ltac:(lia)). lia.
Qed.

Lemma wrap64_id z : in_i64 z -> wrap64 z = z.
Proof.
  unfold in_i64, wrap64, MinI64, MaxI64, two63, two64. intro H.
  rewrite Z.mod_small by lia. lia.
Qed.

Lemma wrap64_add_l a b : wrap64 (wrap64 a + b) = wrap64 (a + b).
Proof.
  unfold wrap64.
  replace ((a + two63) mod two64 - two63 + b + two63) with ((a + two63) mod two64 + b) by lia.
  rewrite Zplus_mod_idemp_l.
  replace (a + two63 + b) with (a + b + two63) by lia. reflexivity.
Qed.

Lemma wrap64_sub_l a b : wrap64 (wrap64 a - b) = wrap64 (a - b).
Proof. replace (wrap64 a - b) with (wrap64 a + - b) by lia. rewrite wrap64_add_l. reflexivity. Qed.

(* ------------------------------------------------------------------ *)
(** * prev/curr reducers *)
Section Pair.
Context {Out : Type} (g : pt -> pt -> bool * list Out).
Hypothesis Hg : forall a c, fst (g a c) = false -> snd (g a c) = [].

Definition pr_inv (s : pstate) (c : pt) : Prop :=
  ps_curr s = Some c /\
  (ps_prev s = None \/ exists a, ps_prev s = Some a /\ fst (g a c) = false).

Lemma pr_run_from s c r :
  pr_inv s c ->
  run_stream (pr_step g) s r = adj (fun a b => snd (g a b)) (c :: dedup_from (pt_t c) r).
Proof.
  revert s c. induction r as [|p r IH]; intros s c [Hc Hp]; [reflexivity|].
  cbn [run_stream dedup_from]. unfold pr_step at 1, pr_agg. rewrite Hc.
  rewrite (Z.eqb_sym (pt_t p) (pt_t c)).
  destruct (pt_t c =? pt_t p) eqn:E.
  - (* repeated timestamp: skipped *)
    assert (Hem : pr_emit g s = (s, [])).
    { unfold pr_emit. rewrite Hc. destruct Hp as [Hp | [a [Hp Hf]]]; rewrite Hp; [reflexivity|].
      specialize (Hg a c Hf). destruct (g a c) as [m o]; cbn in *. subst. reflexivity. }
    rewrite Hem. cbn [app]. apply IH. split; assumption.
  - unfold pr_emit. cbn [ps_prev ps_curr].
    destruct (g c p) as [m o] eqn:G.
    cbn [adj]. rewrite G. cbn [snd]. f_equal.
    apply IH. destruct m; split; cbn; auto.
    right. exists c. rewrite G. auto.
Qed.

Lemma pr_run_adj ps :
  run_stream (pr_step g) pstate0 ps = adj (fun a b => snd (g a b)) (dedup_first ps).
Proof.
  destruct ps as [|p r]; [reflexivity|].
  cbn [run_stream dedup_first]. unfold pr_step at 1, pr_agg, pr_emit. cbn.
  apply pr_run_from. split; cbn; auto.
Qed.
End Pair.

Lemma derivative_eq_def {F} (fo : fops F) unit nn asc ps :
  derivative_run fo unit nn asc ps = derivative_def fo unit nn asc ps.
Proof. apply pr_run_adj. intros a c H. cbn in H. discriminate. Qed.

Lemma difference_eq_def nn ps : difference_run nn ps = difference_def nn ps.
Proof.
  apply pr_run_adj. intros a c. unfold diff_g.
  destruct (nn && (wrap64 (pt_v c - pt_v a) <? 0)); cbn; [reflexivity | discriminate].
Qed.

(** what one output of non_negative_difference / difference looks like *)
Lemma difference_def_nonneg ps t v : In (t, v) (difference_def true ps) -> 0 <= v.
Proof.
  unfold difference_def. generalize (dedup_first ps). intro l.
  induction l as [|a [|b r] IH]; cbn [adj]; try contradiction.
  rewrite in_app_iff. intros [H | H]; [|exact (IH H)].
  unfold diff_g in H. cbn [andb] in H.
  destruct (wrap64 (pt_v b - pt_v a) <? 0) eqn:E; cbn in H; [contradiction|].
  destruct H as [H|[]]. inversion H; subst. lia.
Qed.

(* ------------------------------------------------------------------ *)
(** * elapsed *)
Lemma elapsed_run_from unit o c r :
  run_stream (el_step unit) {| e_prev := o; e_curr := Some c |} r = adj (el_g unit) (c :: r).
Proof.
  revert o c. induction r as [|p r IH]; intros o c; [reflexivity|].
  cbn [run_stream adj]. unfold el_step at 1. cbn [e_prev e_curr]. f_equal. apply IH.
Qed.

Lemma elapsed_eq_def unit ps : elapsed_run unit ps = elapsed_def unit ps.
Proof.
  destruct ps as [|p r]; [reflexivity|].
  unfold elapsed_run, elapsed_def. cbn [run_stream]. unfold el_step at 1. cbn [e_prev e_curr app].
  apply elapsed_run_from.
Qed.

(* ------------------------------------------------------------------ *)
(** * cumulative_sum *)
Lemma cumsum_run_from ps : forall S0,
  run_stream cs_step (wrap64 S0) ps =
  map (fun k => (pt_t (nth k ps pt0), wrap64 (S0 + sumZ (map pt_v (firstn (S k) ps))))) (seq 0 (length ps)).
Proof.
  induction ps as [|p r IH]; intro S0; [reflexivity|].
  cbn [run_stream cs_step length seq map]. cbn [app nth firstn map sumZ fold_right].
  rewrite wrap64_add_l. f_equal.
  - f_equal. f_equal. destruct r; cbn; lia.
  - rewrite IH. rewrite <- seq_shift, map_map. apply map_ext. intro k.
    cbn [nth firstn map sumZ fold_right]. f_equal. f_equal. unfold sumZ. lia.
Qed.

Lemma cumsum_eq_def ps : cumsum_run ps = cumsum_def ps.
Proof.
  unfold cumsum_run, cumsum_def. change 0 with (wrap64 0) at 1.
  rewrite cumsum_run_from. apply map_ext. intro k. reflexivity.
Qed.

(* ------------------------------------------------------------------ *)
(** * mean: the int64 running sum is the int64 image of the true sum *)
Lemma fold_wrap_sum ps : forall S0,
  fold_left (fun acc p => wrap64 (acc + pt_v p)) ps (wrap64 S0) = wrap64 (S0 + sumZ (map pt_v ps)).
Proof.
  induction ps as [|p r IH]; intro S0; cbn [fold_left map sumZ fold_right].
  - f_equal. lia.
  - rewrite wrap64_add_l, IH. f_equal. unfold sumZ. lia.
Qed.

Lemma mean_eq_def {F} (fo : fops F) ps :
  mean_run fo ps =
  [(ZeroTime, f_div fo (f_ofZ fo (wrap64 (sumZ (map pt_v ps)))) (f_ofZ fo (Z.of_nat (length ps))))].
Proof. unfold mean_run. change 0 with (wrap64 0) at 1. rewrite fold_wrap_sum. reflexivity. Qed.

(* ------------------------------------------------------------------ *)
(** * spread *)
Lemma if_min a b : (if a <? b then a else b) = Z.min a b.
Proof. destruct (Z.ltb_spec a b); lia. Qed.
Lemma if_max a b : (if a >? b then a else b) = Z.max a b.
Proof. rewrite Z.gtb_ltb. destruct (Z.ltb_spec b a); lia. Qed.

Lemma spread_fold ps : forall mn mx,
  fold_left (fun '(mn, mx) p =>
               ((if pt_v p <? mn then pt_v p else mn), (if pt_v p >? mx then pt_v p else mx)))
            ps (mn, mx)
  = (list_min (map pt_v ps) mn, list_max (map pt_v ps) mx).
Proof.
  induction ps as [|p r IH]; intros mn mx; [reflexivity|].
  cbn [fold_left map]. cbv beta iota. rewrite IH. unfold list_min, list_max. cbn [fold_right].
  f_equal.
  - assert (H : forall l a b, fold_right Z.min (Z.min a b) l = Z.min a (fold_right Z.min b l)).
    { induction l; intros; cbn; [reflexivity|]. rewrite IHl. lia. }
    rewrite if_min. apply H.
  - assert (H : forall l a b, fold_right Z.max (Z.max a b) l = Z.max a (fold_right Z.max b l)).
    { induction l; intros; cbn; [reflexivity|]. rewrite IHl. lia. }
    rewrite if_max. apply H.
Qed.

Lemma list_min_absorb l v d : v <= d -> list_min (v :: l) d = list_min l v.
Proof.
  unfold list_min. intro H. cbn [fold_right].
  assert (K : forall a b, Z.min a (fold_right Z.min b l) = Z.min b (fold_right Z.min a l)).
  { induction l as [|x l IH]; intros a b; cbn [fold_right]; [lia|]. pose proof (IH a b). lia. }
  assert (E : forall a, fold_right Z.min a l <= a).
  { clear K. induction l as [|x l IH]; intros a; cbn [fold_right]; [lia|]. pose proof (IH a). lia. }
  rewrite K. pose proof (E v). lia.
Qed.

Lemma list_max_absorb l v d : d <= v -> list_max (v :: l) d = list_max l v.
Proof.
  unfold list_max. intro H. cbn [fold_right].
  assert (K : forall a b, Z.max a (fold_right Z.max b l) = Z.max b (fold_right Z.max a l)).
  { induction l as [|x l IH]; intros a b; cbn [fold_right]; [lia|]. pose proof (IH a b). lia. }
  assert (E : forall a, a <= fold_right Z.max a l).
  { clear K. induction l as [|x l IH]; intros a; cbn [fold_right]; [lia|]. pose proof (IH a). lia. }
  rewrite K. pose proof (E v). lia.
Qed.

Lemma spread_eq_def ps :
  Forall (fun p => in_i64 (pt_v p)) ps -> spread_run ps = spread_def ps.
Proof.
  intro H. unfold spread_run, spread_def. rewrite spread_fold.
  destruct ps as [|p r]; [reflexivity|].
  cbn [map]. inversion H as [|? ? Hp _]; subst. unfold in_i64 in Hp.
  rewrite list_min_absorb, list_max_absorb by lia. reflexivity.
Qed.

(* ------------------------------------------------------------------ *)
(** * integral without GROUP BY time *)
Section Integral.
Context {F : Type} (fo : fops F).

Lemma iwindow_nowin o t :
  io_interval o = 0 ->
  iwindow o t = if io_asc o then (io_start o, wrap64 (io_end o + 1)) else (wrap64 (io_end o + 1), io_start o).
Proof. intro H. unfold iwindow, window. rewrite H. cbn. destruct (io_asc o); reflexivity. Qed.

Definition int_result (o : iopt) (acc : F) (l : list pt) : list (Z * F) :=
  if last (map pt_t l) 0 =? int_start o then [] else [(int_start o, trapz_from fo o acc l)].

Lemma int_loop_from o r : forall a sum,
  no_cross o r ->
  int_loop fo o {| i_sum := sum; i_prev := Some a; i_ws := int_start o; i_we := int_wend o |} r
  = int_result o sum (a :: r).
Proof.
  induction r as [|p r IH]; intros a sum [Hi Hc].
  - cbn [int_loop int_close i_prev i_ws i_sum]. unfold int_result. cbn [map last trapz_from].
    destruct (pt_t a =? int_start o); reflexivity.
  - inversion Hc as [|? ? Hp Hr]; subst.
    cbn [int_loop]. unfold int_agg. cbn [i_prev i_sum i_ws i_we].
    assert (L : forall acc, int_result o acc (a :: p :: r) =
                            int_result o (if pt_t a =? pt_t p then acc
                                          else trapez fo o acc (f_ofZ fo (pt_v p)) (f_ofZ fo (pt_v a)) (wrap64 (pt_t p - pt_t a))) (p :: r)).
    { intro acc. unfold int_result. cbn [map]. change (last (pt_t a :: pt_t p :: map pt_t r) 0) with (last (pt_t p :: map pt_t r) 0).
      destruct (_ =? int_start o); reflexivity. }
    rewrite L.
    destruct (pt_t a =? pt_t p) eqn:E.
    + cbn [app]. apply IH. split; assumption.
    + replace ((io_asc o && (pt_t p >=? int_wend o)) || (negb (io_asc o) && (pt_t p <=? int_wend o))) with false
        by (destruct (io_asc o); cbn; lia).
      cbn [app]. apply IH. split; assumption.
Qed.

Lemma integral_eq_def o ps : no_cross o ps -> integral_run fo o ps = integral_def fo o ps.
Proof.
  intros [Hi Hc]. destruct ps as [|p r]; [reflexivity|].
  inversion Hc as [|? ? Hp Hr]; subst.
  unfold integral_run, integral_def. cbn [int_loop]. unfold int_agg at 1. cbn [istate0 i_prev i_sum].
  rewrite iwindow_nowin by assumption.
  assert (E : (let '(ws, we) := if io_asc o then (io_start o, wrap64 (io_end o + 1)) else (wrap64 (io_end o + 1), io_start o) in
               ({| i_sum := f_ofZ fo 0; i_prev := Some p; i_ws := (if ws =? MinTime then 0 else ws); i_we := we |}, @nil (Z * F)))
              = ({| i_sum := f_ofZ fo 0; i_prev := Some p; i_ws := int_start o; i_we := int_wend o |}, [])).
  { unfold int_start, int_wend. destruct (io_asc o); reflexivity. }
  rewrite E. cbn [app]. rewrite int_loop_from by (split; assumption). reflexivity.
Qed.
End Integral.
