(** C23 proofs, part 4: mode returns a value of maximal frequency. *)
From Coq Require Import QArith Floats.SpecFloat Sorting.Permutation Sorting.Sorted.
From Verif Require Import Base.Prelude Model.C23 Proofs.C23 Proofs.C23_agg.
From Coq Require Import ZifyBool.
Open Scope Z_scope.

Lemma count_app v a b : count_v v (a ++ b) = count_v v a + count_v v b.
Proof. unfold count_v. rewrite filter_app, app_length. lia. Qed.

Lemma count_one v p : count_v v [p] = if pt_v p =? v then 1 else 0.
Proof. unfold count_v. cbn. destruct (pt_v p =? v); reflexivity. Qed.

Lemma count_nonneg v l : 0 <= count_v v l.
Proof. unfold count_v. lia. Qed.

Lemma count_zero_below v l : (forall x, In x l -> pt_v x < v) -> count_v v l = 0.
Proof.
  intro H. unfold count_v. induction l as [|a l IH]; [reflexivity|]. cbn [filter].
  pose proof (H a (or_introl eq_refl)). replace (pt_v a =? v) with false by lia.
  apply IH. intros x Hx. apply H. right. exact Hx.
Qed.

Lemma count_perm v l l' : Permutation l l' -> count_v v l = count_v v l'.
Proof.
  intro P. unfold count_v. f_equal. induction P; cbn [filter].
  - reflexivity.
  - destruct (pt_v x =? v); cbn [length]; lia.
  - destruct (pt_v x =? v), (pt_v y =? v); cbn [length]; lia.
  - lia.
Qed.

Definition is_mode (v : Z) (l : list pt) : Prop :=
  0 < count_v v l /\ forall w, count_v w l <= count_v v l.

Lemma mode_loop_inv rest : forall done mf cf cm mm mt ct,
  sorted_v rest ->
  (forall x, In x done -> pt_v x <= cm) -> (forall x, In x rest -> cm <= pt_v x) ->
  count_v cm done = cf -> 1 <= mf -> count_v mm done = mf -> mm <= cm ->
  (forall w, count_v w done <= mf) ->
  is_mode (mode_loop rest mf cf cm mm mt ct) (done ++ rest).
Proof.
  induction rest as [|p r IH]; intros done mf cf cm mm mt ct Hs Hd Hr Hcf Hmf Hmm Hle Hall.
  - cbn [mode_loop]. rewrite app_nil_r. split; [lia|]. intro w. rewrite Hmm. apply Hall.
  - apply StronglySorted_inv in Hs as [Hsr Hp]. rewrite Forall_forall in Hp.
    replace (done ++ p :: r) with ((done ++ [p]) ++ r) by (rewrite <- app_assoc; reflexivity).
    pose proof (Hr p (or_introl eq_refl)) as Hpc.
    cbn [mode_loop]. destruct (pt_v p =? cm) eqn:E; cbn [negb].
    + (* same value: the run continues *)
      assert (Ep : pt_v p = cm) by lia. subst cf.
      assert (Hd' : forall x, In x (done ++ [p]) -> pt_v x <= cm).
      { intros x Hx. apply in_app_or in Hx as [Hx | [<- | []]]; [apply Hd, Hx | lia]. }
      assert (Hr' : forall x, In x r -> cm <= pt_v x) by (intros x Hx; apply Hr; right; exact Hx).
      assert (Cc : count_v cm (done ++ [p]) = count_v cm done + 1).
      { rewrite count_app, count_one. replace (pt_v p =? cm) with true by lia. reflexivity. }
      assert (Cw : forall w, w <> cm -> count_v w (done ++ [p]) = count_v w done).
      { intros w Hw. rewrite count_app, count_one. replace (pt_v p =? w) with false by lia. lia. }
      destruct ((mf >? count_v cm done + 1) || ((mf =? count_v cm done + 1) && (ct >? mt))) eqn:C.
      * apply IH; auto; try lia.
        -- assert (mm <> cm) by (intro; subst mm; lia). rewrite Cw by assumption. exact Hmm.
        -- intro w. destruct (Z.eq_dec w cm) as [->|N]; [rewrite Cc; lia | rewrite Cw by assumption; apply Hall].
      * rewrite Ep. apply IH; auto; try lia.
        intro w. destruct (Z.eq_dec w cm) as [->|N]; [rewrite Cc; lia|].
        rewrite Cw by assumption. specialize (Hall w). lia.
    + (* a new, larger value starts *)
      assert (Hlt : cm < pt_v p) by lia.
      assert (Hd' : forall x, In x (done ++ [p]) -> pt_v x <= pt_v p).
      { intros x Hx. apply in_app_or in Hx as [Hx | [<- | []]]; [specialize (Hd x Hx); lia | lia]. }
      assert (C0 : count_v (pt_v p) done = 0).
      { apply count_zero_below. intros x Hx. specialize (Hd x Hx). lia. }
      apply IH; auto; try lia.
      * rewrite count_app, count_one, Z.eqb_refl, C0. reflexivity.
      * rewrite count_app, count_one. replace (pt_v p =? mm) with false by lia. lia.
      * intro w. rewrite count_app, count_one. specialize (Hall w).
        destruct (pt_v p =? w) eqn:Ew; [|lia]. assert (w = pt_v p) by lia. subst w. lia.
Qed.

Lemma mode_run_is_mode ps : ps <> [] ->
  exists t v, mode_run ps = [(t, v)] /\ is_mode v ps.
Proof.
  intro Hne. unfold mode_run.
  assert (Hgen : exists t v, match isort ps with
                             | [] => []
                             | h :: tl => [(ZeroTime, mode_loop (h :: tl) 0 0 (pt_v h) (pt_v h) (pt_t h) (pt_t h))]
                             end = [(t, v)] /\ is_mode v ps).
  { pose proof (isort_sorted ps) as Hs. pose proof (isort_perm ps) as HP.
    destruct (isort ps) as [|h tl] eqn:EI.
    - apply Permutation_nil in HP. congruence.
    - eexists _, _. split; [reflexivity|].
      assert (M : is_mode (mode_loop (h :: tl) 0 0 (pt_v h) (pt_v h) (pt_t h) (pt_t h)) (h :: tl)).
      { apply StronglySorted_inv in Hs as [Hst Hh]. rewrite Forall_forall in Hh.
        cbn [mode_loop]. rewrite Z.eqb_refl. cbn [negb]. cbn.
        change (h :: tl) with ([h] ++ tl). apply mode_loop_inv; auto; try lia.
        - intros x [<- | []]. lia.
        - rewrite count_one, Z.eqb_refl. reflexivity.
        - rewrite count_one, Z.eqb_refl. reflexivity.
        - intro w. rewrite count_one. destruct (pt_v h =? w); lia. }
      destruct M as [M1 M2]. split.
      + rewrite <- (count_perm _ _ _ HP). exact M1.
      + intro w. rewrite <- !(count_perm _ _ _ HP). apply M2. }
  destruct ps as [|p [|q r]]; [congruence | | exact Hgen].
  exists (pt_t p), (pt_v p). split; [reflexivity|]. split.
  - rewrite count_one, Z.eqb_refl. lia.
  - intro w. rewrite !count_one, Z.eqb_refl. destruct (pt_v p =? w); lia.
Qed.
