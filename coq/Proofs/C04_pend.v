(** C04 — part 5: the pending content of a block list as a newest-wins lookup, and the
    specification of one dedup pass ([dedup_pass]) over a block list. *)
From Coq Require Import ZifyBool.
From Verif Require Import Base.Prelude Model.C37 Proofs.C37 Model.C04 Proofs.C04 Proofs.C04_blocks.
Local Open Scope Z_scope.

Section Pend.
  Context {V : Type}.
  Notation arr := (arr V).
  Notation blk := (blk V).

  Definition orelse {A} (a b : option A) : option A := match a with Some v => Some v | None => b end.

  Lemma orelse_assoc {A} (a b c : option A) : orelse (orelse a b) c = orelse a (orelse b c).
  Proof. destruct a; reflexivity. Qed.
  Lemma orelse_none_r {A} (a : option A) : orelse a None = a.
  Proof. destruct a; reflexivity. Qed.

  Lemma lookup_last_app t (a b : arr) :
    lookup_last t (a ++ b) = orelse (lookup_last t b) (lookup_last t a).
  Proof.
    induction a as [|p r IH]; cbn [app lookup_last]; [rewrite orelse_none_r; reflexivity|].
    rewrite IH. destruct (lookup_last t b); cbn; [reflexivity|]. reflexivity.
  Qed.

  Lemma lookup_app t (a b : arr) : lookup t (a ++ b) = orelse (lookup t a) (lookup t b).
  Proof.
    induction a as [|p r IH]; [reflexivity|]. cbn. destruct (tm p =? t); [reflexivity|exact IH].
  Qed.

  Lemma lookup_last_None t (l : arr) : lookup_last t l = None <-> (forall p, In p l -> tm p <> t).
  Proof.
    induction l as [|p r IH]; cbn [lookup_last].
    - split; [intros _ p []|reflexivity].
    - destruct (lookup_last t r) eqn:E.
      + split; [discriminate|]. intro H. exfalso.
        assert (Hn : Some v = None); [|discriminate]. apply IH. intros q Hq. apply H. right. exact Hq.
      + destruct IH as [IH _]. specialize (IH eq_refl). destruct (tm p =? t) eqn:E2.
        * split; [discriminate|]. intro H. exfalso. apply (H p); [left; reflexivity|lia].
        * split; [|reflexivity]. intros _ q [<-|Hq]; [lia|auto].
  Qed.

  Lemma lookup_last_Some t v (l : arr) : lookup_last t l = Some v -> In (t, v) l.
  Proof.
    induction l as [|p r IH]; cbn [lookup_last]; [discriminate|].
    destruct (lookup_last t r) eqn:E.
    - intros [= <-]. right. apply IH. reflexivity.
    - destruct (tm p =? t) eqn:E2; [|discriminate]. intros [= <-]. left.
      destruct p; unfold tm in E2; cbn in *. f_equal. lia.
  Qed.

  Lemma lookup_Some_In t v (l : arr) : lookup t l = Some v -> In (t, v) l.
  Proof.
    induction l as [|p r IH]; cbn [lookup]; [discriminate|].
    destruct (tm p =? t) eqn:E; [|right; auto]. intros [= <-]. left.
    destruct p; unfold tm in E; cbn in *. f_equal. lia.
  Qed.

  Lemma lookup_last_filter (P : Z -> bool) t (l : arr) :
    lookup_last t (filter (fun p => P (tm p)) l) = if P t then lookup_last t l else None.
  Proof.
    induction l as [|p r IH]; cbn [filter lookup_last]; [destruct (P t); reflexivity|].
    destruct (P (tm p)) eqn:Ep; cbn [lookup_last]; rewrite IH.
    - destruct (P t) eqn:Et; [reflexivity|].
      destruct (tm p =? t) eqn:E; [|reflexivity]. replace t with (tm p) in Et by lia. congruence.
    - destruct (P t) eqn:Et; [|reflexivity]. destruct (lookup_last t r); [reflexivity|].
      destruct (tm p =? t) eqn:E; [|reflexivity]. replace t with (tm p) in Et by lia. congruence.
  Qed.

  (** pending content of a block list: live unread points, later blocks win *)
  Definition pendl (bs : list blk) : arr := concat (map live bs).
  Definition plast (t : Z) (bs : list blk) : option V := lookup_last t (pendl bs).

  Lemma plast_cons t b r : plast t (b :: r) = orelse (plast t r) (lookup_last t (live b)).
  Proof. unfold plast, pendl. cbn [map concat]. apply lookup_last_app. Qed.

  Lemma plast_app t a b : plast t (a ++ b) = orelse (plast t b) (plast t a).
  Proof. unfold plast, pendl. rewrite map_app, concat_app. apply lookup_last_app. Qed.

  Lemma concat_filter_lookup (P : Z -> bool) t (f : blk -> arr) (bs : list blk) :
    lookup_last t (concat (map (fun b => filter (fun p => P (tm p)) (f b)) bs))
    = if P t then lookup_last t (concat (map f bs)) else None.
  Proof.
    induction bs as [|b r IH]; cbn [map concat]; [destruct (P t); reflexivity|].
    rewrite !lookup_last_app, IH, lookup_last_filter. destruct (P t); reflexivity.
  Qed.

  (** merged values after folding [Merge] over a list of arrays *)
  Lemma lookup_arr_merge t (a b : arr) : ssorted a -> ssorted b ->
    lookup t (arr_merge a b) = orelse (lookup_last t b) (lookup t a).
  Proof. intros Ha Hb. rewrite arr_merge_union by auto. apply lookup_union_rw. Qed.

  (** *** one pass of the second loop of the dedup path over the whole block list *)
  Definition contrib (mx : Z) (b : blk) : arr := filter (fun p => tm p <=? mx) (live b).

  Lemma dedup_pass_spec L mn mx : forall (bs : list blk) (mv : arr),
    Forall (bok L) bs -> L <= mx ->
    (forall b p, In b bs -> In p (unr b) -> mn <= tm p) -> ssorted mv ->
    exists bs' mv',
      dedup_pass bs mn mx mv = (bs', mx, mv') /\ Forall2 (stepped mx) bs bs' /\ ssorted mv' /\
      (forall t, lookup t mv' = orelse (lookup_last t (concat (map (contrib mx) bs))) (lookup t mv)) /\
      (forall p, In p mv' -> In p mv \/ exists b, In b bs /\ In p (contrib mx b)).
  Proof.
    induction bs as [|b r IH]; intros mv HB HL Hmn Hmv.
    - exists [], mv. cbn. repeat split; auto; try constructor.
    - inversion HB as [|? ? Hb Hr]; subst.
      assert (Hmnb : forall p, In p (unr b) -> mn <= tm p) by (intros p Hp; eapply Hmn; [left; reflexivity|exact Hp]).
      assert (Hmnr : forall b0 p, In b0 r -> In p (unr b0) -> mn <= tm p) by (intros b0 p Hb0; apply Hmn; right; exact Hb0).
      cbn [dedup_pass]. destruct (negb (overlaps b mn mx) || is_read b) eqn:Esk.
      + (* skipped *)
        destruct (IH mv Hr HL Hmnr Hmv) as [r' [mv' [E [F2 [S' [Hl Hi]]]]]].
        rewrite E. exists (b :: r'), mv'.
        destruct (skip_block L mn mx b Hb HL Hmnb) as [St Hnil].
        { destruct (is_read b); [left; reflexivity|right]. destruct (overlaps b mn mx); [discriminate|reflexivity]. }
        repeat split; auto.
        * intro t. rewrite Hl. cbn [map concat]. unfold contrib at 2. rewrite Hnil. reflexivity.
        * intros p Hp. destruct (Hi p Hp) as [H|[b0 [H1 H2]]]; [auto|]. right. exists b0. split; [right|]; auto.
      + (* decoded, cut to the window, marked, merged *)
        assert (R : is_read b = false) by (destruct (is_read b); [rewrite orb_true_r in Esk; discriminate|reflexivity]).
        destruct (pass_block L mn mx b Hb HL Hmnb R) as [Emax [St Ev3]].
        rewrite <- Emax. rewrite Z.eqb_refl. cbn [negb andb].
        set (v2 := arr_include (arr_exclude (b_vals b) (b_rmin b) (b_rmax b)) mn mx) in *.
        set (b2 := if (0 <? length v2)%nat then mark_read b (min_time v2) (max_time v2) else b) in *.
        rewrite Ev3.
        assert (Hs3 : ssorted (contrib mx b)) by (apply ssorted_filter, ssorted_live, (ok_wf L b Hb)).
        assert (Hmv2 : ssorted (arr_merge mv (contrib mx b))) by (apply merge_sorted; auto).
        fold (contrib mx b).
        destruct (IH (arr_merge mv (contrib mx b)) Hr HL Hmnr Hmv2) as [r' [mv' [E [F2 [S' [Hl Hi]]]]]].
        rewrite E. exists (b2 :: r'), mv'. repeat split; auto.
        * intro t. rewrite Hl, lookup_arr_merge by auto. cbn [map concat].
          rewrite lookup_last_app, orelse_assoc. reflexivity.
        * intros p Hp. destruct (Hi p Hp) as [H|[b0 [H1 H2]]].
          -- apply merge_In in H as [H|[H _]]; auto. right. exists b. split; [left; reflexivity|exact H].
          -- right. exists b0. split; [right|]; auto.
  Qed.
End Pend.
