(** C21 — order facts: bytewise string comparison, series-key comparison, and the generic
    sorted-set / insertion-sort algebra used by the read model. *)
From Coq Require Import String Ascii Sorting.Sorted Permutation.
From Verif Require Import Base.Prelude Model.C21.

(** * A total order given by a [comparison] function *)
Record order_ok {A} (cmp : A -> A -> comparison) : Prop := mkOrd {
  ok_eq : forall x y, cmp x y = Eq -> x = y;
  ok_refl : forall x, cmp x x = Eq;
  ok_anti : forall x y, cmp x y = CompOpp (cmp y x);
  ok_trans : forall x y z, cmp x y = Lt -> cmp y z = Lt -> cmp x z = Lt
}.

Lemma ok_gt_lt {A} (cmp : A -> A -> comparison) (O : order_ok cmp) x y :
  cmp x y = Gt -> cmp y x = Lt.
Proof. intro H. rewrite (ok_anti _ O) in H. destruct (cmp y x); cbn in H; congruence. Qed.
Lemma ok_lt_gt {A} (cmp : A -> A -> comparison) (O : order_ok cmp) x y :
  cmp x y = Lt -> cmp y x = Gt.
Proof. intro H. rewrite (ok_anti _ O) in H. destruct (cmp y x); cbn in H; congruence. Qed.
Lemma ok_lt_irrefl {A} (cmp : A -> A -> comparison) (O : order_ok cmp) x : cmp x x <> Lt.
Proof. rewrite (ok_refl _ O). discriminate. Qed.

(** lexicographic combination [match c1 with Eq => c2 | c => c end] *)
Definition lex (c1 c2 : comparison) : comparison :=
  match c1 with Eq => c2 | Lt => Lt | Gt => Gt end.

Lemma lex_order {A B} (ca : A -> A -> comparison) (cb : B -> B -> comparison) :
  order_ok ca -> order_ok cb ->
  order_ok (fun x y : A * B => lex (ca (fst x) (fst y)) (cb (snd x) (snd y))).
Proof.
  intros OA OB. constructor.
  - intros [a b] [a' b']; cbn. destruct (ca a a') eqn:E; cbn; try discriminate.
    intro H. apply (ok_eq _ OA) in E. apply (ok_eq _ OB) in H. congruence.
  - intros [a b]; cbn. rewrite (ok_refl _ OA). cbn. apply (ok_refl _ OB).
  - intros [a b] [a' b']; cbn. rewrite (ok_anti _ OA a a'), (ok_anti _ OB b b').
    destruct (ca a' a); cbn; reflexivity.
  - intros [a b] [a' b'] [a'' b'']; cbn.
    destruct (ca a a') eqn:E1; cbn; try discriminate;
    destruct (ca a' a'') eqn:E2; cbn; try discriminate; intros H1 H2.
    + apply (ok_eq _ OA) in E1, E2. subst. rewrite (ok_refl _ OA). cbn.
      eapply (ok_trans _ OB); eauto.
    + apply (ok_eq _ OA) in E1. subst. rewrite E2. reflexivity.
    + apply (ok_eq _ OA) in E2. subst. rewrite E1. reflexivity.
    + rewrite (ok_trans _ OA _ _ _ E1 E2). reflexivity.
Qed.

(** * Characters and strings *)
Lemma ascii_order : order_ok Ascii.compare.
Proof.
  constructor; unfold Ascii.compare.
  - intros x y H. apply N.compare_eq in H.
    rewrite <- (ascii_N_embedding x), <- (ascii_N_embedding y), H. reflexivity.
  - intros x. apply N.compare_refl.
  - intros x y. apply N.compare_antisym.
  - intros x y z. rewrite !N.compare_lt_iff. lia.
Qed.

Lemma scmp_order : order_ok scmp.
Proof.
  pose proof ascii_order as OA. unfold scmp. constructor.
  - apply String.compare_eq_iff.
  - induction x as [|c x IH]; cbn; [reflexivity|]. rewrite (ok_refl _ OA). exact IH.
  - apply String.compare_antisym.
  - induction x as [|c x IH]; intros [|d y] [|e z]; cbn; try discriminate; try reflexivity.
    destruct (Ascii.compare c d) eqn:E1; try discriminate;
    destruct (Ascii.compare d e) eqn:E2; try discriminate; intros H1 H2.
    + apply (ok_eq _ OA) in E1, E2. subst. rewrite (ok_refl _ OA). eapply IH; eauto.
    + apply (ok_eq _ OA) in E1. subst. rewrite E2. reflexivity.
    + apply (ok_eq _ OA) in E2. subst. rewrite E1. reflexivity.
    + rewrite (ok_trans _ OA _ _ _ E1 E2). reflexivity.
Qed.

Lemma scmp_eqb a b : String.eqb a b = true <-> scmp a b = Eq.
Proof.
  rewrite String.eqb_eq. split.
  - intros ->. apply (ok_refl _ scmp_order).
  - apply (ok_eq _ scmp_order).
Qed.

(** * Tag lists and series keys *)
Lemma tags_cmp_order : order_ok tags_cmp.
Proof.
  pose proof scmp_order as OS. constructor.
  - induction x as [|[k v] x IH]; intros [|[k' v'] y]; cbn; try discriminate; auto.
    destruct (scmp k k') eqn:E1; try discriminate.
    destruct (scmp v v') eqn:E2; try discriminate. intro H.
    apply (ok_eq _ OS) in E1, E2. apply IH in H. congruence.
  - induction x as [|[k v] x IH]; cbn; auto. rewrite !(ok_refl _ OS). exact IH.
  - induction x as [|[k v] x IH]; intros [|[k' v'] y]; cbn; auto.
    rewrite (ok_anti _ OS k k'), (ok_anti _ OS v v'), (IH y).
    destruct (scmp k' k); cbn; auto. destruct (scmp v' v); cbn; auto.
  - induction x as [|[k v] x IH]; intros [|[k' v'] y] [|[k'' v''] z]; cbn;
      try discriminate; try reflexivity.
    intros H1 H2.
    pose proof (ok_trans _ (lex_order scmp scmp OS OS) (k, v) (k', v') (k'', v'')) as T.
    cbn in T. unfold lex in T.
    destruct (scmp k k') eqn:E1; try discriminate;
    destruct (scmp k' k'') eqn:E2; try discriminate.
    + apply (ok_eq _ OS) in E1, E2. subst. rewrite (ok_refl _ OS) in *.
      destruct (scmp v v') eqn:E3; try discriminate;
      destruct (scmp v' v'') eqn:E4; try discriminate.
      * apply (ok_eq _ OS) in E3, E4. subst. rewrite (ok_refl _ OS). eapply IH; eauto.
      * apply (ok_eq _ OS) in E3. subst. rewrite E4. reflexivity.
      * apply (ok_eq _ OS) in E4. subst. rewrite E3. reflexivity.
      * rewrite (T eq_refl eq_refl). reflexivity.
    + apply (ok_eq _ OS) in E1. subst. rewrite E2. reflexivity.
    + apply (ok_eq _ OS) in E2. subst. rewrite E1. reflexivity.
    + rewrite (ok_trans _ OS _ _ _ E1 E2). reflexivity.
Qed.

Lemma series_cmp_order : order_ok series_cmp.
Proof.
  pose proof (lex_order scmp tags_cmp scmp_order tags_cmp_order) as L.
  unfold series_cmp. constructor.
  - intros [n t] [n' t'] H. pose proof (ok_eq _ L (n, t) (n', t') H). congruence.
  - intros [n t]. apply (ok_refl _ L (n, t)).
  - intros [n t] [n' t']. apply (ok_anti _ L (n, t) (n', t')).
  - intros [n t] [n' t'] [n'' t'']. apply (ok_trans _ L (n, t) (n', t') (n'', t'')).
Qed.

Lemma tag_eqb_eq a b : tag_eqb a b = true <-> a = b.
Proof.
  destruct a as [k v], b as [k' v']. unfold tag_eqb; cbn.
  rewrite andb_true_iff, !String.eqb_eq. split; [intros [-> ->]; reflexivity | intro H; inversion H; auto].
Qed.
Lemma series_eqb_eq s1 s2 : series_eqb s1 s2 = true <-> s1 = s2.
Proof.
  destruct s1 as [n t], s2 as [n' t']. unfold series_eqb, tags_eqb; cbn.
  rewrite andb_true_iff, String.eqb_eq, (list_eqb_spec tag_eqb tag_eqb_eq).
  split; [intros [-> ->]; reflexivity | intro H; inversion H; auto].
Qed.

Lemma sf_cmp_order : order_ok sf_cmp.
Proof. exact (lex_order series_cmp scmp series_cmp_order scmp_order). Qed.

(** * Sorted sets *)
Section SetAlgebra.
  Context {A : Type} (cmp : A -> A -> comparison) (O : order_ok cmp).
  Definition clt (x y : A) : Prop := cmp x y = Lt.

  Lemma set_insert_in x l y : In y (set_insert cmp x l) <-> y = x \/ In y l.
  Proof.
    induction l as [|z l IH]; cbn; [intuition|].
    destruct (cmp x z) eqn:E; cbn.
    - apply (ok_eq _ O) in E. subst. intuition.
    - intuition.
    - rewrite IH. intuition.
  Qed.

  Lemma set_insert_sorted x l :
    StronglySorted clt l -> StronglySorted clt (set_insert cmp x l).
  Proof.
    induction l as [|z l IH]; cbn; intro S.
    - constructor; constructor.
    - destruct (cmp x z) eqn:E.
      + exact S.
      + constructor; [exact S|]. constructor; [exact E|].
        inversion S as [|? ? _ F]; subst. rewrite Forall_forall in *. intros y Hy.
        eapply (ok_trans _ O); [exact E | apply F, Hy].
      + inversion S as [|? ? S' F]; subst. constructor; [apply IH, S'|].
        rewrite Forall_forall in *. intros y Hy. apply set_insert_in in Hy as [->|Hy].
        * apply (ok_gt_lt _ O), E.
        * apply F, Hy.
  Qed.

  Lemma to_set_in l y : In y (to_set cmp l) <-> In y l.
  Proof.
    induction l as [|x l IH]; cbn; [tauto|]. unfold to_set in *. cbn.
    rewrite set_insert_in, IH. intuition.
  Qed.

  Lemma to_set_sorted l : StronglySorted clt (to_set cmp l).
  Proof.
    induction l as [|x l IH]; cbn; [constructor|]. apply set_insert_sorted, IH.
  Qed.

  Lemma sorted_nodup l : StronglySorted clt l -> NoDup l.
  Proof.
    induction 1 as [|x l S IH F]; constructor; auto.
    intro Hin. rewrite Forall_forall in F. apply (ok_lt_irrefl _ O x), F, Hin.
  Qed.

  (** a strictly sorted list is determined by its elements *)
  Lemma sorted_ext l1 l2 :
    StronglySorted clt l1 -> StronglySorted clt l2 ->
    (forall x, In x l1 <-> In x l2) -> l1 = l2.
  Proof.
    intros S1; revert l2. induction S1 as [|x l1 S1 IH F1]; intros l2 S2 H.
    - destruct l2 as [|y l2]; auto. exfalso. apply (H y). left; reflexivity.
    - destruct S2 as [|y l2 S2 F2].
      { exfalso. apply (H x). left; reflexivity. }
      rewrite Forall_forall in F1, F2.
      assert (x = y) as ->.
      { destruct (proj1 (H x) (or_introl eq_refl)) as [E|Hx]; [auto|].
        destruct (proj2 (H y) (or_introl eq_refl)) as [E|Hy]; [auto|].
        exfalso. apply (ok_lt_irrefl _ O x).
        eapply (ok_trans _ O); [apply F1, Hy | apply F2, Hx]. }
      f_equal. apply IH; auto. intro z. split; intro Hz.
      + destruct (proj1 (H z) (or_intror Hz)) as [E|Hz']; auto. subst.
        exfalso. apply (ok_lt_irrefl _ O z), F1, Hz.
      + destruct (proj2 (H z) (or_intror Hz)) as [E|Hz']; auto. subst.
        exfalso. apply (ok_lt_irrefl _ O z), F2, Hz.
  Qed.

  Lemma sorted_filter (f : A -> bool) l : StronglySorted clt l -> StronglySorted clt (filter f l).
  Proof.
    induction 1 as [|x l S IH F]; cbn; [constructor|].
    destruct (f x); auto. constructor; auto.
    rewrite Forall_forall in *. intros y Hy. apply filter_In in Hy as [Hy _]. auto.
  Qed.
End SetAlgebra.

(** * Insertion sort *)
Section ISort.
  Context {A : Type} (ltb : A -> A -> bool).

  Lemma ins_perm x l : Permutation (x :: l) (ins ltb x l).
  Proof.
    induction l as [|y l IH]; cbn; [reflexivity|].
    destruct (ltb y x); [|reflexivity].
    etransitivity; [apply perm_swap|]. constructor. exact IH.
  Qed.

  Lemma isort_perm l : Permutation l (isort ltb l).
  Proof.
    induction l as [|x l IH]; cbn; [constructor|].
    etransitivity; [|apply ins_perm]. constructor. exact IH.
  Qed.

  Lemma isort_in l x : In x (isort ltb l) <-> In x l.
  Proof.
    split; apply Permutation_in; [symmetry|]; apply isort_perm.
  Qed.

  (** no inversion: an element never precedes a strictly smaller one, provided [ltb] is a
      strict weak order (asymmetric, negatively transitive) *)
  Definition nlt (x y : A) : Prop := ltb y x = false.
  Hypothesis asym : forall x y, ltb x y = true -> ltb y x = false.
  Hypothesis ntrans : forall x y z, ltb y x = false -> ltb z y = false -> ltb z x = false.

  Lemma ins_sorted x l : StronglySorted nlt l -> StronglySorted nlt (ins ltb x l).
  Proof.
    induction l as [|y l IH]; cbn; intro S.
    - constructor; constructor.
    - inversion S as [|? ? S' F]; subst. destruct (ltb y x) eqn:E.
      + constructor; [apply IH, S'|]. rewrite Forall_forall in *. intros z Hz.
        apply (Permutation_in _ (Permutation_sym (ins_perm x l))) in Hz as [<-|Hz].
        * apply asym, E.
        * apply F, Hz.
      + constructor; [exact S|]. constructor; [exact E|].
        rewrite Forall_forall in *. intros z Hz. unfold nlt.
        eapply ntrans; [exact E | apply F, Hz].
  Qed.

  Lemma isort_sorted l : StronglySorted nlt (isort ltb l).
  Proof. induction l as [|x l IH]; cbn; [constructor|]. apply ins_sorted, IH. Qed.
End ISort.
