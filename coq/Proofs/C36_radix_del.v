(** C36 radix tree — [DeletePrefix]: the walk after [del_node] is the walk before without the
    keys having the prefix, the returned count is the number of removed bindings, and [wf]
    is preserved ([delEdge] and [mergeChild] included). *)
From Verif Require Import Base.Prelude Model.C36_rhh Model.C36_radix
  Proofs.C36_radix_ord Proofs.C36_radix_wf Proofs.C36_radix_ins.
From Coq Require Import Sorted.

Definition leaf_list (leaf : option (bytes * Z)) : list (bytes * Z) :=
  match leaf with Some kv => [kv] | None => [] end.

Lemma walk_node leaf p es : walk (RNode leaf p es) = leaf_list leaf ++ walk_edges es.
Proof. reflexivity. Qed.

Lemma walk_edges_cons l ch rest : walk_edges (ECons l ch rest) = walk ch ++ walk_edges rest.
Proof. reflexivity. Qed.

(** how [del_edges] consumes the search prefix *)
Lemma consume_cases (prefix cp : bytes) :
  negb (has_prefix cp prefix) && negb (has_prefix prefix cp) = false ->
  let pr := if Nat.ltb (length prefix) (length cp) then [] else skipn (length cp) prefix in
  (pr = [] -> has_prefix cp prefix = true) /\
  (forall x r, pr = x :: r -> prefix = cp ++ pr).
Proof.
  intros NP pr. subst pr.
  destruct (Nat.ltb_spec (length prefix) (length cp)) as [LT|GE].
  - split; [|discriminate]. intros _.
    destruct (has_prefix cp prefix) eqn:H1; [reflexivity|].
    destruct (has_prefix prefix cp) eqn:H2; [|discriminate].
    apply has_prefix_length in H2. lia.
  - destruct (has_prefix prefix cp) eqn:H2.
    + apply has_prefix_spec in H2 as [r ->]. rewrite skipn_app_exact. split.
      * intros ->. rewrite app_nil_r. apply has_prefix_refl.
      * reflexivity.
    + destruct (has_prefix cp prefix) eqn:H1; [|discriminate].
      apply has_prefix_antisym in H1; [|exact GE]. subst.
      rewrite has_prefix_refl in H2. discriminate.
Qed.

Lemma del_both :
  (forall n b pi prefix, wf pi n ->
     forall n' cnt, del_node b n prefix = (n', cnt) ->
       walk n' = smap_delete_prefix (pi ++ prefix) (walk n)
       /\ cnt = (Z.of_nat (length (walk n)) - Z.of_nat (length (walk n')))%Z
       /\ ((r_prefix n' = r_prefix n /\ wf pi n')
           \/ (b = false /\ exists cp, r_prefix n' = r_prefix n ++ cp /\ wf (pi ++ cp) n'))) /\
  (forall es pi c tl, wfe pi es ->
     match del_edges es c (c :: tl) with
     | None => smap_delete_prefix (pi ++ c :: tl) (walk_edges es) = walk_edges es
     | Some (es', cnt, cleared) =>
         walk_edges es' = smap_delete_prefix (pi ++ c :: tl) (walk_edges es)
         /\ cnt = (Z.of_nat (length (walk_edges es)) - Z.of_nat (length (walk_edges es')))%Z
         /\ wfe pi es'
         /\ (forall Q : N -> Prop, Forall Q (elabels es) -> Forall Q (elabels es'))
     end).
Proof.
  apply rnode_redges_ind.
  - (* node *)
    intros leaf p es IH b pi prefix [Hl He] n' cnt E.
    destruct prefix as [|c tl].
    + cbn [del_node] in E. injection E as <- <-. rewrite app_nil_r.
      split; [|split].
      * symmetry. apply smap_delete_prefix_all.
        eapply kall_impl; [|apply (walk_under (RNode leaf p es) pi); split; assumption].
        intros k [r ->]. apply has_prefix_app.
      * change (walk (RNode None p ENil)) with (@nil (bytes * Z)). cbn [length].
        change (Z.of_nat 0) with 0%Z. rewrite Z.sub_0_r. reflexivity.
      * left. split; [reflexivity | apply wf_dead].
    + cbn [del_node] in E. specialize (IH pi c tl He).
      assert (LF : forall L, smap_delete_prefix (pi ++ c :: tl) (leaf_list leaf ++ L)
                             = leaf_list leaf ++ smap_delete_prefix (pi ++ c :: tl) L).
      { intro L. rewrite smap_delete_prefix_app. f_equal.
        apply smap_delete_prefix_none. destruct leaf as [[k old]|]; [|constructor].
        subst k. apply kall_cons; [apply has_prefix_longer | constructor]. }
      destruct (del_edges es c (c :: tl)) as [[[es' cnt'] cleared]|].
      * destruct IH as (Hw & Hcnt & Hwf & Hlab).
        assert (GEN : (RNode leaf p es', cnt') = (n', cnt) ->
          walk n' = smap_delete_prefix (pi ++ c :: tl) (walk (RNode leaf p es))
          /\ cnt = (Z.of_nat (length (walk (RNode leaf p es))) - Z.of_nat (length (walk n')))%Z
          /\ ((r_prefix n' = r_prefix (RNode leaf p es) /\ wf pi n')
              \/ (b = false /\ exists cp, r_prefix n' = r_prefix (RNode leaf p es) ++ cp
                                          /\ wf (pi ++ cp) n'))).
        { intro E'. injection E' as <- <-. rewrite !walk_node, LF, <- Hw.
          split; [reflexivity|]. split; [rewrite !app_length; lia|].
          left. split; [reflexivity|]. split; assumption. }
        destruct (cleared && negb b && is_none leaf) eqn:M; [|exact (GEN E)].
        apply andb_true_iff in M as [M M3]. apply andb_true_iff in M as [M1 M2].
        destruct leaf; [discriminate|]. destruct b; [discriminate|].
        destruct es' as [|l1 [cl1 cp1 ces1] [|l2 ch2 r2]]; [exact (GEN E) | | exact (GEN E)].
        clear GEN.
        injection E as <- <-.
        change (walk (RNode cl1 (p ++ cp1) ces1)) with (walk (RNode cl1 cp1 ces1)).
        rewrite (walk_node None p es), LF, <- Hw, Hcnt, walk_edges_cons.
        cbn [leaf_list walk_edges app]. rewrite app_nil_r.
        split; [reflexivity|]. split; [reflexivity|].
        right. split; [reflexivity|]. exists cp1. split; [reflexivity|].
        destruct Hwf as (_ & Hwf1 & _). exact Hwf1.
      * injection E as <- <-. rewrite !walk_node, LF, IH.
        split; [reflexivity|]. split; [lia|].
        left. split; [reflexivity|]. split; assumption.
  - (* ENil *)
    intros pi c tl _. reflexivity.
  - (* ECons *)
    intros l ch IHc rest IHr pi c tl W.
    pose proof (walk_child_keys _ _ _ _ W) as Kc.
    pose proof (walk_rest_keys _ _ _ _ W) as Kr.
    destruct W as ([tl0 Hp] & Hc & Hlt & Hr).
    cbn [del_edges].
    destruct (N.eqb_spec l c) as [->|NE].
    + (* the edge exists *)
      assert (KR : smap_delete_prefix (pi ++ c :: tl) (walk_edges rest) = walk_edges rest).
      { apply smap_delete_prefix_none. eapply kall_impl; [|exact Kr].
        intros k Hk. apply ekey_noprefix. revert Hk. apply ekey_impl. intros; lia. }
      destruct ch as [cl cp ces]. cbn [r_prefix] in Hp, Hc.
      pose proof (walk_under _ _ Hc) as Ku.
      remember (RNode cl cp ces) as ch eqn:Ech.
      destruct (negb (has_prefix cp (c :: tl)) && negb (has_prefix (c :: tl) cp)) eqn:NP.
      * (* neither is a prefix of the other: nothing to delete *)
        rewrite walk_edges_cons, smap_delete_prefix_app, KR. f_equal.
        apply smap_delete_prefix_none. eapply kall_impl; [|exact Ku].
        intros k [r ->]. rewrite <- app_assoc, has_prefix_app_l.
        destruct (has_prefix (cp ++ r) (c :: tl)) eqn:HP; [|reflexivity].
        apply has_prefix_comparable in HP. exfalso.
        destruct HP as [HP|HP]; rewrite HP in NP; simpl in NP;
          [discriminate | rewrite andb_false_r in NP; discriminate].
      * destruct (consume_cases _ _ NP) as [A1 A2].
        remember (if Nat.ltb (length (c :: tl)) (length cp) then []
                  else skipn (length cp) (c :: tl)) as pr eqn:Epr.
        clear Epr NP.
        destruct pr as [|x r'].
        -- (* the whole child goes: its edge is removed *)
           specialize (A1 eq_refl). clear A2.
           assert (KA : smap_delete_prefix (pi ++ c :: tl) (walk ch) = []).
           { apply smap_delete_prefix_all. eapply kall_impl; [|exact Ku].
             intros k [r ->]. apply has_prefix_spec in A1 as [r1 ->].
             apply has_prefix_spec. exists (r1 ++ r). nap. reflexivity. }
           rewrite !walk_edges_cons, smap_delete_prefix_app, KA, KR.
           split; [reflexivity|]. split; [rewrite !app_length; simpl length; lia|].
           split; [exact Hr|].
           intros Q F. cbn [elabels] in F. inversion F; assumption.
        -- (* descend *)
           specialize (A2 x r' eq_refl). clear A1.
           destruct (del_node false ch (x :: r')) as [ch' cnt] eqn:ED.
           apply (IHc false (pi ++ cp) (x :: r') Hc) in ED as (Hw & Hcnt & Hdis).
           rewrite <- app_assoc, <- A2 in Hw.
           rewrite !walk_edges_cons, smap_delete_prefix_app, KR, <- Hw.
           split; [reflexivity|]. split; [rewrite !app_length; lia|].
           split; [|intros Q F; exact F].
           cbn [wfe]. destruct Hdis as [[Hpre Hwf]|[_ (cp2 & Hpre & Hwf)]].
           ++ rewrite Hpre. subst ch. cbn [r_prefix]. split; [eauto|]. split; [exact Hwf|].
              split; assumption.
           ++ rewrite Hpre. subst ch. cbn [r_prefix]. rewrite Hp.
              split; [simpl; eauto|].
              split; [rewrite <- Hp, app_assoc; exact Hwf|]. split; assumption.
    + (* another label *)
      assert (KC : smap_delete_prefix (pi ++ c :: tl) (walk ch) = walk ch).
      { apply smap_delete_prefix_none. eapply kall_impl; [|exact Kc].
        intros k Hk. apply ekey_noprefix. revert Hk. apply ekey_impl. intros; congruence. }
      specialize (IHr pi c tl Hr).
      destruct (del_edges rest c (c :: tl)) as [[[rest' cnt] cleared]|] eqn:ER.
      * destruct IHr as (Hw & Hcnt & Hwf & Hlab).
        rewrite !walk_edges_cons, smap_delete_prefix_app, KC, <- Hw.
        split; [reflexivity|]. split; [rewrite !app_length; lia|].
        split.
        -- cbn [wfe]. split; [eauto|]. split; [exact Hc|]. split; [apply Hlab, Hlt | exact Hwf].
        -- intros Q F. cbn [elabels] in *. inversion F; subst. constructor; auto.
      * rewrite !walk_edges_cons, smap_delete_prefix_app, KC, IHr. reflexivity.
Qed.

(** ** tree level *)
Lemma r_delete_prefix_spec t a p t' cnt :
  tree_inv t a -> r_delete_prefix t p = (t', cnt) ->
  tree_inv t' (smap_delete_prefix p a)
  /\ cnt = (Z.of_nat (length a) - Z.of_nat (length (smap_delete_prefix p a)))%Z.
Proof.
  intros (W & Hw & Hs) E. unfold r_delete_prefix in E.
  destruct (del_node true (r_root t) p) as [root' cnt0] eqn:ED.
  injection E as <- <-.
  apply (proj1 del_both (r_root t) true [] p W) in ED as (Hw' & Hcnt & Hdis).
  simpl app in Hw'. rewrite Hw in *. rewrite <- Hw'.
  split; [|exact Hcnt].
  split; [|split].
  - cbn [r_root]. destruct Hdis as [[_ H]|[H _]]; [exact H | discriminate].
  - reflexivity.
  - cbn [r_root r_size]. lia.
Qed.
