(** C43 — v1 database/retention-policy names resolve to one bucket.  Property theorems only.

    Vocabulary (Model/C43.v): [run bk base ops] is the state of the DBRP mapping service
    after the operation history [ops] (Create / Update / Delete / DeleteBucket, any length,
    ANY ids — physical, virtual or unknown) started on the bucket table [bk] with mapping
    ids generated from [base]; [live st id r]: the mapping bucket holds record [r] under
    [id]; [dfl st]: the default bucket; [find_many st f] = FindMany with filter [f];
    [frp o d rp] = {org, db, rp}, [fdef o d] = {org, db, default=true} (the v1 look-up with
    an empty retention policy), [fod o d] = {org, db}.

    The only hypothesis is [wf_bk bk base]: bucket ids lie below the first generated mapping
    id (ids are unique across buckets and mappings, as with the snowflake generator).

    History: before the two repairs recorded in findings.d/C43.json (status fixed) the
    statements 1c, 2 and 6 were refuted by the faithful model and by the real code (a virtual
    mapping listed next to a physical one of the same (db, rp); Update of a virtual mapping
    storing an un-indexed default record; nil dereference in FindMany).  The model now
    mirrors the repaired code; the former counterexamples are the Examples at the end and
    hand-picked regression cases of the driver. *)
From Verif Require Import Base.Prelude Model.C43 Proofs.C43_base Proofs.C43_inv Proofs.C43 Proofs.C43_find.
Local Open Scope N_scope.

(** 1. Each (org, database, retention policy) resolves to at most one bucket, for all
    histories: (1a) at most one stored mapping per (org, db, rp); (1b) the look-up
    FindMany{org, db, rp} — the one the v1 write/query paths use — never fails and returns at
    most one mapping (physical or virtual); (1c) the listing FindMany{org, db} contains at
    most one mapping per (org, db, rp), virtual ones included. *)
Theorem C43_pair_resolves_to_at_most_one :
  forall bk base ops, wf_bk bk base ->
  (forall id1 id2 r1 r2, live (run bk base ops) id1 r1 -> live (run bk base ops) id2 r2 ->
     r_org r1 = r_org r2 -> r_db r1 = r_db r2 -> r_rp r1 = r_rp r2 -> id1 = id2 /\ r_bkt r1 = r_bkt r2) /\
  (forall o d rp, exists l, find_many (run bk base ops) (frp o d rp) = ROk l /\ (length l <= 1)%nat /\
     forall m, In m l -> m_org m = o /\ m_db m = d /\ m_rp m = rp) /\
  (forall o d, exists l, find_many (run bk base ops) (fod o d) = ROk l /\ NoDup (map key3 l)).
Proof.
  intros bk base ops W. split; [|split].
  - exact (pair_unique bk base ops W).
  - intros o d rp. exact (lookup_at_most_one bk base ops o d rp W).
  - intros o d. exact (listing_nodup bk base ops o d W).
Qed.
Print Assumptions C43_pair_resolves_to_at_most_one.

(** 2. Each database with at least one mapping has exactly one default mapping
    (as reported by FindByID / the [Default] flag every read path computes from [dfl]). *)
Theorem C43_exactly_one_default_per_db_with_mappings :
  forall bk base ops o d, wf_bk bk base ->
  (exists id r, live (run bk base ops) id r /\ r_org r = o /\ r_db r = d) ->
  exists id r, live (run bk base ops) id r /\ r_org r = o /\ r_db r = d /\
               is_default (run bk base ops) o d id = true /\
               forall id', is_default (run bk base ops) o d id' = true -> id' = id.
Proof. exact one_default. Qed.
Print Assumptions C43_exactly_one_default_per_db_with_mappings.

(** 3. A look-up with an empty retention policy (FindMany{org, db, default=true}) returns
    exactly the default mapping of the database, whenever the database has a mapping
    (the virtual pass adds nothing next to a physical default). *)
Theorem C43_empty_rp_returns_default :
  forall bk base ops o d, wf_bk bk base ->
  let st := run bk base ops in
  (exists id r, live st id r /\ r_org r = o /\ r_db r = d) ->
  exists id r, dget o d (dfl st) = Some id /\ live st id r /\ r_org r = o /\ r_db r = d /\
               find_many st (fdef o d) = ROk [rec2m id r true].
Proof. exact default_lookup. Qed.
Print Assumptions C43_empty_rp_returns_default.

(** 4. Deleting the default mapping [id] of (o, db) removes exactly it and promotes, if the
    database still has a mapping, the one the code picks: the remaining mapping of (o, db) with
    the SMALLEST id (getFirstBut walks the (org, db) index in ascending id order); otherwise
    the default entry is removed. *)
Theorem C43_delete_promotes :
  forall bk base ops o id r, wf_bk bk base ->
  let st := run bk base ops in
  live st id r -> r_org r = o -> dget o (r_db r) (dfl st) = Some id ->
  let st' := run bk base (ops ++ [Delete o id]) in
  lookup id (src st') = None /\
  (forall id', id' <> id -> lookup id' (src st') = lookup id' (src st)) /\
  match dget o (r_db r) (dfl st') with
  | Some f => (exists rf, live st' f rf /\ r_org rf = o /\ r_db rf = r_db r) /\
              (forall id' r', live st' id' r' -> r_org r' = o -> r_db r' = r_db r -> f <= id')
  | None => forall id' r', live st' id' r' -> ~ (r_org r' = o /\ r_db r' = r_db r)
  end.
Proof. exact delete_promotes. Qed.
Print Assumptions C43_delete_promotes.

(** 5. The default index and the (org, db) index agree with the stored mappings: a default
    entry points to a live mapping of that (org, db), which FindByID reports as default; no
    entry means no mapping; index entries are exactly the live mappings. *)
Theorem C43_index_consistent :
  forall bk base ops, wf_bk bk base ->
  let st := run bk base ops in
  (forall o d id, dget o d (dfl st) = Some id ->
     exists r, live st id r /\ r_org r = o /\ r_db r = d /\ find_by_id st o id = Some (rec2m id r true)) /\
  (forall o d, dget o d (dfl st) = None -> forall id r, live st id r -> ~ (r_org r = o /\ r_db r = d)) /\
  (forall o d id, In (o, d, id) (iod st) <-> exists r, live st id r /\ r_org r = o /\ r_db r = d).
Proof. exact index_consistent. Qed.
Print Assumptions C43_index_consistent.

(** 6. FindMany is total: after any history it neither fails nor panics, for every filter;
    and an Update addressed to a virtual mapping (a bucket id) is rejected without effect. *)
Theorem C43_findmany_total :
  forall bk base ops f, wf_bk bk base -> exists l, find_many (run bk base ops) f = ROk l.
Proof. intros bk base ops f W. apply find_many_total_inv with (base := base). apply run_inv; exact W. Qed.
Print Assumptions C43_findmany_total.

Theorem C43_update_of_virtual_mapping_rejected :
  forall bk base ops o id rp def virt b, wf_bk bk base ->
  let st := run bk base ops in
  find_bucket id (bks st) = Some b ->
  update st o id rp def virt = (st, E_NOTFOUND) \/ update st o id rp def virt = (st, E_INVALID).
Proof.
  intros bk base ops o id rp def virt b W st Fb.
  apply update_virtual_rejected with (base := base) (b := b); [apply run_inv; exact W | exact Fb].
Qed.
Print Assumptions C43_update_of_virtual_mapping_rejected.

(** The (org, db) index is kept in ascending id order without duplicates after EVERY history:
    this is what makes "first" = "smallest id". *)
Theorem C43_index_sorted :
  forall bk base ops, idx_ok (iod (run bk base ops)).
Proof. exact run_idx. Qed.
Print Assumptions C43_index_sorted.

(** Non-vacuity: a history after which database (1, "db") has two mappings, 101 is the
    default, and deleting it promotes 100 (the smallest remaining id). *)
Example C43_nonvacuous :
  let bk := [B 14 1 3 0 true 0] in
  let ops := [Create 1 1 1 14 false; Create 1 1 2 14 true; Create 1 1 0 14 false] in
  wf_bk bk 100 /\
  dget 1 1 (dfl (run bk 100 ops)) = Some 101 /\
  dget 1 1 (dfl (run bk 100 (ops ++ [Delete 1 101]))) = Some 100 /\
  find_many (run bk 100 ops) (fdef 1 1) = ROk [M 101 1 1 2 14 true false].
Proof.
  cbv zeta. split; [intros b [<- | []]; cbn; lia|].
  vm_compute. repeat split; reflexivity.
Qed.

(** The former counterexamples, now positive (regression cases idx 7-10 of the driver). *)
Example C43_former_shadow_counterexample :
  find_many (run bk_shadow 100 ops_shadow) (fod 1 1) =
    ROk [M 100 1 1 2 15 true false; M 101 1 1 0 15 false false].
Proof. exact shadow_fixed. Qed.

Example C43_former_ghost_counterexample :
  snd (step (run bk_ghost 100 (firstn 2 ops_ghost)) (Update 1 14 1 true true)) = E_NOTFOUND /\
  run bk_ghost 100 ops_ghost = run bk_ghost 100 (firstn 2 ops_ghost) /\
  find_many (run bk_ghost 100 ops_ghost) (fdef 1 1) = ROk [M 100 1 1 2 15 true false].
Proof. exact ghost_fixed. Qed.

Example C43_former_panic_counterexample :
  find_many (run [B 14 2 1 1 false 0] 100 [Update 2 14 1 false true]) F0 = ROk [M 14 2 1 1 14 false true].
Proof. exact ghost_panic_fixed. Qed.
