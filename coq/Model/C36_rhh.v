(** C36 (part 1) — robin-hood hash map, mirror of /repo/pkg/rhh/rhh.go.

    [HashMap] keeps two parallel arrays [hashes []int64] and [elems []hashElem{key,value,hash}].
    The field [hashElem.hash] is written by [insert] but never read anywhere, so a slot of the
    model is the triple ([hashes[i]], [elems[i].key], [elems[i].value]).  A slot is EMPTY iff its
    hash is 0 ([HashKey] never returns 0); a fresh / reset slot has the empty key and the nil
    value.  Values are Go [interface{}]; the driver stores positive integers, [0] stands for nil.

    [hash & mask] and [(pos+1) & mask] with [mask = capacity-1] are written [mod capacity]:
    the capacity is always produced by [pow2] (a power of two), where the two coincide.
    [n] is an int64 that the code increments and decrements: [Z].

    The loops [insert] and [index] are [for { … }] without a bound; the model runs them with
    fuel [capacity+1] and returns [None] when it runs out (= the real loop would still be
    running).  [Proofs/C36_rhh*.v] shows the fuel always suffices on states reachable with a
    load factor <= 100.

    The hash function (xxhash, external) is a Section variable; the correspondence driver
    passes the real [rhh.HashKey] values of the keys of a case as a table.

    No proofs in this file. *)
From Verif Require Import Base.Prelude.

Definition bytes := list N.
Definition bytes_eqb (a b : bytes) : bool := list_eqb N.eqb a b.

(** [bytes.Compare(a, b) == -1] *)
Fixpoint bytes_ltb (a b : bytes) : bool :=
  match a, b with
  | [], [] => false
  | [], _ :: _ => true
  | _ :: _, [] => false
  | x :: a', y :: b' => if N.ltb x y then true else if N.ltb y x then false else bytes_ltb a' b'
  end.

Fixpoint bytes_insert_sorted (k : bytes) (l : list bytes) : list bytes :=
  match l with
  | [] => [k]
  | x :: r => if bytes_ltb x k then x :: bytes_insert_sorted k r else k :: l
  end.
(** [sort.Sort(byteSlices(a))]: any correct sort gives the same list up to equal elements. *)
Definition bytes_sort (l : list bytes) : list bytes := fold_right bytes_insert_sorted [] l.

Record slot := { s_hash : N; s_key : bytes; s_val : N }.
Definition empty_slot : slot := {| s_hash := 0; s_key := []; s_val := 0 |}.
Definition slot_eqb (a b : slot) : bool :=
  N.eqb (s_hash a) (s_hash b) && bytes_eqb (s_key a) (s_key b) && N.eqb (s_val a) (s_val b).

Record hmap := { h_tbl : list slot; h_n : Z; h_cap : N; h_lf : N }.

Definition tget (t : list slot) (p : N) : slot := nth (N.to_nat p) t empty_slot.
Fixpoint tset_nat (t : list slot) (p : nat) (x : slot) : list slot :=
  match t, p with
  | [], _ => []
  | _ :: r, O => x :: r
  | y :: r, S p' => y :: tset_nat r p' x
  end.
Definition tset (t : list slot) (p : N) (x : slot) : list slot := tset_nat t (N.to_nat p) x.

(** [Dist(hash, i, capacity) = (i + capacity - (hash & mask)) & mask] *)
Definition dist (hash i cap : N) : N := ((i + cap - (hash mod cap)) mod cap)%N.

(** [pow2(v)]: [for i := 2; i < 1<<62; i *= 2 { if i >= v { return i } }; panic] — the panic
    beyond 2^62 is not modelled (the driver uses small sizes). *)
Fixpoint pow2_loop (fuel : nat) (i v : N) : N :=
  match fuel with
  | O => i
  | S f => if N.leb v i then i else pow2_loop f (2 * i)%N v
  end.
Definition pow2 (v : N) : N := pow2_loop 62 2%N v.

Definition h_threshold (m : hmap) : N := ((h_cap m * h_lf m) / 100)%N.

Definition h_alloc (cap : N) : list slot := repeat empty_slot (N.to_nat cap).

(** [NewHashMap(Options{Capacity: c, LoadFactor: lf})] *)
Definition h_new (c lf : N) : hmap :=
  let cap := pow2 c in {| h_tbl := h_alloc cap; h_n := 0%Z; h_cap := cap; h_lf := lf |}.

(** [insert(hash, key, val)]: the robin-hood loop.  State of the loop: the element in hand
    ([h], [k], [v]), its probe distance [d], the position [pos].  Result: the new table and
    the [overwritten] flag (= [match] of the last visited slot; [match] requires the slot to be
    occupied: [occupied := hashes[pos] != 0; match := occupied && bytes.Equal(key, searchKey)]). *)
Fixpoint insert_loop (fuel : nat) (cap : N) (t : list slot) (pos d h : N) (k : bytes) (v : N)
  : option (list slot * bool) :=
  match fuel with
  | O => None
  | S f =>
      let e := tget t pos in
      let occupied := negb (N.eqb (s_hash e) 0) in
      let mtch := occupied && bytes_eqb (s_key e) k in
      if negb occupied || mtch then
        Some (tset t pos {| s_hash := h; s_key := k; s_val := v |}, mtch)
      else
        let ed := dist (s_hash e) pos cap in
        if N.ltb ed d then
          (* swap with the current position and carry the evicted element on *)
          insert_loop f cap (tset t pos {| s_hash := h; s_key := k; s_val := v |})
                      ((pos + 1) mod cap)%N (ed + 1)%N (s_hash e) (s_key e) (s_val e)
        else
          insert_loop f cap t ((pos + 1) mod cap)%N (d + 1)%N h k v
  end.

Definition insert (cap : N) (t : list slot) (h : N) (k : bytes) (v : N) : option (list slot * bool) :=
  insert_loop (S (N.to_nat cap)) cap t (h mod cap)%N 0%N h k v.

(** The re-insertion loop of [Grow] over the old slots, in slot order. *)
Fixpoint regrow (cap : N) (old : list slot) (t : list slot) : option (list slot) :=
  match old with
  | [] => Some t
  | e :: r =>
      if N.eqb (s_hash e) 0 then regrow cap r t
      else match insert cap t (s_hash e) (s_key e) (s_val e) with
           | None => None
           | Some (t', _) => regrow cap r t'
           end
  end.

(** [Grow(sz)] *)
Definition h_grow (m : hmap) (sz : N) : option hmap :=
  let sz := pow2 sz in
  if N.leb sz (h_cap m) then Some m
  else match regrow sz (h_tbl m) (h_alloc sz) with
       | None => None
       | Some t => Some {| h_tbl := t; h_n := h_n m; h_cap := sz; h_lf := h_lf m |}
       end.

(** [index(key)] returns the slot of [key] or -1 ([None]).  Running out of fuel also gives
    [None]; with fuel [capacity+1] that cannot happen because the loop exits as soon as
    [dist > Dist(..) ], and [Dist < capacity] (lemma [index_fuel_irrelevant]). *)
Fixpoint index_loop (fuel : nat) (cap : N) (t : list slot) (pos d h : N) (k : bytes) : option N :=
  match fuel with
  | O => None
  | S f =>
      let e := tget t pos in
      if N.eqb (s_hash e) 0 then None
      else if N.ltb (dist (s_hash e) pos cap) d then None
      else if N.eqb (s_hash e) h && bytes_eqb (s_key e) k then Some pos
      else index_loop f cap t ((pos + 1) mod cap)%N (d + 1)%N h k
  end.

Section RHH.
  Variable hashf : bytes -> N.   (* rhh.HashKey *)

  Definition h_index (m : hmap) (k : bytes) : option N :=
    index_loop (S (N.to_nat (h_cap m))) (h_cap m) (h_tbl m) (hashf k mod h_cap m)%N 0%N (hashf k) k.

  (** [Get]: the value, nil (0) if absent. *)
  Definition h_get (m : hmap) (k : bytes) : N :=
    match h_index m k with Some i => s_val (tget (h_tbl m) i) | None => 0%N end.

  (** [put] (instrumentation dropped): [n++]; grow if [n > threshold]; insert; [n--] if overwritten. *)
  Definition h_put (m : hmap) (k : bytes) (v : N) : option hmap :=
    let n1 := (h_n m + 1)%Z in
    let m0 := {| h_tbl := h_tbl m; h_n := n1; h_cap := h_cap m; h_lf := h_lf m |} in
    match (if Z.ltb (Z.of_N (h_threshold m)) n1 then h_grow m0 (h_cap m * 2)%N else Some m0) with
    | None => None
    | Some m1 =>
        match insert (h_cap m1) (h_tbl m1) (hashf k) k v with
        | None => None
        | Some (t, ow) =>
            Some {| h_tbl := t; h_n := if ow then (n1 - 1)%Z else n1; h_cap := h_cap m1; h_lf := h_lf m1 |}
        end
    end.

  (** [Reset] *)
  Definition h_reset (m : hmap) : hmap :=
    {| h_tbl := h_alloc (h_cap m); h_n := 0%Z; h_cap := h_cap m; h_lf := h_lf m |}.

  (** [Keys]: [Elem(i)] for every slot, skipping nil VALUES, sorted. *)
  Definition h_keys (m : hmap) : list bytes :=
    bytes_sort (map s_key (filter (fun e => negb (N.eqb (s_val e) 0)) (h_tbl m))).

  Inductive hop := HPut (k : bytes) (v : N) | HGet (k : bytes) | HGrow (sz : N) | HReset.

  (** One operation; the observation is (Get result or 0, Len, Cap) after the operation. *)
  Definition h_step (m : hmap) (o : hop) : option (hmap * (N * Z * N)) :=
    match o with
    | HPut k v => match h_put m k v with
                  | Some m' => Some (m', (0%N, h_n m', h_cap m')) | None => None end
    | HGet k => Some (m, (h_get m k, h_n m, h_cap m))
    | HGrow sz => match h_grow m sz with
                  | Some m' => Some (m', (0%N, h_n m', h_cap m')) | None => None end
    | HReset => let m' := h_reset m in Some (m', (0%N, h_n m', h_cap m'))
    end.

  Fixpoint h_run (m : hmap) (ops : list hop) : option (hmap * list (N * Z * N)) :=
    match ops with
    | [] => Some (m, [])
    | o :: r =>
        match h_step m o with
        | None => None
        | Some (m', ob) =>
            match h_run m' r with
            | None => None
            | Some (m'', obs) => Some (m'', ob :: obs)
            end
        end
    end.
End RHH.

(** ** The abstract map (independent oracle): an association list without duplicate keys. *)
Fixpoint amap_remove (k : bytes) (a : list (bytes * N)) : list (bytes * N) :=
  match a with
  | [] => []
  | (k', v') :: r => if bytes_eqb k' k then amap_remove k r else (k', v') :: amap_remove k r
  end.
Definition amap_put (k : bytes) (v : N) (a : list (bytes * N)) := (k, v) :: amap_remove k a.
Fixpoint amap_get (k : bytes) (a : list (bytes * N)) : option N :=
  match a with
  | [] => None
  | (k', v') :: r => if bytes_eqb k' k then Some v' else amap_get k r
  end.
Definition amap_step (a : list (bytes * N)) (o : hop) : list (bytes * N) :=
  match o with
  | HPut k v => amap_put k v a
  | HReset => []
  | _ => a
  end.

(** Oracle over the observed (value, Len) of each step — the capacity is not part of the
    map abstraction. *)
Fixpoint amap_oracle (a : list (bytes * N)) (ops : list hop) (obs : list (N * Z * N)) : bool :=
  match ops, obs with
  | [], [] => true
  | o :: r, (v, n, _) :: obs' =>
      let a' := amap_step a o in
      (match o with
       | HGet k => N.eqb v (match amap_get k a with Some x => x | None => 0%N end)
       | _ => true
       end)
      && Z.eqb n (Z.of_nat (length a'))
      && amap_oracle a' r obs'
  | _, _ => false
  end.
Definition amap_final (ops : list hop) : list (bytes * N) := fold_left amap_step ops [].

Definition hash_of_table (tab : list (bytes * N)) (k : bytes) : N :=
  match amap_get k tab with Some h => h | None => 1%N end.

Definition obs_eqb (a b : N * Z * N) : bool :=
  let '(v, n, c) := a in let '(v', n', c') := b in N.eqb v v' && Z.eqb n n' && N.eqb c c'.

(** Correspondence judge for one rhh history.  [obs]: per-op observations of the real map;
    [keys]: the final [Keys()]; [gets]: final [Get] of every key of the hash table. *)
Definition check_rhh (cap lf : N) (tab : list (bytes * N)) (ops : list hop)
           (obs : list (N * Z * N)) (keys : list bytes) (gets : list N) : verdict :=
  let hf := hash_of_table tab in
  let fin := amap_final ops in
  let same :=
    match h_run hf (h_new cap lf) ops with
    | None => false
    | Some (m, mobs) =>
        list_eqb obs_eqb obs mobs && list_eqb bytes_eqb keys (h_keys m)
        && list_eqb N.eqb gets (map (fun kh => h_get hf m (fst kh)) tab)
    end in
  let ok :=
    amap_oracle [] ops obs
    && list_eqb bytes_eqb keys (bytes_sort (map fst fin))
    && list_eqb N.eqb gets (map (fun kh => match amap_get (fst kh) fin with Some x => x | None => 0%N end) tab) in
  judge same ok.
