// C28 driver: real influxdb.Permission.Matches / PermissionSet.Allowed on generated
// permission sets and requests; exhaustive grid in thorough tier (n >= 70000).
package main

import (
	"fmt"

	influxdb "github.com/influxdata/influxdb/v2"
	"github.com/influxdata/influxdb/v2/kit/platform"
	"verifh/vh"
)

type jperm struct {
	Action string  `json:"action"`
	Type   string  `json:"type"`
	ID     *uint64 `json:"id,omitempty"`
	Org    *uint64 `json:"org,omitempty"`
}
type jcase struct {
	Perms   []jperm `json:"perms"`
	Req     jperm   `json:"req"`
	Allowed bool    `json:"impl_allowed"`
	Matches []bool  `json:"impl_matches"`
}

var actions = []string{"read", "write"}
var types []string
var types_in = vh.NewInterner(string(influxdb.InstanceResourceType))
var act_in = vh.NewInterner("read", "write")

func toPerm(j jperm) influxdb.Permission {
	p := influxdb.Permission{Action: influxdb.Action(j.Action), Resource: influxdb.Resource{Type: influxdb.ResourceType(j.Type)}}
	if j.ID != nil {
		id := platform.ID(*j.ID)
		p.Resource.ID = &id
	}
	if j.Org != nil {
		id := platform.ID(*j.Org)
		p.Resource.OrgID = &id
	}
	return p
}
func term(j jperm) string {
	return fmt.Sprintf("{| act := %s; res := {| rtype := %s; rid := %s; rorg := %s |} |}",
		vh.N(act_in.ID(j.Action)), vh.N(types_in.ID(j.Type)), vh.OptN(j.ID), vh.OptN(j.Org))
}

func run(w *vh.W, c *jcase) {
	ps := make([]influxdb.Permission, len(c.Perms))
	terms := make([]string, len(c.Perms))
	c.Matches = make([]bool, len(c.Perms))
	req := toPerm(c.Req)
	for i, j := range c.Perms {
		ps[i] = toPerm(j)
		terms[i] = term(j)
		c.Matches[i] = ps[i].Matches(req)
	}
	c.Allowed = influxdb.PermissionSet(ps).Allowed(req)
	nontrivial := false
	for _, j := range c.Perms { // non-trivial: some permission shares action and type (or is instance-wide)
		if j.Action == c.Req.Action && (j.Type == c.Req.Type || j.Type == "instance") {
			nontrivial = true
		}
	}
	t := fmt.Sprintf("{| c_ps := %s; c_q := %s; c_allowed := %s; c_matches := %s |}",
		vh.List(terms), term(c.Req), vh.Bool(c.Allowed), vh.Bools(c.Matches))
	w.Add(t, c, nontrivial, "")
	w.Count("allowed", fmt.Sprint(c.Allowed))
	w.Count("nperms", fmt.Sprint(len(c.Perms)))
}

func main() {
	w := vh.New("C28", "From Verif Require Import Base.Prelude Model.C28.", "case", "check")
	w.Rule = "random permission sets (0-4 perms) and a request over 2 actions x all resource types x {nil,2 ids} x {nil,2 orgs}, biased so perms share action/type with the request; n>=70000 adds the exhaustive single-permission grid. Non-trivial: some permission has the request's action and (its type or instance type). Distinct: distinct Gallina terms."
	for _, t := range influxdb.AllResourceTypes {
		types = append(types, string(t))
	}
	types = append(types, string(influxdb.InstanceResourceType))
	var rc jcase
	if w.ReplayCase(&rc) {
		run(w, &rc)
		w.Finish()
		return
	}
	r := w.Rng
	ids := []*uint64{nil, ptr(1), ptr(2)}
	gen := func(like *jperm) jperm {
		j := jperm{Action: actions[r.IntN(2)], Type: types[r.IntN(len(types))], ID: ids[r.IntN(3)], Org: ids[r.IntN(3)]}
		if like != nil {
			if r.IntN(4) != 0 {
				j.Action = like.Action
			}
			if r.IntN(3) != 0 {
				j.Type = like.Type
			}
			if r.IntN(6) == 0 {
				j.Type = "instance"
			}
		}
		return j
	}
	if w.N >= 70000 { // exhaustive grid over one permission x one request
		small := append([]string{}, types...)
		for _, a1 := range actions {
			for _, t1 := range small {
				for _, i1 := range ids {
					for _, o1 := range ids {
						for _, a2 := range actions {
							for _, t2 := range []string{t1, "buckets", "instance", "orgs"} {
								for _, i2 := range ids {
									for _, o2 := range ids {
										c := jcase{Perms: []jperm{{a1, t1, i1, o1}}, Req: jperm{a2, t2, i2, o2}}
										run(w, &c)
									}
								}
							}
						}
					}
				}
			}
		}
		w.Extra["exhaustive_grid"] = w.Len()
	}
	for w.Len() < w.N {
		req := gen(nil)
		n := r.IntN(5)
		c := jcase{Req: req}
		for i := 0; i < n; i++ {
			c.Perms = append(c.Perms, gen(&req))
		}
		run(w, &c)
	}
	w.Finish()
}

func ptr(v uint64) *uint64 { return &v }
