// C17 driver: a real tsdb.Store (tsi1 index, series file, WAL, 2-3 shards of one database)
// executes generated histories:
//
//	write   Store.WriteToShard(shard, points)                 (2 integer fields per series)
//	snap    tsm1.Engine.WriteSnapshot() of one shard          (cache -> TSM file)
//	delete  Store.DeleteSeriesWithPredicate(db, lo, hi, pred, measurementExpr)
//	        = what storage.Engine.DeleteBucketRangePredicate calls; pred/measurementExpr are built
//	        from the delete-API TEXT exactly as http.decodeDeleteRequest does (predicate.Parse ->
//	        predicate.New; influxql.ParseExpr + PartitionExpr on _measurement) when the predicate
//	        is in the API grammar, else directly from protobuf (OR, other operators) with a nil
//	        measurement expression.
//	        After every delete: every (shard, series, field) is read back through
//	        Shard.CreateCursorIterator, and per shard the series listing
//	        (Index.MeasurementIterator x MeasurementSeriesIDIterator + series file), plus
//	        Store.MeasurementNames and Store.TagValues(t0) over all shards.
//	guard   a delete parked at the K-th occurrence of the verif hook point
//	        "tsm1.delete:after-tombstones" / "tsm1.delete:after-cache" (once per shard and selected
//	        measurement; shards are processed one at a time, so the delete holds its epoch guard
//	        on exactly one shard) + a non-conflicting Store.WriteToShard (no point inside the
//	        delete's time range: must complete while parked) + one conflicting write per shard
//	        (exactly the one to the shard being processed must stay blocked; all complete after
//	        the release; nobody may deadlock).
//
// One case = one history with every observation; the Coq judge coq/Model/C17.v replays it.
package main

import (
	"bytes"
	"context"
	"encoding/json"
	"fmt"
	"math"
	"os"
	"path/filepath"
	"sort"
	"strconv"
	"strings"
	"sync"
	"time"

	"github.com/influxdata/influxdb/v2"
	"github.com/influxdata/influxdb/v2/models"
	"github.com/influxdata/influxdb/v2/pkg/verifhook"
	"github.com/influxdata/influxdb/v2/predicate"
	"github.com/influxdata/influxdb/v2/storage/reads/datatypes"
	"github.com/influxdata/influxdb/v2/tsdb"
	"github.com/influxdata/influxdb/v2/tsdb/cursors"
	_ "github.com/influxdata/influxdb/v2/tsdb/engine"
	"github.com/influxdata/influxdb/v2/tsdb/engine/tsm1"
	_ "github.com/influxdata/influxdb/v2/tsdb/index"
	"github.com/influxdata/influxql"
	"go.uber.org/zap"
	"verifh/vh"
)

const db, rp = "db0", "rp0"
const nFields = 2

// B is a byte string rendered in JSON as a Go-quoted ASCII string.
type B []byte

func (b B) MarshalJSON() ([]byte, error) { return json.Marshal(strconv.QuoteToASCII(string(b))) }
func (b *B) UnmarshalJSON(d []byte) error {
	var s string
	if err := json.Unmarshal(d, &s); err != nil {
		return err
	}
	u, err := strconv.Unquote(s)
	if err != nil {
		return err
	}
	*b = B(u)
	return nil
}

type jopnd struct {
	Kind string `json:"kind"`
	S    B      `json:"s"`
}
type jnode struct {
	Op string `json:"op"`
	L  *jopnd `json:"l,omitempty"`
	R  *jopnd `json:"r,omitempty"`
	A  *jnode `json:"a,omitempty"`
	B  *jnode `json:"b,omitempty"`
}
type jdef struct {
	Name B      `json:"name"`
	Tags [][2]B `json:"tags"` // sorted by key, without the \x00 tag
}
type jpoint struct {
	S int   `json:"s"` // series index into defs
	F int   `json:"f"`
	T int64 `json:"t"`
	V int64 `json:"v"`
}
type jobs struct {
	Reads     [][][][2]int64 `json:"reads"`      // shard -> key (series*2+field) -> points
	Listed    [][]int        `json:"listed"`     // shard -> sorted series indices listed by the index
	Meas      [][]B          `json:"meas"`       // shard -> measurement names listed by the index
	StoreMeas []B            `json:"store_meas"` // Store.MeasurementNames
	TagVals   []B            `json:"tagvals_t0"` // Store.TagValues for key t0 over all shards, sorted distinct
}
type jstep struct {
	Op     string   `json:"op"`
	Shard  int      `json:"shard,omitempty"` // 0-based
	Points []jpoint `json:"points,omitempty"`
	Lo     int64    `json:"lo,omitempty"`
	Hi     int64    `json:"hi,omitempty"`
	Pred   *jnode   `json:"pred,omitempty"`
	UseAPI bool     `json:"use_api,omitempty"` // build pred + measurement expr from the text
	Text   string   `json:"text,omitempty"`
	MName  *B       `json:"mname,omitempty"` // measurement name the store extracts from the measurement expr
	// guard step: park the delete at the K-th occurrence (0-based) of hook point Hook
	WA   []jpoint   `json:"wa,omitempty"`  // non-conflicting writer, to shard Shard
	WBs  [][]jpoint `json:"wbs,omitempty"` // conflicting writers, one per shard (index = shard)
	Hook string     `json:"hook,omitempty"`
	K    int        `json:"k,omitempty"`
	// observations
	Err       string `json:"impl_err,omitempty"`
	Obs       *jobs  `json:"impl_obs,omitempty"`
	Parked    bool   `json:"impl_parked,omitempty"`
	AEarly    bool   `json:"impl_a_done_while_parked,omitempty"`
	NBlocked  int    `json:"impl_conflicting_writers_blocked_while_parked"`
	BDone     []bool `json:"impl_conflicting_writer_done_while_parked,omitempty"`
	AfterBoth bool   `json:"impl_both_done_after_release,omitempty"`
}
type jcase struct {
	Kind    string  `json:"kind"`
	Defs    []jdef  `json:"defs"`
	NShards int     `json:"nshards"`
	Steps   []jstep `json:"steps"`
	Note    string  `json:"note,omitempty"`
}

// ---- predicate construction (same shapes as the C16 driver) ----
var cmpOps = map[string]datatypes.Node_Comparison{
	"eq": datatypes.Node_ComparisonEqual, "neq": datatypes.Node_ComparisonNotEqual,
	"starts": datatypes.Node_ComparisonStartsWith, "lt": datatypes.Node_ComparisonLess,
	"le": datatypes.Node_ComparisonLessEqual, "gt": datatypes.Node_ComparisonGreater,
	"ge": datatypes.Node_ComparisonGreaterEqual,
}
var coqOps = map[string]string{"eq": "OpEq", "neq": "OpNeq", "starts": "OpStarts", "lt": "OpLt", "le": "OpLe", "gt": "OpGt", "ge": "OpGe"}

func pbOpnd(o *jopnd) *datatypes.Node {
	if o.Kind == "ref" {
		return &datatypes.Node{NodeType: datatypes.Node_TypeTagRef, Value: &datatypes.Node_TagRefValue{TagRefValue: string(o.S)}}
	}
	return &datatypes.Node{NodeType: datatypes.Node_TypeLiteral, Value: &datatypes.Node_StringValue{StringValue: string(o.S)}}
}
func pbNode(n *jnode) *datatypes.Node {
	switch n.Op {
	case "and", "or":
		l := datatypes.Node_LogicalAnd
		if n.Op == "or" {
			l = datatypes.Node_LogicalOr
		}
		return &datatypes.Node{NodeType: datatypes.Node_TypeLogicalExpression, Value: &datatypes.Node_Logical_{Logical: l},
			Children: []*datatypes.Node{pbNode(n.A), pbNode(n.B)}}
	}
	return &datatypes.Node{NodeType: datatypes.Node_TypeComparisonExpression, Value: &datatypes.Node_Comparison_{Comparison: cmpOps[n.Op]},
		Children: []*datatypes.Node{pbOpnd(n.L), pbOpnd(n.R)}}
}
func coqNode(n *jnode) string {
	switch n.Op {
	case "and":
		return "(PAnd " + coqNode(n.A) + " " + coqNode(n.B) + ")"
	case "or":
		return "(POr " + coqNode(n.A) + " " + coqNode(n.B) + ")"
	}
	return "(PCmp " + coqOps[n.Op] + " (LRef " + vh.Bytes(n.L.S) + ") (RLit " + vh.Bytes(n.R.S) + "))"
}

var specialKeys = map[string]string{"\x00": "_measurement"}

func quoteIdent(s string) (string, bool) {
	var b strings.Builder
	b.WriteByte('"')
	for i := 0; i < len(s); i++ {
		c := s[i]
		switch {
		case c == '"':
			b.WriteString(`\"`)
		case c == '\\':
			b.WriteString(`\\`)
		case c < 0x20 || c >= 0x7f:
			return "", false
		default:
			b.WriteByte(c)
		}
	}
	b.WriteByte('"')
	return b.String(), true
}
func apiText(n *jnode, top bool) (string, bool) {
	switch n.Op {
	case "and":
		a, ok1 := apiText(n.A, false)
		b, ok2 := apiText(n.B, false)
		if !ok1 || !ok2 {
			return "", false
		}
		s := a + " AND " + b
		if !top {
			s = "(" + s + ")"
		}
		return s, true
	case "eq", "neq":
		k := string(n.L.S)
		if sp, ok := specialKeys[k]; ok {
			k = sp
		}
		ks, ok1 := quoteIdent(k)
		vs, ok2 := quoteIdent(string(n.R.S))
		if !ok1 || !ok2 {
			return "", false
		}
		op := " = "
		if n.Op == "neq" {
			op = " != "
		}
		return ks + op + vs, true
	}
	return "", false
}

// measurementExpr is the relevant part of http.decodeDeleteRequest (delete_handler.go).
func measurementExpr(text string) (influxql.Expr, error) {
	expr, err := influxql.ParseExpr(text)
	if err != nil {
		return nil, err
	}
	m, _, err := influxql.PartitionExpr(influxql.CloneExpr(expr), func(e influxql.Expr) (bool, error) {
		switch e := e.(type) {
		case *influxql.BinaryExpr:
			switch e.Op {
			case influxql.EQ, influxql.NEQ, influxql.EQREGEX, influxql.NEQREGEX:
				tag, ok := e.LHS.(*influxql.VarRef)
				if ok && tag.Val == "_measurement" {
					return true, nil
				}
			}
		}
		return false, nil
	})
	return m, err
}

// ---- the store ----
type env struct {
	root  string
	store *tsdb.Store
	defs  []jdef
	n     int
}

func openStore(c *jcase) (*env, error) {
	root, err := os.MkdirTemp("", "c17-")
	if err != nil {
		return nil, err
	}
	s := tsdb.NewStore(filepath.Join(root, "data"))
	s.EngineOptions.IndexVersion = tsdb.TSI1IndexName
	s.EngineOptions.Config.WALDir = filepath.Join(root, "wal")
	s.EngineOptions.MonitorDisabled = true
	s.WithLogger(zap.NewNop())
	if err := s.Open(context.Background()); err != nil {
		os.RemoveAll(root)
		return nil, err
	}
	for i := 0; i < c.NShards; i++ {
		if err := s.CreateShard(context.Background(), db, rp, uint64(i+1), true); err != nil {
			s.Close()
			os.RemoveAll(root)
			return nil, err
		}
	}
	return &env{root: root, store: s, defs: c.Defs, n: c.NShards}, nil
}
func (e *env) close() {
	e.store.Close()
	os.RemoveAll(e.root)
}
func (e *env) tags(s int) models.Tags {
	var t models.Tags
	for _, kv := range e.defs[s].Tags {
		t = append(t, models.Tag{Key: []byte(kv[0]), Value: []byte(kv[1])})
	}
	return t
}
func (e *env) points(ps []jpoint) ([]models.Point, error) {
	var out []models.Point
	for _, p := range ps {
		pt, err := models.NewPoint(string(e.defs[p.S].Name), e.tags(p.S), models.Fields{fmt.Sprintf("f%d", p.F): p.V}, time.Unix(0, p.T))
		if err != nil {
			return nil, err
		}
		out = append(out, pt)
	}
	return out, nil
}

func (e *env) observe() (*jobs, error) {
	ctx := context.Background()
	o := &jobs{}
	keyIdx := map[string]int{}
	for i, d := range e.defs {
		keyIdx[string(models.MakeKey(d.Name, e.tags(i)))] = i
	}
	var ids []uint64
	for shi := 0; shi < e.n; shi++ {
		ids = append(ids, uint64(shi+1))
		sh := e.store.Shard(uint64(shi + 1))
		if sh == nil {
			return nil, fmt.Errorf("shard %d missing", shi+1)
		}
		// reads
		reads := make([][][2]int64, len(e.defs)*nFields)
		for s := range e.defs {
			for f := 0; f < nFields; f++ {
				res := [][2]int64{}
				itr, err := sh.CreateCursorIterator(ctx)
				if err != nil {
					return nil, err
				}
				cur, err := itr.Next(ctx, &cursors.CursorRequest{Name: e.defs[s].Name, Tags: e.tags(s), Field: fmt.Sprintf("f%d", f),
					Ascending: true, StartTime: models.MinNanoTime, EndTime: models.MaxNanoTime})
				if err != nil {
					return nil, err
				}
				if cur != nil {
					c, ok := cur.(cursors.IntegerArrayCursor)
					if !ok {
						return nil, fmt.Errorf("unexpected cursor type %T", cur)
					}
					for {
						a := c.Next()
						if a.Len() == 0 {
							break
						}
						for i := range a.Timestamps {
							res = append(res, [2]int64{a.Timestamps[i], a.Values[i]})
						}
					}
					if err := cur.Err(); err != nil {
						return nil, err
					}
					cur.Close()
				}
				reads[s*nFields+f] = res
			}
		}
		o.Reads = append(o.Reads, reads)
		// listing
		idx, err := sh.Index()
		if err != nil {
			return nil, err
		}
		sfile, err := sh.SeriesFile()
		if err != nil {
			return nil, err
		}
		listed := []int{}
		meas := []B{}
		mitr, err := idx.MeasurementIterator()
		if err != nil {
			return nil, err
		}
		if mitr != nil {
			for {
				mm, err := mitr.Next()
				if err != nil {
					return nil, err
				}
				if mm == nil {
					break
				}
				name := append([]byte{}, mm...)
				meas = append(meas, B(name))
				sitr, err := idx.MeasurementSeriesIDIterator(name)
				if err != nil {
					return nil, err
				}
				if sitr == nil {
					continue
				}
				for {
					el, err := sitr.Next()
					if err != nil {
						return nil, err
					}
					if el.SeriesID == 0 {
						break
					}
					k := sfile.SeriesKey(el.SeriesID)
					if len(k) == 0 {
						continue // tombstoned in the series file
					}
					n, t := tsdb.ParseSeriesKey(k)
					i, ok := keyIdx[string(models.MakeKey(n, t))]
					if !ok {
						return nil, fmt.Errorf("index lists unknown series %q", models.MakeKey(n, t))
					}
					listed = append(listed, i)
				}
				sitr.Close()
			}
			mitr.Close()
		}
		sort.Ints(listed)
		sort.Slice(meas, func(i, j int) bool { return bytes.Compare(meas[i], meas[j]) < 0 })
		o.Listed = append(o.Listed, listed)
		o.Meas = append(o.Meas, meas)
	}
	names, err := e.store.MeasurementNames(ctx, nil, db, nil)
	if err != nil {
		return nil, err
	}
	o.StoreMeas = []B{}
	for _, n := range names {
		o.StoreMeas = append(o.StoreMeas, B(append([]byte{}, n...)))
	}
	sort.Slice(o.StoreMeas, func(i, j int) bool { return bytes.Compare(o.StoreMeas[i], o.StoreMeas[j]) < 0 })
	// TagValues for t0 (SHOW TAG VALUES WITH KEY = t0)
	tv, err := e.store.TagValues(ctx, nil, ids, &influxql.BinaryExpr{Op: influxql.EQ,
		LHS: &influxql.VarRef{Val: "_tagKey"}, RHS: &influxql.StringLiteral{Val: "t0"}})
	if err != nil {
		return nil, err
	}
	set := map[string]bool{}
	for _, m := range tv {
		for _, kv := range m.Values {
			if kv.Key == "t0" {
				set[kv.Value] = true
			}
		}
	}
	o.TagVals = []B{}
	for _, v := range vh.SortedKeys(set) {
		o.TagVals = append(o.TagVals, B(v))
	}
	return o, nil
}

func buildPred(st *jstep) (influxdb.Predicate, influxql.Expr, error) {
	if st.UseAPI {
		txt, ok := apiText(st.Pred, true)
		if !ok {
			return nil, nil, fmt.Errorf("predicate not expressible as delete-API text")
		}
		st.Text = txt
		node, err := predicate.Parse(txt)
		if err != nil {
			return nil, nil, err
		}
		p, err := predicate.New(node)
		if err != nil {
			return nil, nil, err
		}
		m, err := measurementExpr(txt)
		if err != nil {
			return nil, nil, err
		}
		st.MName = nil
		// what Store.DeleteSeriesWithPredicate extracts: the RHS of an EQUALITY only
		if be, ok := m.(*influxql.BinaryExpr); ok && be.Op == influxql.EQ {
			if rhs, ok := be.RHS.(*influxql.VarRef); ok {
				b := B(rhs.Val)
				st.MName = &b
			}
		}
		return p, m, nil
	}
	p, err := tsm1.NewProtobufPredicate(&datatypes.Predicate{Root: pbNode(st.Pred)})
	return p, nil, err
}

// ---- hook plumbing: park one delete at the K-th occurrence of a hook point ----
// (the point fires once per Engine.deleteSeriesRange call, i.e. once per shard and selected
// measurement; shards are processed one at a time)
var (
	hmu      sync.Mutex
	armed    bool
	hookName string
	hookK    int
	hookSeen int
	reached  chan struct{}
	resume   chan struct{}
)

func hook(name string) {
	hmu.Lock()
	if !armed || name != hookName {
		hmu.Unlock()
		return
	}
	n := hookSeen
	hookSeen++
	if n != hookK {
		hmu.Unlock()
		return
	}
	armed = false
	r, c := reached, resume
	hmu.Unlock()
	close(r)
	<-c
}

const deadline = 40 * time.Second

func runCase(w *vh.W, c *jcase) {
	idx := w.Len()
	sig := sigOf(c)
	fail := func(what string) { w.Fail(idx, what, "") }
	e, err := openStore(c)
	if err != nil {
		fmt.Fprintln(os.Stderr, "driver error: cannot open store:", err)
		os.Exit(3)
	}
	defer e.close()
	ctx := context.Background()
	terms := []string{}
	ndel, nonempty := 0, false
	for i := range c.Steps {
		st := &c.Steps[i]
		st.Err, st.Obs = "", nil
		switch st.Op {
		case "write":
			pts, err := e.points(st.Points)
			if err == nil {
				err = e.store.WriteToShard(ctx, uint64(st.Shard+1), pts)
			}
			if err != nil {
				st.Err = err.Error()
				fail("write failed: " + st.Err)
			}
			terms = append(terms, fmt.Sprintf("CWrite %d%%nat %s", st.Shard, ptsTerm(st.Points)))
		case "snap":
			sh := e.store.Shard(uint64(st.Shard + 1))
			eng, err := sh.Engine()
			if err == nil {
				err = eng.(*tsm1.Engine).WriteSnapshot()
			}
			if err != nil {
				st.Err = err.Error()
				fail("snapshot failed: " + st.Err)
			}
			terms = append(terms, fmt.Sprintf("CSnap %d%%nat", st.Shard))
		case "delete":
			ndel++
			p, m, err := buildPred(st)
			if err == nil {
				if pan := vh.Guard(func() { err = e.store.DeleteSeriesWithPredicate(ctx, db, st.Lo, st.Hi, p, m) }); pan != "" {
					err = fmt.Errorf("panic: %s", pan)
				}
			}
			if err != nil {
				st.Err = err.Error()
				fail("delete failed: " + st.Err)
			}
			st.Obs, err = e.observe()
			if err != nil {
				fail("observation failed: " + err.Error())
				st.Obs = &jobs{}
			}
			for _, sh := range st.Obs.Reads {
				for _, k := range sh {
					if len(k) > 0 {
						nonempty = true
					}
				}
			}
			mn := "None"
			if st.MName != nil {
				mn = vh.Some(vh.Bytes(*st.MName))
			}
			terms = append(terms, fmt.Sprintf("CDelete %s %s %s %s %s", vh.Z(st.Lo), vh.Z(st.Hi), coqNode(st.Pred), mn, obsTerm(st.Obs)))
		case "guard":
			ndel++
			p, m, err := buildPred(st)
			if err != nil {
				fail("guard: predicate: " + err.Error())
				continue
			}
			wa, _ := e.points(st.WA)
			if st.Hook == "" {
				st.Hook = "tsm1.delete:after-tombstones"
			}
			hmu.Lock()
			armed, hookName, hookK, hookSeen = true, st.Hook, st.K, 0
			reached, resume = make(chan struct{}), make(chan struct{})
			r, rs := reached, resume
			hmu.Unlock()
			delDone := make(chan error, 1)
			go func() { delDone <- e.store.DeleteSeriesWithPredicate(ctx, db, st.Lo, st.Hi, p, m) }()
			st.Parked = false
			select {
			case <-r:
				st.Parked = true
			case err := <-delDone:
				delDone <- err // fewer than K+1 occurrences of the point: never parked
			case <-time.After(deadline):
				fail("guard: delete neither parked nor finished within the deadline")
			}
			where := fmt.Sprintf("delete [%d,%d] parked at occurrence %d of %s", st.Lo, st.Hi, st.K, st.Hook)
			// writer A (no point inside the delete's time range) and one conflicting writer per shard
			aDone := make(chan error, 1)
			go func() { aDone <- e.store.WriteToShard(ctx, uint64(st.Shard+1), wa) }()
			bDone := make([]chan error, len(st.WBs))
			for i := range st.WBs {
				pts, _ := e.points(st.WBs[i])
				ch := make(chan error, 1)
				bDone[i] = ch
				go func(i int) { ch <- e.store.WriteToShard(ctx, uint64(i+1), pts) }(i)
			}
			done := func(ch chan error, d time.Duration) bool {
				select {
				case err := <-ch:
					ch <- err
					return true
				case <-time.After(d):
					return false
				}
			}
			st.AEarly, st.NBlocked = false, 0
			st.BDone = make([]bool, len(st.WBs))
			if st.Parked {
				st.AEarly = done(aDone, deadline)
				if !st.AEarly {
					fail("guard: a write with no point inside the delete's time range did not complete within the deadline while the " + where)
				}
				// The delete holds its guard on exactly ONE shard (earlier shards: Done, later shards: not
				// reached, limiter of 1).  All conflicting writers but one must therefore complete; wait
				// for them (generously), then give the last one a grace period: it must stay blocked.
				if len(bDone) > 0 {
					t0 := time.Now()
					for time.Since(t0) < deadline {
						n := 0
						for i, ch := range bDone {
							if !st.BDone[i] && done(ch, 0) {
								st.BDone[i] = true
							}
							if st.BDone[i] {
								n++
							}
						}
						if n >= len(bDone)-1 {
							break
						}
						time.Sleep(5 * time.Millisecond)
					}
					time.Sleep(300 * time.Millisecond)
					for i, ch := range bDone {
						if !st.BDone[i] && done(ch, 0) {
							st.BDone[i] = true
						}
						if !st.BDone[i] {
							st.NBlocked++
						}
					}
					switch {
					case st.NBlocked == 0:
						fail(fmt.Sprintf("guard: every conflicting write (one per shard, each with a point inside the delete's time range) completed while the %s: the write to the shard the delete is working on was not blocked by the delete's guard (done=%v)", where, st.BDone))
					case st.NBlocked > 1:
						fail(fmt.Sprintf("guard: %d conflicting writes are still blocked while the %s, although the delete holds its guard on one shard only (done=%v)", st.NBlocked, where, st.BDone))
					}
				}
			}
			hmu.Lock()
			armed = false
			hmu.Unlock()
			close(rs)
			st.AfterBoth = true
			for _, ch := range append([]chan error{delDone, aDone}, bDone...) {
				select {
				case err := <-ch:
					if err != nil {
						fail("guard: operation failed: " + err.Error())
					}
				case <-time.After(deadline):
					st.AfterBoth = false
					fail("guard: deadlock: an operation did not complete after the delete was released (" + where + ")")
				}
			}
			st.Obs, err = e.observe()
			if err != nil {
				fail("observation failed: " + err.Error())
				st.Obs = &jobs{}
			}
			nonempty = true
			mn := "None"
			if st.MName != nil {
				mn = vh.Some(vh.Bytes(*st.MName))
			}
			wbt := make([]string, len(st.WBs))
			for i := range st.WBs {
				wbt[i] = ptsTerm(st.WBs[i])
			}
			terms = append(terms, fmt.Sprintf("CGuard %d%%nat %s %s %s %s %s %s %s %s %s %s", st.Shard, vh.Z(st.Lo), vh.Z(st.Hi), coqNode(st.Pred), mn,
				ptsTerm(st.WA), vh.List(wbt), vh.Bool(st.Parked), vh.Bool(st.AEarly), vh.N(uint64(st.NBlocked)), obsTerm(st.Obs)))
		}
	}
	dterms := make([]string, len(c.Defs))
	for i, d := range c.Defs {
		ts := make([]string, len(d.Tags))
		for j, kv := range d.Tags {
			ts[j] = vh.Pair(vh.Bytes(kv[0]), vh.Bytes(kv[1]))
		}
		dterms[i] = vh.Pair(vh.Bytes(d.Name), vh.List(ts))
	}
	t := fmt.Sprintf("{| c_defs := %s; c_nshards := %d%%nat; c_steps := %s |}", vh.List(dterms), c.NShards, vh.List(terms))
	w.Add(t, c, ndel > 0 && nonempty, sig)
	w.Count("kind", c.Kind)
	w.Count("deletes", fmt.Sprint(ndel))
	w.Count("nshards", fmt.Sprint(c.NShards))
}

func conflicts(ps []jpoint, lo, hi int64) bool {
	for _, p := range ps {
		if p.T >= lo && p.T <= hi {
			return true
		}
	}
	return false
}

func ptsTerm(ps []jpoint) string {
	xs := make([]string, len(ps))
	for i, p := range ps {
		xs[i] = fmt.Sprintf("(%s, %s, %s)", vh.N(uint64(p.S*nFields+p.F)), vh.Z(p.T), vh.Z(p.V))
	}
	return vh.List(xs)
}
func bsTerm(bs []B) string {
	xs := make([]string, len(bs))
	for i, b := range bs {
		xs[i] = vh.Bytes(b)
	}
	return vh.List(xs)
}
func obsTerm(o *jobs) string {
	rs := make([]string, len(o.Reads))
	for i, sh := range o.Reads {
		ks := make([]string, len(sh))
		for j, k := range sh {
			ps := make([]string, len(k))
			for l, p := range k {
				ps[l] = vh.Pair(vh.Z(p[0]), vh.Z(p[1]))
			}
			ks[j] = vh.List(ps)
		}
		rs[i] = vh.List(ks)
	}
	ls := make([]string, len(o.Listed))
	for i, l := range o.Listed {
		xs := make([]string, len(l))
		for j, s := range l {
			xs[j] = vh.N(uint64(s))
		}
		ls[i] = vh.List(xs)
	}
	ms := make([]string, len(o.Meas))
	for i, m := range o.Meas {
		ms[i] = bsTerm(m)
	}
	return fmt.Sprintf("{| o_reads := %s; o_listed := %s; o_meas := %s; o_store_meas := %s |}",
		vh.List(rs), vh.List(ls), vh.List(ms), bsTerm(o.StoreMeas))
}

// ---- known-finding shapes (decided from the inputs) ----
const sigGhost = "series-listed-without-data-after-partial-tombstones"

func sigOf(c *jcase) string {
	// Repaired findings (measurement-neq-shortcut, series-key-prefix-of-another-kept-listed,
	// measurement-name-with-equals-parsed-as-tag) are no longer tolerated shapes: the corpus and
	// the generator keep producing them, any deviation is a VIOLATION again.
	snapped := map[int]bool{}
	partial := 0
	for _, st := range c.Steps {
		switch st.Op {
		case "snap":
			snapped[st.Shard] = true
		case "delete", "guard":
			if len(snapped) > 0 && !(st.Lo == math.MinInt64 && st.Hi == math.MaxInt64) {
				partial++
			}
		}
	}
	if partial >= 1 {
		return sigGhost
	}
	return ""
}

// ---- generators ----
func ref(k string) *jopnd { return &jopnd{Kind: "ref", S: B(k)} }
func lit(v string) *jopnd { return &jopnd{Kind: "lit", S: B(v)} }
func cmp(op, k, v string) *jnode {
	return &jnode{Op: op, L: ref(k), R: lit(v)}
}
func and(a, b *jnode) *jnode { return &jnode{Op: "and", A: a, B: b} }
func or(a, b *jnode) *jnode  { return &jnode{Op: "or", A: a, B: b} }

func def(name string, kv ...string) jdef {
	d := jdef{Name: B(name), Tags: [][2]B{}}
	for i := 0; i+1 < len(kv); i += 2 {
		d.Tags = append(d.Tags, [2]B{B(kv[i]), B(kv[i+1])})
	}
	sort.SliceStable(d.Tags, func(i, j int) bool { return bytes.Compare(d.Tags[i][0], d.Tags[j][0]) < 0 })
	return d
}

const M = "\x00"

func corpus() []jcase {
	all := int64(math.MaxInt64)
	min := int64(math.MinInt64)
	w := func(sh int, ps ...jpoint) jstep { return jstep{Op: "write", Shard: sh, Points: ps} }
	d := func(lo, hi int64, p *jnode, api bool) jstep {
		return jstep{Op: "delete", Lo: lo, Hi: hi, Pred: p, UseAPI: api}
	}
	defs := []jdef{def("m0", "t0", "a"), def("m0", "t0", "b", "t1", "a"), def("m1", "t0", "a"), def("m1")}
	gdefs := append(append([]jdef{}, defs...), def("w")) // series 4 = measurement "w": never selected
	return []jcase{
		{Kind: "plain", Defs: defs, NShards: 2, Note: "cache only: delete t0=a in [1,3] on both shards, then everything", Steps: []jstep{
			w(0, jpoint{0, 0, 1, 10}, jpoint{0, 0, 4, 11}, jpoint{1, 0, 2, 12}, jpoint{2, 1, 3, 13}, jpoint{3, 0, 0, 14}),
			w(1, jpoint{0, 1, 2, 20}, jpoint{2, 0, 2, 21}),
			d(1, 3, cmp("eq", "t0", "a"), true),
			d(min, all, cmp("eq", "t0", "a"), true),
			d(min, all, cmp("eq", M, "m1"), true),
		}},
		{Kind: "plain", Defs: defs, NShards: 2, Note: "TSM files: full-range deletes", Steps: []jstep{
			w(0, jpoint{0, 0, 1, 10}, jpoint{0, 0, 4, 11}, jpoint{1, 0, 2, 12}, jpoint{2, 1, 3, 13}, jpoint{3, 0, 0, 14}),
			{Op: "snap", Shard: 0},
			w(0, jpoint{0, 0, 5, 15}),
			w(1, jpoint{0, 1, 2, 20}, jpoint{2, 0, 2, 21}),
			d(min, all, and(cmp("eq", M, "m0"), cmp("neq", "t0", "b")), true),
			d(min, all, or(cmp("eq", "t1", "a"), cmp("eq", M, "m1")), false),
		}},
		{Kind: "ghost", Defs: defs, NShards: 1, Note: "FINDING shape: two disjoint partial deletes on a TSM file kill every point of a series; the key stays in the file index", Steps: []jstep{
			w(0, jpoint{0, 0, 1, 10}, jpoint{0, 0, 5, 11}, jpoint{2, 0, 3, 12}),
			{Op: "snap", Shard: 0},
			d(1, 1, cmp("eq", M, "m0"), true),
			d(5, 5, cmp("eq", M, "m0"), true),
		}},
		{Kind: "prefix", Defs: []jdef{def("m0", "t0", "b"), def("m0", "t0", "b", "t1", "a")}, NShards: 1,
			Note: "repaired finding shape: series m0,t0=b loses all its data, series m0,t0=b,t1=a (same batch, key extends the first) keeps a cached value: the first must leave the listing", Steps: []jstep{
				w(0, jpoint{0, 0, 4, 10}, jpoint{1, 0, 0, 11}),
				d(4, 6, cmp("eq", M, "m0"), true),
			}},
		{Kind: "neqm", Defs: defs, NShards: 1, Note: "repaired finding shape: _measurement != m0 through the API", Steps: []jstep{
			w(0, jpoint{0, 0, 1, 10}, jpoint{2, 0, 3, 12}, jpoint{3, 0, 3, 13}),
			d(min, all, cmp("neq", M, "m0"), true),
			d(min, all, cmp("neq", M, "zz"), true),
			d(min, all, cmp("neq", M, "m1"), true),
		}},
		{Kind: "eqname", Defs: []jdef{def("a=b", "t0", "x"), def("a=b", "a", "c"), def("m", "a", "b")}, NShards: 1,
			Note: "repaired finding (C16) end to end: measurement a=b, predicate a = \"b\"", Steps: []jstep{
				w(0, jpoint{0, 0, 1, 10}, jpoint{1, 0, 1, 11}, jpoint{2, 0, 1, 12}),
				d(min, all, cmp("eq", "a", "b"), true),
			}},
		{Kind: "guard", Defs: gdefs, NShards: 1, Note: "one shard: parked delete [1,3]; writer A outside the range, conflicting writer inside", Steps: []jstep{
			w(0, jpoint{0, 0, 1, 10}, jpoint{0, 0, 4, 11}, jpoint{2, 0, 2, 12}),
			{Op: "guard", Shard: 0, Lo: 1, Hi: 3, Pred: cmp("eq", M, "m0"), UseAPI: true, Hook: "tsm1.delete:after-tombstones", K: 0,
				WA: []jpoint{{4, 0, 5, 30}, {4, 0, 0, 31}}, WBs: [][]jpoint{{{4, 1, 2, 40}}}},
		}},
		{Kind: "guard", Defs: gdefs, NShards: 2, Note: "two shards, parked on the SECOND shard the delete processes (after its cache delete): the conflicting write to that shard must wait", Steps: []jstep{
			w(0, jpoint{0, 0, 2, 10}), w(1, jpoint{0, 0, 2, 11}),
			{Op: "guard", Shard: 1, Lo: 1, Hi: 3, Pred: cmp("eq", M, "m0"), UseAPI: true, Hook: "tsm1.delete:after-cache", K: 1,
				WA: []jpoint{{4, 0, 5, 30}}, WBs: [][]jpoint{{{4, 1, 2, 40}}, {{4, 1, 3, 41}}}},
		}},
		{Kind: "guard", Defs: gdefs, NShards: 3, Note: "three shards, parked on the THIRD shard processed (after tombstones)", Steps: []jstep{
			w(0, jpoint{0, 0, 2, 10}), w(1, jpoint{0, 0, 2, 11}), w(2, jpoint{0, 0, 1, 12}),
			{Op: "snap", Shard: 1},
			{Op: "guard", Shard: 0, Lo: 1, Hi: 3, Pred: cmp("eq", M, "m0"), UseAPI: false, Hook: "tsm1.delete:after-tombstones", K: 2,
				WA: []jpoint{{4, 0, 4, 30}}, WBs: [][]jpoint{{{4, 1, 1, 40}}, {{4, 1, 2, 41}}, {{4, 1, 3, 42}}}},
		}},
	}
}

var (
	names   = []string{"m0", "m1", "m0", "m1", "m 2"}
	tagVals = []string{"a", "b", "a b", "a,b"}
	times   = []int64{0, 1, 2, 3, 4, 5}
	bounds  = []int64{math.MinInt64, -1, 0, 1, 2, 3, 4, 5, 6, math.MaxInt64}
)

func gen(w *vh.W) jcase {
	r := w.Rng
	c := jcase{Kind: "plain", NShards: 1 + r.IntN(3)}
	switch x := r.IntN(10); {
	case x < 3:
		c.Kind = "tsm"
	case x == 3:
		c.Kind = "guard"
	}
	// series universe
	seen := map[string]bool{}
	for len(c.Defs) < 3+r.IntN(4) {
		var kv []string
		for _, k := range []string{"t0", "t1"} {
			if r.IntN(3) != 0 {
				kv = append(kv, k, tagVals[r.IntN(len(tagVals))])
			}
		}
		d := def(names[r.IntN(len(names))], kv...)
		id := fmt.Sprint(d)
		if !seen[id] {
			seen[id] = true
			c.Defs = append(c.Defs, d)
		}
	}
	pts := func(n int) []jpoint {
		var ps []jpoint
		for i := 0; i < n; i++ {
			ps = append(ps, jpoint{S: r.IntN(len(c.Defs)), F: r.IntN(nFields), T: times[r.IntN(len(times))], V: int64(r.IntN(90) + 10)})
		}
		return ps
	}
	leaf := func() *jnode {
		op := "eq"
		if r.IntN(3) == 0 {
			op = "neq"
		}
		switch r.IntN(3) {
		case 0:
			if op == "neq" && r.IntN(3) != 0 {
				op = "eq" // keep the _measurement != shape rare
			}
			return cmp(op, M, names[r.IntN(len(names))])
		case 1:
			return cmp(op, "t0", tagVals[r.IntN(len(tagVals))])
		}
		return cmp(op, "t1", tagVals[r.IntN(len(tagVals))])
	}
	var tree func(d int, api bool) *jnode
	tree = func(d int, api bool) *jnode {
		if d == 0 || r.IntN(3) == 0 {
			return leaf()
		}
		if api || r.IntN(2) == 0 {
			return and(tree(d-1, api), tree(d-1, api))
		}
		return or(tree(d-1, api), tree(d-1, api))
	}
	countM := func(n *jnode) int {
		var f func(n *jnode) int
		f = func(n *jnode) int {
			if n.Op == "and" || n.Op == "or" {
				return f(n.A) + f(n.B)
			}
			if string(n.L.S) == M {
				return 1
			}
			return 0
		}
		return f(n)
	}
	del := func() jstep {
		api := r.IntN(2) == 0
		var p *jnode
		for {
			p = tree(r.IntN(3), api)
			if !api || countM(p) <= 1 { // at most one _measurement clause in an API text
				break
			}
		}
		lo, hi := bounds[r.IntN(len(bounds))], bounds[r.IntN(len(bounds))]
		if lo > hi && (c.Kind != "plain" || r.IntN(8) != 0) {
			lo, hi = hi, lo
		}
		if c.Kind == "plain" || r.IntN(3) == 0 {
			if r.IntN(3) == 0 {
				lo, hi = math.MinInt64, math.MaxInt64
			}
		}
		return jstep{Op: "delete", Lo: lo, Hi: hi, Pred: p, UseAPI: api}
	}
	nsteps := 4 + r.IntN(6)
	snaps := map[int]int{}
	for i := 0; i < nsteps; i++ {
		sh := r.IntN(c.NShards)
		switch x := r.IntN(10); {
		case x < 5 || i == 0:
			c.Steps = append(c.Steps, jstep{Op: "write", Shard: sh, Points: pts(1 + r.IntN(6))})
		case x < 7 && c.Kind == "tsm" && snaps[sh] < 2:
			snaps[sh]++
			c.Steps = append(c.Steps, jstep{Op: "snap", Shard: sh})
		default:
			c.Steps = append(c.Steps, del())
		}
	}
	if c.Kind == "guard" {
		// The delete selects the measurement of series 0 (and possibly a second one); every shard
		// gets a point of series 0 inside the range right before, so the hook point fires at least
		// once per shard; the conflicting writers use the extra series "w", which is never selected
		// (so the end state does not depend on the order in which the shards are processed).
		c.Defs = append(c.Defs, def("w"))
		wser := len(c.Defs) - 1
		name0 := string(c.Defs[0].Name)
		lo := int64(1 + r.IntN(3))
		hi := lo + int64(r.IntN(int(4-lo)+1))
		for sh := 0; sh < c.NShards; sh++ {
			c.Steps = append(c.Steps, jstep{Op: "write", Shard: sh, Points: []jpoint{{S: 0, F: r.IntN(nFields), T: lo, V: int64(r.IntN(90) + 10)}}})
		}
		g := jstep{Op: "guard", Shard: r.IntN(c.NShards), Lo: lo, Hi: hi, Pred: cmp("eq", M, name0), UseAPI: r.IntN(2) == 0}
		if !g.UseAPI && r.IntN(2) == 0 {
			g.Pred = or(cmp("eq", M, name0), cmp("eq", M, names[r.IntN(len(names))]))
		}
		g.Hook = []string{"tsm1.delete:after-tombstones", "tsm1.delete:after-cache"}[r.IntN(2)]
		g.K = r.IntN(c.NShards)
		out := []int64{0, 5}
		for i, n := 0, 1+r.IntN(2); i < n; i++ {
			// also on the never-selected series: a write to a series of the batch that lands before the
			// delete reaches its shard would change the batch (the reconciliation is racy by design)
			g.WA = append(g.WA, jpoint{S: wser, F: 0, T: out[i%2], V: int64(r.IntN(90) + 10)})
		}
		for sh := 0; sh < c.NShards; sh++ {
			g.WBs = append(g.WBs, []jpoint{{S: wser, F: 1, T: lo + int64(r.IntN(int(hi-lo)+1)), V: int64(100 + sh)}})
		}
		c.Steps = append(c.Steps, g)
	} else {
		c.Steps = append(c.Steps, del())
	}
	return c
}

func main() {
	verifhook.Set(hook)
	w := vh.New("C17", "From Verif Require Import Base.Prelude Model.C16 Model.C17.", "case", "Model.C17.check")
	w.Rule = "random histories on a real tsdb.Store with 1-3 shards over 3-6 series (measurements m0, m1, 'm 2' x tags t0,t1 in {absent,a,b,'a b','a,b'}) x 2 integer fields x timestamps 0..5: writes to a shard, cache snapshots of a shard (kind tsm), bucket deletes DeleteSeriesWithPredicate(lo,hi,pred,measurementExpr) with lo/hi from {MinInt64,-1..6,MaxInt64} and predicates of depth<=2 over _measurement/t0/t1 with =,!=,AND (built from the delete-API text like the HTTP handler, incl. the measurement expression) or with OR (protobuf); after every delete every point of every shard is read back and the per-shard series/measurement listing, Store.MeasurementNames and TagValues(t0) are recorded. kind guard (1-3 shards): a final delete [lo,hi] parked at the K-th occurrence (K < #shards, so on the K-th shard it processes or earlier) of the hook tsm1.delete:after-tombstones or tsm1.delete:after-cache, then one writer without a point in [lo,hi] (on the never-selected series too; must complete while parked) and one conflicting writer PER SHARD on a never-selected series (all but exactly one must complete while parked: the delete holds its guard on the shard it is working on only; all complete after the release). Hand-picked cases first (incl. the finding shapes). Non-trivial: at least one delete and some point still readable after it."
	var rc jcase
	if w.ReplayCase(&rc) {
		runCase(w, &rc)
		w.Finish()
		return
	}
	if os.Getenv("VERIF_PROC") == "" || os.Getenv("VERIF_PROC") == "0" {
		for _, c := range corpus() {
			c := c
			runCase(w, &c)
		}
	}
	for w.Len() < w.N {
		c := gen(w)
		runCase(w, &c)
	}
	w.Finish()
}
