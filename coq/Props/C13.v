(** C13 — Series IDs are unique, stable and never reused.  Property theorems only.

    Setting: [reach hashp s] = [s] is reachable from the empty series file by any finite
    history of create (batches) / delete / reopen / compact on framed keys routed to one of
    the 8 partitions by [hashp] (a Section variable standing for xxhash % 8), as long as no
    partition's id sequence overflows uint64.  [f_find] = SeriesFile.SeriesID,
    [f_key] = SeriesKey, [f_deleted] = IsDeleted, [f_issued] = every id an insert entry of one of
    the partitions carries (deleted series included). *)
From Verif Require Import Base.Prelude Model.C13 Proofs.C13_bytes Proofs.C13_inv Proofs.C13_file Proofs.C13_torn.
Open Scope N_scope.

(** Same key -> same id, across every further operation except the deletion of that id. *)
Theorem C13_id_stable :
  forall hashp, (forall k, hashp k < 8) -> forall s o k id,
    reach hashp s -> op_ok hashp o -> bounded s o ->
    f_find s (kp hashp k) = id -> id <> 0 -> o <> ODelete id ->
    f_find (fst (step s o)) (kp hashp k) = id.
Proof. intros hashp H s o k id R. pose proof (reach_inv hashp H s R). eapply step_stable; eauto. Qed.
Print Assumptions C13_id_stable.

(** Distinct live keys have distinct ids (also across partitions). *)
Theorem C13_id_injective :
  forall hashp, (forall k, hashp k < 8) -> forall s k1 k2 id,
    reach hashp s -> f_find s (kp hashp k1) = id -> f_find s (kp hashp k2) = id -> id <> 0 -> k1 = k2.
Proof. intros hashp H s k1 k2 id R. pose proof (reach_inv hashp H s R). eapply file_inj; eauto. Qed.
Print Assumptions C13_id_injective.

(** Creating a key that has no id yields an id that no partition has ever issued. *)
Theorem C13_no_reuse :
  forall hashp, (forall k, hashp k < 8) -> forall s k,
    reach hashp s -> framed k -> f_find s (kp hashp k) = 0 ->
    exists id, snd (step s (OCreate [kp hashp k])) = [id] /\ id <> 0 /\ ~ f_issued s id /\
               f_find (fst (step s (OCreate [kp hashp k]))) (kp hashp k) = id.
Proof. intros hashp H s k R. pose proof (reach_inv hashp H s R). eapply create_fresh; eauto. Qed.
Print Assumptions C13_no_reuse.

(** ... and the set of issued ids only grows (so "never issued" means never, not "not now");
    a live id is an issued id. *)
Theorem C13_issued_monotone :
  forall hashp, (forall k, hashp k < 8) -> forall s o id,
    reach hashp s -> op_ok hashp o -> bounded s o ->
    f_issued s id -> f_issued (fst (step s o)) id.
Proof. intros hashp H s o id R. pose proof (reach_inv hashp H s R). eapply step_issued_mono; eauto. Qed.
Print Assumptions C13_issued_monotone.

Theorem C13_live_is_issued :
  forall hashp, (forall k, hashp k < 8) -> forall s k id,
    f_find s (kp hashp k) = id -> id <> 0 -> f_issued s id.
Proof. intros hashp H s k id. eapply find_issued; eauto. Qed.
Print Assumptions C13_live_is_issued.

(** After a delete the key has no id; re-creating it yields a NEW id that was never issued. *)
Theorem C13_recreate_fresh :
  forall hashp, (forall k, hashp k < 8) -> forall s k id,
    reach hashp s -> bounded s (ODelete id) -> framed k ->
    f_find s (kp hashp k) = id -> id <> 0 ->
    let s1 := fst (step s (ODelete id)) in
    f_find s1 (kp hashp k) = 0 /\
    exists id', snd (step s1 (OCreate [kp hashp k])) = [id'] /\ id' <> 0 /\ id' <> id /\
                ~ f_issued s id' /\
                f_find (fst (step s1 (OCreate [kp hashp k]))) (kp hashp k) = id'.
Proof.
  intros hashp H s k id R Hb Hf Hfind Hnz s1.
  pose proof (reach_inv hashp H s R) as I.
  assert (I1 : FInv s1) by (eapply (step_inv hashp H); cbn; eauto).
  assert (H0 : f_find s1 (kp hashp k) = 0) by (eapply step_delete; eauto).
  split; [assumption|].
  destruct (create_fresh hashp H s1 k I1 Hf H0) as (id' & Hr & Hnz' & Hni & Hf').
  exists id'. split; [assumption|]. split; [assumption|].
  assert (Hmono : forall x, f_issued s x -> f_issued s1 x).
  { intros x Hx. eapply (step_issued_mono hashp H); cbn; eauto. }
  split; [|split; [|assumption]].
  - intro E. rewrite E in Hni. apply Hni, Hmono. exact (find_issued hashp H s k id Hfind Hnz).
  - intro Hx. apply Hni, Hmono, Hx.
Qed.
Print Assumptions C13_recreate_fresh.

(** Reopen (rescan of the segment, [seq] recomputed from the max id found, index replayed) and
    index compaction (index rebuilt from the segment) leave every partition exactly as it was. *)
Theorem C13_survive_reopen_compact :
  forall hashp, (forall k, hashp k < 8) -> forall s p,
    reach hashp s ->
    fst (step s OReopen) p = s p /\ fst (step s OCompact) p = s p.
Proof.
  intros hashp H s p R. pose proof (reach_inv hashp H s R p) as I. cbn [step fst].
  split; [eapply reopen_id | eapply compact_id]; eauto.
Qed.
Print Assumptions C13_survive_reopen_compact.

(** SeriesKey of a live id is the key it was created for; the id is not reported deleted. *)
Theorem C13_series_key_of_live_id :
  forall hashp, (forall k, hashp k < 8) -> forall s k id,
    reach hashp s -> f_find s (kp hashp k) = id -> id <> 0 ->
    f_key s id = k /\ f_deleted s id = false.
Proof. intros hashp H s k id R. pose proof (reach_inv hashp H s R). eapply file_key; eauto. Qed.
Print Assumptions C13_series_key_of_live_id.

(** Entry framing: scanning the encoding of any log (ids < 2^64, framed keys) in the
    zero-filled segment yields exactly its entries at their offsets. *)
Theorem C13_scan_roundtrip :
  forall L, Forall wf_entry L -> scan (bytes_of L) = with_offsets L HDR.
Proof. exact scan_bytes_of. Qed.
Print Assumptions C13_scan_roundtrip.

Theorem C13_wellformed_keys_are_framed :
  forall body, N.of_nat (length body) < 16384 -> framed (mk_key body).
Proof. exact framed_mk_key. Qed.
Print Assumptions C13_wellformed_keys_are_framed.

(** Crash theorem, byte level: for EVERY prefix length [n] of the entry being appended, the scan
    yields every old entry unchanged at the same offset plus what ONE decoding step makes of the
    torn bytes: nothing if n = 0, else exactly one entry with the right flag whose id is
    [torn_id id (n-1)] (the id bytes that arrived, the rest zero) and, for an insert, whose key is
    [read_key] of the key bytes that arrived followed by zeros. *)
Theorem C13_torn_append_scan :
  forall L e n, Forall wf_entry L -> small_entry e -> (n <= length (enc e))%nat ->
    scan (bytes_of L ++ firstn n (enc e))
    = with_offsets L HDR ++ scan_go 1 (firstn n (enc e)) (HDR + N.of_nat (length (bytes_of L))).
Proof. exact torn_scan. Qed.
Print Assumptions C13_torn_append_scan.

Theorem C13_torn_entry_shape :
  forall id k m pos,
    scan_go 1 (firstn 0 (enc (Ins id k))) pos = [] /\
    scan_go 1 (firstn (S m) (enc (Ins id k))) pos =
      [{| se_flag := FLAG_INS; se_id := torn_id id m; se_off := pos;
          se_key := read_key (firstn (m - 8) k) |}] /\
    scan_go 1 (firstn (S m) (enc (Tomb id))) pos =
      [{| se_flag := FLAG_TOMB; se_id := torn_id id m; se_off := pos; se_key := [] |}].
Proof.
  intros. split; [reflexivity|]. split; [|reflexivity].
  rewrite scan_go_1_torn_ins, torn_id_app. reflexivity.
Qed.
Print Assumptions C13_torn_entry_shape.

(** The torn id: exact once all 8 id bytes arrived; 0 ("no series") for a cut inside the id
    bytes when the id is below 256; but in general the high bytes that arrived with the low
    bytes zero — for ids >= 256 ANOTHER id (e.g. 264 -> 256). *)
Theorem C13_torn_id_characterisation :
  forall id m, id < 2 ^ 64 ->
    ((8 <= m)%nat -> torn_id id m = id) /\
    (id < 256 -> (m < 8)%nat -> torn_id id m = 0) /\
    torn_id id 7 = id - id mod 256.
Proof.
  intros id m H. split; [intro; now apply torn_id_full|]. split; [apply torn_id_small | now apply torn_id_7].
Qed.
Print Assumptions C13_torn_id_characterisation.

(** FULL crash statement (refuted below): for every reachable partition state, every key [k]
    without id and every n, after [crash_append p st (Ins (seq st) k) n] every previously live key
    keeps its id, its id still reads back its key and is not deleted, and [seq] does not decrease.

    PARTIAL (proved): the same under two explicit side conditions — the partition's next id is
    below 256 (fewer than 32 series were ever created in it) and the garbage key
    [read_key (key bytes that arrived ++ zeros)] is not itself one of the live keys (it always
    contains a 0 byte where [k] continues, so this fails only for keys with embedded NUL bytes);
    key length < 128 (1-byte varint). *)
Theorem C13_torn_create_preserves_old_partial :
  forall p st body m,
    PInv p st -> N.of_nat (length body) < 128 -> seq st < 256 ->
    (S m <= length (enc (Ins (seq st) (mk_key body))))%nat ->
    let k := mk_key body in
    let st' := crash_append p st (Ins (seq st) k) (S m) in
    seq st <= seq st' /\
    forall k0 id0, find_id (ix st) k0 = id0 -> id0 <> 0 -> k0 <> read_key (firstn (m - 8) k) ->
                   find_id (ix st') k0 = id0 /\ key_of st' id0 = k0 /\ is_deleted (ix st') id0 = false.
Proof. exact crash_create_old_preserved. Qed.
Print Assumptions C13_torn_create_preserves_old_partial.

(** Repaired (fix: insert entries with id 0 are not indexed, in execEntry and compactIndexTo): a
    create torn inside its flag+id bytes, with ids below 256, is decoded as an insert entry for
    id 0 and that entry is ignored: index and seq are exactly what they were. *)
Theorem C13_torn_id_zero_entry_not_indexed :
  forall p st body m,
    PInv p st -> N.of_nat (length body) < 128 -> seq st < 256 -> (m < 8)%nat ->
    let st' := crash_append p st (Ins (seq st) (mk_key body)) (S m) in
    ix st' = ix st /\ seq st' = seq st.
Proof. exact crash_create_in_id_bytes_index_unchanged. Qed.
Print Assumptions C13_torn_id_zero_entry_not_indexed.

Theorem C13_torn_nothing_written_is_noop :
  forall p st e, PInv p st -> crash_append p st e 0 = st.
Proof. exact crash_create_zero. Qed.
Print Assumptions C13_torn_nothing_written_is_noop.

(** REFUTED without the id bound: 33 series in partition 7 (ids 8..264), a create of a 34th
    key (id 272 = 0x0110) torn after flag + 7 id bytes: the scan decodes an insert entry for id
    0x0100 = 256 with key [0]; after the restart SeriesKey(256) is no longer the key of the
    series created with id 256.  Reproduced on the real code (findings.d/C13.json). *)
Definition crash_free (o : op) : Prop :=
  match o with OCrashCreate _ _ _ | OCrashDelete _ _ => False | _ => True end.
Definition wkey (i : N) : key := mk_key [0; 1; i; 0].   (* measurement of one byte, no tags *)

Theorem C13_torn_create_preserves_old_refuted :
  exists (ops : list op) (k0 k : key) (id0 : N) (n : nat),
    Forall crash_free ops /\
    let s := run init_file ops in
    f_find s (7, k0) = id0 /\ id0 <> 0 /\ f_key s id0 = k0 /\ f_find s (7, k) = 0 /\
    let s' := fst (step s (OCrashCreate 7 k n)) in
    f_find s' (7, k0) = id0 /\ f_key s' id0 <> k0.
Proof.
  exists [OCreate (map (fun i => (7, wkey (N.of_nat i))) (List.seq 0 33))], (wkey 31), (wkey 33), 256, 8%nat.
  split; [repeat constructor|].
  vm_compute. repeat split; try reflexivity; discriminate.
Qed.
Print Assumptions C13_torn_create_preserves_old_refuted.

(** Second face of the same defect: in a partition p <> 7 the aliased id (a multiple of 256)
    belongs to partition 7's id class; [openSegments] adopts it as the maximum, so the
    partition's sequence leaves its residue class: the next series created in partition 0 gets
    id 264, which SeriesFile routes to partition 7 — SeriesKey(264) is not its key (and partition
    7 will issue 264 again). *)
Theorem C13_torn_seq_leaves_class_refuted :
  exists (ops : list op) (k k2 : key) (n : nat),
    Forall crash_free ops /\
    let s := fst (step (run init_file ops) (OCrashCreate 0 k n)) in
    exists id, snd (step s (OCreate [(0, k2)])) = [id] /\ id_part id <> 0 /\
               f_key (fst (step s (OCreate [(0, k2)]))) id <> k2.
Proof.
  exists [OCreate (map (fun i => (0, wkey (N.of_nat i))) (List.seq 0 32))], (wkey 32), (wkey 33), 8%nat.
  split; [repeat constructor|].
  exists 264. vm_compute. repeat split; try reflexivity; discriminate.
Qed.
Print Assumptions C13_torn_seq_leaves_class_refuted.

(** Non-vacuity: a concrete reachable state with two live series, a deleted and re-created
    one; the hypotheses of the theorems above are met. *)
Example C13_nonvacuous :
  let hashp := fun _ : key => 7 in
  let k1 := wkey 97 in let k2 := wkey 98 in
  let s := fst (step (fst (step (fst (step init_file (OCreate [(7, k1); (7, k2)]))) (ODelete 8)))
                     (OCreate [(7, k1)])) in
  reach hashp s /\ f_find s (7, k1) = 24 /\ f_find s (7, k2) = 16 /\ f_deleted s 8 = true /\
  f_key s 24 = k1 /\ framed k1.
Proof.
  intros hashp k1 k2 s.
  assert (Hf : forall i, framed (wkey i)) by (intro; apply framed_mk_key; cbn; lia).
  split.
  - unfold s. repeat (apply reach_step); try apply reach_init;
      try (cbn; repeat constructor; try apply Hf);
      intros p Hp; assert (p = 0 \/ p = 1 \/ p = 2 \/ p = 3 \/ p = 4 \/ p = 5 \/ p = 6 \/ p = 7) as Hc by lia;
      change (2 ^ 64) with 18446744073709551616;
      destruct Hc as [->|[->|[->|[->|[->|[->|[->| ->]]]]]]]; vm_compute; reflexivity.
  - repeat split; try (vm_compute; reflexivity).
Qed.
