(** C04 — part 11: the mirror's fuel suffices: [run_key] with [key_fuel] and [run_files] with
    [files_fuel] always return.  The potential [pot] (unread points + pending merged values +
    points of the blocks waiting in [merged]) never grows in a merge and drops with every
    block handed to the writer. *)
From Coq Require Import ZifyBool.
From Verif Require Import Base.Prelude Model.C37 Proofs.C37 Model.C04 Proofs.C04 Proofs.C04_keys Proofs.C04_size
     Proofs.C04_blocks Proofs.C04_pend Proofs.C04_window Proofs.C04_dedup Proofs.C04_term Proofs.C04_run
     Proofs.C04_files.
Local Open Scope Z_scope.

Section Total.
  Context {V : Type}.
  Notation arr := (arr V).
  Notation blk := (blk V).
  Notation st := (st V).
  Variable sp : Z -> option V.
  Variable size : nat.
  Hypothesis size_pos : (0 < size)%nat.
  Variable fast : bool.

  Lemma merge_total fuel L E s :
    ginv sp L E s -> small s -> s_merged s = [] -> (usum (s_blocks s) < fuel)%nat ->
    exists s', merge fuel size fast s = Some s'.
  Proof.
    intros [Hd Hw] Hsm Hm Hf. unfold merge. rewrite (sort_blocks_small _ Hsm).
    destruct (negb (nonempty (s_blocks s)) && negb (nonempty (s_merged s)) && negb (nonempty (s_mv s)));
      [eexists; reflexivity|].
    unfold pre_of in Hd. rewrite Hm in Hd. rewrite app_nil_r in Hd.
    destruct (dinv_sort sp L _ _ Hd) as [Hds Ha].
    unfold combine. cbn [s_blocks s_merged s_mv].
    destruct (nonempty (s_mv s) || need_dedup (isort (s_blocks s))).
    - rewrite <- (usum_isort size size_pos) in Hf.
      destruct (dedup_loop_total sp size size_pos _ fuel L _ (s_mv s) Hds Ha Hf) as [[bs' mv1] El].
      rewrite El. destruct (chunk size [] mv1). eexists; reflexivity.
    - destruct (pass_full size (isort (s_blocks s)) (s_merged s)) as [m1 r1].
      destruct (if fast then (m1 ++ unread r1, []) else (m1, r1)) as [m2 r2].
      destruct (match r2 with [b] => (if is_read b then m2 else m2 ++ [b], []) | _ => (m2, r2) end) as [m3 r3].
      destruct (decode_rest size r3 (s_mv s)) as [r4 mv]. destruct (chunk size m3 mv). eexists; reflexivity.
  Qed.

  Lemma wfb_len (b : blk) : wfb b -> (1 <= length (b_vals b))%nat.
  Proof.
    unfold wfb, wf_blk, wf_block. intro H. destruct (b_vals b); [discriminate|cbn; lia].
  Qed.

  (** [next] returns, and what it returns has a smaller potential (strictly, if a block was
      popped) *)
  Lemma next_total fuel L E s :
    ginv sp L E s -> small s -> (pot s < fuel)%nat ->
    exists r, next fuel size fast s = Some r /\
      match r with
      | Some s' => (pot s' + (if nonempty (s_merged s) then 1 else 0) <= pot s)%nat
      | None => True
      end.
  Proof.
    intros Hg Hsm Hf. unfold next.
    set (s1 := match s_merged s with [] => s | _ :: m => mkst (s_blocks s) m (s_mv s) end).
    set (E1 := E ++ firstn 1 (s_merged s)).
    assert (Hsm1 : small s1) by (subst s1; unfold small in *; destruct (s_merged s); exact Hsm).
    assert (H1 : ginv sp L E1 s1 /\ (pot s1 + (if nonempty (s_merged s) then 1 else 0) <= pot s)%nat).
    { subst s1 E1. destruct Hg as [Hd Hw]. unfold pre_of in Hd. destruct (s_merged s) as [|h m] eqn:Em.
      - cbn [firstn nonempty]. rewrite app_nil_r. split; [|lia].
        split; [unfold pre_of; rewrite Em; exact Hd|rewrite Em; exact Hw].
      - cbn [firstn nonempty]. split.
        + split; cbn [s_blocks s_merged s_mv]; unfold pre_of; cbn [s_merged];
            rewrite <- app_assoc; cbn [app]; assumption.
        + unfold pot. cbn [s_blocks s_merged s_mv]. rewrite Em.
          change (h :: m) with ([h] ++ m). rewrite plen_app.
          assert (wfb h) as Wh by (rewrite Forall_forall in Hw; apply Hw; apply in_or_app; right; left; reflexivity).
          apply wfb_len in Wh.
          assert (Hh : plen [h] = length (b_vals h)) by (unfold plen; cbn [map concat]; rewrite app_nil_r; reflexivity).
          rewrite Hh. lia. }
    destruct H1 as [H1 Hp1]. clearbody s1 E1.
    set (d := (if nonempty (s_merged s) then 1 else 0)%nat) in *. clearbody d.
    destruct (nonempty (s_merged s1)) eqn:En; [eexists; split; [reflexivity|exact Hp1]|].
    apply nonempty_false in En.
    assert (Hu1 : (usum (s_blocks s1) < fuel)%nat) by (unfold pot in *; lia).
    destruct (nonempty (s_mv s1)) eqn:Ev.
    - destruct (merge_total fuel L E1 s1 H1 Hsm1 En Hu1) as [s3 Emg]. rewrite Emg.
      destruct (merge_spec sp size size_pos fast fuel L E1 s1 s3 H1 Hsm1 En Emg) as [L3 [H3 [Hne [Hfin Hpot]]]].
      destruct (nonempty (s_merged s3) || nonempty (s_mv s3)) eqn:E3; [eexists; split; [reflexivity|]|].
      { cbv beta iota. lia. }
      apply orb_false_iff in E3 as [E4 E5]. apply nonempty_false in E4, E5.
      rewrite (Hfin E4 E5). cbn [nonempty]. eexists; split; [reflexivity|exact I].
    - destruct (nonempty (s_blocks s1)) eqn:Eb; [|eexists; split; [reflexivity|exact I]].
      destruct (merge_total fuel L E1 s1 H1 Hsm1 En Hu1) as [s3 Emg]. rewrite Emg.
      destruct (merge_spec sp size size_pos fast fuel L E1 s1 s3 H1 Hsm1 En Emg) as [L3 [H3 [Hne [Hfin Hpot]]]].
      destruct (nonempty (s_merged s3) || nonempty (s_mv s3)); eexists; (split; [reflexivity|]); [cbv beta iota; lia|exact I].
  Qed.

  Lemma run_key_total : forall fuel L E s,
    ginv sp L E s -> small s -> (pot s + (if nonempty (s_merged s) then 0 else 1) < fuel)%nat ->
    exists out, run_key fuel size fast s = Some out.
  Proof.
    induction fuel as [|f IH]; intros L E s Hg Hsm Hf; [lia|]. cbn [run_key].
    assert (Hf' : (pot s < S f)%nat) by (destruct (nonempty (s_merged s)); lia).
    destruct (next_total (S f) L E s Hg Hsm Hf') as [r [En Hp]]. rewrite En.
    pose proof (next_spec sp size size_pos fast (S f) L E s r Hg Hsm En) as Hn.
    destruct r as [s'|]; [|eexists; reflexivity].
    destruct Hn as [L' [Hg' Hne]].
    assert (Hsm' : small s') by (pose proof (next_length size _ _ _ _ Hsm En); unfold small in *; lia).
    assert (Hne' : nonempty (s_merged s') = true) by (destruct (s_merged s'); [congruence|reflexivity]).
    destruct (IH L' _ s' Hg' Hsm') as [o Eo].
    - rewrite Hne'. destruct (nonempty (s_merged s)); lia.
    - rewrite Eo. eexists; reflexivity.
  Qed.
End Total.

Section TotalFiles.
  Context {V : Type}.
  Notation arr := (arr V).
  Notation blk := (blk V).
  Notation file := (file V).

  Lemma total_points_fold : forall (bs : list blk) a,
    fold_left (fun n b => (n + length (b_vals b))%nat) bs a = (a + plen bs)%nat.
  Proof.
    induction bs as [|b r IH]; intro a; cbn [fold_left]; [unfold plen; cbn; lia|].
    rewrite IH. unfold plen. cbn [map concat]. rewrite app_length. lia.
  Qed.

  Lemma usum_le_plen (size : nat) (Hs : (0 < size)%nat) : forall bs : list blk, (usum bs <= plen bs)%nat.
  Proof.
    induction bs as [|b r IH]; [unfold plen; cbn; lia|]. cbn [usum]. unfold plen in *. cbn [map concat].
    rewrite app_length. pose proof (filter_len_le size Hs (fun p : Z * V => negb (in_range (b_rmin b) (b_rmax b) p)) (b_vals b)).
    unfold unr. lia.
  Qed.

  Lemma run_key_fuel_enough (size : nat) (fast : bool) (bs : list blk) :
    (0 < size)%nat -> (length bs <= 20)%nat -> Forall bwf bs -> Forall isfresh bs ->
    exists out, run_key (key_fuel bs) size fast (mkst bs [] []) = Some out.
  Proof.
    intros Hs Hsm W F. set (sp := fun t => plast t bs).
    assert (Hg : ginv sp (MinInt64 - 1) [] (mkst bs [] [])).
    { split; cbn; [|constructor]. split; cbn; auto.
      - apply Forall_forall. intros b Hb. rewrite Forall_forall in W, F.
        apply isfresh_bok; auto. intros p Hp. pose proof (wf_range b (W b Hb) p Hp).
        unfold MinInt64, MaxInt64 in *. lia.
      - intros p []. }
    apply (run_key_total sp size Hs fast (key_fuel bs) _ [] _ Hg Hsm).
    unfold pot, key_fuel, total_points. cbn [s_blocks s_merged s_mv nonempty].
    rewrite total_points_fold. pose proof (usum_le_plen size Hs bs). unfold plen at 1. cbn. lia.
  Qed.

  Fixpoint gsum (fs : list file) : nat := match fs with [] => 0%nat | f :: r => (length f + gsum r)%nat end.

  Lemma files_fuel_gsum (fs : list file) : files_fuel fs = S (gsum fs).
  Proof.
    unfold files_fuel.
    assert (H : forall (fs : list file) a, fold_left (fun n (f : file) => (n + length f)%nat) fs a = (a + gsum fs)%nat).
    { induction fs0 as [|f r IH]; intro a; cbn [fold_left gsum]; [lia|]. rewrite IH. lia. }
    rewrite H. lia.
  Qed.

  Lemma min_key_head (fs : list file) : forall acc k,
    fold_left mk_step fs acc = Some k -> acc = Some k \/ exists f g f', In f fs /\ f = g :: f' /\ gkey g = k.
  Proof.
    induction fs as [|f r IH]; intros acc k; cbn [fold_left]; [auto|].
    intro H. apply IH in H as [H|[f0 [g0 [f0' [H1 [H2 H3]]]]]]; [|right; exists f0, g0, f0'; cbn; auto].
    destruct f as [|g f']; cbn in H; [auto|].
    destruct acc as [a|].
    - destruct (gkey g <? a)%N; [|auto]. inversion H; subst. right. exists (g :: f'), g, f'. cbn; auto.
    - inversion H; subst. right. exists (g :: f'), g, f'. cbn; auto.
  Qed.

  Lemma take_key_gsum k : forall (fs : list file) bs fs',
    take_key k fs = (bs, fs') ->
    (gsum fs' <= gsum fs)%nat /\
    ((exists f g f', In f fs /\ f = g :: f' /\ gkey g = k) -> (gsum fs' < gsum fs)%nat).
  Proof.
    induction fs as [|f r IH]; intros bs fs'; cbn [take_key].
    - intros [= <- <-]. split; [lia|]. intros [f [g [f' [[] _]]]].
    - destruct (take_key k r) as [bs0 r'] eqn:E. destruct (IH _ _ eq_refl) as [I1 I2].
      destruct f as [|g f'].
      + intros [= <- <-]. cbn [gsum length]. split; [lia|].
        intros [f0 [g0 [f0' [[<-|Hin] [Hf Hk]]]]]; [discriminate|].
        assert (gsum r' < gsum r)%nat by (apply I2; exists f0, g0, f0'; auto). lia.
      + destruct (N.eqb_spec (gkey g) k) as [Ek|Ek]; intros [= <- <-]; cbn [gsum length].
        * split; lia.
        * split; [lia|]. intros [f0 [g0 [f0' [[<-|Hin] [Hf Hk]]]]].
          -- inversion Hf; subst. congruence.
          -- assert (gsum r' < gsum r)%nat by (apply I2; exists f0, g0, f0'; auto). lia.
  Qed.

  Lemma gsum_zero_min : forall fs : list file, gsum fs = 0%nat -> min_key fs = None.
  Proof.
    unfold min_key. change (forall fs : list file, gsum fs = 0%nat -> fold_left mk_step fs None = None).
    induction fs as [|f r IH]; intro H; [reflexivity|]. cbn [gsum] in H.
    destruct f as [|g f']; [|cbn in H; lia]. cbn [fold_left mk_step]. apply IH. cbn in H. lia.
  Qed.

  Lemma run_files_total (size : nat) (fast : bool) (Hs : (0 < size)%nat) : forall kfuel (fs : list file),
    Forall fwf fs -> (forall k, (kcount k fs <= 20)%nat) -> (gsum fs <= kfuel)%nat ->
    exists sq, run_files kfuel size fast fs = Some sq.
  Proof.
    induction kfuel as [|kf IH]; intros fs W Hsm Hk; cbn [run_files].
    - rewrite gsum_zero_min by lia. eexists; reflexivity.
    - destruct (min_key fs) as [k0|] eqn:Em; [|eexists; reflexivity].
      destruct (take_key k0 fs) as [bs fs'] eqn:Etk.
      pose proof (keys_ge_min fs k0 W Em) as Hge.
      destruct (take_key_spec k0 fs bs fs' Etk W Hge) as [_ [_ [_ [T4 [T5 T6]]]]].
      assert (Hlen : (length bs <= 20)%nat) by (rewrite (take_key_count k0 fs bs fs' Etk W Hge); apply Hsm).
      destruct (run_key_fuel_enough size fast bs Hs Hlen T4 T5) as [out Eo]. rewrite Eo.
      assert (Hsm' : forall k, (kcount k fs' <= 20)%nat)
        by (intro k1; pose proof (take_key_count_le k0 fs bs fs' Etk k1); specialize (Hsm k1); lia).
      destruct (take_key_gsum k0 fs bs fs' Etk) as [_ G2].
      destruct (min_key_head fs None k0 Em) as [H|H]; [discriminate|]. specialize (G2 H).
      destruct (IH fs' T6 Hsm') as [rest Er]; [lia|]. rewrite Er. eexists; reflexivity.
  Qed.

  (** the compactor mirror always returns on well-formed inputs *)
  Lemma compact_total (size : nat) (fast : bool) (fs : list file) :
    (0 < size)%nat -> Forall fwf fs -> (forall k, (kcount k fs <= 20)%nat) ->
    exists files, compact size fast fs = Some files.
  Proof.
    intros Hs W Hsm. unfold compact.
    destruct (run_files_total size fast Hs (files_fuel fs) fs W Hsm) as [sq E]; [rewrite files_fuel_gsum; lia|].
    rewrite E. eexists; reflexivity.
  Qed.
End TotalFiles.
