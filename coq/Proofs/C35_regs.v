(** C35 — sketch-level theorems about the HyperLogLog++ model, relative to the interface
    [iface] of bit-level / codec facts (see [Proofs/C35_regs_iface.v]).  This file only
    re-exports the parts; [Proofs/C35.v] instantiates the interface with the real lemmas.

    - [C35_regs_base]    zip_max / reg_update algebra, registers depend only on the key SET
    - [C35_regs_wf]      canonical forms, [wfs]/[wf], preservation, [regs_add]
    - [C35_regs_merge]   merge = register-wise max; comm/assoc/idem; regs_of_list; regs_of_union
    - [C35_regs_marshal] marshal/unmarshal round trip
    - [C35_regs_hist]    the oracle holds on every history *)
From Verif Require Export Proofs.C35_regs_base Proofs.C35_regs_iface Proofs.C35_regs_wf
  Proofs.C35_regs_merge Proofs.C35_regs_marshal Proofs.C35_regs_hist.
