(** C36 (part 3) — radix tree, mirror of /repo/pkg/radix/tree.go.

    The package offers [Insert] (insert-if-absent: an existing key keeps its value, the old
    value is returned with [false]), [Get], [DeletePrefix], [Len], [Minimum], [Maximum];
    there is no exported walk and no longest-prefix query in this fork.  The unexported
    pre-order [recursiveWalk] (used by [deletePrefix] to count) is observed by the driver
    through an add-only verif hook.

    A node = (leaf, prefix, edges); edges are kept sorted by label ([addEdge] bisects to the
    first label >= the new one; [getEdge] searches linearly below 16 edges and bisects above;
    [replaceEdge] bisects).  The model searches an edge linearly by label and inserts a new
    edge before the first label >= it: identical on sorted, duplicate-free edge lists, which
    is an invariant of the code ([Proofs/C36_radix.v], [rwf]).

    Byte slices are values here: [t.buf.Copy] gives every stored key/prefix its own memory
    ([out[:len:len]] caps the capacity, so later appends cannot write into a neighbour);
    re-slicing [n.prefix = n.prefix[commonPrefix:]] and [mergeChild]'s fresh concatenation
    are list operations.  The driver overwrites its key buffers after every call to check
    the copy.  Locks are not modelled (note: [Insert] mutates under [RLock]).

    [DeletePrefix] empties the node that the prefix leads to, unlinks it from its parent
    ([delEdge]) and, if the parent is then a non-root, non-leaf node with a single edge,
    [mergeChild] merges the remaining child into the parent.

    No proofs in this file. *)
From Verif Require Import Base.Prelude Model.C36_rhh.

Inductive rnode := RNode (leaf : option (bytes * Z)) (prefix : bytes) (es : redges)
with redges := ENil | ECons (label : N) (child : rnode) (rest : redges).

Definition r_leaf (n : rnode) := match n with RNode l _ _ => l end.
Definition r_prefix (n : rnode) := match n with RNode _ p _ => p end.
Definition r_edges (n : rnode) := match n with RNode _ _ e => e end.

Record rtree := { r_root : rnode; r_size : Z }.
Definition r_new : rtree := {| r_root := RNode None [] ENil; r_size := 0 |}.

(** [longestPrefix(k1, k2)] *)
Fixpoint lcp (a b : bytes) : nat :=
  match a, b with
  | x :: a', y :: b' => if N.eqb x y then S (lcp a' b') else O
  | _, _ => O
  end.
(** [bytes.HasPrefix(s, p)] *)
Fixpoint has_prefix (s p : bytes) : bool :=
  match p, s with
  | [], _ => true
  | y :: p', x :: s' => N.eqb x y && has_prefix s' p'
  | _ :: _, [] => false
  end.

(** [addEdge]: insert before the first edge whose label is >= the new label. *)
Fixpoint add_edge (es : redges) (l : N) (n : rnode) : redges :=
  match es with
  | ENil => ECons l n ENil
  | ECons l' n' rest => if N.ltb l' l then ECons l' n' (add_edge rest l n) else ECons l n es
  end.

Fixpoint ecount (es : redges) : nat :=
  match es with ENil => O | ECons _ _ r => S (ecount r) end.

(** [recursiveWalk]: pre-order, leaf first, then the edges in order. *)
Fixpoint walk (n : rnode) : list (bytes * Z) :=
  match n with
  | RNode leaf _ es => (match leaf with Some kv => [kv] | None => [] end) ++ walk_edges es
  end
with walk_edges (es : redges) : list (bytes * Z) :=
  match es with
  | ENil => []
  | ECons _ ch rest => walk ch ++ walk_edges rest
  end.

(** [Get]: [get_node n search] — [n]'s own prefix has already been consumed. *)
Fixpoint get_node (n : rnode) (search : bytes) : option Z :=
  match n with
  | RNode leaf _ es =>
      match search with
      | [] => match leaf with Some (_, v) => Some v | None => None end
      | c :: _ => get_edges es c search
      end
  end
with get_edges (es : redges) (c : N) (search : bytes) : option Z :=
  match es with
  | ENil => None
  | ECons l ch rest =>
      if N.eqb l c then
        match ch with
        | RNode _ cp _ =>
            if has_prefix search cp then get_node ch (skipn (length cp) search) else None
        end
      else get_edges rest c search
  end.

(** [Insert(s, v)]: [ins_node n search] with [n]'s prefix consumed; result = (new node,
    inserted, returned value).  The split case builds [child] with the common prefix, hangs the
    old node (prefix shortened) under it and adds the new leaf to [child] itself or as a
    second edge. *)
Fixpoint ins_node (n : rnode) (search s : bytes) (v : Z) {struct n} : rnode * bool * Z :=
  match n with
  | RNode leaf p es =>
      match search with
      | [] =>
          match leaf with
          | Some (_, old) => (n, false, old)
          | None => (RNode (Some (s, v)) p es, true, v)
          end
      | c :: _ =>
          match ins_edges es c search s v with
          | Some (es', ins, r) => (RNode leaf p es', ins, r)
          | None => (RNode leaf p (add_edge es c (RNode (Some (s, v)) search ENil)), true, v)
          end
      end
  end
with ins_edges (es : redges) (c : N) (search s : bytes) (v : Z) {struct es}
  : option (redges * bool * Z) :=
  match es with
  | ENil => None
  | ECons l ch rest =>
      if N.eqb l c then
        match ch with
        | RNode cl cp ces =>
            let k := lcp search cp in
            if Nat.eqb k (length cp) then
              let '(ch', ins, r) := ins_node ch (skipn k search) s v in
              Some (ECons l ch' rest, ins, r)
            else
              let lower := add_edge ENil (nth k cp 0%N) (RNode cl (skipn k cp) ces) in
              let search' := skipn k search in
              let child :=
                match search' with
                | [] => RNode (Some (s, v)) (firstn k search) lower
                | c' :: _ =>
                    RNode None (firstn k search)
                          (add_edge lower c' (RNode (Some (s, v)) search' ENil))
                end in
              Some (ECons l child rest, true, v)
        end
      else
        match ins_edges rest c search s v with
        | Some (rest', ins, r) => Some (ECons l ch rest', ins, r)
        | None => None
        end
  end.

Definition r_insert (t : rtree) (s : bytes) (v : Z) : rtree * bool * Z :=
  let '(root', ins, r) := ins_node (r_root t) s s v in
  ({| r_root := root'; r_size := if ins then (r_size t + 1)%Z else r_size t |}, ins, r).

Definition r_get (t : rtree) (s : bytes) : option Z := get_node (r_root t) s.

Definition is_none {A} (o : option A) : bool := match o with None => true | Some _ => false end.

(** [deletePrefix(parent, n, prefix)].  [del_node is_root n prefix] runs the "look for an edge"
    part at [n] for a non-empty prefix; [del_edges] returns the updated edges (the emptied
    child's edge removed), the number of deleted entries, and whether the child was emptied at
    this level (then [n] may have to merge its single remaining child). *)
Fixpoint del_node (is_root : bool) (n : rnode) (prefix : bytes) {struct n} : rnode * Z :=
  match n with
  | RNode leaf p es =>
      match prefix with
      | [] => (RNode None p ENil, Z.of_nat (length (walk n)))
      | c :: _ =>
          match del_edges es c prefix with
          | None => (n, 0%Z)
          | Some (es', cnt, cleared) =>
              if cleared && negb is_root && is_none leaf then
                match es' with
                | ECons _ (RNode cl cp ces) ENil => (RNode cl (p ++ cp) ces, cnt)   (* mergeChild *)
                | _ => (RNode leaf p es', cnt)
                end
              else (RNode leaf p es', cnt)
          end
      end
  end
with del_edges (es : redges) (c : N) (prefix : bytes) {struct es}
  : option (redges * Z * bool) :=
  match es with
  | ENil => None
  | ECons l ch rest =>
      if N.eqb l c then
        match ch with
        | RNode cl cp ces =>
            if negb (has_prefix cp prefix) && negb (has_prefix prefix cp) then None
            else
              let prefix' := if Nat.ltb (length prefix) (length cp) then []
                             else skipn (length cp) prefix in
              match prefix' with
              | [] => Some (rest, Z.of_nat (length (walk ch)), true)      (* delEdge *)
              | _ :: _ =>
                  let '(ch', cnt) := del_node false ch prefix' in
                  Some (ECons l ch' rest, cnt, false)
              end
        end
      else
        match del_edges rest c prefix with
        | Some (rest', cnt, cl) => Some (ECons l ch rest', cnt, cl)
        | None => None
        end
  end.

Definition r_delete_prefix (t : rtree) (prefix : bytes) : rtree * Z :=
  let '(root', cnt) := del_node true (r_root t) prefix in
  ({| r_root := root'; r_size := (r_size t - cnt)%Z |}, cnt).

(** [Minimum]: follow first edges until a leaf; a node with neither leaf nor edges ends the
    search with "not found". Structural on the tree. *)
Fixpoint min_node (n : rnode) : option (bytes * Z) :=
  match n with
  | RNode (Some kv) _ _ => Some kv
  | RNode None _ es => match es with ENil => None | ECons _ ch _ => min_node ch end
  end.
(** [Maximum]: follow last edges while there are edges; then the leaf if any. *)
Fixpoint max_node (n : rnode) : option (bytes * Z) :=
  match n with
  | RNode leaf _ es =>
      match max_edges es with
      | Some r => r
      | None => leaf
      end
  end
with max_edges (es : redges) : option (option (bytes * Z)) :=
  match es with
  | ENil => None
  | ECons _ ch rest =>
      match max_edges rest with
      | Some r => Some r
      | None => Some (max_node ch)
      end
  end.

Inductive rop :=
| RInsert (k : bytes) (v : Z) | RGet (k : bytes) | RDelPrefix (p : bytes) | RMin | RMax.

(** Observation per op: (value, flag, key, Len after the op).
    Insert: (returned value, inserted, []); Get: (value or 0, found, []);
    DeletePrefix: (count, true, []); Min/Max: (value or 0, found, key or []). *)
Definition robs := (Z * bool * bytes * Z)%type.

Definition r_step (t : rtree) (o : rop) : rtree * robs :=
  match o with
  | RInsert k v => let '(t', ins, r) := r_insert t k v in (t', (r, ins, [], r_size t'))
  | RGet k => match r_get t k with
              | Some v => (t, (v, true, [], r_size t))
              | None => (t, (0%Z, false, [], r_size t))
              end
  | RDelPrefix p => let '(t', cnt) := r_delete_prefix t p in (t', (cnt, true, [], r_size t'))
  | RMin => match min_node (r_root t) with
            | Some (k, v) => (t, (v, true, k, r_size t))
            | None => (t, (0%Z, false, [], r_size t))
            end
  | RMax => match max_node (r_root t) with
            | Some (k, v) => (t, (v, true, k, r_size t))
            | None => (t, (0%Z, false, [], r_size t))
            end
  end.
Fixpoint r_run (t : rtree) (ops : list rop) : rtree * list robs :=
  match ops with
  | [] => (t, [])
  | o :: r => let '(t', ob) := r_step t o in let '(t'', obs) := r_run t' r in (t'', ob :: obs)
  end.

(** ** The abstract sorted map (independent oracle): a list sorted by [bytes_ltb]. *)
Fixpoint smap_get (k : bytes) (a : list (bytes * Z)) : option Z :=
  match a with
  | [] => None
  | (k', v') :: r => if bytes_eqb k' k then Some v' else smap_get k r
  end.
(** insert-if-absent at the sorted position *)
Fixpoint smap_insert (k : bytes) (v : Z) (a : list (bytes * Z)) : list (bytes * Z) :=
  match a with
  | [] => [(k, v)]
  | (k', v') :: r =>
      if bytes_eqb k' k then a
      else if bytes_ltb k' k then (k', v') :: smap_insert k v r
      else (k, v) :: a
  end.
Definition smap_delete_prefix (p : bytes) (a : list (bytes * Z)) : list (bytes * Z) :=
  filter (fun kv => negb (has_prefix (fst kv) p)) a.

Definition smap_step (a : list (bytes * Z)) (o : rop) : list (bytes * Z) :=
  match o with
  | RInsert k v => smap_insert k v a
  | RDelPrefix p => smap_delete_prefix p a
  | _ => a
  end.

Definition robs_eqb (x y : robs) : bool :=
  let '(v, b, k, n) := x in let '(v', b', k', n') := y in
  Z.eqb v v' && Bool.eqb b b' && bytes_eqb k k' && Z.eqb n n'.

Definition smap_obs (a : list (bytes * Z)) (o : rop) : robs :=
  let a' := smap_step a o in
  let n := Z.of_nat (length a') in
  match o with
  | RInsert k v => match smap_get k a with
                   | Some old => (old, false, [], n)
                   | None => (v, true, [], n)
                   end
  | RGet k => match smap_get k a with
              | Some v => (v, true, [], n)
              | None => (0%Z, false, [], n)
              end
  | RDelPrefix p => (Z.of_nat (length a) - n, true, [], n)%Z
  | RMin => match a with
            | (k, v) :: _ => (v, true, k, n)
            | [] => (0%Z, false, [], n)
            end
  | RMax => match rev a with
            | (k, v) :: _ => (v, true, k, n)
            | [] => (0%Z, false, [], n)
            end
  end.
Fixpoint smap_oracle (a : list (bytes * Z)) (ops : list rop) (obs : list robs) : bool :=
  match ops, obs with
  | [], [] => true
  | o :: r, ob :: obs' => robs_eqb ob (smap_obs a o) && smap_oracle (smap_step a o) r obs'
  | _, _ => false
  end.

Definition kv_eqb (x y : bytes * Z) : bool := bytes_eqb (fst x) (fst y) && Z.eqb (snd x) (snd y).

(** [obs]: per-op observations of the real tree; [wlk]: the final pre-order walk (hook). *)
Definition check_radix (ops : list rop) (obs : list robs) (wlk : list (bytes * Z)) : verdict :=
  let '(t, mobs) := r_run r_new ops in
  let same := list_eqb robs_eqb obs mobs && list_eqb kv_eqb wlk (walk (r_root t)) in
  let ok := smap_oracle [] ops obs && list_eqb kv_eqb wlk (fold_left smap_step ops []) in
  judge same ok.
